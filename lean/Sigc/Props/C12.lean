import Sigc.Model
import Sigc.Lemmas.Basic
import Sigc.Lemmas.StepSlots
import Sigc.Lemmas.StepSlots2
import Sigc.Lemmas.StepSlots3
import Sigc.Spec
/-!
# C12 — blocking suspends a slot without disconnecting it
-/
namespace Sigc.C12
open Sigc.Model Sigc.StepSlots

/-- `block()/unblock()` on a slot variable returns the previous state, sets the new one, and affects
    only that slot: no other slot variable, no signal, no connection changes -/
theorem blockS_returns_previous_only_that_slot (s s' : St) (r : String) (i : Nat) (b : Bool) (v : SlotVar)
    (hv : aget s.S i = some v) (h : stepSimple s (.blockS i b) = some (s', r)) :
    r = bstr v.slot.blocked ∧
    aget s'.S i = some { v with slot := { v.slot with blocked := b } } ∧
    (∀ k, k ≠ i → aget s'.S k = aget s.S k) ∧
    s'.impls = s.impls ∧ s'.C = s.C ∧ s'.K = s.K := by
  simp only [stepSimple, hv] at h
  simp at h
  obtain ⟨rfl, rfl⟩ := h
  refine ⟨rfl, by simp, ?_, rfl, rfl, rfl⟩
  intro k hk
  exact aget_aset_other _ _ _ _ hk

/-- blocking keeps the slot's representation (it stays connected / non-empty) -/
theorem blockS_keeps_rep (s s' : St) (r : String) (i : Nat) (b : Bool) (v : SlotVar)
    (hv : aget s.S i = some v) (h : stepSimple s (.blockS i b) = some (s', r)) :
    ∃ v', aget s'.S i = some v' ∧ v'.slot.rep = v.slot.rep ∧ v'.slot.empty = v.slot.empty := by
  obtain ⟨_, h2, _⟩ := blockS_returns_previous_only_that_slot s s' r i b v hv h
  exact ⟨_, h2, rfl, rfl⟩

/-- `signal.block(b)` sets the state of every slot in the list at that moment (and touches no other list) -/
theorem blockG_sets_all_current (s s' : St) (r : String) (g im : Nat) (b : Bool) (h0 : Handle) (x : Impl)
    (hg : aget s.G g = some h0) (hi : h0.impl = some im) (hx : aget s.impls im = some x)
    (h : stepSimple s (.blockG g b) = some (s', r)) :
    (∃ x', aget s'.impls im = some x' ∧ x'.cells.map (·.id) = x.cells.map (·.id) ∧
           ∀ c ∈ x'.cells, c.slot.blocked = b) ∧
    (∀ k, k ≠ im → aget s'.impls k = aget s.impls k) := by
  simp only [stepSimple, hg, hi, hx] at h
  simp at h
  obtain ⟨rfl, rfl⟩ := h
  constructor
  · refine ⟨{ x with cells := x.cells.map (fun c => { c with slot := { c.slot with blocked := b } }) },
            by simp [setImpl], ?_, ?_⟩
    · simp [List.map_map, Function.comp_def]
    · intro c hc
      simp at hc
      obtain ⟨c0, _, rfl⟩ := hc
      rfl
  · intro k hk
    simp [setImpl]
    exact aget_aset_other _ _ _ _ hk

/-- `signal.blocked()` answers "all slots blocked", which is true for an empty list and for a signal
    that never had a list -/
theorem blockedG_vacuous (s : St) (g : Nat) (h0 : Handle) (hg : aget s.G g = some h0) (hi : h0.impl = none) :
    stepSimple s (.blockedGq g) = some (s, "1") := by
  simp [stepSimple, hg, hi]

theorem blockedG_iff_all (s : St) (g im : Nat) (h0 : Handle) (x : Impl)
    (hg : aget s.G g = some h0) (hi : h0.impl = some im) (hx : aget s.impls im = some x) :
    stepSimple s (.blockedGq g) = some (s, bstr (x.cells.all (·.slot.blocked))) := by
  simp [stepSimple, hg, hi, hx]

/-- invoking a blocked slot through an emission loop step does nothing: the non-accumulating loop
    skips a blocked cell (one unfolding of `emitLoop`) — for every functor, fuel and program -/
theorem emitLoop_skips_blocked (f : Nat) (P : Prog) (s : St) (i cur m arg r : Nat) (im : Impl) (c : Cell)
    (hne : cur ≠ m) (hi : aget s.impls i = some im) (hc : im.cells.find? (·.id = cur) = some c)
    (hb : c.slot.blocked = true) (nxt : Nat) (hn : succId im.cells cur = some nxt) :
    emitLoop (f+1) P s i cur m arg r = emitLoop f P s i nxt m arg r := by
  rw [emitLoop]
  simp only [hne, if_false, hi, hc]
  cases hrep : c.slot.rep with
  | none => simp [hi, hn]
  | some rp =>
    obtain ⟨call, fn⟩ := rp
    cases call <;> cases fn <;> simp [hb, hi, hn]

example : stepSimple { S := [(0, { isVoid := false, slot := { blocked := true, rep := none } })] } (.blockS 0 false)
    = some ({ S := [(0, { isVoid := false, slot := { blocked := false, rep := none } })] }, "1") := by
  simp [stepSimple, aget, aset, bstr]

/-! ## `block()/unblock()/blocked()` through a connection or scoped_connection -/

/-- meaning of the helper `setBlocked cid b cs` (the list with the flag of cell `cid` set to `b`):
    same length, ids, reps and parent links; flags changed only at id `cid` -/
theorem setBlocked_only_that_cell (cid : Nat) (b : Bool) (cs : List Cell) :
    (setBlocked cid b cs).length = cs.length ∧
    (setBlocked cid b cs).map (·.id) = cs.map (·.id) ∧
    (setBlocked cid b cs).map (·.slot.rep) = cs.map (·.slot.rep) ∧
    (setBlocked cid b cs).map (·.linked) = cs.map (·.linked) ∧
    (setBlocked cid b cs).map (·.slot.blocked) = cs.map (fun c => if c.id = cid then b else c.slot.blocked) :=
  setBlocked_shape cid b cs

/-- `connection::block(b)` on a connection that points at a live cell `cid` (of impl `im`): returns the
    previous state of that cell, sets the new one, and affects only that cell: the impl's list is the same
    with only that flag changed, every other impl, every other cell lookup, every `connected()` answer,
    all slot variables, connections, handles and trackables are unchanged -/
theorem blockC_returns_previous_only_that_slot (s s' : St) (r : String) (i : Nat) (b : Bool) (cid im : Nat) (c : Cell)
    (hp : aget s.C i = some (some cid)) (hc : getCell s cid = some (im, c))
    (h : stepSimple s (.blockC i b) = some (s', r)) :
    r = bstr c.slot.blocked ∧
    (∃ x, aget s.impls im = some x ∧ x.cells.find? (·.id = cid) = some c ∧
          aget s'.impls im = some { x with cells := setBlocked cid b x.cells }) ∧
    (∀ k, k ≠ im → aget s'.impls k = aget s.impls k) ∧
    getCell s' cid = some (im, { c with slot := { c.slot with blocked := b } }) ∧
    connBlocked s' (some cid) = b ∧
    (∀ cid', cid' ≠ cid → getCell s' cid' = getCell s cid') ∧
    (∀ p, connConnected s' p = connConnected s p) ∧
    s'.S = s.S ∧ s'.C = s.C ∧ s'.K = s.K ∧ s'.G = s.G ∧ s'.T = s.T := by
  simp only [stepSimple, hp, Option.some.injEq, Prod.mk.injEq] at h
  obtain ⟨rfl, rfl⟩ := h
  obtain ⟨hb, x, hx, hf, heq, hg1, hg2, hcc⟩ := connBlock_spec s cid im c b hc
  refine ⟨by rw [hb], ⟨x, hx, hf, by rw [heq]; exact aget_aset_same _ _ _⟩, ?_, hg1, ?_, hg2, hcc, ?_⟩
  · intro k hk; rw [heq]; exact aget_aset_other _ _ _ _ hk
  · simp [connBlocked, hg1]
  · rw [heq]; exact ⟨rfl, rfl, rfl, rfl, rfl⟩

/-- the same through a `scoped_connection` -/
theorem blockK_returns_previous_only_that_slot (s s' : St) (r : String) (i : Nat) (b : Bool) (cid im : Nat) (c : Cell)
    (hp : aget s.K i = some (some cid)) (hc : getCell s cid = some (im, c))
    (h : stepSimple s (.blockK i b) = some (s', r)) :
    r = bstr c.slot.blocked ∧
    (∃ x, aget s.impls im = some x ∧ x.cells.find? (·.id = cid) = some c ∧
          aget s'.impls im = some { x with cells := setBlocked cid b x.cells }) ∧
    (∀ k, k ≠ im → aget s'.impls k = aget s.impls k) ∧
    getCell s' cid = some (im, { c with slot := { c.slot with blocked := b } }) ∧
    connBlocked s' (some cid) = b ∧
    (∀ cid', cid' ≠ cid → getCell s' cid' = getCell s cid') ∧
    (∀ p, connConnected s' p = connConnected s p) ∧
    s'.S = s.S ∧ s'.C = s.C ∧ s'.K = s.K ∧ s'.G = s.G ∧ s'.T = s.T := by
  simp only [stepSimple, hp, Option.some.injEq, Prod.mk.injEq] at h
  obtain ⟨rfl, rfl⟩ := h
  obtain ⟨hb, x, hx, hf, heq, hg1, hg2, hcc⟩ := connBlock_spec s cid im c b hc
  refine ⟨by rw [hb], ⟨x, hx, hf, by rw [heq]; exact aget_aset_same _ _ _⟩, ?_, hg1, ?_, hg2, hcc, ?_⟩
  · intro k hk; rw [heq]; exact aget_aset_other _ _ _ _ hk
  · simp [connBlocked, hg1]
  · rw [heq]; exact ⟨rfl, rfl, rfl, rfl, rfl⟩

example : stepSimple { C := [(0, some 4)],
                       impls := [(3, { cells := [{ id := 4, slot := { blocked := false, rep := some { call := true, fn := some (.leaf 3 []) } }, linked := true },
                                                 { id := 5, slot := { blocked := false, rep := some { call := true, fn := some (.leaf 6 []) } }, linked := true }] })] }
      (.blockC 0 true)
    = some ({ C := [(0, some 4)],
              impls := [(3, { cells := [{ id := 4, slot := { blocked := true, rep := some { call := true, fn := some (.leaf 3 []) } }, linked := true },
                                        { id := 5, slot := { blocked := false, rep := some { call := true, fn := some (.leaf 6 []) } }, linked := true }] })] }, "0") := by
  simp [stepSimple, aget, aset, connBlock, connBlocked, getCell, findCellImpl, updCell, setImpl, bstr]

/-- on an empty connection (never connected, or its slot is gone) `block()` does nothing and returns false -/
theorem blockC_empty_connection (s s' : St) (r : String) (i : Nat) (b : Bool) (p : Option Nat)
    (hp : aget s.C i = some p) (hd : p = none ∨ ∃ cid, p = some cid ∧ getCell s cid = none)
    (h : stepSimple s (.blockC i b) = some (s', r)) : r = "0" ∧ s' = s := by
  simp only [stepSimple, hp, Option.some.injEq, Prod.mk.injEq] at h
  obtain ⟨rfl, rfl⟩ := h
  obtain ⟨h1, h2⟩ := connBlock_none s p b hd
  exact ⟨by rw [h2]; rfl, h1⟩

theorem blockK_empty_connection (s s' : St) (r : String) (i : Nat) (b : Bool) (p : Option Nat)
    (hp : aget s.K i = some p) (hd : p = none ∨ ∃ cid, p = some cid ∧ getCell s cid = none)
    (h : stepSimple s (.blockK i b) = some (s', r)) : r = "0" ∧ s' = s := by
  simp only [stepSimple, hp, Option.some.injEq, Prod.mk.injEq] at h
  obtain ⟨rfl, rfl⟩ := h
  obtain ⟨h1, h2⟩ := connBlock_none s p b hd
  exact ⟨by rw [h2]; rfl, h1⟩

example : stepSimple { C := [(0, some 9)], impls := [(3, { cells := [{ id := 4, slot := {}, linked := true }] })] } (.blockC 0 true)
    = some ({ C := [(0, some 9)], impls := [(3, { cells := [{ id := 4, slot := {}, linked := true }] })] }, "0") := by
  simp [stepSimple, aget, connBlock, connBlocked, getCell, findCellImpl, bstr]

/-- `connection::blocked()` / `scoped_connection::blocked()` report the flag of the cell pointed at,
    false for an empty connection, and change nothing -/
theorem blockedCq_reports (s : St) (i : Nat) (p : Option Nat) (hp : aget s.C i = some p) :
    stepSimple s (.blockedCq i) = some (s, bstr (connBlocked s p)) ∧
    (∀ cid im c, p = some cid → getCell s cid = some (im, c) → connBlocked s p = c.slot.blocked) ∧
    ((p = none ∨ ∃ cid, p = some cid ∧ getCell s cid = none) → connBlocked s p = false) := by
  refine ⟨by simp only [stepSimple, hp], ?_, fun hd => (connBlock_none s p false hd).2⟩
  intro cid im c hpc hc
  subst hpc
  simp [connBlocked, hc]

theorem blockedKq_reports (s : St) (i : Nat) (p : Option Nat) (hp : aget s.K i = some p) :
    stepSimple s (.blockedKq i) = some (s, bstr (connBlocked s p)) ∧
    (∀ cid im c, p = some cid → getCell s cid = some (im, c) → connBlocked s p = c.slot.blocked) ∧
    ((p = none ∨ ∃ cid, p = some cid ∧ getCell s cid = none) → connBlocked s p = false) := by
  refine ⟨by simp only [stepSimple, hp], ?_, fun hd => (connBlock_none s p false hd).2⟩
  intro cid im c hpc hc
  subst hpc
  simp [connBlocked, hc]

example : stepSimple { K := [(0, some 4)], impls := [(3, { cells := [{ id := 4, slot := { blocked := true, rep := none }, linked := true }] })] } (.blockedKq 0)
    = some ({ K := [(0, some 4)], impls := [(3, { cells := [{ id := 4, slot := { blocked := true, rep := none }, linked := true }] })] }, "1") := by
  simp [stepSimple, aget, connBlocked, getCell, findCellImpl, bstr]

/-! ## `signal.block()` sets the slots present at that moment, and no slot connected later -/

/-- `signal.block(b)` in full: the list keeps its length, ids, reps and links, every flag becomes `b`;
    no handle, slot variable, connection or trackable changes; every `connected()` and `size()` answer
    is unchanged (a blocked slot stays connected) -/
theorem blockG_only_flags (s s' : St) (r : String) (g im : Nat) (b : Bool) (h0 : Handle) (x : Impl)
    (hg : aget s.G g = some h0) (hi : h0.impl = some im) (hx : aget s.impls im = some x)
    (h : stepSimple s (.blockG g b) = some (s', r)) :
    r = "ok" ∧ aget s'.impls im = some { x with cells := blockAll b x.cells } ∧
    (blockAll b x.cells).length = x.cells.length ∧
    (blockAll b x.cells).map (·.id) = x.cells.map (·.id) ∧
    (blockAll b x.cells).map (·.slot.rep) = x.cells.map (·.slot.rep) ∧
    (blockAll b x.cells).map (·.linked) = x.cells.map (·.linked) ∧
    (∀ c ∈ blockAll b x.cells, c.slot.blocked = b) ∧
    (∀ k, k ≠ im → aget s'.impls k = aget s.impls k) ∧
    s'.G = s.G ∧ s'.S = s.S ∧ s'.C = s.C ∧ s'.K = s.K ∧ s'.T = s.T ∧
    (∀ p, connConnected s' p = connConnected s p) ∧
    (∀ g' r0, stepSimple s (.sizeq g') = some (s, r0) → stepSimple s' (.sizeq g') = some (s', r0)) := by
  rw [blockG_eq s g im b h0 x hg hi hx] at h
  simp only [Option.some.injEq, Prod.mk.injEq] at h
  obtain ⟨rfl, rfl⟩ := h
  obtain ⟨h1, h2, h3, h4, h5⟩ := blockAll_shape b x.cells
  refine ⟨rfl, aget_aset_same _ _ _, h1, h2, h3, h4, h5, fun k hk => aget_aset_other _ _ _ _ hk,
          rfl, rfl, rfl, rfl, rfl, ?_, ?_⟩
  · exact connConnected_mapCells s im x _ (fun _ => rfl) (fun _ => rfl) hx
  · exact sizeq_mapCells s im x _ hx

/-- `signal.block()` never changes a handle, slot variable, connection or trackable — in every state and
    branch (dead signal, signal without a list) -/
theorem blockG_frame_all (s s' : St) (r : String) (g : Nat) (b : Bool) (h : stepSimple s (.blockG g b) = some (s', r)) :
    s'.G = s.G ∧ s'.S = s.S ∧ s'.C = s.C ∧ s'.K = s.K ∧ s'.T = s.T ∧ s'.next = s.next :=
  blockG_frame s s' r g b h

/-- a slot connected from a functor (`connfn`) starts unblocked whatever the state — in particular after a
    `signal.block()` — and the insertion leaves every existing cell (and its flag) in place -/
theorem connfn_new_cell_unblocked (s s0 s1 s' : St) (r : String) (k g : Nat) (spec : FSpec) (first : Bool)
    (h : Handle) (fn : Fun) (im : Nat) (x : Impl)
    (hg : aget s.G g = some h) (hf : mkFun s h.fl.isVoid spec = .ok (fn, s0))
    (hta : specTaint s spec < (h.lvl : Int))
    (he : ensureImpl s0 g = some (s1, im)) (hx : aget s1.impls im = some x)
    (hstep : stepSimple s (.connfn k g spec first) = some (s', r)) :
    r = "ok" ∧
    aget s'.impls im = some { x with cells :=
      if first then { id := s1.next, slot := { blocked := false, rep := some { call := true, fn := some fn } }, linked := true } :: x.cells
      else x.cells ++ [{ id := s1.next, slot := { blocked := false, rep := some { call := true, fn := some fn } }, linked := true }] } ∧
    (∀ i, i ≠ im → aget s'.impls i = aget s1.impls i) ∧
    aget s'.C k = some (some s1.next) ∧ s'.S = s.S := by
  rw [connfn_eq s s0 s1 k g spec first h fn im x hg hf hta he hx] at hstep
  simp only [Option.some.injEq, Prod.mk.injEq] at hstep
  obtain ⟨rfl, rfl⟩ := hstep
  obtain ⟨⟨hS0, _⟩, _⟩ := mkFun_ok s s0 _ spec fn hf
  obtain ⟨hS1, _⟩ := ensureImpl_spec s0 s1 g im he
  refine ⟨rfl, ?_, fun i hi => aget_aset_other _ _ _ _ hi, aget_aset_same _ _ _, by rw [← hS0, ← hS1]; rfl⟩
  show aget (aset s1.impls im _) im = _
  rw [aget_aset_same]
  cases first <;> rfl

/-- a slot connected from a slot variable (`conn`, by copy) starts with the blocking state of the copy of
    that variable — not with the signal's — and leaves every existing cell in place -/
theorem conn_new_cell_flag (s s1 s' : St) (r : String) (k g sv : Nat) (first : Bool) (h : Handle) (v : SlotVar)
    (im : Nat) (x : Impl)
    (hg : aget s.G g = some h) (hv : aget s.S sv = some v)
    (hty : h.fl.isVoid = v.isVoid) (hta : v.taint < (h.lvl : Int))
    (he : ensureImpl s g = some (s1, im)) (hx : aget s1.impls im = some x)
    (hstep : stepSimple s (.conn k g sv first false) = some (s', r)) :
    ∃ c, c.id = s1.next ∧ c.slot.blocked = v.slot.copy.blocked ∧
      ((v.slot.rep = none ∨ v.slot.empty = false) → c.slot.blocked = v.slot.blocked) ∧
      aget s'.impls im = some { x with cells := if first then c :: x.cells else x.cells ++ [c] } := by
  rw [conn_copy_eq s s1 k g sv first h v im x hg hv hty hta he hx] at hstep
  simp only [Option.some.injEq, Prod.mk.injEq] at hstep
  obtain ⟨rfl, rfl⟩ := hstep
  refine ⟨newCell s1.next v.slot.copy, rfl, withDummy_blocked _, ?_, ?_⟩
  · intro hh
    show (withDummy v.slot.copy).blocked = _
    rw [withDummy_blocked]
    unfold SlotB.copy
    cases hr : v.slot.rep with
    | none => simp
    | some rp =>
      rcases hh with hh | hh
      · simp [hr] at hh
      · simp [SlotB.empty, hr] at hh; simp [hh]
  · show aget (aset s1.impls im _) im = _
    rw [aget_aset_same]
    cases first <;> rfl

/-- `block()` on a signal sets the state of no slot connected later: after `signal.block(true)` a slot
    connected from a functor is unblocked, so `signal.blocked()` answers 0 -/
theorem blockG_not_later (s sb s0 s1 s2 : St) (r1 r2 : String) (k g : Nat) (spec : FSpec) (first : Bool)
    (h : Handle) (fn : Fun) (im : Nat) (x : Impl)
    (hb : stepSimple s (.blockG g true) = some (sb, r1))
    (hg : aget sb.G g = some h) (hf : mkFun sb h.fl.isVoid spec = .ok (fn, s0))
    (hta : specTaint sb spec < (h.lvl : Int))
    (he : ensureImpl s0 g = some (s1, im)) (hx : aget s1.impls im = some x)
    (hstep : stepSimple sb (.connfn k g spec first) = some (s2, r2)) :
    sb.G = s.G ∧ r2 = "ok" ∧ stepSimple s2 (.blockedGq g) = some (s2, "0") := by
  have hG := (blockG_frame s sb r1 g true hb).1
  rw [connfn_eq sb s0 s1 k g spec first h fn im x hg hf hta he hx] at hstep
  simp only [Option.some.injEq, Prod.mk.injEq] at hstep
  obtain ⟨rfl, rfl⟩ := hstep
  obtain ⟨h', hg', hi'⟩ := ensureImpl_handle s0 s1 g im he
  refine ⟨hG, rfl, ?_⟩
  have hg2 : aget (setConn (setImpl { s1 with next := s1.next + 1 } im
      { x with cells := insAt first (newCell s1.next { blocked := false, rep := some { call := true, fn := some fn } }) x.cells })
      k (some s1.next)).G g = some h' := hg'
  simp only [stepSimple, hg2, hi']
  simp [setConn, setImpl, all_insAt, newCell, withDummy, bstr]

example : ∃ sb s2, stepSimple { G := [(0, { obj := 1, fl := .I, impl := some 3, trk := 2, lvl := 0 })],
                                 impls := [(3, { cells := [{ id := 4, slot := { blocked := false, rep := some { call := true, fn := some (.leaf 3 []) } }, linked := true }] })],
                                 next := 5 } (.blockG 0 true) = some (sb, "ok")
    ∧ stepSimple sb (.blockedGq 0) = some (sb, "1")
    ∧ stepSimple sb (.connfn 0 0 (.fn 7) false) = some (s2, "ok")
    ∧ stepSimple s2 (.blockedGq 0) = some (s2, "0") := by
  refine ⟨_, _, by simp [stepSimple, aget]; rfl, ?_, by simp [stepSimple, mkFun, specTaint, ensureImpl]; rfl, ?_⟩ <;>
  simp [stepSimple, aget, aset, setImpl, setConn, insertCell, St.fresh, bstr]

/-! ## `signal.blocked()` -/

/-- a signal whose list is empty reports blocked (vacuous truth) -/
theorem blockedG_vacuous_empty_list (s : St) (g im : Nat) (h0 : Handle) (x : Impl)
    (hg : aget s.G g = some h0) (hi : h0.impl = some im) (hx : aget s.impls im = some x) (hc : x.cells = []) :
    stepSimple s (.blockedGq g) = some (s, "1") := by
  simp [stepSimple, hg, hi, hx, hc, bstr]

/-- after `signal.block(b)`, `signal.blocked()` answers `b` for a non-empty list and 1 for an empty one -/
theorem blockG_then_blockedGq (s s' : St) (r : String) (g im : Nat) (b : Bool) (h0 : Handle) (x : Impl)
    (hg : aget s.G g = some h0) (hi : h0.impl = some im) (hx : aget s.impls im = some x)
    (h : stepSimple s (.blockG g b) = some (s', r)) :
    stepSimple s' (.blockedGq g) = some (s', bstr (x.cells.isEmpty || b)) := by
  rw [blockG_eq s g im b h0 x hg hi hx] at h
  simp only [Option.some.injEq, Prod.mk.injEq] at h
  obtain ⟨rfl, rfl⟩ := h
  simp only [stepSimple, setImpl, hg, hi, aget_aset_same, Option.map, Option.getD, all_blockAll]

example : stepSimple { G := [(0, { obj := 1, fl := .I, impl := some 3, trk := 2, lvl := 0 })], impls := [(3, {})] } (.blockedGq 0)
    = some ({ G := [(0, { obj := 1, fl := .I, impl := some 3, trk := 2, lvl := 0 })], impls := [(3, {})] }, "1") := by
  simp [stepSimple, aget, bstr]

/-! ## a blocked slot is skipped, and stays connected -/

/-- the accumulator iterator's `operator*` skips a blocked cell: nothing is invoked, the state and the
    iterator are unchanged — one unfolding of `deref`, for every fuel, program and functor -/
theorem deref_skips_blocked (f : Nat) (P : Prog) (s : St) (i arg : Nat) (it : IterBuf) (im : Impl) (c : Cell)
    (hi : aget s.impls i = some im) (hc : im.cells.find? (·.id = it.pos) = some c) (hb : c.slot.blocked = true) :
    deref (f+1) P s i it arg = some (s, .ok, it) := by
  rw [deref]
  simp only [hi, hc]
  cases hrep : c.slot.rep with
  | none => rfl
  | some rp =>
    obtain ⟨call, fn⟩ := rp
    cases call <;> cases fn <;> simp [hb]

example : deref 1 { bodies := [], top := [] }
    { impls := [(3, { cells := [{ id := 4, slot := { blocked := true, rep := some { call := true, fn := some (.leaf 3 []) } }, linked := true }] })] }
    3 { pos := 4 } 0
    = some ({ impls := [(3, { cells := [{ id := 4, slot := { blocked := true, rep := some { call := true, fn := some (.leaf 3 []) } }, linked := true }] })] }, .ok, { pos := 4 }) := by
  rw [deref_skips_blocked 0 _ _ 3 0 _ _ _ rfl rfl rfl]

/-- invoking a blocked slot variable directly does nothing (state and call log unchanged) and returns a
    default-constructed result — for every fuel, program and functor -/
theorem direct_call_default (f : Nat) (P : Prog) (s : St) (i arg : Nat) (v : SlotVar)
    (hv : aget s.S i = some v) (hd : s.depth < P.maxdepth) (hs : s.steps ≤ P.maxsteps)
    (hb : v.slot.blocked = true) :
    execOp (f+1) P s (.callS i arg) = some (s, .ok (showRes v.isVoid 0)) := by
  have h1 : ¬ (s.depth ≥ P.maxdepth) := by omega
  have h2 : ¬ (s.steps > P.maxsteps) := by omega
  rw [execOp]
  simp only [hv, h1, h2, if_false]
  cases hr : v.slot.rep with
  | none => rfl
  | some rp =>
    obtain ⟨c, fn⟩ := rp
    cases c <;> cases fn <;> simp [hb]

example : execOp 1 { bodies := [], top := [] }
      { S := [(0, { isVoid := true, slot := { blocked := true, rep := some { call := true, fn := some (.leaf 3 []) } } })] } (.callS 0 5)
    = some ({ S := [(0, { isVoid := true, slot := { blocked := true, rep := some { call := true, fn := some (.leaf 3 []) } } })] }, .ok "r=void") := by
  rw [direct_call_default 0 _ _ 0 5 _ rfl (by decide) (by decide) rfl]
  rfl

/-- blocking a slot variable keeps it connected/non-empty and changes no `connected()` / `size()` answer -/
theorem blockS_stays_connected (s s' : St) (r : String) (i : Nat) (b : Bool) (v : SlotVar)
    (hv : aget s.S i = some v) (h : stepSimple s (.blockS i b) = some (s', r)) :
    (∃ v', aget s'.S i = some v' ∧ v'.slot.empty = v.slot.empty ∧ v'.slot.rep = v.slot.rep) ∧
    s'.G = s.G ∧ s'.impls = s.impls ∧
    (∀ p, connConnected s' p = connConnected s p) ∧
    (∀ g r0, stepSimple s (.sizeq g) = some (s, r0) → stepSimple s' (.sizeq g) = some (s', r0)) := by
  rw [blockS_eq s i b v hv] at h
  simp only [Option.some.injEq, Prod.mk.injEq] at h
  obtain ⟨rfl, rfl⟩ := h
  exact ⟨⟨_, aget_aset_same _ _ _, rfl, rfl⟩, rfl, rfl, connConnected_congr _ _ rfl, sizeq_congr _ _ rfl rfl⟩

/-- blocking through a connection keeps every cell in its list: every `size()` answer is unchanged
    (`connected()` answers: see `blockC_returns_previous_only_that_slot`) -/
theorem blockC_size_unchanged (s s' : St) (r : String) (i : Nat) (b : Bool) (p : Option Nat)
    (hp : aget s.C i = some p) (h : stepSimple s (.blockC i b) = some (s', r)) :
    ∀ g r0, stepSimple s (.sizeq g) = some (s, r0) → stepSimple s' (.sizeq g) = some (s', r0) := by
  simp only [stepSimple, hp, Option.some.injEq, Prod.mk.injEq] at h
  obtain ⟨rfl, _⟩ := h
  intro g r0 h0
  cases p with
  | none => exact h0
  | some cid =>
    cases hc : getCell s cid with
    | none => rw [(connBlock_none s (some cid) b (.inr ⟨cid, rfl, hc⟩)).1]; exact h0
    | some q =>
      obtain ⟨im, c⟩ := q
      obtain ⟨_, x, hx, _, heq, _⟩ := connBlock_spec s cid im c b hc
      rw [heq]
      exact sizeq_mapCells s im x _ hx g r0 h0

theorem blockK_size_unchanged (s s' : St) (r : String) (i : Nat) (b : Bool) (p : Option Nat)
    (hp : aget s.K i = some p) (h : stepSimple s (.blockK i b) = some (s', r)) :
    ∀ g r0, stepSimple s (.sizeq g) = some (s, r0) → stepSimple s' (.sizeq g) = some (s', r0) := by
  simp only [stepSimple, hp, Option.some.injEq, Prod.mk.injEq] at h
  obtain ⟨rfl, _⟩ := h
  intro g r0 h0
  cases p with
  | none => exact h0
  | some cid =>
    cases hc : getCell s cid with
    | none => rw [(connBlock_none s (some cid) b (.inr ⟨cid, rfl, hc⟩)).1]; exact h0
    | some q =>
      obtain ⟨im, c⟩ := q
      obtain ⟨_, x, hx, _, heq, _⟩ := connBlock_spec s cid im c b hc
      rw [heq]
      exact sizeq_mapCells s im x _ hx g r0 h0

example : ∃ s', stepSimple { G := [(0, { obj := 1, fl := .I, impl := some 3, trk := 2, lvl := 0 })], C := [(0, some 4)],
                              impls := [(3, { cells := [{ id := 4, slot := { blocked := false, rep := some { call := true, fn := some (.leaf 3 []) } }, linked := true }] })] }
      (.blockC 0 true) = some (s', "0") ∧ stepSimple s' (.sizeq 0) = some (s', "1") ∧ stepSimple s' (.connectedq 0) = some (s', "1") := by
  refine ⟨_, by simp [stepSimple, aget, connBlock, connBlocked, getCell, findCellImpl, bstr]; rfl, ?_, ?_⟩ <;>
  simp [stepSimple, aget, aset, updCell, setImpl, connConnected, getCell, findCellImpl, SlotB.empty, bstr] <;> rfl

/-! ## the specification `S` -/

/-- in the statement-level specification `S`, `block()/unblock()` on a slot variable also returns the
    previous state, sets the new one and changes nothing but that variable -/
theorem spec_blockS_returns_previous_only_that_slot (l l' : Spec.LSt) (r : String) (i : Nat) (b : Bool) (v : SlotVar)
    (hv : aget l.S i = some v) (h : Spec.stepSimple l (.blockS i b) = some (l', r)) :
    r = bstr v.slot.blocked ∧
    aget l'.S i = some { v with slot := { v.slot with blocked := b } } ∧
    (∀ k, k ≠ i → aget l'.S k = aget l.S k) ∧
    l'.sigs = l.sigs ∧ l'.C = l.C ∧ l'.K = l.K ∧ l'.G = l.G ∧ l'.T = l.T := by
  simp only [Spec.stepSimple, hv] at h
  simp at h
  obtain ⟨rfl, rfl⟩ := h
  refine ⟨rfl, by simp, ?_, rfl, rfl, rfl, rfl, rfl⟩
  intro k hk
  exact aget_aset_other _ _ _ _ hk

example : Spec.stepSimple { S := [(0, { isVoid := false, slot := { blocked := true, rep := none } })] } (.blockS 0 false)
    = some ({ S := [(0, { isVoid := false, slot := { blocked := false, rep := none } })] }, "1") := by
  simp [Spec.stepSimple, aget, aset, bstr]

end Sigc.C12
