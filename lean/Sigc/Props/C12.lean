import Sigc.Model
import Sigc.Spec
/-! property theorems for C12 (being written) -/
namespace Sigc.C12
end Sigc.C12
