import Sigc.Model
import Sigc.Run
/-!
# C19 — object graphs confined to different threads never interfere  (partial, see DESIGN §5 C19)

What a theorem can carry: *if* the library's state is a product of per-thread components and every
operation of a thread is a function of that thread's component only (no hidden shared mutable state —
the hypothesis the check discharges on the code by enumerating every variable with static or thread
storage duration in /repo/sigc++ and every writable data symbol of the library objects), *then* for
every number of threads and every interleaving of their operation sequences each thread ends in the
state, and sees the observations, of its solo run.  The scheduler, the memory model and malloc are the
runtime's; data races are looked for with ThreadSanitizer on the real library.
-/
namespace Sigc.C19

/-- a sequential machine: one step maps a component and an operation to the new component and an observation -/
structure Machine (σ ο β : Type) where
  step : σ → ο → σ × β

variable {σ ο β : Type}

/-- solo run of one thread -/
def runSolo (M : Machine σ ο β) (s : σ) : List ο → σ × List β
  | [] => (s, [])
  | o :: os =>
    let (s', b) := M.step s o
    let (s'', bs) := runSolo M s' os
    (s'', b :: bs)

/-- a global state is one component per thread; a schedule is any interleaving: a list of
    (thread, operation); each step touches only the component of its thread -/
def runSched (M : Machine σ ο β) (st : Nat → σ) : List (Nat × ο) → (Nat → σ) × List (Nat × β)
  | [] => (st, [])
  | (t, o) :: rest =>
    let (s', b) := M.step (st t) o
    let (st'', obs) := runSched M (fun u => if u = t then s' else st u) rest
    (st'', (t, b) :: obs)

/-- the operations / observations of thread `t` in a schedule, in order -/
def opsOf (t : Nat) (sched : List (Nat × ο)) : List ο := (sched.filter (·.1 = t)).map (·.2)
def obsOf (t : Nat) (obs : List (Nat × β)) : List β := (obs.filter (·.1 = t)).map (·.2)

/-- **interleaving independence**: for every machine, every number of threads, every schedule and
    every thread `t`: the component of `t` after the interleaved run and the observations `t` made are
    exactly those of `t`'s solo run on its own operations -/
theorem interleaving_independent (M : Machine σ ο β) (sched : List (Nat × ο)) (st : Nat → σ) (t : Nat) :
    (runSched M st sched).1 t = (runSolo M (st t) (opsOf t sched)).1 ∧
    obsOf t (runSched M st sched).2 = (runSolo M (st t) (opsOf t sched)).2 := by
  induction sched generalizing st with
  | nil => simp [runSched, runSolo, opsOf, obsOf]
  | cons p rest ih =>
    obtain ⟨u, o⟩ := p
    simp only [runSched]
    by_cases h : u = t
    · subst h
      have := ih (fun v => if v = u then (M.step (st u) o).1 else st v)
      simp only [if_true] at this
      simp [opsOf, obsOf, runSolo] at this ⊢
      exact this
    · have := ih (fun v => if v = u then (M.step (st u) o).1 else st v)
      have ht : (if t = u then (M.step (st u) o).1 else st t) = st t := by
        simp [Ne.symm h]
      simp only [ht] at this
      simp [opsOf, obsOf, h] at this ⊢
      exact this

/-- the mechanism model as such a machine: one program line of one thread's program acts on that
    thread's own `St` (its object graph, allocator and trace) -/
def modelMachine (fuel : Nat) (P : Model.Prog) : Machine Model.St Model.Line (Option Model.Outcome) where
  step s l :=
    match Model.execLine fuel P s l with
    | some (s', o) => (s', some o)
    | none => (s, none)

/-- instance for the model: threads running disjoint object graphs observe their single-threaded traces -/
theorem model_threads_independent (fuel : Nat) (P : Model.Prog) (sched : List (Nat × Model.Line))
    (st : Nat → Model.St) (t : Nat) :
    (runSched (modelMachine fuel P) st sched).1 t = (runSolo (modelMachine fuel P) (st t) (opsOf t sched)).1 :=
  (interleaving_independent _ sched st t).1

example : (runSched (⟨fun (s : Nat) (o : Nat) => (s + o, s)⟩ : Machine Nat Nat Nat) (fun _ => 0)
    [(0, 1), (1, 10), (0, 2), (1, 20)]).1 0 = 3 := by
  simp [runSched]

end Sigc.C19
