import Sigc.Model
import Sigc.Spec
/-! property theorems for C18 (being written) -/
namespace Sigc.C18
end Sigc.C18
