import Sigc.Model
import Sigc.Lemmas.Basic
import Sigc.Lemmas.Frames
import Sigc.Lemmas.StepConn
import Sigc.Lemmas.StepHandles
import Sigc.Lemmas.StepTrack
import Sigc.Lemmas.StepWF3
import Sigc.Lemmas.InvOwnG
import Sigc.Run
import Sigc.Spec
/-!
# C18 — signals chain through make_slot(); a dying trackable_signal unhooks itself

Per-operation theorems about the mechanism model, for every program and fuel.  Theorems about slot
variables hold for every state; theorems about list cells need the well-formedness `UniqueCells`
(impl keys and cell ids unique: what the allocator guarantees; decidable, preserved by
`invalidateTrackable` and `gcImpl`, see Lemmas/StepTrack.lean); `copy_is_distinct` needs the freshness
`TracksBelow` (every trackable identity referred to by a functor is below `next`; decidable).
Both are consequences of the invariant `Sigc.StepWF.WF`, which holds in the initial state and is preserved
by every operation and every interpreter function (Lemmas/StepWF*.lean: `runTop_WF`, `execOp_WF`, …), so
the `…_run` corollaries at the end state the same facts for every state reached by any run of any
program, and the `…_wf` forms for every state inside a run (also inside emissions).
-/
namespace Sigc.C18
open Sigc.Model Sigc.StepConn Sigc.StepHandles Sigc.StepTrack Sigc.StepWF

/-- invoking a `make_slot()` forwarder emits the target signal object with the same argument and
    yields that emission's outcome and result, for every program and fuel -/
theorem forwarder_emits_target (f : Nat) (P : Prog) (s : St) (o arg g : Nat) (ts : List Nat) (h : Handle)
    (hh : handleByObj s o = some (g, h)) :
    invokeFun (f+1) P s (.fwd o ts) arg = emitImpl f P s h.fl h.impl arg .sum := by
  rw [invokeFun]
  simp [hh]

/-- a forwarder refers to the trackable base of its target exactly when the target is a trackable_signal -/
theorem forwarder_tracks_iff_trackable (s s' : St) (g : Nat) (h : Handle) (isVoid : Bool) (fn : Fun)
    (hg : aget s.G g = some h) (hm : mkFun s isVoid (.fwd g) = .ok (fn, s')) :
    fn = .fwd h.obj (if h.fl.isTrackable then [h.trk] else []) ∧
    fn.tracks = (if h.fl.isTrackable then [h.trk] else []) := by
  simp only [mkFun, hg] at hm
  split at hm
  · cases hm
  · split at hm
    · cases hm
    · simp at hm
      obtain ⟨rfl, _⟩ := hm
      exact ⟨rfl, rfl⟩

/-- copy construction gives the copy its own, fresh trackable identity -/
theorem cpG_fresh_trackable (s s' : St) (r : String) (j i im : Nat) (h0 : Handle)
    (hi : aget s.G i = some h0) (hj : aget s.G j = none) (himpl : h0.impl = some im)
    (h : stepSimple s (.cpG j i) = some (s', r)) :
    ∃ hd, aget s'.G j = some hd ∧ hd.trk = s.next + 1 ∧ hd.obj = s.next ∧ hd.impl = some im ∧ hd.fl = h0.fl := by
  simp only [stepSimple, hi, hj, ensureImpl, himpl] at h
  simp [St.fresh] at h
  obtain ⟨rfl, _⟩ := h
  exact ⟨{ obj := s.next, fl := h0.fl, impl := some im, trk := s.next + 1, lvl := h0.lvl }, by simp, rfl, rfl, rfl, rfl⟩

/-- destroying a trackable_signal object (not refused: no functor owns it) invalidates every slot variable
    holding a forwarder to it -/
theorem delG_invalidates_forwarders (s s' : St) (r : String) (g : Nat) (h0 : Handle)
    (hg : aget s.G g = some h0) (ht : h0.fl.isTrackable = true) (hown : s.ownedG.any (fun p => p.2 = g) = false)
    (h : stepSimple s (.delG g) = some (s', r)) :
    r = "ok" ∧ ∀ i v, aget s'.S i = some v → v.slot.tracksObj h0.trk = false := by
  simp only [stepSimple, hg, ht, hown] at h
  simp at h
  obtain ⟨rfl, rfl⟩ := h
  refine ⟨rfl, ?_⟩
  intro i v hv
  have key : ∀ (s0 : St) i v, aget (invalidateTrackable s0 h0.trk).S i = some v → v.slot.tracksObj h0.trk = false := by
    intro s0 i v h
    unfold invalidateTrackable at h
    simp only [foldl_invalidateCell_S] at h
    rw [aget_amap] at h
    cases hv0 : aget s0.S i with
    | none => simp [hv0] at h
    | some v0 =>
      simp [hv0] at h
      subst h
      by_cases hx : v0.slot.tracksObj h0.trk = true
      · simp only [hx, if_true]
        unfold SlotB.invalidate
        cases hr : v0.slot.rep <;> simp [SlotB.tracksObj, hr]
      · simp [hx]
  cases himpl : h0.impl with
  | none =>
    simp [himpl] at hv
    exact key s i v hv
  | some im =>
    simp only [himpl, gcImpl_S] at hv
    exact key s i v hv

example : invokeFun 2 { bodies := [], top := [] }
    { G := [(0, { obj := 4, fl := .I, impl := none, trk := 5, lvl := 0 })] } (.fwd 4 []) 3
      = some ({ G := [(0, { obj := 4, fl := .I, impl := none, trk := 5, lvl := 0 })] }, .ok, 0) := by
  rw [forwarder_emits_target 1 _ _ 4 3 0 [] { obj := 4, fl := .I, impl := none, trk := 5, lvl := 0 } (by simp [handleByObj])]
  rw [emitImpl]

/-- a forwarder whose target object no longer exists is a model error (the library would touch a
    destroyed signal); the theorems below show trackable_signal forwarders are invalidated before that -/
theorem forwarder_to_destroyed_object (f : Nat) (P : Prog) (s : St) (o arg : Nat) (ts : List Nat)
    (hh : handleByObj s o = none) :
    invokeFun (f+1) P s (.fwd o ts) arg = some (s.fail "forward to a destroyed signal object", .ok, 0) := by
  rw [invokeFun]
  simp [hh]

example : (invokeFun 2 { bodies := [], top := [] } {} (.fwd 4 []) 3).map (fun x => (x.1.err, x.2)) =
    some (some "forward to a destroyed signal object", .ok, 0) := by
  simp [invokeFun, handleByObj, St.fail]

/-- **forwards**: when the emission loop of `b` reaches a connected, unblocked `a.make_slot()` it emits `a`
    (the signal object, through its current list) with the same argument; an exception of `a`'s emission
    propagates, otherwise `a`'s result becomes that slot's result (the running result of `b`'s emission) -/
theorem forwards (f : Nat) (P : Prog) (s : St) (i cur m arg r o g : Nat) (ts : List Nat) (im : Impl) (c : Cell) (h : Handle)
    (hne : cur ≠ m) (hi : aget s.impls i = some im) (hc : im.cells.find? (·.id = cur) = some c)
    (hrep : c.slot.rep = some { call := true, fn := some (.fwd o ts) }) (hb : c.slot.blocked = false)
    (hh : handleByObj s o = some (g, h)) :
    emitLoop (f+2) P s i cur m arg r =
      match emitImpl f P s h.fl h.impl arg .sum with
      | none => none
      | some (s1, .exc, v) => some (s1, .exc, v)
      | some (s1, .ok, v) =>
        match aget s1.impls i with
        | none => some (s1.fail "loop: impl destroyed", .ok, v)
        | some im2 =>
          match succId im2.cells cur with
          | none => some (s1.fail "loop: iterator invalidated", .ok, v)
          | some nxt => emitLoop (f+1) P s1 i nxt m arg v := by
  rw [emitLoop]
  simp only [hne, if_false, hi, hc, hrep, hb, Bool.false_eq_true]
  rw [forwarder_emits_target f P s o arg g ts h hh]
  cases emitImpl f P s h.fl h.impl arg .sum with
  | none => rfl
  | some res =>
    obtain ⟨s1, oc, v⟩ := res
    cases oc <;> rfl

/-- chain `b → a`: emitting `b` (list 6: forwarder cell 5, then leaf 8) emits `a` (list 3: leaf 7) with the
    same argument and then runs `b`'s remaining slot -/
example : (emitImpl 10 { bodies := [], top := [] } exStT .I (some 6) 4 .sum).map (fun x => (callsOf x.1.trace, x.2)) =
    some ([(0, 8, 4), (0, 7, 4)], .ok, resultOf 8 4) := by
  simp [emitImpl, emitLoop, invokeFun, exStT, aget, aset, setImpl, St.fresh, handleByObj, Flavour.isAcc, succId,
    St.log, eraseCell, nullConns, amap, unrefExec, gcImpl, callsOf, resultOf, collect, collectN]

/-- … and with the forwarder as the last slot, `b`'s result is `a`'s result -/
example : (emitImpl 10 { bodies := [], top := [] }
      { exStT with impls := [(3, { cells := [{ id := 4, slot := { rep := some { call := true, fn := some (.leaf 7 []) } }, linked := true }] }),
                             (6, { cells := [{ id := 5, slot := { rep := some { call := true, fn := some (.fwd 1 [2]) } }, linked := true }] })] }
      .I (some 6) 4 .sum).map (fun x => (callsOf x.1.trace, x.2)) =
    some ([(0, 7, 4)], .ok, resultOf 7 4) := by
  simp [emitImpl, emitLoop, invokeFun, exStT, aget, aset, setImpl, St.fresh, handleByObj, Flavour.isAcc, succId,
    St.log, eraseCell, nullConns, amap, unrefExec, gcImpl, callsOf, resultOf, collect, collectN]

/-- **dies_with_object (destruction)**: destroying a trackable_signal object (not refused: no functor owns
    it — an owned one dies in `collect`, through the same code: `dropHandle_dies_with_object`) invalidates every
    representation holding a forwarder made from it — slot variables and cells of every list — so no
    signal can emit the destroyed object afterwards; well-formedness is kept -/
theorem delG_dies_with_object (s s' : St) (r : String) (g : Nat) (h0 : Handle)
    (hg : aget s.G g = some h0) (ht : h0.fl.isTrackable = true) (hU : UniqueCells s.impls)
    (hown : s.ownedG.any (fun p => p.2 = g) = false)
    (h : stepSimple s (.delG g) = some (s', r)) :
    r = "ok" ∧ NoTracker s' h0.trk ∧ UniqueCells s'.impls := by
  obtain ⟨hU1, hC, hS⟩ := invalidateTrackable_no_tracker s h0.trk hU
  cases himpl : h0.impl with
  | none =>
    simp only [stepSimple, hg, ht, himpl, hown] at h
    simp at h
    obtain ⟨rfl, rfl⟩ := h
    exact ⟨rfl, ⟨hS, hC⟩, hU1⟩
  | some im =>
    simp only [stepSimple, hg, ht, himpl, hown] at h
    simp at h
    obtain ⟨rfl, rfl⟩ := h
    refine ⟨rfl, ⟨?_, ?_⟩, ?_⟩
    · intro k v hv
      simp only [gcImpl_S] at hv
      exact hS k v hv
    · intro c hc
      have h3 := gcImpl_cells_subset _ im c hc
      exact hC c h3
    · exact UniqueCells_gcImpl _ im hU1

/-- … and a trackable_signal object owned by a functor dies the same way (`collect` runs `dropHandle` when the
    last functor copy holding it is gone): nothing refers to it afterwards -/
theorem dropHandle_dies_with_object (s : St) (g : Nat) (h0 : Handle)
    (hg : aget s.G g = some h0) (ht : h0.fl.isTrackable = true) (hU : UniqueCells s.impls) :
    NoTracker (dropHandle s g) h0.trk ∧ UniqueCells (dropHandle s g).impls ∧ aget (dropHandle s g).G g = none := by
  obtain ⟨hU1, hC, hS⟩ := invalidateTrackable_no_tracker s h0.trk hU
  unfold dropHandle
  simp only [hg, ht, if_true]
  cases himpl : h0.impl with
  | none => exact ⟨⟨hS, hC⟩, hU1, by simp⟩
  | some im =>
    refine ⟨⟨?_, ?_⟩, ?_, by simp [gcImpl_G]⟩
    · intro k v hv
      simp only [gcImpl_S] at hv
      exact hS k v hv
    · intro c hc
      have h3 := gcImpl_cells_subset _ im c hc
      exact hC c h3
    · exact UniqueCells_gcImpl _ im hU1

example : UniqueCells exStT.impls ∧ TracksBelow exStT := by decide

example : NoTracker (dropHandle exStT 0) 2 := (dropHandle_dies_with_object exStT 0 _ rfl rfl (by decide)).1

/-- on the concrete state: destroying signal object 0 empties slot variable 0 and erases the forwarder
    cell 5 from list 6 (connection 0 reports disconnected); the other cells stay -/
example : (stepSimple exStT (.delG 0)).map (fun x =>
      (x.1.S.map (fun p => p.2.slot.empty), x.1.impls.map (fun p => p.2.cells.map (·.id)), x.1.C)) =
    some ([true], [[4], [12]], [(0, none)]) := by
  decide

/-- **dies_with_object (move construction)**: move-constructing another signal from a trackable_signal
    (not `accumulated`: that is a copy) invalidates every forwarder made from the source -/
theorem mvG_dies_with_object (s s' : St) (r : String) (j i : Nat) (h0 : Handle)
    (hi : aget s.G i = some h0) (hj : aget s.G j = none) (ht : h0.fl.isTrackable = true) (hacc : h0.fl.isAcc = false)
    (hU : UniqueCells s.impls) (h : stepSimple s (.mvG j i) = some (s', r)) :
    r = "ok" ∧ NoTracker s' h0.trk ∧ UniqueCells s'.impls := by
  have key : ∀ s1 : St, UniqueCells s1.impls →
      NoTracker (invalidateTrackable s1 h0.trk) h0.trk ∧ UniqueCells (invalidateTrackable s1 h0.trk).impls := by
    intro s1 h1
    obtain ⟨hU1, hC, hS⟩ := invalidateTrackable_no_tracker s1 h0.trk h1
    exact ⟨⟨hS, hC⟩, hU1⟩
  simp only [stepSimple, hi, hj, hacc, ht] at h
  simp [St.fresh] at h
  obtain ⟨rfl, rfl⟩ := h
  exact ⟨rfl, key _ hU⟩

example : (stepSimple exStT (.mvG 3 0)).map (fun x =>
      (x.1.S.map (fun p => p.2.slot.empty), x.1.impls.map (fun p => p.2.cells.map (·.id)), x.1.G.map (fun p => p.2.impl))) =
    some ([true], [[4], [12]], [none, some 3, some 6, some 3]) := by
  decide

/-- **dies_with_object (move assignment)**: move-assigning a trackable_signal that has a list to another
    signal object (not refused as `owned`: `StepHandles.masgOwned`) invalidates every forwarder made from the
    source -/
theorem masgG_dies_with_object (s s' : St) (r : String) (j i : Nat) (d h0 : Handle)
    (hj : aget s.G j = some d) (hi : aget s.G i = some h0) (hfl : d.fl = h0.fl) (hlvl : d.lvl = h0.lvl) (hji : j ≠ i)
    (ht : h0.fl.isTrackable = true) (hacc : h0.fl.isAcc = false) (hsome : h0.impl.isSome = true)
    (hU : UniqueCells s.impls) (hown : masgOwned s h0.fl j i = false)
    (h : stepSimple s (.masgG j i) = some (s', r)) :
    r = "ok" ∧ NoTracker s' h0.trk ∧ UniqueCells s'.impls := by
  unfold masgOwned at hown
  simp only [stepSimple, hj, hi] at h
  rw [if_neg (by simp [hfl]), if_neg (by simp [hlvl])] at h
  simp only [hacc, hown, Bool.not_false, Bool.and_false] at h
  simp only [hji, if_false, Bool.false_eq_true, ht, hsome, Bool.and_self, if_true, Option.some.injEq, Prod.mk.injEq] at h
  obtain ⟨rfl, rfl⟩ := h
  have hU2 : UniqueCells (match d.impl with
      | some old => gcImpl { s with G := aset (aset s.G j { d with impl := h0.impl }) i { h0 with impl := none } } old
      | none => { s with G := aset (aset s.G j { d with impl := h0.impl }) i { h0 with impl := none } }).impls := by
    cases d.impl with
    | none => exact hU
    | some old => exact UniqueCells_gcImpl _ old hU
  obtain ⟨hU1, hC, hS⟩ := invalidateTrackable_no_tracker _ h0.trk hU2
  exact ⟨rfl, ⟨hS, hC⟩, hU1⟩

example : (stepSimple exStT (.masgG 1 0)).map (fun x =>
      (x.1.S.map (fun p => p.2.slot.empty), x.1.impls.map (fun p => p.2.cells.map (·.id)), x.1.G.map (fun p => p.2.impl))) =
    some ([true], [[4], [12]], [none, some 3, some 6]) := by
  decide

/-- **copy_is_distinct**: a copy of a trackable_signal has its own, fresh trackable base; destroying the
    copy invalidates nothing — every slot variable, every list (with all forwarders made from the
    original) and every connection is untouched, and the shared list lives on.
    `hnown`: no functor owns the (unused) name `j` — in every reachable state a consequence of `hj`, see
    `copy_is_distinct_run` -/
theorem copy_is_distinct (s s1 s2 : St) (r1 r2 : String) (j i : Nat) (h0 : Handle)
    (hi : aget s.G i = some h0) (hj : aget s.G j = none) (hfresh : TracksBelow s)
    (hnown : s.ownedG.any (fun p => p.2 = j) = false)
    (h1 : stepSimple s (.cpG j i) = some (s1, r1)) (h2 : stepSimple s1 (.delG j) = some (s2, r2)) :
    r2 = "ok" ∧ s2.S = s.S ∧ s2.impls = s1.impls ∧ s2.C = s.C ∧ s2.K = s.K ∧
    aget s2.G i = aget s1.G i ∧ aget s2.G j = none := by
  have hji : j ≠ i := by intro e; rw [e, hi] at hj; cases hj
  obtain ⟨sa, im, he, hga, hoth, hSa, hCa, hKa, _, _, hcase⟩ := ensureImpl_cases s i h0 hi
  simp only [stepSimple, hi, hj, he, hga] at h1
  simp [St.fresh] at h1
  obtain ⟨rfl, rfl⟩ := h1
  -- the copy's trackable base `sa.next + 1` is fresh: nothing refers to it
  have hnext : sa.next ≥ s.next := by
    rcases hcase with ⟨_, rfl⟩ | ⟨_, _, rfl⟩
    · exact Nat.le_refl _
    · simp [allocImpl]
  have hsub : ∀ c ∈ allCells sa.impls, c ∈ allCells s.impls := by
    rcases hcase with ⟨_, rfl⟩ | ⟨_, _, rfl⟩
    · exact fun c hc => hc
    · exact fun c hc => allCells_aset_empty_subset _ _ c hc
  obtain ⟨fS, fI⟩ := TracksBelow_fresh s hfresh (sa.next + 1) (by omega)
  have hnoop : ∀ (G' : List (Nat × Handle)) (n : Nat),
      invalidateTrackable { sa with next := n, G := G' } (sa.next + 1) = { sa with next := n, G := G' } := by
    intro G' n
    apply invalidateTrackable_noop
    · intro p hp; exact fS p (by rw [← hSa]; exact hp)
    · intro c hc; exact fI c (hsub c hc)
  have hownA : sa.ownedG.any (fun p => p.2 = j) = false := by
    rcases hcase with ⟨_, rfl⟩ | ⟨_, _, rfl⟩
    · exact hnown
    · exact hnown
  simp only [stepSimple, aget_aset_same, Bool.false_and, Bool.false_eq_true, if_false, hnoop, ite_self, hownA] at h2
  have hown : ∀ (n : Nat), gcImpl { sa with next := n, G := adel (aset sa.G j
        { obj := sa.next, fl := h0.fl, impl := some im, trk := sa.next + 1, lvl := h0.lvl }) j } im
      = { sa with next := n, G := adel (aset sa.G j
        { obj := sa.next, fl := h0.fl, impl := some im, trk := sa.next + 1, lvl := h0.lvl }) j } := by
    intro n
    apply gcImpl_owned
    apply refersTo_of_aget _ i im { h0 with impl := some im }
    · simp only []
      rw [aget_adel_other _ _ _ (Ne.symm hji), aget_aset_other _ _ _ _ (Ne.symm hji)]
      exact hga
    · rfl
  simp only [hown, Option.some.injEq, Prod.mk.injEq] at h2
  obtain ⟨rfl, rfl⟩ := h2
  refine ⟨rfl, hSa, rfl, hCa, hKa, ?_, by simp⟩
  simp only []
  rw [aget_adel_other _ _ _ (Ne.symm hji)]

example :
    let run := fun (s : Option (St × String)) (op : Op) => s.bind (fun x => stepSimple x.1 op)
    let s2 := [Op.cpG 3 0, .delG 3].foldl run (some (exStT, ""))
    s2.map (fun x => (x.1.S.map (fun p => p.2.slot.empty), x.1.impls.map (fun p => p.2.cells.map (·.id)), x.1.C)) =
      some ([false], [[4], [5, 12]], [(0, some 5)]) := by
  decide

/-! ## top-level forms: every run of every program -/

/-- **dies_with_object** in every well-formed state (every state in which any operation of any run
    executes, also from inside an emission of `b` that is currently forwarding — `execOp_WF`): the three
    notifying operations leave nothing referring to the trackable_signal object, and keep well-formedness -/
theorem dies_with_object_wf (s s' : St) (r : String) (op : Op) (h0 : Handle) (hw : WF s)
    (hop : (∃ g, op = .delG g ∧ aget s.G g = some h0 ∧ s.ownedG.any (fun p => p.2 = g) = false) ∨
           (∃ j i, op = .mvG j i ∧ aget s.G i = some h0 ∧ aget s.G j = none ∧ h0.fl.isAcc = false) ∨
           (∃ j i d, op = .masgG j i ∧ aget s.G j = some d ∧ aget s.G i = some h0 ∧ d.fl = h0.fl ∧ d.lvl = h0.lvl ∧
              j ≠ i ∧ h0.fl.isAcc = false ∧ h0.impl.isSome = true ∧ masgOwned s h0.fl j i = false))
    (ht : h0.fl.isTrackable = true) (h : stepSimple s op = some (s', r)) :
    r = "ok" ∧ NoTracker s' h0.trk ∧ WF s' := by
  have hw' : WF s' := stepSimple_WF hw h
  rcases hop with ⟨g, rfl, hg, hown⟩ | ⟨j, i, rfl, hi, hj, hacc⟩ | ⟨j, i, d, rfl, hj, hi, hfl, hlvl, hji, hacc, hsome, hown⟩
  · obtain ⟨a, b, _⟩ := delG_dies_with_object s s' r g h0 hg ht hw.uniqueCells hown h
    exact ⟨a, b, hw'⟩
  · obtain ⟨a, b, _⟩ := mvG_dies_with_object s s' r j i h0 hi hj ht hacc hw.uniqueCells h
    exact ⟨a, b, hw'⟩
  · obtain ⟨a, b, _⟩ := masgG_dies_with_object s s' r j i d h0 hj hi hfl hlvl hji ht hacc hsome hw.uniqueCells hown h
    exact ⟨a, b, hw'⟩

example : WF exStT := by decide

/-- **dies_with_object, for every run**: in the state reached by running any lines of any program at any
    fuel, destroying a trackable_signal object leaves no slot variable and no cell of any list referring
    to it — `b` can never emit the destroyed signal -/
theorem delG_dies_with_object_run (f : Nat) (P : Prog) (ls : List Line) (s s' : St) (r : String) (g : Nat) (h0 : Handle)
    (hrun : runTop f P {} ls = some s) (hg : aget s.G g = some h0) (ht : h0.fl.isTrackable = true)
    (hown : s.ownedG.any (fun p => p.2 = g) = false)
    (h : stepSimple s (.delG g) = some (s', r)) :
    r = "ok" ∧ NoTracker s' h0.trk :=
  let ⟨a, b, _⟩ := delG_dies_with_object s s' r g h0 hg ht (reachable_UniqueCells f P ls s hrun) hown h
  ⟨a, b⟩

/-- … and so does move construction from it -/
theorem mvG_dies_with_object_run (f : Nat) (P : Prog) (ls : List Line) (s s' : St) (r : String) (j i : Nat) (h0 : Handle)
    (hrun : runTop f P {} ls = some s) (hi : aget s.G i = some h0) (hj : aget s.G j = none)
    (ht : h0.fl.isTrackable = true) (hacc : h0.fl.isAcc = false) (h : stepSimple s (.mvG j i) = some (s', r)) :
    r = "ok" ∧ NoTracker s' h0.trk :=
  let ⟨a, b, _⟩ := mvG_dies_with_object s s' r j i h0 hi hj ht hacc (reachable_UniqueCells f P ls s hrun) h
  ⟨a, b⟩

/-- **copy_is_distinct, for every run**: in every reachable state, copying a signal object and destroying
    the copy changes no slot variable, no list and no connection -/
theorem copy_is_distinct_run (f : Nat) (P : Prog) (ls : List Line) (s s1 s2 : St) (r1 r2 : String) (j i : Nat) (h0 : Handle)
    (hrun : runTop f P {} ls = some s) (hi : aget s.G i = some h0) (hj : aget s.G j = none)
    (h1 : stepSimple s (.cpG j i) = some (s1, r1)) (h2 : stepSimple s1 (.delG j) = some (s2, r2)) :
    r2 = "ok" ∧ s2.S = s.S ∧ s2.impls = s1.impls ∧ s2.C = s.C ∧ s2.K = s.K := by
  -- in a reachable state every functor-owned name is live (`Inv.OG`), so the unused name `j` is not owned
  have hog : Sigc.Inv.OG s := Sigc.Inv.OG.stable.runTop_from f P ls {} s Sigc.Inv.OG.init hrun
  have hnown : s.ownedG.any (fun p => p.2 = j) = false := by
    cases hc : s.ownedG.any (fun p => p.2 = j) with
    | false => rfl
    | true =>
      obtain ⟨p, hp, e⟩ := List.any_eq_true.1 hc
      obtain ⟨hd, hg, _⟩ := hog.1 p hp
      have e' : p.2 = j := by simpa using e
      rw [e', hj] at hg; cases hg
  obtain ⟨a, b, c, d, e, _⟩ :=
    copy_is_distinct s s1 s2 r1 r2 j i h0 hi hj (reachable_TracksBelow f P ls s hrun) hnown h1 h2
  exact ⟨a, b, c, d, e⟩

/-- a run: `newG 0 TI; newG 1 I; connfn 0 1 (fwd 0); cpG 2 0; delG 2; sizeq 1 → 1; delG 0; sizeq 1 → 0`
    (destroying the copy keeps the forwarder, destroying the original removes it) -/
example :
    let run := fun (s : Option (St × String)) (op : Op) => s.bind (fun x => stepSimple x.1 op)
    let s5 := [Op.newG 0 (some .TI), .newG 1 (some .I), .connfn 0 1 (.fwd 0) false, .cpG 2 0, .delG 2].foldl run (some ({}, ""))
    (run s5 (.sizeq 1)).map (·.2) = some "1" ∧ (run (run s5 (.delG 0)) (.sizeq 1)).map (·.2) = some "0" := by
  decide


/-! ## the specification `S` -/

/-- in `S`, too, invoking a `make_slot()` forwarder is an emission of the target signal object with the
    same argument, whose outcome and result it yields -/
theorem spec_forwarder_emits_target (f : Nat) (P : Prog) (s : Spec.LSt) (o arg g : Nat) (ts : List Nat) (h : Handle)
    (hh : Spec.handleByObj s o = some (g, h)) :
    Spec.invokeFun (f+1) P s (.fwd o ts) arg = Spec.emitSig f P s h.fl h.impl arg .sum := by
  rw [Spec.invokeFun]
  simp [hh]

/-- in `S`, destroying a trackable_signal object (not refused: no functor owns it) empties every slot variable
    holding a forwarder to it -/
theorem spec_delG_invalidates_forwarders (s s' : Spec.LSt) (r : String) (g : Nat) (h0 : Handle)
    (hg : aget s.G g = some h0) (ht : h0.fl.isTrackable = true) (hown : s.ownedG.any (fun p => p.2 = g) = false)
    (h : Spec.stepSimple s (.delG g) = some (s', r)) :
    r = "ok" ∧ s'.S = amap s.S (invVar h0.trk) := by
  simp only [Spec.stepSimple, hg, ht, hown] at h
  simp at h
  obtain ⟨rfl, rfl⟩ := h
  refine ⟨rfl, ?_⟩
  cases h0.impl with
  | none => rfl
  | some im =>
    simp only [Spec.gcSig]
    split
    · rfl
    · split <;> rfl

example :
    let s : Spec.LSt := { G := [(0, { obj := 1, fl := .TI, impl := none, trk := 2, lvl := 0 })],
                          S := [(0, { isVoid := false, slot := { rep := some { call := true, fn := some (.fwd 1 [2]) } } })],
                          next := 3 }
    (Spec.stepSimple s (.delG 0)).map (fun x => x.1.S.map (fun p => p.2.slot.empty)) = some [true] := by decide

end Sigc.C18
