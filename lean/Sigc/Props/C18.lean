import Sigc.Model
import Sigc.Lemmas.Basic
import Sigc.Lemmas.Frames
/-!
# C18 — signals chain through make_slot(); a dying trackable_signal unhooks itself
(first theorems; more in Sigc/Lemmas/Step*.lean)
-/
namespace Sigc.C18
open Sigc.Model

/-- invoking a `make_slot()` forwarder emits the target signal object with the same argument and
    yields that emission's outcome and result, for every program and fuel -/
theorem forwarder_emits_target (f : Nat) (P : Prog) (s : St) (o arg g : Nat) (ts : List Nat) (h : Handle)
    (hh : handleByObj s o = some (g, h)) :
    invokeFun (f+1) P s (.fwd o ts) arg = emitImpl f P s h.fl h.impl arg .sum := by
  rw [invokeFun]
  simp [hh]

/-- a forwarder refers to the trackable base of its target exactly when the target is a trackable_signal -/
theorem forwarder_tracks_iff_trackable (s s' : St) (g : Nat) (h : Handle) (isVoid : Bool) (fn : Fun)
    (hg : aget s.G g = some h) (hm : mkFun s isVoid (.fwd g) = .ok (fn, s')) :
    fn = .fwd h.obj (if h.fl.isTrackable then [h.trk] else []) ∧
    fn.tracks = (if h.fl.isTrackable then [h.trk] else []) := by
  simp only [mkFun, hg] at hm
  split at hm
  · cases hm
  · simp at hm
    obtain ⟨rfl, _⟩ := hm
    exact ⟨rfl, rfl⟩

/-- copy construction gives the copy its own, fresh trackable identity -/
theorem cpG_fresh_trackable (s s' : St) (r : String) (j i im : Nat) (h0 : Handle)
    (hi : aget s.G i = some h0) (hj : aget s.G j = none) (himpl : h0.impl = some im)
    (h : stepSimple s (.cpG j i) = some (s', r)) :
    ∃ hd, aget s'.G j = some hd ∧ hd.trk = s.next + 1 ∧ hd.obj = s.next ∧ hd.impl = some im ∧ hd.fl = h0.fl := by
  simp only [stepSimple, hi, hj, ensureImpl, himpl] at h
  simp [St.fresh, hi] at h
  obtain ⟨rfl, _⟩ := h
  exact ⟨{ obj := s.next, fl := h0.fl, impl := some im, trk := s.next + 1, lvl := h0.lvl }, by simp, rfl, rfl, rfl, rfl⟩

/-- destroying a trackable_signal object invalidates every slot variable holding a forwarder to it -/
theorem delG_invalidates_forwarders (s s' : St) (r : String) (g : Nat) (h0 : Handle)
    (hg : aget s.G g = some h0) (ht : h0.fl.isTrackable = true)
    (h : stepSimple s (.delG g) = some (s', r)) :
    r = "ok" ∧ ∀ i v, aget s'.S i = some v → v.slot.tracksObj h0.trk = false := by
  simp only [stepSimple, hg, ht] at h
  simp at h
  obtain ⟨rfl, rfl⟩ := h
  refine ⟨rfl, ?_⟩
  intro i v hv
  have key : ∀ (s0 : St) i v, aget (invalidateTrackable s0 h0.trk).S i = some v → v.slot.tracksObj h0.trk = false := by
    intro s0 i v h
    unfold invalidateTrackable at h
    simp only [foldl_invalidateCell_S] at h
    rw [aget_amap] at h
    cases hv0 : aget s0.S i with
    | none => simp [hv0] at h
    | some v0 =>
      simp [hv0] at h
      subst h
      by_cases hx : v0.slot.tracksObj h0.trk = true
      · simp only [hx, if_true]
        unfold SlotB.invalidate
        cases hr : v0.slot.rep <;> simp [SlotB.tracksObj, hr]
      · simpa [hx] using hx
  cases himpl : h0.impl with
  | none =>
    simp [himpl] at hv
    exact key s i v hv
  | some im =>
    simp only [himpl, gcImpl_S] at hv
    exact key s i v hv

example : invokeFun 2 { bodies := [], top := [] }
    { G := [(0, { obj := 4, fl := .I, impl := none, trk := 5, lvl := 0 })] } (.fwd 4 []) 3
      = some ({ G := [(0, { obj := 4, fl := .I, impl := none, trk := 5, lvl := 0 })] }, .ok, 0) := by
  rw [forwarder_emits_target 1 _ _ 4 3 0 [] { obj := 4, fl := .I, impl := none, trk := 5, lvl := 0 } (by simp [handleByObj])]
  rw [emitImpl]

end Sigc.C18
