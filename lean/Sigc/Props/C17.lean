import Sigc.Model
import Sigc.Lemmas.Basic
import Sigc.Lemmas.Frames
/-!
# C17 — a scoped_connection disconnects its slot exactly when it gives up ownership
(first theorems; the complete family is being proved in Sigc/Lemmas/Step*.lean)
-/
namespace Sigc.C17
open Sigc.Model

/-- move construction transfers the responsibility without disconnecting: no list changes, the new
    object holds what the source held, the source is empty -/
theorem mvK_transfers (s s' : St) (r : String) (j i : Nat) (p : Option Nat)
    (hi : aget s.K i = some p) (hj : aget s.K j = none) (hji : j ≠ i)
    (h : stepSimple s (.mvK j i) = some (s', r)) :
    r = "ok" ∧ s'.impls = s.impls ∧ s'.C = s.C ∧ s'.S = s.S ∧ aget s'.K j = some p ∧ aget s'.K i = some none := by
  simp only [stepSimple, hi, hj] at h
  simp at h
  obtain ⟨rfl, rfl⟩ := h
  refine ⟨rfl, rfl, rfl, rfl, by simp, ?_⟩
  simp [aget_aset_other _ _ _ _ (Ne.symm hji)]

/-- `swap` exchanges the two responsibilities without disconnecting -/
theorem swapK_exchanges (s s' : St) (r : String) (i j : Nat) (a b : Option Nat)
    (hi : aget s.K i = some a) (hj : aget s.K j = some b) (hij : i ≠ j)
    (h : stepSimple s (.swapK i j) = some (s', r)) :
    r = "ok" ∧ s'.impls = s.impls ∧ s'.C = s.C ∧ aget s'.K i = some b ∧ aget s'.K j = some a := by
  simp only [stepSimple, hi, hj] at h
  simp at h
  obtain ⟨rfl, rfl⟩ := h
  refine ⟨rfl, rfl, rfl, ?_, by simp⟩
  simp [aget_aset_other _ _ _ _ hij]

/-- `release()` hands the connection back without disconnecting and leaves the scoped_connection empty -/
theorem relK_releases (s s' : St) (r : String) (c k : Nat) (p : Option Nat)
    (hk : aget s.K k = some p) (h : stepSimple s (.relK c k) = some (s', r)) :
    r = "ok" ∧ s'.impls = s.impls ∧ aget s'.K k = some none ∧ aget s'.C c = some p := by
  simp only [stepSimple, hk] at h
  simp [setConn] at h
  obtain ⟨rfl, rfl⟩ := h
  exact ⟨rfl, rfl, by simp, by simp⟩

/-- destruction disconnects exactly the held slot (and an empty scoped_connection disconnects nothing) -/
theorem delK_disconnects_held (s s' : St) (r : String) (k : Nat) (p : Option Nat)
    (hk : aget s.K k = some p) (h : stepSimple s (.delK k) = some (s', r)) :
    r = "ok" ∧ s' = (match p with
                     | some cid => disconnectCell { s with K := adel s.K k } cid
                     | none => { s with K := adel s.K k }) := by
  cases p <;>
  · simp only [stepSimple, hk] at h
    simp at h
    obtain ⟨rfl, rfl⟩ := h
    exact ⟨rfl, rfl⟩

/-- explicit `disconnect()` disconnects exactly the held slot and keeps holding it -/
theorem discK_disconnects_held (s s' : St) (r : String) (k : Nat) (p : Option Nat)
    (hk : aget s.K k = some p) (h : stepSimple s (.discK k) = some (s', r)) :
    r = "ok" ∧ s' = (match p with
                     | some cid => disconnectCell s cid
                     | none => s) := by
  cases p <;>
  · simp only [stepSimple, hk] at h
    simp at h
    obtain ⟨rfl, rfl⟩ := h
    exact ⟨rfl, rfl⟩

example : ∃ s', stepSimple { K := [(0, some 7)] } (.mvK 1 0) = some (s', "ok") ∧ s'.K = [(0, none), (1, some 7)] := by
  exact ⟨_, rfl, by simp [aset]⟩

end Sigc.C17
