import Sigc.Model
import Sigc.Lemmas.Basic
import Sigc.Lemmas.Frames
import Sigc.Lemmas.StepConn
import Sigc.Spec
/-!
# C17 — a scoped_connection disconnects its slot exactly when it gives up ownership

Per-operation theorems about `stepSimple` of the mechanism model, valid for **every** state `s` (no
well-formedness is assumed) and, through `execOp`, for every program and fuel.  `disconnectCell` is
`slot_rep::disconnect()` on the rep of a list cell; by `disconnectCell_eq` (Lemmas/StepConn.lean) it is
the pure table transformation `discI` plus nulling of every connection to the cell iff it was erased.
Domain: self-move-assignment `masgK i i` is outside C17's histories (DESIGN §2); the model answers
"self" and changes nothing (`masgK_self`).
-/
namespace Sigc.C17
open Sigc.Model Sigc.StepConn

/-- move construction transfers the responsibility without disconnecting: no list changes, the new
    object holds what the source held, the source is empty -/
theorem mvK_transfers (s s' : St) (r : String) (j i : Nat) (p : Option Nat)
    (hi : aget s.K i = some p) (hj : aget s.K j = none) (hji : j ≠ i)
    (h : stepSimple s (.mvK j i) = some (s', r)) :
    r = "ok" ∧ s'.impls = s.impls ∧ s'.C = s.C ∧ s'.S = s.S ∧ aget s'.K j = some p ∧ aget s'.K i = some none := by
  simp only [stepSimple, hi, hj] at h
  simp at h
  obtain ⟨rfl, rfl⟩ := h
  refine ⟨rfl, rfl, rfl, rfl, by simp, ?_⟩
  simp [aget_aset_other _ _ _ _ (Ne.symm hji)]

/-- `swap` exchanges the two responsibilities without disconnecting -/
theorem swapK_exchanges (s s' : St) (r : String) (i j : Nat) (a b : Option Nat)
    (hi : aget s.K i = some a) (hj : aget s.K j = some b) (hij : i ≠ j)
    (h : stepSimple s (.swapK i j) = some (s', r)) :
    r = "ok" ∧ s'.impls = s.impls ∧ s'.C = s.C ∧ aget s'.K i = some b ∧ aget s'.K j = some a := by
  simp only [stepSimple, hi, hj] at h
  simp at h
  obtain ⟨rfl, rfl⟩ := h
  refine ⟨rfl, rfl, rfl, ?_, by simp⟩
  simp [aget_aset_other _ _ _ _ hij]

/-- `release()` hands the connection back without disconnecting and leaves the scoped_connection empty -/
theorem relK_releases (s s' : St) (r : String) (c k : Nat) (p : Option Nat)
    (hk : aget s.K k = some p) (h : stepSimple s (.relK c k) = some (s', r)) :
    r = "ok" ∧ s'.impls = s.impls ∧ aget s'.K k = some none ∧ aget s'.C c = some p := by
  simp only [stepSimple, hk] at h
  simp [setConn] at h
  obtain ⟨rfl, rfl⟩ := h
  exact ⟨rfl, rfl, by simp, by simp⟩

/-- destruction disconnects exactly the held slot (and an empty scoped_connection disconnects nothing) -/
theorem delK_disconnects_held (s s' : St) (r : String) (k : Nat) (p : Option Nat)
    (hk : aget s.K k = some p) (h : stepSimple s (.delK k) = some (s', r)) :
    r = "ok" ∧ s' = (match p with
                     | some cid => disconnectCell { s with K := adel s.K k } cid
                     | none => { s with K := adel s.K k }) := by
  cases p <;>
  · simp only [stepSimple, hk] at h
    simp at h
    obtain ⟨rfl, rfl⟩ := h
    exact ⟨rfl, rfl⟩

/-- explicit `disconnect()` disconnects exactly the held slot and keeps holding it -/
theorem discK_disconnects_held (s s' : St) (r : String) (k : Nat) (p : Option Nat)
    (hk : aget s.K k = some p) (h : stepSimple s (.discK k) = some (s', r)) :
    r = "ok" ∧ s' = (match p with
                     | some cid => disconnectCell s cid
                     | none => s) := by
  cases p <;>
  · simp only [stepSimple, hk] at h
    simp at h
    obtain ⟨rfl, rfl⟩ := h
    exact ⟨rfl, rfl⟩

example : ∃ s', stepSimple { K := [(0, some 7)] } (.mvK 1 0) = some (s', "ok") ∧ s'.K = [(0, none), (1, some 7)] := by
  exact ⟨_, rfl, by simp [aset]⟩

example : ∃ s', stepSimple { K := [(0, some 7), (1, none)] } (.swapK 0 1) = some (s', "ok") ∧ s'.K = [(0, none), (1, some 7)] := by
  exact ⟨_, rfl, by simp [aset]⟩

example : ∃ s', stepSimple { K := [(0, some 7)], C := [(3, none)] } (.relK 3 0) = some (s', "ok")
    ∧ s'.K = [(0, none)] ∧ s'.C = [(3, some 7)] := by
  exact ⟨_, rfl, by simp [aset, setConn], by simp [aset, setConn]⟩

example : (stepSimple exStK (.delK 0)).map (fun x => (x.1.impls.map (fun p => p.2.cells.map (·.id)), x.1.C, x.1.K))
    = some ([[6]], [(0, none), (1, some 6)], [(1, some 6)]) := by decide

example : (stepSimple exStK (.discK 0)).map (fun x => (x.1.impls.map (fun p => p.2.cells.map (·.id)), x.1.C, x.1.K))
    = some ([[6]], [(0, none), (1, some 6)], [(0, none), (1, some 6)]) := by decide

/-- assigning a connection (`operator=(connection)`) disconnects exactly the slot held before and then
    holds the assigned connection (which is empty if it referred to the slot just erased) -/
theorem asgKC_disconnects_old (s s' : St) (r : String) (i c : Nat) (old p : Option Nat)
    (hk : aget s.K i = some old) (hc : aget s.C c = some p) (h : stepSimple s (.asgKC i c) = some (s', r)) :
    r = "ok" ∧ ∃ p', s' = { discOpt s old with K := aset (discOpt s old).K i p' } ∧
      aget (discOpt s old).C c = some p' ∧ (p' = p ∨ (p' = none ∧ p = old ∧ old ≠ none)) := by
  obtain ⟨p', hp', hor⟩ := discOpt_C_entry s old c p hc
  cases old with
  | none =>
    simp only [discOpt] at hp' ⊢
    have e : p' = p := by rw [hc] at hp'; exact (Option.some.inj hp').symm
    subst e
    simp only [stepSimple, hk, hc, Option.some.injEq, Prod.mk.injEq] at h
    obtain ⟨rfl, rfl⟩ := h
    exact ⟨rfl, p', rfl, hp', hor⟩
  | some cid =>
    simp only [discOpt] at hp' ⊢
    simp only [stepSimple, hk, hc] at h
    simp only [hp', Option.some.injEq, Prod.mk.injEq] at h
    obtain ⟨rfl, rfl⟩ := h
    exact ⟨rfl, p', rfl, hp', hor⟩

example : (stepSimple exStK (.asgKC 0 1)).map (fun x => (x.1.impls.map (fun p => p.2.cells.map (·.id)), x.1.C, x.1.K))
    = some ([[6]], [(0, none), (1, some 6)], [(0, some 6), (1, some 6)]) := by decide

/-- move assignment from another scoped_connection disconnects exactly the slot the destination held,
    transfers the source's slot without disconnecting it, and leaves the source empty -/
theorem masgK_disconnects_old_transfers (s s' : St) (r : String) (j i : Nat) (old p : Option Nat)
    (hj : aget s.K j = some old) (hi : aget s.K i = some p) (hji : j ≠ i)
    (h : stepSimple s (.masgK j i) = some (s', r)) :
    r = "ok" ∧ ∃ p', s' = { discOpt s old with K := aset (aset (discOpt s old).K i none) j p' } ∧
      aget s'.K j = some p' ∧ aget s'.K i = some none ∧
      (p' = p ∨ (p' = none ∧ p = old ∧ old ≠ none)) ∧
      s'.impls = (discOpt s old).impls := by
  obtain ⟨p', hp', hor⟩ := discOpt_K_entry s old i p hi
  cases old with
  | none =>
    simp only [discOpt] at hp' ⊢
    have e : p' = p := by rw [hi] at hp'; exact (Option.some.inj hp').symm
    subst e
    simp only [stepSimple, hj, hi, hji, if_false, Option.some.injEq, Prod.mk.injEq] at h
    obtain ⟨rfl, rfl⟩ := h
    refine ⟨rfl, p', rfl, by simp, ?_, hor, rfl⟩
    simp [aget_aset_other _ _ _ _ (Ne.symm hji)]
  | some cid =>
    simp only [discOpt] at hp' ⊢
    simp only [stepSimple, hj, hi, hji, if_false] at h
    simp only [hp', Option.some.injEq, Prod.mk.injEq] at h
    obtain ⟨rfl, rfl⟩ := h
    refine ⟨rfl, p', rfl, by simp, ?_, hor, rfl⟩
    simp [aget_aset_other _ _ _ _ (Ne.symm hji)]

example : (stepSimple exStK (.masgK 0 1)).map (fun x => (x.1.impls.map (fun p => p.2.cells.map (·.id)), x.1.C, x.1.K))
    = some ([[6]], [(0, none), (1, some 6)], [(0, some 6), (1, none)]) := by decide

/-- self-move-assignment is outside C17's histories; the model leaves the state unchanged -/
theorem masgK_self (s : St) (i : Nat) (p : Option Nat) (hi : aget s.K i = some p) :
    stepSimple s (.masgK i i) = some (s, "self") := by
  simp [stepSimple, hi]

example : stepSimple exStK (.masgK 0 0) = some (exStK, "self") := masgK_self _ _ _ rfl

/-- **disconnects-iff, per step**: a scoped-connection operation changes the slot lists exactly by the
    `disconnect()` (`discI`) of the cell named by `kDisconnects` — the cell held by the object that is
    destroyed / assigned a connection / moved into / explicitly disconnected — and not at all when
    `kDisconnects` names none (move construction, swap, release, construction, queries, operations on
    dead names, an object holding nothing) -/
theorem disconnects_iff_step (s s' : St) (r : String) (op : Op) (hop : isKOp op = true)
    (h : stepSimple s op = some (s', r)) :
    s'.impls = match kDisconnects s op with
               | some cid => (discI s.impls cid).1
               | none => s.impls :=
  kop_impls s s' r op hop h

example : kDisconnects exStK (.delK 0) = some 5 ∧ kDisconnects exStK (.mvK 2 0) = none
    ∧ kDisconnects exStK (.swapK 0 1) = none ∧ kDisconnects exStK (.relK 0 0) = none
    ∧ kDisconnects exStK (.masgK 1 0) = some 6 ∧ kDisconnects exStK (.asgKC 1 0) = some 6 := by decide

/-- the same for every operation executed by any program at any fuel (every step of every history goes
    through `execOp`) -/
theorem disconnects_iff (f : Nat) (P : Prog) (s s' : St) (res : Except Unit String) (op : Op) (hop : isKOp op = true)
    (h : execOp (f+1) P s op = some (s', res)) :
    s'.impls = match kDisconnects s op with
               | some cid => (discI s.impls cid).1
               | none => s.impls := by
  obtain ⟨r, hr, _⟩ := execOp_kop f P s s' res op hop h
  exact kop_impls s s' r op hop hr

/-- the transferring operations (move construction, swap, release) and construction never disconnect -/
theorem transfer_no_disconnect (s s' : St) (r : String) (op : Op)
    (hop : (match op with | .mvK _ _ | .swapK _ _ | .relK _ _ | .newK _ _ | .newK0 _ => true | _ => false) = true)
    (h : stepSimple s op = some (s', r)) : s'.impls = s.impls := by
  cases op <;> simp at hop <;> exact kop_impls s s' r _ rfl h

example : (stepSimple exStK (.mvK 2 0)).map (fun x => (x.1.impls.map (fun p => p.2.cells.map (·.id)), x.1.K))
    = some ([[5, 6]], [(0, none), (1, some 6), (2, some 5)]) := by
  decide

/-- the plain connection copies are untouched by every scoped-connection operation except `release()`
    (which by definition stores the released connection into its target) — unless the disconnected
    cell was erased, in which case exactly the connections to that cell are nulled -/
theorem plain_untouched (s s' : St) (r : String) (op : Op) (hop : isKOp op = true)
    (hrel : ∀ c k, op ≠ .relK c k) (h : stepSimple s op = some (s', r)) :
    s'.C = s.C ∨ ∃ cid, kDisconnects s op = some cid ∧ (discI s.impls cid).2 = true ∧ s'.C = amap s.C (nullF cid) := by
  cases op <;> simp only [isKOp] at hop <;> try (exact absurd hop (by decide))
  case newK0 i =>
    simp only [stepSimple] at h
    split at h <;> simp at h <;> obtain ⟨rfl, _⟩ := h <;> exact Or.inl rfl
  case newK i c =>
    simp only [stepSimple] at h
    split at h
    · simp at h; obtain ⟨rfl, _⟩ := h; exact Or.inl rfl
    · split at h <;> simp at h <;> obtain ⟨rfl, _⟩ := h <;> exact Or.inl rfl
  case asgKC i c =>
    cases hk : aget s.K i with
    | none => simp [stepSimple, hk] at h; obtain ⟨rfl, _⟩ := h; exact Or.inl rfl
    | some old =>
      cases hc : aget s.C c with
      | none => simp [stepSimple, hk, hc] at h; obtain ⟨rfl, _⟩ := h; exact Or.inl rfl
      | some p =>
        obtain ⟨_, p', rfl, _, _⟩ := asgKC_disconnects_old s s' r i c old p hk hc h
        simp only [kDisconnects, hk, hc]
        exact discOpt_C s old
  case mvK j i =>
    simp only [stepSimple] at h
    split at h
    · simp at h; obtain ⟨rfl, _⟩ := h; exact Or.inl rfl
    · split at h <;> simp at h <;> obtain ⟨rfl, _⟩ := h <;> exact Or.inl rfl
  case masgK j i =>
    cases hj : aget s.K j with
    | none => simp [stepSimple, hj] at h; obtain ⟨rfl, _⟩ := h; exact Or.inl rfl
    | some old =>
      cases hi : aget s.K i with
      | none => simp [stepSimple, hj, hi] at h; obtain ⟨rfl, _⟩ := h; exact Or.inl rfl
      | some p =>
        by_cases hji : j = i
        · simp [stepSimple, hi, hji] at h; obtain ⟨rfl, _⟩ := h; exact Or.inl rfl
        · obtain ⟨_, p', rfl, _⟩ := masgK_disconnects_old_transfers s s' r j i old p hj hi hji h
          simp only [kDisconnects, hj, hi, hji, if_false]
          exact discOpt_C s old
  case swapK i j =>
    simp only [stepSimple] at h
    split at h <;> simp at h <;> obtain ⟨rfl, _⟩ := h <;> exact Or.inl rfl
  case relK c k => exact absurd rfl (hrel c k)
  case discK i =>
    cases hk : aget s.K i with
    | none => simp [stepSimple, hk] at h; obtain ⟨rfl, _⟩ := h; exact Or.inl rfl
    | some p =>
      obtain ⟨_, rfl⟩ := discK_disconnects_held s s' r i p hk h
      simp only [kDisconnects, hk]
      have := discOpt_C s p
      cases p with
      | none => exact Or.inl rfl
      | some cid => simpa [discOpt] using this
  case delK i =>
    cases hk : aget s.K i with
    | none => simp [stepSimple, hk] at h; obtain ⟨rfl, _⟩ := h; exact Or.inl rfl
    | some p =>
      obtain ⟨_, rfl⟩ := delK_disconnects_held s s' r i p hk h
      simp only [kDisconnects, hk]
      have := discOpt_C { s with K := adel s.K i } p
      cases p with
      | none => exact Or.inl rfl
      | some cid => simpa [discOpt] using this
  case connectedKq i =>
    simp only [stepSimple] at h
    split at h <;> simp at h <;> obtain ⟨rfl, _⟩ := h <;> exact Or.inl rfl
  case blockedKq i =>
    simp only [stepSimple] at h
    split at h <;> simp at h <;> obtain ⟨rfl, _⟩ := h <;> exact Or.inl rfl

/-- `release()` writes only the connection variable it returns into -/
theorem relK_plain_frame (s s' : St) (r : String) (c k : Nat) (h : stepSimple s (.relK c k) = some (s', r)) :
    ∀ c', c' ≠ c → aget s'.C c' = aget s.C c' := by
  intro c' hc'
  simp only [stepSimple] at h
  split at h
  · simp at h; obtain ⟨rfl, _⟩ := h; rfl
  · simp [setConn] at h; obtain ⟨rfl, _⟩ := h
    exact aget_aset_other _ _ _ _ hc'

/-- the plain connection the scoped_connection was created from stays a valid handle that tells the
    truth: after the scoped_connection has disconnected its slot (destruction / explicit disconnect),
    every plain connection to that slot exists and reports "not connected" -/
theorem plain_stays_valid (s s' : St) (r : String) (k cid c : Nat) (op : Op) (hop : op = .delK k ∨ op = .discK k)
    (hk : aget s.K k = some (some cid)) (hc : aget s.C c = some (some cid))
    (h : stepSimple s op = some (s', r)) :
    ∃ p', aget s'.C c = some p' ∧ connConnected s' p' = false ∧ stepSimple s' (.connectedq c) = some (s', "0") := by
  have key : ∀ s0 : St, aget s0.C c = some (some cid) →
      ∃ p', aget (disconnectCell s0 cid).C c = some p' ∧ connConnected (disconnectCell s0 cid) p' = false ∧
        stepSimple (disconnectCell s0 cid) (.connectedq c) = some (disconnectCell s0 cid, "0") := by
    intro s0 h0
    obtain ⟨p', h1, h2⟩ := conn_after_disconnect s0 cid c h0
    exact ⟨p', h1, h2, by simp [stepSimple, h1, h2, bstr]⟩
  rcases hop with rfl | rfl
  · obtain ⟨_, rfl⟩ := delK_disconnects_held s s' r k _ hk h
    exact key { s with K := adel s.K k } hc
  · obtain ⟨_, rfl⟩ := discK_disconnects_held s s' r k _ hk h
    exact key s hc

example : ((stepSimple exStK (.delK 0)).bind (fun x => stepSimple x.1 (.connectedq 0))).map (·.2) = some "0"
    ∧ ((stepSimple exStK (.delK 0)).bind (fun x => stepSimple x.1 (.connectedq 1))).map (·.2) = some "1" := by
  decide

/-- `kDisconnects` is the held cell: nothing is disconnected by an object that holds nothing -/
theorem empty_scoped_disconnects_nothing (s s' : St) (r : String) (k : Nat) (op : Op) (hop : op = .delK k ∨ op = .discK k)
    (hk : aget s.K k = some none) (h : stepSimple s op = some (s', r)) :
    s'.impls = s.impls ∧ s'.C = s.C := by
  rcases hop with rfl | rfl
  · obtain ⟨_, rfl⟩ := delK_disconnects_held s s' r k _ hk h
    exact ⟨rfl, rfl⟩
  · obtain ⟨_, rfl⟩ := discK_disconnects_held s s' r k _ hk h
    exact ⟨rfl, rfl⟩

/-- a moved-from / released scoped_connection no longer disconnects: destroying it afterwards leaves the
    lists alone (the sequence the single test script does not contain) -/
theorem moved_from_does_not_disconnect (s s1 s2 : St) (r1 r2 : String) (j i : Nat) (p : Option Nat)
    (hi : aget s.K i = some p) (hj : aget s.K j = none) (hji : j ≠ i)
    (h1 : stepSimple s (.mvK j i) = some (s1, r1)) (h2 : stepSimple s1 (.delK i) = some (s2, r2)) :
    s2.impls = s.impls ∧ s2.C = s.C ∧ aget s2.K j = some p := by
  obtain ⟨_, himp, hC, _, hKj, hKi⟩ := mvK_transfers s s1 r1 j i p hi hj hji h1
  obtain ⟨_, rfl⟩ := delK_disconnects_held s1 s2 r2 i none hKi h2
  refine ⟨himp, hC, ?_⟩
  simp only
  rw [aget_adel_other _ _ _ hji]
  exact hKj

example : ∃ s1 s2, stepSimple exStK (.mvK 2 0) = some (s1, "ok") ∧ stepSimple s1 (.delK 0) = some (s2, "ok")
    ∧ s2.impls = exStK.impls ∧ aget s2.K 2 = some (some 5) := by
  refine ⟨_, _, rfl, rfl, rfl, ?_⟩; decide

/-! ### scoped connections owned by a functor (`ownK`) -/

/-- moving a scoped_connection into a functor (the functor then owns it) transfers the responsibility
    without disconnecting: the name is released, the held cell id is kept under a fresh owner id, no list,
    no plain connection changes -/
theorem ownK_transfers (s : St) (isVoid : Bool) (fid k : Nat) (p : Option Nat) (hk : aget s.K k = some p) :
    ∃ s', mkFun s isVoid (.ownK fid k) = .ok (.owner fid [] [s.next], s') ∧
      s'.impls = s.impls ∧ s'.C = s.C ∧ s'.K = adel s.K k ∧ s'.ownedK = (s.next, p) :: s.ownedK ∧ s'.next = s.next + 1 := by
  refine ⟨{ s with next := s.next + 1, K := adel s.K k, ownedK := (s.next, p) :: s.ownedK }, by simp [mkFun, hk, St.fresh],
    rfl, rfl, rfl, rfl, rfl⟩

example : ∃ s', mkFun exStK false (.ownK 9 0) = .ok (.owner 9 [] [7], s') ∧ s'.K = [(1, some 6)] ∧ s'.ownedK = [(7, some 5)] :=
  ⟨_, rfl, rfl, rfl⟩

/-- when the last functor copy owning a scoped_connection is gone, `~scoped_connection` runs: exactly the
    held slot is disconnected (and nothing, if it held none) -/
theorem owned_scoped_dies_with_last_functor (s : St) (k : Nat) (p : Option Nat)
    (hT : s.ownedT.find? (fun o => !heldT s o) = none)
    (hK : s.ownedK.find? (fun q => !heldK s q.1) = some (k, p)) :
    collectStep s = some (discOpt { s with ownedK := s.ownedK.filter (fun q => q.1 ≠ k) } p) := by
  unfold collectStep
  simp only [hT, hK]
  cases p <;> rfl

/-- … and as long as some functor copy still holds it, or nothing is owned, nothing is disconnected.

    (model round 3: the statement of the previous model round had only `hT` and `hK`; `collectStep` now has a third
    kind of owned object (signal objects, `ownedG`), so "no owned object is unheld" has a third conjunct `hG`.
    Without it the statement is false: `owned_scoped_needs_hG` below is the witness (an unheld functor-owned
    signal object dies in `collect`)) -/
theorem owned_scoped_lives_while_held (s : St)
    (hT : s.ownedT.find? (fun o => !heldT s o) = none)
    (hK : s.ownedK.find? (fun q => !heldK s q.1) = none)
    (hG : s.ownedG.find? (fun q => !heldK s q.1) = none) :
    collectStep s = none ∧ collect s = s := by
  have h1 : collectStep s = none := by
    unfold collectStep; simp only [hT, hK, hG]
  refine ⟨h1, ?_⟩
  unfold collect
  cases (s.ownedT.length + s.ownedK.length + s.ownedG.length) with
  | zero => rfl
  | succ n => simp [collectN, h1]

/-- a slot variable holds a functor copy that owns scoped connection `7` -/
def exStHeld : St :=
  { exStK with ownedK := [(7, some 5)], S := [(0, { isVoid := false, slot := { blocked := false, rep := some { call := true, fn := some (.owner 9 [] [7]) } } })] }

example : collect exStHeld = exStHeld :=
  (owned_scoped_lives_while_held exStHeld rfl (by decide) rfl).2

/-- the witness for `hG`: nothing of `ownedT`/`ownedK` is unheld, but the functor-owned signal object `4`
    (owner id 7, held by no functor copy) dies in `collectStep`: its name leaves `G` -/
theorem owned_scoped_needs_hG :
    ∃ s : St, s.ownedT.find? (fun o => !heldT s o) = none ∧ s.ownedK.find? (fun q => !heldK s q.1) = none ∧
      collectStep s ≠ none ∧ collect s ≠ s :=
  ⟨{ G := [(4, { obj := 9, fl := .I, impl := none, trk := 0, lvl := 0 })], ownedG := [(7, 4)], next := 8 },
   rfl, rfl, by decide, fun h => absurd (congrArg St.ownedG h) (by decide)⟩

example : collectStep { exStK with ownedK := [(7, some 5)] } =
    some (disconnectCell { exStK with ownedK := [] } 5) := by
  rw [owned_scoped_dies_with_last_functor _ 7 (some 5) rfl (by decide)]
  rfl


/-! ### the specification `S` (statement level: a disconnected slot leaves its list immediately) -/

/-- in `S`, destruction and explicit disconnect remove exactly the held slot from its list -/
theorem spec_delK_removes_held (s : Spec.LSt) (k : Nat) (p : Option Nat) (hk : aget s.K k = some p) :
    Spec.stepSimple s (.delK k) = some ((match p with
        | some cid => Spec.removeCell { s with K := adel s.K k } cid
        | none => { s with K := adel s.K k }), "ok") ∧
    Spec.stepSimple s (.discK k) = some ((match p with
        | some cid => Spec.removeCell s cid
        | none => s), "ok") := by
  cases p <;> simp [Spec.stepSimple, hk]

/-- in `S`, move construction, swap, release and construction leave every list untouched -/
theorem spec_transfer_no_disconnect (s s' : Spec.LSt) (r : String) (op : Op)
    (hop : (match op with | .mvK _ _ | .swapK _ _ | .relK _ _ | .newK _ _ | .newK0 _ => true | _ => false) = true)
    (h : Spec.stepSimple s op = some (s', r)) : s'.sigs = s.sigs := by
  cases op <;> simp at hop
  all_goals
    simp only [Spec.stepSimple] at h
    repeat' split at h
    all_goals
      simp only [Option.some.injEq, Prod.mk.injEq] at h
      obtain ⟨rfl, _⟩ := h
      rfl

example : (Spec.stepSimple { K := [(0, some 7)], sigs := [(1, { cells := [{ id := 7, slot := {} }] })] } (.mvK 1 0)).map
    (fun x => (x.1.K, x.1.sigs.map (fun p => p.2.cells.map (·.id)))) = some ([(0, none), (1, some 7)], [[7]]) := by decide

end Sigc.C17
