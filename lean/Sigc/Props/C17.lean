import Sigc.Model
import Sigc.Spec
/-! property theorems for C17 (being written) -/
namespace Sigc.C17
end Sigc.C17
