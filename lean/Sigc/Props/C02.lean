import Sigc.Model
import Sigc.Lemmas.Basic
import Sigc.Lemmas.Frames
/-!
# C02 — destroying a trackable invalidates and disconnects every slot that refers to it
(first theorems; the all-history invariants are being proved in Sigc/Lemmas/Inv*.lean)
-/
namespace Sigc.C02
open Sigc.Model

/-- an invalidated slot is empty, refers to no trackable any more and holds no functor copy -/
theorem invalidate_slot (sl : SlotB) (t fid : Nat) :
    sl.invalidate.tracksObj t = false ∧ sl.invalidate.live fid = 0 ∧
    (sl.rep.isSome → sl.invalidate.empty = true) := by
  unfold SlotB.invalidate
  cases hr : sl.rep <;> simp [SlotB.tracksObj, SlotB.live, SlotB.empty, hr]

/-- after `trackable::notify_callbacks()` of object `t` (destruction, assignment, move, explicit
    notify), no slot variable refers to `t`, in any state, for any number of slot variables,
    copies and nestings -/
theorem invalidateTrackable_user_slots (s : St) (t : Nat) :
    ∀ i v, aget (invalidateTrackable s t).S i = some v → v.slot.tracksObj t = false := by
  intro i v h
  unfold invalidateTrackable at h
  simp only [foldl_invalidateCell_S] at h
  rw [aget_amap] at h
  cases hv : aget s.S i with
  | none => simp [hv] at h
  | some v0 =>
    simp [hv] at h
    subst h
    by_cases ht : v0.slot.tracksObj t = true
    · simp [ht]
      exact (invalidate_slot v0.slot t 0).1
    · simpa [ht] using ht

/-- a slot variable that referred to `t` and had a representation is empty afterwards -/
theorem invalidateTrackable_empties (s : St) (t i : Nat) (v0 : SlotVar) (h0 : aget s.S i = some v0)
    (ht : v0.slot.tracksObj t = true) :
    ∃ v, aget (invalidateTrackable s t).S i = some v ∧ v.slot.empty = true ∧ v.slot.liveAll = 0 := by
  unfold invalidateTrackable
  simp only [foldl_invalidateCell_S]
  rw [aget_amap, h0]
  refine ⟨_, rfl, ?_, ?_⟩
  · simp only [ht, if_true]
    unfold SlotB.tracksObj at ht
    cases hr : v0.slot.rep with
    | none => simp [hr] at ht
    | some r => simp [SlotB.invalidate, SlotB.empty, hr]
  · simp only [ht, if_true]
    cases hr : v0.slot.rep <;> simp [SlotB.invalidate, SlotB.liveAll, hr]

/-- slot variables that do not refer to `t` are untouched -/
theorem invalidateTrackable_others (s : St) (t i : Nat) (v0 : SlotVar) (h0 : aget s.S i = some v0)
    (ht : v0.slot.tracksObj t = false) :
    aget (invalidateTrackable s t).S i = some v0 := by
  unfold invalidateTrackable
  simp only [foldl_invalidateCell_S]
  rw [aget_amap, h0]
  simp [ht]

example : (invalidateTrackable { S := [(0, { isVoid := false, slot := { rep := some { call := true, fn := some (.leaf 1 [7]) } } })] } 7).S
    = [(0, { isVoid := false, slot := { rep := some { call := false, fn := none } } })] := by
  simp [invalidateTrackable, amap, SlotB.tracksObj, Fun.tracks, SlotB.invalidate]

end Sigc.C02
