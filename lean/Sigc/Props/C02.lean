import Sigc.Model
import Sigc.Spec
import Sigc.Lemmas.InvObj2
import Sigc.Lemmas.InvTeardown
import Sigc.Lemmas.InvExamples
/-!
# C02 — destroying a trackable invalidates and disconnects every slot that refers to it

Model-level content (mechanism model `P`): a functor refers to trackable objects by identity
(`Fun.tracks`, nested functors included); `invalidateTrackable s o` is `trackable::notify_callbacks()`
of object `o` restricted to the registrations made by slot reps.

* `tracks_live*` — in every reachable state (and at every operation boundary inside emissions) every
  object any rep refers to is alive: the object of a live trackable name, the `trackable` base of a live
  `trackable_signal` handle, or an object kept alive by an owning functor.  So the library never holds
  a registration in — and never reads or writes — a destroyed object.
* `invalidates_all` — after `notify_callbacks()` of `o` no rep refers to `o`; every user slot that
  referred to it is empty (invalidated, functor released); every cell that referred to it is erased or
  invalid, unlinked and without functor; every connection to such a cell reports `connected() = false`.
* `delT_invalidates_all` — the same for the operation `delT` (destruction of a trackable), and the
  object is no longer reachable under that name.
-/
namespace Sigc.C02
open Sigc.Model Sigc.Inv

/-- the objects a slot refers to: `tracksObj` is membership in `Fun.tracks` of the rep's functor -/
theorem tracksObj_iff (sl : SlotB) (o : Nat) :
    sl.tracksObj o = true ↔ ∃ r f, sl.rep = some r ∧ r.fn = some f ∧ o ∈ f.tracks := by
  unfold SlotB.tracksObj
  cases h : sl.rep with
  | none => simp
  | some r =>
    obtain ⟨c, f⟩ := r
    cases f with
    | none => simp
    | some f => simp

/-- what "every tracked object is alive" means for a state -/
def TracksLive (s : St) : Prop :=
  (∀ k v o, aget s.S k = some v → v.slot.tracksObj o = true → LiveObj s.T s.G s.ownedT o) ∧
  (∀ i im c o, aget s.impls i = some im → c ∈ im.cells → c.slot.tracksObj o = true →
      LiveObj s.T s.G s.ownedT o)

/-- **every terminating run of every program**: every object referred to by the functor of any user slot
    or any connected slot (directly or through a nested slot) is alive -/
theorem tracks_live (fuel : Nat) (P : Prog) (s : St) (h : runTop fuel P {} P.top = some s) : TracksLive s := by
  obtain ⟨_, htl⟩ := WTL.reachable fuel P s h
  exact ⟨fun k v o hk ho => TrackedIn.getS htl hk o ho,
         fun i im c o hi hc ho => TrackedIn.getI htl hi c hc o ho⟩

/-- … at every operation boundary, inside or outside an emission, at any nesting depth -/
theorem tracks_live_op (fuel : Nat) (P : Prog) (s : St) (op : Op) (r : St × Except Unit String)
    (hs : WTL s) (h : execOp fuel P s op = some r) : WTL r.1 :=
  WTL.stable.execOp hs h

theorem tracks_live_emit (fuel : Nat) (P : Prog) (s : St) (fl : Flavour) (impl : Option Nat) (arg : Nat)
    (strat : Strat) (r : St × Outcome × Nat) (hs : WTL s) (h : emitImpl fuel P s fl impl arg strat = some r) :
    WTL r.1 :=
  WTL.stable.emitImpl hs h

theorem tracks_live_invoke (fuel : Nat) (P : Prog) (s : St) (fn : Fun) (arg : Nat) (r : St × Outcome × Nat)
    (hs : WTL s) (h : invokeFun fuel P s fn arg = some r) : WTL r.1 :=
  WTL.stable.invokeFun hs h

/-- … and after the harness teardown -/
theorem tracks_live_teardown (fuel fuel' : Nat) (P : Prog) (s s' : St)
    (h : runTop fuel P {} P.top = some s) (ht : teardown fuel' P s = some s') : WTL s' :=
  WTL.stable.teardown fuel' P s s' (WTL.reachable fuel P s h) ht

/-- **`notify_callbacks()` reaches every rep that refers to the object** (any well-formed, hence any
    reachable, state; any object):
    1. afterwards no user slot and no cell refers to `o`;
    2. every user slot that referred to `o` is now invalidated: `empty()`, functor released;
    3. every cell that referred to `o` is erased, or invalid, unlinked and without functor
       (its erase is deferred to the sweep of the running emission);
    4. every connection to such a cell reports `connected() = false`;
    nothing else about trackables, handles or user slots that did not refer to `o` changes -/
theorem invalidates_all {s : St} (hw : WF s) (o : Nat) :
    NoTrack o (invalidateTrackable s o) ∧
    (∀ k v, aget s.S k = some v → v.slot.tracksObj o = true →
        aget (invalidateTrackable s o).S k = some { v with slot := v.slot.invalidate } ∧
        v.slot.invalidate.empty = true ∧ v.slot.invalidate.liveAll = 0) ∧
    (∀ i im c, aget s.impls i = some im → c ∈ im.cells → c.slot.tracksObj o = true →
        Gone c.id (invalidateTrackable s o) ∧ connConnected (invalidateTrackable s o) (some c.id) = false) ∧
    (∀ k v, aget s.S k = some v → v.slot.tracksObj o = false → aget (invalidateTrackable s o).S k = some v) ∧
    (invalidateTrackable s o).T = s.T ∧ (invalidateTrackable s o).G = s.G := by
  obtain ⟨fT, fG, _, _, fS⟩ := invalidateTrackable_frame s o
  refine ⟨invalidateTrackable_notrack hw o, ?_, ?_, ?_, fT, fG⟩
  · intro k v hk ht
    refine ⟨?_, ?_, ?_⟩
    · rw [fS, aget_amap, hk]; simp [ht]
    · simp only [SlotB.invalidate, SlotB.empty]; cases h : v.slot.rep <;> simp
      have := (tracksObj_iff v.slot o).1 ht
      obtain ⟨r, f, hr, _, _⟩ := this
      rw [h] at hr; cases hr
    · simp only [SlotB.invalidate, SlotB.liveAll]; cases h : v.slot.rep <;> simp [h]
  · intro i im c hi hc ht
    have hg := invalidateTrackable_gone hw hi hc ht
    exact ⟨hg, not_connected_of_gone hg⟩
  · intro k v hk ht
    rw [fS, aget_amap, hk]; simp [ht]

/-- the operation `delT t` (destruction of the trackable named `t`, object `o`): the name is gone and the
    cascade of `invalidates_all` has run -/
theorem delT_invalidates_all {s s' : St} {r : String} (hw : WF s) (t o : Nat) (ht : aget s.T t = some o)
    (h : stepSimple s (.delT t) = some (s', r)) :
    aget s'.T t = none ∧ NoTrack o s' ∧
    (∀ k v, aget s.S k = some v → v.slot.tracksObj o = true →
        aget s'.S k = some { v with slot := v.slot.invalidate }) ∧
    (∀ i im c, aget s.impls i = some im → c ∈ im.cells → c.slot.tracksObj o = true →
        Gone c.id s' ∧ connConnected s' (some c.id) = false) := by
  simp only [stepSimple, ht, Option.some.injEq, Prod.mk.injEq] at h
  obtain ⟨rfl, _⟩ := h
  have hw0 : WF { s with T := adel s.T t } := hw
  obtain ⟨h1, h2, h3, _, h5, _⟩ := invalidates_all hw0 o
  refine ⟨by rw [h5]; simp, h1, fun k v hk hv => (h2 k v hk hv).1, h3⟩

/-- object ids are never reused and a dead object never comes back: "allocated and not alive" is
    preserved by every operation, emission and functor invocation -/
theorem destroyed_stays_dead (o : Nat) (fuel : Nat) (P : Prog) (s : St) (op : Op) (r : St × Except Unit String)
    (hd : OD o s) (h : execOp fuel P s op = some r) : OD o r.1 :=
  (OD.stable o).execOp hd h

/-- **the library never refers to the destroyed object again**: take any reachable state, destroy the
    trackable named `t` (object `o`), then continue the program in any way (any operations, any emissions,
    re-use of the name `t` for a new trackable included).  In every later state no rep of any user slot or
    connected slot refers to `o` — nothing is left through which the library could read or write it -/
theorem destroyed_never_tracked (fuel fuel' : Nat) (P : Prog) (s s1 s2 : St) (r : String) (ls : List Line)
    (t o : Nat) (h : runTop fuel P {} P.top = some s) (ht : aget s.T t = some o)
    (hd : stepSimple s (.delT t) = some (s1, r)) (h2 : runTop fuel' P s1 ls = some s2) : NoTrack o s2 := by
  have hwtl := WTL.reachable fuel P s h
  have hou := OU.reachable fuel P s h
  have hwtl1 : WTL s1 := WTL.stable.simple s _ s1 r trivial hwtl hd
  have hod1 : OD o s1 := dead_after_delT hou ht hd
  have hwtl2 := WTL.stable.runTop_from fuel' P ls s1 s2 hwtl1 h2
  have hod2 := (OD.stable o).runTop_from fuel' P ls s1 s2 hod1 h2
  exact noTrack_of_dead hwtl2.1 hwtl2.2 hod2

/-- the same with the destruction executed as a program line (`execLine`: step count, operation, trace
    entry, collection of owned objects), exactly as the driver runs it -/
theorem destroyed_never_tracked_line (fuel f f' : Nat) (P : Prog) (s s1 s2 : St) (txt : String) (oc : Outcome)
    (ls : List Line) (t o : Nat) (h : runTop fuel P {} P.top = some s) (ht : aget s.T t = some o)
    (hl : execLine f P s ⟨txt, .delT t⟩ = some (s1, oc)) (h2 : runTop f' P s1 ls = some s2) :
    NoTrack o s2 := by
  have hwtl := WTL.reachable fuel P s h
  have hou := OU.reachable fuel P s h
  have hwtl1 : WTL s1 := WTL.stable.execLine hwtl hl
  have hod1 : OD o s1 := by
    cases f with
    | zero => rw [execLine] at hl; cases hl
    | succ f =>
      rw [execLine] at hl
      simp only at hl
      have key : ∀ (s0 : St) (res : Except Unit String),
          execOp f P { s with steps := s.steps + 1 } (.delT t) = some (s0, res) → OD o s0 := by
        intro s0 res he
        have hou' : OU { s with steps := s.steps + 1 } := hou
        rcases execOp_simple_of t (by simp) he with ⟨r0, hs⟩ | ⟨hs, _⟩
        · exact dead_after_delT hou' ht hs
        · simp [stepSimple] at hs
          split at hs <;> cases hs
      split at hl
      · cases hl
      · rename_i s0 _ he
        simp only [Option.some.injEq, Prod.mk.injEq] at hl
        rw [← hl.1]
        exact (OD.stable o).collect _ trivial ((OD.stable o).log _ _ trivial (key _ _ he))
      · rename_i s0 _ he
        simp only [Option.some.injEq, Prod.mk.injEq] at hl
        rw [← hl.1]
        exact (OD.stable o).collect _ trivial ((OD.stable o).log _ _ trivial (key _ _ he))
  have hwtl2 := WTL.stable.runTop_from f' P ls s1 s2 hwtl1 h2
  have hod2 := (OD.stable o).runTop_from f' P ls s1 s2 hod1 h2
  exact noTrack_of_dead hwtl2.1 hwtl2.2 hod2

/-- the same statement for a state in which the object is already dead, at every operation boundary -/
theorem dead_never_tracked (o : Nat) (fuel : Nat) (P : Prog) (s : St) (op : Op) (r : St × Except Unit String)
    (hs : WTL s) (hd : OD o s) (h : execOp fuel P s op = some r) : NoTrack o r.1 := by
  have h1 := WTL.stable.execOp hs h
  exact noTrack_of_dead h1.1 h1.2 ((OD.stable o).execOp hd h)

/-! ### examples -/

/-- on the example state `Sigc.Inv.exT`: a user slot and a connected cell both bound to object 7 -/
example : NoTrack 7 (invalidateTrackable exT 7) := (invalidates_all exT_wf 7).1

example : connConnected (invalidateTrackable exT 7) (some 4) = false :=
  ((invalidates_all exT_wf 7).2.2.1 3 _ _ (by simp [exT, aget]; rfl) (List.mem_cons_self) (by decide)).2

end Sigc.C02
