import Sigc.Model
import Sigc.Spec
/-! property theorems for C02 (being written) -/
namespace Sigc.C02
end Sigc.C02
