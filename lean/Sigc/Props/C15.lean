import Sigc.Model
import Sigc.Lemmas.Basic
import Sigc.Lemmas.StepSlots
import Sigc.Lemmas.StepSlots2
import Sigc.Lemmas.StepSlotsSpec
/-!
# C15 — slots are values: copies are independent, moves empty the source

Theorems about the slot-value layer of the model (`SlotB` = `slot_base`: `blocked_`, `rep_`), which is
what `cpS/mvS/asgS/masgS/conn/connmv/nest` of the operation language execute (`Sigc.Model.stepSimple`).
They hold for every slot value — there is no bound on the functor nested inside.
-/
namespace Sigc.C15
open Sigc.Model Sigc.StepSlots

/-- a default-constructed slot is empty -/
theorem default_empty : ({} : SlotB).empty = true := rfl

/-- copying an empty or invalidated slot yields an empty slot without a representation -/
theorem copy_of_invalid_is_empty (s : SlotB) (h : s.empty = true) : s.copy.rep = none ∧ s.copy.empty = true := by
  unfold SlotB.empty at h
  unfold SlotB.copy
  cases hr : s.rep with
  | none => simp [SlotB.empty]
  | some r =>
    rw [hr] at h
    have : r.call = false := by simpa using h
    simp [this, SlotB.empty]

/-- a copy of a valid slot is valid, holds the same functor value (its own copy: the model's functor
    values are immutable) and the same blocking state -/
theorem copy_of_valid (s : SlotB) (r : Rep) (hr : s.rep = some r) (hc : r.call = true) :
    s.copy = { blocked := s.blocked, rep := some { call := true, fn := r.fn } } := by
  unfold SlotB.copy
  rw [hr]
  simp [hc]

/-- moving from a slot leaves the source empty … -/
theorem move_empties_source (s : SlotB) : s.move.2.empty = true := by
  unfold SlotB.move
  cases hr : s.rep with
  | none => simp [SlotB.empty, hr]
  | some r => simp [SlotB.empty]

/-- … and the destination behaving as the source did (same representation, same blocking state) -/
theorem move_preserves_behaviour (s : SlotB) : s.move.1.rep = s.rep ∧ s.move.1.blocked = s.blocked := by
  unfold SlotB.move
  cases hr : s.rep <;> simp

/-- `disconnect()` empties the slot (until a new functor is assigned) and keeps the blocking state -/
theorem disconnect_empties (s : SlotB) : s.disconnectRep.empty = true ∧ s.disconnectRep.blocked = s.blocked := by
  unfold SlotB.disconnectRep
  cases hr : s.rep <;> simp [SlotB.empty, hr]

/-- copy-constructing a slot variable (`cpS j i`) changes no other slot variable, no signal, no
    connection: the copy is independent state -/
theorem cpS_frame (s s' : St) (r : String) (j i : Nat) (h : stepSimple s (.cpS j i) = some (s', r)) :
    s'.impls = s.impls ∧ s'.C = s.C ∧ s'.K = s.K ∧ s'.T = s.T ∧ s'.G = s.G ∧
    ∀ k, k ≠ j → aget s'.S k = aget s.S k := by
  simp only [stepSimple] at h
  split at h
  · simp at h; obtain ⟨rfl, _⟩ := h; simp
  · split at h
    · simp at h; obtain ⟨rfl, _⟩ := h; simp
    · simp at h
      obtain ⟨rfl, _⟩ := h
      refine ⟨rfl, rfl, rfl, rfl, rfl, ?_⟩
      intro k hk
      exact aget_aset_other _ _ _ _ hk

example : ({ blocked := true, rep := some { call := true, fn := some (.leaf 3 [7]) } } : SlotB).copy.empty = false := by
  decide

/-! ## slot-value algebra (`SlotB` = `slot_base`) -/

/-- copying a copy changes nothing more: a copy is already in normal form -/
theorem copy_copy (s : SlotB) : s.copy.copy = s.copy := by
  unfold SlotB.copy
  cases hr : s.rep with
  | none => simp
  | some r => cases hc : r.call <;> simp [hc]

/-- the copy carries the source's blocking state, except that the copy of an invalidated slot is `slot_base()` -/
theorem copy_blocked (s : SlotB) (h : s.rep = none ∨ s.empty = false) : s.copy.blocked = s.blocked := by
  unfold SlotB.copy
  cases hr : s.rep with
  | none => simp
  | some r =>
    rcases h with h | h
    · simp [hr] at h
    · simp [SlotB.empty, hr] at h; simp [h]

/-- number of functor copies held by a copy: the same for a valid source (its own copy), none otherwise -/
theorem copy_live_count (s : SlotB) (fid : Nat) : s.copy.live fid = if s.empty then 0 else s.live fid :=
  copy_live s fid

/-- a move neither creates nor destroys a functor copy -/
theorem move_live_total (s : SlotB) (fid : Nat) : s.move.1.live fid + s.move.2.live fid = s.live fid := by
  have := move_live s fid; omega

/-- `slot_rep::disconnect()` only nulls `call_`: the functor is not yet released, the blocking state stays -/
theorem disconnect_keeps_functor (s : SlotB) (fid : Nat) :
    s.disconnectRep.live fid = s.live fid ∧ s.disconnectRep.rep.isSome = s.rep.isSome := by
  unfold SlotB.disconnectRep
  cases hr : s.rep with
  | none => simp [hr]
  | some r =>
    obtain ⟨c, fn⟩ := r
    cases fn <;> simp [SlotB.live, hr]

/-- an invalidated slot is empty, has released its functor and keeps its blocking state -/
theorem invalidate_empty (s : SlotB) (fid : Nat) :
    s.invalidate.empty = true ∧ s.invalidate.live fid = 0 ∧ s.invalidate.blocked = s.blocked := by
  unfold SlotB.invalidate
  cases hr : s.rep with
  | none => simp [SlotB.empty, SlotB.live, hr]
  | some r => simp [SlotB.empty, SlotB.live]

example : ({ blocked := true, rep := some { call := false, fn := some (.leaf 3 []) } } : SlotB).copy = {} := rfl
example : ({ blocked := true, rep := some { call := true, fn := some (.leaf 3 []) } } : SlotB).move
    = ({ blocked := true, rep := some { call := true, fn := some (.leaf 3 []) } }, {}) := rfl

/-! ## construction: `mkS0`, `mkS`, `cpS`, `mvS` -/

/-- building a functor from a spec never touches a slot variable, connection or cell; plain specs
    (`fn mem bref trk nest`) change nothing at all; `fwd g` only marks signal object `g`; only the owning
    functors `ownT/ownK` take a trackable / scoped connection out of the name space; `ownG` (also an
    owning functor: `ownSpec`) takes an owner id from the allocator and leaves the names alone
    (`mkFun_effects_ownG`) -/
theorem mkFun_effects (s s0 : St) (b : Bool) (spec : FSpec) (fn : Fun) (h : mkFun s b spec = .ok (fn, s0)) :
    (s0.S = s.S ∧ s0.C = s.C ∧ s0.impls = s.impls ∧ s0.depth = s.depth ∧ s0.steps = s.steps ∧
     s0.trace = s.trace ∧ s0.err = s.err) ∧
    (plainSpec spec = true → s0 = s) ∧
    (ownSpec spec = false → s0.T = s.T ∧ s0.K = s.K ∧ s0.next = s.next) ∧
    ((∀ g, spec ≠ .fwd g) → s0.G = s.G) :=
  mkFun_ok s s0 b spec fn h

example : mkFun { T := [(4, 9)], S := [(0, { isVoid := false, slot := {} })] } false (.ownT 3 4)
    = .ok (.owner 3 [9] [], { T := [], S := [(0, { isVoid := false, slot := {} })], ownedT := [9] }) := by
  simp [mkFun, aget, adel]

/-- the functor owning a signal object (`ownG fid g`): the state changes in exactly two fields — one new
    `ownedG` entry (a fresh owner id ↦ the name `g`, which stays in `G`) and the allocator; the functor holds
    that owner id; it is built only for a live name that no functor owns yet.  Every other spec leaves
    `ownedG` alone -/
theorem mkFun_effects_ownG (s s0 : St) (b : Bool) (spec : FSpec) (fn : Fun) (h : mkFun s b spec = .ok (fn, s0)) :
    ((∀ fid g, spec ≠ .ownG fid g) → s0.ownedG = s.ownedG) ∧
    (∀ fid g, spec = .ownG fid g →
      s0 = { s with ownedG := (s.next, g) :: s.ownedG, next := s.next + 1 } ∧ fn = .owner fid [] [s.next] ∧
      (aget s.G g).isSome ∧ s.ownedG.any (fun p => p.2 = g) = false) :=
  mkFun_ok_ownG s s0 b spec fn h

example : mkFun { G := [(4, { obj := 9, fl := .I, impl := none, trk := 0, lvl := 0 })], next := 7 } false (.ownG 3 4)
    = .ok (.owner 3 [] [7], { G := [(4, { obj := 9, fl := .I, impl := none, trk := 0, lvl := 0 })],
                              ownedG := [(7, 4)], next := 8 }) := by
  simp [mkFun, aget, St.fresh]


/-- `slot<T>()`: the new variable is empty (no rep, not blocked); nothing else changes -/
theorem mkS0_default_empty (s s' : St) (r : String) (i : Nat) (ty : String)
    (hn : aget s.S i = none) (hty : ty = "I" ∨ ty = "V")
    (h : stepSimple s (.mkS0 i ty) = some (s', r)) :
    r = "ok" ∧ aget s'.S i = some { isVoid := ty = "V", slot := {} } ∧ SlotFrame i s s' ∧
    stepSimple s' (.emptySq i) = some (s', "1") ∧ ∀ fid, liveCount s' fid = liveCount s fid := by
  rw [mkS0_eq s i ty hn hty] at h
  simp only [Option.some.injEq, Prod.mk.injEq] at h
  obtain ⟨rfl, rfl⟩ := h
  refine ⟨rfl, aget_aset_same _ _ _, slotFrame_aset _ _ _, ?_, ?_⟩
  · simp [stepSimple, SlotB.empty, bstr]
  · intro fid
    rw [liveCount_aset_new s i _ fid hn]
    simp [SlotB.live]

example : stepSimple { S := [(1, { isVoid := true, slot := {} })] } (.mkS0 0 "I")
    = some ({ S := [(1, { isVoid := true, slot := {} }), (0, { isVoid := false, slot := {} })] }, "ok") := by
  simp [stepSimple, aget, aset]

/-- `slot<T>(functor)`: the new variable is valid, unblocked and holds its own functor value `fn`
    (the one `mkFun` built, leaving state `s0`: see `mkFun_effects`); no other slot variable, cell or
    connection changes; exactly the functor copies inside `fn` are added -/
theorem mkS_own_copy (s s0 s' : St) (r : String) (i : Nat) (ty : String) (spec : FSpec) (fn : Fun)
    (hn : aget s.S i = none) (hty : ty = "I" ∨ ty = "V")
    (hf : mkFun s (ty = "V") spec = .ok (fn, s0))
    (h : stepSimple s (.mkS i ty spec) = some (s', r)) :
    r = "ok" ∧
    (∃ v, aget s'.S i = some v ∧ v.slot = { blocked := false, rep := some { call := true, fn := some fn } } ∧
          v.slot.empty = false ∧ v.incall = 0 ∧ v.isVoid = decide (ty = "V")) ∧
    (∀ k, k ≠ i → aget s'.S k = aget s.S k) ∧
    s'.impls = s.impls ∧ s'.C = s.C ∧ s'.K = s0.K ∧ s'.T = s0.T ∧ s'.G = s0.G ∧
    (plainSpec spec = true → s0 = s) ∧
    ∀ fid, liveCount s' fid = liveCount s fid + fn.count fid := by
  rw [mkS_eq s s0 i ty spec fn hn hty hf] at h
  simp only [Option.some.injEq, Prod.mk.injEq] at h
  obtain ⟨rfl, rfl⟩ := h
  obtain ⟨⟨hS, hC, hI, _⟩, hp, _, _⟩ := mkFun_ok s s0 _ spec fn hf
  refine ⟨rfl, ⟨_, aget_aset_same _ _ _, rfl, rfl, rfl, rfl⟩, ?_, hI, hC, rfl, rfl, rfl, hp, ?_⟩
  · intro k hk
    show aget (aset s0.S i _) k = _
    rw [aget_aset_other _ _ _ _ hk, hS]
  · intro fid
    rw [liveCount_aset_new s0 i _ fid (by rw [hS]; exact hn)]
    rw [liveCount_congr s s0 fid hS hI]
    simp [SlotB.live]

example : stepSimple { T := [(4, 9)] } (.mkS 0 "I" (.mem 3 4))
    = some ({ T := [(4, 9)], S := [(0, { isVoid := false, slot := { blocked := false, rep := some { call := true, fn := some (.leaf 3 [9]) } } })] }, "ok") := by
  simp [stepSimple, aget, aset, mkFun, specTaint]

/-- `slot(const slot&)`: the new variable holds `src.copy`, the source and everything else is untouched;
    the number of functor copies grows by those of a valid source and by nothing for an empty/invalidated one -/
theorem cpS_copy (s s' : St) (r : String) (j i : Nat) (v : SlotVar)
    (hv : aget s.S i = some v) (hn : aget s.S j = none)
    (h : stepSimple s (.cpS j i) = some (s', r)) :
    r = "ok" ∧ aget s'.S j = some { isVoid := v.isVoid, slot := v.slot.copy, taint := v.taint } ∧
    aget s'.S i = some v ∧ SlotFrame j s s' ∧
    ∀ fid, liveCount s' fid = liveCount s fid + if v.slot.empty then 0 else v.slot.live fid := by
  rw [cpS_eq s j i v hv hn] at h
  simp only [Option.some.injEq, Prod.mk.injEq] at h
  obtain ⟨rfl, rfl⟩ := h
  have hji : i ≠ j := by intro e; subst e; rw [hv] at hn; cases hn
  refine ⟨rfl, aget_aset_same _ _ _, ?_, slotFrame_aset _ _ _, ?_⟩
  · show aget (aset s.S j _) i = _
    rw [aget_aset_other _ _ _ _ hji, hv]
  · intro fid
    rw [liveCount_aset_new s j _ fid hn]
    simp only [copy_live]

example : stepSimple { S := [(0, { isVoid := false, slot := { blocked := true, rep := some { call := true, fn := some (.leaf 3 []) } } })] } (.cpS 1 0)
    = some ({ S := [(0, { isVoid := false, slot := { blocked := true, rep := some { call := true, fn := some (.leaf 3 []) } } }),
                    (1, { isVoid := false, slot := { blocked := true, rep := some { call := true, fn := some (.leaf 3 []) } } })] }, "ok") := by
  simp [stepSimple, aget, aset, SlotB.copy]

/-- `slot(slot&&)`: the destination is `src.move.1` (same rep, same blocking state), the source becomes
    `src.move.2`, which is empty; nothing else changes and no functor copy is created or destroyed -/
theorem mvS_move (s s' : St) (r : String) (j i : Nat) (v : SlotVar)
    (hv : aget s.S i = some v) (hn : aget s.S j = none) (hin : v.incall = 0)
    (h : stepSimple s (.mvS j i) = some (s', r)) :
    r = "ok" ∧ aget s'.S j = some { isVoid := v.isVoid, slot := v.slot.move.1, taint := v.taint } ∧
    aget s'.S i = some { v with slot := v.slot.move.2 } ∧ v.slot.move.2.empty = true ∧
    v.slot.move.1.rep = v.slot.rep ∧ v.slot.move.1.blocked = v.slot.blocked ∧
    SlotFrame2 j i s s' ∧ ∀ fid, liveCount s' fid = liveCount s fid := by
  rw [mvS_eq s j i v hv hn hin] at h
  simp only [Option.some.injEq, Prod.mk.injEq] at h
  obtain ⟨rfl, rfl⟩ := h
  have hji : i ≠ j := by intro e; subst e; rw [hv] at hn; cases hn
  refine ⟨rfl, aget_aset_same _ _ _, ?_, move_empties_source _, (move_preserves_behaviour _).1,
          (move_preserves_behaviour _).2, slotFrame2_aset2 _ _ _ _ _, ?_⟩
  · show aget (aset (aset s.S i _) j _) i = _
    rw [aget_aset_other _ _ _ _ hji, aget_aset_same]
  · intro fid
    have h1 := liveCount_aset s i v { v with slot := v.slot.move.2 } fid hv
    have hn' : aget ({ s with S := aset s.S i { v with slot := v.slot.move.2 } } : St).S j = none := by
      show aget (aset s.S i _) j = none
      rw [aget_aset_other _ _ _ _ hji.symm, hn]
    have h2 := liveCount_aset_new { s with S := aset s.S i { v with slot := v.slot.move.2 } } j
      { isVoid := v.isVoid, slot := v.slot.move.1, taint := v.taint } fid hn'
    have h3 := move_live v.slot fid
    simp only at h1 h2
    show liveCount { s with S := aset (aset s.S i _) j _ } fid = _
    omega

example : stepSimple { S := [(0, { isVoid := false, slot := { blocked := true, rep := some { call := true, fn := some (.leaf 3 []) } } })] } (.mvS 1 0)
    = some ({ S := [(0, { isVoid := false, slot := {} }),
                    (1, { isVoid := false, slot := { blocked := true, rep := some { call := true, fn := some (.leaf 3 []) } } })] }, "ok") := by
  simp [stepSimple, aget, aset, SlotB.move]

/-- a slot variable cannot be moved from while a direct call of it is running (`busy`: the op language
    refuses what would be a use of a moved-from `this`) -/
theorem mvS_busy (s : St) (j i : Nat) (v : SlotVar) (hv : aget s.S i = some v) (hn : aget s.S j = none)
    (hin : v.incall > 0) : stepSimple s (.mvS j i) = some (s, "busy") := by
  simp only [stepSimple, hv, hn, hin]
  rfl

/-! ## copy assignment `asgS j i` (`slot_base::operator=(const slot_base&)`): which branch, what result -/

/-- self-assignment is a no-op: the whole state is unchanged (same rep, same blocking state, same
    functor copies) -/
theorem asgS_self_assign_noop (s s' : St) (r : String) (i : Nat) (d : SlotVar)
    (hd : aget s.S i = some d) (hin : d.incall = 0)
    (h : stepSimple s (.asgS i i) = some (s', r)) :
    r = "ok" ∧ s' = s := by
  rw [asgS_eq s i i d d hd hd rfl hin] at h
  simp only [Option.some.injEq, Prod.mk.injEq] at h
  obtain ⟨rfl, rfl⟩ := h
  refine ⟨rfl, ?_⟩
  have : ({ d with slot := asgSlot i i d.slot d.slot, taint := maxTaint d.taint d.taint } : SlotVar) = d := by
    simp [asgSlot, maxTaint_self]
  rw [this, aset_self _ _ _ hd]

example : stepSimple { S := [(0, { isVoid := false, slot := { blocked := true, rep := some { call := true, fn := some (.leaf 3 []) } }, taint := 2 })] } (.asgS 0 0)
    = some ({ S := [(0, { isVoid := false, slot := { blocked := true, rep := some { call := true, fn := some (.leaf 3 []) } }, taint := 2 })] }, "ok") := by
  simp [stepSimple, aget, aset]

/-- both operands without a rep (`rep_ == src.rep_`): only `blocked_` is copied -/
theorem asgS_both_without_rep (s s' : St) (r : String) (j i : Nat) (d v : SlotVar)
    (hd : aget s.S j = some d) (hv : aget s.S i = some v)
    (hty : d.isVoid = v.isVoid) (hin : d.incall = 0)
    (hdr : d.slot.rep = none) (hvr : v.slot.rep = none)
    (h : stepSimple s (.asgS j i) = some (s', r)) :
    r = "ok" ∧
    aget s'.S j = some { d with slot := { blocked := v.slot.blocked, rep := none }, taint := maxTaint d.taint v.taint } ∧
    SlotFrame j s s' ∧ ∀ fid, liveCount s' fid = liveCount s fid := by
  rw [asgS_eq s j i d v hd hv hty hin] at h
  simp only [Option.some.injEq, Prod.mk.injEq] at h
  obtain ⟨rfl, rfl⟩ := h
  have hs : asgSlot j i d.slot v.slot = { blocked := v.slot.blocked, rep := none } := by
    simp [asgSlot, hdr, hvr]
  rw [hs]
  refine ⟨rfl, aget_aset_same _ _ _, slotFrame_aset _ _ _, ?_⟩
  intro fid
  have := liveCount_aset s j d { d with slot := { blocked := v.slot.blocked, rep := none }, taint := maxTaint d.taint v.taint } fid hd
  rw [live_of_rep_none d.slot fid hdr] at this
  exact this

example : stepSimple { S := [(0, { isVoid := false, slot := { blocked := true, rep := none } }), (1, { isVoid := false, slot := {} })] } (.asgS 1 0)
    = some ({ S := [(0, { isVoid := false, slot := { blocked := true, rep := none } }), (1, { isVoid := false, slot := { blocked := true, rep := none } })] }, "ok") := by
  simp [stepSimple, aget, aset]

/-- source empty (no rep, or an invalidated rep) and at least one operand has a rep: the destination's
    rep is dropped (`delete_rep_with_check`), its functor copy released, its blocking state KEPT;
    the source is untouched -/
theorem asgS_from_empty (s s' : St) (r : String) (j i : Nat) (d v : SlotVar)
    (hd : aget s.S j = some d) (hv : aget s.S i = some v)
    (hty : d.isVoid = v.isVoid) (hin : d.incall = 0)
    (hji : j ≠ i) (hrep : d.slot.rep ≠ none ∨ v.slot.rep ≠ none) (he : v.slot.empty = true)
    (h : stepSimple s (.asgS j i) = some (s', r)) :
    r = "ok" ∧
    aget s'.S j = some { d with slot := { blocked := d.slot.blocked, rep := none }, taint := maxTaint d.taint v.taint } ∧
    aget s'.S i = some v ∧ SlotFrame j s s' ∧
    ∀ fid, liveCount s' fid + d.slot.live fid = liveCount s fid := by
  rw [asgS_eq s j i d v hd hv hty hin] at h
  simp only [Option.some.injEq, Prod.mk.injEq] at h
  obtain ⟨rfl, rfl⟩ := h
  have hs : asgSlot j i d.slot v.slot = { blocked := d.slot.blocked, rep := none } := by
    have : ¬ (d.slot.rep = none ∧ v.slot.rep = none) := by
      intro ⟨h1, h2⟩; rcases hrep with h | h <;> contradiction
    simp [asgSlot, hji, this, he]
  rw [hs]
  refine ⟨rfl, aget_aset_same _ _ _, ?_, slotFrame_aset _ _ _, ?_⟩
  · show aget (aset s.S j _) i = _
    rw [aget_aset_other _ _ _ _ (Ne.symm hji), hv]
  · intro fid
    have := liveCount_aset s j d { d with slot := { blocked := d.slot.blocked, rep := none }, taint := maxTaint d.taint v.taint } fid hd
    simp only [SlotB.live] at this
    simp only [SlotB.live]
    omega

example : stepSimple { S := [(0, { isVoid := false, slot := { blocked := false, rep := some { call := false, fn := none } } }),
                             (1, { isVoid := false, slot := { blocked := true, rep := some { call := true, fn := some (.leaf 3 []) } } })] } (.asgS 1 0)
    = some ({ S := [(0, { isVoid := false, slot := { blocked := false, rep := some { call := false, fn := none } } }),
                    (1, { isVoid := false, slot := { blocked := true, rep := none } })] }, "ok") := by
  simp [stepSimple, aget, aset, SlotB.empty]

/-- source valid: the destination gets its own copy of the source's functor and the source's
    blocking state; the old functor copy of the destination is dropped exactly once; the source is untouched -/
theorem asgS_from_valid (s s' : St) (r : String) (j i : Nat) (d v : SlotVar) (rv : Rep)
    (hd : aget s.S j = some d) (hv : aget s.S i = some v)
    (hty : d.isVoid = v.isVoid) (hin : d.incall = 0)
    (hji : j ≠ i) (hvr : v.slot.rep = some rv) (hc : rv.call = true)
    (h : stepSimple s (.asgS j i) = some (s', r)) :
    r = "ok" ∧
    aget s'.S j = some { d with slot := { blocked := v.slot.blocked, rep := some { call := true, fn := rv.fn } },
                                taint := maxTaint d.taint v.taint } ∧
    aget s'.S i = some v ∧ SlotFrame j s s' ∧
    ∀ fid, liveCount s' fid + d.slot.live fid = liveCount s fid + v.slot.live fid := by
  rw [asgS_eq s j i d v hd hv hty hin] at h
  simp only [Option.some.injEq, Prod.mk.injEq] at h
  obtain ⟨rfl, rfl⟩ := h
  have hs : asgSlot j i d.slot v.slot = { blocked := v.slot.blocked, rep := some { call := true, fn := rv.fn } } := by
    simp [asgSlot, hji, hvr, SlotB.empty, SlotB.copy, hc]
  rw [hs]
  refine ⟨rfl, aget_aset_same _ _ _, ?_, slotFrame_aset _ _ _, ?_⟩
  · show aget (aset s.S j _) i = _
    rw [aget_aset_other _ _ _ _ (Ne.symm hji), hv]
  · intro fid
    have := liveCount_aset s j d { d with slot := { blocked := v.slot.blocked, rep := some { call := true, fn := rv.fn } }, taint := maxTaint d.taint v.taint } fid hd
    have hl : v.slot.live fid = ({ blocked := v.slot.blocked, rep := some { call := true, fn := rv.fn } } : SlotB).live fid := by
      obtain ⟨c, fn⟩ := rv
      cases fn <;> simp [SlotB.live, hvr]
    rw [hl]
    exact this

example : stepSimple { S := [(0, { isVoid := false, slot := { blocked := true, rep := some { call := true, fn := some (.leaf 3 []) } } }),
                             (1, { isVoid := false, slot := { blocked := false, rep := some { call := true, fn := some (.leaf 5 []) } } })] } (.asgS 1 0)
    = some ({ S := [(0, { isVoid := false, slot := { blocked := true, rep := some { call := true, fn := some (.leaf 3 []) } } }),
                    (1, { isVoid := false, slot := { blocked := true, rep := some { call := true, fn := some (.leaf 3 []) } } })] }, "ok") := by
  simp [stepSimple, aget, aset, SlotB.empty, SlotB.copy]

/-- every branch at once (`release_once` for copy assignment): only variable `j` changes, the old functor
    copy of the destination is dropped exactly once and replaced by what the branch says -/
theorem asgS_release_once (s s' : St) (r : String) (j i : Nat) (d v : SlotVar)
    (hd : aget s.S j = some d) (hv : aget s.S i = some v)
    (hty : d.isVoid = v.isVoid) (hin : d.incall = 0)
    (h : stepSimple s (.asgS j i) = some (s', r)) :
    r = "ok" ∧ SlotFrame j s s' ∧
    ∃ d', aget s'.S j = some d' ∧ d'.isVoid = d.isVoid ∧ d'.incall = d.incall ∧
      (∀ fid, d'.slot.live fid = if j = i then d.slot.live fid else if v.slot.empty then 0 else v.slot.live fid) ∧
      (∀ fid, liveCount s' fid + d.slot.live fid = liveCount s fid + d'.slot.live fid) := by
  rw [asgS_eq s j i d v hd hv hty hin] at h
  simp only [Option.some.injEq, Prod.mk.injEq] at h
  obtain ⟨rfl, rfl⟩ := h
  refine ⟨rfl, slotFrame_aset _ _ _, _, aget_aset_same _ _ _, rfl, rfl, ?_, fun fid => liveCount_aset s j d _ fid hd⟩
  intro fid
  show (asgSlot j i d.slot v.slot).live fid = _
  unfold asgSlot
  by_cases hji : j = i
  · subst hji
    simp [SlotB.live]
  · by_cases hb : d.slot.rep = none ∧ v.slot.rep = none
    · simp [hji, hb.1, hb.2, SlotB.live, SlotB.empty]
    · by_cases he : v.slot.empty = true
      · simp [hji, hb, he, SlotB.live]
      · simp only [hji, he, if_false]
        have : (d.slot.rep.isNone && v.slot.rep.isNone) = false := by
          cases hdr : d.slot.rep <;> cases hvr : v.slot.rep <;> simp_all
        simp only [this, Bool.or_false, decide_false, Bool.false_eq_true, if_false]
        have := copy_rep_live v.slot v.slot.blocked fid
        simpa [he] using this

/-- a type mismatch or a destination inside its own call is refused without any effect -/
theorem asgS_refused (s : St) (j i : Nat) (d v : SlotVar)
    (hd : aget s.S j = some d) (hv : aget s.S i = some v) :
    (d.isVoid ≠ v.isVoid → stepSimple s (.asgS j i) = some (s, "badtype")) ∧
    (d.isVoid = v.isVoid → d.incall > 0 → stepSimple s (.asgS j i) = some (s, "busy")) :=
  ⟨asgS_badtype s j i d v hd hv, asgS_busy s j i d v hd hv⟩

example : stepSimple { S := [(0, { isVoid := false, slot := {}, incall := 1 })] } (.asgS 0 0)
    = some ({ S := [(0, { isVoid := false, slot := {}, incall := 1 })] }, "busy") := by
  simp [stepSimple, aget]

/-! ## move assignment `masgS j i` (`slot_base::operator=(slot_base&&)`) -/

/-- self-move-assignment is a no-op on the whole state -/
theorem masgS_self_assign_noop (s s' : St) (r : String) (i : Nat) (d : SlotVar)
    (hd : aget s.S i = some d) (hin : d.incall = 0)
    (h : stepSimple s (.masgS i i) = some (s', r)) :
    r = "ok" ∧ s' = s := by
  rw [masgS_eq_same s i i d d hd hd rfl hin hin (by simp)] at h
  simp only [Option.some.injEq, Prod.mk.injEq] at h
  obtain ⟨rfl, rfl⟩ := h
  refine ⟨rfl, ?_⟩
  have : ({ d with slot := { d.slot with blocked := d.slot.blocked }, taint := maxTaint d.taint d.taint } : SlotVar) = d := by
    simp [maxTaint_self]
  rw [this, aset_self _ _ _ hd]

example : stepSimple { S := [(0, { isVoid := false, slot := { blocked := true, rep := some { call := true, fn := some (.leaf 3 []) } } })] } (.masgS 0 0)
    = some ({ S := [(0, { isVoid := false, slot := { blocked := true, rep := some { call := true, fn := some (.leaf 3 []) } } })] }, "ok") := by
  simp [stepSimple, aget, aset]

/-- both operands without a rep: only `blocked_` is copied; the source keeps its state -/
theorem masgS_both_without_rep (s s' : St) (r : String) (j i : Nat) (d v : SlotVar)
    (hd : aget s.S j = some d) (hv : aget s.S i = some v)
    (hty : d.isVoid = v.isVoid) (hin : d.incall = 0) (hin' : v.incall = 0)
    (hdr : d.slot.rep = none) (hvr : v.slot.rep = none)
    (h : stepSimple s (.masgS j i) = some (s', r)) :
    r = "ok" ∧
    aget s'.S j = some { d with slot := { blocked := v.slot.blocked, rep := none }, taint := maxTaint d.taint v.taint } ∧
    SlotFrame j s s' ∧ ∀ fid, liveCount s' fid = liveCount s fid := by
  rw [masgS_eq_same s j i d v hd hv hty hin hin' (by simp [hdr, hvr])] at h
  simp only [Option.some.injEq, Prod.mk.injEq] at h
  obtain ⟨rfl, rfl⟩ := h
  have hs : ({ d.slot with blocked := v.slot.blocked } : SlotB) = { blocked := v.slot.blocked, rep := none } := by
    simp [hdr]
  rw [hs]
  refine ⟨rfl, aget_aset_same _ _ _, slotFrame_aset _ _ _, ?_⟩
  intro fid
  have := liveCount_aset s j d { d with slot := { blocked := v.slot.blocked, rep := none }, taint := maxTaint d.taint v.taint } fid hd
  rw [live_of_rep_none d.slot fid hdr] at this
  exact this

example : stepSimple { S := [(0, { isVoid := false, slot := { blocked := true, rep := none } }), (1, { isVoid := false, slot := {} })] } (.masgS 1 0)
    = some ({ S := [(0, { isVoid := false, slot := { blocked := true, rep := none } }), (1, { isVoid := false, slot := { blocked := true, rep := none } })] }, "ok") := by
  simp [stepSimple, aget, aset]

/-- source empty: the destination's rep is dropped, its functor copy released, its blocking state kept;
    the source is untouched -/
theorem masgS_from_empty (s s' : St) (r : String) (j i : Nat) (d v : SlotVar)
    (hd : aget s.S j = some d) (hv : aget s.S i = some v)
    (hty : d.isVoid = v.isVoid) (hin : d.incall = 0) (hin' : v.incall = 0)
    (hji : j ≠ i) (hrep : d.slot.rep ≠ none ∨ v.slot.rep ≠ none) (he : v.slot.empty = true)
    (h : stepSimple s (.masgS j i) = some (s', r)) :
    r = "ok" ∧
    aget s'.S j = some { d with slot := { blocked := d.slot.blocked, rep := none }, taint := maxTaint d.taint v.taint } ∧
    aget s'.S i = some v ∧ SlotFrame j s s' ∧
    ∀ fid, liveCount s' fid + d.slot.live fid = liveCount s fid := by
  have hs : (j = i || (d.slot.rep.isNone && v.slot.rep.isNone)) = false := by
    cases hdr : d.slot.rep <;> cases hvr : v.slot.rep <;> simp_all
  rw [masgS_eq_empty s j i d v hd hv hty hin hin' hs he] at h
  simp only [Option.some.injEq, Prod.mk.injEq] at h
  obtain ⟨rfl, rfl⟩ := h
  refine ⟨rfl, aget_aset_same _ _ _, ?_, slotFrame_aset _ _ _, ?_⟩
  · show aget (aset s.S j _) i = _
    rw [aget_aset_other _ _ _ _ (Ne.symm hji), hv]
  · intro fid
    have := liveCount_aset s j d { d with slot := { blocked := d.slot.blocked, rep := none }, taint := maxTaint d.taint v.taint } fid hd
    exact this

example : stepSimple { S := [(0, { isVoid := false, slot := {} }),
                             (1, { isVoid := false, slot := { blocked := true, rep := some { call := true, fn := some (.leaf 3 []) } } })] } (.masgS 1 0)
    = some ({ S := [(0, { isVoid := false, slot := {} }),
                    (1, { isVoid := false, slot := { blocked := true, rep := none } })] }, "ok") := by
  simp [stepSimple, aget, aset, SlotB.empty]

/-- source valid: the destination takes over the source's rep (the functor is moved, not copied) and
    blocking state, the source becomes `slot_base()`; the destination's old functor copy is dropped once -/
theorem masgS_from_valid (s s' : St) (r : String) (j i : Nat) (d v : SlotVar)
    (hd : aget s.S j = some d) (hv : aget s.S i = some v)
    (hty : d.isVoid = v.isVoid) (hin : d.incall = 0) (hin' : v.incall = 0)
    (hji : j ≠ i) (he : v.slot.empty = false)
    (h : stepSimple s (.masgS j i) = some (s', r)) :
    r = "ok" ∧
    aget s'.S j = some { d with slot := { blocked := v.slot.blocked, rep := v.slot.rep }, taint := maxTaint d.taint v.taint } ∧
    aget s'.S i = some { v with slot := { blocked := false, rep := none } } ∧ SlotFrame2 j i s s' ∧
    ∀ fid, liveCount s' fid + d.slot.live fid = liveCount s fid := by
  have hs : (j = i || (d.slot.rep.isNone && v.slot.rep.isNone)) = false := by
    cases hvr : v.slot.rep <;> simp_all [SlotB.empty]
  rw [masgS_eq_valid s j i d v hd hv hty hin hin' hs he] at h
  simp only [Option.some.injEq, Prod.mk.injEq] at h
  obtain ⟨rfl, rfl⟩ := h
  refine ⟨rfl, aget_aset_same _ _ _, ?_, slotFrame2_aset2 _ _ _ _ _, ?_⟩
  · show aget (aset (aset s.S i _) j _) i = _
    rw [aget_aset_other _ _ _ _ (Ne.symm hji), aget_aset_same]
  · intro fid
    have h1 := liveCount_aset s i v { v with slot := { blocked := false, rep := none } } fid hv
    have hd' : aget ({ s with S := aset s.S i { v with slot := { blocked := false, rep := none } } } : St).S j = some d := by
      show aget (aset s.S i _) j = some d
      rw [aget_aset_other _ _ _ _ hji, hd]
    have h2 := liveCount_aset { s with S := aset s.S i { v with slot := { blocked := false, rep := none } } } j d
      { d with slot := { blocked := v.slot.blocked, rep := v.slot.rep }, taint := maxTaint d.taint v.taint } fid hd'
    have h3 : ({ blocked := v.slot.blocked, rep := v.slot.rep } : SlotB).live fid = v.slot.live fid := rfl
    have h4 : ({ blocked := false, rep := none } : SlotB).live fid = 0 := rfl
    simp only [h4] at h1 h2
    show liveCount { s with S := aset (aset s.S i _) j _ } fid + _ = _
    omega

example : stepSimple { S := [(0, { isVoid := false, slot := { blocked := true, rep := some { call := true, fn := some (.leaf 3 []) } } }),
                             (1, { isVoid := false, slot := { blocked := false, rep := some { call := true, fn := some (.leaf 5 []) } } })] } (.masgS 1 0)
    = some ({ S := [(0, { isVoid := false, slot := {} }),
                    (1, { isVoid := false, slot := { blocked := true, rep := some { call := true, fn := some (.leaf 3 []) } } })] }, "ok") := by
  simp [stepSimple, aget, aset, SlotB.empty]

/-- every branch of move assignment between two different variables drops the destination's old
    functor copy exactly once and creates none; nothing but the two variables changes -/
theorem masgS_release_once (s s' : St) (r : String) (j i : Nat) (d v : SlotVar)
    (hd : aget s.S j = some d) (hv : aget s.S i = some v)
    (hty : d.isVoid = v.isVoid) (hin : d.incall = 0) (hin' : v.incall = 0) (hji : j ≠ i)
    (h : stepSimple s (.masgS j i) = some (s', r)) :
    r = "ok" ∧ SlotFrame2 j i s s' ∧ ∀ fid, liveCount s' fid + d.slot.live fid = liveCount s fid := by
  by_cases he : v.slot.empty = true
  · by_cases hb : d.slot.rep = none ∧ v.slot.rep = none
    · obtain ⟨h1, _, h3, h4⟩ := masgS_both_without_rep s s' r j i d v hd hv hty hin hin' hb.1 hb.2 h
      refine ⟨h1, h3.to2 i, fun fid => ?_⟩
      rw [h4 fid, live_of_rep_none d.slot fid hb.1]; rfl
    · have hrep : d.slot.rep ≠ none ∨ v.slot.rep ≠ none := by
        cases hdr : d.slot.rep <;> cases hvr : v.slot.rep <;> simp_all
      obtain ⟨h1, _, _, h3, h4⟩ := masgS_from_empty s s' r j i d v hd hv hty hin hin' hji hrep he h
      exact ⟨h1, h3.to2 i, h4⟩
  · have he' : v.slot.empty = false := by simpa using he
    obtain ⟨h1, _, _, h3, h4⟩ := masgS_from_valid s s' r j i d v hd hv hty hin hin' hji he' h
    exact ⟨h1, h3, h4⟩

/-- move assignment is refused while either operand is inside its own call -/
theorem masgS_refused_busy (s : St) (j i : Nat) (d v : SlotVar)
    (hd : aget s.S j = some d) (hv : aget s.S i = some v) (hty : d.isVoid = v.isVoid)
    (hin : d.incall > 0 ∨ v.incall > 0) : stepSimple s (.masgS j i) = some (s, "busy") :=
  masgS_busy s j i d v hd hv hty hin

example : stepSimple { S := [(0, { isVoid := false, slot := {}, incall := 1 }), (1, { isVoid := false, slot := {} })] } (.masgS 1 0)
    = some ({ S := [(0, { isVoid := false, slot := {}, incall := 1 }), (1, { isVoid := false, slot := {} })] }, "busy") := by
  simp [stepSimple, aget]

/-! ## `setS`, `discS`, `delS` -/

/-- assigning a functor: the variable becomes valid and unblocked, holding `fn`; the old functor copy is
    dropped once; no other slot variable, cell or connection changes (`s0` = the state after building the
    functor: see `mkFun_effects`) -/
theorem setS_assigns (s s0 s' : St) (r : String) (i : Nat) (d : SlotVar) (spec : FSpec) (fn : Fun)
    (hd : aget s.S i = some d) (hin : d.incall = 0) (hf : mkFun s d.isVoid spec = .ok (fn, s0))
    (h : stepSimple s (.setS i spec) = some (s', r)) :
    r = "ok" ∧
    (∃ v, aget s'.S i = some v ∧ v.slot = { blocked := false, rep := some { call := true, fn := some fn } } ∧
          v.slot.empty = false ∧ v.isVoid = d.isVoid ∧ v.incall = d.incall) ∧
    (∀ k, k ≠ i → aget s'.S k = aget s.S k) ∧
    s'.impls = s.impls ∧ s'.C = s.C ∧ s'.K = s0.K ∧ s'.T = s0.T ∧ s'.G = s0.G ∧
    (plainSpec spec = true → s0 = s) ∧
    ∀ fid, liveCount s' fid + d.slot.live fid = liveCount s fid + fn.count fid := by
  rw [setS_eq s s0 i d spec fn hd hin hf] at h
  simp only [Option.some.injEq, Prod.mk.injEq] at h
  obtain ⟨rfl, rfl⟩ := h
  obtain ⟨⟨hS, hC, hI, _⟩, hp, _, _⟩ := mkFun_ok s s0 _ spec fn hf
  refine ⟨rfl, ⟨_, aget_aset_same _ _ _, rfl, rfl, rfl, rfl⟩, ?_, hI, hC, rfl, rfl, rfl, hp, ?_⟩
  · intro k hk
    show aget (aset s0.S i _) k = _
    rw [aget_aset_other _ _ _ _ hk, hS]
  · intro fid
    have := liveCount_aset s0 i d { d with slot := { blocked := false, rep := some { call := true, fn := some fn } }, taint := maxTaint d.taint (specTaint s spec) } fid (by rw [hS]; exact hd)
    rw [liveCount_congr s s0 fid hS hI] at this
    exact this

example : stepSimple { S := [(0, { isVoid := false, slot := { blocked := true, rep := some { call := false, fn := some (.leaf 3 []) } } })] } (.setS 0 (.fn 5))
    = some ({ S := [(0, { isVoid := false, slot := { blocked := false, rep := some { call := true, fn := some (.leaf 5 []) } } })] }, "ok") := by
  simp [stepSimple, aget, aset, mkFun, specTaint]

/-- `slot.disconnect()`: only that variable changes, it becomes empty (`empty()` answers 1), keeps its
    blocking state, and its functor is not yet released -/
theorem discS_only_that_slot (s s' : St) (r : String) (i : Nat) (v : SlotVar)
    (hv : aget s.S i = some v) (h : stepSimple s (.discS i) = some (s', r)) :
    r = "ok" ∧ aget s'.S i = some { v with slot := v.slot.disconnectRep } ∧
    v.slot.disconnectRep.empty = true ∧ v.slot.disconnectRep.blocked = v.slot.blocked ∧
    SlotFrame i s s' ∧ stepSimple s' (.emptySq i) = some (s', "1") ∧
    ∀ fid, liveCount s' fid = liveCount s fid := by
  rw [discS_eq s i v hv] at h
  simp only [Option.some.injEq, Prod.mk.injEq] at h
  obtain ⟨rfl, rfl⟩ := h
  refine ⟨rfl, aget_aset_same _ _ _, (disconnect_empties _).1, (disconnect_empties _).2, slotFrame_aset _ _ _, ?_, ?_⟩
  · simp [stepSimple, (disconnect_empties v.slot).1, bstr]
  · intro fid
    have := liveCount_aset s i v { v with slot := v.slot.disconnectRep } fid hv
    rw [show ({ v with slot := v.slot.disconnectRep } : SlotVar).slot.live fid = v.slot.live fid from
          (disconnect_keeps_functor v.slot fid).1] at this
    omega

example : stepSimple { S := [(0, { isVoid := false, slot := { blocked := true, rep := some { call := true, fn := some (.leaf 3 []) } } })] } (.discS 0)
    = some ({ S := [(0, { isVoid := false, slot := { blocked := true, rep := some { call := false, fn := some (.leaf 3 []) } } })] }, "ok") := by
  simp [stepSimple, aget, aset, SlotB.disconnectRep]

/-- `disconnect()` empties that one slot until a new functor is assigned to it: after `discS i` the
    variable answers `empty() = 1`; after a following successful `setS i spec` it answers `0` -/
theorem disconnect_until_assigned (s s1 s0 s2 : St) (r1 r2 : String) (i : Nat) (v : SlotVar) (spec : FSpec) (fn : Fun)
    (hv : aget s.S i = some v) (hin : v.incall = 0)
    (h1 : stepSimple s (.discS i) = some (s1, r1))
    (hf : mkFun s1 v.isVoid spec = .ok (fn, s0))
    (h2 : stepSimple s1 (.setS i spec) = some (s2, r2)) :
    stepSimple s1 (.emptySq i) = some (s1, "1") ∧ r2 = "ok" ∧ stepSimple s2 (.emptySq i) = some (s2, "0") := by
  obtain ⟨_, hv1, _, _, _, he1, _⟩ := discS_only_that_slot s s1 r1 i v hv h1
  obtain ⟨hr2, ⟨v2, hv2, _, hne, _⟩, _⟩ :=
    setS_assigns s1 s0 s2 r2 i { v with slot := v.slot.disconnectRep } spec fn hv1 hin hf h2
  refine ⟨he1, hr2, ?_⟩
  simp [stepSimple, hv2, hne, bstr]

example : ∃ s1 s2, stepSimple { S := [(0, { isVoid := false, slot := { blocked := false, rep := some { call := true, fn := some (.leaf 3 []) } } })] } (.discS 0) = some (s1, "ok")
    ∧ stepSimple s1 (.emptySq 0) = some (s1, "1") ∧ stepSimple s1 (.setS 0 (.fn 4)) = some (s2, "ok")
    ∧ stepSimple s2 (.emptySq 0) = some (s2, "0") := by
  refine ⟨_, _, by simp [stepSimple, aget, aset]; rfl, ?_, by simp [stepSimple, aget, aset, mkFun]; rfl, ?_⟩ <;>
  simp [stepSimple, aget, SlotB.disconnectRep, SlotB.empty, bstr]

/-- destroying a slot variable removes only that variable and releases (at least) its functor copy;
    refused while a direct call of it is running -/
theorem delS_only_that_slot (s s' : St) (r : String) (i : Nat) (v : SlotVar)
    (hv : aget s.S i = some v) (hin : v.incall = 0) (h : stepSimple s (.delS i) = some (s', r)) :
    r = "ok" ∧ aget s'.S i = none ∧ SlotFrame i s s' ∧
    ∀ fid, liveCount s' fid + v.slot.live fid ≤ liveCount s fid := by
  rw [delS_eq s i v hv hin] at h
  simp only [Option.some.injEq, Prod.mk.injEq] at h
  obtain ⟨rfl, rfl⟩ := h
  exact ⟨rfl, aget_adel_same _ _, slotFrame_adel _ _, fun fid => liveCount_adel_le s i v fid hv⟩

theorem delS_refused_busy (s : St) (i : Nat) (v : SlotVar) (hv : aget s.S i = some v) (hin : v.incall > 0) :
    stepSimple s (.delS i) = some (s, "busy") := by
  simp only [stepSimple, hv, hin]
  rfl

example : stepSimple { S := [(0, { isVoid := false, slot := {} }), (1, { isVoid := true, slot := {} })] } (.delS 0)
    = some ({ S := [(1, { isVoid := true, slot := {} })] }, "ok") := by
  simp [stepSimple, aget, adel]

/-! ## copies are independent: an operation on one slot variable never affects another -/

/-- every operation on slot variables (`mkS mkS0 cpS mvS asgS masgS setS delS discS blockS blockedSq
    emptySq`; `slotWrites op` lists the variables the operation names as destination/moved-from source)
    leaves every other slot variable — in particular a copy made earlier, or the original of a copy —
    exactly as it was (rep, functor, blocking state), and touches no cell or connection; unless the
    operation builds a `make_slot()` / owning functor (`slotOpPlain op = false`) it touches no trackable,
    scoped connection or signal handle either.  Holds in every state and every branch (also the refused ones). -/
theorem copy_independent (s s' : St) (r : String) (op : Op) (ws : List Nat)
    (hw : slotWrites op = some ws) (h : stepSimple s op = some (s', r)) :
    (∀ k, k ∉ ws → aget s'.S k = aget s.S k) ∧
    s'.impls = s.impls ∧ s'.C = s.C ∧
    (slotOpPlain op = true → s'.T = s.T ∧ s'.K = s.K ∧ s'.G = s.G ∧ s'.next = s.next) := by
  obtain ⟨hC, hI, hS, hp⟩ := slotOp_sframe s s' r op ws hw h
  exact ⟨hS, hI, hC, hp⟩

/-- in particular: blocking, disconnecting, destroying, reassigning (functor, copy or move from a third
    variable) variable `j` leaves variable `i ≠ j` untouched -/
theorem copy_independent_ops (s s' : St) (r : String) (j i i' : Nat) (b : Bool) (spec : FSpec)
    (hij : i ≠ j) (hii : i ≠ i')
    (h : stepSimple s (.blockS j b) = some (s', r) ∨ stepSimple s (.discS j) = some (s', r) ∨
         stepSimple s (.delS j) = some (s', r) ∨ stepSimple s (.setS j spec) = some (s', r) ∨
         stepSimple s (.asgS j i) = some (s', r) ∨ stepSimple s (.asgS j i') = some (s', r) ∨
         stepSimple s (.masgS j i') = some (s', r) ∨ stepSimple s (.cpS j i) = some (s', r)) :
    aget s'.S i = aget s.S i := by
  rcases h with h | h | h | h | h | h | h | h
  · exact (copy_independent s s' r _ [j] rfl h).1 i (by simp [hij])
  · exact (copy_independent s s' r _ [j] rfl h).1 i (by simp [hij])
  · exact (copy_independent s s' r _ [j] rfl h).1 i (by simp [hij])
  · exact (copy_independent s s' r _ [j] rfl h).1 i (by simp [hij])
  · exact (copy_independent s s' r _ [j] rfl h).1 i (by simp [hij])
  · exact (copy_independent s s' r _ [j] rfl h).1 i (by simp [hij])
  · exact (copy_independent s s' r _ [j, i'] rfl h).1 i (by simp [hij, hii])
  · exact (copy_independent s s' r _ [j] rfl h).1 i (by simp [hij])

example : ∃ s1 s2, stepSimple { S := [(0, { isVoid := false, slot := { blocked := false, rep := some { call := true, fn := some (.leaf 3 []) } } })] } (.cpS 1 0) = some (s1, "ok")
    ∧ stepSimple s1 (.discS 0) = some (s2, "ok")
    ∧ aget s2.S 1 = some { isVoid := false, slot := { blocked := false, rep := some { call := true, fn := some (.leaf 3 []) } } } := by
  refine ⟨_, _, by simp [stepSimple, aget, aset]; rfl, by simp [stepSimple, aget, aset]; rfl, ?_⟩
  simp [aget, SlotB.copy]

/-! ## connecting a slot variable to a signal by copy and by move -/

/-- meaning of the helper definitions used below -/
theorem newCell_facts (cid : Nat) (sl : SlotB) :
    (newCell cid sl).id = cid ∧ (newCell cid sl).linked = true ∧
    (newCell cid sl).slot.blocked = sl.blocked ∧ (newCell cid sl).slot.empty = sl.empty ∧
    (∀ fid, (newCell cid sl).slot.live fid = sl.live fid) ∧
    (∀ r, sl.rep = some r → (newCell cid sl).slot = sl) ∧
    (sl.rep = none → (newCell cid sl).slot = { blocked := sl.blocked, rep := some { call := false, fn := none } }) :=
  ⟨rfl, rfl, withDummy_blocked sl, withDummy_empty sl, withDummy_live sl, fun r h => withDummy_of_rep sl r h,
   fun h => by simp [newCell, withDummy, h]⟩

theorem insAt_facts (c : Cell) (cs : List Cell) : insAt true c cs = c :: cs ∧ insAt false c cs = cs ++ [c] := ⟨rfl, rfl⟩

/-- `signal_base::impl()`: either the signal object already has its list (nothing changes), or a fresh
    empty list is allocated; no slot variable, connection or trackable is touched -/
theorem ensureImpl_cases (s s1 : St) (g im : Nat) (he : ensureImpl s g = some (s1, im)) :
    s1.S = s.S ∧ s1.C = s.C ∧ s1.K = s.K ∧ s1.T = s.T ∧
    ((s1 = s ∧ ∃ h, aget s.G g = some h ∧ h.impl = some im) ∨
     (∃ h, aget s.G g = some h ∧ h.impl = none ∧ im = s.next ∧ aget s1.impls im = some {} ∧
           s1.next = s.next + 1 ∧ (∀ k, k ≠ im → aget s1.impls k = aget s.impls k) ∧
           aget s1.G g = some { h with impl := some im } ∧ ∀ k, k ≠ g → aget s1.G k = aget s.G k)) :=
  ensureImpl_spec s s1 g im he

/-- `signal.connect(slot)` / `connect_first(slot)` by copy: the slot variable is untouched (`S` unchanged);
    the signal's list gets one new linked cell holding the copy of the slot (own functor copy, same blocking
    state; a dummy rep if the slot had none) at the back/front, with a fresh id; connection `k` points at it;
    every other list and connection is unchanged -/
theorem conn_by_copy (s s1 s' : St) (r : String) (k g sv : Nat) (first : Bool) (h : Handle) (v : SlotVar)
    (im : Nat) (x : Impl)
    (hg : aget s.G g = some h) (hv : aget s.S sv = some v)
    (hty : h.fl.isVoid = v.isVoid) (hta : v.taint < (h.lvl : Int))
    (he : ensureImpl s g = some (s1, im)) (hx : aget s1.impls im = some x)
    (hstep : stepSimple s (.conn k g sv first false) = some (s', r)) :
    r = "ok" ∧ s'.S = s.S ∧ s'.T = s.T ∧ s'.K = s.K ∧ s'.G = s1.G ∧ s'.next = s1.next + 1 ∧
    aget s'.C k = some (some s1.next) ∧ (∀ k', k' ≠ k → aget s'.C k' = aget s.C k') ∧
    aget s'.impls im = some { x with cells := insAt first (newCell s1.next v.slot.copy) x.cells } ∧
    (∀ i, i ≠ im → aget s'.impls i = aget s1.impls i) ∧
    ∀ fid, liveCount s' fid = liveCount s1 fid + if v.slot.empty then 0 else v.slot.live fid := by
  rw [conn_copy_eq s s1 k g sv first h v im x hg hv hty hta he hx] at hstep
  simp only [Option.some.injEq, Prod.mk.injEq] at hstep
  obtain ⟨rfl, rfl⟩ := hstep
  obtain ⟨hS, hC, hK, hT, _⟩ := ensureImpl_spec s s1 g im he
  refine ⟨rfl, hS, hT, hK, rfl, rfl, aget_aset_same _ _ _, ?_, aget_aset_same _ _ _, ?_, ?_⟩
  · intro k' hk'
    show aget (aset s1.C k _) k' = _
    rw [aget_aset_other _ _ _ _ hk', hC]
  · intro i hi
    exact aget_aset_other _ _ _ _ hi
  · intro fid
    have := liveCount_insert { s1 with next := s1.next + 1 } im x first k (some s1.next) (newCell s1.next v.slot.copy) fid hx
    rw [(newCell_facts s1.next v.slot.copy).2.2.2.2.1 fid, copy_live] at this
    exact this

example : stepSimple { G := [(0, { obj := 1, fl := .I, impl := some 3, trk := 2, lvl := 0 })],
                       S := [(0, { isVoid := false, slot := { blocked := true, rep := some { call := true, fn := some (.leaf 3 []) } } })],
                       impls := [(3, {})], next := 4 } (.conn 0 0 0 false false)
    = some ({ G := [(0, { obj := 1, fl := .I, impl := some 3, trk := 2, lvl := 0 })],
              S := [(0, { isVoid := false, slot := { blocked := true, rep := some { call := true, fn := some (.leaf 3 []) } } })],
              impls := [(3, { cells := [{ id := 4, slot := { blocked := true, rep := some { call := true, fn := some (.leaf 3 []) } }, linked := true }] })],
              C := [(0, some 4)], next := 5 }, "ok") := by
  simp [stepSimple, aget, aset, ensureImpl, insertCell, St.fresh, setImpl, setConn, SlotB.copy, Flavour.isVoid]

/-- connecting by move (`connect(std::move(slot))`): the slot variable becomes `move.2`, i.e. empty; the
    new cell holds `move.1` (the very rep of the variable: no functor copy is made or lost) -/
theorem conn_by_move (s s1 s' : St) (r : String) (k g sv : Nat) (first : Bool) (h : Handle) (v : SlotVar)
    (im : Nat) (x : Impl)
    (hg : aget s.G g = some h) (hv : aget s.S sv = some v)
    (hty : h.fl.isVoid = v.isVoid) (hta : v.taint < (h.lvl : Int)) (hin : v.incall = 0)
    (he : ensureImpl s g = some (s1, im)) (hx : aget s1.impls im = some x)
    (hstep : stepSimple s (.conn k g sv first true) = some (s', r)) :
    r = "ok" ∧ aget s'.S sv = some { v with slot := v.slot.move.2 } ∧ v.slot.move.2.empty = true ∧
    (∀ j, j ≠ sv → aget s'.S j = aget s.S j) ∧
    s'.T = s.T ∧ s'.K = s.K ∧ s'.G = s1.G ∧ s'.next = s1.next + 1 ∧
    aget s'.C k = some (some s1.next) ∧ (∀ k', k' ≠ k → aget s'.C k' = aget s.C k') ∧
    aget s'.impls im = some { x with cells := insAt first (newCell s1.next v.slot.move.1) x.cells } ∧
    (∀ i, i ≠ im → aget s'.impls i = aget s1.impls i) ∧
    ∀ fid, liveCount s' fid = liveCount s1 fid := by
  rw [conn_move_eq s s1 k g sv first h v im x hg hv hty hta hin he hx] at hstep
  simp only [Option.some.injEq, Prod.mk.injEq] at hstep
  obtain ⟨rfl, rfl⟩ := hstep
  obtain ⟨hS, hC, hK, hT, _⟩ := ensureImpl_spec s s1 g im he
  refine ⟨rfl, aget_aset_same _ _ _, move_empties_source _, ?_, hT, hK, rfl, rfl, aget_aset_same _ _ _, ?_,
          aget_aset_same _ _ _, ?_, ?_⟩
  · intro j hj
    show aget (aset s1.S sv _) j = _
    rw [aget_aset_other _ _ _ _ hj, hS]
  · intro k' hk'
    show aget (aset s1.C k _) k' = _
    rw [aget_aset_other _ _ _ _ hk', hC]
  · intro i hi
    exact aget_aset_other _ _ _ _ hi
  · intro fid
    have h1 := liveCount_insert { s1 with next := s1.next + 1, S := aset s1.S sv { v with slot := v.slot.move.2 } }
      im x first k (some s1.next) (newCell s1.next v.slot.move.1) fid hx
    have h2 := liveCount_aset s1 sv v { v with slot := v.slot.move.2 } fid (by rw [hS]; exact hv)
    have h3 := move_live v.slot fid
    have h4 : liveCount { s1 with next := s1.next + 1, S := aset s1.S sv { v with slot := v.slot.move.2 } } fid
            = liveCount { s1 with S := aset s1.S sv { v with slot := v.slot.move.2 } } fid := rfl
    rw [(newCell_facts s1.next v.slot.move.1).2.2.2.2.1 fid] at h1
    simp only at h2
    omega

example : stepSimple { G := [(0, { obj := 1, fl := .I, impl := none, trk := 2, lvl := 0 })],
                       S := [(0, { isVoid := false, slot := { blocked := true, rep := some { call := true, fn := some (.leaf 3 []) } } })],
                       next := 3 } (.conn 0 0 0 true true)
    = some ({ G := [(0, { obj := 1, fl := .I, impl := some 3, trk := 2, lvl := 0 })],
              S := [(0, { isVoid := false, slot := {} })],
              impls := [(3, { cells := [{ id := 4, slot := { blocked := true, rep := some { call := true, fn := some (.leaf 3 []) } }, linked := true }] })],
              C := [(0, some 4)], next := 5 }, "ok") := by
  simp [stepSimple, aget, aset, ensureImpl, insertCell, St.fresh, setImpl, setConn, SlotB.move, Flavour.isVoid]

/-- connecting by move is refused while a direct call of the variable is running -/
theorem conn_by_move_busy (s : St) (k g sv : Nat) (first : Bool) (h : Handle) (v : SlotVar)
    (hg : aget s.G g = some h) (hv : aget s.S sv = some v)
    (hty : h.fl.isVoid = v.isVoid) (hta : v.taint < (h.lvl : Int)) (hin : v.incall > 0) :
    stepSimple s (.conn k g sv first true) = some (s, "busy") := by
  have h1 : (h.fl.isVoid != v.isVoid) = false := by simp [hty]
  have h2 : ¬ (v.taint ≥ (h.lvl : Int)) := by omega
  simp only [stepSimple, hg, hv, h1, h2, hin]
  rfl

/-! ## invocation -/

/-- invoking an empty slot (no rep, invalidated or disconnected rep, released functor) or a blocked slot
    runs no functor (the state — hence the call log — is unchanged) and returns a default-constructed
    result — for every fuel and program -/
theorem call_empty_default (f : Nat) (P : Prog) (s : St) (i arg : Nat) (v : SlotVar)
    (hv : aget s.S i = some v) (hd : s.depth < P.maxdepth) (hs : s.steps ≤ P.maxsteps)
    (he : v.slot.empty = true ∨ v.slot.blocked = true ∨ ∃ r, v.slot.rep = some r ∧ r.fn = none) :
    execOp (f+1) P s (.callS i arg) = some (s, .ok (showRes v.isVoid 0)) := by
  have h1 : ¬ (s.depth ≥ P.maxdepth) := by omega
  have h2 : ¬ (s.steps > P.maxsteps) := by omega
  rw [execOp]
  simp only [hv, h1, h2, if_false]
  cases hr : v.slot.rep with
  | none => rfl
  | some rp =>
    obtain ⟨c, fn⟩ := rp
    cases c with
    | false => rfl
    | true =>
      cases fn with
      | none => rfl
      | some fn =>
        rcases he with he | he | ⟨r, he, hn⟩
        · simp [SlotB.empty, hr] at he
        · simp [he]
        · rw [hr] at he; cases he; cases hn

example : execOp 1 { bodies := [], top := [] }
      { S := [(0, { isVoid := false, slot := { blocked := true, rep := some { call := true, fn := some (.leaf 3 []) } } })] } (.callS 0 5)
    = some ({ S := [(0, { isVoid := false, slot := { blocked := true, rep := some { call := true, fn := some (.leaf 3 []) } } })] }, .ok "r=0") := by
  rw [call_empty_default 0 _ _ 0 5 _ rfl (by decide) (by decide) (.inr (.inl rfl))]
  rfl

/-! ## the specification `S` agrees -/

/-- on every operation on slot variables (`slotWrites op ≠ none`) the statement-level specification `S`
    (`Sigc.Spec`) and the mechanism model `P`, started from states with the same slot variables, trackables,
    signal handles, scoped connections, functor-owned signal objects and allocator, give the same answer and the
    same slot variables afterwards — so every theorem of this file about `aget s'.S _` and the answer `r` of such
    an operation holds verbatim for `S`.

    (model round 3: the statement of the previous model round had no hypothesis on `ownedG` (the field did not exist).
    Building a functor (`mkS`, `setS` with `fwd g` / `ownG fid g`) now reads it (refusal `owned`), so agreement on
    `ownedG` is a necessary hypothesis: `spec_agrees_needs_ownedG` below is the witness) -/
theorem spec_agrees_on_slot_ops (l : Spec.LSt) (s : St) (hS : l.S = s.S) (hT : l.T = s.T) (hG : l.G = s.G)
    (hK : l.K = s.K) (hN : l.next = s.next) (hO : l.ownedG = s.ownedG)
    (op : Op) (ws : List Nat) (hw : slotWrites op = some ws) :
    (Spec.stepSimple l op).map (fun p => (p.1.S, p.2)) = (stepSimple s op).map (fun p => (p.1.S, p.2)) :=
  spec_agrees_slotOp l s hS hT hG hK hN hO op ws hw

example : (Spec.stepSimple { S := [(0, { isVoid := false, slot := { blocked := true, rep := some { call := true, fn := some (.leaf 3 []) } } }),
                                   (1, { isVoid := false, slot := {} })], k1 := true } (.asgS 1 0)).map (fun p => (p.1.S, p.2))
    = (stepSimple { S := [(0, { isVoid := false, slot := { blocked := true, rep := some { call := true, fn := some (.leaf 3 []) } } }),
                          (1, { isVoid := false, slot := {} })], err := some "x" } (.asgS 1 0)).map (fun p => (p.1.S, p.2)) :=
  spec_agrees_on_slot_ops _ _ rfl rfl rfl rfl rfl rfl _ [1] rfl

/-- the witness: same `S T G K next`, different `ownedG` — `slot<int()>(sig0.make_slot())` of a non-trackable
    signal that a functor owns is refused (`owned`) on one side and built on the other -/
theorem spec_agrees_needs_ownedG :
    ∃ (l : Spec.LSt) (s : St) (op : Op) (ws : List Nat),
      l.S = s.S ∧ l.T = s.T ∧ l.G = s.G ∧ l.K = s.K ∧ l.next = s.next ∧ slotWrites op = some ws ∧
      (Spec.stepSimple l op).map (fun p => (p.1.S, p.2)) ≠ (stepSimple s op).map (fun p => (p.1.S, p.2)) :=
  ⟨{ G := [(0, { obj := 9, fl := .I, impl := none, trk := 0, lvl := 0 })], ownedG := [(5, 0)] },
   { G := [(0, { obj := 9, fl := .I, impl := none, trk := 0, lvl := 0 })] },
   .mkS 1 "I" (.fwd 0), [1], rfl, rfl, rfl, rfl, rfl, rfl, by
     simp [Spec.stepSimple, stepSimple, Spec.mkFun, mkFun, aget, aset, Flavour.isVoid, Flavour.isTrackable]⟩

end Sigc.C15
