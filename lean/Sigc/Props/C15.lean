import Sigc.Model
import Sigc.Spec
/-! property theorems for C15 (being written) -/
namespace Sigc.C15
end Sigc.C15
