import Sigc.Model
import Sigc.Lemmas.Basic
/-!
# C15 — slots are values: copies are independent, moves empty the source

Theorems about the slot-value layer of the model (`SlotB` = `slot_base`: `blocked_`, `rep_`), which is
what `cpS/mvS/asgS/masgS/conn/connmv/nest` of the operation language execute (`Sigc.Model.stepSimple`).
They hold for every slot value — there is no bound on the functor nested inside.
-/
namespace Sigc.C15
open Sigc.Model

/-- a default-constructed slot is empty -/
theorem default_empty : ({} : SlotB).empty = true := rfl

/-- copying an empty or invalidated slot yields an empty slot without a representation -/
theorem copy_of_invalid_is_empty (s : SlotB) (h : s.empty = true) : s.copy.rep = none ∧ s.copy.empty = true := by
  unfold SlotB.empty at h
  unfold SlotB.copy
  cases hr : s.rep with
  | none => simp [SlotB.empty]
  | some r =>
    rw [hr] at h
    have : r.call = false := by simpa using h
    simp [this, SlotB.empty]

/-- a copy of a valid slot is valid, holds the same functor value (its own copy: the model's functor
    values are immutable) and the same blocking state -/
theorem copy_of_valid (s : SlotB) (r : Rep) (hr : s.rep = some r) (hc : r.call = true) :
    s.copy = { blocked := s.blocked, rep := some { call := true, fn := r.fn } } := by
  unfold SlotB.copy
  rw [hr]
  simp [hc]

/-- moving from a slot leaves the source empty … -/
theorem move_empties_source (s : SlotB) : s.move.2.empty = true := by
  unfold SlotB.move
  cases hr : s.rep with
  | none => simp [SlotB.empty, hr]
  | some r => simp [SlotB.empty]

/-- … and the destination behaving as the source did (same representation, same blocking state) -/
theorem move_preserves_behaviour (s : SlotB) : s.move.1.rep = s.rep ∧ s.move.1.blocked = s.blocked := by
  unfold SlotB.move
  cases hr : s.rep <;> simp

/-- `disconnect()` empties the slot (until a new functor is assigned) and keeps the blocking state -/
theorem disconnect_empties (s : SlotB) : s.disconnectRep.empty = true ∧ s.disconnectRep.blocked = s.blocked := by
  unfold SlotB.disconnectRep
  cases hr : s.rep <;> simp [SlotB.empty, hr]

/-- copy-constructing a slot variable (`cpS j i`) changes no other slot variable, no signal, no
    connection: the copy is independent state -/
theorem cpS_frame (s s' : St) (r : String) (j i : Nat) (h : stepSimple s (.cpS j i) = some (s', r)) :
    s'.impls = s.impls ∧ s'.C = s.C ∧ s'.K = s.K ∧ s'.T = s.T ∧ s'.G = s.G ∧
    ∀ k, k ≠ j → aget s'.S k = aget s.S k := by
  simp only [stepSimple] at h
  split at h
  · simp at h; obtain ⟨rfl, _⟩ := h; simp
  · split at h
    · simp at h; obtain ⟨rfl, _⟩ := h; simp
    · simp at h
      obtain ⟨rfl, _⟩ := h
      refine ⟨rfl, rfl, rfl, rfl, rfl, ?_⟩
      intro k hk
      exact aget_aset_other _ _ _ _ hk

example : ({ blocked := true, rep := some { call := true, fn := some (.leaf 3 [7]) } } : SlotB).copy.empty = false := by
  decide

end Sigc.C15
