import Sigc.Types
import Sigc.TypesLemmas
import Sigc.Props.C20Types
/-!
  Property C05 — *type-unsafe connections are rejected at compile time; well-typed ones compile.*

  "A functor can be converted to a slot, or connected to a signal, only if it can be called with the signal's
  parameter types as the library passes them and its result can be returned as the signal's result type.  A
  mismatch in arity, a parameter that is not convertible, a non-const reference parameter that would bind to a
  value or const argument, a non-const method on a const object, or an incompatible result type is a compile
  error; a functor that is callable with standard implicit conversions is accepted."

  The theorems are about the executable model `Sigc/Types.lean` (`accepts`, `acceptsRoute`, `binds`, `retOk`,
  `passed`, `chain`), for **all** arities (list induction), all base types and shapes of the universe, all functor
  kinds and every adaptor hop where stated.  The model is tied to `/repo` by the compile-probe correspondence of
  `checks/props/c05.py` (oracle: g++ and clang++).
-/
namespace Sigc.C05
open Sigc.Types

/-! ## What the library passes -/

/-- **C05.passed_as** — for every declared signature parameter, the expression that `std::invoke` hands to the
    stored functor: `T ↦ const lvalue T`, `T& ↦ lvalue T`, `const T& ↦ const lvalue T`, `T&& ↦ xvalue T`
    (`take_t<T&&> = T&&`, and every hop uses `std::forward<T&&>`, so the functor sees an xvalue, not an lvalue). -/
theorem passed_as (a : Param) :
    passed a = match a.shape with
      | .val => ⟨a.base, true, .lvalue⟩
      | .lref => ⟨a.base, false, .lvalue⟩
      | .cref => ⟨a.base, true, .lvalue⟩
      | .rref => ⟨a.base, false, .xvalue⟩ := by
  obtain ⟨b, sh⟩ := a
  cases sh <;> rfl

example : passed ⟨.clsA, .val⟩ = ⟨.clsA, true, .lvalue⟩ ∧ passed ⟨.long, .rref⟩ = ⟨.long, false, .xvalue⟩ := by
  decide

/-- **C05.chain_passed** — the plumbing `slot::operator()` → `call_it` → explicit `operator()<take_t<A>>` (reference
    collapsing) → `std::invoke` never fails on its own and is independent of the caller's expression: whatever
    admissible argument `e0` the caller gives, all three internal hops bind and the functor is handed `passed a`. -/
theorem chain_passed (a : Param) (e0 : ExprTy) (h : binds (take a) e0 = true) :
    chain a e0 = some (passed a) := chain_eq a e0 h

example : chain ⟨.int, .val⟩ ⟨.long, false, .prvalue⟩ = some ⟨.int, true, .lvalue⟩ := by decide

/-! ## Acceptance -/

/-- **C05.accepts_iff** (all arities) — a functor is accepted for a signature exactly when the arities agree, every
    functor parameter binds the expression the library passes at that position, the functor object can be formed
    (`mem_fun`: const object ⇒ const method) and the result can be returned as the signature's result. -/
theorem accepts_iff (sig : Sig) (fn : Fn) :
    accepts sig .none fn = true ↔
      fn.params.length = sig.params.length ∧
      (∀ (i : Nat) (h1 : i < fn.params.length) (h2 : i < sig.params.length),
          binds fn.params[i] (passed sig.params[i]) = true) ∧
      fn.kind.objOk = true ∧ retOk fn.ret sig.ret = true := by
  simp only [accepts, adaptArgs, invokeOk_eq, Bool.and_eq_true, bindsAll_iff, List.length_map]
  constructor
  · rintro ⟨⟨ho, hl, hb⟩, hr⟩
    refine ⟨hl, ?_, ho, hr⟩
    intro i h1 h2
    have := hb i h1 (by simpa using h2)
    simpa using this
  · rintro ⟨hl, hb, ho, hr⟩
    refine ⟨⟨ho, hl, ?_⟩, hr⟩
    intro i h1 h2
    have := hb i h1 (by simpa using h2)
    simpa using this

/-- non-vacuity: a binary signature `int(int, A&)` and a const method `long m(const long&, A&) const` on a const
    object — conversions at both the parameter and the result; accepted. -/
example : accepts ⟨[⟨.int, .val⟩, ⟨.clsA, .lref⟩], some ⟨.long, .val⟩⟩ .none
    ⟨.memFun true .const, [⟨.long, .cref⟩, ⟨.clsA, .lref⟩], some ⟨.int, .val⟩⟩ = true := by decide

/-- the three routes `slot<Sig> s = f;`, `signal<Sig>::connect(f)` and `signal<Sig>::accumulated<Acc>::connect(f)`
    decide alike (they all construct the same `slot<Sig>`) -/
theorem routes_agree (sig : Sig) (ad : Adaptor) (fn : Fn) :
    acceptsRoute .slotInit sig ad fn = acceptsRoute .connect sig ad fn ∧
      acceptsRoute .connectAccum sig ad fn = acceptsRoute .connect sig ad fn := ⟨rfl, rfl⟩

/-- every route goes through the typed call of `call_it`: whatever is accepted on any route, under any adaptor hop,
    has a result that can be returned as the signature's result -/
theorem acceptsRoute_retOk (r : Route) (sig : Sig) (ad : Adaptor) (fn : Fn)
    (h : acceptsRoute r sig ad fn = true) : retOk fn.ret sig.ret = true := by
  have key : ∀ ad', accepts sig ad' fn = true → retOk fn.ret sig.ret = true := by
    intro ad' h'
    simp only [accepts] at h'
    cases hargs : adaptArgs ad' fn sig.params with
    | none => simp [hargs] at h'
    | some args =>
      simp only [hargs, Bool.and_eq_true] at h'
      exact h'.2
  cases r with
  | slotInit => exact key ad h
  | connect => exact key ad h
  | connectAccum => exact key ad h
  | signalConnect =>
    simp only [acceptsRoute, Bool.and_eq_true] at h
    exact key .none h.2

/-- **wrong arity ⇒ rejected** (any kind, any parameter types) -/
theorem wrong_arity_rejected (sig : Sig) (fn : Fn) (h : fn.params.length ≠ sig.params.length) :
    accepts sig .none fn = false := by
  cases hacc : accepts sig .none fn
  · rfl
  · exact absurd ((accepts_iff sig fn).1 hacc).1 h

example : accepts ⟨[⟨.int, .val⟩], none⟩ .none ⟨.lambda, [⟨.int, .val⟩, ⟨.int, .val⟩], none⟩ = false := by decide

/-- **non-convertible parameter ⇒ rejected**: if at some position the signature's object type has no standard
    conversion to the functor parameter's object type, no declared shape on either side helps. -/
theorem nonconvertible_param_rejected (sig : Sig) (fn : Fn) (i : Nat)
    (h1 : i < fn.params.length) (h2 : i < sig.params.length)
    (h : conv sig.params[i].base fn.params[i].base = false) :
    accepts sig .none fn = false := by
  cases hacc : accepts sig .none fn
  · rfl
  · have hb := ((accepts_iff sig fn).1 hacc).2.1 i h1 h2
    have hc := conv_of_binds hb
    rw [passed_base, h] at hc
    cases hc

example : accepts ⟨[⟨.ptrA, .val⟩], none⟩ .none ⟨.freeFn, [⟨.int, .val⟩], none⟩ = false := by decide

/-- in particular a scoped enumeration argument does not reach an `int` parameter nor an `int` argument a scoped
    enumeration parameter (`conv` is *implicit* convertibility), whatever the declared shapes; the same type does -/
example : conv .enumE .int = false ∧ conv .int .enumE = false ∧ conv .clsXb .bool = false
    ∧ accepts ⟨[⟨.enumE, .val⟩], none⟩ .none ⟨.freeFn, [⟨.int, .cref⟩], none⟩ = false
    ∧ accepts ⟨[⟨.int, .val⟩], none⟩ .none ⟨.lambda, [⟨.enumE, .val⟩], none⟩ = false
    ∧ accepts ⟨[⟨.enumE, .val⟩], none⟩ .none ⟨.lambda, [⟨.enumE, .cref⟩], none⟩ = true := by decide

/-- **non-const reference from a value or const argument ⇒ rejected**: a `T&` functor parameter facing a signature
    parameter declared `U`, `const U&` (passed as const lvalue) or `U&&` (passed as xvalue). -/
theorem nonconst_ref_from_value_or_const_rejected (sig : Sig) (fn : Fn) (i : Nat)
    (h1 : i < fn.params.length) (h2 : i < sig.params.length)
    (hf : fn.params[i].shape = .lref) (hs : sig.params[i].shape ≠ .lref) :
    accepts sig .none fn = false := by
  cases hacc : accepts sig .none fn
  · rfl
  · have hb := ((accepts_iff sig fn).1 hacc).2.1 i h1 h2
    exact absurd (lref_binds_passed hf hb).1 hs

example : accepts ⟨[⟨.int, .val⟩], none⟩ .none ⟨.lambda, [⟨.int, .lref⟩], none⟩ = false := by decide
example : accepts ⟨[⟨.int, .lref⟩], none⟩ .none ⟨.lambda, [⟨.int, .lref⟩], none⟩ = true := by decide

/-- a `T&` functor parameter is accepted only for a signature parameter `U&` of the same or a derived class type -/
theorem nonconst_ref_needs_same_object (sig : Sig) (fn : Fn) (i : Nat)
    (h1 : i < fn.params.length) (h2 : i < sig.params.length)
    (hf : fn.params[i].shape = .lref) (hacc : accepts sig .none fn = true) :
    sig.params[i].shape = .lref ∧ sameOrBaseOf fn.params[i].base sig.params[i].base = true := by
  exact lref_binds_passed hf (((accepts_iff sig fn).1 hacc).2.1 i h1 h2)

/-- **non-const method on a const object ⇒ rejected**, on every route and under every adaptor hop -/
theorem nonconst_method_on_const_object_rejected (r : Route) (sig : Sig) (ad : Adaptor) (ps : List Param)
    (ret : Ret) (mq : MQ) (h : mq.isConst = false) :
    acceptsRoute r sig ad ⟨.memFun true mq, ps, ret⟩ = false := by
  have hacc : accepts sig ad ⟨.memFun true mq, ps, ret⟩ = false := by
    simp only [accepts]
    cases adaptArgs ad ⟨.memFun true mq, ps, ret⟩ sig.params with
    | none => rfl
    | some args => simp [invokeOk_eq, Kind.objOk, h]
  have hnone : accepts sig .none ⟨.memFun true mq, ps, ret⟩ = false := by
    simp [accepts, adaptArgs, invokeOk_eq, Kind.objOk, h]
  cases r <;> simp [acceptsRoute, hacc, hnone]

example : accepts ⟨[], none⟩ .none ⟨.memFun true .none, [], none⟩ = false
    ∧ accepts ⟨[], none⟩ .none ⟨.memFun true .const, [], none⟩ = true
    ∧ accepts ⟨[], none⟩ .none ⟨.memFun false .none, [], none⟩ = true := by decide

/-- **incompatible result ⇒ rejected**, under every adaptor hop -/
theorem incompatible_result_rejected (sig : Sig) (ad : Adaptor) (fn : Fn)
    (h : retOk fn.ret sig.ret = false) : accepts sig ad fn = false := by
  simp only [accepts]
  cases adaptArgs ad fn sig.params with
  | none => rfl
  | some args => simp [h]

/-- what "incompatible" means: a `void` functor for a value signature, a value functor for a `void` signature
    (`return f(...)` in `void call_it`), or a result whose object type does not convert -/
theorem retOk_false_cases (fr sr : Ret) :
    (sr ≠ none ∧ fr = none) ∨ (sr = none ∧ fr ≠ none) ∨
      (∃ s f, sr = some s ∧ fr = some f ∧ conv f.base s.base = false) → retOk fr sr = false := by
  rintro (⟨hs, hf⟩ | ⟨hs, hf⟩ | ⟨s, f, hs, hf, hc⟩)
  · subst hf
    cases sr with
    | none => exact absurd rfl hs
    | some s => rfl
  · subst hs
    cases fr with
    | none => exact absurd rfl hf
    | some f => rfl
  · subst hs hf
    cases hb : retOk (some f) (some s)
    · rfl
    · have := conv_of_binds (p := s) (e := retExpr f) hb
      rw [retExpr_base, hc] at this
      cases this

example : accepts ⟨[⟨.int, .val⟩], some ⟨.ptrB, .val⟩⟩ .none ⟨.lambda, [⟨.int, .val⟩], some ⟨.ptrA, .val⟩⟩ = false := by
  decide
example : accepts ⟨[⟨.int, .val⟩], none⟩ .none ⟨.freeFn, [⟨.int, .val⟩], some ⟨.int, .val⟩⟩ = false := by decide

/-! ### results that are only *explicitly* convertible

  `call_it` returns the functor's result with a plain `return`, i.e. by copy-initialisation: a conversion that exists
  only as a `static_cast` / direct-initialisation (scoped enumeration → arithmetic, `explicit operator bool()`,
  `explicit operator double()`) does not make the result compatible. -/

/-- **C05.explicit_only_result_rejected** — a functor result whose object type converts to the signature's result
    type only explicitly (`onlyExplicit`: `static_cast` would do it, copy-initialisation does not) cannot be returned
    — whatever the declared shapes (value / reference) on either side. -/
theorem explicit_only_result_rejected (f s : Param) (h : onlyExplicit f.base s.base = true) :
    retOk (some f) (some s) = false :=
  retOk_false_cases _ _ (Or.inr (Or.inr ⟨s, f, rfl, rfl, conv_false_of_onlyExplicit h⟩))

/-- non-vacuity: the relation `onlyExplicit` is inhabited exactly where the C++ rules put it — scoped enumeration to
    every arithmetic type and back, `Xb → bool`, `Xd → double` (but not `Xb → int`: an explicit conversion function is
    a candidate for its own target type only) — and the same programs with an *implicit* conversion are accepted. -/
example : onlyExplicit .enumE .int = true ∧ onlyExplicit .enumE .bool = true ∧ onlyExplicit .enumE .double = true
    ∧ onlyExplicit .long .enumE = true ∧ onlyExplicit .clsXb .bool = true ∧ onlyExplicit .clsXd .double = true
    ∧ onlyExplicit .clsXb .int = false ∧ onlyExplicit .int .long = false
    ∧ retOk (some ⟨.enumE, .val⟩) (some ⟨.int, .val⟩) = false
    ∧ retOk (some ⟨.clsXb, .cref⟩) (some ⟨.bool, .val⟩) = false
    ∧ retOk (some ⟨.double, .val⟩) (some ⟨.int, .val⟩) = true
    ∧ retOk (some ⟨.ptrA, .val⟩) (some ⟨.bool, .val⟩) = true := by decide

/-- **C05.explicit_only_type_result_rejected_for_arithmetic** — for **every** arithmetic signature result type
    (`int`, `long`, `double`, `bool`; declared by value or as any reference) a functor returning a scoped
    enumeration, a class with `explicit operator bool()` or a class with `explicit operator double()` (by value or
    by reference) is rejected. -/
theorem explicit_only_type_result_rejected_for_arithmetic (f s : Param)
    (hs : s.base.isArith = true) (hf : f.base.isExplicitOnly = true) :
    retOk (some f) (some s) = false := by
  apply retOk_false_cases
  refine Or.inr (Or.inr ⟨s, f, rfl, rfl, ?_⟩)
  exact conv_false_arith_of_isExplicitOnly hf hs

example : Base.isArith .bool = true ∧ Base.isExplicitOnly .clsXb = true ∧ Base.isExplicitOnly .enumE = true
    ∧ Base.isExplicitOnly .int = false := by decide

/-- … and so is the connection, on **every route** (`slot<Sig> s = f`, `signal<Sig>::connect`,
    `signal<Sig>::accumulated<Acc>::connect`, `signal_connect`) and under **every adaptor hop** (`hide`, `bind`,
    `retype` — `retype` casts the *arguments*, never the result). -/
theorem explicit_only_result_connection_rejected (r : Route) (sig : Sig) (ad : Adaptor) (fn : Fn) (f s : Param)
    (hfr : fn.ret = some f) (hsr : sig.ret = some s)
    (h : onlyExplicit f.base s.base = true ∨ (s.base.isArith = true ∧ f.base.isExplicitOnly = true)) :
    acceptsRoute r sig ad fn = false := by
  cases hacc : acceptsRoute r sig ad fn
  · rfl
  · have hr := acceptsRoute_retOk r sig ad fn hacc
    rw [hfr, hsr] at hr
    rcases h with h | ⟨h1, h2⟩
    · rw [explicit_only_result_rejected f s h] at hr
      cases hr
    · rw [explicit_only_type_result_rejected_for_arithmetic f s h1 h2] at hr
      cases hr

/-- non-vacuity, one per route / wrapper: `Level f()` into `slot<int()>`, `signal<bool()>::connect`,
    `signal<int()>::accumulated<Acc>::connect`, through `bind` and `hide`, a const method returning the enumeration
    into `signal<long()>`; and the positive controls: the same type is accepted, an arithmetic result is accepted. -/
example :
    acceptsRoute .slotInit ⟨[], some ⟨.int, .val⟩⟩ .none ⟨.ptrFun, [], some ⟨.enumE, .val⟩⟩ = false
    ∧ acceptsRoute .connect ⟨[], some ⟨.bool, .val⟩⟩ .none ⟨.freeFn, [], some ⟨.clsXb, .val⟩⟩ = false
    ∧ acceptsRoute .connectAccum ⟨[], some ⟨.int, .val⟩⟩ .none ⟨.freeFn, [], some ⟨.enumE, .val⟩⟩ = false
    ∧ acceptsRoute .slotInit ⟨[], some ⟨.double, .val⟩⟩ (.bind none [.int])
        ⟨.memFun false .none, [⟨.int, .val⟩], some ⟨.clsXd, .val⟩⟩ = false
    ∧ acceptsRoute .connect ⟨[⟨.int, .val⟩], some ⟨.long, .val⟩⟩ (.hide none)
        ⟨.memFun false .const, [], some ⟨.enumE, .val⟩⟩ = false
    ∧ acceptsRoute .slotInit ⟨[], some ⟨.enumE, .val⟩⟩ .none ⟨.ptrFun, [], some ⟨.enumE, .val⟩⟩ = true
    ∧ acceptsRoute .connectAccum ⟨[], some ⟨.clsXb, .val⟩⟩ .none ⟨.freeFn, [], some ⟨.clsXb, .cref⟩⟩ = true
    ∧ acceptsRoute .slotInit ⟨[], some ⟨.double, .val⟩⟩ (.bind none [.int])
        ⟨.memFun false .none, [⟨.int, .val⟩], some ⟨.long, .val⟩⟩ = true
    ∧ acceptsRoute .connectAccum ⟨[], some ⟨.int, .val⟩⟩ .none ⟨.freeFn, [], some ⟨.double, .val⟩⟩ = true := by
  decide

/-- the same type is always returnable: the explicit-only types are not banned, only their conversions are -/
theorem same_result_type_returnable (r : Ret) : retOk r r = true := retOk_self r

example : retOk (some ⟨.enumE, .val⟩) (some ⟨.enumE, .val⟩) = true
    ∧ retOk (some ⟨.clsXb, .lref⟩) (some ⟨.clsXb, .val⟩) = true := by decide

/-- **callable with standard implicit conversions ⇒ accepted**: equal arity; every functor parameter is taken by
    value or by const reference and the signature's object type converts to it (however the signature declares its
    parameter: `U`, `U&`, `const U&`, `U&&`); the functor object exists; the result is `void` for `void`, or converts
    to the signature's value result. -/
theorem convertible_accepted (sig : Sig) (fn : Fn)
    (hl : fn.params.length = sig.params.length)
    (hp : ∀ (i : Nat) (h1 : i < fn.params.length) (h2 : i < sig.params.length),
        (fn.params[i].shape = .val ∨ fn.params[i].shape = .cref) ∧
          conv sig.params[i].base fn.params[i].base = true)
    (ho : fn.kind.objOk = true)
    (hr : (sig.ret = none ∧ fn.ret = none) ∨
        (∃ b f, sig.ret = some ⟨b, .val⟩ ∧ fn.ret = some f ∧ conv f.base b = true)) :
    accepts sig .none fn = true := by
  refine (accepts_iff sig fn).2 ⟨hl, ?_, ho, ?_⟩
  · intro i h1 h2
    obtain ⟨hs, hc⟩ := hp i h1 h2
    rw [val_binds _ _ hs]
    rw [passed_base]
    exact hc
  · rcases hr with ⟨hs, hf⟩ | ⟨b, f, hs, hf, hc⟩
    · rw [hs, hf]; rfl
    · rw [hs, hf]
      simp only [retOk, binds, retExpr_base]
      exact hc

example : accepts ⟨[⟨.int, .rref⟩, ⟨.clsB, .lref⟩, ⟨.ptrB, .cref⟩], some ⟨.double, .val⟩⟩ .none
    ⟨.fobj, [⟨.double, .val⟩, ⟨.clsA, .cref⟩, ⟨.cptrA, .val⟩], some ⟨.bool, .cref⟩⟩ = true := by decide

/-- reference-preserving acceptance: a functor whose declared signature is literally the signal's is accepted
    (every shape, every arity) — in particular `T&` and `T&&` parameters are reachable -/
theorem identical_signature_accepted (ps : List Param) (r : Ret) (k : Kind) (ho : k.objOk = true) :
    accepts ⟨ps, r⟩ .none ⟨k, ps, r⟩ = true := by
  simp [accepts, adaptArgs, invokeOk_eq, ho, bindsAll_self, retOk_self]

/-! ## `signal_connect` -/

/-- `signal_connect(sig, f)` is accepted exactly on identical signatures (and the existing overloads): the typed call
    inside `call_it` can then never fail, so exactness is the whole condition. -/
theorem signal_connect_iff (sig : Sig) (ad : Adaptor) (fn : Fn) :
    acceptsRoute .signalConnect sig ad fn = true ↔ ad = .none ∧ sigConnExact sig fn = true := by
  simp only [acceptsRoute, Bool.and_eq_true, beq_iff_eq]
  constructor
  · rintro ⟨⟨h1, h2⟩, _⟩
    exact ⟨h1, h2⟩
  · rintro ⟨h1, h2⟩
    refine ⟨⟨h1, h2⟩, ?_⟩
    obtain ⟨sp, sr⟩ := sig
    obtain ⟨k, fp, fr⟩ := fn
    simp only [sigConnExact, Bool.and_eq_true, beq_iff_eq] at h2
    obtain ⟨⟨hk, hp⟩, hr⟩ := h2
    subst hp hr
    apply identical_signature_accepted
    cases k with
    | memFun oc mq =>
      cases mq <;> cases oc <;> first | rfl | (exfalso; revert hk; decide)
    | _ => rfl

example : acceptsRoute .signalConnect ⟨[⟨.int, .val⟩], none⟩ .none ⟨.freeFn, [⟨.long, .val⟩], none⟩ = false
    ∧ acceptsRoute .signalConnect ⟨[⟨.int, .val⟩], none⟩ .none ⟨.freeFn, [⟨.int, .val⟩], none⟩ = true := by decide

/-! ## One adaptor hop -/

/-- `hide<I>(f)` under a signature: every forwarded element must survive the tuple rebuild (no rvalue reference) and
    is seen by `f` as the stored lvalue; the hidden element may be anything when it is first or last, but is rebuilt
    as well (hence must not be an rvalue reference) in a middle position; then `f` is judged as above. -/
theorem accepts_hide_iff (sig : Sig) (i : Nat) (fn : Fn) (hi : i < sig.params.length) :
    accepts sig (.hide (some i)) fn = true ↔
      (hiddenRebuilt i sig.params.length = true → sig.params[i].shape ≠ .rref) ∧
      (∀ a ∈ sig.params.take i ++ sig.params.drop (i + 1), a.shape ≠ .rref) ∧
      bindsAll fn.params ((sig.params.take i ++ sig.params.drop (i + 1)).map stored) = true ∧
      fn.kind.objOk = true ∧ retOk fn.ret sig.ret = true := by
  have hn : (sig.params.length == 0) = false := by
    cases h : sig.params.length with
    | zero => omega
    | succ n => rfl
  have hge : ¬ (i ≥ sig.params.length) := by omega
  have hget : sig.params[i]? = some sig.params[i] := List.getElem?_eq_getElem hi
  simp only [accepts, adaptArgs, hn, Option.getD_some, hge, if_false, Bool.false_eq_true, hget, Option.map_some]
  by_cases hbad : (hiddenRebuilt i sig.params.length && sig.params[i].shape == .rref) = true
  · simp only [hbad, if_true]
    simp only [Bool.and_eq_true, beq_iff_eq] at hbad
    constructor
    · intro hf
      cases hf
    · rintro ⟨h1, _⟩
      exact absurd hbad.2 (h1 hbad.1)
  · simp only [hbad, if_false, Bool.false_eq_true]
    have hgood : hiddenRebuilt i sig.params.length = true → sig.params[i].shape ≠ .rref := by
      intro h1 h2
      apply hbad
      simp [h1, h2]
    cases h : tupleElems (sig.params.take i ++ sig.params.drop (i + 1)) with
    | none =>
      have : ¬ ∀ a ∈ sig.params.take i ++ sig.params.drop (i + 1), a.shape ≠ .rref := fun hall => by
        have := (tupleElems_iff _ _).2 ⟨hall, rfl⟩
        rw [h] at this
        cases this
      constructor
      · intro hf
        cases hf
      · rintro ⟨_, hall, _⟩
        exact absurd hall this
    | some es =>
      obtain ⟨hall, hes⟩ := (tupleElems_iff _ _).1 h
      subst hes
      simp only [invokeOk_eq, Bool.and_eq_true]
      constructor
      · rintro ⟨⟨ho, hb⟩, hr⟩
        exact ⟨hgood, hall, hb, ho, hr⟩
      · rintro ⟨_, _, hb, ho, hr⟩
        exact ⟨⟨ho, hb⟩, hr⟩

example : accepts ⟨[⟨.int, .lref⟩, ⟨.clsA, .rref⟩], none⟩ (.hide (some 1)) ⟨.lambda, [⟨.int, .lref⟩], none⟩ = true
    ∧ accepts ⟨[⟨.clsA, .rref⟩, ⟨.int, .val⟩], none⟩ (.hide (some 1)) ⟨.lambda, [⟨.clsA, .rref⟩], none⟩ = false
    ∧ accepts ⟨[⟨.int, .val⟩, ⟨.clsA, .rref⟩, ⟨.int, .val⟩], none⟩ (.hide (some 1))
        ⟨.lambda, [⟨.int, .val⟩, ⟨.int, .val⟩], none⟩ = false := by
  decide

/-- `bind(f, b...)` (append): no signature element may be an rvalue reference; `f` sees the stored lvalues followed by
    modifiable lvalues of the bound types. -/
theorem accepts_bind_last_iff (sig : Sig) (bound : List Base) (fn : Fn) :
    accepts sig (.bind none bound) fn = true ↔
      (∀ a ∈ sig.params, a.shape ≠ .rref) ∧
      bindsAll fn.params (sig.params.map stored ++ bound.map boundExpr) = true ∧
      fn.kind.objOk = true ∧ retOk fn.ret sig.ret = true := by
  simp only [accepts, adaptArgs, Option.getD_none, Nat.lt_irrefl, gt_iff_lt, if_false]
  cases h : tupleElems sig.params with
  | none =>
    have : ¬ ∀ a ∈ sig.params, a.shape ≠ .rref := fun hall => by
      have := (tupleElems_iff _ _).2 ⟨hall, rfl⟩
      rw [h] at this
      cases this
    constructor
    · intro hf
      cases hf
    · rintro ⟨hall, _⟩
      exact absurd hall this
  | some es =>
    obtain ⟨hall, hes⟩ := (tupleElems_iff _ _).1 h
    subst hes
    have hlen : (sig.params.map stored).length = sig.params.length := by simp
    simp only [Option.map_some, invokeOk_eq, Bool.and_eq_true, ← hlen, List.take_length, List.drop_length,
      List.append_nil]
    constructor
    · rintro ⟨⟨ho, hb⟩, hr⟩
      exact ⟨hall, hb, ho, hr⟩
    · rintro ⟨_, hb, ho, hr⟩
      exact ⟨⟨ho, hb⟩, hr⟩

example : accepts ⟨[⟨.int, .lref⟩], none⟩ (.bind none [.long]) ⟨.freeFn, [⟨.int, .lref⟩, ⟨.long, .lref⟩], none⟩ = true
    ∧ accepts ⟨[⟨.int, .lref⟩], none⟩ (.bind none [.long]) ⟨.freeFn, [⟨.int, .lref⟩, ⟨.long, .rref⟩], none⟩ = false := by
  decide

/-- `bind<I>(f, b...)` (positional): `I` must not exceed the number of signature parameters, no signature element may
    be an rvalue reference, and `f` sees the first `I` stored lvalues, then modifiable lvalues of the bound types, then
    the remaining stored lvalues — each forwarded argument with the const-ness its signature parameter gives it. -/
theorem accepts_bind_at_iff (sig : Sig) (i : Nat) (bound : List Base) (fn : Fn) :
    accepts sig (.bind (some i) bound) fn = true ↔
      i ≤ sig.params.length ∧ (∀ a ∈ sig.params, a.shape ≠ .rref) ∧
      bindsAll fn.params
        ((sig.params.take i).map stored ++ bound.map boundExpr ++ (sig.params.drop i).map stored) = true ∧
      fn.kind.objOk = true ∧ retOk fn.ret sig.ret = true := by
  simp only [accepts, adaptArgs, Option.getD_some, gt_iff_lt]
  by_cases hi : sig.params.length < i
  · simp only [hi, if_true]
    constructor
    · intro hf
      cases hf
    · rintro ⟨hle, _⟩
      omega
  · simp only [hi, if_false]
    cases h : tupleElems sig.params with
    | none =>
      have : ¬ ∀ a ∈ sig.params, a.shape ≠ .rref := fun hall => by
        have := (tupleElems_iff _ _).2 ⟨hall, rfl⟩
        rw [h] at this
        cases this
      constructor
      · intro hf
        cases hf
      · rintro ⟨_, hall, _⟩
        exact absurd hall this
    | some es =>
      obtain ⟨hall, hes⟩ := (tupleElems_iff _ _).1 h
      subst hes
      simp only [Option.map_some, invokeOk_eq, Bool.and_eq_true, ← List.map_take, ← List.map_drop]
      constructor
      · rintro ⟨⟨ho, hb⟩, hr⟩
        exact ⟨by omega, hall, hb, ho, hr⟩
      · rintro ⟨_, _, hb, ho, hr⟩
        exact ⟨⟨ho, hb⟩, hr⟩

/-- a stored tuple element of a signature parameter declared by value or `const&` is a *const* lvalue -/
theorem stored_const_of_not_lref (a : Param) (hs : a.shape ≠ .lref) (hr : a.shape ≠ .rref) :
    (stored a).const = true := by
  cases a with
  | mk b sh => cases sh <;> simp_all [stored, take]

/-- **positional bind does not launder const-ness** (the statement's "a non-const reference parameter that would
    bind to a value or const argument … is a compile error", *through* `bind<I>`): if `f`'s parameter at a forwarded
    position `j < I` is a non-const reference while the signature declares that parameter by value or `const&`,
    `bind<I>(f, b...)` is rejected. -/
theorem bind_at_nonconst_ref_from_value_or_const_rejected (sig : Sig) (i j : Nat) (bound : List Base) (fn : Fn)
    (hj : j < i) (h1 : j < fn.params.length) (h2 : j < sig.params.length)
    (hf : fn.params[j].shape = .lref) (hs : sig.params[j].shape ≠ .lref) :
    accepts sig (.bind (some i) bound) fn = false := by
  cases hacc : accepts sig (.bind (some i) bound) fn
  · rfl
  · obtain ⟨hle, hall, hb, _, _⟩ := (accepts_bind_at_iff sig i bound fn).1 hacc
    obtain ⟨hlen, hall2⟩ := (bindsAll_iff _ _).1 hb
    have hjt : j < ((sig.params.take i).map stored).length := by simp; omega
    have h3 : j < ((sig.params.take i).map stored ++ bound.map boundExpr ++ (sig.params.drop i).map stored).length := by
      simp only [List.length_append]; omega
    have hbj := hall2 j h1 h3
    have hel : ((sig.params.take i).map stored ++ bound.map boundExpr ++ (sig.params.drop i).map stored)[j] =
        stored sig.params[j] := by
      simp only [List.append_assoc]
      rw [List.getElem_append_left hjt]
      simp
    rw [hel] at hbj
    have hc := stored_const_of_not_lref sig.params[j] hs (hall _ (List.getElem_mem h2))
    have hnc := (lref_binds hf hbj)
    simp_all

/-- the same behind the bound values: signature position `j ≥ I` faces `f`'s parameter `j + (number of bound values)` -/
theorem bind_at_nonconst_ref_after_bound_rejected (sig : Sig) (i j : Nat) (bound : List Base) (fn : Fn)
    (hj : i ≤ j) (h1 : j + bound.length < fn.params.length) (h2 : j < sig.params.length)
    (hf : fn.params[j + bound.length].shape = .lref) (hs : sig.params[j].shape ≠ .lref) :
    accepts sig (.bind (some i) bound) fn = false := by
  cases hacc : accepts sig (.bind (some i) bound) fn
  · rfl
  · obtain ⟨hle, hall, hb, _, _⟩ := (accepts_bind_at_iff sig i bound fn).1 hacc
    obtain ⟨hlen, hall2⟩ := (bindsAll_iff _ _).1 hb
    have hl1 : ((sig.params.take i).map stored ++ bound.map boundExpr).length = i + bound.length := by
      simp; omega
    have h3 : j + bound.length <
        ((sig.params.take i).map stored ++ bound.map boundExpr ++ (sig.params.drop i).map stored).length := by
      simp only [List.length_append, List.length_map, List.length_take, List.length_drop]; omega
    have hbj := hall2 (j + bound.length) h1 h3
    have hel : ((sig.params.take i).map stored ++ bound.map boundExpr ++ (sig.params.drop i).map stored)[j + bound.length] =
        stored sig.params[j] := by
      rw [List.getElem_append_right (by omega)]
      simp only [hl1, List.getElem_map, List.getElem_drop]
      congr 2
      omega
    rw [hel] at hbj
    have hc := stored_const_of_not_lref sig.params[j] hs (hall _ (List.getElem_mem h2))
    have hnc := (lref_binds hf hbj)
    simp_all

example : accepts ⟨[⟨.int, .val⟩], none⟩ (.bind (some 0) [.long]) ⟨.freeFn, [⟨.long, .val⟩, ⟨.int, .lref⟩], none⟩ = false
    ∧ accepts ⟨[⟨.int, .val⟩, ⟨.int, .val⟩], none⟩ (.bind (some 1) [.long])
        ⟨.freeFn, [⟨.int, .lref⟩, ⟨.long, .val⟩, ⟨.int, .val⟩], none⟩ = false
    ∧ accepts ⟨[⟨.int, .lref⟩, ⟨.int, .val⟩], none⟩ (.bind (some 1) [.long])
        ⟨.freeFn, [⟨.int, .lref⟩, ⟨.long, .val⟩, ⟨.int, .cref⟩], none⟩ = true := by
  decide

/-- `retype(f)` (f a sigc functor with declared parameter types): accepted iff the arities agree, every passed
    expression can be `static_cast` to the declared parameter type, and the result converts — binding the cast
    results can then not fail. -/
theorem accepts_retype_iff (sig : Sig) (fn : Fn) (hw : fn.kind.wrapped = true) :
    accepts sig .retype fn = true ↔
      fn.params.length = sig.params.length ∧
      (∀ (i : Nat) (h1 : i < fn.params.length) (h2 : i < sig.params.length),
          castOk fn.params[i] (passed sig.params[i]) = true) ∧
      fn.kind.objOk = true ∧ retOk fn.ret sig.ret = true := by
  simp only [accepts, adaptArgs, hw, if_true]
  cases h : castAll fn.params (sig.params.map passed) with
  | none =>
    simp only [Bool.false_eq_true, false_iff, not_and]
    intro hl hall
    have := (castAll_iff fn.params (sig.params.map passed) _).2
      ⟨by simpa using hl, fun i h1 h2 => by
        have := hall i h1 (by simpa using h2)
        simpa using this, rfl⟩
    rw [h] at this
    cases this
  | some rs =>
    obtain ⟨hl, hall, hrs⟩ := (castAll_iff _ _ _).1 h
    subst hrs
    simp only [invokeOk_eq, bindsAll_castExpr, Bool.and_true, Bool.and_eq_true]
    constructor
    · rintro ⟨ho, hr⟩
      refine ⟨by simpa using hl, ?_, ho, hr⟩
      intro i h1 h2
      have := hall i h1 (by simpa using h2)
      simpa using this
    · rintro ⟨_, _, ho, hr⟩
      exact ⟨ho, hr⟩

example : accepts ⟨[⟨.clsA, .lref⟩], none⟩ .retype ⟨.ptrFun, [⟨.clsB, .lref⟩], none⟩ = true
    ∧ accepts ⟨[⟨.clsA, .val⟩], none⟩ .retype ⟨.ptrFun, [⟨.clsB, .lref⟩], none⟩ = false
    ∧ accepts ⟨[⟨.clsA, .lref⟩], none⟩ .none ⟨.ptrFun, [⟨.clsB, .lref⟩], none⟩ = false := by decide

/-- `retype` is the one place where an explicit-only conversion is *meant* to be performed (`static_cast<P>` on each
    argument): a scoped-enumeration signature parameter reaches an `int` parameter through it and not without it; the
    result is not cast, so an explicit-only result stays rejected under `retype`. -/
example : accepts ⟨[⟨.enumE, .val⟩], none⟩ .retype ⟨.ptrFun, [⟨.int, .val⟩], none⟩ = true
    ∧ accepts ⟨[⟨.enumE, .val⟩], none⟩ .none ⟨.ptrFun, [⟨.int, .val⟩], none⟩ = false
    ∧ accepts ⟨[⟨.enumE, .val⟩], none⟩ .retype ⟨.ptrFun, [⟨.int, .cref⟩], none⟩ = false
    ∧ accepts ⟨[⟨.clsXb, .val⟩], none⟩ .retype ⟨.ptrFun, [⟨.bool, .val⟩], none⟩ = true
    ∧ accepts ⟨[⟨.clsXb, .val⟩], none⟩ .retype ⟨.ptrFun, [⟨.int, .val⟩], none⟩ = false
    ∧ accepts ⟨[⟨.int, .val⟩], some ⟨.int, .val⟩⟩ .retype ⟨.ptrFun, [⟨.enumE, .val⟩], some ⟨.enumE, .val⟩⟩ = false := by
  decide

/-! ## The connect entry points

  `signal<>`, `signal<>::accumulated<>`, `trackable_signal<>`, `trackable_signal<>::accumulated<>` ×
  `connect`, `connect_first` × `(const slot_type&)`, `(slot_type&&)`: sixteen declared members (`entryDecl`, the
  table read off signal.h).  Their bodies hand the argument to `signal_base`, which stores any `slot_base`
  unchecked — so the declared parameter type is the type check.  The theorems say that it is the *same* check at
  all sixteen: what is not already a `slot_type` must pass `slot_type`'s converting constructor; in particular a
  slot **object** of another slot type `slot<U>` is judged like any functor with `U`'s signature, whether it is
  written as an lvalue, a const lvalue or an rvalue. -/

/-- the table as it is: every entry point takes `slot_type` (never the untyped base `slot_base`), by `const&` or
    `&&` as its overload says -/
theorem entry_table_slot_type (ep : EntryPoint) :
    (entryDecl ep).ty = .slotType ∧
      (entryDecl ep).shape = (match ep.ov with | .constRef => .cref | .rvalueRef => .rref) := by
  rw [entryDecl_eq]
  exact ⟨rfl, rfl⟩

/-- `allEntryPoints` lists every entry point; there are sixteen -/
theorem allEntryPoints_complete (ep : EntryPoint) : ep ∈ allEntryPoints := by
  obtain ⟨⟨c, a, f⟩, o⟩ := ep
  cases c <;> cases a <;> cases f <;> cases o <;> decide

example : allEntryPoints.length = 16 := by decide

/-- an argument is recognised as a slot object only when it is one: no adaptor, kind `slotObj` -/
theorem argSlotSig_some {ad : Adaptor} {fn : Fn} {u : Sig} {form : ArgForm}
    (h : argSlotSig ad fn = some (u, form)) : ad = .none ∧ fn = slotArg u form := by
  obtain ⟨k, ps, r⟩ := fn
  cases ad <;> cases k <;> simp [argSlotSig] at h
  obtain ⟨hu, hf⟩ := h
  subst hu hf
  exact ⟨rfl, rfl⟩

/-- **C05.entry_points_agree** (all signatures, all arities, all functor kinds and adaptor hops) — every one of the
    sixteen entry points accepts exactly what `slot_type`'s constructors accept (`slot<Sig> s = x;`), for every
    argument that is not already an object of the signal's own `slot_type` (that one binds directly, see
    `same_slot_type_entry`). -/
theorem entry_points_agree (ep : EntryPoint) (sig : Sig) (ad : Adaptor) (fn : Fn)
    (h : ∀ form, argSlotSig ad fn ≠ some (sig, form)) :
    entryAccepts ep sig ad fn = acceptsRoute .slotInit sig ad fn := by
  have ht := refBindsTemp_entry ep
  have hty : (entryDecl ep).ty = .slotType := by rw [entryDecl_eq]
  unfold entryAccepts
  simp only [acceptsRoute, hty, ht, Bool.and_true]
  cases hs : argSlotSig ad fn with
  | none => rfl
  | some uf =>
    obtain ⟨u, form⟩ := uf
    have hne : (u == sig) = false := by
      cases hb : u == sig
      · rfl
      · exact absurd (by rw [hs, eq_of_beq hb]) (h form)
    simp only [hne]
    rfl

/-- hence any two entry points agree with each other on every such argument -/
theorem entry_points_agree_pairwise (ep ep' : EntryPoint) (sig : Sig) (ad : Adaptor) (fn : Fn)
    (h : ∀ form, argSlotSig ad fn ≠ some (sig, form)) :
    entryAccepts ep sig ad fn = entryAccepts ep' sig ad fn := by
  rw [entry_points_agree ep sig ad fn h, entry_points_agree ep' sig ad fn h]

/-- non-vacuity: a functor, an adaptor and slot objects of other slot types at `trackable_signal::connect_first(const
    slot_type&)` and at `signal::accumulated::connect(slot_type&&)`; the hypothesis holds, both verdicts occur -/
example :
    (∀ form, argSlotSig .none (slotArg ⟨[⟨.long, .val⟩], none⟩ .lvalue) ≠ some (⟨[⟨.int, .val⟩], none⟩, form))
    ∧ entryAccepts ⟨⟨.trackable, false, .connectFirst⟩, .constRef⟩ ⟨[⟨.int, .val⟩], none⟩ .none
        (slotArg ⟨[⟨.long, .val⟩], none⟩ .lvalue) = true
    ∧ entryAccepts ⟨⟨.trackable, false, .connectFirst⟩, .constRef⟩ ⟨[⟨.int, .val⟩], none⟩ .none
        (slotArg ⟨[⟨.ptrA, .val⟩], none⟩ .lvalue) = false
    ∧ entryAccepts ⟨⟨.signal, true, .connect⟩, .rvalueRef⟩ ⟨[⟨.int, .val⟩], none⟩ .none
        (slotArg ⟨[⟨.int, .lref⟩], none⟩ .rvalue) = false
    ∧ entryAccepts ⟨⟨.signal, true, .connect⟩, .rvalueRef⟩ ⟨[⟨.int, .val⟩], some ⟨.long, .val⟩⟩ (.hide none)
        ⟨.lambda, [], some ⟨.int, .val⟩⟩ = true
    ∧ entryAccepts ⟨⟨.trackable, true, .connectFirst⟩, .rvalueRef⟩ ⟨[⟨.int, .val⟩], some ⟨.int, .val⟩⟩ .none
        ⟨.freeFn, [⟨.int, .val⟩], some ⟨.enumE, .val⟩⟩ = false := by
  refine ⟨?_, by decide, by decide, by decide, by decide, by decide⟩
  intro form
  cases form <;> decide

/-- a slot object as a functor: `slot<U>` is accepted by `slot<Sig>`'s constructor exactly like a function object
    with a const `operator()` of `U`'s declared signature — however the object is written, directly and under `hide` /
    `bind` (`retype` has an overload of its own for slots and none for arbitrary function objects) -/
theorem slot_object_as_functor (sig u : Sig) (form : ArgForm) (ad : Adaptor) (had : ad ≠ .retype) :
    accepts sig ad (slotArg u form) = accepts sig ad ⟨.fobjConst, u.params, u.ret⟩ := by
  have h : adaptArgs ad (slotArg u form) sig.params = adaptArgs ad ⟨.fobjConst, u.params, u.ret⟩ sig.params := by
    cases ad with
    | retype => exact absurd rfl had
    | _ => rfl
  simp only [accepts, h]
  cases adaptArgs ad ⟨.fobjConst, u.params, u.ret⟩ sig.params with
  | none => rfl
  | some args =>
    simp only [slotArg]
    rw [invokeOk_slotObj form u.params u.ret u.ret args]

/-- **slot object into entry point** — a slot object of **another** slot type `slot<U>` (`U ≠ Sig`), written as an
    lvalue, a const lvalue or an rvalue, is accepted by any of the sixteen entry points exactly when a functor with
    `U`'s signature is accepted by `slot<Sig>`. -/
theorem slot_object_entry_points_agree (ep : EntryPoint) (sig u : Sig) (form : ArgForm) (h : u ≠ sig) :
    entryAccepts ep sig .none (slotArg u form) = accepts sig .none ⟨.fobjConst, u.params, u.ret⟩ := by
  rw [entry_points_agree ep sig .none (slotArg u form)]
  · exact slot_object_as_functor sig u form .none (by decide)
  · intro form' he
    simp only [argSlotSig, slotArg, Option.some.injEq, Prod.mk.injEq] at he
    exact h he.1

/-- … i.e. (all arities) exactly when the arities agree, every parameter of `U` binds what the signal passes at that
    position and `U`'s result can be returned as the signal's result. -/
theorem slot_object_entry_iff (ep : EntryPoint) (sig u : Sig) (form : ArgForm) (h : u ≠ sig) :
    entryAccepts ep sig .none (slotArg u form) = true ↔
      u.params.length = sig.params.length ∧
      (∀ (i : Nat) (h1 : i < u.params.length) (h2 : i < sig.params.length),
          binds u.params[i] (passed sig.params[i]) = true) ∧
      retOk u.ret sig.ret = true := by
  rw [slot_object_entry_points_agree ep sig u form h, accepts_iff]
  simp [Kind.objOk]

/-- lvalue, const lvalue, rvalue: alike -/
theorem slot_object_forms_alike (ep ep' : EntryPoint) (sig u : Sig) (form form' : ArgForm) (h : u ≠ sig) :
    entryAccepts ep sig .none (slotArg u form) = entryAccepts ep' sig .none (slotArg u form') := by
  rw [slot_object_entry_points_agree ep sig u form h, slot_object_entry_points_agree ep' sig u form' h]

/-- non-vacuity: `slot<long(long, const A&)>` into `signal<int(int, B&)>` (conversions at a parameter, a base class
    reference and the result) is accepted at `trackable_signal::accumulated::connect_first(const slot_type&)`;
    `slot<void(int&)>` into `signal<void(int)>` is not; the two signatures differ -/
example :
    (⟨[⟨.long, .val⟩, ⟨.clsA, .cref⟩], some ⟨.long, .val⟩⟩ : Sig) ≠ ⟨[⟨.int, .val⟩, ⟨.clsB, .lref⟩], some ⟨.int, .val⟩⟩
    ∧ entryAccepts ⟨⟨.trackable, true, .connectFirst⟩, .constRef⟩
        ⟨[⟨.int, .val⟩, ⟨.clsB, .lref⟩], some ⟨.int, .val⟩⟩ .none
        (slotArg ⟨[⟨.long, .val⟩, ⟨.clsA, .cref⟩], some ⟨.long, .val⟩⟩ .constLvalue) = true
    ∧ entryAccepts ⟨⟨.trackable, true, .connectFirst⟩, .constRef⟩ ⟨[⟨.int, .val⟩], none⟩ .none
        (slotArg ⟨[⟨.int, .lref⟩], none⟩ .lvalue) = false := by decide

/-- an object of the signal's **own** `slot_type` is not converted: the reference parameter binds it directly —
    `const slot_type&` always, `slot_type&&` an rvalue only -/
theorem same_slot_type_entry (ep : EntryPoint) (sig : Sig) (form : ArgForm) :
    entryAccepts ep sig .none (slotArg sig form) = (ep.ov == .constRef || form == .rvalue) := by
  obtain ⟨ps, r⟩ := sig
  simp only [entryAccepts, entryDecl_eq, argSlotSig, slotArg, beq_self_eq_true, if_true]
  cases ep.ov <;> cases form <;> rfl

example : entryAccepts ⟨⟨.signal, false, .connect⟩, .rvalueRef⟩ ⟨[⟨.int, .val⟩], none⟩ .none
      (slotArg ⟨[⟨.int, .val⟩], none⟩ .lvalue) = false
    ∧ entryAccepts ⟨⟨.signal, false, .connect⟩, .rvalueRef⟩ ⟨[⟨.int, .val⟩], none⟩ .none
      (slotArg ⟨[⟨.int, .val⟩], none⟩ .rvalue) = true
    ∧ entryAccepts ⟨⟨.signal, false, .connect⟩, .constRef⟩ ⟨[⟨.int, .val⟩], none⟩ .none
      (slotArg ⟨[⟨.int, .val⟩], none⟩ .lvalue) = true := by decide

/-- **nothing enters the list unchecked**: whatever any of the sixteen entry points accepts — functor, adaptor, slot
    object of any slot type, in any form — is accepted by `slot_type`'s own type check (`accepts`), hence satisfies
    every `…_rejected` theorem above read contrapositively. -/
theorem entry_accepts_sound (ep : EntryPoint) (sig : Sig) (ad : Adaptor) (fn : Fn)
    (h : entryAccepts ep sig ad fn = true) : accepts sig ad fn = true := by
  by_cases hs : ∃ form, argSlotSig ad fn = some (sig, form)
  · obtain ⟨form, hs⟩ := hs
    obtain ⟨had, hfn⟩ := argSlotSig_some hs
    subst had hfn
    obtain ⟨ps, r⟩ := sig
    exact identical_signature_accepted ps r (.slotObj form) rfl
  · have hs' : ∀ form, argSlotSig ad fn ≠ some (sig, form) := fun form he => hs ⟨form, he⟩
    rw [entry_points_agree ep sig ad fn hs'] at h
    exact h

/-- the call expression `sig.connect(x)` / `sig.connect_first(x)` (overload resolution over the pair) is well-formed
    exactly when `slot<Sig> s = x;` is — for every argument, every signal class, every arity -/
theorem call_accepts_iff (c : CallFamily) (sig : Sig) (ad : Adaptor) (fn : Fn) :
    callAccepts c sig ad fn = accepts sig ad fn := by
  by_cases hs : ∃ form, argSlotSig ad fn = some (sig, form)
  · obtain ⟨form, hs⟩ := hs
    obtain ⟨had, hfn⟩ := argSlotSig_some hs
    subst had hfn
    have h1 : accepts sig .none (slotArg sig form) = true := by
      obtain ⟨ps, r⟩ := sig
      exact identical_signature_accepted ps r (.slotObj form) rfl
    simp [callAccepts, same_slot_type_entry, h1]
  · have hs' : ∀ form, argSlotSig ad fn ≠ some (sig, form) := fun form he => hs ⟨form, he⟩
    simp [callAccepts, entry_points_agree _ sig ad fn hs', acceptsRoute]

/-- **an incompatible slot object is rejected at every entry point and by every call expression**, in every form: if
    a functor with `U`'s signature is not acceptable for `Sig` (wrong arity, non-convertible parameter, non-const
    reference from a value, incompatible / explicit-only result …), `slot<U>` does not get into a `signal<Sig>`. -/
theorem incompatible_slot_object_rejected (sig u : Sig) (form : ArgForm)
    (h : accepts sig .none ⟨.fobjConst, u.params, u.ret⟩ = false) :
    (∀ ep, entryAccepts ep sig .none (slotArg u form) = false) ∧
      (∀ c, callAccepts c sig .none (slotArg u form) = false) := by
  have h' : accepts sig .none (slotArg u form) = false := by
    rw [slot_object_as_functor sig u form .none (by decide)]; exact h
  refine ⟨fun ep => ?_, fun c => by rw [call_accepts_iff]; exact h'⟩
  cases he : entryAccepts ep sig .none (slotArg u form)
  · rfl
  · rw [entry_accepts_sound ep sig .none _ he] at h'
    cases h'

/-- non-vacuity, one per defect flavour (`signal<int(int)>` / `signal<void(int)>`): wrong arity, non-convertible
    parameter, non-const reference from a value, incompatible result, explicit-only result -/
example :
    accepts ⟨[⟨.int, .val⟩], none⟩ .none ⟨.fobjConst, [], none⟩ = false
    ∧ accepts ⟨[⟨.int, .val⟩], none⟩ .none ⟨.fobjConst, [⟨.ptrA, .val⟩], none⟩ = false
    ∧ accepts ⟨[⟨.int, .val⟩], none⟩ .none ⟨.fobjConst, [⟨.int, .lref⟩], none⟩ = false
    ∧ accepts ⟨[⟨.int, .val⟩], some ⟨.int, .val⟩⟩ .none ⟨.fobjConst, [⟨.int, .val⟩], some ⟨.ptrA, .val⟩⟩ = false
    ∧ accepts ⟨[⟨.int, .val⟩], some ⟨.int, .val⟩⟩ .none ⟨.fobjConst, [⟨.int, .val⟩], some ⟨.enumE, .val⟩⟩ = false
    ∧ callAccepts ⟨.trackable, false, .connectFirst⟩ ⟨[⟨.int, .val⟩], none⟩ .none
        (slotArg ⟨[⟨.ptrA, .val⟩], none⟩ .constLvalue) = false
    ∧ callAccepts ⟨.trackable, false, .connectFirst⟩ ⟨[⟨.int, .val⟩], none⟩ .none
        (slotArg ⟨[⟨.double, .cref⟩], none⟩ .rvalue) = true := by decide

/-! ## The erased call (anchor "function_pointer_cast erases and restores the exact call_it signature") -/

/-- **C05.erased_call_type_exact** — all the type checking above happens in `call_it`'s body under the function type
    `callItType`; every call site restores exactly that type before calling (C20.call_through_original_type), and the
    arguments it passes initialise that type's parameters (`C20.call_site_args_ok`). -/
theorem erased_call_type_exact (site : CallSite) (r : Ret) (as : List Param)
    (h : siteApplies site r = true) :
    castBackTo site r as = callItType r as ∧
      (∀ a ∈ as, a.shape ≠ .rref → siteOk site a = true) :=
  ⟨Sigc.C20.call_through_original_type site r as h,
   fun a _ ha => Sigc.C20.call_site_args_ok site a (Or.inl ha)⟩

example : siteApplies .slotCall (some ⟨.int, .val⟩) = true := by decide

end Sigc.C05
