import Sigc.Basic
/-! property theorems for C05 (stub, replaced by the real statements) -/
namespace Sigc.C05
end Sigc.C05
