import Sigc.Model
import Sigc.Spec
/-! property theorems for C13 (being written) -/
namespace Sigc.C13
end Sigc.C13
