import Sigc.Model
import Sigc.Lemmas.Basic
import Sigc.Lemmas.StepIter
import Sigc.Lemmas.StepIter2
import Sigc.Lemmas.StepIter3
import Sigc.Lemmas.StepIter4
import Sigc.Lemmas.StepIter5
import Sigc.Lemmas.StepWF3
/-!
# C13 — emission results: last slot's value, or the accumulator's verdict

Theorems about the mechanism model `P` (`Sigc.Model`): `deref` = `slot_iterator_buf::operator*`,
`accLoop/revLoop/walkLoop` = the accumulator strategies, `emitLoop` = the non-accumulating emitters,
`emitImpl` = `emitter::emit`.  All statements hold for every state, program and fuel (no enumeration);
helper lemmas and the concrete example states (`exSt`, `exImpl`, `exProg`) are in
`Sigc/Lemmas/StepIter*.lean`.
-/
namespace Sigc.C13
open Sigc.Model Sigc.StepIter

/-! ## `deref_once`: dereferencing invokes at most once per position, never a blocked/invalid one -/

/-- dereferencing a position again without moving invokes nothing and returns the buffered value:
    state, outcome and iterator are unchanged — whatever the slot, program and fuel -/
theorem deref_twice_invokes_once (f : Nat) (P : Prog) (s : St) (i arg : Nat) (it : IterBuf) (im : Impl) (c : Cell)
    (hi : aget s.impls i = some im) (hc : im.cells.find? (·.id = it.pos) = some c) (hinv : it.invoked = true) :
    deref (f+1) P s i it arg = some (s, .ok, it) := by
  rw [deref]
  simp only [hi, hc]
  cases hrep : c.slot.rep with
  | none => rfl
  | some rp =>
    obtain ⟨call, fn⟩ := rp
    cases call <;> cases fn <;> simp [hinv]

example : deref 1 exProg exSt 1 { pos := 2, invoked := true, buf := 42 } 5
    = some (exSt, .ok, { pos := 2, invoked := true, buf := 42 }) :=
  deref_twice_invokes_once 0 _ _ _ _ _ exImpl (exCell 2 7 false) rfl rfl rfl

/-- (a) in *every* state (also when the list or the cell is gone) an already-invoked position is not
    invoked again: the iterator is returned unchanged and the state is unchanged up to the model's
    error flag -/
theorem deref_once_invoked (f : Nat) (P : Prog) (s : St) (i arg : Nat) (it : IterBuf) (hinv : it.invoked = true) :
    ∃ s', deref (f+1) P s i it arg = some (s', .ok, it) ∧ (s' = s ∨ ∃ msg, s' = s.fail msg) :=
  deref_invoked f P s i arg it hinv

example : ∃ s', deref 1 exProg {} 1 { pos := 2, invoked := true } 5 = some (s', .ok, { pos := 2, invoked := true }) ∧
    (s' = {} ∨ ∃ msg, s' = St.fail {} msg) := deref_once_invoked 0 _ _ _ _ _ rfl

/-- a blocked position is never invoked -/
theorem deref_blocked_not_invoked (f : Nat) (P : Prog) (s : St) (i arg : Nat) (it : IterBuf) (im : Impl) (c : Cell)
    (hi : aget s.impls i = some im) (hc : im.cells.find? (·.id = it.pos) = some c) (hb : c.slot.blocked = true) :
    deref (f+1) P s i it arg = some (s, .ok, it) := by
  rw [deref]
  simp only [hi, hc]
  cases hrep : c.slot.rep with
  | none => rfl
  | some rp =>
    obtain ⟨call, fn⟩ := rp
    cases call <;> cases fn <;> simp [hb]

example : deref 1 exProg exSt 1 { pos := 3 } 5 = some (exSt, .ok, { pos := 3 }) :=
  deref_blocked_not_invoked 0 _ _ _ _ _ exImpl (exCell 3 8 true) rfl rfl rfl

/-- an empty / invalidated position (or an end marker) is never invoked -/
theorem deref_invalid_not_invoked (f : Nat) (P : Prog) (s : St) (i arg : Nat) (it : IterBuf) (im : Impl) (c : Cell)
    (hi : aget s.impls i = some im) (hc : im.cells.find? (·.id = it.pos) = some c) (he : c.slot.empty = true) :
    deref (f+1) P s i it arg = some (s, .ok, it) := by
  rw [deref]
  simp only [hi, hc]
  unfold SlotB.empty at he
  cases hrep : c.slot.rep with
  | none => rfl
  | some rp =>
    rw [hrep] at he
    obtain ⟨call, fn⟩ := rp
    have : call = false := by simpa using he
    subst this
    rfl

example : deref 1 exProg exSt 1 { pos := 5 } 5 = some (exSt, .ok, { pos := 5 }) :=
  deref_invalid_not_invoked 0 _ _ _ _ _ exImpl _ rfl rfl rfl

/-- (b) a position that is not callable at that moment — blocked, no rep, `call_ = nullptr`, functor
    released (`fn = none`), the end marker, cell or list gone (`callableAt … = none`) — is not invoked:
    iterator unchanged, state unchanged up to the model's error flag -/
theorem deref_once_not_callable (f : Nat) (P : Prog) (s : St) (i arg : Nat) (it : IterBuf)
    (hnc : callableAt s i it.pos = none) :
    ∃ s', deref (f+1) P s i it arg = some (s', .ok, it) ∧ (s' = s ∨ ∃ msg, s' = s.fail msg) :=
  deref_not_callable f P s i arg it hnc

example : ∃ s', deref 1 exProg exSt 1 { pos := 3 } 5 = some (s', .ok, { pos := 3 }) ∧
    (s' = exSt ∨ ∃ msg, s' = exSt.fail msg) := deref_once_not_callable 0 _ _ _ _ _ (by decide)

/-- a successful first dereference of a callable position buffers the functor's result and marks the position invoked -/
theorem deref_callable (f : Nat) (P : Prog) (s s' : St) (i arg v : Nat) (it : IterBuf) (im : Impl) (c : Cell) (fn : Fun)
    (hi : aget s.impls i = some im) (hc : im.cells.find? (·.id = it.pos) = some c)
    (hrep : c.slot.rep = some { call := true, fn := some fn }) (hb : c.slot.blocked = false) (hinv : it.invoked = false)
    (hx : invokeFun f P s fn arg = some (s', .ok, v)) :
    deref (f+1) P s i it arg = some (s', .ok, { it with buf := v, invoked := true }) := by
  rw [deref]
  simp [hi, hc, hrep, hb, hinv, hx]

example : deref 2 exProg exSt 1 { pos := 2 } 5
    = some (exSt.log (.call 0 7 5), .ok, { pos := 2, invoked := true, buf := 75 }) :=
  deref_callable 1 _ _ _ _ _ _ _ exImpl (exCell 2 7 false) _ rfl rfl rfl rfl rfl
    (invokeFun_leaf_nobody 0 exProg exSt 7 5 [] rfl)

/-- everything a dereference can do, in every state: either nothing is invoked (iterator and state
    unchanged up to the error flag), or *exactly one* `invokeFun` call on the functor callable at the
    position, made only if the position was not yet invoked; on success its value is buffered and the
    flag set, on an exception the iterator is unchanged -/
theorem deref_once_result (f : Nat) (P : Prog) (s s' : St) (i arg : Nat) (it it' : IterBuf) (o : Outcome)
    (h : deref (f+1) P s i it arg = some (s', o, it')) :
    (it' = it ∧ o = .ok ∧ (s' = s ∨ ∃ msg, s' = s.fail msg)) ∨
    (∃ fn, callableAt s i it.pos = some fn ∧ it.invoked = false ∧
       ((∃ v, invokeFun f P s fn arg = some (s', .exc, v) ∧ o = .exc ∧ it' = it) ∨
        (∃ v, invokeFun f P s fn arg = some (s', .ok, v) ∧ o = .ok ∧
              it' = { it with buf := v, invoked := true }))) :=
  deref_result f P s s' i arg it it' o h

/-- (c) after a successful dereference of a callable, not yet invoked position: flag set, same
    position, buffer = the value `invokeFun` returned for the functor of that position -/
theorem deref_once_sets_flag (f : Nat) (P : Prog) (s s' : St) (i arg : Nat) (it it' : IterBuf) (fn : Fun)
    (hc : callableAt s i it.pos = some fn) (hinv : it.invoked = false)
    (h : deref (f+1) P s i it arg = some (s', .ok, it')) :
    it'.invoked = true ∧ it'.pos = it.pos ∧ invokeFun f P s fn arg = some (s', .ok, it'.buf) := by
  rcases deref_result f P s s' i arg it it' .ok h with ⟨rfl, _, hs⟩ | ⟨fn', hc', _, h2 | h2⟩
  · -- nothing invoked: impossible for a callable, not yet invoked position
    exfalso
    rw [deref_cases] at h
    obtain ⟨im, c, hi, hcell, _, _⟩ := callableAt_eq_some s i _ fn hc
    simp only [hinv, hi, hcell, hc] at h
    simp at h
    split at h
    · simp at h
    · simp at h
    · simp at h
      have := congrArg IterBuf.invoked h.2
      simp [hinv] at this
  · obtain ⟨v, _, ho, _⟩ := h2; cases ho
  · obtain ⟨v, hx, _, rfl⟩ := h2
    rw [hc] at hc'; cases hc'
    exact ⟨rfl, rfl, hx⟩

example : ({ pos := 2, invoked := true, buf := 75 } : IterBuf).invoked = true ∧
    ({ pos := 2, invoked := true, buf := 75 } : IterBuf).pos = ({ pos := 2 } : IterBuf).pos ∧
    invokeFun 1 exProg exSt (.leaf 7 []) 5 = some (exSt.log (.call 0 7 5), .ok, 75) :=
  deref_once_sets_flag 1 exProg exSt _ 1 5 { pos := 2 } _ (.leaf 7 []) rfl rfl
    (deref_callable 1 _ _ _ _ _ _ _ exImpl (exCell 2 7 false) _ rfl rfl rfl rfl rfl
      (invokeFun_leaf_nobody 0 exProg exSt 7 5 [] rfl))

/-- `operator*` never moves the iterator -/
theorem deref_keeps_pos (f : Nat) (P : Prog) (s s' : St) (i arg : Nat) (it it' : IterBuf) (o : Outcome)
    (h : deref f P s i it arg = some (s', o, it')) : it'.pos = it.pos :=
  deref_pos f P s s' i arg it it' o h

/-- the flag is only ever set by `operator*` (it is reset by the moves `++`/`--` alone, see below) -/
theorem deref_keeps_flag (f : Nat) (P : Prog) (s s' : St) (i arg : Nat) (it it' : IterBuf) (o : Outcome)
    (h : deref f P s i it arg = some (s', o, it')) (hinv : it.invoked = true) : it'.invoked = true :=
  deref_invoked_mono f P s s' i arg it it' o h hinv

/-- (d) dereferencing twice in a row invokes once: the iterator returned by a successful dereference of
    a callable position is returned unchanged by any later dereference — in ANY later state, for any
    program, fuel, list and argument — and that later dereference invokes nothing -/
theorem deref_once (f : Nat) (P : Prog) (s s1 : St) (i arg : Nat) (it it1 : IterBuf) (fn : Fun)
    (hc : callableAt s i it.pos = some fn)
    (h : deref (f+1) P s i it arg = some (s1, .ok, it1)) :
    ∀ (f2 : Nat) (P2 : Prog) (s2 : St) (i2 arg2 : Nat),
      ∃ s3, deref (f2+1) P2 s2 i2 it1 arg2 = some (s3, .ok, it1) ∧ (s3 = s2 ∨ ∃ msg, s3 = s2.fail msg) := by
  intro f2 P2 s2 i2 arg2
  apply deref_invoked
  cases hinv : it.invoked with
  | true => exact deref_invoked_mono _ P s s1 i arg it it1 .ok h hinv
  | false => exact (deref_once_sets_flag f P s s1 i arg it it1 fn hc hinv h).1

example : ∀ (f2 : Nat) (P2 : Prog) (s2 : St) (i2 arg2 : Nat),
    ∃ s3, deref (f2+1) P2 s2 i2 { pos := 2, invoked := true, buf := 75 } arg2
            = some (s3, .ok, { pos := 2, invoked := true, buf := 75 }) ∧ (s3 = s2 ∨ ∃ msg, s3 = s2.fail msg) :=
  deref_once 1 exProg exSt _ 1 5 { pos := 2 } _ (.leaf 7 []) rfl
    (deref_callable 1 _ _ _ _ _ _ _ exImpl (exCell 2 7 false) _ rfl rfl rfl rfl rfl
      (invokeFun_leaf_nobody 0 exProg exSt 7 5 [] rfl))

/-! ## `buffer_defined` -/

/-- the value-initialised buffer: a fresh iterator holds 0 and is not yet invoked -/
theorem fresh_iterator (p : Nat) : ({ pos := p } : IterBuf).buf = 0 ∧ ({ pos := p } : IterBuf).invoked = false := ⟨rfl, rfl⟩

/-- the buffer after `operator*` is the old buffer or the value just returned by the invoked functor;
    with the value-initialised buffer `runStrat` starts from (`fresh_iterator`) every value an
    accumulator reads is 0 or a functor result -/
theorem buffer_defined (f : Nat) (P : Prog) (s s' : St) (i arg : Nat) (it it' : IterBuf) (o : Outcome)
    (h : deref (f+1) P s i it arg = some (s', o, it')) :
    it'.buf = it.buf ∨ ∃ fn, callableAt s i it.pos = some fn ∧ invokeFun f P s fn arg = some (s', .ok, it'.buf) := by
  rcases deref_result f P s s' i arg it it' o h with ⟨rfl, _, _⟩ | ⟨fn, hc, _, h2 | h2⟩
  · exact Or.inl rfl
  · obtain ⟨v, _, _, rfl⟩ := h2; exact Or.inl rfl
  · obtain ⟨v, hx, _, rfl⟩ := h2; exact Or.inr ⟨fn, hc, hx⟩

example : (75 : Nat) = (0 : Nat) ∨ ∃ fn, callableAt exSt 1 2 = some fn ∧
    invokeFun 1 exProg exSt fn 5 = some (exSt.log (.call 0 7 5), .ok, 75) :=
  buffer_defined 1 exProg exSt _ 1 5 { pos := 2 } { pos := 2, invoked := true, buf := 75 } .ok
    (deref_callable 1 _ _ _ _ _ _ _ exImpl (exCell 2 7 false) _ rfl rfl rfl rfl rfl
      (invokeFun_leaf_nobody 0 exProg exSt 7 5 [] rfl))

/-! ## `bidirectional` -/

/-- `--(++it)` is at the same cell, in any list without duplicate ids -/
theorem bidirectional (cells : List Cell) (k n : Nat) (hnd : (cells.map (·.id)).Nodup)
    (h : succId cells k = some n) : predId cells n = some k :=
  predId_of_succId cells k n hnd h

example : predId exImpl.cells 3 = some 2 := bidirectional exImpl.cells 2 3 (by decide) (by decide)

/-- `++(--it)` is at the same cell -/
theorem bidirectional_converse (cells : List Cell) (k n : Nat) (hnd : (cells.map (·.id)).Nodup)
    (h : predId cells n = some k) : succId cells k = some n :=
  succId_of_predId cells k n hnd h

example : succId exImpl.cells 4 = some 5 := bidirectional_converse exImpl.cells 4 5 (by decide) (by decide)

/-- hence `++` and `--` are mutually inverse partial maps on the ids of the list -/
theorem bidirectional_iff (cells : List Cell) (k n : Nat) (hnd : (cells.map (·.id)).Nodup) :
    succId cells k = some n ↔ predId cells n = some k :=
  ⟨predId_of_succId cells k n hnd, succId_of_predId cells k n hnd⟩

/-- in a duplicate-free list `++` is "index + 1" and `--` is "index − 1": a forward walk from `begin()`
    visits the cells in list order, a walk from the end backwards visits them in reverse order -/
theorem bidirectional_index (cells : List Cell) (hnd : (cells.map (·.id)).Nodup) (j : Nat) (h : j + 1 < cells.length) :
    succId cells (cells[j]'(by omega)).id = some (cells[j+1]).id ∧
    predId cells (cells[j+1]).id = some (cells[j]'(by omega)).id :=
  ⟨succId_getElem cells hnd j h, predId_getElem cells hnd j h⟩

example : succId exImpl.cells 3 = some 4 ∧ predId exImpl.cells 4 = some 3 :=
  bidirectional_index exImpl.cells (by decide) 1 (by decide)

/-- `begin()` has no predecessor and the end marker (last cell) no successor -/
theorem walk_ends (c : Cell) (t : List Cell) (m : Cell) :
    (((c :: t).map (·.id)).Nodup → predId (c :: t) c.id = none) ∧
    (((t ++ [m]).map (·.id)).Nodup → succId (t ++ [m]) m.id = none) :=
  ⟨predId_head c t, succId_last t m⟩

/-- the hypothesis of the `bidirectional` theorems holds for the list an emission walks (cells at
    emission start ++ fresh end marker) whenever it held for the signal's list and the allocator is
    ahead of its ids (the `Inv` clause "ids unique and below `next`") -/
theorem range_has_unique_ids (s : St) (i : Nat) (im : Impl) (hnd : (im.cells.map (·.id)).Nodup)
    (hfresh : ∀ c ∈ im.cells, c.id < s.next) :
    ∃ im', aget (emitPrologue s i im).impls i = some im' ∧ (im'.cells.map (·.id)).Nodup :=
  prologue_nodup s i im hnd hfresh

example : ∃ im', aget exSt1.impls 1 = some im' ∧ (im'.cells.map (·.id)).Nodup :=
  range_has_unique_ids exSt 1 exImpl (by decide) (by decide)

/-- moves stay inside the list -/
theorem moves_stay_in_list (cells : List Cell) (k n : Nat) :
    (succId cells k = some n → k ∈ cells.map (·.id) ∧ n ∈ cells.map (·.id)) ∧
    (predId cells n = some k → k ∈ cells.map (·.id) ∧ n ∈ cells.map (·.id)) := by
  refine ⟨fun h => ⟨succId_src_mem _ _ _ h, succId_mem _ _ _ h⟩, fun h => ⟨predId_mem _ _ _ h, ?_⟩⟩
  have := predId_tgt_mem_tail _ _ _ h
  cases cells with
  | nil => simp at this
  | cons c t => simp at this ⊢; right; exact this

/-- every position but the last has a successor (so the walk from `begin()` reaches the end marker) -/
theorem succ_exists (cells : List Cell) (k : Nat) (h : k ∈ cells.dropLast.map (·.id)) :
    ∃ n, succId cells k = some n :=
  succId_isSome_of_mem_dropLast cells k h

example : ∃ n, succId exImpl.cells 4 = some n := succ_exists exImpl.cells 4 (by decide)

/-! ## movement: the loops move only by `succId`/`predId` of the *current* list and reset the flag -/

theorem accLoop_stops_at_end (f : Nat) (P : Prog) (s : St) (i : Nat) (it : IterBuf) (m arg mode k r : Nat)
    (h : it.pos = m) : accLoop (f+1) P s i it m arg mode k r = some (s, .ok, r) :=
  accLoop_at_end f P s i it m arg mode k r h

example : accLoop 1 exProg exSt 1 { pos := 6 } 6 5 0 0 7 = some (exSt, .ok, 7) :=
  accLoop_stops_at_end 0 _ _ _ _ _ _ _ _ _ rfl

/-- `never`: `++it` without dereferencing -/
theorem accLoop_never_moves (f : Nat) (P : Prog) (s : St) (i : Nat) (it : IterBuf) (m arg k r : Nat)
    (im : Impl) (nxt : Nat) (hne : it.pos ≠ m) (hi : aget s.impls i = some im)
    (hn : succId im.cells it.pos = some nxt) :
    accLoop (f+1) P s i it m arg 3 k r
      = accLoop f P s i { it with pos := nxt, invoked := false } m arg 3 k (r + 1) :=
  accLoop_never_step f P s i it m arg k r im nxt hne hi hn

example : accLoop 2 exProg exSt 1 { pos := 4, invoked := true, buf := 9 } 5 0 3 0 0 = some (exSt, .ok, 1) := by
  rw [accLoop_never_moves 1 exProg exSt 1 _ 5 0 0 0 exImpl 5 (by decide) rfl (by decide)]
  exact accLoop_stops_at_end 0 _ _ _ _ _ _ _ _ _ rfl

/-- `sum`: `r += *it; ++it` — successor taken in the list as it is after the slot ran -/
theorem accLoop_sum_moves (f : Nat) (P : Prog) (s s1 : St) (i : Nat) (it it' : IterBuf) (m arg k r : Nat)
    (im : Impl) (nxt : Nat) (hne : it.pos ≠ m) (hd : deref f P s i it arg = some (s1, .ok, it'))
    (hi : aget s1.impls i = some im) (hn : succId im.cells it'.pos = some nxt) :
    accLoop (f+1) P s i it m arg 0 k r
      = accLoop f P s1 i { it' with pos := nxt, invoked := false } m arg 0 k (r + it'.buf) :=
  accLoop_sum_step f P s s1 i it it' m arg k r im nxt hne hd hi hn

example : accLoop 3 exProg exSt 1 { pos := 2 } 6 5 0 0 0
    = accLoop 2 exProg exSt2 1 { pos := 3, invoked := false, buf := 75 } 6 5 0 0 (0 + 75) :=
  accLoop_sum_moves 2 exProg exSt exSt2 1 _ _ 6 5 0 0 exImpl 3 (by decide) exDeref2 rfl (by decide)

/-- `stop k`: returns as soon as the running sum reaches `k` (later positions are never dereferenced) -/
theorem accLoop_stop_returns (f : Nat) (P : Prog) (s s1 : St) (i : Nat) (it it' : IterBuf) (m arg k r : Nat)
    (hne : it.pos ≠ m) (hd : deref f P s i it arg = some (s1, .ok, it')) (hk : r + it'.buf ≥ k) :
    accLoop (f+1) P s i it m arg 1 k r = some (s1, .ok, r + it'.buf) :=
  accLoop_stop_reached f P s s1 i it it' m arg k r hne hd hk

example : accLoop 3 exProg exSt 1 { pos := 2 } 6 5 1 60 0 = some (exSt2, .ok, 0 + 75) :=
  accLoop_stop_returns 2 exProg exSt exSt2 1 _ _ 6 5 60 0 (by decide) exDeref2 (by decide)

theorem accLoop_stop_moves (f : Nat) (P : Prog) (s s1 : St) (i : Nat) (it it' : IterBuf) (m arg k r : Nat)
    (im : Impl) (nxt : Nat) (hne : it.pos ≠ m) (hd : deref f P s i it arg = some (s1, .ok, it'))
    (hk : r + it'.buf < k) (hi : aget s1.impls i = some im) (hn : succId im.cells it'.pos = some nxt) :
    accLoop (f+1) P s i it m arg 1 k r
      = accLoop f P s1 i { it' with pos := nxt, invoked := false } m arg 1 k (r + it'.buf) :=
  accLoop_stop_step f P s s1 i it it' m arg k r im nxt hne hd hk hi hn

example : accLoop 3 exProg exSt 1 { pos := 2 } 6 5 1 100 0
    = accLoop 2 exProg exSt2 1 { pos := 3, invoked := false, buf := 75 } 6 5 1 100 (0 + 75) :=
  accLoop_stop_moves 2 exProg exSt exSt2 1 _ _ 6 5 100 0 exImpl 3 (by decide) exDeref2 (by decide) rfl (by decide)

/-- `twice`: `r += *it; r += *it; ++it` — the second dereference is of the iterator the first returned -/
theorem accLoop_twice_moves (f : Nat) (P : Prog) (s s1 s2 : St) (i : Nat) (it it' it2 : IterBuf) (m arg k r : Nat)
    (im : Impl) (nxt : Nat) (hne : it.pos ≠ m) (hd : deref f P s i it arg = some (s1, .ok, it'))
    (hd2 : deref f P s1 i it' arg = some (s2, .ok, it2))
    (hi : aget s2.impls i = some im) (hn : succId im.cells it2.pos = some nxt) :
    accLoop (f+1) P s i it m arg 2 k r
      = accLoop f P s2 i { it2 with pos := nxt, invoked := false } m arg 2 k (r + it'.buf + it2.buf) :=
  accLoop_twice_step f P s s1 s2 i it it' it2 m arg k r im nxt hne hd hd2 hi hn

example : accLoop 3 exProg exSt 1 { pos := 2 } 6 5 2 0 0
    = accLoop 2 exProg exSt2 1 { pos := 3, invoked := false, buf := 75 } 6 5 2 0 (0 + 75 + 75) :=
  accLoop_twice_moves 2 exProg exSt exSt2 exSt2 1 _ _ _ 6 5 0 0 exImpl 3 (by decide) exDeref2
    (deref_twice_invokes_once 1 exProg exSt2 1 5 _ exImpl (exCell 2 7 false) rfl rfl rfl) rfl (by decide)

/-- `postinc`: `old = it++; r += *old` -/
theorem accLoop_postinc_moves (f : Nat) (P : Prog) (s s1 : St) (i : Nat) (it it' : IterBuf) (m arg k r : Nat)
    (im : Impl) (nxt : Nat) (hne : it.pos ≠ m) (hd : deref f P s i it arg = some (s1, .ok, it'))
    (hi : aget s1.impls i = some im) (hn : succId im.cells it.pos = some nxt) :
    accLoop (f+1) P s i it m arg 4 k r
      = accLoop f P s1 i { it with pos := nxt, invoked := false } m arg 4 k (r + it'.buf) :=
  accLoop_postinc_step f P s s1 i it it' m arg k r im nxt hne hd hi hn

example : accLoop 3 exProg exSt 1 { pos := 2 } 6 5 4 0 0
    = accLoop 2 exProg exSt2 1 { pos := 3, invoked := false, buf := 0 } 6 5 4 0 (0 + 75) :=
  accLoop_postinc_moves 2 exProg exSt exSt2 1 _ _ 6 5 0 0 exImpl 3 (by decide) exDeref2 rfl (by decide)

/-- an exception leaves the accumulator at once with the outcome `exc` -/
theorem accLoop_exception (f : Nat) (P : Prog) (s s1 : St) (i : Nat) (it it' : IterBuf) (m arg mode k r : Nat)
    (hne : it.pos ≠ m) (hm : mode ≠ 3) (hd : deref f P s i it arg = some (s1, .exc, it')) :
    accLoop (f+1) P s i it m arg mode k r = some (s1, .exc, r) :=
  accLoop_exc f P s s1 i it it' m arg mode k r hne hm hd

/-- functor 7 throws: the accumulator `sum` is left at once with `exc` -/
example : ∃ s1, accLoop 6 exProgT exSt 1 { pos := 2 } 6 5 0 0 0 = some (s1, .exc, 0) := by
  have h : (deref 5 exProgT exSt 1 { pos := 2 } 5).map (fun x => x.2.1) = some .exc := by decide +kernel
  cases hd : deref 5 exProgT exSt 1 { pos := 2 } 5 with
  | none => rw [hd] at h; simp at h
  | some res =>
    obtain ⟨s1, o, it'⟩ := res
    rw [hd] at h; simp at h; subst h
    exact ⟨s1, accLoop_exception 5 _ _ s1 _ _ it' _ _ 0 _ _ (by decide) (by decide) hd⟩

/-- reverse walk: `--it` (predecessor in the current list, flag reset), then `r += *it` -/
theorem revLoop_moves (f : Nat) (P : Prog) (s : St) (i : Nat) (it : IterBuf) (first arg r : Nat)
    (im : Impl) (prv : Nat) (hne : it.pos ≠ first) (hi : aget s.impls i = some im)
    (hp : predId im.cells it.pos = some prv) :
    revLoop (f+1) P s i it first arg r =
      (match deref f P s i { it with pos := prv, invoked := false } arg with
       | none => none
       | some (s, .exc, _) => some (s, .exc, r)
       | some (s, .ok, it) => revLoop f P s i it first arg (r + it.buf)) :=
  revLoop_step f P s i it first arg r im prv hne hi hp

theorem revLoop_stops_at_begin (f : Nat) (P : Prog) (s : St) (i : Nat) (it : IterBuf) (first arg r : Nat)
    (h : it.pos = first) : revLoop (f+1) P s i it first arg r = some (s, .ok, r) :=
  revLoop_at_begin f P s i it first arg r h

example : revLoop 1 exProg exSt 1 { pos := 2 } 2 5 7 = some (exSt, .ok, 7) :=
  revLoop_stops_at_begin 0 _ _ _ _ _ _ _ rfl

example : revLoop 3 exProg exSt 1 { pos := 4, invoked := true, buf := 9 } 3 5 0 = some (exSt, .ok, 9) := by
  rw [revLoop_moves 2 exProg exSt 1 _ 3 5 0 exImpl 3 (by decide) rfl (by decide)]
  rw [deref_blocked_not_invoked 1 _ _ _ _ _ exImpl (exCell 3 8 true) rfl rfl rfl]
  exact revLoop_stops_at_begin _ _ _ _ _ _ _ _ rfl

theorem walkLoop_inc_moves (f : Nat) (P : Prog) (s : St) (i : Nat) (it : IterBuf) (first m arg r : Nat) (cs : List Char)
    (im : Impl) (nxt : Nat) (hne : it.pos ≠ m) (hi : aget s.impls i = some im)
    (hn : succId im.cells it.pos = some nxt) :
    walkLoop (f+1) P s i it first m arg ('i' :: cs) r
      = walkLoop f P s i { it with pos := nxt, invoked := false } first m arg cs r :=
  walkLoop_inc f P s i it first m arg r cs im nxt hne hi hn

example : walkLoop 2 exProg exSt 1 { pos := 2, invoked := true, buf := 9 } 2 6 5 ['i'] 0
    = walkLoop 1 exProg exSt 1 { pos := 3, invoked := false, buf := 9 } 2 6 5 [] 0 :=
  walkLoop_inc_moves 1 exProg exSt 1 _ 2 6 5 0 [] exImpl 3 (by decide) rfl (by decide)

theorem walkLoop_dec_moves (f : Nat) (P : Prog) (s : St) (i : Nat) (it : IterBuf) (first m arg r : Nat) (cs : List Char)
    (im : Impl) (prv : Nat) (hne : it.pos ≠ first) (hi : aget s.impls i = some im)
    (hp : predId im.cells it.pos = some prv) :
    walkLoop (f+1) P s i it first m arg ('x' :: cs) r
      = walkLoop f P s i { it with pos := prv, invoked := false } first m arg cs r :=
  walkLoop_dec f P s i it first m arg r cs im prv hne hi hp

example : walkLoop 2 exProg exSt 1 { pos := 4, invoked := true, buf := 9 } 2 6 5 ['x'] 0
    = walkLoop 1 exProg exSt 1 { pos := 3, invoked := false, buf := 9 } 2 6 5 [] 0 :=
  walkLoop_dec_moves 1 exProg exSt 1 _ 2 6 5 0 [] exImpl 3 (by decide) rfl (by decide)

example : walkLoop 3 exProg exSt 1 { pos := 2, invoked := true, buf := 9 } 2 6 5 ['i', 'x'] 0 = some (exSt, .ok, 0) := by
  rw [walkLoop_inc_moves 2 exProg exSt 1 _ 2 6 5 0 ['x'] exImpl 3 (by decide) rfl (by decide)]
  rw [walkLoop_dec_moves 1 exProg exSt 1 _ 2 6 5 0 [] exImpl 2 (by decide) rfl (by decide)]
  exact walkLoop_nil _ _ _ _ _ _ _ _ _

/-- `d`: dereference in place (flag and buffer kept by the iterator that is moved later) -/
theorem walkLoop_deref_step (f : Nat) (P : Prog) (s : St) (i : Nat) (it : IterBuf) (first m arg r : Nat) (cs : List Char)
    (hne : it.pos ≠ m) :
    walkLoop (f+1) P s i it first m arg ('d' :: cs) r =
      (match deref f P s i it arg with
       | none => none
       | some (s, .exc, _) => some (s, .exc, r)
       | some (s, .ok, it) => walkLoop f P s i it first m arg cs (r + it.buf)) :=
  walkLoop_deref f P s i it first m arg r cs hne

example : walkLoop 3 exProg exSt 1 { pos := 2 } 2 6 5 ['d'] 0 = some (exSt2, .ok, 0 + 75) := by
  rw [walkLoop_deref_step 2 exProg exSt 1 _ 2 6 5 0 [] (by decide), exDeref2]
  exact walkLoop_nil _ _ _ _ _ _ _ _ _

/-- `c`: a copy is dereferenced; the iterator itself keeps its flag (so a later `d` invokes again) -/
theorem walkLoop_copy_step (f : Nat) (P : Prog) (s : St) (i : Nat) (it : IterBuf) (first m arg r : Nat) (cs : List Char)
    (hne : it.pos ≠ m) :
    walkLoop (f+1) P s i it first m arg ('c' :: cs) r =
      (match deref f P s i it arg with
       | none => none
       | some (s, .exc, _) => some (s, .exc, r)
       | some (s, .ok, cp) => walkLoop f P s i it first m arg cs (r + cp.buf)) :=
  walkLoop_deref_copy f P s i it first m arg r cs hne

/-- the copy was dereferenced: the iterator itself (`{ pos := 2 }`, not invoked) goes on -/
example : walkLoop 3 exProg exSt 1 { pos := 2 } 2 6 5 ['c'] 0 = some (exSt2, .ok, 0 + 75) := by
  rw [walkLoop_copy_step 2 exProg exSt 1 _ 2 6 5 0 [] (by decide), exDeref2]
  exact walkLoop_nil _ _ _ _ _ _ _ _ _

/-! ## `acc_called_once_with_snapshot`: one accumulator call / one loop per emission -/

/-- a signal that never had a slot list returns the default value and runs nothing -/
theorem emit_without_impl (f : Nat) (P : Prog) (s : St) (fl : Flavour) (arg : Nat) (st : Strat) :
    emitImpl (f+1) P s fl none arg st = some (s, .ok, 0) := by
  rw [emitImpl]

example : emitImpl 1 { bodies := [], top := [] } {} .A none 3 .sum = some ({}, .ok, 0) := emit_without_impl 0 _ _ _ _ _

/-- a non-accumulated emission of an empty list returns the default value and touches nothing -/
theorem emit_empty_list (f : Nat) (P : Prog) (s : St) (fl : Flavour) (i arg : Nat) (strat : Strat) (im : Impl)
    (hacc : fl.isAcc = false) (hi : aget s.impls i = some im) (he : im.cells = []) :
    emitImpl (f+1) P s fl (some i) arg strat = some (s, .ok, 0) :=
  emitImpl_plain_empty f P s fl i arg strat im hacc hi he

example : emitImpl 1 exProg { impls := [(1, {})] } .I (some 1) 3 .sum = some ({ impls := [(1, {})] }, .ok, 0) :=
  emit_empty_list 0 _ _ _ _ _ _ {} rfl rfl rfl

/-- with an accumulator: `emit` = prologue (`emitPrologue`: counts raised, fresh end marker `s.next`
    appended), then **exactly one** accumulator call `runStrat` over `[first, marker)` where `first` is
    the first cell present at emission start (`emitFirst`; the marker itself for an empty list), then
    the epilogue `emitEpilogue`, which runs no functor and no loop -/
theorem acc_called_once (f : Nat) (P : Prog) (s : St) (fl : Flavour) (i arg : Nat) (strat : Strat) (im : Impl)
    (hacc : fl.isAcc = true) (hi : aget s.impls i = some im) :
    emitImpl (f+1) P s fl (some i) arg strat =
      (match runStrat f P (emitPrologue s i im) i (emitFirst s im) s.next arg (strat.forFlavour fl) with
       | none => none
       | some (s2, o, v) => some (emitEpilogue s2 i s.next o v)) :=
  emitImpl_acc_unfold f P s fl i arg strat im hacc hi

/-- without an accumulator (non-empty list): prologue, exactly one `emitLoop` from the first cell to the
    marker starting from the value-initialised result 0, epilogue -/
theorem plain_one_loop (f : Nat) (P : Prog) (s : St) (fl : Flavour) (i arg : Nat) (strat : Strat) (im : Impl)
    (hacc : fl.isAcc = false) (hi : aget s.impls i = some im) (hne : im.cells ≠ []) :
    emitImpl (f+1) P s fl (some i) arg strat =
      (match emitLoop f P (emitPrologue s i im) i (emitFirst s im) s.next arg 0 with
       | none => none
       | some (s2, o, v) => some (emitEpilogue s2 i s.next o v)) :=
  emitImpl_plain_unfold f P s fl i arg strat im hacc hi hne

/-- `emit()` returns what the accumulator / the loop returned: the epilogue passes outcome and value through -/
theorem emit_returns_accumulator_result (s : St) (i m : Nat) (o : Outcome) (v : Nat) :
    (emitEpilogue s i m o v).2 = (o, v) :=
  emitEpilogue_passes s i m o v

/-- consequence: the value and outcome of an accumulated emission are exactly those of its one `runStrat` call -/
theorem emit_acc_value (f : Nat) (P : Prog) (s s' : St) (fl : Flavour) (i arg : Nat) (strat : Strat) (im : Impl)
    (o : Outcome) (v : Nat) (hacc : fl.isAcc = true) (hi : aget s.impls i = some im)
    (h : emitImpl (f+1) P s fl (some i) arg strat = some (s', o, v)) :
    ∃ s2, runStrat f P (emitPrologue s i im) i (emitFirst s im) s.next arg (strat.forFlavour fl) = some (s2, o, v) ∧
          s' = (emitEpilogue s2 i s.next o v).1 := by
  rw [acc_called_once f P s fl i arg strat im hacc hi] at h
  split at h
  · simp at h
  · rename_i s2 o2 v2 hr
    have hp := emitEpilogue_passes s2 i s.next o2 v2
    simp at h
    rw [h] at hp
    simp at hp
    obtain ⟨rfl, rfl⟩ := hp
    exact ⟨s2, hr, by rw [h]⟩

/-- the range handed to the accumulator: `first` is the head of the list at emission start, and the
    marker is the last cell of the list the accumulator walks -/
theorem acc_range (s : St) (i : Nat) (im : Impl) :
    (∃ im', aget (emitPrologue s i im).impls i = some im' ∧
        im'.cells.map (·.id) = im.cells.map (·.id) ++ [s.next] ∧
        im'.exec = im.exec + 1 ∧ im'.holders = im.holders + 1) ∧
    emitFirst s im = ((im.cells.map (·.id)) ++ [s.next]).head (by simp) := by
  constructor
  · exact ⟨{ im with exec := im.exec + 1, holders := im.holders + 1,
                       cells := im.cells ++ [{ id := s.next, slot := {}, linked := false }] },
            aget_aset_same _ _ _, by simp, rfl, rfl⟩
  · unfold emitFirst
    cases im.cells <;> simp

example : (emitImpl 10 exProg exSt .A (some 1) 5 .sum).map (·.2.2) = some 340 := by decide +kernel
example : (emitImpl 10 exProg exSt .A (some 1) 5 .rev).map (·.2.2) = some 265 := by decide +kernel
example : (emitImpl 10 exProg exSt .A (some 1) 5 .never).map (·.2.2) = some 4 := by decide +kernel
example : (emitImpl 10 exProg exSt .A (some 1) 5 (.stop 60)).map (·.2.2) = some 75 := by decide +kernel
example : (emitImpl 10 exProg exSt .I (some 1) 5 .sum).map (·.2.2) = some 95 := by decide +kernel

/-! ## never dereferenced ⇒ never invoked -/

/-- an accumulator that never dereferences (`never`) invokes no slot and cannot throw: for every list,
    state, program and fuel the state is unchanged up to the model's error flag -/
theorem never_dereferenced_never_invoked (f : Nat) (P : Prog) (s : St) (i : Nat) (it : IterBuf) (m arg k r : Nat)
    (s' : St) (o : Outcome) (v : Nat) (h : accLoop f P s i it m arg 3 k r = some (s', o, v)) :
    o = .ok ∧ (s' = s ∨ ∃ msg, s' = s.fail msg) :=
  accLoop_never f P s i it m arg k r s' o v h

example : (accLoop 9 exProg exSt1 1 { pos := 2 } 6 5 3 0 0).map (fun x => (x.2.1, x.2.2, x.1.trace.length))
    = some (.ok, 4, 0) := by decide +kernel

/-- a scripted walk that only moves (`i`, `x`, never `d`/`c`) invokes nothing and returns the initial sum -/
theorem walk_without_deref_invokes_nothing (f : Nat) (P : Prog) (s : St) (i : Nat) (it : IterBuf) (first m arg : Nat)
    (ops : List Char) (r : Nat) (s' : St) (o : Outcome) (v : Nat) (hd : 'd' ∉ ops) (hc : 'c' ∉ ops)
    (h : walkLoop f P s i it first m arg ops r = some (s', o, v)) :
    o = .ok ∧ v = r ∧ (s' = s ∨ ∃ msg, s' = s.fail msg) :=
  walkLoop_no_deref f P s i it first m arg ops r s' o v hd hc h

example : (walkLoop 9 exProg exSt1 1 { pos := 2 } 2 6 5 ['i', 'i', 'x', 'i'] 0).map (fun x => (x.2.1, x.2.2, x.1.trace.length))
    = some (.ok, 0, 0) := by decide +kernel

/-! ## the call log only grows and the nesting depth is restored (every function of the interpreter) -/

/-- every function of the interpreter, whatever the slots do (re-entrant emission, exceptions, …), only
    *adds* events to the call log, all at the current depth or deeper, and restores the depth
    (`Ext`, mutual induction on fuel over all eleven functions: `allExt`) -/
theorem log_only_grows (f : Nat) : AllExt f := allExt f

/-- what the driver runs: a whole top-level program only extends the log and ends at the depth it
    started at (0 from the initial state) -/
theorem run_log_only_grows (f : Nat) (P : Prog) (s : St) (ls : List Line) (s' : St) (h : runTop f P s ls = some s') :
    s'.depth = s.depth ∧ ∃ new, s'.trace = new ++ s.trace ∧ ∀ e ∈ new, s.depth ≤ evDepth e :=
  runTop_ext f P s ls s' h

example : (runTop 12 exProgB exStB [{ text := "emit 0 5", op := .emit 0 5 .sum false }]).map (fun x => (x.depth, x.trace.length))
    = some (0, 3) := by decide +kernel

/-- instance for an emission -/
theorem emit_extends_log (f : Nat) (P : Prog) (s : St) (fl : Flavour) (impl : Option Nat) (arg : Nat) (strat : Strat)
    (s' : St) (o : Outcome) (v : Nat) (h : emitImpl f P s fl impl arg strat = some (s', o, v)) :
    s'.depth = s.depth ∧ ∃ new, s'.trace = new ++ s.trace ∧ ∀ e ∈ new, s.depth ≤ evDepth e :=
  (allExt f).emit P s fl impl arg strat s' o v h

example : (emitImpl 10 exProgB exStB .I (some 1) 5 .sum).map (fun x => (x.1.depth, x.1.trace.length)) = some (0, 2) := by
  decide +kernel

/-- no operation that runs no user code touches the log or the depth -/
theorem simple_ops_keep_log (s s' : St) (op : Op) (r : String) (h : stepSimple s op = some (s', r)) :
    s'.trace = s.trace ∧ s'.depth = s.depth :=
  stepSimple_td s s' op r h

example : (stepSimple exStB (.blockC 0 true)).isSome = true ∧
    ∀ s' r, stepSimple exStB (.blockC 0 true) = some (s', r) → s'.trace = exStB.trace :=
  ⟨by decide +kernel, fun _ _ h => (simple_ops_keep_log _ _ _ _ h).1⟩

/-- a user functor returns `resultOf fid arg` whatever its body does (also if it throws), logs its call
    at the current depth before anything its body logs (all deeper), and restores the depth -/
theorem user_functor_value_and_log (f : Nat) (P : Prog) (s : St) (fn : Fun) (fid arg : Nat)
    (s' : St) (o : Outcome) (v : Nat) (hu : userFid fn = some fid) (h : invokeFun f P s fn arg = some (s', o, v)) :
    v = resultOf fid arg ∧ s'.depth = s.depth ∧
    ∃ new, s'.trace = new ++ (Event.call s.depth fid arg :: s.trace) ∧ ∀ e ∈ new, s.depth < evDepth e :=
  invoke_user_trace f P s fn fid arg s' o v hu h

example : (invokeFun 5 exProgB exStB (.leaf 7 []) 5).map (fun x => (x.2.2, x.1.depth, x.1.trace.length)) = some (75, 0, 2) := by
  decide +kernel

/-! ## `last_value` -/

/-
Intended statement (DESIGN §5): "`emitValue` returns the result of the last `call` of that emission,
or the default if there was none — with re-entrant flag changes."

Proved in full generality in relational form (`last_value_loop`, `last_value`): for every state,
program, fuel — bodies may block, disconnect, connect, re-emit, throw — the loop is an `EmitRun`, i.e.
at each turn the cell is invoked iff it is callable *at that moment*, and the value returned is the
value returned by the last functor invoked (`calls.getLast`), or the initial/default value if none was.

The reading in the call log (`last_value_in_log_partial`) needs the hypothesis that every functor the
emission itself invoked is a user functor (`Fun.leaf` or `Fun.owner`, `isUser`): only user functors log a `call` event with a
value determined by that event.  What is missing for arbitrary functors: a slot held by value in an
adaptor (`Fun.nest`) that is blocked/empty returns 0 without logging anything, and `make_slot()` of
another signal (`Fun.fwd`) returns that signal's emission result (for an accumulated signal a sum),
whose `call` events are logged at the *same* depth; so for such functors the value is not a function
of the newest `call` event.  (For them `last_value` still says: the value of the last invoked functor.)
-/

/-- the non-accumulating loop: every terminating run, from every state, is an `EmitRun` — each cell is
    invoked iff callable at its turn, in list order, until the end marker or an exception — and the
    value it returns is the value returned by the last functor it invoked, or the initial result `r`
    if it invoked none -/
theorem last_value_loop (f : Nat) (P : Prog) (s : St) (i cur m arg r : Nat) (s' : St) (o : Outcome) (v : Nat)
    (h : emitLoop f P s i cur m arg r = some (s', o, v)) :
    ∃ calls, EmitRun P i m arg s cur r calls s' o v ∧ v = ((calls.map (·.2)).getLast?).getD r := by
  obtain ⟨calls, hr⟩ := emitLoop_run f P s i cur m arg r s' o v h
  exact ⟨calls, hr, hr.value⟩

example : ∃ s' calls, EmitRun exProg 1 6 5 exSt1 2 0 calls s' .ok 95 ∧ 95 = ((calls.map (·.2)).getLast?).getD 0 := by
  have h : (emitLoop 9 exProg exSt1 1 2 6 5 0).map (fun x => (x.2.1, x.2.2)) = some (.ok, 95) := by decide +kernel
  cases hr : emitLoop 9 exProg exSt1 1 2 6 5 0 with
  | none => rw [hr] at h; simp at h
  | some res =>
    obtain ⟨s', o, v⟩ := res
    rw [hr] at h; simp at h; obtain ⟨rfl, rfl⟩ := h
    obtain ⟨calls, hrun, hv⟩ := last_value_loop _ _ _ _ _ _ _ _ _ _ _ hr
    exact ⟨s', calls, hrun, hv⟩

/-- any `EmitRun` returns the value of its last call, or the initial result -/
theorem run_value (P : Prog) (i m arg : Nat) (s : St) (cur r : Nat) (calls : List (Fun × Nat)) (s' : St) (o : Outcome) (v : Nat)
    (h : EmitRun P i m arg s cur r calls s' o v) : v = ((calls.map (·.2)).getLast?).getD r := h.value

example : (95 : Nat) = (([(Fun.leaf 7 [], 75), (Fun.leaf 9 [], 95)].map (·.2)).getLast?).getD 0 :=
  run_value _ _ _ _ _ _ _ _ _ _ _ exRun

/-- an exception that leaves the loop is the last invoked functor's -/
theorem run_exception_is_last_call (P : Prog) (i m arg : Nat) (s : St) (cur r : Nat) (calls : List (Fun × Nat)) (s' : St) (v : Nat)
    (h : EmitRun P i m arg s cur r calls s' .exc v) : calls ≠ [] := h.exc_nonempty

/-- `emit()` of a non-accumulated signal: for an empty list nothing happens and the default value 0 is
    returned; otherwise prologue, one `EmitRun` from the first cell present at emission start to the
    fresh end marker, starting from the default value, epilogue; the value returned is the value of the
    last functor invoked, or the default 0 if none was; and if all functors invoked by this emission
    are user functors, that value is `resultOf` of the newest call logged at the emission's depth
    during the emission -/
theorem last_value (f : Nat) (P : Prog) (s : St) (fl : Flavour) (i arg : Nat) (strat : Strat) (im : Impl)
    (s' : St) (o : Outcome) (v : Nat) (hacc : fl.isAcc = false) (hi : aget s.impls i = some im)
    (h : emitImpl (f+1) P s fl (some i) arg strat = some (s', o, v)) :
    ∃ calls,
      ((im.cells = [] ∧ calls = [] ∧ s' = s ∧ o = .ok) ∨
       (im.cells ≠ [] ∧ ∃ s2, EmitRun P i s.next arg (emitPrologue s i im) (emitFirst s im) 0 calls s2 o v ∧
          s' = (emitEpilogue s2 i s.next o v).1)) ∧
      v = ((calls.map (·.2)).getLast?).getD 0 ∧
      ((∀ p ∈ calls, isUser p.1 = true) →
        s'.depth = s.depth ∧
        ∃ new, s'.trace = new ++ s.trace ∧ (∀ e ∈ new, s.depth ≤ evDepth e) ∧
          v = (match lastCallAt s.depth new with
               | some (fid, a) => resultOf fid a
               | none => 0)) :=
  emitImpl_plain_run f P s fl i arg strat im s' o v hacc hi h

/-- functor 7 blocks the slot of cell 4 while the emission runs: the value is that of functor 7 -/
example : (emitImpl 10 exProgB exStB .I (some 1) 5 .sum).map (fun x => (x.2.1, x.2.2)) = some (.ok, 75) := by
  decide +kernel

example : ∃ s', ∃ calls : List (Fun × Nat), emitImpl 10 exProgB exStB .I (some 1) 5 .sum = some (s', .ok, 75) ∧
    75 = ((calls.map (·.2)).getLast?).getD 0 := by
  have h : (emitImpl 10 exProgB exStB .I (some 1) 5 .sum).map (fun x => (x.2.1, x.2.2)) = some (.ok, 75) := by
    decide +kernel
  cases hr : emitImpl 10 exProgB exStB .I (some 1) 5 .sum with
  | none => rw [hr] at h; simp at h
  | some res =>
    obtain ⟨s', o, v⟩ := res
    rw [hr] at h; simp at h; obtain ⟨rfl, rfl⟩ := h
    obtain ⟨calls, _, hv, _⟩ := last_value 9 exProgB exStB .I 1 5 .sum exImpl s' _ _ rfl rfl hr
    exact ⟨s', calls, rfl, hv⟩

/-- the log reading of `last_value` for a run whose invoked functors are all user functors
    (see the comment above for what is missing for `nest`/`fwd` functors) -/
theorem last_value_in_log_partial (P : Prog) (i m arg : Nat) (s : St) (cur r : Nat) (calls : List (Fun × Nat))
    (s' : St) (o : Outcome) (v : Nat) (h : EmitRun P i m arg s cur r calls s' o v)
    (hleaf : ∀ p ∈ calls, isUser p.1 = true) :
    s'.depth = s.depth ∧
    ∃ new, s'.trace = new ++ s.trace ∧ (∀ e ∈ new, s.depth ≤ evDepth e) ∧
      v = (match lastCallAt s.depth new with
           | some (fid, a) => resultOf fid a
           | none => r) :=
  h.trace_leaf hleaf

example : ∃ new, ((exSt1.log (.call 0 7 5)).log (.call 0 9 5)).trace = new ++ exSt1.trace ∧
    (∀ e ∈ new, exSt1.depth ≤ evDepth e) ∧
    95 = (match lastCallAt exSt1.depth new with
          | some (fid, a) => resultOf fid a
          | none => 0) :=
  (last_value_in_log_partial _ _ _ _ _ _ _ _ _ _ _ exRun (by decide)).2

/-- what the driver prints: an `emit` line (outside try/catch) that completes normally logs, as the
    newest event and at the line's own depth, `text => r=<v>` where `v` is the value `emitImpl`
    returned — by `last_value` the value of the last slot invoked, or 0 -/
theorem emit_line_reports_value (f : Nat) (P : Prog) (s : St) (text : String) (g arg : Nat) (strat : Strat)
    (h0 : Handle) (s' : St) (hg : aget s.G g = some h0)
    (hd : ¬ s.depth ≥ P.maxdepth) (hs : ¬ s.steps + 1 > P.maxsteps)
    (h : execLine (f+3) P s { text := text, op := .emit g arg strat false } = some (s', .ok)) :
    ∃ s1 v, emitImpl (f+1) P { s with steps := s.steps + 1 } h0.fl h0.impl arg strat = some (s1, .ok, v) ∧
      s' = collect (s1.log (.res s.depth text (showRes h0.fl.isVoid v))) :=
  execLine_emit_ok f P s text g arg strat h0 s' hg hd hs h

example : (execLine 12 exProgB exStB { text := "emit 0 5", op := .emit 0 5 .sum false }).map (fun x => x.1.trace.head?.map renderEvent)
    = some (some "0 emit 0 5 => r=75") := by decide +kernel

/-! ## the same statements about the specification `S` (`Sigc.Spec`) -/

/-- `S`: a signal without a list returns the default value and does nothing -/
theorem spec_emit_without_list (f : Nat) (P : Prog) (s : Spec.LSt) (fl : Flavour) (arg : Nat) (strat : Strat) :
    Spec.emitSig (f+1) P s fl none arg strat = some (s, .ok, 0) :=
  spec_emit_none f P s fl arg strat

example : Spec.emitSig 1 exProg {} .A none 3 .sum = some ({}, .ok, 0) := spec_emit_without_list 0 _ _ _ _ _

/-- `S`: an already-invoked position is not invoked again -/
theorem spec_deref_once (f : Nat) (P : Prog) (s : Spec.LSt) (i : Nat) (snap : List Nat) (it : Spec.It) (arg : Nat)
    (hinv : it.invoked = true) : Spec.deref (f+1) P s i snap it arg = some (s, .ok, it) :=
  spec_deref_invoked f P s i snap it arg hinv

example : Spec.deref 1 exProg {} 1 [2, 3] { pos := 0, invoked := true, buf := 7 } 5
    = some ({}, .ok, { pos := 0, invoked := true, buf := 7 }) := spec_deref_once 0 _ _ _ _ _ _ rfl

/-- `S`: an entry that is gone, invalid or blocked at that moment is not invoked -/
theorem spec_deref_skips (f : Nat) (P : Prog) (s : Spec.LSt) (i : Nat) (snap : List Nat) (it : Spec.It) (arg cid : Nat)
    (hp : snap[it.pos]? = some cid) (hnc : specCallable s i cid = none) :
    Spec.deref (f+1) P s i snap it arg = some (s, .ok, it) :=
  spec_deref_not_callable f P s i snap it arg cid hp hnc

/-- `S`: the value of a non-accumulated emission is the value of the last invoked functor or the
    initial (default) one; at most one invocation per entry of the snapshot -/
theorem spec_last_value (f : Nat) (P : Prog) (s : Spec.LSt) (i : Nat) (snap : List Nat) (arg r : Nat)
    (s' : Spec.LSt) (o : Outcome) (v : Nat) (h : Spec.turns f P s i snap arg r = some (s', o, v)) :
    ∃ calls, TurnsRun P i arg s snap r calls s' o v ∧ v = ((calls.map (·.2)).getLast?).getD r ∧
      calls.length ≤ snap.length := by
  obtain ⟨calls, hr⟩ := spec_turns_run f P s i snap arg r s' o v h
  exact ⟨calls, hr, hr.value, hr.length_le⟩

example : ∃ calls, TurnsRun exProg 1 5 {} [2, 3] 9 calls {} .ok 9 ∧ 9 = ((calls.map (·.2)).getLast?).getD 9 ∧
    calls.length ≤ 2 :=
  spec_last_value 3 exProg {} 1 [2, 3] 5 9 {} .ok 9 (by
    rw [spec_turns_unfold, show specCallable {} 1 2 = none from rfl]
    simp only
    rw [spec_turns_unfold, show specCallable {} 1 3 = none from rfl]
    simp only
    rw [Spec.turns])

/-! ## top-level form of `bidirectional`: every list of every reachable state -/

/-- in every state reached by any run of any program (and, by `Sigc.StepWF.execOp_WF`, in every state inside
    a run) the cell ids of every slot list are pairwise distinct, so `--(++it) = it` and `++(--it) = it`
    wherever both are defined: the `Nodup` hypothesis of `bidirectional` always holds -/
theorem bidirectional_run (f : Nat) (P : Prog) (ls : List Line) (s : St) (i k n : Nat) (im : Impl)
    (hrun : runTop f P {} ls = some s) (hi : aget s.impls i = some im) :
    (im.cells.map (·.id)).Nodup ∧ (succId im.cells k = some n ↔ predId im.cells n = some k) := by
  have hnd := Sigc.StepWF.nodup_ids_of_aget (Sigc.StepWF.runTop_WF f P ls s hrun).impls hi
  exact ⟨hnd, bidirectional_iff im.cells k n hnd⟩

/-- the same for every well-formed state (states inside emissions included) -/
theorem bidirectional_wf (s : St) (i k n : Nat) (im : Impl) (hw : Sigc.StepWF.WF s) (hi : aget s.impls i = some im) :
    succId im.cells k = some n ↔ predId im.cells n = some k :=
  bidirectional_iff im.cells k n (Sigc.StepWF.nodup_ids_of_aget hw.impls hi)

example : Sigc.StepWF.WF Sigc.StepTrack.exStT ∧
    (succId [({ id := 5, slot := {}, linked := true } : Cell), { id := 12, slot := {}, linked := true }] 5 = some 12) := by
  decide


end Sigc.C13
