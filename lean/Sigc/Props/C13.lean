import Sigc.Model
import Sigc.Lemmas.Basic
/-!
# C13 — emission results: last slot's value, or the accumulator's verdict
(first theorems about `slot_iterator_buf::operator*` = `deref`; more in Sigc/Lemmas/Step*.lean)
-/
namespace Sigc.C13
open Sigc.Model

/-- dereferencing a position again without moving invokes nothing and returns the buffered value:
    state, outcome and iterator are unchanged — whatever the slot, program and fuel -/
theorem deref_twice_invokes_once (f : Nat) (P : Prog) (s : St) (i arg : Nat) (it : IterBuf) (im : Impl) (c : Cell)
    (hi : aget s.impls i = some im) (hc : im.cells.find? (·.id = it.pos) = some c) (hinv : it.invoked = true) :
    deref (f+1) P s i it arg = some (s, .ok, it) := by
  rw [deref]
  simp only [hi, hc]
  cases hrep : c.slot.rep with
  | none => rfl
  | some rp =>
    obtain ⟨call, fn⟩ := rp
    cases call <;> cases fn <;> simp [hinv]

/-- a blocked position is never invoked -/
theorem deref_blocked_not_invoked (f : Nat) (P : Prog) (s : St) (i arg : Nat) (it : IterBuf) (im : Impl) (c : Cell)
    (hi : aget s.impls i = some im) (hc : im.cells.find? (·.id = it.pos) = some c) (hb : c.slot.blocked = true) :
    deref (f+1) P s i it arg = some (s, .ok, it) := by
  rw [deref]
  simp only [hi, hc]
  cases hrep : c.slot.rep with
  | none => rfl
  | some rp =>
    obtain ⟨call, fn⟩ := rp
    cases call <;> cases fn <;> simp [hb]

/-- an empty / invalidated position (or an end marker) is never invoked -/
theorem deref_invalid_not_invoked (f : Nat) (P : Prog) (s : St) (i arg : Nat) (it : IterBuf) (im : Impl) (c : Cell)
    (hi : aget s.impls i = some im) (hc : im.cells.find? (·.id = it.pos) = some c) (he : c.slot.empty = true) :
    deref (f+1) P s i it arg = some (s, .ok, it) := by
  rw [deref]
  simp only [hi, hc]
  unfold SlotB.empty at he
  cases hrep : c.slot.rep with
  | none => rfl
  | some rp =>
    rw [hrep] at he
    obtain ⟨call, fn⟩ := rp
    have : call = false := by simpa using he
    subst this
    rfl

/-- a successful first dereference of a callable position buffers the functor's result and marks the position invoked -/
theorem deref_callable (f : Nat) (P : Prog) (s s' : St) (i arg v : Nat) (it : IterBuf) (im : Impl) (c : Cell) (fn : Fun)
    (hi : aget s.impls i = some im) (hc : im.cells.find? (·.id = it.pos) = some c)
    (hrep : c.slot.rep = some { call := true, fn := some fn }) (hb : c.slot.blocked = false) (hinv : it.invoked = false)
    (hx : invokeFun f P s fn arg = some (s', .ok, v)) :
    deref (f+1) P s i it arg = some (s', .ok, { it with buf := v, invoked := true }) := by
  rw [deref]
  simp [hi, hc, hrep, hb, hinv, hx]

/-- a signal that never had a slot list returns the default value and runs nothing -/
theorem emit_without_impl (f : Nat) (P : Prog) (s : St) (fl : Flavour) (arg : Nat) (st : Strat) :
    emitImpl (f+1) P s fl none arg st = some (s, .ok, 0) := by
  rw [emitImpl]

/-- the value-initialised buffer: a fresh iterator holds 0 and is not yet invoked -/
theorem fresh_iterator (p : Nat) : ({ pos := p } : IterBuf).buf = 0 ∧ ({ pos := p } : IterBuf).invoked = false := ⟨rfl, rfl⟩

example : emitImpl 1 { bodies := [], top := [] } {} .A none 3 .sum = some ({}, .ok, 0) := emit_without_impl 0 _ _ _ _ _

end Sigc.C13
