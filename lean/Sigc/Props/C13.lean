import Sigc.Model
import Sigc.Lemmas.Basic
import Sigc.Lemmas.StepIter
/-!
# C13 — emission results: last slot's value, or the accumulator's verdict

Theorems about the mechanism model `P` (`Sigc.Model`): `deref` = `slot_iterator_buf::operator*`,
`accLoop/revLoop/walkLoop` = the accumulator strategies, `emitLoop` = the non-accumulating emitters,
`emitImpl` = `emitter::emit`.  All statements hold for every state, program and fuel (no enumeration);
helper lemmas and the concrete example states (`exSt`, `exImpl`, `exProg`) are in
`Sigc/Lemmas/StepIter*.lean`.
-/
namespace Sigc.C13
open Sigc.Model Sigc.StepIter

/-! ## `deref_once`: dereferencing invokes at most once per position, never a blocked/invalid one -/

/-- dereferencing a position again without moving invokes nothing and returns the buffered value:
    state, outcome and iterator are unchanged — whatever the slot, program and fuel -/
theorem deref_twice_invokes_once (f : Nat) (P : Prog) (s : St) (i arg : Nat) (it : IterBuf) (im : Impl) (c : Cell)
    (hi : aget s.impls i = some im) (hc : im.cells.find? (·.id = it.pos) = some c) (hinv : it.invoked = true) :
    deref (f+1) P s i it arg = some (s, .ok, it) := by
  rw [deref]
  simp only [hi, hc]
  cases hrep : c.slot.rep with
  | none => rfl
  | some rp =>
    obtain ⟨call, fn⟩ := rp
    cases call <;> cases fn <;> simp [hinv]

example : deref 1 exProg exSt 1 { pos := 2, invoked := true, buf := 42 } 5
    = some (exSt, .ok, { pos := 2, invoked := true, buf := 42 }) :=
  deref_twice_invokes_once 0 _ _ _ _ _ exImpl (exCell 2 7 false) rfl rfl rfl

/-- (a) in *every* state (also when the list or the cell is gone) an already-invoked position is not
    invoked again: the iterator is returned unchanged and the state is unchanged up to the model's
    error flag -/
theorem deref_once_invoked (f : Nat) (P : Prog) (s : St) (i arg : Nat) (it : IterBuf) (hinv : it.invoked = true) :
    ∃ s', deref (f+1) P s i it arg = some (s', .ok, it) ∧ (s' = s ∨ ∃ msg, s' = s.fail msg) :=
  deref_invoked f P s i arg it hinv

example : ∃ s', deref 1 exProg {} 1 { pos := 2, invoked := true } 5 = some (s', .ok, { pos := 2, invoked := true }) ∧
    (s' = {} ∨ ∃ msg, s' = St.fail {} msg) := deref_once_invoked 0 _ _ _ _ _ rfl

/-- a blocked position is never invoked -/
theorem deref_blocked_not_invoked (f : Nat) (P : Prog) (s : St) (i arg : Nat) (it : IterBuf) (im : Impl) (c : Cell)
    (hi : aget s.impls i = some im) (hc : im.cells.find? (·.id = it.pos) = some c) (hb : c.slot.blocked = true) :
    deref (f+1) P s i it arg = some (s, .ok, it) := by
  rw [deref]
  simp only [hi, hc]
  cases hrep : c.slot.rep with
  | none => rfl
  | some rp =>
    obtain ⟨call, fn⟩ := rp
    cases call <;> cases fn <;> simp [hb]

example : deref 1 exProg exSt 1 { pos := 3 } 5 = some (exSt, .ok, { pos := 3 }) :=
  deref_blocked_not_invoked 0 _ _ _ _ _ exImpl (exCell 3 8 true) rfl rfl rfl

/-- an empty / invalidated position (or an end marker) is never invoked -/
theorem deref_invalid_not_invoked (f : Nat) (P : Prog) (s : St) (i arg : Nat) (it : IterBuf) (im : Impl) (c : Cell)
    (hi : aget s.impls i = some im) (hc : im.cells.find? (·.id = it.pos) = some c) (he : c.slot.empty = true) :
    deref (f+1) P s i it arg = some (s, .ok, it) := by
  rw [deref]
  simp only [hi, hc]
  unfold SlotB.empty at he
  cases hrep : c.slot.rep with
  | none => rfl
  | some rp =>
    rw [hrep] at he
    obtain ⟨call, fn⟩ := rp
    have : call = false := by simpa using he
    subst this
    rfl

example : deref 1 exProg exSt 1 { pos := 5 } 5 = some (exSt, .ok, { pos := 5 }) :=
  deref_invalid_not_invoked 0 _ _ _ _ _ exImpl _ rfl rfl rfl

/-- (b) a position that is not callable at that moment — blocked, no rep, `call_ = nullptr`, functor
    released (`fn = none`), the end marker, cell or list gone (`callableAt … = none`) — is not invoked:
    iterator unchanged, state unchanged up to the model's error flag -/
theorem deref_once_not_callable (f : Nat) (P : Prog) (s : St) (i arg : Nat) (it : IterBuf)
    (hnc : callableAt s i it.pos = none) :
    ∃ s', deref (f+1) P s i it arg = some (s', .ok, it) ∧ (s' = s ∨ ∃ msg, s' = s.fail msg) :=
  deref_not_callable f P s i arg it hnc

example : ∃ s', deref 1 exProg exSt 1 { pos := 3 } 5 = some (s', .ok, { pos := 3 }) ∧
    (s' = exSt ∨ ∃ msg, s' = exSt.fail msg) := deref_once_not_callable 0 _ _ _ _ _ (by decide)

/-- a successful first dereference of a callable position buffers the functor's result and marks the position invoked -/
theorem deref_callable (f : Nat) (P : Prog) (s s' : St) (i arg v : Nat) (it : IterBuf) (im : Impl) (c : Cell) (fn : Fun)
    (hi : aget s.impls i = some im) (hc : im.cells.find? (·.id = it.pos) = some c)
    (hrep : c.slot.rep = some { call := true, fn := some fn }) (hb : c.slot.blocked = false) (hinv : it.invoked = false)
    (hx : invokeFun f P s fn arg = some (s', .ok, v)) :
    deref (f+1) P s i it arg = some (s', .ok, { it with buf := v, invoked := true }) := by
  rw [deref]
  simp [hi, hc, hrep, hb, hinv, hx]

example : deref 2 exProg exSt 1 { pos := 2 } 5
    = some (exSt.log (.call 0 7 5), .ok, { pos := 2, invoked := true, buf := 75 }) :=
  deref_callable 1 _ _ _ _ _ _ _ exImpl (exCell 2 7 false) _ rfl rfl rfl rfl rfl
    (invokeFun_leaf_nobody 0 exProg exSt 7 5 [] rfl)

/-- everything a dereference can do, in every state: either nothing is invoked (iterator and state
    unchanged up to the error flag), or *exactly one* `invokeFun` call on the functor callable at the
    position, made only if the position was not yet invoked; on success its value is buffered and the
    flag set, on an exception the iterator is unchanged -/
theorem deref_once_result (f : Nat) (P : Prog) (s s' : St) (i arg : Nat) (it it' : IterBuf) (o : Outcome)
    (h : deref (f+1) P s i it arg = some (s', o, it')) :
    (it' = it ∧ o = .ok ∧ (s' = s ∨ ∃ msg, s' = s.fail msg)) ∨
    (∃ fn, callableAt s i it.pos = some fn ∧ it.invoked = false ∧
       ((∃ v, invokeFun f P s fn arg = some (s', .exc, v) ∧ o = .exc ∧ it' = it) ∨
        (∃ v, invokeFun f P s fn arg = some (s', .ok, v) ∧ o = .ok ∧
              it' = { it with buf := v, invoked := true }))) :=
  deref_result f P s s' i arg it it' o h

/-- (c) after a successful dereference of a callable, not yet invoked position: flag set, same
    position, buffer = the value `invokeFun` returned for the functor of that position -/
theorem deref_once_sets_flag (f : Nat) (P : Prog) (s s' : St) (i arg : Nat) (it it' : IterBuf) (fn : Fun)
    (hc : callableAt s i it.pos = some fn) (hinv : it.invoked = false)
    (h : deref (f+1) P s i it arg = some (s', .ok, it')) :
    it'.invoked = true ∧ it'.pos = it.pos ∧ invokeFun f P s fn arg = some (s', .ok, it'.buf) := by
  rcases deref_result f P s s' i arg it it' .ok h with ⟨rfl, _, hs⟩ | ⟨fn', hc', _, h2 | h2⟩
  · -- nothing invoked: impossible for a callable, not yet invoked position
    exfalso
    rw [deref_cases] at h
    obtain ⟨im, c, hi, hcell, _, _⟩ := callableAt_eq_some s i _ fn hc
    simp only [hinv, hi, hcell, hc] at h
    simp at h
    split at h
    · simp at h
    · simp at h
    · simp at h
      have := congrArg IterBuf.invoked h.2
      simp [hinv] at this
  · obtain ⟨v, _, ho, _⟩ := h2; cases ho
  · obtain ⟨v, hx, _, rfl⟩ := h2
    rw [hc] at hc'; cases hc'
    exact ⟨rfl, rfl, hx⟩

example : ({ pos := 2, invoked := true, buf := 75 } : IterBuf).invoked = true ∧
    ({ pos := 2, invoked := true, buf := 75 } : IterBuf).pos = ({ pos := 2 } : IterBuf).pos ∧
    invokeFun 1 exProg exSt (.leaf 7 []) 5 = some (exSt.log (.call 0 7 5), .ok, 75) :=
  deref_once_sets_flag 1 exProg exSt _ 1 5 { pos := 2 } _ (.leaf 7 []) rfl rfl
    (deref_callable 1 _ _ _ _ _ _ _ exImpl (exCell 2 7 false) _ rfl rfl rfl rfl rfl
      (invokeFun_leaf_nobody 0 exProg exSt 7 5 [] rfl))

/-- `operator*` never moves the iterator -/
theorem deref_keeps_pos (f : Nat) (P : Prog) (s s' : St) (i arg : Nat) (it it' : IterBuf) (o : Outcome)
    (h : deref f P s i it arg = some (s', o, it')) : it'.pos = it.pos :=
  deref_pos f P s s' i arg it it' o h

/-- the flag is only ever set by `operator*` (it is reset by the moves `++`/`--` alone, see below) -/
theorem deref_keeps_flag (f : Nat) (P : Prog) (s s' : St) (i arg : Nat) (it it' : IterBuf) (o : Outcome)
    (h : deref f P s i it arg = some (s', o, it')) (hinv : it.invoked = true) : it'.invoked = true :=
  deref_invoked_mono f P s s' i arg it it' o h hinv

/-- (d) dereferencing twice in a row invokes once: the iterator returned by a successful dereference of
    a callable position is returned unchanged by any later dereference — in ANY later state, for any
    program, fuel, list and argument — and that later dereference invokes nothing -/
theorem deref_once (f : Nat) (P : Prog) (s s1 : St) (i arg : Nat) (it it1 : IterBuf) (fn : Fun)
    (hc : callableAt s i it.pos = some fn)
    (h : deref (f+1) P s i it arg = some (s1, .ok, it1)) :
    ∀ (f2 : Nat) (P2 : Prog) (s2 : St) (i2 arg2 : Nat),
      ∃ s3, deref (f2+1) P2 s2 i2 it1 arg2 = some (s3, .ok, it1) ∧ (s3 = s2 ∨ ∃ msg, s3 = s2.fail msg) := by
  intro f2 P2 s2 i2 arg2
  apply deref_invoked
  cases hinv : it.invoked with
  | true => exact deref_invoked_mono _ P s s1 i arg it it1 .ok h hinv
  | false => exact (deref_once_sets_flag f P s s1 i arg it it1 fn hc hinv h).1

example : ∀ (f2 : Nat) (P2 : Prog) (s2 : St) (i2 arg2 : Nat),
    ∃ s3, deref (f2+1) P2 s2 i2 { pos := 2, invoked := true, buf := 75 } arg2
            = some (s3, .ok, { pos := 2, invoked := true, buf := 75 }) ∧ (s3 = s2 ∨ ∃ msg, s3 = s2.fail msg) :=
  deref_once 1 exProg exSt _ 1 5 { pos := 2 } _ (.leaf 7 []) rfl
    (deref_callable 1 _ _ _ _ _ _ _ exImpl (exCell 2 7 false) _ rfl rfl rfl rfl rfl
      (invokeFun_leaf_nobody 0 exProg exSt 7 5 [] rfl))

/-! ## `buffer_defined` -/

/-- the value-initialised buffer: a fresh iterator holds 0 and is not yet invoked -/
theorem fresh_iterator (p : Nat) : ({ pos := p } : IterBuf).buf = 0 ∧ ({ pos := p } : IterBuf).invoked = false := ⟨rfl, rfl⟩

/-- the buffer after `operator*` is the old buffer or the value just returned by the invoked functor;
    with the value-initialised buffer `runStrat` starts from (`fresh_iterator`) every value an
    accumulator reads is 0 or a functor result -/
theorem buffer_defined (f : Nat) (P : Prog) (s s' : St) (i arg : Nat) (it it' : IterBuf) (o : Outcome)
    (h : deref (f+1) P s i it arg = some (s', o, it')) :
    it'.buf = it.buf ∨ ∃ fn, callableAt s i it.pos = some fn ∧ invokeFun f P s fn arg = some (s', .ok, it'.buf) := by
  rcases deref_result f P s s' i arg it it' o h with ⟨rfl, _, _⟩ | ⟨fn, hc, _, h2 | h2⟩
  · exact Or.inl rfl
  · obtain ⟨v, _, _, rfl⟩ := h2; exact Or.inl rfl
  · obtain ⟨v, hx, _, rfl⟩ := h2; exact Or.inr ⟨fn, hc, hx⟩

example : (75 : Nat) = (0 : Nat) ∨ ∃ fn, callableAt exSt 1 2 = some fn ∧
    invokeFun 1 exProg exSt fn 5 = some (exSt.log (.call 0 7 5), .ok, 75) :=
  buffer_defined 1 exProg exSt _ 1 5 { pos := 2 } { pos := 2, invoked := true, buf := 75 } .ok
    (deref_callable 1 _ _ _ _ _ _ _ exImpl (exCell 2 7 false) _ rfl rfl rfl rfl rfl
      (invokeFun_leaf_nobody 0 exProg exSt 7 5 [] rfl))

/-! ## `bidirectional` -/

/-- `--(++it)` is at the same cell, in any list without duplicate ids -/
theorem bidirectional (cells : List Cell) (k n : Nat) (hnd : (cells.map (·.id)).Nodup)
    (h : succId cells k = some n) : predId cells n = some k :=
  predId_of_succId cells k n hnd h

example : predId exImpl.cells 3 = some 2 := bidirectional exImpl.cells 2 3 (by decide) (by decide)

/-- `++(--it)` is at the same cell -/
theorem bidirectional_converse (cells : List Cell) (k n : Nat) (hnd : (cells.map (·.id)).Nodup)
    (h : predId cells n = some k) : succId cells k = some n :=
  succId_of_predId cells k n hnd h

example : succId exImpl.cells 4 = some 5 := bidirectional_converse exImpl.cells 4 5 (by decide) (by decide)

/-- hence `++` and `--` are mutually inverse partial maps on the ids of the list -/
theorem bidirectional_iff (cells : List Cell) (k n : Nat) (hnd : (cells.map (·.id)).Nodup) :
    succId cells k = some n ↔ predId cells n = some k :=
  ⟨predId_of_succId cells k n hnd, succId_of_predId cells k n hnd⟩

/-- moves stay inside the list -/
theorem moves_stay_in_list (cells : List Cell) (k n : Nat) :
    (succId cells k = some n → k ∈ cells.map (·.id) ∧ n ∈ cells.map (·.id)) ∧
    (predId cells n = some k → k ∈ cells.map (·.id) ∧ n ∈ cells.map (·.id)) := by
  refine ⟨fun h => ⟨succId_src_mem _ _ _ h, succId_mem _ _ _ h⟩, fun h => ⟨predId_mem _ _ _ h, ?_⟩⟩
  have := predId_tgt_mem_tail _ _ _ h
  cases cells with
  | nil => simp at this
  | cons c t => simp at this ⊢; right; exact this

/-- every position but the last has a successor (so the walk from `begin()` reaches the end marker) -/
theorem succ_exists (cells : List Cell) (k : Nat) (h : k ∈ cells.dropLast.map (·.id)) :
    ∃ n, succId cells k = some n :=
  succId_isSome_of_mem_dropLast cells k h

example : ∃ n, succId exImpl.cells 4 = some n := succ_exists exImpl.cells 4 (by decide)

/-! ## movement: the loops move only by `succId`/`predId` of the *current* list and reset the flag -/

theorem accLoop_stops_at_end (f : Nat) (P : Prog) (s : St) (i : Nat) (it : IterBuf) (m arg mode k r : Nat)
    (h : it.pos = m) : accLoop (f+1) P s i it m arg mode k r = some (s, .ok, r) :=
  accLoop_at_end f P s i it m arg mode k r h

/-- `never`: `++it` without dereferencing -/
theorem accLoop_never_moves (f : Nat) (P : Prog) (s : St) (i : Nat) (it : IterBuf) (m arg k r : Nat)
    (im : Impl) (nxt : Nat) (hne : it.pos ≠ m) (hi : aget s.impls i = some im)
    (hn : succId im.cells it.pos = some nxt) :
    accLoop (f+1) P s i it m arg 3 k r
      = accLoop f P s i { it with pos := nxt, invoked := false } m arg 3 k (r + 1) :=
  accLoop_never_step f P s i it m arg k r im nxt hne hi hn

example : accLoop 2 exProg exSt 1 { pos := 4, invoked := true, buf := 9 } 5 0 3 0 0 = some (exSt, .ok, 1) := by
  rw [accLoop_never_moves 1 exProg exSt 1 _ 5 0 0 0 exImpl 5 (by decide) rfl (by decide)]
  exact accLoop_stops_at_end 0 _ _ _ _ _ _ _ _ _ rfl

/-- `sum`: `r += *it; ++it` — successor taken in the list as it is after the slot ran -/
theorem accLoop_sum_moves (f : Nat) (P : Prog) (s s1 : St) (i : Nat) (it it' : IterBuf) (m arg k r : Nat)
    (im : Impl) (nxt : Nat) (hne : it.pos ≠ m) (hd : deref f P s i it arg = some (s1, .ok, it'))
    (hi : aget s1.impls i = some im) (hn : succId im.cells it'.pos = some nxt) :
    accLoop (f+1) P s i it m arg 0 k r
      = accLoop f P s1 i { it' with pos := nxt, invoked := false } m arg 0 k (r + it'.buf) :=
  accLoop_sum_step f P s s1 i it it' m arg k r im nxt hne hd hi hn

/-- `stop k`: returns as soon as the running sum reaches `k` (later positions are never dereferenced) -/
theorem accLoop_stop_returns (f : Nat) (P : Prog) (s s1 : St) (i : Nat) (it it' : IterBuf) (m arg k r : Nat)
    (hne : it.pos ≠ m) (hd : deref f P s i it arg = some (s1, .ok, it')) (hk : r + it'.buf ≥ k) :
    accLoop (f+1) P s i it m arg 1 k r = some (s1, .ok, r + it'.buf) :=
  accLoop_stop_reached f P s s1 i it it' m arg k r hne hd hk

theorem accLoop_stop_moves (f : Nat) (P : Prog) (s s1 : St) (i : Nat) (it it' : IterBuf) (m arg k r : Nat)
    (im : Impl) (nxt : Nat) (hne : it.pos ≠ m) (hd : deref f P s i it arg = some (s1, .ok, it'))
    (hk : r + it'.buf < k) (hi : aget s1.impls i = some im) (hn : succId im.cells it'.pos = some nxt) :
    accLoop (f+1) P s i it m arg 1 k r
      = accLoop f P s1 i { it' with pos := nxt, invoked := false } m arg 1 k (r + it'.buf) :=
  accLoop_stop_step f P s s1 i it it' m arg k r im nxt hne hd hk hi hn

/-- `twice`: `r += *it; r += *it; ++it` — the second dereference is of the iterator the first returned -/
theorem accLoop_twice_moves (f : Nat) (P : Prog) (s s1 s2 : St) (i : Nat) (it it' it2 : IterBuf) (m arg k r : Nat)
    (im : Impl) (nxt : Nat) (hne : it.pos ≠ m) (hd : deref f P s i it arg = some (s1, .ok, it'))
    (hd2 : deref f P s1 i it' arg = some (s2, .ok, it2))
    (hi : aget s2.impls i = some im) (hn : succId im.cells it2.pos = some nxt) :
    accLoop (f+1) P s i it m arg 2 k r
      = accLoop f P s2 i { it2 with pos := nxt, invoked := false } m arg 2 k (r + it'.buf + it2.buf) :=
  accLoop_twice_step f P s s1 s2 i it it' it2 m arg k r im nxt hne hd hd2 hi hn

/-- `postinc`: `old = it++; r += *old` -/
theorem accLoop_postinc_moves (f : Nat) (P : Prog) (s s1 : St) (i : Nat) (it it' : IterBuf) (m arg k r : Nat)
    (im : Impl) (nxt : Nat) (hne : it.pos ≠ m) (hd : deref f P s i it arg = some (s1, .ok, it'))
    (hi : aget s1.impls i = some im) (hn : succId im.cells it.pos = some nxt) :
    accLoop (f+1) P s i it m arg 4 k r
      = accLoop f P s1 i { it with pos := nxt, invoked := false } m arg 4 k (r + it'.buf) :=
  accLoop_postinc_step f P s s1 i it it' m arg k r im nxt hne hd hi hn

/-- an exception leaves the accumulator at once with the outcome `exc` -/
theorem accLoop_exception (f : Nat) (P : Prog) (s s1 : St) (i : Nat) (it it' : IterBuf) (m arg mode k r : Nat)
    (hne : it.pos ≠ m) (hm : mode ≠ 3) (hd : deref f P s i it arg = some (s1, .exc, it')) :
    accLoop (f+1) P s i it m arg mode k r = some (s1, .exc, r) :=
  accLoop_exc f P s s1 i it it' m arg mode k r hne hm hd

/-- reverse walk: `--it` (predecessor in the current list, flag reset), then `r += *it` -/
theorem revLoop_moves (f : Nat) (P : Prog) (s : St) (i : Nat) (it : IterBuf) (first arg r : Nat)
    (im : Impl) (prv : Nat) (hne : it.pos ≠ first) (hi : aget s.impls i = some im)
    (hp : predId im.cells it.pos = some prv) :
    revLoop (f+1) P s i it first arg r =
      (match deref f P s i { it with pos := prv, invoked := false } arg with
       | none => none
       | some (s, .exc, _) => some (s, .exc, r)
       | some (s, .ok, it) => revLoop f P s i it first arg (r + it.buf)) :=
  revLoop_step f P s i it first arg r im prv hne hi hp

theorem revLoop_stops_at_begin (f : Nat) (P : Prog) (s : St) (i : Nat) (it : IterBuf) (first arg r : Nat)
    (h : it.pos = first) : revLoop (f+1) P s i it first arg r = some (s, .ok, r) :=
  revLoop_at_begin f P s i it first arg r h

example : revLoop 3 exProg exSt 1 { pos := 4, invoked := true, buf := 9 } 3 5 0 = some (exSt, .ok, 9) := by
  rw [revLoop_moves 2 exProg exSt 1 _ 3 5 0 exImpl 3 (by decide) rfl (by decide)]
  rw [deref_blocked_not_invoked 1 _ _ _ _ _ exImpl (exCell 3 8 true) rfl rfl rfl]
  exact revLoop_stops_at_begin _ _ _ _ _ _ _ _ rfl

theorem walkLoop_inc_moves (f : Nat) (P : Prog) (s : St) (i : Nat) (it : IterBuf) (first m arg r : Nat) (cs : List Char)
    (im : Impl) (nxt : Nat) (hne : it.pos ≠ m) (hi : aget s.impls i = some im)
    (hn : succId im.cells it.pos = some nxt) :
    walkLoop (f+1) P s i it first m arg ('i' :: cs) r
      = walkLoop f P s i { it with pos := nxt, invoked := false } first m arg cs r :=
  walkLoop_inc f P s i it first m arg r cs im nxt hne hi hn

theorem walkLoop_dec_moves (f : Nat) (P : Prog) (s : St) (i : Nat) (it : IterBuf) (first m arg r : Nat) (cs : List Char)
    (im : Impl) (prv : Nat) (hne : it.pos ≠ first) (hi : aget s.impls i = some im)
    (hp : predId im.cells it.pos = some prv) :
    walkLoop (f+1) P s i it first m arg ('x' :: cs) r
      = walkLoop f P s i { it with pos := prv, invoked := false } first m arg cs r :=
  walkLoop_dec f P s i it first m arg r cs im prv hne hi hp

example : walkLoop 3 exProg exSt 1 { pos := 2, invoked := true, buf := 9 } 2 6 5 ['i', 'x'] 0 = some (exSt, .ok, 0) := by
  rw [walkLoop_inc_moves 2 exProg exSt 1 _ 2 6 5 0 ['x'] exImpl 3 (by decide) rfl (by decide)]
  rw [walkLoop_dec_moves 1 exProg exSt 1 _ 2 6 5 0 [] exImpl 2 (by decide) rfl (by decide)]
  exact walkLoop_nil _ _ _ _ _ _ _ _ _

/-- `d`: dereference in place (flag and buffer kept by the iterator that is moved later) -/
theorem walkLoop_deref_step (f : Nat) (P : Prog) (s : St) (i : Nat) (it : IterBuf) (first m arg r : Nat) (cs : List Char)
    (hne : it.pos ≠ m) :
    walkLoop (f+1) P s i it first m arg ('d' :: cs) r =
      (match deref f P s i it arg with
       | none => none
       | some (s, .exc, _) => some (s, .exc, r)
       | some (s, .ok, it) => walkLoop f P s i it first m arg cs (r + it.buf)) :=
  walkLoop_deref f P s i it first m arg r cs hne

/-- `c`: a copy is dereferenced; the iterator itself keeps its flag (so a later `d` invokes again) -/
theorem walkLoop_copy_step (f : Nat) (P : Prog) (s : St) (i : Nat) (it : IterBuf) (first m arg r : Nat) (cs : List Char)
    (hne : it.pos ≠ m) :
    walkLoop (f+1) P s i it first m arg ('c' :: cs) r =
      (match deref f P s i it arg with
       | none => none
       | some (s, .exc, _) => some (s, .exc, r)
       | some (s, .ok, cp) => walkLoop f P s i it first m arg cs (r + cp.buf)) :=
  walkLoop_deref_copy f P s i it first m arg r cs hne

/-! ## `acc_called_once_with_snapshot`: one accumulator call / one loop per emission -/

/-- a signal that never had a slot list returns the default value and runs nothing -/
theorem emit_without_impl (f : Nat) (P : Prog) (s : St) (fl : Flavour) (arg : Nat) (st : Strat) :
    emitImpl (f+1) P s fl none arg st = some (s, .ok, 0) := by
  rw [emitImpl]

example : emitImpl 1 { bodies := [], top := [] } {} .A none 3 .sum = some ({}, .ok, 0) := emit_without_impl 0 _ _ _ _ _

/-- a non-accumulated emission of an empty list returns the default value and touches nothing -/
theorem emit_empty_list (f : Nat) (P : Prog) (s : St) (fl : Flavour) (i arg : Nat) (strat : Strat) (im : Impl)
    (hacc : fl.isAcc = false) (hi : aget s.impls i = some im) (he : im.cells = []) :
    emitImpl (f+1) P s fl (some i) arg strat = some (s, .ok, 0) :=
  emitImpl_plain_empty f P s fl i arg strat im hacc hi he

example : emitImpl 1 exProg { impls := [(1, {})] } .I (some 1) 3 .sum = some ({ impls := [(1, {})] }, .ok, 0) :=
  emit_empty_list 0 _ _ _ _ _ _ {} rfl rfl rfl

/-- with an accumulator: `emit` = prologue (`emitPrologue`: counts raised, fresh end marker `s.next`
    appended), then **exactly one** accumulator call `runStrat` over `[first, marker)` where `first` is
    the first cell present at emission start (`emitFirst`; the marker itself for an empty list), then
    the epilogue `emitEpilogue`, which runs no functor and no loop -/
theorem acc_called_once (f : Nat) (P : Prog) (s : St) (fl : Flavour) (i arg : Nat) (strat : Strat) (im : Impl)
    (hacc : fl.isAcc = true) (hi : aget s.impls i = some im) :
    emitImpl (f+1) P s fl (some i) arg strat =
      (match runStrat f P (emitPrologue s i im) i (emitFirst s im) s.next arg strat with
       | none => none
       | some (s2, o, v) => some (emitEpilogue s2 i s.next o v)) :=
  emitImpl_acc_unfold f P s fl i arg strat im hacc hi

/-- without an accumulator (non-empty list): prologue, exactly one `emitLoop` from the first cell to the
    marker starting from the value-initialised result 0, epilogue -/
theorem plain_one_loop (f : Nat) (P : Prog) (s : St) (fl : Flavour) (i arg : Nat) (strat : Strat) (im : Impl)
    (hacc : fl.isAcc = false) (hi : aget s.impls i = some im) (hne : im.cells ≠ []) :
    emitImpl (f+1) P s fl (some i) arg strat =
      (match emitLoop f P (emitPrologue s i im) i (emitFirst s im) s.next arg 0 with
       | none => none
       | some (s2, o, v) => some (emitEpilogue s2 i s.next o v)) :=
  emitImpl_plain_unfold f P s fl i arg strat im hacc hi hne

/-- `emit()` returns what the accumulator / the loop returned: the epilogue passes outcome and value through -/
theorem emit_returns_accumulator_result (s : St) (i m : Nat) (o : Outcome) (v : Nat) :
    (emitEpilogue s i m o v).2 = (o, v) :=
  emitEpilogue_passes s i m o v

/-- consequence: the value and outcome of an accumulated emission are exactly those of its one `runStrat` call -/
theorem emit_acc_value (f : Nat) (P : Prog) (s s' : St) (fl : Flavour) (i arg : Nat) (strat : Strat) (im : Impl)
    (o : Outcome) (v : Nat) (hacc : fl.isAcc = true) (hi : aget s.impls i = some im)
    (h : emitImpl (f+1) P s fl (some i) arg strat = some (s', o, v)) :
    ∃ s2, runStrat f P (emitPrologue s i im) i (emitFirst s im) s.next arg strat = some (s2, o, v) ∧
          s' = (emitEpilogue s2 i s.next o v).1 := by
  rw [acc_called_once f P s fl i arg strat im hacc hi] at h
  split at h
  · simp at h
  · rename_i s2 o2 v2 hr
    have hp := emitEpilogue_passes s2 i s.next o2 v2
    simp at h
    rw [h] at hp
    simp at hp
    obtain ⟨rfl, rfl⟩ := hp
    exact ⟨s2, hr, by rw [h]⟩

/-- the range handed to the accumulator: `first` is the head of the list at emission start, and the
    marker is the last cell of the list the accumulator walks -/
theorem acc_range (s : St) (i : Nat) (im : Impl) :
    (∃ im', aget (emitPrologue s i im).impls i = some im' ∧
        im'.cells.map (·.id) = im.cells.map (·.id) ++ [s.next] ∧
        im'.exec = im.exec + 1 ∧ im'.holders = im.holders + 1) ∧
    emitFirst s im = ((im.cells.map (·.id)) ++ [s.next]).head (by simp) := by
  constructor
  · exact ⟨{ im with exec := im.exec + 1, holders := im.holders + 1,
                       cells := im.cells ++ [{ id := s.next, slot := {}, linked := false }] },
            aget_aset_same _ _ _, by simp, rfl, rfl⟩
  · unfold emitFirst
    cases im.cells <;> simp

example : (emitImpl 10 exProg exSt .A (some 1) 5 .sum).map (·.2.2) = some 340 := by decide +kernel
example : (emitImpl 10 exProg exSt .A (some 1) 5 .rev).map (·.2.2) = some 265 := by decide +kernel
example : (emitImpl 10 exProg exSt .A (some 1) 5 .never).map (·.2.2) = some 4 := by decide +kernel
example : (emitImpl 10 exProg exSt .A (some 1) 5 (.stop 60)).map (·.2.2) = some 75 := by decide +kernel
example : (emitImpl 10 exProg exSt .I (some 1) 5 .sum).map (·.2.2) = some 95 := by decide +kernel

end Sigc.C13
