import Sigc.AdaptLemmas
/-!
  C10 — adaptors transform arguments and results exactly as documented.

  `callImpl` follows the call operators of `sigc++/adaptors/*.h` literally (tuple slicing with
  `tuple_start` / `tuple_end` (recursive, via `tuple_cdr`) / `tuple_transform_each`); `callSpec` is the
  documentation (insert at I, append, erase index, drop last, convert, constant result, composition,
  catcher iff throw, identity).  All theorems hold for every arity, every position, every number of
  bound values and every nesting depth.

  Results have identity: a target may return `T&` / `const T&` to a designated object (`Val.ref`); "returns the
  result of the wrapped functor" means that very reference.  How each call operator hands the result on is the
  explicit table `resultMode`, one row per call operator — the non-template nullary overloads `operator()()` of
  `adaptor_functor`, `bind_return_functor` and `exception_catch_functor` are rows of their own (`decltype(auto)` or
  `unwrap_reference<T_return>::type` everywhere in the current code); `impl_eq_spec` is proved for the table as it
  is, `decay_witness` / `nullary_decay_witness` show that it fails as soon as one row goes through a by-value type
  (`std::common_type_t`, `auto`).

  Declared parameter types (`Par`): `retype(f)` hands `f` every argument converted to the declared type and then bound
  (`castPar`), also when the parameter is a `const T&` / `T&&` bound to a converting temporary
  (`retype_converts_then_binds`).  Exceptions have a type and catchers may be partial: `exception_catch(f, c)` returns
  `c()` when `c` handles what `f` throws (`exception_catch_throw`), otherwise the exception leaves the adaptor unchanged
  and reaches the next enclosing `exception_catch` or the caller, also through a slot and an emission
  (`exception_catch_partial_propagates`).
-/
namespace Sigc.C10
open Sigc.Adapt

/-- `tuple_start<n>(t)` is the first `n` elements -/
theorem tupleStart_eq_take (n : Nat) (l : List α) : tupleStart n l = l.take n :=
  tupleStart_take n l

example : tupleStart 2 [10, 20, 30, 40] = [10, 20] := by decide

/-- the `tuple_cdr` recursion of `tuple_end<k>(t)` (with its `size - len == 0 / 1` branches) yields the last `k` elements -/
theorem tupleEnd_eq_drop (k : Nat) (l : List α) (h : k ≤ l.length) :
    tupleEnd k l = l.drop (l.length - k) :=
  tupleEnd_drop k l h

example : tupleEnd 2 [10, 20, 30, 40, 50] = [40, 50] ∧ tupleEnd 4 [10, 20, 30, 40, 50] = [20, 30, 40, 50]
    ∧ tupleEnd 5 [10, 20, 30, 40, 50] = [10, 20, 30, 40, 50] ∧ tupleEnd 0 [10, 20] = [] := by decide

/-- `tuple_transform_each<TransformEachInvoker>(bound_)` yields the invoked bound values, all of them, in order -/
theorem bound_in_order (f : α → β) (bs : List α) : invokeEach f bs = bs.map f :=
  invokeEach_eq_map f bs

example : invokeEach (fun n : Nat => n + 1) [1, 2, 3] = [2, 3, 4] := by decide

/-- `bind<I>(f, b...)` calls `f` with the bound values inserted at position `I` — every arity, every `I ≤ n`,
    every number of bound values -/
theorem bind_insert (i : Nat) (bs args : List Val) (f : FExpr) (h : i ≤ args.length) :
    callImpl (.un (.bind (some i) bs) f) args = callImpl f (args.take i ++ bs ++ args.drop i) := by
  have := argsImpl_eq_argsSpec (.bind (some i) bs) args (by simp [nodeArity, h])
  simp only [callImpl_un, this, argsSpec, Outcome.mapRes]
  cases (callImpl f (args.take i ++ bs ++ args.drop i)) with
  | mk log res => cases res <;> rfl

example : (callImpl (.un (.bind (some 1) [.num .int 7, .num .int 8]) (.leaf 0 [.int, .int, .int, .int] none none))
    [.num .int 1, .num .int 2]).log = [⟨0, [.num .int 1, .num .int 7, .num .int 8, .num .int 2]⟩] := by decide

/-- `bind(f, b...)` appends the bound values -/
theorem bind_append (bs args : List Val) (f : FExpr) :
    callImpl (.un (.bind none bs) f) args = callImpl f (args ++ bs) := by
  have := argsImpl_eq_argsSpec (.bind none bs) args (by simp [nodeArity])
  simp only [callImpl_un, this, argsSpec, Outcome.mapRes]
  cases (callImpl f (args ++ bs)) with
  | mk log res => cases res <;> rfl

example : (callImpl (.un (.bind none [.num .int 7, .num .int 8]) (.leaf 0 [.int, .int, .int] none none))
    [.num .int 1]).log = [⟨0, [.num .int 1, .num .int 7, .num .int 8]⟩] := by decide

/-- `hide<I>(f)` calls `f` without argument `I` — every arity, every `I < n` -/
theorem hide_erase (i : Nat) (args : List Val) (f : FExpr) (h : i < args.length) :
    callImpl (.un (.hide (some i)) f) args = callImpl f (args.eraseIdx i) := by
  have := argsImpl_eq_argsSpec (.hide (some i)) args (by simp [nodeArity, h])
  simp only [callImpl_un, this, argsSpec, Outcome.mapRes]
  cases (callImpl f (args.eraseIdx i)) with
  | mk log res => cases res <;> rfl

example : (callImpl (.un (.hide (some 1)) (.leaf 0 [.int, .int, .int] none none))
    [.num .int 1, .num .int 2, .num .int 3, .num .int 4]).log = [⟨0, [.num .int 1, .num .int 3, .num .int 4]⟩] := by
  decide

/-- `hide(f)` (position -1) calls `f` without the last argument -/
theorem hide_last (args : List Val) (f : FExpr) (h : args ≠ []) :
    callImpl (.un (.hide none) f) args = callImpl f args.dropLast := by
  have hl : 0 < args.length := List.length_pos_iff.mpr h
  have := argsImpl_eq_argsSpec (.hide none) args (by simp [nodeArity, hl])
  simp only [callImpl_un, this, argsSpec, Outcome.mapRes]
  cases (callImpl f args.dropLast) with
  | mk log res => cases res <;> rfl

example : (callImpl (.un (.hide none) (.leaf 0 [.int, .int] none none))
    [.num .int 1, .num .int 2, .num .int 3]).log = [⟨0, [.num .int 1, .num .int 2]⟩] := by decide

/-- **Bound arguments are handed on as they were bound.**  A bound argument whose type is spelled as a reference —
    `bind<I, F, T&>(f, x)`, `bind<F, const T&>(f, x)` (bind.h: "the types of the arguments can optionally be specified") —
    is the object `x` itself: a target parameter declared `const T&` at that position IS `x` (identity, no copy), for
    every position, every arity and any other bound values around it; a bound *value* reaches the target as the value
    that was bound (the adaptor stores a copy of it, nothing else). -/
theorem bind_reference_identity (i : Nat) (bs args : List Val) (id : Nat) (ps : List Ty) (ret : Option Ty)
    (h : i ≤ args.length) :
    (callImpl (.un (.bind (some i) bs) (.pleaf id ps ret none)) args).log
        = [⟨id, List.zipWith bindCRef ps (args.take i ++ bs ++ args.drop i)⟩]
    ∧ (callImpl (.un (.bind none bs) (.pleaf id ps ret none)) args).log
        = [⟨id, List.zipWith bindCRef ps (args ++ bs)⟩]
    ∧ (∀ t c cell n, bindCRef t (.ref c t cell n) = .ref true t cell n) := by
  refine ⟨?_, ?_, ?_⟩
  · rw [bind_insert i bs args _ h]; rfl
  · rw [bind_append]; rfl
  · intro t c cell n; simp [bindCRef]

-- bind<1, F, long&, const double&>(f, x, y)(1, 2) with f(const int&, const long&, const double&, const int&): the
-- parameters 1 and 2 are the pool objects x (100) and y (101); bind(f, Json(7))(1) and bind_return(f, Json(7))():
-- the JSON number 7 as it was bound
example :
    let f := FExpr.pleaf 0 [.int, .long, .dbl, .int] none none
    (callImpl (.un (.bind (some 1) [.ref false .long 100 5, .ref true .dbl 101 25]) f) [.num .int 1, .num .int 2]).log
        = [⟨0, [.num .int 1, .ref true .long 100 5, .ref true .dbl 101 25, .num .int 2]⟩]
    ∧ (callImpl (.un (.bind none [.num .json 7]) (.leaf 1 [.int, .json] none none)) [.num .int 1]).log
        = [⟨1, [.num .int 1, .num .json 7]⟩]
    ∧ (callImpl (.un (.bindReturn (.num .json 7)) (.leaf 2 [] none none)) []).res = .ok (.num .json 7) := by decide

/-- the code equals the documentation for every functor expression (adaptors nested to any depth) and all arguments -/
theorem impl_eq_spec (e : FExpr) (args : List Val) (h : wellTyped e args.length = true) :
    callImpl e args = callSpec e args :=
  callImpl_eq_callSpec e args h

-- hide(bind<1>(compose(s, g), 2.7) ) applied to three arguments: non-trivial, well-typed
example :
    let e := FExpr.un (.hide none) (.un (.bind (some 1) [.num .dbl 27])
      (.compose1 (.leaf 1 [.long] (some .long) none) (.leaf 0 [.int, .int, .int] (some .dbl) none)))
    wellTyped e 3 = true ∧
    callImpl e [.num .int 1, .num .int 5, .num .int 9]
      = ⟨[⟨0, [.num .int 1, .num .int 2, .num .int 5]⟩, ⟨1, [.num .long 20]⟩], .ok (.num .long 120)⟩ := by
  decide

/-- the result clauses of the statement, as the code computes them -/
theorem result_clauses (f : FExpr) (args : List Val) (v : Val) (h : (callImpl f args).res = .ok v) :
    (∀ r, (callImpl (.un (.retypeReturn r) f) args).res = .ok (conv r v))
    ∧ (callImpl (.un .hideReturn f) args).res = .ok .unit
    ∧ (∀ b, (callImpl (.un (.bindReturn b) f) args).res = .ok b)
    ∧ (∀ n, callImpl (.un (.trackObj n) f) args = callImpl f args)
    ∧ (∀ c, callImpl (.exceptionCatch f c) args = callImpl f args)
    ∧ (∀ s, (callImpl (.compose1 s f) args).res = (callImpl s [v]).res) := by
  refine ⟨?_, ?_, ?_, ?_, ?_, ?_⟩
  · intro r; simp [callImpl_un, argsImpl, Outcome.mapRes, h, Res.map, resOf]
  · simp [callImpl_un, argsImpl, Outcome.mapRes, h, Res.map, resOf]
  · intro b; simp [callImpl_un, argsImpl, Outcome.mapRes, h, Res.map, resOf]
  · intro n
    simp only [callImpl_un, argsImpl, Outcome.mapRes]
    cases callImpl f args with
    | mk log res => cases res <;> rfl
  · intro c; simp [callImpl_exceptionCatch, Outcome.orCatch, h]
  · intro s; simp [callImpl_compose1, Outcome.andThen, h]

example : (callImpl (.leaf 3 [.dbl] (some .dbl) none) [.num .dbl 27]).res = .ok (.num .dbl 3025) := by decide

/-- `exception_catch(f, c)` returns `c()` exactly when `f` throws (an exception that the catcher handles: every
    exception for a catcher that does not rethrow; see `exception_catch_partial_propagates` for the other case) -/
theorem exception_catch_throw (f c : FExpr) (args : List Val) (x : Exc) (h : (callImpl f args).res = .threw x)
    (hc : c.handles x = true) :
    (callImpl (.exceptionCatch f c) args).res = (callImpl c []).res
    ∧ (callImpl (.exceptionCatch f c) args).log = (callImpl f args).log ++ (callImpl c []).log := by
  simp [callImpl_exceptionCatch, Outcome.orCatch, h, hc]

example : (callImpl (.leaf 3 [.int] (some .int) (some .k1)) [.num .int 1]).res = .threw .k1
    ∧ (FExpr.leaf 4 [] (some .int) none).handles .k1 = true ∧ (FExpr.leaf 4 [] (some .int) none).handles .k2 = true
    ∧ (FExpr.pcatch 4 (some .int) [.k1]).handles .k1 = true := by decide

/-- **Partial catchers.**  A catcher that rethrows the exception in flight and handles only the types it knows
    (`try { throw; } catch (K1&) {…}`) makes `exception_catch(f, c)` return `c()` when `f` throws one of those types,
    and lets every other exception leave the adaptor unchanged: it reaches the next enclosing `exception_catch`, whose
    catcher returns its value if it handles that type, or — through `slot::operator()` and `signal::emit` as well —
    the caller.  Nothing is recorded after the throwing target in that case (the catcher's body does not run). -/
theorem exception_catch_partial_propagates (f c : FExpr) (args : List Val) (x : Exc)
    (h : (callImpl f args).res = .threw x) (hc : c.handles x = false) :
    callImpl (.exceptionCatch f c) args = callImpl f args
    ∧ (∀ c2, c2.handles x = true →
        (callImpl (.exceptionCatch (.exceptionCatch f c) c2) args).res = (callImpl c2 []).res
        ∧ (callImpl (.exceptionCatch (.exceptionCatch f c) c2) args).log = (callImpl f args).log ++ (callImpl c2 []).log)
    ∧ (∀ c2, c2.handles x = false → (callImpl (.exceptionCatch (.exceptionCatch f c) c2) args).res = .threw x)
    ∧ (∀ s : SlotM, s.f = .exceptionCatch f c → s.callable = true →
        (s.call args).res = .threw x ∧ (viaSignal s.ret [s] args).res = .threw x
        ∧ (viaSignal s.ret [s] args).log = (callImpl f args).log) := by
  have h0 : callImpl (.exceptionCatch f c) args = callImpl f args := by
    simp [callImpl_exceptionCatch, Outcome.orCatch, h, hc]
  refine ⟨h0, ?_, ?_, ?_⟩
  · intro c2 h2
    rw [callImpl_exceptionCatch, h0]
    simp [Outcome.orCatch, h, h2]
  · intro c2 h2
    rw [callImpl_exceptionCatch, h0]
    simp [Outcome.orCatch, h, h2]
  · intro s hf hcl
    have hcall : callIt s args = ⟨(callImpl f args).log, .threw x⟩ := by
      rw [callIt_eq, hf, h0]
      simp [Outcome.mapRes, h, Res.map]
    refine ⟨by simp [SlotM.call, hcl, hcall], ?_⟩
    cases hr : s.ret with
    | none => simp [viaSignal, emitVoid, hcl, sigCall, hcall, Res.map]
    | some t => simp [viaSignal, emitValue, List.dropWhile, hcl, sigCall, hcall]

-- f throws K2; the K1-only catcher lets it pass (nothing recorded after f), an outer total catcher handles it,
-- an outer K1-only catcher does not; f throws K1: the K1-only catcher handles it; slot and signal routes
example :
    let f (x : Exc) := FExpr.leaf 0 [.int] (some .long) (some x)
    let pc := FExpr.pcatch 1 (some .long) [.k1]
    let tot := FExpr.leaf 2 [] (some .long) none
    let s : SlotM := ⟨false, false, some .long, .exceptionCatch (f .k2) pc⟩
    wellTyped (.exceptionCatch (.exceptionCatch (f .k2) pc) tot) 1 = true
    ∧ pc.handles .k2 = false ∧ tot.handles .k2 = true
    ∧ callImpl (.exceptionCatch (f .k2) pc) [.num .int 5] = ⟨[⟨0, [.num .int 5]⟩], .threw .k2⟩
    ∧ callImpl (.exceptionCatch (f .k1) pc) [.num .int 5] = ⟨[⟨0, [.num .int 5]⟩, ⟨1, []⟩], .ok (.num .long 100)⟩
    ∧ callImpl (.exceptionCatch (.exceptionCatch (f .k2) pc) tot) [.num .int 5]
        = ⟨[⟨0, [.num .int 5]⟩, ⟨2, []⟩], .ok (.num .long 200)⟩
    ∧ (callImpl (.exceptionCatch (.exceptionCatch (f .k2) pc) pc) [.num .int 5]).res = .threw .k2
    ∧ (s.call [.num .int 5]).res = .threw .k2 ∧ (viaSignal s.ret [s] [.num .int 5]).res = .threw .k2 := by decide

/-- a catcher that handles nothing it is given must not turn the call into anything else: with the documentation
    (`callSpec`) as with the code, for every well-typed expression — `impl_eq_spec` covers partial catchers -/
example :
    let e := FExpr.exceptionCatch (.leaf 0 [.int] (some .long) (some .k2)) (.pcatch 1 (some .long) [.k1])
    wellTyped e 1 = true ∧ callSpec e [.num .int 5] = ⟨[⟨0, [.num .int 5]⟩], .threw .k2⟩ := by decide

/-- **retype converts, then binds.**  `retype(f)` hands `f` each argument converted to `f`'s declared parameter type
    (`static_cast<T_type>(a)` inside the call expression): a parameter declared `const T&` / `T&&` that needs a
    converting temporary (different arithmetic type, `Str` from a number) is bound to a temporary that lives until the
    call returns, so the target receives the *converted value*; a `const T&` parameter fed a reference result of type
    `T` is that very object.  Every arity, every mix of declared kinds. -/
theorem retype_converts_then_binds (ps : List Par) (f : FExpr) (args : List Val) :
    callImpl (.un (.retype ps) f) args = callImpl f (List.zipWith castPar ps args)
    ∧ (∀ id ret thr, (callImpl (.un (.retype ps) (.qleaf id ps ret thr)) args).log
        = [⟨id, List.zipWith castPar ps (List.zipWith castPar ps args)⟩])
    ∧ (∀ (m : PMode) (t s : Ty) (n : Int), castPar ⟨m, t⟩ (.num s n) = convNum t s n)
    ∧ (∀ t c cell n, castPar ⟨.cref, t⟩ (.ref c t cell n) = .ref true t cell n) := by
  refine ⟨?_, ?_, ?_, ?_⟩
  · rw [callImpl_un]
    simp only [argsImpl, Outcome.mapRes]
    cases callImpl f (List.zipWith castPar ps args) with
    | mk log res => cases res <;> rfl
  · intro id ret thr
    rw [callImpl_un]
    rfl
  · intro m t s n
    cases m <;> rfl
  · intro t c cell n
    simp [castPar, bindCRef]

-- retype(ptr_fun(&f)) with f(const long&, Str&&, const Str&, double) called with (int 5, long 7, double 2.9, int 3):
-- the target receives long 5, Str 7, Str 2, double 3.0 — the converted values (converting again changes nothing)
example :
    let ps : List Par := [⟨.cref, .long⟩, ⟨.rref, .str⟩, ⟨.cref, .str⟩, ⟨.val, .dbl⟩]
    let e := FExpr.un (.retype ps) (.qleaf 0 ps (some .long) none)
    wellTyped e 4 = true
    ∧ callImpl e [.num .int 5, .num .long 7, .num .dbl 29, .num .int 3]
        = ⟨[⟨0, [.num .long 5, .num .str 7, .num .str 2, .num .dbl 30]⟩], .ok (.num .long 37)⟩ := by decide

/-- every row of the result table of the current code is `decltype(auto)` or a declared return type — none decays -/
theorem resultMode_forwarding : ∀ k, resultMode k ≠ .decays := resultMode_ne_decays

/-- **Result identity.**  When the wrapped functor returns a reference to object `cell`, so do — for all arguments,
    at any nesting depth of `f` — `bind`, `hide`, `retype`, `track_object`, `exception_catch` (also when the
    reference comes from the catcher), `compose` (the setter's result) and `retype_return<T&>`; conversion to a value
    happens only where a value type is named (`retype_return<T>`, `slot<T(...)>`). -/
theorem result_identity (f : FExpr) (args : List Val) (c : Bool) (t : Ty) (cell : Nat) (n : Int) :
    (∀ nd : Node, nd.forwards = true → (callImpl f (argsImpl nd args)).res = .ok (.ref c t cell n) →
        (callImpl (.un nd f) args).res = .ok (.ref c t cell n))
    ∧ (∀ k, (callImpl f args).res = .ok (.ref c t cell n) → (callImpl (.exceptionCatch f k) args).res = .ok (.ref c t cell n))
    ∧ (∀ g x, (callImpl g args).res = .threw x → f.handles x = true → (callImpl f []).res = .ok (.ref c t cell n) →
        (callImpl (.exceptionCatch g f) args).res = .ok (.ref c t cell n))
    ∧ (∀ g v, (callImpl g args).res = .ok v → (callImpl f [v]).res = .ok (.ref c t cell n) →
        (callImpl (.compose1 f g) args).res = .ok (.ref c t cell n))
    ∧ (∀ g1 g2 v1 v2, (callImpl g1 args).res = .ok v1 → (callImpl g2 args).res = .ok v2 →
        (callImpl f [v1, v2]).res = .ok (.ref c t cell n) →
        (callImpl (.compose2 f g1 g2) args).res = .ok (.ref c t cell n))
    ∧ (∀ c', (callImpl f args).res = .ok (.ref c t cell n) →
        (callImpl (.un (.retypeReturnRef c' t) f) args).res = .ok (.ref c' t cell n))
    ∧ (∀ r, (callImpl f args).res = .ok (.ref c t cell n) →
        (callImpl (.un (.retypeReturn r) f) args).res = .ok (convNum r t n)) := by
  refine ⟨?_, ?_, ?_, ?_, ?_, ?_, ?_⟩
  · intro nd hk h
    rw [callImpl_un]
    simp only [Outcome.mapRes, h, Res.map]
    cases nd <;> simp [Node.forwards] at hk <;> rfl
  · intro k h; simp [callImpl_exceptionCatch, Outcome.orCatch, h]
  · intro g x hg hx h; simp [callImpl_exceptionCatch, Outcome.orCatch, hg, hx, h]
  · intro g v hg h; simp [callImpl_compose1, Outcome.andThen, hg, h]
  · intro g1 g2 v1 v2 h1 h2 h; simp [callImpl_compose2, Outcome.andThen, h1, h2, h]
  · intro c' h; simp [callImpl_un, argsImpl, Outcome.mapRes, h, Res.map, resOf]
  · intro r h; simp [callImpl_un, argsImpl, Outcome.mapRes, h, Res.map, resOf, conv]

-- bind<0>(exception_catch(hide(track_object(f, t)), c), 4) where f returns `long&` to its pool object 0:
-- the result is that reference; when f throws it is the catcher's reference (object 1)
example :
    let f (thr : Option Exc) := FExpr.un (.bind (some 0) [.num .int 4]) (.exceptionCatch
      (.un (.hide none) (.un (.trackObj 1) (.rleaf 0 [.int] false .long thr))) (.rleaf 1 [] false .long none))
    wellTyped (f none) 1 = true
    ∧ (callImpl (f none) [.num .int 9]).res = .ok (.ref false .long 0 4)
    ∧ (callImpl (f (some .k2)) [.num .int 9]).res = .ok (.ref false .long 1 100)
    ∧ (callImpl (.un (.retypeReturnRef true .long) (f none)) [.num .int 9]).res = .ok (.ref true .long 0 4)
    ∧ (callImpl (.un (.retypeReturn .dbl) (f none)) [.num .int 9]).res = .ok (.num .dbl 40) := by decide

/-- **Bound references.**  `bind_return(f, std::ref(x))` / `std::cref(x)` returns the reference to `x` itself (zero
    copies) — called without arguments (the separate nullary overload) or with arguments, for every `f` that returns
    normally, and also below `hide`, `bind`, `track_object`, `retype` and as the getter of `compose`, whose setter then
    receives the value of `x`. -/
theorem bound_result_identity (f : FExpr) (c : Bool) (t : Ty) (cell : Nat) (n : Int) :
    let br := FExpr.un (.bindReturn (.ref c t cell n)) f
    (∀ args v, (callImpl f args).res = .ok v → (callImpl br args).res = .ok (.ref c t cell n))
    ∧ (∀ v, (callImpl f []).res = .ok v → (callImpl br []).res = .ok (.ref c t cell n))
    ∧ (∀ nd : Node, nd.forwards = true → ∀ args v, (callImpl f (argsImpl nd args)).res = .ok v →
        (callImpl (.un nd br) args).res = .ok (.ref c t cell n))
    ∧ (∀ s args v, (callImpl f args).res = .ok v →
        (callImpl (.compose1 s br) args).res = (callImpl s [.ref c t cell n]).res) :=
  bindReturn_ref_result f c t cell n

-- bind_return(&nullary, std::cref(x))() and hide(bind_return(&nullary, std::cref(x)))(42): the reference to x (pool
-- object 100 holding 7), not a copy
example :
    let br := FExpr.un (.bindReturn (.ref true .long 100 7)) (.leaf 0 [] none none)
    wellTyped br 0 = true ∧ wellTyped (.un (.hide none) br) 1 = true
    ∧ (callImpl br []).res = .ok (.ref true .long 100 7)
    ∧ (callImpl (.un (.hide none) br) [.num .int 42]).res = .ok (.ref true .long 100 7)
    ∧ (callImpl (.compose1 (.leaf 1 [.long] (some .long) none) br) []).res = .ok (.num .long 107) := by decide

/-- the result table of a code in which `exception_catch` hands both results through
    `static_cast<std::common_type_t<...>>` (both overloads) -/
def tableDecay : ResSite → ResMode
  | .exceptionCatch0 => .decays
  | .exceptionCatch => .decays
  | k => resultMode k

/-- **Decay witness.**  With a decaying row `impl_eq_spec` is false: `exception_catch(f, c)(3)` with `f`, `c`
    returning `long&` yields a copy (a value) where the documentation yields the reference to `f`'s object — also
    below `bind`; value-returning functors do not see the difference. -/
theorem decay_witness :
    let f := FExpr.rleaf 0 [.int] false .long none
    let c := FExpr.rleaf 1 [] false .long none
    let e := FExpr.exceptionCatch f c
    wellTyped e 1 = true
    ∧ (callSpec e [.num .int 3]).res = .ok (.ref false .long 0 3)
    ∧ (callImplT tableDecay e false [.num .int 3]).res = .ok (.num .long 3)
    ∧ (callImplT tableDecay (.un (.bind none [.num .int 3]) (.un (.hide none) e)) false [.num .int 5]).res = .ok (.num .long 5)
    ∧ callImpl e [.num .int 3] = callSpec e [.num .int 3]
    ∧ callImplT tableDecay (.exceptionCatch (.leaf 0 [.int] (some .long) none) (.leaf 1 [] (some .long) none)) false
          [.num .int 3]
        = callSpec (.exceptionCatch (.leaf 0 [.int] (some .long) none) (.leaf 1 [] (some .long) none)) [.num .int 3] := by
  decide

/-- the result table of a code in which the nullary overload `bind_return_functor::operator()()` is declared `auto` -/
def tableAuto0 : ResSite → ResMode
  | .bindReturn0 => .decays
  | k => resultMode k

/-- **Nullary-overload witness.**  With `auto` in the `bindReturn0` row, `bind_return(&nullary, std::cref(x))()` and
    `hide(bind_return(&nullary, std::cref(x)))(42)` yield a copy of `x`; the call with an argument (variadic overload)
    and the call through `slot_call::call_it` (which names the template overload explicitly) still yield the reference —
    which is why only direct and nested nullary calls expose it. -/
theorem nullary_decay_witness :
    let br0 := FExpr.un (.bindReturn (.ref true .long 100 7)) (.leaf 0 [] none none)
    let br1 := FExpr.un (.bindReturn (.ref true .long 100 7)) (.leaf 0 [.int] none none)
    (callSpec br0 []).res = .ok (.ref true .long 100 7)
    ∧ (callImplT tableAuto0 br0 false []).res = .ok (.num .long 7)
    ∧ (callImplT tableAuto0 (.un (.hide none) br0) false [.num .int 42]).res = .ok (.num .long 7)
    ∧ (callImplT tableAuto0 br1 false [.num .int 1]).res = .ok (.ref true .long 100 7)
    ∧ (callImplT tableAuto0 br0 true []).res = .ok (.ref true .long 100 7)
    ∧ callImpl br0 [] = callSpec br0 [] := by
  decide

/-- **compose hands the getters' results themselves to the setter** — `compose(s, g)(x) = s(g(x))`,
    `compose(s, g1, g2)(x) = s(g1(x), g2(x))` with the very results as argument expressions: a getter that returns a
    reference gives the setter that object (a setter parameter declared `const T&` / `T&` IS the getter's object). -/
theorem compose_passes_result (s g g1 g2 : FExpr) (args : List Val) :
    callImpl (.compose1 s g) args = (callImpl g args).andThen (fun v => callImpl s [v])
    ∧ callImpl (.compose2 s g1 g2) args
        = (callImpl g1 args).andThen (fun v1 => (callImpl g2 args).andThen (fun v2 => callImpl s [v1, v2])) :=
  ⟨callImpl_compose1 s g args, callImpl_compose2 s g1 g2 args⟩

-- compose(s, g1, g2)(3): g1 returns long& (its pool object 0), g2 returns const long& (object 1); the setter's
-- `const long&` parameters are those two objects; a `const long&` parameter fed from an int& result is a temporary
example :
    let e := FExpr.compose2 (.pleaf 2 [.long, .long] (some .long) none) (.rleaf 0 [.int] false .long none)
      (.rleaf 1 [.int] true .long none)
    wellTyped e 1 = true
    ∧ (callImpl e [.num .int 3]).log
        = [⟨0, [.num .int 3]⟩, ⟨1, [.num .int 3]⟩, ⟨2, [.ref true .long 0 3, .ref true .long 1 103]⟩]
    ∧ (callImpl (.compose1 (.pleaf 1 [.long] none none) (.rleaf 0 [.int] false .int none)) [.num .int 3]).log
        = [⟨0, [.num .int 3]⟩, ⟨1, [.num .long 3]⟩] := by decide

/-- the result table of a code in which `compose2_functor` first stores the getters' results in `auto` locals -/
def tableAutoLocals : ResSite → ResMode
  | .compose2Arg => .decays
  | k => resultMode k

/-- **Getter-result witness.**  With `auto` locals in `compose2_functor::operator()` the setter no longer receives the
    getters' objects but copies; getters returning values (and the one-getter `compose`) show no difference. -/
theorem getter_decay_witness :
    let s := FExpr.pleaf 2 [.long, .long] (some .long) none
    let e := FExpr.compose2 s (.rleaf 0 [.int] false .long none) (.rleaf 1 [.int] true .long none)
    let ev := FExpr.compose2 s (.leaf 0 [.int] (some .long) none) (.leaf 1 [.int] (some .long) none)
    (callSpec e [.num .int 3]).log
        = [⟨0, [.num .int 3]⟩, ⟨1, [.num .int 3]⟩, ⟨2, [.ref true .long 0 3, .ref true .long 1 103]⟩]
    ∧ (callImplT tableAutoLocals e false [.num .int 3]).log
        = [⟨0, [.num .int 3]⟩, ⟨1, [.num .int 3]⟩, ⟨2, [.num .long 3, .num .long 103]⟩]
    ∧ callImplT tableAutoLocals ev false [.num .int 3] = callSpec ev [.num .int 3]
    ∧ callImplT tableAutoLocals (.compose1 (.pleaf 2 [.long] none none) (.rleaf 0 [.int] false .long none)) false [.num .int 3]
        = callSpec (.compose1 (.pleaf 2 [.long] none none) (.rleaf 0 [.int] false .long none)) [.num .int 3] := by
  decide

/-- direct call, call through a slot, emission of a signal holding that single slot: same received arguments,
    same result (the slot's declared return type being the functor's result type) -/
theorem routes_agree (e : FExpr) (args : List Val) (s : SlotM) (hf : s.f = e) (hc : s.callable = true)
    (hret : (direct e args).res.map (retConv s.ret) = (direct e args).res) :
    s.call args = direct e args ∧ viaSignal s.ret [s] args = direct e args := by
  have hcall : callIt s args = direct e args := by
    rw [callIt_eq]
    simp only [direct, Outcome.mapRes, hf] at hret ⊢
    rw [hret]
  constructor
  · simp [SlotM.call, hc, hcall]
  · cases hr : s.ret with
    | none =>
      simp only [viaSignal, emitVoid, hc, if_true, sigCall, hcall, List.nil_append]
      have hret' := hret
      simp only [hr] at hret'
      cases hd : direct e args with
      | mk log res =>
        simp only [hd] at hret' ⊢
        cases res with
        | threw => rfl
        | ok v =>
          simp only [Res.map, retConv, Res.ok.injEq] at hret'
          simp [Res.map, hret'.symm]
    | some t =>
      simp only [viaSignal, emitValue, List.isEmpty_cons, List.dropWhile, hc, Bool.not_true, sigCall, hcall,
        List.nil_append]
      cases hd : direct e args with
      | mk log res =>
        cases res with
        | threw => simp
        | ok v => simp [emitLoop]

example :
    let e := FExpr.un (.bind (some 0) [.num .int 4]) (.leaf 0 [.int, .dbl] (some .dbl) none)
    let s : SlotM := ⟨false, false, some .dbl, e⟩
    s.callable = true ∧ (direct e [.num .dbl 27]).res.map (retConv s.ret) = (direct e [.num .dbl 27]).res
      ∧ direct e [.num .dbl 27] = ⟨[⟨0, [.num .int 4, .num .dbl 27]⟩], .ok (.num .dbl 85)⟩ := by decide

end Sigc.C10
