import Sigc.AdaptLemmas
/-!
  C10 — adaptors transform arguments and results exactly as documented.

  `callImpl` follows the call operators of `sigc++/adaptors/*.h` literally (tuple slicing with
  `tuple_start` / `tuple_end` (recursive, via `tuple_cdr`) / `tuple_transform_each`); `callSpec` is the
  documentation (insert at I, append, erase index, drop last, convert, constant result, composition,
  catcher iff throw, identity).  All theorems hold for every arity, every position, every number of
  bound values and every nesting depth.
-/
namespace Sigc.C10
open Sigc.Adapt

/-- `tuple_start<n>(t)` is the first `n` elements -/
theorem tupleStart_eq_take (n : Nat) (l : List α) : tupleStart n l = l.take n :=
  tupleStart_take n l

example : tupleStart 2 [10, 20, 30, 40] = [10, 20] := by decide

/-- the `tuple_cdr` recursion of `tuple_end<k>(t)` (with its `size - len == 0 / 1` branches) yields the last `k` elements -/
theorem tupleEnd_eq_drop (k : Nat) (l : List α) (h : k ≤ l.length) :
    tupleEnd k l = l.drop (l.length - k) :=
  tupleEnd_drop k l h

example : tupleEnd 2 [10, 20, 30, 40, 50] = [40, 50] ∧ tupleEnd 4 [10, 20, 30, 40, 50] = [20, 30, 40, 50]
    ∧ tupleEnd 5 [10, 20, 30, 40, 50] = [10, 20, 30, 40, 50] ∧ tupleEnd 0 [10, 20] = [] := by decide

/-- `tuple_transform_each<TransformEachInvoker>(bound_)` yields the invoked bound values, all of them, in order -/
theorem bound_in_order (f : α → β) (bs : List α) : invokeEach f bs = bs.map f :=
  invokeEach_eq_map f bs

example : invokeEach (fun n : Nat => n + 1) [1, 2, 3] = [2, 3, 4] := by decide

/-- `bind<I>(f, b...)` calls `f` with the bound values inserted at position `I` — every arity, every `I ≤ n`,
    every number of bound values -/
theorem bind_insert (i : Nat) (bs args : List Val) (f : FExpr) (h : i ≤ args.length) :
    callImpl (.un (.bind (some i) bs) f) args = callImpl f (args.take i ++ bs ++ args.drop i) := by
  have := argsImpl_eq_argsSpec (.bind (some i) bs) args (by simp [nodeArity, h])
  simp only [callImpl, this, argsSpec, Outcome.mapRes]
  cases (callImpl f (args.take i ++ bs ++ args.drop i)) with
  | mk log res => cases res <;> rfl

example : (callImpl (.un (.bind (some 1) [.num .int 7, .num .int 8]) (.leaf 0 [.int, .int, .int, .int] none false))
    [.num .int 1, .num .int 2]).log = [⟨0, [.num .int 1, .num .int 7, .num .int 8, .num .int 2]⟩] := by decide

/-- `bind(f, b...)` appends the bound values -/
theorem bind_append (bs args : List Val) (f : FExpr) :
    callImpl (.un (.bind none bs) f) args = callImpl f (args ++ bs) := by
  have := argsImpl_eq_argsSpec (.bind none bs) args (by simp [nodeArity])
  simp only [callImpl, this, argsSpec, Outcome.mapRes]
  cases (callImpl f (args ++ bs)) with
  | mk log res => cases res <;> rfl

example : (callImpl (.un (.bind none [.num .int 7, .num .int 8]) (.leaf 0 [.int, .int, .int] none false))
    [.num .int 1]).log = [⟨0, [.num .int 1, .num .int 7, .num .int 8]⟩] := by decide

/-- `hide<I>(f)` calls `f` without argument `I` — every arity, every `I < n` -/
theorem hide_erase (i : Nat) (args : List Val) (f : FExpr) (h : i < args.length) :
    callImpl (.un (.hide (some i)) f) args = callImpl f (args.eraseIdx i) := by
  have := argsImpl_eq_argsSpec (.hide (some i)) args (by simp [nodeArity, h])
  simp only [callImpl, this, argsSpec, Outcome.mapRes]
  cases (callImpl f (args.eraseIdx i)) with
  | mk log res => cases res <;> rfl

example : (callImpl (.un (.hide (some 1)) (.leaf 0 [.int, .int, .int] none false))
    [.num .int 1, .num .int 2, .num .int 3, .num .int 4]).log = [⟨0, [.num .int 1, .num .int 3, .num .int 4]⟩] := by
  decide

/-- `hide(f)` (position -1) calls `f` without the last argument -/
theorem hide_last (args : List Val) (f : FExpr) (h : args ≠ []) :
    callImpl (.un (.hide none) f) args = callImpl f args.dropLast := by
  have hl : 0 < args.length := List.length_pos_iff.mpr h
  have := argsImpl_eq_argsSpec (.hide none) args (by simp [nodeArity, hl])
  simp only [callImpl, this, argsSpec, Outcome.mapRes]
  cases (callImpl f args.dropLast) with
  | mk log res => cases res <;> rfl

example : (callImpl (.un (.hide none) (.leaf 0 [.int, .int] none false))
    [.num .int 1, .num .int 2, .num .int 3]).log = [⟨0, [.num .int 1, .num .int 2]⟩] := by decide

/-- the code equals the documentation for every functor expression (adaptors nested to any depth) and all arguments -/
theorem impl_eq_spec (e : FExpr) (args : List Val) (h : wellTyped e args.length = true) :
    callImpl e args = callSpec e args :=
  callImpl_eq_callSpec e args h

-- hide(bind<1>(compose(s, g), 2.7) ) applied to three arguments: non-trivial, well-typed
example :
    let e := FExpr.un (.hide none) (.un (.bind (some 1) [.num .dbl 27])
      (.compose1 (.leaf 1 [.long] (some .long) false) (.leaf 0 [.int, .int, .int] (some .dbl) false)))
    wellTyped e 3 = true ∧
    callImpl e [.num .int 1, .num .int 5, .num .int 9]
      = ⟨[⟨0, [.num .int 1, .num .int 2, .num .int 5]⟩, ⟨1, [.num .long 20]⟩], .ok (.num .long 120)⟩ := by
  decide

/-- the result clauses of the statement, as the code computes them -/
theorem result_clauses (f : FExpr) (args : List Val) (v : Val) (h : (callImpl f args).res = .ok v) :
    (∀ r, (callImpl (.un (.retypeReturn r) f) args).res = .ok (conv r v))
    ∧ (callImpl (.un .hideReturn f) args).res = .ok .unit
    ∧ (∀ b, (callImpl (.un (.bindReturn b) f) args).res = .ok b)
    ∧ (∀ n, callImpl (.un (.trackObj n) f) args = callImpl f args)
    ∧ (∀ c, callImpl (.exceptionCatch f c) args = callImpl f args)
    ∧ (∀ s, (callImpl (.compose1 s f) args).res = (callImpl s [v]).res) := by
  refine ⟨?_, ?_, ?_, ?_, ?_, ?_⟩
  · intro r; simp [callImpl, argsImpl, Outcome.mapRes, h, Res.map, resOf]
  · simp [callImpl, argsImpl, Outcome.mapRes, h, Res.map, resOf]
  · intro b; simp [callImpl, argsImpl, Outcome.mapRes, h, Res.map, resOf]
  · intro n
    simp only [callImpl, argsImpl, Outcome.mapRes]
    cases callImpl f args with
    | mk log res => cases res <;> rfl
  · intro c; simp [callImpl, h]
  · intro s; simp [callImpl, Outcome.andThen, h]

example : (callImpl (.leaf 3 [.dbl] (some .dbl) false) [.num .dbl 27]).res = .ok (.num .dbl 3025) := by decide

/-- `exception_catch(f, c)` returns `c()` exactly when `f` throws -/
theorem exception_catch_throw (f c : FExpr) (args : List Val) (h : (callImpl f args).res = .threw) :
    (callImpl (.exceptionCatch f c) args).res = (callImpl c []).res
    ∧ (callImpl (.exceptionCatch f c) args).log = (callImpl f args).log ++ (callImpl c []).log := by
  simp [callImpl, h]

example : (callImpl (.leaf 3 [.int] (some .int) true) [.num .int 1]).res = .threw := by decide

/-- direct call, call through a slot, emission of a signal holding that single slot: same received arguments,
    same result (the slot's declared return type being the functor's result type) -/
theorem routes_agree (e : FExpr) (args : List Val) (s : SlotM) (hf : s.f = e) (hc : s.callable = true)
    (hret : (direct e args).res.map (retConv s.ret) = (direct e args).res) :
    s.call args = direct e args ∧ viaSignal s.ret [s] args = direct e args := by
  have hcall : callIt s args = direct e args := by
    simp only [callIt, direct, Outcome.mapRes, hf] at hret ⊢
    rw [hret]
  constructor
  · simp [SlotM.call, hc, hcall]
  · cases hr : s.ret with
    | none =>
      simp only [viaSignal, emitVoid, hc, if_true, sigCall, hcall, List.nil_append]
      have hret' := hret
      simp only [hr] at hret'
      cases hd : direct e args with
      | mk log res =>
        simp only [hd] at hret' ⊢
        cases res with
        | threw => rfl
        | ok v =>
          simp only [Res.map, retConv, Res.ok.injEq] at hret'
          simp [Res.map, hret'.symm]
    | some t =>
      simp only [viaSignal, emitValue, List.isEmpty_cons, List.dropWhile, hc, Bool.not_true, sigCall, hcall,
        List.nil_append]
      cases hd : direct e args with
      | mk log res =>
        cases res with
        | threw => simp
        | ok v => simp [emitLoop]

example :
    let e := FExpr.un (.bind (some 0) [.num .int 4]) (.leaf 0 [.int, .dbl] (some .dbl) false)
    let s : SlotM := ⟨false, false, some .dbl, e⟩
    s.callable = true ∧ (direct e [.num .dbl 27]).res.map (retConv s.ret) = (direct e [.num .dbl 27]).res
      ∧ direct e [.num .dbl 27] = ⟨[⟨0, [.num .int 4, .num .dbl 27]⟩], .ok (.num .dbl 85)⟩ := by decide

end Sigc.C10
