import Sigc.Basic
/-! property theorems for C10 (stub, replaced by the real statements) -/
namespace Sigc.C10
end Sigc.C10
