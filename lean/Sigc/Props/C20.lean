import Sigc.Model
import Sigc.Lemmas.Basic
import Sigc.Lemmas.InvCall
/-!
# C20 — behaviour is independent of compiler, optimisation level and API switches  (partial, DESIGN §5 C20)

What a theorem can carry: the type-erased call path meets its preconditions.  `call_it` downcasts the
`slot_rep*` to `typed_slot_rep<F>*` and dereferences `functor_`; that is defined behaviour exactly when a
representation with `call_ ≠ nullptr` is a typed representation that still holds its functor.  In the
model: `call = true → fn.isSome` (`SlotB.CallHasFn`), established by every constructor of slot values and
preserved by every slot-value operation the library performs.  (The type equality of the erased call's
function-pointer type at all call sites is proved in Sigc/Props/C20Types.lean.)
The second part of this file lifts the per-operation facts to all histories: `AllCall s` (every user slot
variable and every cell of every `signal_impl` of `s` satisfies `CallHasFn`) holds in every state of every
terminating run of every program (`callHasFn_reachable`), is preserved by every function of the interpreter
(so it holds at every operation boundary inside emissions: `callHasFn_execLine` …) and by the harness
teardown; hence the three sites of the erased call (`emitLoop`, `deref`, `callS`) enter `invokeFun` with a
functor whenever they find a callable representation (`…_finds_functor`, `…_enters_invokeFun`).
The rest of C20 — what an optimiser does — is observed by the configuration matrix, not proved.
-/
namespace Sigc.C20
open Sigc.Model

/-- a slot value whose representation is callable still holds its functor -/
def CallHasFn (s : SlotB) : Prop :=
  ∀ r, s.rep = some r → r.call = true → r.fn.isSome = true

theorem default_ok : CallHasFn ({} : SlotB) := by
  intro r h; simp at h

/-- a slot made from a functor -/
theorem made_ok (b : Bool) (fn : Fun) : CallHasFn { blocked := b, rep := some { call := true, fn := some fn } } := by
  intro r h _; simp at h; subst h; rfl

theorem copy_ok (s : SlotB) (h : CallHasFn s) : CallHasFn s.copy := by
  unfold SlotB.copy
  cases hr : s.rep with
  | none => intro r h2; simp at h2
  | some r0 =>
    by_cases hc : r0.call = true
    · simp only [hc, if_true]
      intro r h2 _
      simp at h2
      subst h2
      exact h r0 hr hc
    · simp only [hc]
      intro r h2
      simp at h2

theorem move_ok (s : SlotB) (h : CallHasFn s) : CallHasFn s.move.1 ∧ CallHasFn s.move.2 := by
  unfold SlotB.move
  cases hr : s.rep with
  | none =>
    constructor
    · intro r h2; simp at h2
    · simpa [hr] using h
  | some r0 =>
    constructor
    · intro r h2 hc
      simp at h2
      subst h2
      exact h r0 hr hc
    · intro r h2; simp at h2

theorem disconnect_ok (s : SlotB) : CallHasFn s.disconnectRep := by
  unfold SlotB.disconnectRep
  cases hr : s.rep with
  | none => intro r h2; simp [hr] at h2
  | some r0 =>
    intro r h2 hc
    simp at h2
    subst h2
    simp at hc

theorem invalidate_ok (s : SlotB) : CallHasFn s.invalidate := by
  unfold SlotB.invalidate
  cases hr : s.rep with
  | none => intro r h2; simp [hr] at h2
  | some r0 =>
    intro r h2 hc
    simp at h2
    subst h2
    simp at hc

/-- the dummy representation `set_parent` creates for an empty slot is never callable -/
theorem dummy_ok (b : Bool) : CallHasFn { blocked := b, rep := some { call := false, fn := none } } := by
  intro r h hc; simp at h; subst h; simp at hc

/-- the emitter only calls through a representation that is callable *and* holds its functor: the
    loop's pattern `some { call := true, fn := some fn }` — any other cell is skipped (one unfolding) -/
theorem emitLoop_calls_only_typed_reps (f : Nat) (P : Prog) (s : St) (i cur m arg r : Nat) (im : Impl) (c : Cell)
    (hne : cur ≠ m) (hi : aget s.impls i = some im) (hc : im.cells.find? (·.id = cur) = some c)
    (hno : ∀ fn, c.slot.rep ≠ some { call := true, fn := some fn }) :
    emitLoop (f+1) P s i cur m arg r =
      (match aget s.impls i with
       | none => some (s.fail "loop: impl destroyed", .ok, r)
       | some im2 =>
         match succId im2.cells cur with
         | none => some (s.fail "loop: iterator invalidated", .ok, r)
         | some nxt => emitLoop f P s i nxt m arg r) := by
  rw [emitLoop]
  simp only [hne, if_false, hi, hc]
  cases hrep : c.slot.rep with
  | none => rfl
  | some rp =>
    obtain ⟨call, fn⟩ := rp
    cases call
    · rfl
    · cases fn with
      | none => rfl
      | some g => exact absurd hrep (hno g)

example : CallHasFn ({ rep := some { call := true, fn := some (.leaf 1 []) } } : SlotB).copy :=
  copy_ok _ (made_ok false _)

/-! ## the lift to all histories

`Sigc.InvCall.AC` (`Sigc/Lemmas/InvCall.lean`) is `AllCall` stated with `InvCall.CallOk`, which is
`CallHasFn` (`Iff.rfl`); it instantiates the generic preservation schema `Sigc.Inv.Stable`. -/

/-- every user slot variable and every cell of every `signal_impl` satisfies `CallHasFn` -/
def AllCall (s : St) : Prop :=
  (∀ p ∈ s.S, CallHasFn p.2.slot) ∧ (∀ q ∈ s.impls, ∀ c ∈ q.2.cells, CallHasFn c.slot)

theorem callHasFn_iff_callOk (sl : SlotB) : CallHasFn sl ↔ InvCall.CallOk sl := Iff.rfl

theorem allCall_iff_AC (s : St) : AllCall s ↔ InvCall.AC s := Iff.rfl

theorem allCall_init : AllCall ({} : St) := InvCall.AC.init

/-- **all histories**: every state in which a terminating run of a program ends satisfies `AllCall`
    (every fuel, every program; every prefix of a program is a program, so: every state between two
    top-level operations) -/
theorem callHasFn_reachable (fuel : Nat) (P : Prog) (s : St) (h : Model.runTop fuel P {} P.top = some s) :
    AllCall s :=
  InvCall.AC.reachable fuel P s h

/-- the same from any `AllCall` state and for any list of operations -/
theorem callHasFn_runTop_from (fuel : Nat) (P : Prog) (ls : List Line) (s s' : St) (hs : AllCall s)
    (h : Model.runTop fuel P s ls = some s') : AllCall s' :=
  InvCall.AC.stable.runTop_from fuel P ls s s' hs h

/-- **every operation boundary**, also inside emissions (`execLine` is what `runBody` runs for each
    operation of a functor body, at any depth): one operation takes `AllCall` states to `AllCall` states -/
theorem callHasFn_execLine (fuel : Nat) (P : Prog) (s : St) (l : Line) (r : St × Outcome) (hs : AllCall s)
    (h : execLine fuel P s l = some r) : AllCall r.1 :=
  InvCall.AC.stable.execLine hs h

theorem callHasFn_execOp (fuel : Nat) (P : Prog) (s : St) (op : Op) (r : St × Except Unit String) (hs : AllCall s)
    (h : execOp fuel P s op = some r) : AllCall r.1 :=
  InvCall.AC.stable.execOp hs h

/-- a whole emission (prologue, loop with everything the slots do, epilogue with sweep and `~signal_impl`) -/
theorem callHasFn_emitImpl (fuel : Nat) (P : Prog) (s : St) (fl : Flavour) (impl : Option Nat) (arg : Nat)
    (strat : Strat) (r : St × Outcome × Nat) (hs : AllCall s) (h : emitImpl fuel P s fl impl arg strat = some r) :
    AllCall r.1 :=
  InvCall.AC.stable.emitImpl hs h

/-- the erased call itself: whatever the functor's body does -/
theorem callHasFn_invokeFun (fuel : Nat) (P : Prog) (s : St) (fn : Fun) (arg : Nat) (r : St × Outcome × Nat)
    (hs : AllCall s) (h : invokeFun fuel P s fn arg = some r) : AllCall r.1 :=
  InvCall.AC.stable.invokeFun hs h

/-- every function of the mutual block (`invokeFun`, `runBody`, `execLine`, `emitImpl`, `emitLoop`, `deref`,
    `accLoop`, `revLoop`, `walkLoop`, `runStrat`, `execOp`), for every fuel: the state each of them returns
    satisfies `AllCall` when the state it started in does.  Every state in which `emitLoop`/`deref`/`callS`
    inspects a representation is the result of such calls on the initial state. -/
theorem callHasFn_every_function (fuel : Nat) : Inv.PresAll (fun (_ : Unit) => AllCall) fuel :=
  Inv.preserved InvCall.AC.stable.toK fuel

/-- the loop of the non-accumulating emitters between two cells -/
theorem callHasFn_emitLoop (fuel : Nat) (P : Prog) (s : St) (i cur m arg v : Nat) (r : St × Outcome × Nat)
    (hs : AllCall s) (h : emitLoop fuel P s i cur m arg v = some r) : AllCall r.1 :=
  (callHasFn_every_function fuel).2.2.2.2.1 () P s i cur m arg v r hs h

/-- the harness teardown keeps it too -/
theorem callHasFn_teardown (fuel : Nat) (P : Prog) (s s' : St) (hs : AllCall s)
    (h : Model.teardown fuel P s = some s') : AllCall s' :=
  InvCall.AC.stable.teardown fuel P s s' hs h

/-! ### what the sites of the erased call find -/

/-- a callable representation of a `CallHasFn` slot has the shape the call sites match on -/
theorem callable_typed (sl : SlotB) (h : CallHasFn sl) (fn : Option Fun)
    (hr : sl.rep = some { call := true, fn := fn }) : ∃ g, fn = some g := by
  have := h _ hr rfl
  cases fn with
  | none => cases this
  | some g => exact ⟨g, rfl⟩

/-- a `CallHasFn` slot that is not `empty()` is a typed representation holding its functor -/
theorem nonempty_typed (sl : SlotB) (h : CallHasFn sl) (hne : sl.empty = false) :
    ∃ g, sl.rep = some { call := true, fn := some g } := by
  unfold SlotB.empty at hne
  cases hr : sl.rep with
  | none => rw [hr] at hne; cases hne
  | some r0 =>
    obtain ⟨call, fn⟩ := r0
    rw [hr] at hne
    cases call
    · cases hne
    · obtain ⟨g, rfl⟩ := callable_typed sl h fn hr
      exact ⟨g, rfl⟩

/-- for a `CallHasFn` slot the skip hypothesis of `emitLoop_calls_only_typed_reps` is `empty()`: the case
    "callable but without functor" of the skip branch does not occur -/
theorem skip_iff_empty (sl : SlotB) (h : CallHasFn sl) :
    (∀ fn, sl.rep ≠ some { call := true, fn := some fn }) ↔ sl.empty = true := by
  constructor
  · intro hno
    cases he : sl.empty with
    | true => rfl
    | false =>
      obtain ⟨g, hg⟩ := nonempty_typed sl h he
      exact absurd hg (hno g)
  · intro he fn hr
    unfold SlotB.empty at he
    rw [hr] at he
    cases he

/-- `emitLoop`: the cell under the iterator, if its representation is callable, holds its functor -/
theorem emitLoop_finds_functor (s : St) (hA : AllCall s) (i cur : Nat) (im : Impl) (c : Cell)
    (hi : aget s.impls i = some im) (hc : im.cells.find? (·.id = cur) = some c) (fn : Option Fun)
    (hr : c.slot.rep = some { call := true, fn := fn }) : ∃ g, fn = some g :=
  callable_typed c.slot (hA.2 (i, im) (Inv.mem_of_aget hi) c (List.mem_of_find?_eq_some hc)) fn hr

/-- `deref` (`slot_iterator_buf::operator*`): the same for the accumulating emitters -/
theorem deref_finds_functor (s : St) (hA : AllCall s) (i : Nat) (it : IterBuf) (im : Impl) (c : Cell)
    (hi : aget s.impls i = some im) (hc : im.cells.find? (·.id = it.pos) = some c) (fn : Option Fun)
    (hr : c.slot.rep = some { call := true, fn := fn }) : ∃ g, fn = some g :=
  emitLoop_finds_functor s hA i it.pos im c hi hc fn hr

/-- `callS` (`slot::operator()` on a user slot variable) -/
theorem callS_finds_functor (s : St) (hA : AllCall s) (i : Nat) (v : SlotVar) (hv : aget s.S i = some v)
    (fn : Option Fun) (hr : v.slot.rep = some { call := true, fn := fn }) : ∃ g, fn = some g :=
  callable_typed v.slot (hA.1 (i, v) (Inv.mem_of_aget hv)) fn hr

/-- in the words of the property, for reachable states: whenever a terminating run of a program has led to
    a state in which a cell or a user slot variable has a representation with `call_ ≠ nullptr`, that
    representation holds its functor -/
theorem reachable_callable_has_functor (fuel : Nat) (P : Prog) (s : St)
    (h : Model.runTop fuel P {} P.top = some s) :
    (∀ i im c fn, aget s.impls i = some im → c ∈ im.cells → c.slot.rep = some { call := true, fn := fn } →
      ∃ g, fn = some g) ∧
    (∀ i v fn, aget s.S i = some v → v.slot.rep = some { call := true, fn := fn } → ∃ g, fn = some g) := by
  have hA := callHasFn_reachable fuel P s h
  exact ⟨fun i im c fn hi hc hr => callable_typed c.slot (hA.2 (i, im) (Inv.mem_of_aget hi) c hc) fn hr,
         fun i v fn hv hr => callS_finds_functor s hA i v hv fn hr⟩

/-- `emitLoop` in an `AllCall` state skips exactly the `empty()` cells (with
    `emitLoop_calls_only_typed_reps`) … -/
theorem emitLoop_skips_empty (f : Nat) (P : Prog) (s : St) (hA : AllCall s) (i cur m arg r : Nat) (im : Impl)
    (c : Cell) (hne : cur ≠ m) (hi : aget s.impls i = some im) (hc : im.cells.find? (·.id = cur) = some c)
    (he : c.slot.empty = true) :
    emitLoop (f+1) P s i cur m arg r =
      (match aget s.impls i with
       | none => some (s.fail "loop: impl destroyed", .ok, r)
       | some im2 =>
         match succId im2.cells cur with
         | none => some (s.fail "loop: iterator invalidated", .ok, r)
         | some nxt => emitLoop f P s i nxt m arg r) :=
  emitLoop_calls_only_typed_reps f P s i cur m arg r im c hne hi hc
    ((skip_iff_empty c.slot (hA.2 (i, im) (Inv.mem_of_aget hi) c (List.mem_of_find?_eq_some hc))).2 he)

/-- … and for a cell that is neither `empty()` nor blocked it enters `invokeFun` with the functor the
    representation holds: the erased call goes to a live functor -/
theorem emitLoop_enters_invokeFun (f : Nat) (P : Prog) (s : St) (hA : AllCall s) (i cur m arg r : Nat) (im : Impl)
    (c : Cell) (hne : cur ≠ m) (hi : aget s.impls i = some im) (hc : im.cells.find? (·.id = cur) = some c)
    (he : c.slot.empty = false) (hb : c.slot.blocked = false) :
    ∃ g, c.slot.rep = some { call := true, fn := some g } ∧
      emitLoop (f+1) P s i cur m arg r =
        (match invokeFun f P s g arg with
         | none => none
         | some (s, .exc, v) => some (s, .exc, v)
         | some (s, .ok, v) =>
           match aget s.impls i with
           | none => some (s.fail "loop: impl destroyed", .ok, v)
           | some im2 =>
             match succId im2.cells cur with
             | none => some (s.fail "loop: iterator invalidated", .ok, v)
             | some nxt => emitLoop f P s i nxt m arg v) := by
  obtain ⟨g, hg⟩ := nonempty_typed c.slot
    (hA.2 (i, im) (Inv.mem_of_aget hi) c (List.mem_of_find?_eq_some hc)) he
  refine ⟨g, hg, ?_⟩
  rw [emitLoop]
  simp only [hne, if_false, hi, hc, hg, hb]
  rfl

/-- `deref` for a cell that is neither `empty()` nor blocked and was not yet invoked through this iterator -/
theorem deref_enters_invokeFun (f : Nat) (P : Prog) (s : St) (hA : AllCall s) (i : Nat) (it : IterBuf) (arg : Nat)
    (im : Impl) (c : Cell) (hi : aget s.impls i = some im) (hc : im.cells.find? (·.id = it.pos) = some c)
    (he : c.slot.empty = false) (hb : c.slot.blocked = false) (hinv : it.invoked = false) :
    ∃ g, c.slot.rep = some { call := true, fn := some g } ∧
      deref (f+1) P s i it arg =
        (match invokeFun f P s g arg with
         | none => none
         | some (s, .exc, _) => some (s, .exc, it)
         | some (s, .ok, v) => some (s, .ok, { it with buf := v, invoked := true })) := by
  obtain ⟨g, hg⟩ := nonempty_typed c.slot
    (hA.2 (i, im) (Inv.mem_of_aget hi) c (List.mem_of_find?_eq_some hc)) he
  refine ⟨g, hg, ?_⟩
  rw [deref]
  simp only [hi, hc, hg, hb, hinv]
  rfl

/-- `callS` on a user slot variable that is neither `empty()` nor blocked (within the depth and step budget) -/
theorem callS_enters_invokeFun (f : Nat) (P : Prog) (s : St) (hA : AllCall s) (i arg : Nat) (v : SlotVar)
    (hv : aget s.S i = some v) (hd : ¬ s.depth ≥ P.maxdepth) (hst : ¬ s.steps > P.maxsteps)
    (he : v.slot.empty = false) (hb : v.slot.blocked = false) :
    ∃ g, v.slot.rep = some { call := true, fn := some g } ∧
      execOp (f+1) P s (.callS i arg) =
        (match invokeFun f P (Inv.callPro s i v) g arg with
         | none => none
         | some (s1, o, r) =>
           match o with
           | .exc => some (Inv.callEpi s1 i, .error ())
           | .ok => some (Inv.callEpi s1 i, .ok (showRes v.isVoid r))) := by
  obtain ⟨g, hg⟩ := nonempty_typed v.slot (hA.1 (i, v) (Inv.mem_of_aget hv)) he
  refine ⟨g, hg, ?_⟩
  rw [execOp]
  simp only [hv, hd, hst, if_false, hg, hb]
  rfl

/-! ### the inner slot of an adaptor (`Fun.nest`)

The model keeps of a slot stored by value inside a functor only its `blocked_` flag and its functor
(`inner : Option Fun`), so the inner erased call has its functor by construction; what has to be checked is
that the collapse loses nothing: for a `CallHasFn` source, `inner = none` exactly when the source is `empty()`. -/

theorem nest_inner_none_iff_empty (sl : SlotB) (h : CallHasFn sl) :
    (match sl.copy.rep with | some r => r.fn | none => none) = none ↔ sl.empty = true := by
  unfold SlotB.copy SlotB.empty
  cases hr : sl.rep with
  | none => simp
  | some r0 =>
    obtain ⟨call, fn⟩ := r0
    cases call
    · simp
    · obtain ⟨g, rfl⟩ := callable_typed sl h fn hr
      simp

/-- `invokeFun` enters the inner functor of an adaptor only when there is one -/
theorem invokeFun_nest (f : Nat) (P : Prog) (s : St) (b : Bool) (inner : Option Fun) (arg : Nat) :
    invokeFun (f+1) P s (.nest b inner) arg =
      (match inner with
       | none => some (s, .ok, 0)
       | some g => if b then some (s, .ok, 0) else invokeFun f P s g arg) := by
  cases inner <;> rw [invokeFun]

example : (match ({ rep := some { call := true, fn := some (.leaf 1 []) } } : SlotB).copy.rep with
    | some r => r.fn | none => none) = some (.leaf 1 []) := rfl

/-! ### non-vacuity

`demo`: a void signal with slots made from four user slot variables: `s0` (plain functor 1), `s1` (bound to
the trackable `t0`), `s3` (blocked) and `s2` (empty: `set_parent` gives its cell the dummy representation).
During the emission the first slot destroys `t0` — the representation of `s1` and of its cell are
invalidated (`call_ = nullptr`, functor released; the cell stays in the list until the sweep of the
epilogue).  The loop goes on over an invalidated, a blocked and an empty cell: one call in total.  After
the emission the empty slot is connected once more.  The final state has a callable, an invalidated, an
empty and a blocked user slot, and a callable, a blocked and a dummy cell. -/

def demo : Prog := {
  bodies := [(1, [⟨"delT t0", .delT 0⟩])],
  top := [⟨"newG g0 V", .newG 0 (some .V)⟩, ⟨"newT t0", .newT 0⟩,
          ⟨"mkS s0 V fn:1", .mkS 0 "V" (.fn 1)⟩, ⟨"mkS s1 V mem:2:t0", .mkS 1 "V" (.mem 2 0)⟩,
          ⟨"mkS0 s2 V", .mkS0 2 "V"⟩, ⟨"mkS s3 V fn:3", .mkS 3 "V" (.fn 3)⟩, ⟨"blockS s3 1", .blockS 3 true⟩,
          ⟨"conn c1 g0 s0", .conn 1 0 0 false false⟩, ⟨"conn c2 g0 s1", .conn 2 0 1 false false⟩,
          ⟨"conn c3 g0 s3", .conn 3 0 3 false false⟩, ⟨"conn c4 g0 s2", .conn 4 0 2 false false⟩,
          ⟨"emit g0 7", .emit 0 7 .sum false⟩,
          ⟨"conn c5 g0 s2", .conn 5 0 2 false false⟩] }

/-- the kind of a slot value; `"untyped"` is what `CallHasFn` excludes -/
def shape (sl : SlotB) : String :=
  match sl.rep with
  | none => "empty"
  | some { call := true, fn := some _ } => if sl.blocked then "blocked" else "connected"
  | some { call := true, fn := none } => "untyped"
  | some { call := false, fn := some _ } => "disconnected"
  | some { call := false, fn := none } => "invalidated"

/-- the run terminates; the kinds of the user slots `s0..s3` and of the cells of the signal (the dummy
    representation of the empty slot's cell has the shape of an invalidated one), the number of functor
    calls, no model error -/
example : (Model.runTop 40 demo {} demo.top).map (fun s =>
      (s.S.map (fun p => (p.1, shape p.2.slot)), s.impls.map (fun q => q.2.cells.map (fun c => shape c.slot)),
       (s.trace.filter (fun e => match e with | .call _ _ _ => true | _ => false)).length, s.err))
    = some ([(0, "connected"), (1, "invalidated"), (2, "empty"), (3, "blocked")],
            [["connected", "blocked", "invalidated"]], 1, none) := by decide +kernel

/-- `callHasFn_reachable` and `reachable_callable_has_functor` on it -/
example (s : St) (h : Model.runTop 40 demo {} demo.top = some s) : AllCall s := callHasFn_reachable 40 demo s h

example (s : St) (h : Model.runTop 40 demo {} demo.top = some s) (v : SlotVar) (fn : Option Fun)
    (hv : aget s.S 0 = some v) (hr : v.slot.rep = some { call := true, fn := fn }) : ∃ g, fn = some g :=
  (reachable_callable_has_functor 40 demo s h).2 0 v fn hv hr

/-- the state after the emission (before the last `conn`) is an `AllCall` state, and so is every state the
    harness teardown goes through afterwards -/
example (s s' : St) (h : Model.runTop 40 demo {} demo.top = some s) (ht : Model.teardown 40 demo s = some s') :
    AllCall s' :=
  callHasFn_teardown 40 demo s s' (callHasFn_reachable 40 demo s h) ht

/-- a state in the middle of an emission (the cell 5 was invalidated during the emission and waits for the
    sweep; the end marker 7 has no representation): `AllCall` holds, the loop skips the invalidated cell
    and enters `invokeFun` with the functor of cell 6 -/
def exMid : St :=
  { G := [(0, { obj := 1, fl := .V, impl := some 3, trk := 2, lvl := 0 })],
    impls := [(3, { cells := [{ id := 4, slot := { rep := some { call := true, fn := some (.leaf 1 []) } }, linked := true },
                              { id := 5, slot := { rep := some { call := false, fn := none } }, linked := false },
                              { id := 6, slot := { rep := some { call := true, fn := some (.leaf 2 []) } }, linked := true },
                              { id := 7, slot := {}, linked := false }],
                    exec := 1, deferred := true, holders := 1 })],
    next := 8 }

theorem exMid_allCall : AllCall exMid := by
  refine ⟨fun p hp => (by cases hp), fun q hq c hc => ?_⟩
  simp only [exMid, List.mem_singleton] at hq
  subst hq
  simp only [List.mem_cons, List.not_mem_nil, or_false] at hc
  rcases hc with rfl | rfl | rfl | rfl
  · exact made_ok false _
  · exact invalidate_ok { rep := some { call := true, fn := some (.leaf 9 []) } }
  · exact made_ok false _
  · exact default_ok

example (f : Nat) (P : Prog) :
    emitLoop (f+1) P exMid 3 5 7 0 0 = emitLoop f P exMid 3 6 7 0 0 :=
  emitLoop_skips_empty f P exMid exMid_allCall 3 5 7 0 0 _ _ (by decide) rfl rfl rfl

example (f : Nat) (P : Prog) : ∃ g, g = Fun.leaf 2 [] ∧
    emitLoop (f+1) P exMid 3 6 7 0 0 =
      (match invokeFun f P exMid g 0 with
       | none => none
       | some (s, .exc, v) => some (s, .exc, v)
       | some (s, .ok, v) =>
         match aget s.impls 3 with
         | none => some (s.fail "loop: impl destroyed", .ok, v)
         | some im2 =>
           match succId im2.cells 6 with
           | none => some (s.fail "loop: iterator invalidated", .ok, v)
           | some nxt => emitLoop f P s 3 nxt 7 0 v) := by
  obtain ⟨g, hg, he⟩ := emitLoop_enters_invokeFun f P exMid exMid_allCall 3 6 7 0 0 _ _ (by decide) rfl rfl rfl rfl
  refine ⟨g, ?_, he⟩
  simp only [Option.some.injEq, Rep.mk.injEq, true_and] at hg
  exact hg.symm

end Sigc.C20
