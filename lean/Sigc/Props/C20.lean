import Sigc.Model
import Sigc.Lemmas.Basic
/-!
# C20 — behaviour is independent of compiler, optimisation level and API switches  (partial, DESIGN §5 C20)

What a theorem can carry: the type-erased call path meets its preconditions.  `call_it` downcasts the
`slot_rep*` to `typed_slot_rep<F>*` and dereferences `functor_`; that is defined behaviour exactly when a
representation with `call_ ≠ nullptr` is a typed representation that still holds its functor.  In the
model: `call = true → fn.isSome` (`SlotB.CallHasFn`), established by every constructor of slot values and
preserved by every slot-value operation the library performs.  (The type equality of the erased call's
function-pointer type at all call sites is proved in Sigc/Props/C20Types.lean.)
The rest of C20 — what an optimiser does — is observed by the configuration matrix, not proved.
-/
namespace Sigc.C20
open Sigc.Model

/-- a slot value whose representation is callable still holds its functor -/
def CallHasFn (s : SlotB) : Prop :=
  ∀ r, s.rep = some r → r.call = true → r.fn.isSome = true

theorem default_ok : CallHasFn ({} : SlotB) := by
  intro r h; simp at h

/-- a slot made from a functor -/
theorem made_ok (b : Bool) (fn : Fun) : CallHasFn { blocked := b, rep := some { call := true, fn := some fn } } := by
  intro r h _; simp at h; subst h; rfl

theorem copy_ok (s : SlotB) (h : CallHasFn s) : CallHasFn s.copy := by
  unfold SlotB.copy
  cases hr : s.rep with
  | none => intro r h2; simp at h2
  | some r0 =>
    by_cases hc : r0.call = true
    · simp only [hc, if_true]
      intro r h2 _
      simp at h2
      subst h2
      exact h r0 hr hc
    · simp only [hc]
      intro r h2
      simp at h2

theorem move_ok (s : SlotB) (h : CallHasFn s) : CallHasFn s.move.1 ∧ CallHasFn s.move.2 := by
  unfold SlotB.move
  cases hr : s.rep with
  | none =>
    constructor
    · intro r h2; simp at h2
    · simpa [hr] using h
  | some r0 =>
    constructor
    · intro r h2 hc
      simp at h2
      subst h2
      exact h r0 hr hc
    · intro r h2; simp at h2

theorem disconnect_ok (s : SlotB) : CallHasFn s.disconnectRep := by
  unfold SlotB.disconnectRep
  cases hr : s.rep with
  | none => intro r h2; simp [hr] at h2
  | some r0 =>
    intro r h2 hc
    simp at h2
    subst h2
    simp at hc

theorem invalidate_ok (s : SlotB) : CallHasFn s.invalidate := by
  unfold SlotB.invalidate
  cases hr : s.rep with
  | none => intro r h2; simp [hr] at h2
  | some r0 =>
    intro r h2 hc
    simp at h2
    subst h2
    simp at hc

/-- the dummy representation `set_parent` creates for an empty slot is never callable -/
theorem dummy_ok (b : Bool) : CallHasFn { blocked := b, rep := some { call := false, fn := none } } := by
  intro r h hc; simp at h; subst h; simp at hc

/-- the emitter only calls through a representation that is callable *and* holds its functor: the
    loop's pattern `some { call := true, fn := some fn }` — any other cell is skipped (one unfolding) -/
theorem emitLoop_calls_only_typed_reps (f : Nat) (P : Prog) (s : St) (i cur m arg r : Nat) (im : Impl) (c : Cell)
    (hne : cur ≠ m) (hi : aget s.impls i = some im) (hc : im.cells.find? (·.id = cur) = some c)
    (hno : ∀ fn, c.slot.rep ≠ some { call := true, fn := some fn }) :
    emitLoop (f+1) P s i cur m arg r =
      (match aget s.impls i with
       | none => some (s.fail "loop: impl destroyed", .ok, r)
       | some im2 =>
         match succId im2.cells cur with
         | none => some (s.fail "loop: iterator invalidated", .ok, r)
         | some nxt => emitLoop f P s i nxt m arg r) := by
  rw [emitLoop]
  simp only [hne, if_false, hi, hc]
  cases hrep : c.slot.rep with
  | none => rfl
  | some rp =>
    obtain ⟨call, fn⟩ := rp
    cases call
    · rfl
    · cases fn with
      | none => rfl
      | some g => exact absurd hrep (hno g)

example : CallHasFn ({ rep := some { call := true, fn := some (.leaf 1 []) } } : SlotB).copy :=
  copy_ok _ (made_ok false _)

end Sigc.C20
