import Sigc.Model
import Sigc.Run
import Sigc.Lemmas.EmitMutual
import Sigc.Lemmas.EmitTeardown
/-!
# C03 — slots may connect, disconnect, destroy or re-emit during an emission, safely

Theorems about the mechanism model `P` (`Sigc.Model`): every state the interpreter can reach satisfies
the invariant `Sigc.Emit.Inv` (ids unique and below the allocator, per-impl accounting
`exec_count_ = #holders = #end markers`, `deferred_` exactly when an unlinked invalid cell waits for the
sweep, every handle's impl exists, every `make_slot()` forwarder held by a slot refers to a live signal
object, a signal object owned by a functor (`ownG:`) is not pinned by a forwarder, no model error), and everything that runs — at top level or inside any emission at any depth —
is a `Sigc.Emit.Frame` step: the emission counters are restored and the cell sequence of an impl that is
emitting survives as a contiguous block (nothing an active emission still points at is erased).
All statements are for every fuel, program and state; proofs are by mutual induction on fuel
(`Sigc.Emit.all_ok`).
-/
namespace Sigc.C03
open Sigc.Model Sigc.Emit

/-- the initial state satisfies the invariant -/
theorem inv_init : Inv ({} : St) := Sigc.Emit.inv_init

/-- every state reached by the driver's `runTop` (after any number of top-level operations, i.e. for
    every prefix `ls` of a program) satisfies the invariant -/
theorem inv_reachable (fuel : Nat) (P : Prog) (ls : List Line) (s : St)
    (h : runTop fuel P {} ls = some s) : Inv s :=
  (runTop_good fuel P {} ls s Sigc.Emit.inv_init h).inv

/-- **C03.safe** — the model never reports "iterator invalidated", "end marker missing", "impl destroyed
    during emission", "dangling impl", "forward to a destroyed signal object", "slot variable destroyed
    during its own call" or "insert: no impl": for every fuel, every program and every terminating run -/
theorem safe (fuel : Nat) (P : Prog) (s : St) (h : runTop fuel P {} P.top = some s) : s.err = none :=
  (inv_reachable fuel P P.top s h).noerr

/-- … also after the driver's `teardown()` (which destroys everything the program left alive, including
    the pinned signal objects) -/
theorem safe_driver (fuel : Nat) (P : Prog) (s s' : St) (h : runTop fuel P {} P.top = some s)
    (ht : teardown fuel P s = some s') : s'.err = none :=
  teardown_err fuel P s s' (inv_reachable fuel P P.top s h) ht

/-- what the driver prints (`runProgram`, the function the correspondence check runs on every generated
    program) never contains a `MODEL-ERROR` line: it is the fuel notice or the rendered trace plus the
    final `live` line -/
theorem driver_no_model_error (lines : List String) :
    runProgram lines = ["MODEL-FUEL"] ∨
    ∃ s : St, runProgram lines = (s.trace.reverse.map renderEvent) ++ [s!"0 final live={liveTotal s}"] := by
  unfold runProgram
  simp only
  cases h1 : runTop defaultFuel (parseProg lines) {} (parseProg lines).top with
  | none => left; rfl
  | some s =>
    simp only
    cases h2 : teardown defaultFuel (parseProg lines) s with
    | none => left; rfl
    | some s' =>
      right
      have := safe_driver defaultFuel (parseProg lines) s s' h1 h2
      exact ⟨s', by simp [this]⟩

/-- the same for every prefix of the top-level operations -/
theorem safe_prefix (fuel : Nat) (P : Prog) (ls : List Line) (s : St) (h : runTop fuel P {} ls = some s) :
    s.err = none :=
  (inv_reachable fuel P ls s h).noerr

/-- **C03.safe**, inside emissions: from any state satisfying the invariant, every function of the
    interpreter — one operation, a functor body, a functor invocation, an emission — ends in a state
    satisfying the invariant (in particular without error), at every nesting depth -/
theorem safe_inside (f : Nat) (P : Prog) (s : St) (hs : Inv s) :
    (∀ op s' r, execOp f P s op = some (s', r) → Inv s' ∧ s'.err = none) ∧
    (∀ l s' o, execLine f P s l = some (s', o) → Inv s' ∧ s'.err = none) ∧
    (∀ ls s' o, runBody f P s ls = some (s', o) → Inv s' ∧ s'.err = none) ∧
    (∀ fn arg s' o v, FunOK s.G fn → invokeFun f P s fn arg = some (s', o, v) → Inv s' ∧ s'.err = none) ∧
    (∀ g h arg strat s' o v, aget s.G g = some h →
        emitImpl f P s h.fl h.impl arg strat = some (s', o, v) → Inv s' ∧ s'.err = none) := by
  have A := all_ok f
  refine ⟨?_, ?_, ?_, ?_, ?_⟩
  · intro op s' r h; have := (A.op P s op s' r hs h).inv; exact ⟨this, this.noerr⟩
  · intro l s' o h; have := (A.line P s l s' o hs h).inv; exact ⟨this, this.noerr⟩
  · intro ls s' o h; have := (A.body P s ls s' o hs h).inv; exact ⟨this, this.noerr⟩
  · intro fn arg s' o v hf h; have := (A.invoke P s fn arg s' o v hs hf h).inv; exact ⟨this, this.noerr⟩
  · intro g hd arg strat s' o v hg h
    have := (A.emit P s hd.fl hd.impl arg strat s' o v hs
      (fun i hi => hs.himpl (g, hd) (aget_some_mem hg) i hi) h).inv
    exact ⟨this, this.noerr⟩

/-- **C03.frame** — whatever an operation or a whole functor body does (including nested emissions of
    the same or other signals, `clear()`, destroying trackables or signal handles, exceptions), it is a
    `Frame` step … -/
theorem frame (f : Nat) (P : Prog) (s : St) (hs : Inv s) :
    (∀ op s' r, execOp f P s op = some (s', r) → Frame s s') ∧
    (∀ ls s' o, runBody f P s ls = some (s', o) → Frame s s') :=
  ⟨fun op s' r h => ((all_ok f).op P s op s' r hs h).frame,
   fun ls s' o h => ((all_ok f).body P s ls s' o hs h).frame⟩

/-- … i.e. for every impl that is emitting (`exec_count_ > 0`): it still exists afterwards, `exec_count_`
    and the number of holders are unchanged, and its old cell-id sequence survives as a contiguous block
    `pre ++ old ++ post` — no cell of an active emission's `[begin, marker]` range is erased -/
theorem frame_spelled_out (s s' : St) (hs : Inv s) (hs' : Inv s') (hf : Frame s s') (i : Nat) (im : Impl)
    (hi : aget s.impls i = some im) (hx : 0 < im.exec) :
    ∃ im', aget s'.impls i = some im' ∧ im'.exec = im.exec ∧ im'.holders = im.holders ∧
      ∃ pre post, im'.cells.map (·.id) = pre ++ im.cells.map (·.id) ++ post := by
  obtain ⟨im', hi', pre, post, hk⟩ := hf.keep i im hi hx
  have he := hf.exec i
  rw [execOf_pos hi', execOf_pos hi] at he
  refine ⟨im', hi', he, ?_, pre.map (·.1), post.map (·.1), ?_⟩
  · have a := (hs.ok i im hi).eh; have b := (hs'.ok i im' hi').eh; omega
  · have := congrArg (List.map (·.1)) hk
    rw [← cids_eq_skel] at this
    simp only [List.map_append] at this
    rw [← cids_eq_skel] at this
    exact this

/-- an emission restores `exec_count_` of every impl (also of the ones created or destroyed meanwhile:
    absent counts as 0), whether it ends normally or by an exception -/
theorem emit_restores_exec (f : Nat) (P : Prog) (s : St) (hs : Inv s) (g : Nat) (h : Handle) (arg : Nat)
    (strat : Strat) (s' : St) (o : Outcome) (v : Nat) (hg : aget s.G g = some h)
    (he : emitImpl f P s h.fl h.impl arg strat = some (s', o, v)) : ∀ i, execOf s' i = execOf s i :=
  ((all_ok f).emit P s h.fl h.impl arg strat s' o v hs
    (fun i hi => hs.himpl (g, h) (aget_some_mem hg) i hi) he).frame.exec

/-- **C03.quiescent_clean** — between top-level operations every signal is quiescent and clean:
    `exec_count_ = 0`, `deferred_ = false`, no holder, no end marker, and every cell is still linked
    (either valid, or the dummy of a slot that was empty when connected): "the signal holds exactly the
    still-connected slots" -/
theorem quiescent_clean (fuel : Nat) (P : Prog) (ls : List Line) (s : St)
    (h : runTop fuel P {} ls = some s) (i : Nat) (im : Impl) (hi : aget s.impls i = some im) :
    im.exec = 0 ∧ im.deferred = false ∧ im.holders = 0 ∧
    ∀ c ∈ im.cells, c.slot.rep.isSome = true ∧ c.linked = true := by
  have g := runTop_good fuel P {} ls s Sigc.Emit.inv_init h
  have hx : im.exec = 0 := by
    have := g.frame.exec i
    rw [execOf_pos hi] at this
    simpa [execOf, aget] using this
  have hok := g.inv.ok i im hi
  have hd := hok.q1 hx
  refine ⟨hx, hd, by have := hok.eh; omega, ?_⟩
  intro c hc
  have hn := hok.no_markers hx c hc
  refine ⟨?_, hok.d hd c hc hn⟩
  cases hr : c.slot.rep <;> simp_all

/-- in particular no cell is invalid *and* unlinked (a disconnected slot is gone) -/
theorem quiescent_no_dead_cell (fuel : Nat) (P : Prog) (ls : List Line) (s : St)
    (h : runTop fuel P {} ls = some s) (i : Nat) (im : Impl) (hi : aget s.impls i = some im) :
    ∀ c ∈ im.cells, ¬ (c.slot.empty = true ∧ c.linked = false) := by
  intro c hc hcon
  have := (quiescent_clean fuel P ls s h i im hi).2.2.2 c hc
  rw [this.2] at hcon
  exact absurd hcon.2 (by simp)


/-! ## a concrete instance

`demo`: a void signal with two slots; the first slot, when invoked, disconnects itself, connects a new
slot, re-emits the same signal recursively (until the depth limit 3 answers `toodeep`) and clears the
signal — all from inside the emission. -/

def demo : Prog := {
  bodies := [(1, [⟨"disc c1", .disc 1⟩, ⟨"connfn c3 g0 fn:2", .connfn 3 0 (.fn 2) false⟩,
                  ⟨"emit g0 5", .emit 0 5 .sum false⟩, ⟨"clear g0", .clear 0⟩])],
  top := [⟨"newG g0 V", .newG 0 (some .V)⟩, ⟨"connfn c1 g0 fn:1", .connfn 1 0 (.fn 1) false⟩,
          ⟨"connfn c2 g0 fn:2", .connfn 2 0 (.fn 2) false⟩, ⟨"emit g0 7", .emit 0 7 .sum false⟩],
  maxdepth := 3 }

/-- the run terminates with fuel 30 (so the theorems below are not vacuous on it) … -/
example : (runTop 30 demo {} demo.top).isSome = true := by decide +kernel

/-- … and `safe` / `quiescent_clean` apply to it -/
example (s : St) (h : runTop 30 demo {} demo.top = some s) : s.err = none := safe 30 demo s h

example (s : St) (h : runTop 30 demo {} demo.top = some s) (i : Nat) (im : Impl)
    (hi : aget s.impls i = some im) : im.exec = 0 ∧ im.deferred = false :=
  let q := quiescent_clean 30 demo demo.top s h i im hi
  ⟨q.1, q.2.1⟩

/-! `demoOwn` (program mode `owners`): the signal object `g0` is owned by a functor connected to `g1`
(`ownG:3:g0`; `delG g0` answers `owned`).  During the emission of `g0` its first slot disconnects that
functor: the last owning copy is gone, `collect` destroys the signal object *while it is emitting* (the
name is dead for the rest of the body), the emission goes on (the second slot is invoked) and the slot
list dies in the epilogue.  `safe` covers this run. -/

def demoOwn : Prog := {
  bodies := [(1, [⟨"disc c1", .disc 1⟩, ⟨"sizeq g0", .sizeq 0⟩])],
  top := [⟨"newG g0 V", .newG 0 (some .V)⟩, ⟨"newG g1 V", .newG 1 (some .V)⟩,
          ⟨"connfn c1 g1 ownG:3:g0", .connfn 1 1 (.ownG 3 0) false⟩,
          ⟨"connfn c2 g0 fn:1", .connfn 2 0 (.fn 1) false⟩,
          ⟨"connfn c3 g0 fn:2", .connfn 3 0 (.fn 2) false⟩,
          ⟨"delG g0", .delG 0⟩,
          ⟨"emit g0 7", .emit 0 7 .sum false⟩],
  owners := true }

/-- handles left, impls left, number of owned signal objects left, error, number of calls -/
example : (runTop 30 demoOwn {} demoOwn.top).map (fun s =>
      (s.G.map (·.1), s.impls.map (·.1), s.ownedG.length, s.err,
       (s.trace.filter (fun e => match e with | .call _ _ _ => true | _ => false)).length))
    = some ([1], [6], 0, none, 2) := by decide +kernel

/-- `delG g0` was refused (`owned`); inside the first slot's body, after `disc c1`, the name `g0` is dead -/
example : (runTop 30 demoOwn {} demoOwn.top).map (fun s =>
      s.trace.reverse.filterMap (fun e => match e with | .res _ _ r => some r | _ => none))
    = some ["ok", "ok", "ok", "ok", "ok", "owned", "ok", "dead", "r=void"] := by decide +kernel

example (s : St) (h : runTop 30 demoOwn {} demoOwn.top = some s) : s.err = none := safe 30 demoOwn s h

/-- the part of the invariant about functor-owned signal objects (`Sigc.Emit.OwnOK`), spelled out: in every
    reachable state a signal object owned by a functor is not pinned — if a forwarder (`fwd:`) was ever made
    of it, it is of a trackable flavour, so every forwarder tracks it and dies with it -/
theorem owned_not_pinned (fuel : Nat) (P : Prog) (ls : List Line) (s : St) (h : runTop fuel P {} ls = some s)
    (k g : Nat) (hd : Handle) (hk : (k, g) ∈ s.ownedG) (hg : aget s.G g = some hd) (he : hd.everFwd = true) :
    hd.fl.isTrackable = true :=
  (inv_reachable fuel P ls s h).own (k, g) hk hd hg he

/-- non-vacuity: `g0` (trackable flavour) is owned *and* forwarded to; `g2` (not trackable) is owned, so the
    forwarder is refused (`owned`) and `g2` stays unpinned -/
def demoOwnFwd : Prog := {
  bodies := [],
  top := [⟨"newG g0 TV", .newG 0 (some .TV)⟩, ⟨"newG g1 V", .newG 1 (some .V)⟩, ⟨"newG g2 V", .newG 2 (some .V)⟩,
          ⟨"connfn c1 g1 ownG:3:g0", .connfn 1 1 (.ownG 3 0) false⟩,
          ⟨"connfn c2 g1 ownG:4:g2", .connfn 2 1 (.ownG 4 2) false⟩,
          ⟨"mkS s0 V fwd:g0", .mkS 0 "V" (.fwd 0)⟩,
          ⟨"mkS s1 V fwd:g2", .mkS 1 "V" (.fwd 2)⟩],
  owners := true }

example : (runTop 30 demoOwnFwd {} demoOwnFwd.top).map (fun s =>
      (s.ownedG.map (·.2), s.G.map (fun p => (p.1, p.2.everFwd, p.2.fl.isTrackable)),
       s.trace.reverse.filterMap (fun e => match e with | .res _ _ r => some r | _ => none)))
    = some ([2, 0], [(0, true, true), (1, false, false), (2, false, false)],
            ["ok", "ok", "ok", "ok", "ok", "ok", "owned"]) := by decide +kernel

/-- `Frame` on a concrete pair of states: a connect during an emission appends after the block -/
def exImplA : Impl := { cells := [{ id := 2, slot := {}, linked := false }], exec := 1, holders := 1 }
def exImplB : Impl :=
  { cells := [{ id := 2, slot := {}, linked := false },
              { id := 3, slot := { rep := some { call := true, fn := none } }, linked := true }],
    exec := 1, holders := 1 }

example : Frame ({ impls := [(1, exImplA)], next := 3 } : St) ({ impls := [(1, exImplB)], next := 4 } : St) := by
  refine ⟨by decide, ?_, ?_, fun _ => rfl⟩
  · intro i; simp only [execOf, aget]; by_cases e : 1 = i <;> simp [e, exImplA, exImplB]
  · intro i im hi _
    simp only [aget] at hi
    by_cases e : 1 = i
    · simp [e] at hi; subst hi
      exact ⟨exImplB, by simp [aget, e], [], [(3, false)], by simp [skel, exImplA, exImplB]⟩
    · simp [e] at hi

end Sigc.C03
