import Sigc.Model
import Sigc.Spec
/-! property theorems for C03 (being written) -/
namespace Sigc.C03
end Sigc.C03
