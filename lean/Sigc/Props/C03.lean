import Sigc.Model
import Sigc.Lemmas.Basic
import Sigc.Lemmas.Frames
/-!
# C03 — slots may connect, disconnect, destroy or re-emit during an emission, safely
(first theorems: the deferral rule; the all-history safety theorem is being proved in Sigc/Lemmas/Emit*.lean)
-/
namespace Sigc.C03
open Sigc.Model

/-- while an emission (or `clear`/`sweep`) of list `i` is running (`exec > 0`), the parent
    notification of a disconnected slot erases nothing: the list is untouched, only `deferred` is set -/
theorem notifyParent_defers_while_emitting (s : St) (i cid : Nat) (im : Impl)
    (hi : aget s.impls i = some im) (he : im.exec > 0) :
    (notifyParent s i cid).impls = aset s.impls i { im with deferred := true } ∧
    (notifyParent s i cid).C = s.C ∧ (notifyParent s i cid).K = s.K := by
  unfold notifyParent
  have : ¬ im.exec = 0 := by omega
  simp [hi, this]

/-- outside any emission the cell is erased at once and every connection to it is nulled -/
theorem notifyParent_erases_when_idle (s : St) (i cid : Nat) (im : Impl)
    (hi : aget s.impls i = some im) (he : im.exec = 0) :
    notifyParent s i cid = eraseCell s i cid := by
  unfold notifyParent
  simp [hi, he]

/-- `unreference_exec()`: the deferred sweep runs exactly when the execution count returns to zero -/
theorem unrefExec_sweeps_iff (s : St) (i : Nat) (im : Impl) (hi : aget s.impls i = some im) :
    unrefExec s i =
      (if im.exec - 1 = 0 ∧ im.deferred = true
       then sweep (setImpl s i { im with exec := im.exec - 1 }) i
       else setImpl s i { im with exec := im.exec - 1 }) := by
  unfold unrefExec
  simp only [hi]
  by_cases h1 : im.exec - 1 = 0 <;> by_cases h2 : im.deferred = true <;> simp [h1, h2]

/-- `sweep()` leaves only non-empty cells and resets `deferred` -/
theorem sweep_leaves_no_empty (s : St) (i : Nat) (im : Impl) (hi : aget s.impls i = some im) :
    ∃ im', aget (sweep s i).impls i = some im' ∧ im'.deferred = false ∧ ∀ c ∈ im'.cells, c.slot.empty = false := by
  unfold sweep
  simp only [hi]
  rw [nullConnsList_impls]
  refine ⟨{ im with deferred := false, cells := im.cells.filter (fun c => !c.slot.empty) }, by simp, rfl, ?_⟩
  intro c hc
  simp at hc
  simpa using hc.2

example : (notifyParent { impls := [(1, { cells := [{ id := 2, slot := {}, linked := false }], exec := 1 })] } 1 2).impls
    = [(1, { cells := [{ id := 2, slot := {}, linked := false }], exec := 1, deferred := true })] := by
  simp [notifyParent, aget, setImpl, aset]

end Sigc.C03
