import Sigc.Types
import Sigc.TypesLemmas
/-!
  Type-level theorems for property C20 ("the type-erased call path never relies on undefined behaviour"):
  the function type under which `slot_rep::call_` is *produced* and the function type it is *cast back to*
  before every call are the same type, for every result type and every parameter list.

  Model (`Sigc/Types.lean`):
  * `callItType r as`   — the type of `&slot_call<F, R, A...>::call_it` (what `address()` erases to `hook`),
  * `castBackTo site r as` — the explicit per-call-site table (`slot::operator()`, the value emitter, the void
    emitter; the accumulating emitter calls through `slot::operator()`),
  * `siteApplies` — which emitter template is selected for which result type,
  * `siteArg` / `siteOk` — the argument expression each site passes and whether that call is well-formed.

  The table is checked against the code on every run of the C05 check (static_assert(is_same) probes with
  `-fno-access-control`, a scan of the `function_pointer_cast<>` sites, a `clang++ -fsanitize=function` run).
-/
namespace Sigc.C20
open Sigc.Types

/-- **C20.call_through_original_type** — at every call site, for every result type `r` and every parameter list
    `as` (any length), the function-pointer type `call_` is cast back to is exactly the type of the `call_it`
    instantiation whose address was stored.  (Proved through the pack expansion, by list induction in
    `takePack_eq_map`; the hypothesis only says the site's template is the one selected for `r`.) -/
theorem call_through_original_type (site : CallSite) (r : Ret) (as : List Param)
    (h : siteApplies site r = true) : castBackTo site r as = callItType r as := by
  cases site <;> simp only [castBackTo, slotCallType, callItType, takePack_eq_map]
  -- the void emitter: the table says `void`, the hypothesis says `r` is `void`
  cases r with
  | none => rfl
  | some p => simp [siteApplies] at h

example : castBackTo .emitValue (some ⟨.int, .val⟩) [⟨.int, .val⟩, ⟨.clsA, .lref⟩, ⟨.long, .rref⟩]
    = ⟨.par ⟨.int, .val⟩, [.repPtr, .par ⟨.int, .cref⟩, .par ⟨.clsA, .lref⟩, .par ⟨.long, .rref⟩]⟩ := by decide
example : siteApplies .emitVoid none = true ∧ siteApplies .emitValue (some ⟨.int, .val⟩) = true := by decide

/-- the hypothesis of `call_through_original_type` cannot be dropped for the table entry of the void emitter:
    it really is a different type when the result is not `void` (so the table is not trivially uniform) -/
theorem void_site_needs_void :
    castBackTo .emitVoid (some ⟨.int, .val⟩) [] ≠ callItType (some ⟨.int, .val⟩) [] := by decide

/-- every parameter of the erased call type is a reference (`type_trait_take_t`), never a by-value copy: the call
    through the pointer itself copies nothing -/
theorem call_type_params_are_references (r : Ret) (as : List Param) :
    ∀ t ∈ (callItType r as).params, t = .repPtr ∨ ∃ p, t = .par p ∧ p.shape ≠ .val := by
  intro t ht
  simp only [callItType, List.mem_cons, List.mem_map] at ht
  rcases ht with h | ⟨a, _, h⟩
  · exact Or.inl h
  · refine Or.inr ⟨take a, h.symm, ?_⟩
    obtain ⟨ab, sh⟩ := a
    cases sh <;> simp [take]

example : (callItType none [⟨.int, .val⟩]).params = [.repPtr, .par ⟨.int, .cref⟩] := by decide

/-- **C20.call_site_args_ok** — the argument expression every call site passes initialises the corresponding
    parameter of the erased call type, for every declared parameter that is not an rvalue reference; the forwarding
    sites (`slot::operator()`, the void emitter) do so for rvalue references too. -/
theorem call_site_args_ok (site : CallSite) (a : Param)
    (h : a.shape ≠ .rref ∨ site = .slotCall ∨ site = .emitVoid) : siteOk site a = true := by
  obtain ⟨ab, sh⟩ := a
  cases site <;> cases sh <;> cases ab <;> first | rfl | (exfalso; revert h; simp)

example : siteOk .emitAccum ⟨.clsB, .cref⟩ = true := by decide

/-- what the model says about the remaining corner (an observation about the code, not a defect of the erased call):
    the value-returning and the accumulating emitters pass the *named* parameter, an lvalue, so `emit` of a
    `signal<R(T&&)>` with non-void `R` is ill-formed (rejected at compile time; pinned in corpus/C05). -/
theorem value_emitter_rejects_rvalue_reference (b : Base) :
    siteOk .emitValue ⟨b, .rref⟩ = false ∧ siteOk .emitAccum ⟨b, .rref⟩ = false := by
  cases b <;> exact ⟨rfl, rfl⟩

end Sigc.C20
