import Sigc.SlotGLemmasFrame
import Sigc.SlotGLemmasBlock
import Sigc.SlotGLemmasFuel
import Sigc.SlotGLemmasInval
/-!
  # SlotG — object graphs among slot variables (C06, C12, C04/C15 flavour)

  Model: `Sigc/SlotG.lean` (`slot_base`/`slot_rep`/`typed_slot_rep`, `connection(slot_base&)` with its
  `weak_raw_ptr`, `trackable`), language and totality rules: `docs/SLOTG.md`.  All theorems quantify over **all**
  programs (`run ops`, `ops : List Op` arbitrary) or over all well-formed states and all operations; they are proved
  by induction over the operation list and over the fuel of the cascades (`destroyRep`, `notifyInv`), nothing is
  enumerated.  Lemmas: `Sigc/SlotGLemmas*.lean`.

  * (a) `wf_reachable`, `no_dangling`, `no_fuel_error` — the well-formedness invariant of every reachable state
    (C06: no dangling pointer in either direction); `invalidated_holds_no_functor` (C07: an invalidated
    representation has destroyed its functor);
  * (b) `block_returns_previous` … `blocked_or_empty_callS` — blocking (C12) and how the four copy/move operations
    transfer `blocked_` (C15);
  * (c) `connected_iff`, `connected_stays`, `connected_false_forever`, `conn_false_after_*` — a connection made from
    a slot variable tells the truth (C04);
  * (d) `rep_held_unique`, `live_count_spec`, `owned_has_owner` — functor accounting.

  The model is the library *after* the fixes of findings F10 (a8d1bb0), F11 (6def444) and F12 (1467ef2)
  (docs/SLOTG.md): both assignment operators let the variable refer to the new representation before the old one
  is deleted, and `delete_rep_with_check()` clears `rep_` before it deletes; and after the fix of F14 (076d91d):
  in these places the observers of the old representation are notified before it is deleted
  (`assign_owned_connection_safe`).  There is no `xparent` rule and no
  rule about what the destination of an assignment owns any more: `wf_reachable` holds for every program;
  `exchange_no_dead_parent` and `delete_rep_self_owned_safe` state the F10 and F12 situations explicitly.
-/
namespace Sigc.SlotG
open Blk

/-! ## (a) well-formedness of every reachable state -/

/-- the fuel of the cascades never runs out -/
theorem no_fuel_error (ops : List Op) : (run ops).err = false := run_no_err ops

/-- **every reachable state is well-formed** -/
theorem wf_reachable (ops : List Op) : WF (run ops) :=
  run_wf_of_noerr ops State.init wf_init (run_no_err ops)

/-- **C06, no dangling access in either direction.**  In every reachable state
  1. a connection is null or points to a live slot variable whose *current* representation exists and carries the
     registration of exactly this connection, once;
  2. every registration on a representation belongs to a live connection that points to the variable holding it;
  3. every `parent_` points to a live representation, whose functor refers to (`sref`) or binds by value (`nest`)
     the variable holding the child;
  4. every `rep_` points to a live representation, no two variables share one, every representation is held;
  5. a representation whose functor refers to a trackable is registered on that (live) trackable, exactly once;
  6. a trackable holds no entry of a dead representation or of one that does not refer to it, no nulled entry,
     and is not clearing;
  7. a functor that refers to / owns a slot variable refers to / owns a live one (one of the program's), and a
     functor that binds a slot by value holds a live anonymous variable of its own (`anonBase + r`);
  8. a functor that owns a connection object owns a live one (and by 1./2. that connection, like every other, is
     registered exactly where it points — also when it points at the very slot variable that stores the functor). -/
theorem no_dangling (ops : List Op) :
    let s := run ops
    (∀ c v, s.conns c = some (some v) →
      ∃ V r R, s.slots v = some V ∧ V.rep = some r ∧ s.reps r = some R ∧ c ∈ R.cbs ∧ R.cbs.Nodup) ∧
    (∀ r R c, s.reps r = some R → c ∈ R.cbs → ∃ v, s.conns c = some (some v) ∧ repOf s v = some r) ∧
    (∀ r R p, s.reps r = some R → R.parent = some p →
      ∃ P f v, s.reps p = some P ∧ P.fn = some f ∧ f.ref = some v ∧ repOf s v = some r) ∧
    ((∀ v r, repOf s v = some r → ∃ R, s.reps r = some R) ∧
      (∀ v1 v2 r, repOf s v1 = some r → repOf s v2 = some r → v1 = v2) ∧
      (∀ r R, s.reps r = some R → ∃ v, repOf s v = some r)) ∧
    (∀ r R f t, s.reps r = some R → R.fn = some f → f.trk = some t →
      ∃ T, s.trks t = some T ∧ (r, true) ∈ T.entries ∧ (T.entries.map Prod.fst).Nodup) ∧
    (∀ t T r b, s.trks t = some T → (r, b) ∈ T.entries →
      b = true ∧ T.clearing = false ∧ ∃ R f, s.reps r = some R ∧ R.fn = some f ∧ f.trk = some t) ∧
    (∀ r R fid v, s.reps r = some R → R.fn = some (.sref fid v) → v < anonBase ∧ ∃ V, s.slots v = some V) ∧
    (∀ r R fid v t, s.reps r = some R → R.fn = some (.own fid v t) → v < anonBase ∧ ∃ V, s.slots v = some V) ∧
    (∀ r R fid v d, s.reps r = some R → R.fn = some (.nest fid v d) →
      v = anonBase + r ∧ ∃ V, s.slots v = some V) ∧
    (∀ r R fid c, s.reps r = some R → R.fn = some (.ownc fid c) → ∃ p, s.conns c = some p) := by
  intro s
  have hw : WF s := wf_reachable ops
  have h := hw.inv
  refine ⟨?_, fun r R c hR hm => hw.cbsConn' hR hm, ?_, ⟨h.repAlive, h.repUniq, hw.held⟩, ?_, ?_, ?_, h.ownOk,
    h.nestOk, h.ownCOk⟩
  · intro c v hc
    obtain ⟨r, R, hr, hR, hm⟩ := hw.connReg' hc
    obtain ⟨V, hV, hVr⟩ := repOf_eq.mp hr
    exact ⟨V, r, R, hV, hVr, hR, hm, h.cbsNodup r R hR⟩
  · intro r R p hR hp
    obtain ⟨v, hv⟩ := hw.held r R hR
    obtain ⟨P, f, hP, hPf, hfr⟩ := h.parentOk r R p v hR hp hv
    exact ⟨P, f, v, hP, hPf, hfr, hv⟩
  · intro r R f t hR hf ht
    obtain ⟨T, hT, hm⟩ := h.trkReg r R f t hR hf ht
    exact ⟨T, hT, hm, h.trkNodup t T hT⟩
  · intro t T r b hT hm
    obtain ⟨hcl, hfl⟩ := hw.idle t T hT
    have hb : b = true := by
      cases b with
      | true => rfl
      | false => exact absurd hm (hfl r)
    subst hb
    exact ⟨rfl, hcl, h.trkEnt t T r hT hm⟩
  · intro r R fid v hR hf
    exact ⟨(h.refOk r R fid v hR hf).1, (h.refOk r R fid v hR hf).2.1⟩

/-- non-vacuity: a program whose final state has a live connection, a parent link, a trackable registration and an
    owned variable (so every clause of `no_dangling` speaks about something) -/
def exGraph : List Op :=
  [.newT 1, .mkS 1 (.mem 1 1), .mkS 2 (.sref 2 1), .connS 1 1, .mkS0 3, .mkS 4 (.own 3 3 none),
   .mkS 5 (.nest 4 1 0)]

example : (run exGraph).conns 1 = some (some 1) ∧ repOf (run exGraph) 1 = some 0 ∧
    ((run exGraph).reps 0).map (·.parent) = some (some 1) ∧ ((run exGraph).reps 0).map (·.cbs) = some [1] ∧
    ((run exGraph).trks 1).map (·.entries) = some [(0, true), (4, true)] ∧ ownedBy (run exGraph) 3 = true ∧
    -- `S5 = bind(F4, copy of S1)`: representation 3 binds the anonymous variable `anonBase + 3`, whose
    -- representation 4 (a clone of S1's: registered on the trackable too) has 3 as parent
    ((run exGraph).reps 3).map (·.fn) = some (some (.nest 4 (anonBase + 3) 1)) ∧
    repOf (run exGraph) (anonBase + 3) = some 4 ∧
    ((run exGraph).reps 4).map (·.parent) = some (some 3) := by decide

/-- **F10, the situation itself.**  After an assignment of any kind to a slot variable (`asgS`, `masgS`, `setS`) —
    also when deleting the old representation destroys its parent, because the old representation *is* its own
    parent or because the old functor owns the variable whose functor refers to this one — no representation is
    left with a dead `parent_`, and the parent of the representation now stored in the variable still refers to
    that variable. -/
theorem exchange_no_dead_parent {s : State} (hw : WF s) (op : Op)
    (_hop : (∃ d x, op = .asgS d x) ∨ (∃ d x, op = .masgS d x) ∨ (∃ d f, op = .setS d f))
    (hc : check s op = none) (he : (apply op s).err = false) :
    ∀ r R p, (apply op s).reps r = some R → R.parent = some p →
      ∃ P f v, (apply op s).reps p = some P ∧ P.fn = some f ∧ f.ref = some v ∧
        repOf (apply op s) v = some r := by
  have hw' := apply_wf hw op hc he
  intro r R p hR hp
  obtain ⟨v, hv⟩ := hw'.held r R hR
  obtain ⟨P, f, hP, hPf, hfr⟩ := hw'.inv.parentOk r R p v hR hp hv
  exact ⟨P, f, v, hP, hPf, hfr, hv⟩

/-- non-vacuity: the F10 program `s = F(); s = bind(g, std::ref(s)); s = F();` — before the third assignment the
    representation of `S1` is its own parent, the assignment is performed (not refused), deleting the old
    representation destroys that parent, and the new representation is left without a parent; the ownership
    variant likewise -/
def exF10 : State := run [.mkS 1 (.fn 1), .setS 1 (.sref 2 1)]
def exF10own : State := run [.mkS 1 (.fn 1), .mkS 2 (.sref 2 1), .setS 1 (.own 3 2 none), .mkS 3 (.fn 4)]

example : repOf exF10 1 = some 1 ∧ (exF10.reps 1).map (·.parent) = some (some 1) ∧
    check exF10 (.setS 1 (.fn 3)) = none ∧ (apply (.setS 1 (.fn 3)) exF10).err = false ∧
    repOf (apply (.setS 1 (.fn 3)) exF10) 1 = some 2 ∧
    ((apply (.setS 1 (.fn 3)) exF10).reps 2).map (·.parent) = some none ∧
    (apply (.setS 1 (.fn 3)) exF10).reps 1 = none := by decide

example : repOf exF10own 1 = some 2 ∧ repOf exF10own 2 = some 1 ∧
    (exF10own.reps 2).map (·.parent) = some (some 1) ∧ check exF10own (.asgS 1 3) = none ∧
    (apply (.asgS 1 3) exF10own).slots 2 = none ∧ (apply (.asgS 1 3) exF10own).reps 1 = none ∧
    repOf (apply (.asgS 1 3) exF10own) 1 = some 4 ∧
    ((apply (.asgS 1 3) exF10own).reps 4).map (·.parent) = some none := by decide

/-- **F12, the situation itself.**  `delete_rep_with_check()` — what `*d = slot()` (`clrS` on a variable with a
    representation) and both assignments from an empty source perform — keeps every well-formed state
    well-formed, whatever the representation of `d` stores: also the functor that keeps `d` itself alive.  The old
    representation is freed (exactly once: representation identities are never reused and it is gone), and `d`,
    if it still exists, holds no representation.  None of these operations is refused on live variables. -/
theorem delete_rep_self_owned_safe {s : State} (hw : WF s) (d : Nat) (hnm : d < anonBase)
    (he : (deleteRepWithCheck d s).err = false) :
    (WF (deleteRepWithCheck d s) ∧
      (∀ r, repOf s d = some r → (deleteRepWithCheck d s).reps r = none) ∧
      (∀ D', (deleteRepWithCheck d s).slots d = some D' → D'.rep = none)) ∧
    ((s.slots d).isSome = true → check s (.clrS d) = none ∧
      (repOf s d ≠ none → apply (.clrS d) s = deleteRepWithCheck d s)) ∧
    (∀ x, x < anonBase → (s.slots d).isSome = true → (s.slots x).isSome = true → repOf s d ≠ repOf s x →
      emptyVar s x = true →
      check s (.asgS d x) = none ∧ check s (.masgS d x) = none ∧
      apply (.asgS d x) s = deleteRepWithCheck d s ∧ apply (.masgS d x) s = deleteRepWithCheck d s) := by
  have hnd : decide (d < anonBase) = true := by simpa using hnm
  refine ⟨deleteRepWithCheck_spec hw d hnm he, ?_, ?_⟩
  · intro hd
    have hdd : deadS s d = false := by unfold deadS; cases hx : s.slots d <;> simp_all
    refine ⟨by simp [check, check0, Op.named, Op.names, hdd, hnd], ?_⟩
    intro hr
    simp only [apply]
    cases hq : repOf s d with
    | none => exact absurd hq hr
    | some q => rfl
  · intro x hnx hd hx hne hemp
    have hnx' : decide (x < anonBase) = true := by simpa using hnx
    have hdd : deadS s d = false := by unfold deadS; cases h : s.slots d <;> simp_all
    have hdx : deadS s x = false := by unfold deadS; cases h : s.slots x <;> simp_all
    have hbeq : (repOf s d == repOf s x) = false := by simpa using hne
    obtain ⟨X, hX⟩ : ∃ X, s.slots x = some X := by cases h : s.slots x <;> simp_all
    have hXr : repOf s x = X.rep := by simp [repOf, hX]
    have hbeq' : (repOf s d == X.rep) = false := by rw [← hXr]; exact hbeq
    refine ⟨by simp [check, check0, Op.named, Op.names, hdd, hdx, hbeq, hnd, hnx'],
      by simp [check, check0, Op.named, Op.names, hdd, hdx, hbeq, hnd, hnx'], ?_, ?_⟩ <;>
      simp [apply, hX, hbeq', hemp]

/-- **F14, the situation itself** (fixed: 076d91d).  A functor may own (`shared_ptr`) a `sigc::connection` — also
    one made from the very slot variable that stores the functor.  When that variable loses the functor by an
    assignment of any kind (`asgS`, `masgS`, `setS`, `clrS`; also from an empty source) `rep_` is switched first
    (F10/F12), so the dying connection can only deregister through the *new* `rep_`; the library therefore tells the
    observers of the old representation (`notify_callbacks()`) before it deletes it.  Consequence, for every
    well-formed state and whatever the old functor owns: afterwards the state is well-formed — in particular no
    representation carries the registration of a dead connection, every connection that still exists and is not null
    is registered on the current representation of a live variable, and a connection owned by a dead functor is
    gone. -/
theorem assign_owned_connection_safe {s : State} (hw : WF s) (op : Op)
    (_hop : (∃ d x, op = .asgS d x) ∨ (∃ d x, op = .masgS d x) ∨ (∃ d f, op = .setS d f) ∨ (∃ d, op = .clrS d))
    (hc : check s op = none) (he : (apply op s).err = false) :
    WF (apply op s) ∧
    (∀ r R c, (apply op s).reps r = some R → c ∈ R.cbs →
      ∃ v, (apply op s).conns c = some (some v) ∧ repOf (apply op s) v = some r) ∧
    (∀ c v, (apply op s).conns c = some (some v) →
      ∃ r R, repOf (apply op s) v = some r ∧ (apply op s).reps r = some R ∧ c ∈ R.cbs) ∧
    (∀ r R fid c, (apply op s).reps r = some R → R.fn = some (.ownc fid c) →
      ∃ p, (apply op s).conns c = some p) := by
  have hw' := apply_wf hw op hc he
  exact ⟨hw', fun r R c hR hm => hw'.cbsConn' hR hm, fun c v hcv => hw'.connReg' hcv, hw'.inv.ownCOk⟩

/-- non-vacuity, the F14 program: `S1`'s functor owns `C1`, `C1` was made from `S1` (registered on `S1`'s
    representation 0).  `*S1 = slot()`, `*S1 = *S2` and `*S1 = std::move(*S2)` are performed, the old representation
    and the connection are gone, nothing dangles; with two functor copies sharing the connection the first
    assignment only nulls it. -/
def exF14 : State :=
  run [.mkS0 1, .newC 1, .setS 1 (.ownc 1 1), .connS 2 1, .asgC 1 2, .delC 2, .mkS 2 (.fn 2)]

example : exF14.conns 1 = some (some 1) ∧ repOf exF14 1 = some 0 ∧ (exF14.reps 0).map (·.cbs) = some [1] ∧
    ownedCBy exF14 1 = true ∧ check exF14 (.delC 1) = some "owned" ∧
    check exF14 (.clrS 1) = none ∧ (apply (.clrS 1) exF14).conns 1 = none ∧
    (apply (.clrS 1) exF14).reps 0 = none ∧
    check exF14 (.asgS 1 2) = none ∧ (apply (.asgS 1 2) exF14).conns 1 = none ∧
    (apply (.asgS 1 2) exF14).reps 0 = none ∧ repOf (apply (.asgS 1 2) exF14) 1 = some 2 ∧
    ((apply (.asgS 1 2) exF14).reps 2).map (·.cbs) = some [] ∧
    (apply (.masgS 1 2) exF14).conns 1 = none ∧ repOf (apply (.masgS 1 2) exF14) 1 = some 1 ∧
    -- a copy of the owning slot shares the connection: it survives the first assignment, nulled
    (apply (.asgS 1 2) (stepState (.cpS 3 1) exF14)).conns 1 = some none ∧
    ownedCBy (apply (.asgS 1 2) (stepState (.cpS 3 1) exF14)) 1 = true := by decide

/-- non-vacuity: the F12 program — `S1` is kept alive by the functor it stores; `*S1 = slot()` is performed, the
    functor's destruction destroys `S1`, nothing is left; and the same through an assignment from an empty slot -/
def exF12 : State := run [.mkS0 1, .setS 1 (.own 1 1 none), .mkS0 2]

example : ownedBy exF12 1 = true ∧ repOf exF12 1 = some 0 ∧ check exF12 (.clrS 1) = none ∧
    (apply (.clrS 1) exF12).err = false ∧ (apply (.clrS 1) exF12).slots 1 = none ∧
    (apply (.clrS 1) exF12).reps 0 = none ∧ liveCount (apply (.clrS 1) exF12) none = 0 ∧
    check exF12 (.asgS 1 2) = none ∧ (apply (.asgS 1 2) exF12).slots 1 = none ∧
    (apply (.masgS 1 2) exF12).reps 0 = none := by decide

/-- **C07, an invalidated representation has destroyed its functor.**  In every reachable state a slot variable
    whose representation is invalid (`call_ == nullptr`: `empty()` is true although `rep_` is set) stores no
    functor any more — however it got invalidated: because a trackable its functor refers to died, because the
    variable its functor refers to or the slot it binds by value was invalidated (`notify_slot_rep_invalidated`
    up the `parent_` chain, any number of levels), or because it was destroyed — with one exception, which is the
    library's documented behaviour: `disconnect()` called on this very representation by name
    (`slot_base::disconnect()`, `connection::disconnect()`) only tells the parent and keeps the functor until the
    slot is destroyed or reassigned.  Consequently the resources the functor holds (bound slots, owned variables,
    the trackable registrations) are released at invalidation time, not when the variable dies. -/
theorem invalidated_holds_no_functor (ops : List Op) :
    ∀ v r R, repOf (run ops) v = some r → (run ops).reps r = some R → R.call = false →
      R.fn = none ∨ disconnectedBy State.init ops r = true := by
  intro v r R _ hR hc
  have := NF.foldl_nf ops State.init (fun _ => False) (by intro r R hR; simp [State.init] at hR) r R hR hc
  rcases this with g | g | g
  · exact .inl g
  · exact absurd g id
  · exact .inr g

/-- non-vacuity, the graph of mutant R6_C07_seed2: `S1 = mem_fun(T1)`, `S2 = bind(F2, S1)` (a copy of `S1` by
    value), `S3 = bind(F3, std::ref(S2))`; `delete T1` invalidates `S1` and the copy bound in `S2`'s functor, hence
    `S2` (its parent), hence `S3`: all three representations are invalid **and hold no functor**, the bound copy
    is gone, `live?` reports 0 for all three functor ids.  And the exemption is a real one: after
    `S1.disconnect()` the representation of `S1` is invalid and still holds `F1`. -/
def exC07 : List Op :=
  [.newT 1, .mkS 1 (.mem 1 1), .mkS 2 (.nest 2 1 0), .mkS 3 (.sref 3 2)]

example :
    -- before: three valid slots, four functor copies (`F1` twice)
    emptyVar (run exC07) 1 = false ∧ emptyVar (run exC07) 2 = false ∧ emptyVar (run exC07) 3 = false ∧
    liveCount (run exC07) (some 1) = 2 ∧ liveCount (run exC07) (some 2) = 1 ∧
    (run exC07).slots (anonBase + 1) = some ⟨some 2, false⟩ ∧
    -- after `delete T1`
    emptyVar (run (exC07 ++ [.delT 1])) 1 = true ∧ emptyVar (run (exC07 ++ [.delT 1])) 2 = true ∧
    emptyVar (run (exC07 ++ [.delT 1])) 3 = true ∧
    repOf (run (exC07 ++ [.delT 1])) 2 = some 1 ∧
    ((run (exC07 ++ [.delT 1])).reps 1).map (·.fn) = some none ∧
    ((run (exC07 ++ [.delT 1])).reps 3).map (·.fn) = some none ∧
    (run (exC07 ++ [.delT 1])).slots (anonBase + 1) = none ∧
    liveCount (run (exC07 ++ [.delT 1])) none = 0 ∧
    disconnectedBy State.init (exC07 ++ [.delT 1]) 1 = false := by decide

example : ((run [.mkS 1 (.fn 1), .discS 1]).reps 0).map (fun R => (R.call, R.fn)) = some (false, some (.fn 1)) ∧
    disconnectedBy State.init [.mkS 1 (.fn 1), .discS 1] 0 = true := by decide

/-! ## (b) blocking (C12) and the transfer of `blocked_` by the copy/move operations (C15) -/

theorem block_returns_previous (s : State) (v : Nat) (b : Bool) (h : check s (.blockS v b) = none) :
    result s (.blockS v b) = b2s (blockedVar s v) ∧
    blockedVar (apply (.blockS v b) s) v = b ∧
    repOf (apply (.blockS v b) s) v = repOf s v ∧
    (∀ w, w ≠ v → (apply (.blockS v b) s).slots w = s.slots w) ∧
    (apply (.blockS v b) s).reps = s.reps ∧
    (apply (.blockS v b) s).trks = s.trks ∧
    (apply (.blockS v b) s).conns = s.conns :=
  block_returns_previous_lem s v b h

example : check exA (.blockS 1 false) = none ∧ blockedVar exA 1 = true ∧
    blockedVar (apply (.blockS 1 false) exA) 1 = false := by decide

theorem unblock_returns_previous (s : State) (v : Nat) (h : check s (.unblockS v) = none) :
    result s (.unblockS v) = b2s (blockedVar s v) ∧
    blockedVar (apply (.unblockS v) s) v = false ∧
    repOf (apply (.unblockS v) s) v = repOf s v ∧
    (∀ w, w ≠ v → (apply (.unblockS v) s).slots w = s.slots w) ∧
    (apply (.unblockS v) s).reps = s.reps ∧
    (apply (.unblockS v) s).trks = s.trks ∧
    (apply (.unblockS v) s).conns = s.conns :=
  unblock_returns_previous_lem s v h

example : check exA (.unblockS 1) = none ∧ blockedVar exA 1 = true ∧
    blockedVar (apply (.unblockS 1) exA) 1 = false := by decide

/-- `connection::block(b)`: through a connection whose slot variable `v` is alive -/
theorem blockC_returns_previous (s : State) (c : Nat) (b : Bool) :
    (∀ v V, connTarget s c = some v → s.slots v = some V →
      result s (.blockC c b) = b2s (blockedVar s v) ∧
      blockedVar (apply (.blockC c b) s) v = b ∧
      repOf (apply (.blockC c b) s) v = repOf s v ∧
      (∀ w, w ≠ v → (apply (.blockC c b) s).slots w = s.slots w) ∧
      (apply (.blockC c b) s).reps = s.reps ∧
      (apply (.blockC c b) s).trks = s.trks ∧
      (apply (.blockC c b) s).conns = s.conns) ∧
    (connTarget s c = none → result s (.blockC c b) = "0" ∧ apply (.blockC c b) s = s) ∧
    (∀ v, connTarget s c = some v → s.slots v = none →
      result s (.blockC c b) = "0" ∧ apply (.blockC c b) s = s) :=
  blockC_returns_previous_lem s c b

example : connTarget exE 1 = some 1 ∧ exE.slots 1 = some ⟨some 0, true⟩ ∧
    blockedVar (apply (.blockC 1 false) exE) 1 = false ∧
    connTarget exE 2 = none ∧ check exE (.blockC 2 true) = none := by decide

theorem unblockC_returns_previous (s : State) (c : Nat) :
    (∀ v V, connTarget s c = some v → s.slots v = some V →
      result s (.unblockC c) = b2s (blockedVar s v) ∧
      blockedVar (apply (.unblockC c) s) v = false ∧
      repOf (apply (.unblockC c) s) v = repOf s v ∧
      (∀ w, w ≠ v → (apply (.unblockC c) s).slots w = s.slots w) ∧
      (apply (.unblockC c) s).reps = s.reps ∧
      (apply (.unblockC c) s).trks = s.trks ∧
      (apply (.unblockC c) s).conns = s.conns) ∧
    (connTarget s c = none → result s (.unblockC c) = "0" ∧ apply (.unblockC c) s = s) ∧
    (∀ v, connTarget s c = some v → s.slots v = none →
      result s (.unblockC c) = "0" ∧ apply (.unblockC c) s = s) :=
  unblockC_returns_previous_lem s c

example : connTarget exE 1 = some 1 ∧ exE.slots 1 = some ⟨some 0, true⟩ ∧
    blockedVar (apply (.unblockC 1) exE) 1 = false ∧
    connTarget exE 2 = none ∧ check exE (.unblockC 2) = none := by decide

theorem query_pure (s : State) (op : Op) (h : op.isQuery = true) : apply op s = s :=
  query_pure_lem s op h

example : Op.isQuery (.callS 1 2) = true ∧ Op.isQuery (.blockS 1 true) = false := by decide

theorem cpS_blocked (s : State) (j i : Nat) (X : SVar) (hX : s.slots i = some X) (hji : j ≠ i)
    (_h : check s (.cpS j i) = none) :
    (apply (.cpS j i) s).slots i = some X ∧
    blockedVar (apply (.cpS j i) s) j =
      (if (repOf s i).isSome && emptyVar s i then false else X.blocked) :=
  cpS_blocked_lem s j i X hX hji _h

example : exA.slots 1 = some ⟨some 0, true⟩ ∧ check exA (.cpS 4 1) = none ∧ emptyVar exA 1 = false ∧
    blockedVar (apply (.cpS 4 1) exA) 4 = true := by decide
-- a blocked, invalidated source: the copy is the default slot

example : exC.slots 1 = some ⟨some 0, true⟩ ∧ check exC (.cpS 4 1) = none ∧ emptyVar exC 1 = true ∧
    blockedVar (apply (.cpS 4 1) exC) 4 = false := by decide
-- a blocked, rep-less source: the flag is copied

example : exD.slots 2 = some ⟨none, true⟩ ∧ check exD (.cpS 4 2) = none ∧
    blockedVar (apply (.cpS 4 2) exD) 4 = true := by decide

theorem mvS_blocked (s : State) (j i : Nat) (X : SVar) (hX : s.slots i = some X) (hji : j ≠ i)
    (_h : check s (.mvS j i) = none) :
    (repOf s i = none →
      (apply (.mvS j i) s).slots i = some X ∧ (apply (.mvS j i) s).slots j = some ⟨none, X.blocked⟩) ∧
    (hasParent s i = true →
      (apply (.mvS j i) s).slots i = some X ∧
      blockedVar (apply (.mvS j i) s) j = (if emptyVar s i then false else X.blocked)) ∧
    (∀ r, repOf s i = some r → hasParent s i = false →
      (apply (.mvS j i) s).slots j = some ⟨some r, X.blocked⟩ ∧
      (apply (.mvS j i) s).slots i = some ⟨none, false⟩) :=
  mvS_blocked_lem s j i X hX hji _h

example : exD.slots 2 = some ⟨none, true⟩ ∧ check exD (.mvS 4 2) = none ∧ repOf exD 2 = none ∧
    (apply (.mvS 4 2) exD).slots 4 = some ⟨none, true⟩ := by decide
-- (b)

example : exA.slots 1 = some ⟨some 0, true⟩ ∧ check exA (.mvS 4 1) = none ∧ hasParent exA 1 = true ∧
    emptyVar exA 1 = false ∧ (apply (.mvS 4 1) exA).slots 1 = some ⟨some 0, true⟩ ∧
    (apply (.mvS 4 1) exA).slots 4 = some ⟨some 2, true⟩ := by decide
-- (c)

example : exB.slots 1 = some ⟨some 0, true⟩ ∧ check exB (.mvS 4 1) = none ∧ hasParent exB 1 = false ∧
    (apply (.mvS 4 1) exB).slots 4 = some ⟨some 0, true⟩ ∧
    (apply (.mvS 4 1) exB).slots 1 = some ⟨none, false⟩ := by decide

theorem asgS_blocked (s : State) (d x : Nat) (D X : SVar) (hD : s.slots d = some D) (hX : s.slots x = some X)
    (_h : check s (.asgS d x) = none) :
    -- (a) same representation: only the flag is copied
    (repOf s d = repOf s x →
      (apply (.asgS d x) s).slots d = some { D with blocked := X.blocked } ∧
      (∀ w, w ≠ d → (apply (.asgS d x) s).slots w = s.slots w) ∧
      (apply (.asgS d x) s).reps = s.reps ∧ (apply (.asgS d x) s).trks = s.trks ∧
      (apply (.asgS d x) s).conns = s.conns) ∧
    -- (b) the source is empty: the destination's flag is not touched
    (repOf s d ≠ repOf s x → emptyVar s x = true →
      (∀ D', (apply (.asgS d x) s).slots d = some D' →
        D'.blocked = D.blocked ∧
        (D'.rep = none ∨ (D' = D ∧ ∃ r, D.rep = some r ∧ (apply (.asgS d x) s).reps r = none))) ∧
      (∀ w W', w ≠ d → (apply (.asgS d x) s).slots w = some W' → s.slots w = some W')) ∧
    -- (c) otherwise: the flag is copied, the source is untouched
    (repOf s d ≠ repOf s x → emptyVar s x = false →
      (∀ D', (apply (.asgS d x) s).slots d = some D' → D'.blocked = X.blocked ∧ D'.rep = some s.nextRep) ∧
      (∀ w W', w ≠ d → w < anonBase → (apply (.asgS d x) s).slots w = some W' → s.slots w = some W') ∧
      (∀ X', x ≠ d → (apply (.asgS d x) s).slots x = some X' → X' = X)) :=
  asgS_blocked_lem s d x D X hD hX _h

example : check exD (.asgS 1 2) = none ∧ repOf exD 1 = repOf exD 2 ∧
    (apply (.asgS 1 2) exD).slots 1 = some ⟨none, true⟩ := by decide
-- (b): the destination stays blocked although the (empty) source is unblocked

example : check exB (.asgS 1 2) = none ∧ repOf exB 1 ≠ repOf exB 2 ∧ emptyVar exB 2 = true ∧
    exB.slots 2 = some ⟨none, false⟩ ∧ (apply (.asgS 1 2) exB).slots 1 = some ⟨none, true⟩ := by decide
-- (c)

example : check exF (.asgS 1 2) = none ∧ repOf exF 1 ≠ repOf exF 2 ∧ emptyVar exF 2 = false ∧
    exF.slots 1 = some ⟨some 0, false⟩ ∧ (apply (.asgS 1 2) exF).slots 1 = some ⟨some 2, true⟩ ∧
    (apply (.asgS 1 2) exF).slots 2 = some ⟨some 1, true⟩ := by decide

theorem masgS_blocked (s : State) (d x : Nat) (D X : SVar) (hD : s.slots d = some D) (hX : s.slots x = some X)
    (_h : check s (.masgS d x) = none) :
    -- (a) same representation: only the flag is copied
    (repOf s d = repOf s x →
      (apply (.masgS d x) s).slots d = some { D with blocked := X.blocked } ∧
      (∀ w, w ≠ d → (apply (.masgS d x) s).slots w = s.slots w) ∧
      (apply (.masgS d x) s).reps = s.reps ∧ (apply (.masgS d x) s).trks = s.trks ∧
      (apply (.masgS d x) s).conns = s.conns) ∧
    -- (b) the source is empty: the destination's flag is not touched
    (repOf s d ≠ repOf s x → emptyVar s x = true →
      (∀ D', (apply (.masgS d x) s).slots d = some D' →
        D'.blocked = D.blocked ∧
        (D'.rep = none ∨ (D' = D ∧ ∃ r, D.rep = some r ∧ (apply (.masgS d x) s).reps r = none))) ∧
      (∀ w W', w ≠ d → (apply (.masgS d x) s).slots w = some W' → s.slots w = some W')) ∧
    -- (c1) clone branch: the flag is copied, the source keeps representation and flag
    (repOf s d ≠ repOf s x → emptyVar s x = false → hasParent s x = true →
      (∀ D', (apply (.masgS d x) s).slots d = some D' → D'.blocked = X.blocked ∧ D'.rep = some s.nextRep) ∧
      (∀ w W', w ≠ d → w < anonBase → (apply (.masgS d x) s).slots w = some W' → s.slots w = some W') ∧
      (∀ X', x ≠ d → (apply (.masgS d x) s).slots x = some X' → X' = X)) ∧
    -- (c2) really-move branch: flag and representation move, the source becomes the default slot
    (repOf s d ≠ repOf s x → emptyVar s x = false → hasParent s x = false →
      x ≠ d ∧
      (∀ D', (apply (.masgS d x) s).slots d = some D' → D'.blocked = X.blocked ∧ D'.rep = repOf s x) ∧
      (∀ X', (apply (.masgS d x) s).slots x = some X' → X' = ⟨none, false⟩) ∧
      (∀ w W', w ≠ d → w ≠ x → (apply (.masgS d x) s).slots w = some W' → s.slots w = some W')) :=
  masgS_blocked_lem s d x D X hD hX _h

example : check exD (.masgS 1 2) = none ∧ repOf exD 1 = repOf exD 2 ∧
    (apply (.masgS 1 2) exD).slots 1 = some ⟨none, true⟩ := by decide
-- (b)

example : check exB (.masgS 1 2) = none ∧ repOf exB 1 ≠ repOf exB 2 ∧ emptyVar exB 2 = true ∧
    (apply (.masgS 1 2) exB).slots 1 = some ⟨none, true⟩ := by decide
-- (c1)

example : check exA (.masgS 3 1) = none ∧ repOf exA 3 ≠ repOf exA 1 ∧ emptyVar exA 1 = false ∧
    hasParent exA 1 = true ∧ (apply (.masgS 3 1) exA).slots 3 = some ⟨some 2, true⟩ ∧
    (apply (.masgS 3 1) exA).slots 1 = some ⟨some 0, true⟩ := by decide
-- (c2)

example : check exB (.masgS 2 1) = none ∧ repOf exB 2 ≠ repOf exB 1 ∧ emptyVar exB 1 = false ∧
    hasParent exB 1 = false ∧ (apply (.masgS 2 1) exB).slots 2 = some ⟨some 0, true⟩ ∧
    (apply (.masgS 2 1) exB).slots 1 = some ⟨none, false⟩ := by decide

theorem setS_unblocks (s : State) (d : Nat) (f : Fun) (_h : check s (.setS d f) = none) :
    ∀ D', (apply (.setS d f) s).slots d = some D' → D'.blocked = false ∧ D'.rep = some s.nextRep :=
  setS_unblocks_lem s d f _h

example : check exB (.setS 1 (.fn 5)) = none ∧ blockedVar exB 1 = true ∧
    (apply (.setS 1 (.fn 5)) exB).slots 1 = some ⟨some 1, false⟩ := by decide

theorem clrS_blocked (s : State) (d : Nat) (D : SVar) (hD : s.slots d = some D) :
    (repOf s d = none → (apply (.clrS d) s).slots d = some { D with blocked := false }) ∧
    (repOf s d ≠ none → ∀ D', (apply (.clrS d) s).slots d = some D' → D'.blocked = D.blocked) :=
  clrS_blocked_lem s d D hD

example : exD.slots 2 = some ⟨none, true⟩ ∧ repOf exD 2 = none ∧ check exD (.clrS 2) = none ∧
    (apply (.clrS 2) exD).slots 2 = some ⟨none, false⟩ := by decide
-- with a representation and blocked: stays blocked

example : exB.slots 1 = some ⟨some 0, true⟩ ∧ repOf exB 1 ≠ none ∧ check exB (.clrS 1) = none ∧
    (apply (.clrS 1) exB).slots 1 = some ⟨none, true⟩ := by decide

theorem blocked_or_empty_call (s : State) (n v a : Nat)
    (h : blockedVar s v = true ∨ emptyVar s v = true) : callVar s n v a = ([], 0) :=
  blocked_or_empty_call_lem s n v a h

theorem blocked_or_empty_callS (s : State) (v a : Nat)
    (h : blockedVar s v = true ∨ emptyVar s v = true) :
    callLines s (.callS v a) = [] ∧ result s (.callS v a) = "0" :=
  blocked_or_empty_callS_lem s v a h

example : blockedVar exA 1 = true ∧ emptyVar exA 1 = false ∧ (callVar exA maxDepth 1 7).2 = 0 ∧
    (callVar (apply (.unblockS 1) exA) maxDepth 1 7).2 = 17 := by decide
-- empty but not blocked

example : blockedVar exA 3 = false ∧ emptyVar exA 3 = true ∧ (callVar exA maxDepth 3 7).2 = 0 := by decide

theorem foreign_block_untouched (s : State) (op : Op) (v w : Nat) (b : Bool)
    (hop : op = .blockS v b ∨ op = .unblockS v) (hw : w ≠ v) :
    blockedVar (apply op s) w = blockedVar s w :=
  foreign_block_untouched_lem s op v w b hop hw

example : blockedVar exA 1 = true ∧ blockedVar (apply (.blockS 2 true) exA) 1 = true ∧
    blockedVar (apply (.blockS 2 true) exA) 2 = true := by decide

/-! ## (c) connections made from slot variables (C04 flavour) -/

theorem connected_true_iff (s : State) (c : Nat) :
    connected s c = true ↔ ∃ v, s.conns c = some (some v) ∧ emptyVar s v = false := by
  unfold connected
  cases hc : connTarget s c with
  | none =>
    simp only [Bool.false_eq_true, false_iff]
    rintro ⟨v, hv, -⟩
    rw [connTarget_eq.mpr hv] at hc; cases hc
  | some v =>
    have := connTarget_eq.mp hc
    simp only [Bool.not_eq_true', this, Option.some.injEq]
    constructor
    · intro h; exact ⟨v, rfl, h⟩
    · rintro ⟨w, hw, h⟩; subst hw; exact h

/-- **`connected()` tells the truth**: in a well-formed state it is true exactly when the connection points to a
    variable that holds a valid representation — and then it is registered on exactly that representation -/
theorem connected_iff {s : State} (hw : WF s) (c : Nat) :
    connected s c = true ↔
      ∃ v r R, s.conns c = some (some v) ∧ repOf s v = some r ∧ s.reps r = some R ∧ R.call = true ∧
        c ∈ R.cbs := by
  rw [connected_true_iff]
  constructor
  · rintro ⟨v, hv, he⟩
    obtain ⟨r, R, hr, hR, hcall⟩ := (emptyVar_false_iff s v).mp he
    obtain ⟨r', R', hr', hR', hm⟩ := hw.connReg' hv
    rw [hr] at hr'; cases hr'
    rw [hR] at hR'; cases hR'
    exact ⟨v, r, R, hv, hr, hR, hcall, hm⟩
  · rintro ⟨v, r, R, hv, hr, hR, hcall, -⟩
    exact ⟨v, hv, (emptyVar_false_iff s v).mpr ⟨r, R, hr, hR, hcall⟩⟩

/-- **a connection that is connected after an operation was connected before — to the same variable holding the
    same representation** (unless the operation is the one that binds this connection).  Contrapositive: once the
    variable has been destroyed, moved from, reassigned, or its representation invalidated, the connection reports
    `false`. -/
theorem connected_stays {s : State} (hw : WF s) (op : Op) (c : Nat) (hb : boundConn op ≠ some c)
    (he : (stepState op s).err = false) (hc : connected (stepState op s) c = true) :
    connected s c = true ∧
      ∃ v r, s.conns c = some (some v) ∧ (stepState op s).conns c = some (some v) ∧
        repOf s v = some r ∧ repOf (stepState op s) v = some r := by
  have hw' : WF (stepState op s) := step_wf hw op he
  -- the step either does nothing or is `apply`
  have hstep : stepState op s = s ∨ (check s op = none ∧ stepState op s = apply op s) := by
    unfold stepState step
    cases hse : s.err with
    | true => left; simp
    | false =>
      cases hck : check s op with
      | some e => left; simp
      | none =>
        right; refine ⟨rfl, ?_⟩
        simp only [Bool.false_eq_true, if_false]
        split <;> rfl
  rcases hstep with hs | ⟨hck, hs⟩
  · rw [hs] at hc ⊢
    refine ⟨hc, ?_⟩
    obtain ⟨v, r, R, hv, hr, -⟩ := (connected_iff hw c).mp hc
    exact ⟨v, r, hv, hv, hr, hr⟩
  · rw [hs] at hc he hw' ⊢
    have hF := frame_apply hw op hck he
    obtain ⟨v, r, R', hv', hr', hR', hcall', hm'⟩ := (connected_iff hw' c).mp hc
    obtain ⟨X, hX, hmX, hcallX⟩ := hF.regs r R' c hR' hm' (fun h => hb h.symm) hcall'
    obtain ⟨v0, hv0, hr0⟩ := hw.cbsConn' hX hmX
    have hvv : v0 = v := by
      rcases hF.conns c (fun h => hb h.symm) with h | h | h
      · rw [hv', hv0] at h; cases h; rfl
      · rw [hv'] at h; cases h
      · rw [hv'] at h; cases h
    subst hvv
    exact ⟨(connected_iff hw c).mpr ⟨v0, r, X, hv0, hr0, hX, hcallX, hmX⟩, v0, r, hv0, hv', hr0, hr'⟩

/-- **once false, false forever**: whatever operations follow — as long as none of them re-binds the connection -/
theorem connected_false_forever (ops1 ops2 : List Op) (c : Nat)
    (hb : ∀ op ∈ ops2, boundConn op ≠ some c) (hc : connected (run ops1) c = false) :
    connected (run (ops1 ++ ops2)) c = false := by
  induction ops2 generalizing ops1 with
  | nil => simpa using hc
  | cons op ops2 ih =>
    have hrun : run (ops1 ++ [op]) = stepState op (run ops1) := by
      unfold run; rw [List.foldl_append]; rfl
    have h1 : connected (run (ops1 ++ [op])) c = false := by
      cases hx : connected (run (ops1 ++ [op])) c with
      | false => rfl
      | true =>
        have he : (stepState op (run ops1)).err = false := by rw [← hrun]; exact run_no_err _
        have := (connected_stays (wf_reachable ops1) op c (hb op (List.mem_cons_self ..)) he
          (by rw [← hrun]; exact hx)).1
        rw [hc] at this; exact absurd this (by simp)
    have := ih (ops1 ++ [op]) (fun o ho => hb o (List.mem_cons_of_mem _ ho)) h1
    rw [List.append_assoc] at this
    exact this

example : connected (run [.mkS 1 (.fn 1), .connS 1 1]) 1 = true ∧
    connected (run ([.mkS 1 (.fn 1), .connS 1 1] ++ [.mkS0 2, .masgS 2 1])) 1 = false ∧
    connected (run ([.mkS 1 (.fn 1), .connS 1 1] ++ [.mkS0 2, .masgS 2 1] ++ [.setS 1 (.fn 2), .delS 1])) 1 = false := by
  decide

theorem stepState_eq_apply {s : State} {op : Op} (hse : s.err = false) (hck : check s op = none) :
    stepState op s = apply op s := by
  unfold stepState step
  simp only [hse, Bool.false_eq_true, if_false, hck]
  split <;> rfl

/-- the common part of the four corollaries below: if the connection is still connected after the operation, the
    variable it pointed to still holds the representation it held before, and that representation is valid -/
theorem still_connected {s : State} (hw : WF s) (hse : s.err = false) (op : Op) (c v : Nat)
    (hck : check s op = none) (hb : boundConn op ≠ some c) (he : (apply op s).err = false)
    (hc : s.conns c = some (some v)) (hx : connected (apply op s) c = true) :
    ∃ r R', repOf s v = some r ∧ repOf (apply op s) v = some r ∧ (apply op s).reps r = some R' ∧
      R'.call = true := by
  have hst := stepState_eq_apply hse hck
  have hw' : WF (apply op s) := apply_wf hw op hck he
  obtain ⟨-, w, r, hw1, hw1', hr1, hr2⟩ :=
    connected_stays hw op c hb (by rw [hst]; exact he) (by rw [hst]; exact hx)
  rw [hst] at hw1' hr2
  have hwv : w = v := by rw [hc] at hw1; exact (Option.some.inj (Option.some.inj hw1)).symm
  subst hwv
  obtain ⟨v', r', R', hv', hr', hR', hcall, -⟩ := (connected_iff hw' c).mp hx
  have hvv : v' = w := by rw [hw1'] at hv'; exact (Option.some.inj (Option.some.inj hv')).symm
  subst hvv
  have hrr : r' = r := by rw [hr2] at hr'; exact (Option.some.inj hr').symm
  subst hrr
  exact ⟨r', R', hr1, hr2, hR', hcall⟩

/-- after `delete S` every connection that pointed to `S` reports false -/
theorem conn_false_after_delS {s : State} (hw : WF s) (hse : s.err = false) (v c : Nat)
    (hck : check s (.delS v) = none) (he : (apply (.delS v) s).err = false)
    (hc : s.conns c = some (some v)) : connected (apply (.delS v) s) c = false := by
  cases hx : connected (apply (.delS v) s) c with
  | false => rfl
  | true =>
    obtain ⟨r, R', -, hr2, -, -⟩ := still_connected hw hse (.delS v) c v hck (by simp [boundConn]) he hc hx
    rw [apply_delS] at hr2
    cases hv : repOf s v with
    | none => simp [hv, repOf_setSlot] at hr2
    | some q => simp [hv, deleteRep_setSlot, repOf_killVar] at hr2

/-- after the variable was really moved from (`mvS`/`masgS`, source without parent) the connection reports false -/
theorem conn_false_after_move {s : State} (hw : WF s) (hse : s.err = false) (j i c : Nat) (X : SVar) (r : Nat)
    (hX : s.slots i = some X) (hji : j ≠ i) (hck : check s (.mvS j i) = none)
    (hr : repOf s i = some r) (hnp : hasParent s i = false)
    (he : (apply (.mvS j i) s).err = false) (hc : s.conns c = some (some i)) :
    connected (apply (.mvS j i) s) c = false := by
  cases hx : connected (apply (.mvS j i) s) c with
  | false => rfl
  | true =>
    obtain ⟨r', R', -, hr2, -, -⟩ := still_connected hw hse (.mvS j i) c i hck (by simp [boundConn]) he hc hx
    have := ((mvS_blocked s j i X hX hji hck).2.2 r hr hnp).2
    simp [repOf, this] at hr2

/-- after `setS` (a new functor is assigned) the connection reports false -/
theorem conn_false_after_setS {s : State} (hw : WF s) (hse : s.err = false) (d c : Nat) (f : Fun)
    (hck : check s (.setS d f) = none) (he : (apply (.setS d f) s).err = false)
    (hc : s.conns c = some (some d)) : connected (apply (.setS d f) s) c = false := by
  cases hx : connected (apply (.setS d f) s) c with
  | false => rfl
  | true =>
    obtain ⟨r, R', hr1, hr2, -, -⟩ := still_connected hw hse (.setS d f) c d hck (by simp [boundConn]) he hc hx
    obtain ⟨D', hD', hDr⟩ := repOf_eq.mp hr2
    have := (setS_unblocks s d f hck D' hD').2
    rw [hDr] at this; cases this
    obtain ⟨R, hR⟩ := hw.inv.repAlive d _ hr1
    exact absurd (hw.inv.repBound _ R hR) (Nat.lt_irrefl _)

/-- after `disconnect()` of the variable the connection reports false -/
theorem conn_false_after_discS {s : State} (hw : WF s) (hse : s.err = false) (v c : Nat)
    (hck : check s (.discS v) = none) (he : (apply (.discS v) s).err = false)
    (hc : s.conns c = some (some v)) : connected (apply (.discS v) s) c = false := by
  cases hx : connected (apply (.discS v) s) c with
  | false => rfl
  | true =>
    obtain ⟨r, R', hr1, -, hR', hcall⟩ :=
      still_connected hw hse (.discS v) c v hck (by simp [boundConn]) he hc hx
    simp only [apply, hr1] at hR' he
    obtain ⟨R, hR⟩ := hw.inv.repAlive v r hr1
    rw [repDisconnect_eq] at hR' he
    simp only [hR] at hR' he
    have hr1' : (s.setRep r (some { R with call := false, parent := none })).reps r =
        some { R with call := false, parent := none } := by simp [reps_setRep]
    cases hp : R.parent with
    | none =>
      simp only [hp] at hR'
      rw [hr1'] at hR'; cases hR'; simp at hcall
    | some p =>
      simp only [hp] at hR' he
      obtain ⟨hC, -, -⟩ := notifyInv_spec _ p _ (inv_setRep_noParent hw.inv hR false) he
      obtain ⟨X, hX, -, -, hcl, -⟩ := hC.reps r R' hR'
      rw [hr1'] at hX; cases hX
      rcases hcl with h | h <;> simp [h] at hcall

example : connected (run [.mkS 1 (.fn 1), .connS 1 1]) 1 = true ∧
    connected (apply (.delS 1) (run [.mkS 1 (.fn 1), .connS 1 1])) 1 = false ∧
    connected (apply (.mvS 2 1) (run [.mkS 1 (.fn 1), .connS 1 1])) 1 = false ∧
    connected (apply (.setS 1 (.fn 2)) (run [.mkS 1 (.fn 1), .connS 1 1])) 1 = false ∧
    connected (apply (.discS 1) (run [.mkS 1 (.fn 1), .connS 1 1])) 1 = false := by decide

/-! ## (d) functor accounting -/

/-- every representation (hence every functor copy the library holds) is stored in exactly one live slot
    variable: nothing exists outside the slot variables -/
theorem rep_held_unique (ops : List Op) (r : Nat) (R : Rep) (hR : (run ops).reps r = some R) :
    ∃ v, repOf (run ops) v = some r ∧ ∀ w, repOf (run ops) w = some r → w = v := by
  have hw := wf_reachable ops
  obtain ⟨v, hv⟩ := hw.held r R hR
  exact ⟨v, hv, fun w hw' => hw.inv.repUniq w v r hw' hv⟩

/-- `live?` counts exactly the functor copies stored in representations -/
theorem live_count_spec (s : State) (fid : Nat) :
    liveCount s (some fid) =
      ((List.range s.nextRep).filter fun r =>
        match s.reps r with
        | some R => (match R.fn with | some f => f.fid == fid | none => false)
        | none => false).length := rfl

/-- a slot variable that has a holder is kept alive by a functor copy stored in a **live** slot variable: an
    ownership cycle keeps itself alive (the real library does not free it either — a `shared_ptr` cycle through
    `slot_rep::functor_`) until some slot of the cycle is emptied or a trackable its functor refers to dies; since
    the fix of F12 emptying (`clrS`) is always possible, which is what the teardown does -/
theorem owned_has_owner (ops : List Op) (v : Nat) (ho : ownedBy (run ops) v = true) :
    ∃ w r R f, repOf (run ops) w = some r ∧ (run ops).reps r = some R ∧ R.fn = some f ∧ f.owns = some v ∧
      ∃ V, (run ops).slots v = some V := by
  have hw := wf_reachable ops
  obtain ⟨r, R, f, hR, hf, hfo⟩ := (ownedBy_iff hw.inv.repBound v).mp ho
  obtain ⟨w, hw'⟩ := hw.held r R hR
  refine ⟨w, r, R, f, hw', hR, hf, hfo, ?_⟩
  cases f with
  | own fid v' t =>
    simp only [Fun.owns, Option.some.injEq] at hfo; subst hfo
    exact (hw.inv.ownOk r R fid _ t hR hf).2
  | nest fid v' d =>
    simp only [Fun.owns, Option.some.injEq] at hfo; subst hfo
    exact (hw.inv.nestOk r R fid _ d hR hf).2
  | _ => simp [Fun.owns] at hfo

-- functors that bind a slot by value: every copy of the outer slot clones the inner one
example : liveCount (run [.mkS 1 (.fn 1), .mkS 2 (.nest 2 1 0), .cpS 3 2]) (some 1) = 3 ∧
    liveCount (run [.mkS 1 (.fn 1), .mkS 2 (.nest 2 1 0), .cpS 3 2]) (some 2) = 2 ∧
    liveCount (run [.mkS 1 (.fn 1), .mkS 2 (.nest 2 1 0), .cpS 3 2, .delS 2]) (some 1) = 2 ∧
    ownedBy (run [.mkS 1 (.fn 1), .mkS 2 (.nest 2 1 0)]) (anonBase + 1) = true := by decide

example : ownedBy (run [.mkS0 1, .setS 1 (.own 1 1 none)]) 1 = true ∧
    liveCount (run [.mkS0 1, .setS 1 (.own 1 1 none)]) (some 1) = 1 ∧
    -- destroying another variable does not free the cycle …
    liveCount (run [.mkS0 1, .setS 1 (.own 1 1 none), .mkS0 2, .delS 2]) none = 1 ∧
    -- … the teardown (which empties every variable) does …
    liveCount ((teardownOps [.mkS0 1, .setS 1 (.own 1 1 none)]).foldl (fun s op => stepState op s)
      (run [.mkS0 1, .setS 1 (.own 1 1 none)])) none = 0 ∧
    -- … and so does a trackable the functor refers to
    liveCount (run [.mkS0 1, .newT 1, .setS 1 (.own 1 1 (some 1)), .delT 1]) none = 0 := by decide

end Sigc.SlotG
