import Sigc.Model
import Sigc.Lemmas.Basic
import Sigc.Lemmas.Frames
/-!
# C06 — library objects can be destroyed in any order without dangling access
(first theorems: what each destruction unlinks; the all-history invariants are in Sigc/Lemmas/Inv*.lean)
-/
namespace Sigc.C06
open Sigc.Model

/-- destroying the last signal object of a list (no emission running) destroys the list: it is gone
    from the state, and (`nullConnsList`) every connection into it has been nulled first -/
theorem gcImpl_drops_unreferenced (s : St) (i : Nat) (im : Impl) (hi : aget s.impls i = some im)
    (hh : im.holders = 0) (hg : s.G.any (fun p => p.2.impl = some i) = false) :
    aget (gcImpl s i).impls i = none ∧ (gcImpl s i).S = s.S ∧ (gcImpl s i).G = s.G := by
  unfold gcImpl
  simp only [hi, hh, hg]
  simp [nullConnsList_impls, nullConnsList_S, nullConnsList_G]

/-- a list that a signal object still refers to, or that an emission holds, survives -/
theorem gcImpl_keeps_referenced (s : St) (i : Nat) (im : Impl) (hi : aget s.impls i = some im)
    (h : im.holders > 0 ∨ s.G.any (fun p => p.2.impl = some i) = true) :
    gcImpl s i = s := by
  unfold gcImpl
  simp only [hi]
  rcases h with h | h
  · have : ¬ im.holders = 0 := by omega
    simp [this]
  · simp [h]

/-- destroying a connection variable touches nothing else (the slot stays connected) -/
theorem delC_frame (s s' : St) (r : String) (i : Nat) (h : stepSimple s (.delC i) = some (s', r)) :
    s'.impls = s.impls ∧ s'.S = s.S ∧ s'.G = s.G ∧ s'.T = s.T ∧ s'.K = s.K := by
  simp only [stepSimple] at h
  split at h <;> simp at h <;> obtain ⟨rfl, _⟩ := h <;> simp

/-- destroying a slot variable touches no signal, connection or trackable, and no other slot variable -/
theorem delS_frame (s s' : St) (r : String) (i : Nat) (h : stepSimple s (.delS i) = some (s', r)) :
    s'.impls = s.impls ∧ s'.C = s.C ∧ s'.G = s.G ∧ s'.T = s.T ∧ s'.K = s.K ∧
    ∀ k, k ≠ i → aget s'.S k = aget s.S k := by
  simp only [stepSimple] at h
  split at h
  · simp at h; obtain ⟨rfl, _⟩ := h; simp
  · split at h <;> simp at h <;> obtain ⟨rfl, _⟩ := h
    · simp
    · refine ⟨rfl, rfl, rfl, rfl, rfl, ?_⟩
      intro k hk
      exact aget_adel_other _ _ _ hk

example : aget (gcImpl { impls := [(3, { cells := [{ id := 4, slot := {}, linked := true }] })], C := [(0, some 4)] } 3).C 0 = some none := by
  simp [gcImpl, aget, nullConnsList, nullConns, amap, adel]

end Sigc.C06
