import Sigc.Model
import Sigc.Spec
/-! property theorems for C06 (being written) -/
namespace Sigc.C06
end Sigc.C06
