import Sigc.Model
import Sigc.Spec
import Sigc.Lemmas.InvBal2
import Sigc.Lemmas.InvOwnG
/-!
# C06 — library objects can be destroyed in any order without dangling access

Model-level content (mechanism model `P`): the objects refer to each other through
`Handle.impl` (signal object → `signal_impl`), `Option cellId` (connection → cell), `Fun.tracks`
(rep → trackable object), `holders` (running emission → `signal_impl`).  Proved here for every
fuel, program and history, i.e. for every order of destructions with arbitrary operations in between:

* `any_order` — the conjunction `AllInv` of the link invariants (identities unique, no handle refers to a
  destroyed impl, no connection refers to an erased cell, no rep refers to a destroyed trackable, no impl
  without an owner) is preserved by every list of operations, in particular by every permutation of
  destructor operations interleaved with anything else; it holds initially.
* `balance` / `no_orphan_impl` — at every quiescent point every `signal_impl` is owned by a live signal
  object and no `signal_impl_holder` is outstanding; `balance_inside` is the form valid inside emissions
  (ghost index = number of running emissions per impl).
* `unlinked_*` — after either end of a link dies the survivor no longer mentions it.
* `ownedG_named` — a signal object owned by a functor (`ownG:`, a `shared_ptr` inside the functor) stays
  named for as long as it is owned: every `ownedG` entry refers to a live signal object, `delG` of that name
  is refused with `owned`, no name is owned twice (`ownedG_named_from`: from any such state, through any
  operations).  The name leaves `G` only in `collect` (third `collectStep` branch, `dropHandle`), after the
  entry has left `ownedG`.  (The harness teardown is outside this statement: it destroys every signal
  object, whoever owns it.)
-/
namespace Sigc.C06
open Sigc.Model Sigc.Inv

/-- all link invariants of a quiescent state -/
def AllInv (s : St) : Prop := Links s ∧ TL s ∧ Bal (fun _ => 0) s

theorem allInv_init : AllInv {} := ⟨Links.init, TL.init, Bal.init⟩

/-- every terminating run of every program ends in a state satisfying all link invariants -/
theorem allInv_reachable (fuel : Nat) (P : Prog) (s : St) (h : runTop fuel P {} P.top = some s) : AllInv s :=
  ⟨Links.reachable fuel P s h, (WTL.reachable fuel P s h).2, Bal.reachable fuel P s h⟩

/-- **any order**: from a state satisfying the invariants, *any* further list of operations — in
    particular the destructors `delT / delS / delG / delC / delK` of the live objects in any permutation,
    with arbitrary operations (including emissions that destroy objects re-entrantly) in between — ends
    in a state satisfying them again -/
theorem any_order (fuel : Nat) (P : Prog) (s s' : St) (ls : List Line) (hs : AllInv s)
    (h : runTop fuel P s ls = some s') : AllInv s' := by
  obtain ⟨hl, ht, hb⟩ := hs
  have hw : WF s := hl.1.1
  refine ⟨Links.stable.runTop_from fuel P ls s s' hl h, ?_, ?_⟩
  · exact (WTL.stable.runTop_from fuel P ls s s' ⟨hw, ht⟩ h).2
  · exact (runTop_preserved WBal.stable fuel (fun _ => 0) P ls s s' ⟨hw, hb⟩ h).2

/-- the same through the harness teardown (which destroys scoped connections, connections, slots, signals
    and trackables in that order) -/
theorem any_order_teardown (fuel : Nat) (P : Prog) (s s' : St) (hs : AllInv s)
    (h : teardown fuel P s = some s') : AllInv s' := by
  obtain ⟨hl, ht, hb⟩ := hs
  have hw : WF s := hl.1.1
  exact ⟨Links.stable.teardown fuel P s s' hl h, (WTL.stable.teardown fuel P s s' ⟨hw, ht⟩ h).2,
    Bal.teardown fuel P s s' hw hb h⟩

/-- **balance**: at every quiescent point every `signal_impl` has no outstanding holder and is owned by a
    live signal object; and every signal object's impl exists -/
theorem balance (fuel : Nat) (P : Prog) (s : St) (h : runTop fuel P {} P.top = some s) :
    (∀ i im, aget s.impls i = some im →
        im.holders = 0 ∧ ∃ g hd, aget s.G g = some hd ∧ hd.impl = some i) ∧
    (∀ g hd i, aget s.G g = some hd → hd.impl = some i → ∃ im, aget s.impls i = some im) := by
  have hb := Bal.reachable fuel P s h
  have hh := (Links.reachable fuel P s h).1.2
  refine ⟨?_, fun g hd i hg hi => hh.get hg hi⟩
  intro i im hi
  obtain ⟨h1, h2⟩ := hb.2.1 i im hi
  refine ⟨h1, ?_⟩
  rcases h2 with e | e | e
  · cases e
  · exact absurd e (Nat.lt_irrefl 0)
  · exact e

/-- list form: every entry of `s.impls` (no shadowed entries: keys are unique) -/
theorem no_orphan_impl (fuel : Nat) (P : Prog) (s : St) (h : runTop fuel P {} P.top = some s) :
    ∀ p ∈ s.impls, p.2.holders = 0 ∧ ∃ g hd, aget s.G g = some hd ∧ hd.impl = some p.1 := by
  intro p hp
  have hw := (Links.reachable fuel P s h).1.1
  exact (balance fuel P s h).1 p.1 p.2 (aget_of_mem hw.keys hp)

/-- inside emissions: with `h i` = number of emissions running on impl `i`, `holders = h i` and every impl
    is owned by a running emission or a live signal object — preserved by every operation, emission and
    functor invocation (the emission prologue/epilogue change the index) -/
theorem balance_inside (fuel : Nat) (P : Prog) (s : St) (op : Op) (r : St × Except Unit String)
    (k : Nat → Nat) (hw : WF s) (hb : Bal k s) (h : execOp fuel P s op = some r) : WF r.1 ∧ Bal k r.1 :=
  execOp_preserved WBal.stable (k := k) ⟨hw, hb⟩ h

theorem balance_inside_emit (fuel : Nat) (P : Prog) (s : St) (fl : Flavour) (impl : Option Nat) (arg : Nat)
    (strat : Strat) (r : St × Outcome × Nat) (k : Nat → Nat) (hw : WF s) (hb : Bal k s)
    (h : emitImpl fuel P s fl impl arg strat = some r) : WF r.1 ∧ Bal k r.1 :=
  emitImpl_preserved WBal.stable (k := k) ⟨hw, hb⟩ h

/-- the last reference goes away ⇒ the impl goes away: `gcImpl` leaves the invariant intact when one
    reference to `i` has just been dropped -/
theorem gc_settles (k : Nat → Nat) (s : St) (i : Nat) (h : BalW k (some i) s.impls s.G s.next) :
    Bal k (gcImpl s i) := BalW.gcImpl h

/-- **unlinked (signal dies first)**: when `gcImpl` destroys an impl, no connection, scoped connection or
    owned scoped connection mentions any of its cells any more, and no handle mentions the impl -/
theorem unlinked_signal_first (s : St) (i : Nat) (hl : Links s) :
    Links (gcImpl s i) ∧
    (∀ im, aget s.impls i = some im → aget (gcImpl s i).impls i = none →
      ∀ c ∈ im.cells, ∀ k, aget (gcImpl s i).C k ≠ some (some c.id) ∧ aget (gcImpl s i).K k ≠ some (some c.id)) := by
  have hl' : Links (gcImpl s i) := Links.stable.gc s i trivial hl
  refine ⟨hl', ?_⟩
  intro im hi hn c hc k
  have hw := hl.1.1
  have hw' := hl'.1.1
  -- a pointer to `c.id` in the new state would have to resolve, but the only impl holding that id is gone
  have key : ¬ CellIn (gcImpl s i).impls c.id := by
    rintro ⟨j, jm, hj, d, hd, hde⟩
    -- every impl of the new state is an impl of the old one
    have hsub : aget s.impls j = some jm := by
      unfold gcImpl at hj
      rw [hi] at hj
      simp only at hj
      split at hj
      · simp only [nullConnsList_impls] at hj
        rw [aget_adel] at hj
        split at hj
        · cases hj
        · exact hj
      · exact hj
    have : j = i := hw.cellU j i jm im d c hsub hi hd hc hde
    subst this
    rw [hn] at hj; cases hj
  constructor
  · intro hk; exact key (hl'.2.1.get hk c.id rfl)
  · intro hk; exact key (hl'.2.2.1.get hk c.id rfl)

/-- **unlinked (trackable dies first)**: `C02.invalidates_all`; **(slot/cell dies first)**: a rep holds
    no back-pointer to the trackable in the model beyond `Fun.tracks`, which dies with the rep -/
theorem unlinked_trackable_first {s : St} (hw : WF s) (o : Nat) : NoTrack o (invalidateTrackable s o) :=
  invalidateTrackable_notrack hw o

/-- **ownedG_named**: in every reachable state every functor-owned signal object is still named: an entry
    `(k, g)` of `ownedG` refers to a live signal object, `delG g` is refused with `owned` and changes nothing
    (as a model step and as an operation of the driver), and `g` is owned only once -/
theorem ownedG_named (fuel : Nat) (P : Prog) (s : St) (h : runTop fuel P {} P.top = some s) :
    ∀ p ∈ s.ownedG, (aget s.G p.2).isSome = true ∧
      stepSimple s (.delG p.2) = some (s, "owned") ∧
      (∀ f P', execOp (f+1) P' s (.delG p.2) = some (s, .ok "owned")) ∧
      ∀ q ∈ s.ownedG, q.2 = p.2 → q = p := by
  have hg := OG.reachable fuel P s h
  intro p hp
  obtain ⟨hd, hg1, _⟩ := hg.1 p hp
  have hdel := hg.delG_owned hp
  refine ⟨by rw [hg1]; rfl, hdel, fun f P' => ?_, fun q hq e => hg.2 q hq p hp e⟩
  rw [execOp]
  · simp only [modeRule, hdel]
  all_goals simp

/-- the same from any state satisfying the invariant `OG`, through any further list of operations (including
    emissions that destroy the owning functors re-entrantly) -/
theorem ownedG_named_from (fuel : Nat) (P : Prog) (s s' : St) (ls : List Line) (hs : OG s)
    (h : runTop fuel P s ls = some s') :
    OG s' ∧ ∀ p ∈ s'.ownedG, (aget s'.G p.2).isSome = true ∧ stepSimple s' (.delG p.2) = some (s', "owned") := by
  have hg := OG.stable.runTop_from fuel P ls s s' hs h
  refine ⟨hg, fun p hp => ?_⟩
  obtain ⟨hd, hg1, _⟩ := hg.1 p hp
  exact ⟨by rw [hg1]; rfl, hg.delG_owned hp⟩

/-- what the third branch of `collectStep` does is what `delG` does when it does not refuse -/
theorem dropHandle_is_delG (s : St) (g : Nat) (h : Handle) (hg : aget s.G g = some h)
    (hp : (h.everFwd && !h.fl.isTrackable) = false) (ho : s.ownedG.any (fun p => p.2 = g) = false) :
    stepSimple s (.delG g) = some (dropHandle s g, "ok") := delG_eq_dropHandle hg hp ho

/-! ### examples -/

/-- `sig1.connect(f)` where the functor `f` owns `sig0` through a `shared_ptr` (`ownG:1:0`): `sig0` stays
    named, `delG 0` is refused -/
def exOwn : Prog :=
  { bodies := [], owners := true,
    top := [⟨"newG 0 V", .newG 0 (some .V)⟩, ⟨"newG 1 V", .newG 1 (some .V)⟩,
            ⟨"connfn 0 1 ownG:1:0", .connfn 0 1 (.ownG 1 0) false⟩] }

example : ∃ s, runTop 3 exOwn {} exOwn.top = some s ∧ s.ownedG = [(5, 0)] ∧
    (aget s.G 0).isSome = true ∧ stepSimple s (.delG 0) = some (s, "owned") := by
  have h : ∃ s, runTop 3 exOwn {} exOwn.top = some s ∧ s.ownedG = [(5, 0)] := by
    simp [exOwn, runTop, execLine, execOp, stepSimple, aget, aset, St.fresh, mkFun, specTaint, ensureImpl,
      insertCell, setConn, setImpl, St.log, collect, collectN, collectStep, heldK, SlotB.holdsK, Fun.ownsK,
      modeRule, FSpec.isOwner, Flavour.isTrackable]
  obtain ⟨s, hs, ho⟩ := h
  have := ownedG_named 3 exOwn s hs (5, 0) (by rw [ho]; exact List.mem_singleton.2 rfl)
  exact ⟨s, hs, ho, this.1, this.2.1⟩

/-- … and when the owning functor dies (`delG 1` destroys the list that holds it), `collect` destroys `sig0`:
    nothing is left -/
example : ∃ s, runTop 3 exOwn {} (exOwn.top ++ [⟨"delG 1", .delG 1⟩]) = some s ∧ s.ownedG = [] ∧ s.G = [] ∧
    s.impls = [] := by
  simp [exOwn, runTop, execLine, execOp, stepSimple, aget, aset, adel, St.fresh, mkFun, specTaint, ensureImpl,
    insertCell, setConn, setImpl, St.log, collect, collectN, collectStep, heldK, SlotB.holdsK, Fun.ownsK,
    modeRule, FSpec.isOwner, Flavour.isTrackable, gcImpl, nullConnsList, nullConns, amap,
    dropHandle]

/-- all invariants hold on the example state (a trackable, a bound user slot, a connected copy) after any
    operation -/
example (fuel : Nat) (P : Prog) (ls : List Line) (s' : St) (h : runTop fuel P {} ls = some s') :
    AllInv s' := any_order fuel P {} s' ls allInv_init h

/-- `sig0.connect(f1); sig1 = copy of sig0; destroy sig0; destroy sig1`: the list survives the first
    destruction (owned by `sig1`) and is destroyed, with its cell and the connection nulled, by the second -/
def exP : Prog :=
  { bodies := [],
    top := [⟨"newG 0 V", .newG 0 (some .V)⟩, ⟨"connfn 0 0 fn 1", .connfn 0 0 (.fn 1) false⟩,
            ⟨"cpG 1 0", .cpG 1 0⟩, ⟨"delG 0", .delG 0⟩, ⟨"delG 1", .delG 1⟩] }

example : ∃ s, runTop 3 exP {} exP.top = some s ∧ s.impls = [] ∧ aget s.C 0 = some none ∧ AllInv s := by
  have h : ∃ s, runTop 3 exP {} exP.top = some s ∧ s.impls = [] ∧ aget s.C 0 = some none := by
    simp [exP, runTop, execLine, execOp, stepSimple, aget, aset, adel, St.fresh, mkFun, specTaint, ensureImpl,
      insertCell, setConn, setImpl, St.log, collect, collectN, modeRule, FSpec.isOwner, gcImpl, nullConnsList,
      nullConns, amap, Flavour.isTrackable]
  obtain ⟨s, hs, h1, h2⟩ := h
  exact ⟨s, hs, h1, h2, allInv_reachable 3 exP s hs⟩

end Sigc.C06
