import Sigc.Model
import Sigc.Spec
/-! property theorems for C01 (being written) -/
namespace Sigc.C01
end Sigc.C01
