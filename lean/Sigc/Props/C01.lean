import Sigc.Model
import Sigc.Lemmas.Basic
import Sigc.Lemmas.EmitTurns
/-!
# C01 — emission invokes exactly the connected, unblocked slots, once each, in order
(`turns_eq_snapshot` and its companions are proved with the invariant of Sigc/Lemmas/Emit*.lean)
-/
namespace Sigc.C01
open Sigc.Model

/-- the cell `insert` creates: fresh id, the (copied or moved) slot with a dummy representation if it
    had none, linked to its `self_and_iter` record -/
def newCell (s : St) (sl : SlotB) : Cell :=
  { id := s.next,
    slot := (match sl.rep with
      | none => { sl with rep := some { call := false, fn := none } }
      | some _ => sl),
    linked := true }

/-- `connect()` appends: the new cell (fresh id `s.next`) is the last element of that list, the
    others keep their order; no other list changes -/
theorem connect_appends (s : St) (i : Nat) (im : Impl) (sl : SlotB) (hi : aget s.impls i = some im) :
    (insertCell s i false sl).2 = s.next ∧
    ∃ c : Cell, c.id = s.next ∧ c.linked = true ∧
      aget (insertCell s i false sl).1.impls i = some { im with cells := im.cells ++ [c] } ∧
      ∀ k, k ≠ i → aget (insertCell s i false sl).1.impls k = aget s.impls k := by
  refine ⟨by simp [insertCell, St.fresh, hi], newCell s sl, rfl, rfl, ?_, ?_⟩
  · cases hr : sl.rep <;> simp [insertCell, St.fresh, hi, setImpl, newCell, hr]
  · intro k hk
    simp only [insertCell, St.fresh, hi, setImpl]
    exact aget_aset_other _ _ _ _ hk

/-- `connect_first()` prepends -/
theorem connect_first_prepends (s : St) (i : Nat) (im : Impl) (sl : SlotB) (hi : aget s.impls i = some im) :
    ∃ c : Cell, c.id = s.next ∧ c.linked = true ∧
      aget (insertCell s i true sl).1.impls i = some { im with cells := c :: im.cells } ∧
      ∀ k, k ≠ i → aget (insertCell s i true sl).1.impls k = aget s.impls k := by
  refine ⟨newCell s sl, rfl, rfl, ?_, ?_⟩
  · cases hr : sl.rep <;> simp [insertCell, St.fresh, hi, setImpl, newCell, hr]
  · intro k hk
    simp only [insertCell, St.fresh, hi, setImpl]
    exact aget_aset_other _ _ _ _ hk

/-- a connected slot always has a representation (the dummy one if the slot was empty), so an end
    marker (a cell without representation) is never confused with a connected slot -/
theorem connected_cell_has_rep (s : St) (i : Nat) (first : Bool) (im : Impl) (sl : SlotB)
    (hi : aget s.impls i = some im) :
    ∃ im' c, aget (insertCell s i first sl).1.impls i = some im' ∧ c ∈ im'.cells ∧ c.id = s.next ∧ c.slot.rep.isSome := by
  cases first <;> cases hr : sl.rep <;>
    simp [insertCell, St.fresh, hi, setImpl, hr]

/-- one step of the non-accumulating emitter: a cell that is valid and unblocked at its turn is
    invoked with the emitted argument (the loop continues with the functor's result), for every program -/
theorem emitLoop_invokes_callable (f : Nat) (P : Prog) (s : St) (i cur m arg r : Nat) (im : Impl) (c : Cell) (fn : Fun)
    (hne : cur ≠ m) (hi : aget s.impls i = some im) (hc : im.cells.find? (·.id = cur) = some c)
    (hb : c.slot.blocked = false) (hrep : c.slot.rep = some { call := true, fn := some fn }) :
    emitLoop (f+1) P s i cur m arg r =
      (match invokeFun f P s fn arg with
       | none => none
       | some (s, .exc, v) => some (s, .exc, v)
       | some (s, .ok, v) =>
         match aget s.impls i with
         | none => some (s.fail "loop: impl destroyed", .ok, v)
         | some im2 =>
           match succId im2.cells cur with
           | none => some (s.fail "loop: iterator invalidated", .ok, v)
           | some nxt => emitLoop f P s i nxt m arg v) := by
  rw [emitLoop]
  simp only [hne, if_false, hi, hc, hrep, hb]
  rfl

/-- … and a cell that is empty, invalidated, or an end marker is not invoked -/
theorem emitLoop_skips_invalid (f : Nat) (P : Prog) (s : St) (i cur m arg r : Nat) (im : Impl) (c : Cell)
    (hne : cur ≠ m) (hi : aget s.impls i = some im) (hc : im.cells.find? (·.id = cur) = some c)
    (he : c.slot.empty = true) (nxt : Nat) (hn : succId im.cells cur = some nxt) :
    emitLoop (f+1) P s i cur m arg r = emitLoop f P s i nxt m arg r := by
  rw [emitLoop]
  simp only [hne, if_false, hi, hc]
  unfold SlotB.empty at he
  cases hrep : c.slot.rep with
  | none => simp [hi, hn]
  | some rp =>
    rw [hrep] at he
    obtain ⟨call, fn⟩ := rp
    have : call = false := by simpa using he
    subst this
    simp [hi, hn]

example : ∃ c : Cell, aget (insertCell { impls := [(5, { cells := [{ id := 1, slot := {}, linked := true }] })], next := 9 } 5 false {}).1.impls 5
    = some { cells := [{ id := 1, slot := {}, linked := true }, c] } := by
  exact ⟨{ id := 9, slot := { rep := some { call := false, fn := none } }, linked := true },
         by simp [insertCell, St.fresh, aget, setImpl, aset]⟩


/-! ## turns = snapshot

`Sigc.Emit.emitLoopT` is `emitLoop` with one ghost result: the list of the ids of the cells that were
offered a turn (visited by the loop), in order.  `turns_ghost_erase` says that forgetting the ghost list
gives back `emitLoop`, so statements about the ghost list are statements about the model's loop. -/

open Sigc.Emit in
/-- the instrumented loop computes exactly what `emitLoop` computes -/
theorem turns_ghost_erase (f : Nat) (P : Prog) (s : St) (i cur m arg r : Nat) :
    (emitLoopT f P s i cur m arg r).map (·.1) = emitLoop f P s i cur m arg r :=
  emitLoopT_erase f P s i cur m arg r

open Sigc.Emit in
/-- **C01.turns_eq_snapshot** — for every emission of a non-accumulating signal, at any depth, from any
    state satisfying the invariant (every reachable state does: `C03.inv_reachable`, `C03.safe_inside`),
    whatever the invoked slots do (connect, disconnect, clear, destroy, re-emit …): the cells offered a
    turn by the emission's loop are exactly the cells present when the emission started, in list
    order, each once.  If a slot throws, the turns are a non-empty prefix of that snapshot (the thrower
    is the last one). `s2` is the state in which the loop ends, `vis` the ghost list of turns. -/
theorem turns_eq_snapshot (f : Nat) (P : Prog) (s : St) (fl : Flavour) (i arg : Nat) (strat : Strat) (im : Impl)
    (hs : Inv s) (hi : aget s.impls i = some im) (hacc : fl.isAcc = false) (hne : im.cells ≠ [])
    (s' : St) (o : Outcome) (v : Nat)
    (h : emitImpl (f+1) P s fl (some i) arg strat = some (s', o, v)) :
    ∃ s2 vis, emitLoopT f P (emitStart s i im) i (emitFirst s im) s.next arg 0 = some ((s2, o, v), vis) ∧
      (o = .ok → vis = im.cells.map (·.id)) ∧
      (o = .exc → vis ≠ [] ∧ vis <+: im.cells.map (·.id)) := by
  rcases emitImpl_loop f P s fl i arg strat im hi hacc s' o v h with ⟨hc, _⟩ | ⟨s2, hl⟩
  · exact absurd hc hne
  · rw [← emitLoopT_erase] at hl
    cases hT : emitLoopT f P (emitStart s i im) i (emitFirst s im) s.next arg 0 with
    | none => rw [hT] at hl; simp at hl
    | some p =>
      rw [hT] at hl
      simp at hl
      obtain ⟨res, vis⟩ := p
      simp at hl; subst hl
      have := emitLoopT_snapshot f P s i arg im hs hi (s2, o, v) vis hT
      exact ⟨s2, vis, rfl, this.1, this.2⟩

open Sigc.Emit in
/-- consequence (C03 "a slot connected during an emission is not invoked by that emission"): every cell
    that gets a turn existed when the emission started — its id is below the allocator value `s.next` of
    that moment, whereas every cell connected later gets an id `≥ s.next` (`connect_appends`) -/
theorem turns_are_old_cells (f : Nat) (P : Prog) (s : St) (i arg : Nat) (im : Impl) (hs : Inv s)
    (hi : aget s.impls i = some im) (res : St × Outcome × Nat) (vis : List Nat)
    (h : emitLoopT f P (emitStart s i im) i (emitFirst s im) s.next arg 0 = some (res, vis)) :
    ∀ k ∈ vis, k ∈ im.cells.map (·.id) ∧ k < s.next := by
  have hsnap := emitLoopT_snapshot f P s i arg im hs hi res vis h
  have hsub : ∀ k ∈ vis, k ∈ cids im := by
    intro k hk
    cases ho : res.2.1 with
    | ok => rw [hsnap.1 ho] at hk; exact hk
    | exc => exact (hsnap.2 ho).2.subset hk
  intro k hk
  exact ⟨hsub k hk, (hs.lt i im hi).2 k (hsub k hk)⟩

open Sigc.Emit in
/-- the same statement for the loop alone, started the way `emitImpl` starts it -/
theorem loop_turns_eq_snapshot (f : Nat) (P : Prog) (s : St) (i arg : Nat) (im : Impl) (hs : Inv s)
    (hi : aget s.impls i = some im) (res : St × Outcome × Nat) (vis : List Nat)
    (h : emitLoopT f P (emitStart s i im) i (emitFirst s im) s.next arg 0 = some (res, vis)) :
    (res.2.1 = .ok → vis = im.cells.map (·.id)) ∧ (res.2.1 = .exc → vis ≠ [] ∧ vis <+: im.cells.map (·.id)) :=
  emitLoopT_snapshot f P s i arg im hs hi res vis h

open Sigc.Emit in
/-- a concrete instance: three cells, the second one blocked: all three get their turn, in order -/
example : (emitLoopT 5 { bodies := [], top := [] }
    (emitStart { impls := [(1, { cells := [⟨2, { rep := some ⟨true, some (.leaf 7 [])⟩ }, true⟩,
                                           ⟨3, { blocked := true, rep := some ⟨true, some (.leaf 8 [])⟩ }, true⟩,
                                           ⟨4, { rep := some ⟨true, some (.leaf 9 [])⟩ }, true⟩] })], next := 5 } 1
      { cells := [⟨2, { rep := some ⟨true, some (.leaf 7 [])⟩ }, true⟩,
                  ⟨3, { blocked := true, rep := some ⟨true, some (.leaf 8 [])⟩ }, true⟩,
                  ⟨4, { rep := some ⟨true, some (.leaf 9 [])⟩ }, true⟩] })
    1 2 5 0 0).map (·.2) = some [2, 3, 4] := by decide +kernel

end Sigc.C01
