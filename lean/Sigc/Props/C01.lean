import Sigc.Model
import Sigc.Lemmas.Basic
/-!
# C01 — emission invokes exactly the connected, unblocked slots, once each, in order
(first theorems; the all-history statements are being proved in Sigc/Lemmas/Emit*.lean)
-/
namespace Sigc.C01
open Sigc.Model

/-- the cell `insert` creates: fresh id, the (copied or moved) slot with a dummy representation if it
    had none, linked to its `self_and_iter` record -/
def newCell (s : St) (sl : SlotB) : Cell :=
  { id := s.next,
    slot := (match sl.rep with
      | none => { sl with rep := some { call := false, fn := none } }
      | some _ => sl),
    linked := true }

/-- `connect()` appends: the new cell (fresh id `s.next`) is the last element of that list, the
    others keep their order; no other list changes -/
theorem connect_appends (s : St) (i : Nat) (im : Impl) (sl : SlotB) (hi : aget s.impls i = some im) :
    (insertCell s i false sl).2 = s.next ∧
    ∃ c : Cell, c.id = s.next ∧ c.linked = true ∧
      aget (insertCell s i false sl).1.impls i = some { im with cells := im.cells ++ [c] } ∧
      ∀ k, k ≠ i → aget (insertCell s i false sl).1.impls k = aget s.impls k := by
  refine ⟨by simp [insertCell, St.fresh, hi], newCell s sl, rfl, rfl, ?_, ?_⟩
  · cases hr : sl.rep <;> simp [insertCell, St.fresh, hi, setImpl, newCell, hr]
  · intro k hk
    simp only [insertCell, St.fresh, hi, setImpl]
    exact aget_aset_other _ _ _ _ hk

/-- `connect_first()` prepends -/
theorem connect_first_prepends (s : St) (i : Nat) (im : Impl) (sl : SlotB) (hi : aget s.impls i = some im) :
    ∃ c : Cell, c.id = s.next ∧ c.linked = true ∧
      aget (insertCell s i true sl).1.impls i = some { im with cells := c :: im.cells } ∧
      ∀ k, k ≠ i → aget (insertCell s i true sl).1.impls k = aget s.impls k := by
  refine ⟨newCell s sl, rfl, rfl, ?_, ?_⟩
  · cases hr : sl.rep <;> simp [insertCell, St.fresh, hi, setImpl, newCell, hr]
  · intro k hk
    simp only [insertCell, St.fresh, hi, setImpl]
    exact aget_aset_other _ _ _ _ hk

/-- a connected slot always has a representation (the dummy one if the slot was empty), so an end
    marker (a cell without representation) is never confused with a connected slot -/
theorem connected_cell_has_rep (s : St) (i : Nat) (first : Bool) (im : Impl) (sl : SlotB)
    (hi : aget s.impls i = some im) :
    ∃ im' c, aget (insertCell s i first sl).1.impls i = some im' ∧ c ∈ im'.cells ∧ c.id = s.next ∧ c.slot.rep.isSome := by
  cases first <;> cases hr : sl.rep <;>
    simp [insertCell, St.fresh, hi, setImpl, hr]

/-- one step of the non-accumulating emitter: a cell that is valid and unblocked at its turn is
    invoked with the emitted argument (the loop continues with the functor's result), for every program -/
theorem emitLoop_invokes_callable (f : Nat) (P : Prog) (s : St) (i cur m arg r : Nat) (im : Impl) (c : Cell) (fn : Fun)
    (hne : cur ≠ m) (hi : aget s.impls i = some im) (hc : im.cells.find? (·.id = cur) = some c)
    (hb : c.slot.blocked = false) (hrep : c.slot.rep = some { call := true, fn := some fn }) :
    emitLoop (f+1) P s i cur m arg r =
      (match invokeFun f P s fn arg with
       | none => none
       | some (s, .exc, v) => some (s, .exc, v)
       | some (s, .ok, v) =>
         match aget s.impls i with
         | none => some (s.fail "loop: impl destroyed", .ok, v)
         | some im2 =>
           match succId im2.cells cur with
           | none => some (s.fail "loop: iterator invalidated", .ok, v)
           | some nxt => emitLoop f P s i nxt m arg v) := by
  rw [emitLoop]
  simp only [hne, if_false, hi, hc, hrep, hb]
  rfl

/-- … and a cell that is empty, invalidated, or an end marker is not invoked -/
theorem emitLoop_skips_invalid (f : Nat) (P : Prog) (s : St) (i cur m arg r : Nat) (im : Impl) (c : Cell)
    (hne : cur ≠ m) (hi : aget s.impls i = some im) (hc : im.cells.find? (·.id = cur) = some c)
    (he : c.slot.empty = true) (nxt : Nat) (hn : succId im.cells cur = some nxt) :
    emitLoop (f+1) P s i cur m arg r = emitLoop f P s i nxt m arg r := by
  rw [emitLoop]
  simp only [hne, if_false, hi, hc]
  unfold SlotB.empty at he
  cases hrep : c.slot.rep with
  | none => simp [hi, hn]
  | some rp =>
    rw [hrep] at he
    obtain ⟨call, fn⟩ := rp
    have : call = false := by simpa using he
    subst this
    simp [hi, hn]

example : ∃ c : Cell, aget (insertCell { impls := [(5, { cells := [{ id := 1, slot := {}, linked := true }] })], next := 9 } 5 false {}).1.impls 5
    = some { cells := [{ id := 1, slot := {}, linked := true }, c] } := by
  exact ⟨{ id := 9, slot := { rep := some { call := false, fn := none } }, linked := true },
         by simp [insertCell, St.fresh, aget, setImpl, aset]⟩

end Sigc.C01
