import Sigc.Lemmas.RefineMutual
import Sigc.Lemmas.RefineTdB
/-!
# Refinement: the mechanism model `P` (`Sigc.Model`) is simulated by the statement-level specification
`S'` = `Sigc.Spec` run with `k1 := true, k2 := true` (the specification with the two known findings
reproduced).

The simulation relation `R : Model.St → Spec.LSt → Prop`, the trace relation `Allows` and the result
relation `ResAllows` are defined in `Sigc/Lemmas/RefineDefs.lean`; the line-level relation `AllowsLines`
(`LineAllows`: equal lines, or `<depth> <operation> => *` in the specification) in `Sigc/Lemmas/RefineTdB.lean`;
`RE e s t` (`R s t` and `t.err = e`) in `Sigc/Lemmas/RefineTdD.lean`.
-/
namespace Sigc.Refine
open Sigc.Model

/-- the initial states of the two interpreters are related -/
theorem init_related : R ({} : St) ({ k1 := true, k2 := true } : Spec.LSt) :=
  ⟨rfl, rfl, rfl, .nil, .nil, .nil, rfl, .nil, rfl, rfl, rfl, rfl, .nil, rfl, rfl⟩

/-- **stage 1 — every operation that runs no user code is simulated**: for related states (`R`), with
    the model state satisfying the all-history invariant `Emit.Inv` and `Quiet` (no emission in progress
    when `depth = 0` — both hold in every state in which `execOp` is entered, see `Emit.runTop_good`),
    `Model.stepSimple` and `Spec.stepSimple` answer `none` together, and when the model answers
    `(s', r)` the specification answers `(t', r')` with `R s' t'` and `r' = r` or `r' = "*"`.
    Covers all operations except `callS`, `emit`, `throw_` (on which both `stepSimple`s are `none`),
    hence every history without emission. -/
theorem step_simulates (op : Op) {s : St} {t : Spec.LSt} (hs : Emit.Inv s) (hR : R s t) (hq : Quiet s) :
    (∀ s' r, Model.stepSimple s op = some (s', r) →
      ∃ t' r', Spec.stepSimple t op = some (t', r') ∧ R s' t' ∧ ResAllows r' r) ∧
    (Model.stepSimple s op = none → Spec.stepSimple t op = none) :=
  stepSim_all op s t hs hR hq

/-- on the initial states: whatever the model answers to `newG 1 V`, the specification answers alike -/
example : ∀ s' r, Model.stepSimple ({} : St) (.newG 1 (some .V)) = some (s', r) →
    ∃ t' r', Spec.stepSimple ({ k1 := true, k2 := true } : Spec.LSt) (.newG 1 (some .V)) = some (t', r') ∧
      R s' t' ∧ ResAllows r' r :=
  (step_simulates (.newG 1 (some .V)) Emit.inv_init init_related (fun _ i => by simp [Emit.execOf])).1

/-- **stages 2–4 — the refinement theorem, with the final states**: every terminating run of every
    program on the mechanism model is matched, with the same fuel, by a run of the specification with
    both known findings reproduced, ending in a related state (in particular `Allows t.trace s.trace`);
    the model's final state satisfies the all-history invariant. -/
theorem refines_state (fuel : Nat) (P : Prog) (s : St) (h : Model.runTop fuel P {} P.top = some s) :
    ∃ t, Spec.runTop fuel P { k1 := true, k2 := true } P.top = some t ∧ R s t ∧ Emit.Inv s :=
  let ⟨t, ht, hR⟩ := runTop_sim fuel P P.top {} _ s Emit.inv_init init_related quiet_init h
  ⟨t, ht, hR, (Emit.runTop_good fuel P {} P.top s Emit.inv_init h).inv⟩

example : ∀ fuel s, Model.runTop fuel exProg {} exProg.top = some s →
    ∃ t, Spec.runTop fuel exProg { k1 := true, k2 := true } exProg.top = some t ∧ R s t ∧ Emit.Inv s :=
  fun fuel s h => refines_state fuel exProg s h

/-- the same for a program with a functor-owned signal object (`ownG`; the owned signal dies in `collect`) -/
example : ∀ fuel s, Model.runTop fuel exProgG {} exProgG.top = some s →
    ∃ t, Spec.runTop fuel exProgG { k1 := true, k2 := true } exProgG.top = some t ∧ R s t ∧ Emit.Inv s :=
  fun fuel s h => refines_state fuel exProgG s h

/-- **the refinement theorem**: for every fuel and program, if the mechanism model's run terminates
    in `s`, some run of the specification `S'` (`k1 := true, k2 := true`) terminates in a `t` whose
    trace allows the model's trace, event by event (equal, or `*` in the specification for a result the
    statements leave open). -/
theorem refines (fuel : Nat) (P : Prog) (s : St) (h : Model.runTop fuel P {} P.top = some s) :
    ∃ fuel' t, Spec.runTop fuel' P { k1 := true, k2 := true } P.top = some t ∧ Allows t.trace s.trace :=
  let ⟨t, ht, hR, _⟩ := refines_state fuel P s h
  ⟨fuel, t, ht, hR.trace⟩

/-- the theorem applies to all runs of `exProg` -/
example : ∀ fuel s, Model.runTop fuel exProg {} exProg.top = some s →
    ∃ fuel' t, Spec.runTop fuel' exProg { k1 := true, k2 := true } exProg.top = some t ∧ Allows t.trace s.trace :=
  fun fuel s h => refines fuel exProg s h

/-! ## the driver: `teardown` and `runProgram`

What the correspondence check compares with the real library is `runProgram`: the trace of `runTop` followed by
`teardown` (destroy every scoped connection, connection and slot variable, `clear()` every signal, destroy every
signal object — also the pinned and the functor-owned ones — and every trackable) and the line
`0 final live=<liveTotal>`. -/

/-- **the specification's run reports no error**: the run of `S'` that matches a terminating run of the mechanism
    model (`refines_state`) never sets the specification's own error flag (`Spec.LSt.err`: "insert: no list",
    "emit: no list", "emit: list died during its emission", "forward to a destroyed signal object", "callS: slot
    variable destroyed during its own call") — the flag is not part of `R`; the simulation is proved once more
    with `R` and `t.err = none` (`Sigc/Lemmas/RefineTdD–F.lean`). -/
theorem refines_state_noerr (fuel : Nat) (P : Prog) (s : St) (h : Model.runTop fuel P {} P.top = some s) :
    ∃ t, Spec.runTop fuel P { k1 := true, k2 := true } P.top = some t ∧ R s t ∧ t.err = none :=
  let ⟨t, ht, hR⟩ := runTop_simE fuel P P.top none {} _ s Emit.inv_init ⟨init_related, rfl⟩ quiet_init h
  ⟨t, ht, hR.r, hR.err⟩

example : ∀ fuel s, Model.runTop fuel exProg {} exProg.top = some s →
    ∃ t, Spec.runTop fuel exProg { k1 := true, k2 := true } exProg.top = some t ∧ R s t ∧ t.err = none :=
  fun fuel s h => refines_state_noerr fuel exProg s h

/-- **the teardown is simulated**: from related states (`R`) with the model state satisfying the all-history
    invariants (`Emit.Inv`, `Inv.TdInv`) and no emission in progress — all of which hold after every terminating
    `runTop`, see `refines_driver` — whenever the model's teardown terminates, the specification's teardown
    terminates with the same fuel in a related state without touching its error flag, and the model's final state
    satisfies `Emit.Inv` (in particular `err = none`). -/
theorem teardown_sim (fuel : Nat) (P : Prog) (s : St) (t : Spec.LSt) (s' : St) (hs : Emit.Inv s) (hR : R s t)
    (hc : ∀ i, Emit.execOf s i = 0) (htd : Inv.TdInv s) (h : Model.teardown fuel P s = some s') :
    ∃ t', Spec.teardown fuel P t = some t' ∧ R s' t' ∧ Emit.Inv s' ∧ t'.err = t.err :=
  let ⟨t', ht', hb⟩ := Td.teardown_bun fuel P (e := t.err) ⟨hs, hR, rfl, hc, htd⟩ h
  ⟨t', ht', hb.rel, hb.inv, hb.err⟩

/-- on the initial states (nothing to destroy) -/
example : ∀ fuel s', Model.teardown fuel exProg {} = some s' →
    ∃ t', Spec.teardown fuel exProg { k1 := true, k2 := true } = some t' ∧ R s' t' ∧ Emit.Inv s' ∧ t'.err = none :=
  fun fuel s' h => teardown_sim fuel exProg {} _ s' Emit.inv_init init_related (fun i => by simp [Emit.execOf])
    ⟨Inv.WF.init, Inv.Bal.init, Inv.Inc.init⟩ h

/-- **the refinement theorem for the driver** (`runTop` followed by `teardown`): every terminating run of the
    mechanism model is matched, with the same fuel, by a run of the specification `S'`; the final states are
    related (`Allows t'.trace s'.trace`), neither side reports an error, and neither side holds a functor copy
    (`final live=0` on both sides). -/
theorem refines_driver (fuel : Nat) (P : Prog) (s s' : St) (h : Model.runTop fuel P {} P.top = some s)
    (ht : Model.teardown fuel P s = some s') :
    ∃ t t', Spec.runTop fuel P { k1 := true, k2 := true } P.top = some t ∧ Spec.teardown fuel P t = some t' ∧
      R s' t' ∧ Emit.Inv s' ∧ t'.err = none ∧ Model.liveTotal s' = 0 ∧ Spec.liveTotal t' = 0 := by
  obtain ⟨t, hrun, hR, he⟩ := refines_state_noerr fuel P s h
  have g := Emit.runTop_good fuel P {} P.top s Emit.inv_init h
  have hc : ∀ i, Emit.execOf s i = 0 := fun i => by rw [g.frame.exec i]; simp [Emit.execOf]
  have htd : Inv.TdInv s :=
    ⟨(Inv.Links.reachable fuel P s h).1.1, Inv.Bal.reachable fuel P s h, Inv.Inc.reachable fuel P s h⟩
  obtain ⟨t', ht', hR', hs', he'⟩ := teardown_sim fuel P s t s' g.inv hR hc htd ht
  obtain ⟨_, _, _, hS, _, _, hI⟩ := Inv.teardown_empty fuel P s s' htd ht
  exact ⟨t, t', hrun, ht', hR', hs', he'.trans he, Inv.liveTotal_nil hS hI, spec_liveTotal_zero hR' hS hI⟩

example : ∀ fuel s s', Model.runTop fuel exProgG {} exProgG.top = some s → Model.teardown fuel exProgG s = some s' →
    ∃ t t', Spec.runTop fuel exProgG { k1 := true, k2 := true } exProgG.top = some t ∧
      Spec.teardown fuel exProgG t = some t' ∧ R s' t' ∧ Emit.Inv s' ∧ t'.err = none ∧
      Model.liveTotal s' = 0 ∧ Spec.liveTotal t' = 0 :=
  fun fuel s s' h ht => refines_driver fuel exProgG s s' h ht

/-- the model's output is the fuel notice exactly when `runTop` runs out of fuel (the teardown runs no user code
    and terminates with one unit of fuel) -/
theorem runProgram_fuel_iff (lines : List String) :
    Model.runProgram lines ≠ ["MODEL-FUEL"] ↔
      ∃ s, Model.runTop defaultFuel (parseProg lines) {} (parseProg lines).top = some s := by
  unfold Model.runProgram
  simp only
  cases h1 : Model.runTop defaultFuel (parseProg lines) {} (parseProg lines).top with
  | none => simp
  | some s =>
    simp only
    obtain ⟨s', h2⟩ := Td.teardown_terminates 999999 (parseProg lines) s
    have h2' : Model.teardown defaultFuel (parseProg lines) s = some s' := h2
    rw [h2']
    simp only
    refine ⟨fun _ => ⟨s, rfl⟩, fun _ => ?_⟩
    have hne : ∀ (l : List String) (x : String), l ++ [x] = ["MODEL-FUEL"] → x = "MODEL-FUEL" := by
      intro l x hx
      cases l with
      | nil => simpa using hx
      | cons a l => cases l <;> simp at hx
    cases s'.err with
    | none => simp only; intro hx; exact final_ne_fuel _ (hne _ _ hx)
    | some e =>
      simp only
      intro hx
      have := congrArg List.length hx
      simp at this

/-- **the refinement theorem for what the driver prints**: for every program text whose model run does not run
    out of fuel (both runners use `defaultFuel`), the output of the specification `S'` — driver mode `spec-known`,
    `Spec.runProgram true true` — allows the model's output `Model.runProgram` line by line: equal lines, or
    `<depth> <operation> => *` in the specification for a result the statements leave open; the last line is
    `0 final live=0` on both sides, and there is neither a `MODEL-ERROR` nor a `SPEC-ERROR` nor a `SPEC-FUEL`
    line. -/
theorem runProgram_refines (lines : List String) (h : Model.runProgram lines ≠ ["MODEL-FUEL"]) :
    AllowsLines (Spec.runProgram true true lines) (Model.runProgram lines) := by
  obtain ⟨s, h1⟩ := (runProgram_fuel_iff lines).1 h
  obtain ⟨s', h2⟩ : ∃ s', Model.teardown defaultFuel (parseProg lines) s = some s' :=
    Td.teardown_terminates 999999 (parseProg lines) s
  obtain ⟨t, t', hr, ht, hR, hs', he, hl, hl'⟩ := refines_driver _ _ s s' h1 h2
  unfold Model.runProgram Spec.runProgram
  simp only
  rw [h1, hr]
  simp only
  rw [h2, ht]
  simp only
  rw [hs'.noerr, he]
  simp only
  rw [hl, hl']
  exact (lines_of_allows hR.trace).snoc_same _

/-- the driver on `exProg` (re-entrant emission) with the driver's fuel: both sides terminate, in related states,
    without errors -/
example : ∃ s s' t t', Model.runTop defaultFuel exProg {} exProg.top = some s ∧
    Model.teardown defaultFuel exProg s = some s' ∧
    Spec.runTop defaultFuel exProg { k1 := true, k2 := true } exProg.top = some t ∧
    Spec.teardown defaultFuel exProg t = some t' ∧ R s' t' ∧ s'.err = none ∧ t'.err = none := by
  have h : (Model.runTop defaultFuel exProg {} exProg.top).isSome = true := by decide +kernel
  obtain ⟨s, hs⟩ := Option.isSome_iff_exists.mp h
  obtain ⟨s', hs'⟩ : ∃ s', Model.teardown defaultFuel exProg s = some s' := Td.teardown_terminates 999999 exProg s
  obtain ⟨t, t', a, b, c, d, e, _⟩ := refines_driver defaultFuel exProg s s' hs hs'
  exact ⟨s, s', t, t', hs, hs', a, b, c, d.noerr, e⟩

/-- the empty program text: the hypothesis holds, both outputs are the final line -/
example : Model.runProgram [] ≠ ["MODEL-FUEL"] ∧
    AllowsLines (Spec.runProgram true true []) (Model.runProgram []) ∧ Model.runProgram [] = ["0 final live=0"] :=
  have h : Model.runProgram [] = ["0 final live=0"] := by decide +kernel
  ⟨by rw [h]; decide, runProgram_refines [] (by rw [h]; decide), h⟩

/-- related traces contain the same slot invocations -/
theorem allows_calls {ts tm : List Event} (h : Allows ts tm) : calls ts = calls tm := by
  induction h with
  | nil => rfl
  | @cons a b l m hab _ ih =>
    cases hab with
    | same e => simp only [calls, List.filterMap_cons] at ih ⊢; rw [ih]
    | star d text r => simp only [calls, List.filterMap_cons] at ih ⊢; exact ih

/-- **corollary — which slots are invoked, in which order, nesting and with which arguments, is exactly
    what the specification says** (snapshot semantics of emission, immediate removal): the sequence of
    slot invocations of every terminating run of the mechanism model equals that of the specification's
    run. -/
theorem refines_calls (fuel : Nat) (P : Prog) (s : St) (h : Model.runTop fuel P {} P.top = some s) :
    ∃ t, Spec.runTop fuel P { k1 := true, k2 := true } P.top = some t ∧ calls t.trace = calls s.trace :=
  let ⟨t, ht, hR, _⟩ := refines_state fuel P s h
  ⟨t, ht, allows_calls hR.trace⟩

example : ∀ fuel s, Model.runTop fuel exProg {} exProg.top = some s →
    ∃ t, Spec.runTop fuel exProg { k1 := true, k2 := true } exProg.top = some t ∧ calls t.trace = calls s.trace :=
  fun fuel s h => refines_calls fuel exProg s h

example : calls [.res 0 "emit 1 7" "r=void", .call 0 2 7, .res 0 "newG 1 V" "ok"] = [(0, 2, 7)] := rfl

end Sigc.Refine
