import Sigc.Lemmas.RefineMutual
/-!
# Refinement: the mechanism model `P` (`Sigc.Model`) is simulated by the statement-level specification
`S'` = `Sigc.Spec` run with `k1 := true, k2 := true` (the specification with the two known findings
reproduced).

The simulation relation `R : Model.St → Spec.LSt → Prop`, the trace relation `Allows` and the result
relation `ResAllows` are defined in `Sigc/Lemmas/RefineDefs.lean`.
-/
namespace Sigc.Refine
open Sigc.Model

/-- the initial states of the two interpreters are related -/
theorem init_related : R ({} : St) ({ k1 := true, k2 := true } : Spec.LSt) :=
  ⟨rfl, rfl, rfl, .nil, .nil, .nil, rfl, .nil, rfl, rfl, rfl, rfl, .nil, rfl, rfl⟩

/-- **stage 1 — every operation that runs no user code is simulated**: for related states (`R`), with
    the model state satisfying the all-history invariant `Emit.Inv` and `Quiet` (no emission in progress
    when `depth = 0` — both hold in every state in which `execOp` is entered, see `Emit.runTop_good`),
    `Model.stepSimple` and `Spec.stepSimple` answer `none` together, and when the model answers
    `(s', r)` the specification answers `(t', r')` with `R s' t'` and `r' = r` or `r' = "*"`.
    Covers all operations except `callS`, `emit`, `throw_` (on which both `stepSimple`s are `none`),
    hence every history without emission. -/
theorem step_simulates (op : Op) {s : St} {t : Spec.LSt} (hs : Emit.Inv s) (hR : R s t) (hq : Quiet s) :
    (∀ s' r, Model.stepSimple s op = some (s', r) →
      ∃ t' r', Spec.stepSimple t op = some (t', r') ∧ R s' t' ∧ ResAllows r' r) ∧
    (Model.stepSimple s op = none → Spec.stepSimple t op = none) :=
  stepSim_all op s t hs hR hq

/-- on the initial states: whatever the model answers to `newG 1 V`, the specification answers alike -/
example : ∀ s' r, Model.stepSimple ({} : St) (.newG 1 (some .V)) = some (s', r) →
    ∃ t' r', Spec.stepSimple ({ k1 := true, k2 := true } : Spec.LSt) (.newG 1 (some .V)) = some (t', r') ∧
      R s' t' ∧ ResAllows r' r :=
  (step_simulates (.newG 1 (some .V)) Emit.inv_init init_related (fun _ i => by simp [Emit.execOf])).1

/-- **stages 2–4 — the refinement theorem, with the final states**: every terminating run of every
    program on the mechanism model is matched, with the same fuel, by a run of the specification with
    both known findings reproduced, ending in a related state (in particular `Allows t.trace s.trace`);
    the model's final state satisfies the all-history invariant. -/
theorem refines_state (fuel : Nat) (P : Prog) (s : St) (h : Model.runTop fuel P {} P.top = some s) :
    ∃ t, Spec.runTop fuel P { k1 := true, k2 := true } P.top = some t ∧ R s t ∧ Emit.Inv s :=
  let ⟨t, ht, hR⟩ := runTop_sim fuel P P.top {} _ s Emit.inv_init init_related quiet_init h
  ⟨t, ht, hR, (Emit.runTop_good fuel P {} P.top s Emit.inv_init h).inv⟩

example : ∀ fuel s, Model.runTop fuel exProg {} exProg.top = some s →
    ∃ t, Spec.runTop fuel exProg { k1 := true, k2 := true } exProg.top = some t ∧ R s t ∧ Emit.Inv s :=
  fun fuel s h => refines_state fuel exProg s h

/-- the same for a program with a functor-owned signal object (`ownG`; the owned signal dies in `collect`) -/
example : ∀ fuel s, Model.runTop fuel exProgG {} exProgG.top = some s →
    ∃ t, Spec.runTop fuel exProgG { k1 := true, k2 := true } exProgG.top = some t ∧ R s t ∧ Emit.Inv s :=
  fun fuel s h => refines_state fuel exProgG s h

/-- **the refinement theorem**: for every fuel and program, if the mechanism model's run terminates
    in `s`, some run of the specification `S'` (`k1 := true, k2 := true`) terminates in a `t` whose
    trace allows the model's trace, event by event (equal, or `*` in the specification for a result the
    statements leave open). -/
theorem refines (fuel : Nat) (P : Prog) (s : St) (h : Model.runTop fuel P {} P.top = some s) :
    ∃ fuel' t, Spec.runTop fuel' P { k1 := true, k2 := true } P.top = some t ∧ Allows t.trace s.trace :=
  let ⟨t, ht, hR, _⟩ := refines_state fuel P s h
  ⟨fuel, t, ht, hR.trace⟩

/-- the theorem applies to all runs of `exProg` -/
example : ∀ fuel s, Model.runTop fuel exProg {} exProg.top = some s →
    ∃ fuel' t, Spec.runTop fuel' exProg { k1 := true, k2 := true } exProg.top = some t ∧ Allows t.trace s.trace :=
  fun fuel s h => refines fuel exProg s h

/-- related traces contain the same slot invocations -/
theorem allows_calls {ts tm : List Event} (h : Allows ts tm) : calls ts = calls tm := by
  induction h with
  | nil => rfl
  | @cons a b l m hab _ ih =>
    cases hab with
    | same e => simp only [calls, List.filterMap_cons] at ih ⊢; rw [ih]
    | star d text r => simp only [calls, List.filterMap_cons] at ih ⊢; exact ih

/-- **corollary — which slots are invoked, in which order, nesting and with which arguments, is exactly
    what the specification says** (snapshot semantics of emission, immediate removal): the sequence of
    slot invocations of every terminating run of the mechanism model equals that of the specification's
    run. -/
theorem refines_calls (fuel : Nat) (P : Prog) (s : St) (h : Model.runTop fuel P {} P.top = some s) :
    ∃ t, Spec.runTop fuel P { k1 := true, k2 := true } P.top = some t ∧ calls t.trace = calls s.trace :=
  let ⟨t, ht, hR, _⟩ := refines_state fuel P s h
  ⟨t, ht, allows_calls hR.trace⟩

example : ∀ fuel s, Model.runTop fuel exProg {} exProg.top = some s →
    ∃ t, Spec.runTop fuel exProg { k1 := true, k2 := true } exProg.top = some t ∧ calls t.trace = calls s.trace :=
  fun fuel s h => refines_calls fuel exProg s h

example : calls [.res 0 "emit 1 7" "r=void", .call 0 2 7, .res 0 "newG 1 V" "ok"] = [(0, 2, 7)] := rfl

end Sigc.Refine
