import Sigc.Lemmas.RefineMutual
import Sigc.Lemmas.RefineTdB
/-!
# Refinement: the mechanism model `P` (`Sigc.Model`) is simulated by the statement-level specification
`S'` = `Sigc.Spec` run with `k1 := true, k2 := true` (the specification with the two known findings
reproduced).

The simulation relation `R : Model.St → Spec.LSt → Prop`, the trace relation `Allows` and the result
relation `ResAllows` are defined in `Sigc/Lemmas/RefineDefs.lean`.
-/
namespace Sigc.Refine
open Sigc.Model

/-- the initial states of the two interpreters are related -/
theorem init_related : R ({} : St) ({ k1 := true, k2 := true } : Spec.LSt) :=
  ⟨rfl, rfl, rfl, .nil, .nil, .nil, rfl, .nil, rfl, rfl, rfl, rfl, .nil, rfl, rfl⟩

/-- **stage 1 — every operation that runs no user code is simulated**: for related states (`R`), with
    the model state satisfying the all-history invariant `Emit.Inv` and `Quiet` (no emission in progress
    when `depth = 0` — both hold in every state in which `execOp` is entered, see `Emit.runTop_good`),
    `Model.stepSimple` and `Spec.stepSimple` answer `none` together, and when the model answers
    `(s', r)` the specification answers `(t', r')` with `R s' t'` and `r' = r` or `r' = "*"`.
    Covers all operations except `callS`, `emit`, `throw_` (on which both `stepSimple`s are `none`),
    hence every history without emission. -/
theorem step_simulates (op : Op) {s : St} {t : Spec.LSt} (hs : Emit.Inv s) (hR : R s t) (hq : Quiet s) :
    (∀ s' r, Model.stepSimple s op = some (s', r) →
      ∃ t' r', Spec.stepSimple t op = some (t', r') ∧ R s' t' ∧ ResAllows r' r) ∧
    (Model.stepSimple s op = none → Spec.stepSimple t op = none) :=
  stepSim_all op s t hs hR hq

/-- on the initial states: whatever the model answers to `newG 1 V`, the specification answers alike -/
example : ∀ s' r, Model.stepSimple ({} : St) (.newG 1 (some .V)) = some (s', r) →
    ∃ t' r', Spec.stepSimple ({ k1 := true, k2 := true } : Spec.LSt) (.newG 1 (some .V)) = some (t', r') ∧
      R s' t' ∧ ResAllows r' r :=
  (step_simulates (.newG 1 (some .V)) Emit.inv_init init_related (fun _ i => by simp [Emit.execOf])).1

/-- **stages 2–4 — the refinement theorem, with the final states**: every terminating run of every
    program on the mechanism model is matched, with the same fuel, by a run of the specification with
    both known findings reproduced, ending in a related state (in particular `Allows t.trace s.trace`);
    the model's final state satisfies the all-history invariant. -/
theorem refines_state (fuel : Nat) (P : Prog) (s : St) (h : Model.runTop fuel P {} P.top = some s) :
    ∃ t, Spec.runTop fuel P { k1 := true, k2 := true } P.top = some t ∧ R s t ∧ Emit.Inv s :=
  let ⟨t, ht, hR⟩ := runTop_sim fuel P P.top {} _ s Emit.inv_init init_related quiet_init h
  ⟨t, ht, hR, (Emit.runTop_good fuel P {} P.top s Emit.inv_init h).inv⟩

example : ∀ fuel s, Model.runTop fuel exProg {} exProg.top = some s →
    ∃ t, Spec.runTop fuel exProg { k1 := true, k2 := true } exProg.top = some t ∧ R s t ∧ Emit.Inv s :=
  fun fuel s h => refines_state fuel exProg s h

/-- the same for a program with a functor-owned signal object (`ownG`; the owned signal dies in `collect`) -/
example : ∀ fuel s, Model.runTop fuel exProgG {} exProgG.top = some s →
    ∃ t, Spec.runTop fuel exProgG { k1 := true, k2 := true } exProgG.top = some t ∧ R s t ∧ Emit.Inv s :=
  fun fuel s h => refines_state fuel exProgG s h

/-- **the refinement theorem**: for every fuel and program, if the mechanism model's run terminates
    in `s`, some run of the specification `S'` (`k1 := true, k2 := true`) terminates in a `t` whose
    trace allows the model's trace, event by event (equal, or `*` in the specification for a result the
    statements leave open). -/
theorem refines (fuel : Nat) (P : Prog) (s : St) (h : Model.runTop fuel P {} P.top = some s) :
    ∃ fuel' t, Spec.runTop fuel' P { k1 := true, k2 := true } P.top = some t ∧ Allows t.trace s.trace :=
  let ⟨t, ht, hR, _⟩ := refines_state fuel P s h
  ⟨fuel, t, ht, hR.trace⟩

/-- the theorem applies to all runs of `exProg` -/
example : ∀ fuel s, Model.runTop fuel exProg {} exProg.top = some s →
    ∃ fuel' t, Spec.runTop fuel' exProg { k1 := true, k2 := true } exProg.top = some t ∧ Allows t.trace s.trace :=
  fun fuel s h => refines fuel exProg s h

/-! ## the driver: `teardown` and `runProgram`

What the correspondence check compares with the real library is `runProgram`: the trace of `runTop` followed by
`teardown` (destroy every scoped connection, connection and slot variable, `clear()` every signal, destroy every
signal object — also the pinned and the functor-owned ones — and every trackable) and the line
`0 final live=<liveTotal>`. -/

/-- **the teardown is simulated**: from related states (`R`) with the model state satisfying the all-history
    invariants (`Emit.Inv`, `Inv.TdInv`) and no emission in progress — all of which hold after every terminating
    `runTop`, see `refines_driver` — whenever the model's teardown terminates, the specification's teardown
    terminates with the same fuel in a related state, and the model's final state satisfies `Emit.Inv`
    (in particular `err = none`). -/
theorem teardown_sim (fuel : Nat) (P : Prog) (s : St) (t : Spec.LSt) (s' : St) (hs : Emit.Inv s) (hR : R s t)
    (hc : ∀ i, Emit.execOf s i = 0) (htd : Inv.TdInv s) (h : Model.teardown fuel P s = some s') :
    ∃ t', Spec.teardown fuel P t = some t' ∧ R s' t' ∧ Emit.Inv s' :=
  let ⟨t', ht', hb⟩ := Td.teardown_bun fuel P ⟨hs, hR, hc, htd⟩ h
  ⟨t', ht', hb.rel, hb.inv⟩

/-- on the initial states (nothing to destroy) -/
example : ∀ fuel s', Model.teardown fuel exProg {} = some s' →
    ∃ t', Spec.teardown fuel exProg { k1 := true, k2 := true } = some t' ∧ R s' t' ∧ Emit.Inv s' :=
  fun fuel s' h => teardown_sim fuel exProg {} _ s' Emit.inv_init init_related (fun i => by simp [Emit.execOf])
    ⟨Inv.WF.init, Inv.Bal.init, Inv.Inc.init⟩ h

/-- **the refinement theorem for the driver** (`runTop` followed by `teardown`): every terminating run of the
    mechanism model is matched, with the same fuel, by a run of the specification `S'`; the final states are
    related (`Allows t'.trace s'.trace`), the model reports no error, and neither side holds a functor copy
    (`final live=0` on both sides). -/
theorem refines_driver (fuel : Nat) (P : Prog) (s s' : St) (h : Model.runTop fuel P {} P.top = some s)
    (ht : Model.teardown fuel P s = some s') :
    ∃ t t', Spec.runTop fuel P { k1 := true, k2 := true } P.top = some t ∧ Spec.teardown fuel P t = some t' ∧
      R s' t' ∧ Emit.Inv s' ∧ Model.liveTotal s' = 0 ∧ Spec.liveTotal t' = 0 := by
  obtain ⟨t, hrun, hR, hs⟩ := refines_state fuel P s h
  have hc : ∀ i, Emit.execOf s i = 0 := fun i => by
    rw [(Emit.runTop_good fuel P {} P.top s Emit.inv_init h).frame.exec i]; simp [Emit.execOf]
  have htd : Inv.TdInv s :=
    ⟨(Inv.Links.reachable fuel P s h).1.1, Inv.Bal.reachable fuel P s h, Inv.Inc.reachable fuel P s h⟩
  obtain ⟨t', ht', hR', hs'⟩ := teardown_sim fuel P s t s' hs hR hc htd ht
  obtain ⟨_, _, _, hS, _, _, hI⟩ := Inv.teardown_empty fuel P s s' htd ht
  exact ⟨t, t', hrun, ht', hR', hs', Inv.liveTotal_nil hS hI, spec_liveTotal_zero hR' hS hI⟩

example : ∀ fuel s s', Model.runTop fuel exProgG {} exProgG.top = some s → Model.teardown fuel exProgG s = some s' →
    ∃ t t', Spec.runTop fuel exProgG { k1 := true, k2 := true } exProgG.top = some t ∧
      Spec.teardown fuel exProgG t = some t' ∧ R s' t' ∧ Emit.Inv s' ∧ Model.liveTotal s' = 0 ∧ Spec.liveTotal t' = 0 :=
  fun fuel s s' h ht => refines_driver fuel exProgG s s' h ht

/-- **the refinement theorem for what the driver prints** — partial: for every program text whose model run does
    not run out of fuel, the output of the specification `S'` (driver mode `spec-known`) is some `out` that allows
    the model's output line by line (equal lines, or `… => *` in the specification) — possibly followed by a
    `SPEC-ERROR` line.  Missing for the full statement `runProgram_refines` (in the comment below): the
    specification's own error flag `Spec.LSt.err` is not part of the simulation relation `R`, so the absence of
    the `SPEC-ERROR` line does not follow from `refines_driver`. -/
theorem runProgram_refines_partial (lines : List String) (h : Model.runProgram lines ≠ ["MODEL-FUEL"]) :
    ∃ out, AllowsLines out (Model.runProgram lines) ∧
      (Spec.runProgram true true lines = out ∨
       ∃ e : String, Spec.runProgram true true lines = out ++ [s!"SPEC-ERROR {e}"]) := by
  unfold Model.runProgram at h ⊢
  unfold Spec.runProgram
  simp only at h ⊢
  cases h1 : Model.runTop defaultFuel (parseProg lines) {} (parseProg lines).top with
  | none => rw [h1] at h; exact absurd rfl h
  | some s =>
    rw [h1] at h
    simp only at h ⊢
    cases h2 : Model.teardown defaultFuel (parseProg lines) s with
    | none => rw [h2] at h; exact absurd rfl h
    | some s' =>
      obtain ⟨t, t', hr, ht, hR, hs', hl, hl'⟩ := refines_driver _ _ s s' h1 h2
      rw [hr]
      simp only
      rw [ht]
      simp only
      rw [hs'.noerr]
      simp only
      have e : (s!"0 final live={Spec.liveTotal t'}" : String) = s!"0 final live={Model.liveTotal s'}" := by
        rw [hl, hl']
      refine ⟨t'.trace.reverse.map renderEvent ++ [s!"0 final live={Spec.liveTotal t'}"], ?_, ?_⟩
      · rw [e]; exact (lines_of_allows hR.trace).snoc_same _
      · cases t'.err with
        | none => exact Or.inl rfl
        | some e' => exact Or.inr ⟨e', rfl⟩

/-- related traces contain the same slot invocations -/
theorem allows_calls {ts tm : List Event} (h : Allows ts tm) : calls ts = calls tm := by
  induction h with
  | nil => rfl
  | @cons a b l m hab _ ih =>
    cases hab with
    | same e => simp only [calls, List.filterMap_cons] at ih ⊢; rw [ih]
    | star d text r => simp only [calls, List.filterMap_cons] at ih ⊢; exact ih

/-- **corollary — which slots are invoked, in which order, nesting and with which arguments, is exactly
    what the specification says** (snapshot semantics of emission, immediate removal): the sequence of
    slot invocations of every terminating run of the mechanism model equals that of the specification's
    run. -/
theorem refines_calls (fuel : Nat) (P : Prog) (s : St) (h : Model.runTop fuel P {} P.top = some s) :
    ∃ t, Spec.runTop fuel P { k1 := true, k2 := true } P.top = some t ∧ calls t.trace = calls s.trace :=
  let ⟨t, ht, hR, _⟩ := refines_state fuel P s h
  ⟨t, ht, allows_calls hR.trace⟩

example : ∀ fuel s, Model.runTop fuel exProg {} exProg.top = some s →
    ∃ t, Spec.runTop fuel exProg { k1 := true, k2 := true } exProg.top = some t ∧ calls t.trace = calls s.trace :=
  fun fuel s h => refines_calls fuel exProg s h

example : calls [.res 0 "emit 1 7" "r=void", .call 0 2 7, .res 0 "newG 1 V" "ok"] = [(0, 2, 7)] := rfl

end Sigc.Refine
