import Sigc.Lemmas.RefineStepAll
/-!
# Refinement: the mechanism model `P` (`Sigc.Model`) is simulated by the statement-level specification
`S'` = `Sigc.Spec` run with `k1 := true, k2 := true` (the specification with the two known findings
reproduced).

The simulation relation `R : Model.St → Spec.LSt → Prop`, the trace relation `Allows` and the result
relation `ResAllows` are defined in `Sigc/Lemmas/RefineDefs.lean`.
-/
namespace Sigc.Refine
open Sigc.Model

/-- the initial states of the two interpreters are related -/
theorem init_related : R ({} : St) ({ k1 := true, k2 := true } : Spec.LSt) :=
  ⟨rfl, rfl, rfl, .nil, .nil, .nil, rfl, .nil, rfl, rfl, rfl, .nil, rfl, rfl⟩

/-- **stage 1 — every operation that runs no user code is simulated**: for related states (`R`), with
    the model state satisfying the all-history invariant `Emit.Inv` and `Quiet` (no emission in progress
    when `depth = 0` — both hold in every state in which `execOp` is entered, see `Emit.runTop_good`),
    `Model.stepSimple` and `Spec.stepSimple` answer `none` together, and when the model answers
    `(s', r)` the specification answers `(t', r')` with `R s' t'` and `r' = r` or `r' = "*"`.
    Covers all operations except `callS`, `emit`, `throw_` (on which both `stepSimple`s are `none`),
    hence every history without emission. -/
theorem step_simulates (op : Op) {s : St} {t : Spec.LSt} (hs : Emit.Inv s) (hR : R s t) (hq : Quiet s) :
    (∀ s' r, Model.stepSimple s op = some (s', r) →
      ∃ t' r', Spec.stepSimple t op = some (t', r') ∧ R s' t' ∧ ResAllows r' r) ∧
    (Model.stepSimple s op = none → Spec.stepSimple t op = none) :=
  stepSim_all op s t hs hR hq

/-- on the initial states: whatever the model answers to `newG 1 V`, the specification answers alike -/
example : ∀ s' r, Model.stepSimple ({} : St) (.newG 1 (some .V)) = some (s', r) →
    ∃ t' r', Spec.stepSimple ({ k1 := true, k2 := true } : Spec.LSt) (.newG 1 (some .V)) = some (t', r') ∧
      R s' t' ∧ ResAllows r' r :=
  (step_simulates (.newG 1 (some .V)) Emit.inv_init init_related (fun _ i => by simp [Emit.execOf])).1

end Sigc.Refine
