import Sigc.Basic
/-! property theorems for C16 (stub, replaced by the real statements) -/
namespace Sigc.C16
end Sigc.C16
