import Sigc.TrkLemmas
import Sigc.TrkLemmas2
import Sigc.TrkLemmas3
/-!
  # C16 — trackable notifications fire exactly once, and copies do not inherit them

  Model: `Sigc/Trk.lean` (`sigc::trackable`, `trackable_callback_list`, function by function).
  All theorems quantify over **all** histories (`History` = callback bodies + any list of operations over
  any number of trackables), by induction over the operation list; nothing is enumerated.

  Vocabulary (defined in `Sigc/Trk.lean`, mechanism-free, to be read against `properties.jsonl`):
  * the trace of a run is the list of events `add r t d` (registration `r` — a fresh id per call — of data
    `d` on trackable `t`), `rem t d`, `trig t … done t` (one triggering event on `t`: destruction, being
    assigned to, being moved from, `notify_callbacks()`), `deliver r d k`;
  * `present t pre` — the registrations of `t` after the events `pre`: added to `t`, not matched by a
    `remove` (a `remove d` matches the **first** present registration with data `d`), and no triggering
    event on `t` has completed since;
  * `inRound pre` — the trackable whose triggering event is in progress after `pre`;
  * `h.Domain` — C16's domain: callbacks only *remove* registrations (no `add`, no nested
    `notify_callbacks()` inside a delivery round; DESIGN §2/§5).
-/
namespace Sigc.C16
open Sigc.Trk

/-- a registration can only be present on the trackable it was added to -/
theorem present_mem_add (t : Nat) (x : Nat × Nat) :
    ∀ (tr : List Ev) (init : List (Nat × Nat)), x ∈ tr.foldl (stepP t) init →
      x ∈ init ∨ Ev.add x.1 t x.2 ∈ tr := by
  intro tr
  induction tr with
  | nil => intro init h; exact .inl h
  | cons e tr ih =>
    intro init h
    rcases ih _ h with h1 | h1
    · rcases mem_stepP h1 with h2 | ⟨d, he, hd⟩
      · exact .inl h2
      · subst he; subst hd; exact .inr (List.mem_cons_self ..)
    · exact .inr (List.mem_cons_of_mem _ h1)

/--
  **C16.exactly_once.**  For every history in the domain, on the trace `tr` of the whole run:
  1. every `add` has its own registration id;
  2. no registration is delivered twice;
  3. a delivery of `r` happens only *during a triggering event* on a trackable `t` on which `r` is
     present at that moment — i.e. `r` was added to `t`, no `remove` matched it before (never after
     removal), and no earlier triggering event on `t` has completed since the `add` (so it is the first);
  4. when a triggering event on `t` completes, every registration present on `t` has been delivered
     (so an unremoved registration *is* delivered at the first triggering event after its `add`),
     and from then on `t` has no registration (`present t (pre ++ [done t]) = []` by definition);
  5. triggering events are properly bracketed: a `trig` and an `add` only occur outside rounds, and at the
     end of the history no round is open.
-/
theorem exactly_once (h : History) (dom : h.Domain = true) :
    let tr := (run h).trace
    (added tr).Nodup ∧
    (delivered tr).Nodup ∧
    (∀ pre post r d k, tr = pre ++ Ev.deliver r d k :: post →
        r ∉ delivered pre ∧ ∃ t, inRound pre = some t ∧ (r, d) ∈ present t pre ∧ Ev.add r t d ∈ pre) ∧
    (∀ pre post t, tr = pre ++ Ev.done t :: post →
        inRound pre = some t ∧ ∀ x ∈ present t pre, x.1 ∈ delivered pre) ∧
    (∀ pre post t, tr = pre ++ Ev.trig t :: post → inRound pre = none) ∧
    (∀ pre post r t d, tr = pre ++ Ev.add r t d :: post → inRound pre = none ∧ r ∉ added pre) ∧
    inRound tr = none := by
  have inv := run_inv dom
  refine ⟨inv.valid.added_nodup, inv.valid.delivered_nodup, ?_, ?_, ?_, ?_, inv.idle⟩
  · intro pre post r d k e
    obtain ⟨_, t, h1, h2, h3⟩ := inv.valid.split pre _ post e
    refine ⟨h3, t, h1, h2, ?_⟩
    rcases present_mem_add t (r, d) pre [] h2 with h4 | h4
    · cases h4
    · exact h4
  · intro pre post t e
    exact (inv.valid.split pre _ post e).2
  · intro pre post t e
    exact (inv.valid.split pre _ post e).2
  · intro pre post r t d e
    have := (inv.valid.split pre _ post e).2
    exact ⟨this.2, this.1⟩

/-- non-vacuity: three registrations on one trackable, one removed from outside, one removed by the first
    callback during the round (never delivered), the first removing itself as well; then a second round -/
def ex1 : History :=
  { scripts := [[.rem 1, .rem 3], []],
    ops := [.new 0, .add 0 1 0, .add 0 2 1, .add 0 3 1, .add 0 2 1, .rem 0 2, .notify 0, .notify 0, .del 0] }

example : ex1.Domain = true ∧ delivered (run ex1).trace = [0, 3] ∧ added (run ex1).trace = [0, 1, 2, 3] :=
  by decide

/--
  **C16.remove_during_round** (safety).  For every history in the domain the run never reaches an error
  state: the callback list is never restructured under the destructor's iterator (`iterInvalid`), never
  deleted twice (`doubleDelete`), and the iteration reaches `end()` (`fuel`).  This covers callbacks
  removing any other registration of the trackable being notified, earlier or later in the list, already
  delivered or not, and themselves.  The *effect* of such a removal is clause 3/4 of `exactly_once`
  (`present` drops the first present registration with that data, whether or not a round is in progress).
-/
theorem remove_during_round (h : History) (dom : h.Domain = true) : (run h).err = none :=
  (run_inv dom).noerr

example : ex1.Domain = true ∧ (run ex1).err = none := by decide

/-- the domain restriction "no nested `notify_callbacks()`" cannot be dropped from safety -/
theorem nested_notify_witness :
    ∃ h : History, (run h).err = some Err.doubleDelete :=
  ⟨{ scripts := [[.notify]], ops := [.new 0, .add 0 1 0, .notify 0] }, by decide⟩

/-- the domain restriction "no `add` inside a round" cannot be dropped from exactly-once: the call is
    silently ignored, its registration is never delivered, not even when the trackable is destroyed -/
theorem add_in_round_witness :
    ∃ h : History, (run h).err = none ∧ 1 ∈ added (run h).trace ∧ 1 ∉ delivered (run h).trace ∧
      (run h).objs 0 = none :=
  ⟨{ scripts := [[.add 2 0]], ops := [.new 0, .add 0 1 0, .notify 0, .del 0] }, by decide⟩

/--
  **C16.copy_transfers_nothing.**  In *any* state, copy-constructing `dst` from a live `src` delivers
  nothing, leaves `src` (and everything else) exactly as it was and gives `dst` no callback list.
-/
theorem copy_transfers_nothing (sc : Scripts) (s : State) (src dst : Nat)
    (hok : (Op.copyCtor src dst).ok s = true) :
    let s' := step sc (.copyCtor src dst) s
    s'.trace = s.trace ∧ s'.err = s.err ∧ s'.nextReg = s.nextReg ∧
      (s.err = none → s'.objs dst = some ⟨none⟩) ∧ (∀ t, t ≠ dst → s'.objs t = s.objs t) := by
  simp only [step, hok, if_true, exec]
  split
  · exact ⟨rfl, rfl, rfl, fun h => by simp_all, fun _ _ => rfl⟩
  · exact ⟨rfl, rfl, rfl, fun _ => by simp, fun t ht => upd_objs_other _ _ ht⟩

/-- … and along every history: whatever is delivered during a triggering event on a trackable (e.g. the
    copy's destruction) was registered **on that very trackable** — the copy's life never reaches the
    original's registrations, and vice versa -/
theorem copy_life_independent (h : History) (dom : h.Domain = true) :
    ∀ pre post r d k, (run h).trace = pre ++ Ev.deliver r d k :: post →
      ∃ t, inRound pre = some t ∧ Ev.add r t d ∈ pre := by
  intro pre post r d k e
  obtain ⟨_, t, h1, _, h3⟩ := (exactly_once h dom).2.2.1 pre post r d k e
  exact ⟨t, h1, h3⟩

/-- non-vacuity: the copy dies, the original's registration stays and is delivered when the original dies -/
example :
    let h : History := { scripts := [[]], ops := [.new 0, .add 0 7 0, .copyCtor 0 1, .del 1] }
    h.Domain = true ∧ delivered (run h).trace = [] ∧
      delivered (run { h with ops := h.ops ++ [.del 0] }).trace = [0] := by decide

/--
  **C16.self_assign_silent.**  In *any* state, copy- or move-assigning a trackable to itself changes
  nothing at all (no delivery, no event, no state change).
-/
theorem self_assign_silent (sc : Scripts) (s : State) (t : Nat) :
    step sc (.assign t t) s = s ∧ step sc (.moveAssign t t) s = s := by
  constructor <;> (simp only [step, exec]; split <;> simp)

example :
    let h : History := { scripts := [[]], ops := [.new 0, .add 0 7 0, .assign 0 0, .moveAssign 0 0] }
    (run h).trace = [.add 0 0 7] ∧ entriesOf (run h) 0 = [⟨7, some 0, 0⟩] := by decide

/--
  **C16.trigger_ops** (what each operation contributes to the trace; ties the events `trig … done` of
  `exactly_once` to the operations of the property statement).  After any history in the domain, an
  applicable operation `op` extends the trace by:
  destruction / `notify_callbacks()` of `t`: one triggering event on `t`; copy assignment `dst = src`:
  one on `dst` (nothing if `dst` is `src`); move construction from `src`: one on `src`; move assignment:
  one on `dst`, then one on `src` (nothing if same); default and copy construction: nothing;
  `add`: one `add` event with a fresh id; `remove`: one `rem` event.
-/
theorem trigger_ops (h : History) (dom : h.Domain = true) (op : Op) (hok : op.ok (run h) = true) :
    let s := run h
    let s' := step h.sc op s
    match op with
    | .notify t | .del t => ∃ mid, s'.trace = s.trace ++ Ev.trig t :: mid ++ [Ev.done t]
    | .assign dst src =>
        if dst = src then s'.trace = s.trace
        else ∃ mid, s'.trace = s.trace ++ Ev.trig dst :: mid ++ [Ev.done dst]
    | .moveCtor src _ => ∃ mid, s'.trace = s.trace ++ Ev.trig src :: mid ++ [Ev.done src]
    | .moveAssign dst src =>
        if dst = src then s'.trace = s.trace
        else ∃ m1 m2, s'.trace =
          s.trace ++ Ev.trig dst :: m1 ++ [Ev.done dst] ++ Ev.trig src :: m2 ++ [Ev.done src]
    | .new _ | .copyCtor _ _ => s'.trace = s.trace
    | .add t d _ => s'.trace = s.trace ++ [Ev.add s.nextReg t d]
    | .rem t d => s'.trace = s.trace ++ [Ev.rem t d] := by
  have inv := run_inv dom
  have hsc := History.remOnly dom
  simp only [step, inv.noerr, Option.isSome_none, Bool.false_eq_true, if_false, hok, if_true]
  cases op with
  | new t => rfl
  | copyCtor src dst => rfl
  | add t d k =>
    simp only [Op.ok] at hok
    obtain ⟨o, ho⟩ := alive_iff.1 hok
    simp [exec, addDestroyNotify, ho, State.emit]
  | rem t d =>
    simp only [Op.ok] at hok
    obtain ⟨o, ho⟩ := alive_iff.1 hok
    simp [exec, removeDestroyNotify, ho]
  | notify t =>
    simp only [Op.ok] at hok
    obtain ⟨o, ho⟩ := alive_iff.1 hok
    exact (notify_shape hsc t inv ho).1
  | del t =>
    simp only [Op.ok] at hok
    obtain ⟨o, ho⟩ := alive_iff.1 hok
    have h1 := (notify_inv hsc t inv).1
    simp only [exec, h1.noerr, Option.isSome_none, Bool.false_eq_true, if_false, upd_trace]
    exact (notify_shape hsc t inv ho).1
  | assign dst src =>
    simp only [Op.ok, Bool.and_eq_true] at hok
    obtain ⟨o, ho⟩ := alive_iff.1 hok.1
    simp only [exec]
    by_cases e : dst = src
    · simp [e]
    · simp only [e, if_false, ne_eq, not_false_eq_true, if_true]
      exact (notify_shape hsc dst inv ho).1
  | moveCtor src dst =>
    simp only [Op.ok, Bool.and_eq_true, Bool.not_eq_true'] at hok
    obtain ⟨o, ho⟩ := alive_iff.1 hok.1
    have hd : (run h).objs dst = none := by
      have := hok.2; simp [State.alive] at this; exact this
    have hne : src ≠ dst := by intro e; rw [e, hd] at ho; cases ho
    have inv' := fresh_obj_inv inv hd
    have ho' : ((run h).upd dst (some ⟨none⟩)).objs src = some o := by
      rw [upd_objs_other _ _ hne]; exact ho
    simpa [exec] using (notify_shape hsc src inv' ho').1
  | moveAssign dst src =>
    simp only [Op.ok, Bool.and_eq_true] at hok
    obtain ⟨o, ho⟩ := alive_iff.1 hok.1
    obtain ⟨o2, ho2⟩ := alive_iff.1 hok.2
    simp only [exec]
    by_cases e : dst = src
    · simp [e]
    · have h1 := (notify_inv hsc dst inv).1
      obtain ⟨⟨m1, hm1⟩, hobj⟩ := notify_shape hsc dst inv ho
      have ho2' : (notifyCallbacks h.sc dst (run h)).objs src = some o2 := by
        rw [hobj src (fun x => e x.symm)]; exact ho2
      obtain ⟨⟨m2, hm2⟩, _⟩ := notify_shape hsc src h1 ho2'
      simp only [e, if_false, ne_eq, not_false_eq_true, if_true, h1.noerr, Option.isSome_none,
        Bool.false_eq_true]
      exact ⟨m1, m2, by rw [hm2, hm1]⟩

/--
  **C16.list_empty_after_round.**  After any history in the domain, a triggering event on a live trackable
  `t` leaves `t` without any registration (`callback_list_ == nullptr`), and a second triggering event
  right after it delivers nothing (its trace is the empty bracket `trig t, done t`).
-/
theorem list_empty_after_round (h : History) (dom : h.Domain = true) (t : Nat) (o : Trackable)
    (ho : (run h).objs t = some o) :
    let s' := notifyCallbacks h.sc t (run h)
    s'.err = none ∧ s'.objs t = some ⟨none⟩ ∧ entriesOf s' t = [] ∧ present t s'.trace = [] ∧
      (notifyCallbacks h.sc t s').trace = s'.trace ++ [Ev.trig t, Ev.done t] := by
  have inv := run_inv dom
  have hsc := History.remOnly dom
  obtain ⟨h1, h2⟩ := notify_inv hsc t inv
  have h3 := h2 o ho
  refine ⟨h1.noerr, h3, by simp [entriesOf, h3], by rw [h1.pres t, h3]; rfl, ?_⟩
  generalize notifyCallbacks h.sc t (run h) = s' at h3
  simp [notifyCallbacks, h3]

/-- … in particular for the operations of the property: after `notify_callbacks()`, after being the target
    of an assignment from another trackable, after being moved from (`ok`: the names are live / free) -/
theorem list_empty_after_op (h : History) (dom : h.Domain = true) (op : Op) (hok : op.ok (run h) = true) :
    let s' := step h.sc op (run h)
    match op with
    | .notify t => s'.objs t = some ⟨none⟩
    | .assign dst src => dst ≠ src → s'.objs dst = some ⟨none⟩
    | .moveCtor src dst => s'.objs src = some ⟨none⟩ ∧ s'.objs dst = some ⟨none⟩
    | .moveAssign dst src => dst ≠ src → s'.objs dst = some ⟨none⟩ ∧ s'.objs src = some ⟨none⟩
    | .del t => s'.objs t = none
    | _ => True := by
  have inv := run_inv dom
  have hsc := History.remOnly dom
  simp only [step, inv.noerr, Option.isSome_none, Bool.false_eq_true, if_false, hok, if_true]
  cases op with
  | new t => trivial
  | copyCtor src dst => trivial
  | add t d k => trivial
  | rem t d => trivial
  | notify t =>
    simp only [Op.ok] at hok
    obtain ⟨o, ho⟩ := alive_iff.1 hok
    exact (notify_inv hsc t inv).2 o ho
  | del t =>
    have h1 := (notify_inv hsc t inv).1
    simp [exec, h1.noerr]
  | assign dst src =>
    simp only [Op.ok, Bool.and_eq_true] at hok
    obtain ⟨o, ho⟩ := alive_iff.1 hok.1
    intro e
    simp only [exec, e, ne_eq, not_false_eq_true, if_true]
    exact (notify_inv hsc dst inv).2 o ho
  | moveCtor src dst =>
    simp only [Op.ok, Bool.and_eq_true, Bool.not_eq_true'] at hok
    obtain ⟨o, ho⟩ := alive_iff.1 hok.1
    have hd : (run h).objs dst = none := by
      have := hok.2; simp [State.alive] at this; exact this
    have hne : src ≠ dst := by intro e; rw [e, hd] at ho; cases ho
    have inv' := fresh_obj_inv inv hd
    have ho' : ((run h).upd dst (some ⟨none⟩)).objs src = some o := by
      rw [upd_objs_other _ _ hne]; exact ho
    refine ⟨(notify_inv hsc src inv').2 o ho', ?_⟩
    simp only [exec]
    rw [(notify_shape hsc src inv' ho').2 dst (fun x => hne x.symm)]
    simp
  | moveAssign dst src =>
    simp only [Op.ok, Bool.and_eq_true] at hok
    obtain ⟨o, ho⟩ := alive_iff.1 hok.1
    obtain ⟨o2, ho2⟩ := alive_iff.1 hok.2
    intro e
    obtain ⟨h1, h1o⟩ := notify_inv hsc dst inv
    have hobj := (notify_shape hsc dst inv ho).2
    have ho2' : (notifyCallbacks h.sc dst (run h)).objs src = some o2 := by
      rw [hobj src (fun x => e x.symm)]; exact ho2
    simp only [exec, e, ne_eq, not_false_eq_true, if_true, h1.noerr, Option.isSome_none,
      Bool.false_eq_true, if_false]
    refine ⟨?_, (notify_inv hsc src h1).2 o2 ho2'⟩
    rw [(notify_shape hsc src h1 ho2').2 dst e]
    exact h1o o ho

example :
    let h : History := { scripts := [[.rem 5]], ops := [.new 0, .add 0 5 0, .add 0 6 0] }
    h.Domain = true ∧ (run h).objs 0 ≠ none ∧
      delivered (notifyCallbacks h.sc 0 (run h)).trace = [0, 1] ∧
      delivered (notifyCallbacks h.sc 0 (notifyCallbacks h.sc 0 (run h))).trace = [0, 1] := by decide

/-- C16's domain is contained in the wider domain `Domain2` -/
theorem Domain_sub_Domain2 (h : History) : h.Domain = true → h.Domain2 = true := by
  unfold History.Domain History.Domain2
  simp only [List.all_eq_true]
  intro hd b hb o ho
  have := hd b hb o ho
  cases o <;> simp_all [BodyOp.isRem, BodyOp.isNotify]

/-- **C16.add_in_round_safe.** Safety on the wider domain: callbacks that remove registrations and call
    add_destroy_notify_callback during a round (in any mix) never drive the callback list into an error
    state (no iterator invalidation, no double delete, iteration reaches end()). -/
theorem add_in_round_safe (h : History) (dom : h.Domain2 = true) : (run h).err = none :=
  (run_inv2 dom).noerr

/-- an `add` issued while the list of `t` is being delivered changes nothing of the list -/
theorem add_in_round_ignored (s : State) (t d k : Nat) (l : CbList) (hc : l.clearing = true)
    (ho : s.objs t = some ⟨some l⟩) : (addDestroyNotify t d k s).objs t = some ⟨some l⟩ := by
  simp [addDestroyNotify, ho, getList, CbList.addCallback, hc]

/-- non-vacuity: a callback that adds and removes during the round; the round runs to the end, both
    registrations are delivered, the in-round `add` leaves nothing behind -/
example :
    let h : History := ⟨[[.add 2 0, .rem 1]], [.new 0, .add 0 1 0, .add 0 1 0, .notify 0, .del 0]⟩
    h.Domain2 = true ∧ h.Domain = false ∧ (run h).err = none ∧ delivered (run h).trace = [0, 1] ∧
      added (run h).trace = [0, 1, 2, 3] := by decide

/-- **C16.add_in_round_once.** On the wider domain too, no registration is delivered twice: the
    registration ids of all `deliver` events of the run are pairwise distinct. -/
theorem add_in_round_once (h : History) (dom : h.Domain2 = true) : (delivered (run h).trace).Nodup :=
  (run_inv3 dom).dnodup

/-- **C16.exactly_once_wide.** The exactly-once statement on the wider domain (callbacks remove and add in any mix):
    with an in-round add counted as no registration, (1) no registration is delivered twice; (2) a delivery of r happens
    only during a triggering event on a trackable t on which r is (round-aware) present at that moment; (3) when a triggering
    event on t completes, every registration (round-aware) present on t has been delivered; (4) rounds are bracketed and none
    is open at the end. -/
theorem exactly_once_wide (h : History) (dom : h.Domain2 = true) :
    let tr := (run h).trace
    (delivered tr).Nodup ∧
    (∀ pre post r d k, tr = pre ++ Ev.deliver r d k :: post →
        r ∉ delivered pre ∧ ∃ t, inRound pre = some t ∧ (r, d) ∈ present2 t pre) ∧
    (∀ pre post t, tr = pre ++ Ev.done t :: post →
        inRound pre = some t ∧ ∀ x ∈ present2 t pre, x.1 ∈ delivered pre) ∧
    (∀ pre post t, tr = pre ++ Ev.trig t :: post → inRound pre = none) ∧
    inRound tr = none := by
  have inv := W.run_inv dom
  refine ⟨inv.valid.delivered_nodup, ?_, ?_, ?_, inv.idle⟩
  · intro pre post r d k e
    obtain ⟨_, t, h1, h2, h3⟩ := inv.valid.split pre _ post e
    exact ⟨h3, t, h1, h2⟩
  · intro pre post t e
    exact (inv.valid.split pre _ post e).2
  · intro pre post t e
    exact (inv.valid.split pre _ post e).2

/-- every `add` of the run, in a round or not, has its own registration id (wider domain) -/
theorem added_nodup_wide (h : History) (dom : h.Domain2 = true) : (added (run h).trace).Nodup :=
  (W.run_inv dom).valid.added_nodup

/-- non-vacuity: the first callback adds (data 2) and removes (data 5, the third registration) during the
    round: the in-round add (id 3) is no registration for `present2` (it is one for `present`), the removed one
    (id 2) is not delivered; a later add of data 2 (id 4) is delivered in the second round -/
example :
    let h : History := ⟨[[.add 2 0, .rem 5], []],
      [.new 0, .add 0 1 0, .add 0 1 1, .add 0 5 1, .notify 0, .add 0 2 1, .notify 0, .del 0]⟩
    h.Domain2 = true ∧ h.Domain = false ∧ delivered (run h).trace = [0, 1, 4] ∧
      added (run h).trace = [0, 1, 2, 3, 4] ∧
      (run h).trace.take 7 = [.add 0 0 1, .add 1 0 1, .add 2 0 5, .trig 0, .deliver 0 1 0, .add 3 0 2, .rem 0 5] ∧
      present2 0 ((run h).trace.take 7) = [(0, 1), (1, 1)] ∧
      present 0 ((run h).trace.take 7) = [(0, 1), (1, 1), (3, 2)] := by
  decide

/-- on C16's own domain (no in-round add) the round-aware `present2` is `present`, at every prefix of the trace -/
theorem present2_eq_present_of_domain (h : History) (dom : h.Domain = true) (t : Nat) (pre post : List Ev)
    (e : (run h).trace = pre ++ post) : present2 t pre = present t pre :=
  W.present2_eq_present_of_domain dom t pre post e

end Sigc.C16
