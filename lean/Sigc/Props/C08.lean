import Sigc.Model
import Sigc.Lemmas.Basic
/-!
# C08 — an exception thrown by a slot propagates and leaves the signal consistent
(first theorems: propagation; consistency after unwinding is part of the invariant proved in Sigc/Lemmas/Emit*.lean)
-/
namespace Sigc.C08
open Sigc.Model

/-- a functor body stops at the first operation that lets an exception escape: the rest is skipped -/
theorem runBody_stops_at_exc (f : Nat) (P : Prog) (s s' : St) (l : Line) (ls : List Line)
    (h : execLine f P s l = some (s', .exc)) :
    runBody (f+1) P s (l :: ls) = some (s', .exc) := by
  rw [runBody]
  simp [h]

theorem runBody_continues (f : Nat) (P : Prog) (s s' : St) (l : Line) (ls : List Line)
    (h : execLine f P s l = some (s', .ok)) :
    runBody (f+1) P s (l :: ls) = runBody f P s' ls := by
  rw [runBody]
  simp [h]

/-- `throw` lets an exception escape, in every state -/
theorem throw_raises (f : Nat) (P : Prog) (s : St) : execOp (f+1) P s .throw_ = some (s, .error ()) := by
  rw [execOp]

/-- the non-accumulating emitter stops at the throwing slot: no later cell is offered its turn
    (the result is produced without a recursive call of the loop) -/
theorem emitLoop_stops_at_exc (f : Nat) (P : Prog) (s s' : St) (i cur m arg r v : Nat) (im : Impl) (c : Cell) (fn : Fun)
    (hne : cur ≠ m) (hi : aget s.impls i = some im) (hc : im.cells.find? (·.id = cur) = some c)
    (hb : c.slot.blocked = false) (hrep : c.slot.rep = some { call := true, fn := some fn })
    (hx : invokeFun f P s fn arg = some (s', .exc, v)) :
    emitLoop (f+1) P s i cur m arg r = some (s', .exc, v) := by
  rw [emitLoop]
  simp only [hne, if_false, hi, hc, hrep, hb]
  simp [hx]

/-- an emit operation lets the exception escape unless it is a `tryemit` -/
theorem emit_propagates (f : Nat) (P : Prog) (s s' : St) (g arg : Nat) (st : Strat) (h : Handle) (v : Nat)
    (hg : aget s.G g = some h) (hd : ¬ s.depth ≥ P.maxdepth) (hs : ¬ s.steps > P.maxsteps)
    (hx : emitImpl f P s h.fl h.impl arg st = some (s', .exc, v)) :
    execOp (f+1) P s (.emit g arg st false) = some (s', .error ()) ∧
    execOp (f+1) P s (.emit g arg st true) = some (s', .ok "caught") := by
  constructor <;> (rw [execOp]; simp [hg, hd, hs, hx])

example : execOp 1 { bodies := [], top := [] } {} .throw_ = some ({}, .error ()) := throw_raises 0 _ _

end Sigc.C08
