import Sigc.Model
import Sigc.Lemmas.Basic
import Sigc.Lemmas.EmitTurns
/-!
# C08 — an exception thrown by a slot propagates and leaves the signal consistent
(propagation; consistency after unwinding: the invariant and the `Frame` relation of Sigc/Lemmas/Emit*.lean hold for
both outcomes — the epilogue of `emitImpl` is the same code on both paths)
-/
namespace Sigc.C08
open Sigc.Model

/-- a functor body stops at the first operation that lets an exception escape: the rest is skipped -/
theorem runBody_stops_at_exc (f : Nat) (P : Prog) (s s' : St) (l : Line) (ls : List Line)
    (h : execLine f P s l = some (s', .exc)) :
    runBody (f+1) P s (l :: ls) = some (s', .exc) := by
  rw [runBody]
  simp [h]

theorem runBody_continues (f : Nat) (P : Prog) (s s' : St) (l : Line) (ls : List Line)
    (h : execLine f P s l = some (s', .ok)) :
    runBody (f+1) P s (l :: ls) = runBody f P s' ls := by
  rw [runBody]
  simp [h]

/-- `throw` lets an exception escape, in every state -/
theorem throw_raises (f : Nat) (P : Prog) (s : St) : execOp (f+1) P s .throw_ = some (s, .error ()) := by
  rw [execOp]

/-- the non-accumulating emitter stops at the throwing slot: no later cell is offered its turn
    (the result is produced without a recursive call of the loop) -/
theorem emitLoop_stops_at_exc (f : Nat) (P : Prog) (s s' : St) (i cur m arg r v : Nat) (im : Impl) (c : Cell) (fn : Fun)
    (hne : cur ≠ m) (hi : aget s.impls i = some im) (hc : im.cells.find? (·.id = cur) = some c)
    (hb : c.slot.blocked = false) (hrep : c.slot.rep = some { call := true, fn := some fn })
    (hx : invokeFun f P s fn arg = some (s', .exc, v)) :
    emitLoop (f+1) P s i cur m arg r = some (s', .exc, v) := by
  rw [emitLoop]
  simp only [hne, if_false, hi, hc, hrep, hb]
  simp [hx]

/-- an emit operation lets the exception escape unless it is a `tryemit` -/
theorem emit_propagates (f : Nat) (P : Prog) (s s' : St) (g arg : Nat) (st : Strat) (h : Handle) (v : Nat)
    (hg : aget s.G g = some h) (hd : ¬ s.depth ≥ P.maxdepth) (hs : ¬ s.steps > P.maxsteps)
    (hx : emitImpl f P s h.fl h.impl arg st = some (s', .exc, v)) :
    execOp (f+1) P s (.emit g arg st false) = some (s', .error ()) ∧
    execOp (f+1) P s (.emit g arg st true) = some (s', .ok "caught") := by
  constructor <;> (rw [execOp]; simp [hg, hd, hs, hx])

example : execOp 1 { bodies := [], top := [] } {} .throw_ = some ({}, .error ()) := throw_raises 0 _ _


/-! ## consistency after an exception -/

open Sigc.Emit in
/-- **C08.consistent** — one lemma for both constructors of `Outcome`: an emission that ends normally
    *or by an exception* leaves a state satisfying the invariant (no error; `exec_count_ = #holders =
    #end markers` on every impl; `deferred_` exactly when a sweep is pending; every handle's impl exists)
    and is a `Frame` step: `exec_count_` of every impl is restored, an outer emission in progress keeps its
    cell range, slot variables in a call survive -/
theorem consistent (f : Nat) (P : Prog) (s : St) (hs : Inv s) (g : Nat) (h : Handle) (arg : Nat) (strat : Strat)
    (hg : aget s.G g = some h) (s' : St) (o : Outcome) (v : Nat)
    (he : emitImpl f P s h.fl h.impl arg strat = some (s', o, v)) :
    Inv s' ∧ Frame s s' ∧ s'.err = none ∧ ∀ i, execOf s' i = execOf s i := by
  have := (all_ok f).emit P s h.fl h.impl arg strat s' o v hs
    (fun i hi => hs.himpl (g, h) (aget_some_mem hg) i hi) he
  exact ⟨this.inv, this.frame, this.inv.noerr, this.frame.exec⟩

open Sigc.Emit in
/-- the same for a whole operation line and a functor body, whatever their outcome -/
theorem consistent_line (f : Nat) (P : Prog) (s : St) (hs : Inv s) (l : Line) (s' : St) (o : Outcome)
    (he : execLine f P s l = some (s', o)) : Inv s' ∧ Frame s s' :=
  let g := (all_ok f).line P s l s' o hs he
  ⟨g.inv, g.frame⟩

open Sigc.Emit in
theorem consistent_body (f : Nat) (P : Prog) (s : St) (hs : Inv s) (ls : List Line) (s' : St) (o : Outcome)
    (he : runBody f P s ls = some (s', o)) : Inv s' ∧ Frame s s' :=
  let g := (all_ok f).body P s ls s' o hs he
  ⟨g.inv, g.frame⟩

open Sigc.Emit in
/-- after a top-level operation that ended with an escaping exception (the driver catches it) every
    signal is quiescent and clean exactly as after a normal end: `exec_count_ = 0`, `deferred_ = false`,
    no holder, no end marker, every remaining cell still linked — in particular the slots disconnected
    during the aborted emission have been removed by the sweep -/
theorem consistent_quiescent (fuel : Nat) (P : Prog) (ls : List Line) (l : Line) (s s' : St)
    (h : runTop fuel P {} ls = some s) (hx : execLine fuel P s l = some (s', .exc))
    (i : Nat) (im : Impl) (hi : aget s'.impls i = some im) :
    im.exec = 0 ∧ im.deferred = false ∧ im.holders = 0 ∧
    ∀ c ∈ im.cells, c.slot.rep.isSome = true ∧ c.linked = true := by
  have g0 := runTop_good fuel P {} ls s Sigc.Emit.inv_init h
  have g1 := (all_ok fuel).line P s l s' .exc g0.inv hx
  have hxe : im.exec = 0 := by
    have := (g0.frame.trans g1.frame).exec i
    rw [execOf_pos hi] at this
    simpa [execOf, aget] using this
  have hok := g1.inv.ok i im hi
  have hd := hok.q1 hxe
  refine ⟨hxe, hd, by have := hok.eh; omega, ?_⟩
  intro c hc
  have hn := hok.no_markers hxe c hc
  refine ⟨?_, hok.d hd c hc hn⟩
  cases hr : c.slot.rep <;> simp_all

/-! ## propagation, continued -/

open Sigc.Emit in
/-- **C08.propagates** (emission level) — when an emission of a non-accumulating signal ends by an
    exception, the cells that were offered a turn are a non-empty prefix of the snapshot: the thrower
    is the last one, no later cell is invoked; outcome and value are those of the loop -/
theorem propagates (f : Nat) (P : Prog) (s : St) (fl : Flavour) (i arg : Nat) (strat : Strat) (im : Impl)
    (hs : Inv s) (hi : aget s.impls i = some im) (hacc : fl.isAcc = false)
    (s' : St) (v : Nat) (h : emitImpl (f+1) P s fl (some i) arg strat = some (s', .exc, v)) :
    ∃ s2 vis, emitLoopT f P (emitStart s i im) i (emitFirst s im) s.next arg 0 = some ((s2, .exc, v), vis) ∧
      vis ≠ [] ∧ vis <+: im.cells.map (·.id) := by
  rcases emitImpl_loop f P s fl i arg strat im hi hacc s' .exc v h with ⟨_, _, ho, _⟩ | ⟨s2, hl⟩
  · cases ho
  · rw [← emitLoopT_erase] at hl
    cases hT : emitLoopT f P (emitStart s i im) i (emitFirst s im) s.next arg 0 with
    | none => rw [hT] at hl; simp at hl
    | some p =>
      rw [hT] at hl
      obtain ⟨res, vis⟩ := p
      simp at hl; subst hl
      have := (emitLoopT_snapshot f P s i arg im hs hi (s2, .exc, v) vis hT).2 rfl
      exact ⟨s2, vis, rfl, this.1, this.2⟩

/-- `slot_iterator_buf::operator*` lets the exception of the invoked functor escape (and does not mark
    the position as invoked) -/
theorem deref_propagates (f : Nat) (P : Prog) (s s' : St) (i arg v : Nat) (it : IterBuf) (im : Impl) (c : Cell) (fn : Fun)
    (hi : aget s.impls i = some im) (hc : im.cells.find? (·.id = it.pos) = some c)
    (hb : c.slot.blocked = false) (hinv : it.invoked = false)
    (hrep : c.slot.rep = some { call := true, fn := some fn })
    (hx : invokeFun f P s fn arg = some (s', .exc, v)) :
    deref (f+1) P s i it arg = some (s', .exc, it) := by
  rw [deref]
  simp only [hi, hc, hrep, hb, hinv]
  simp [hx]

/-- the accumulating emitters stop at the first dereference that throws: no later position is visited -/
theorem accLoop_stops_at_exc (f : Nat) (P : Prog) (s s' : St) (i m arg mode k r : Nat) (it it' : IterBuf)
    (hne : it.pos ≠ m) (hmode : mode ≠ 3) (hx : deref f P s i it arg = some (s', .exc, it')) :
    accLoop (f+1) P s i it m arg mode k r = some (s', .exc, r) := by
  rw [accLoop]
  simp [hne, hmode, hx]

theorem revLoop_stops_at_exc (f : Nat) (P : Prog) (s s' : St) (i first arg r prv : Nat) (it it' : IterBuf) (im : Impl)
    (hne : it.pos ≠ first) (hi : aget s.impls i = some im) (hp : predId im.cells it.pos = some prv)
    (hx : deref f P s i { it with pos := prv, invoked := false } arg = some (s', .exc, it')) :
    revLoop (f+1) P s i it first arg r = some (s', .exc, r) := by
  rw [revLoop]
  simp [hne, hi, hp, hx]

/-- an operation line that lets an exception escape is logged as `=> exc` and propagates `.exc` -/
theorem execLine_propagates (f : Nat) (P : Prog) (s s1 : St) (l : Line)
    (hx : execOp f P { s with steps := s.steps + 1 } l.op = some (s1, .error ())) :
    execLine (f+1) P s l = some (collect (s1.log (.res s1.depth l.text "exc")), .exc) := by
  rw [execLine]
  simp [hx]


/-! ## a concrete instance

Two slots on a void signal; the first one disconnects the second and then throws.  The exception escapes
the top-level `emit`; afterwards the list holds exactly the one still-connected slot, `exec_count_ = 0`,
`deferred_ = false`, and the second slot was not invoked (only one `call` event). -/

def demo : Prog := {
  bodies := [(1, [⟨"disc c2", .disc 2⟩, ⟨"throw", .throw_⟩])],
  top := [⟨"newG g0 V", .newG 0 (some .V)⟩, ⟨"connfn c1 g0 fn:1", .connfn 1 0 (.fn 1) false⟩,
          ⟨"connfn c2 g0 fn:2", .connfn 2 0 (.fn 2) false⟩, ⟨"emit g0 3", .emit 0 3 .sum false⟩] }

example : (runTop 20 demo {} demo.top).map (fun s =>
      (s.impls.map (fun p => (p.2.cells.length, p.2.exec, p.2.deferred, p.2.holders)), s.err,
       (s.trace.filter (fun e => match e with | .call _ _ _ => true | _ => false)).length))
    = some ([(1, 0, false, 0)], none, 1) := by decide +kernel

open Sigc.Emit in
example (s : St) (h : runTop 20 demo {} demo.top = some s) : Inv s :=
  (runTop_good 20 demo {} demo.top s Sigc.Emit.inv_init h).inv

end Sigc.C08
