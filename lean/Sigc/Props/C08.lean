import Sigc.Model
import Sigc.Spec
/-! property theorems for C08 (being written) -/
namespace Sigc.C08
end Sigc.C08
