import Sigc.AdaptLemmas
/-!
  C11 — references stay references and values stay intact along the call path.

  Model (`Sigc/Adapt.lean`, part 4): an argument is `(object identity, value category, designated object)`; every hop of
  every call operator (`adaptor_functor`, `bind`, `hide`, `retype`, `retype_return`, `bind_return`, `compose`,
  `exception_catch`, `track_obj`, `slot::operator()`, `slot_call::call_it`, the emit loops) either hands on the very
  object or constructs a new one, according to the *declared parameter kind of that operator in the current code*,
  which is the explicit table `paramKind`.  The theorems are proved for the table as it is (all `forwardingRef`);
  `f5_witness` shows that they fail for the table of the unrepaired code.  How a call operator passes its named
  parameters on is the second explicit table `passKind`: `std::forward` everywhere except `compose2_functor`, which
  hands the *named* parameters (lvalues) to both getters; `compose2_getters_intact` is proved for that row and
  `compose2_forward_witness` shows that it fails when the row says `forward`.

  Known limit (finding F8, `rref_witness`): a `T&&` signal parameter that passes `bind`/`hide` below a forwarding
  adaptor is move-constructed into a `std::tuple<T>`; for `T&&` the identity theorem is proved for chains of
  forwarding call operators only (`rref_forwarders`).

  Unbound member functors (`OExpr.mleaf`, `sigc::mem_fun(&Base::m)` called as `f(obj, args…)`): how
  `mem_functor::operator()` takes the object is two more rows of `paramKind` — one per static type of the object argument
  (`Base` itself / a class derived from it), because that is what overload resolution looks at.  Both say "by reference" in
  the current code, so every identity theorem above covers member-functor targets; `mem_functor_object_identity` states it
  for the call itself and `mem_functor_byvalue_witness` shows that a by-value row for derived static types breaks it.
-/
namespace Sigc.C11
open Sigc.Adapt

theorem paramKind_forwarding : ∀ k, paramKind k = .forwardingRef := by
  intro k; cases k <;> rfl

/-- a concrete heap for the examples: emitter objects 0 and 1, a bound object 100 -/
def h0 : Heap :=
  { next := 1000, val := fun x => if x = 0 then 7 else if x = 1 then 5 else if x = 100 then 40 else 0,
    copies := fun _ => 0, moves := fun _ => 0, hops := fun _ => 0, log := [] }

theorem logOK_iff (h : Heap) :
    logOK h = true ↔ ∀ r ∈ h.log, ∀ p ∈ r.params, ∀ o, p.origin = some o → p.src = o := by
  simp only [logOK, List.all_eq_true, Rec.ok, Param.ok]
  constructor
  · intro hh r hr p hp o ho
    have := hh r hr p hp
    simpa [ho] using this
  · intro hh r hr p hp
    cases ho : p.origin with
    | none => rfl
    | some o => simpa using hh r hr p hp o ho

theorem emitterArg_inv (n0 : Nat) (k : PK) (o : Nat) (hk : k ≠ .rref) : ArgInv n0 (emitterArg k o) :=
  takeParam_inv k _ hk ⟨Or.inl rfl, fun o' ho' => by simpa using ho'⟩

theorem emitter_args_inv (n0 : Nat) (sig : List PK) (objs : List Nat) (hsig : sig.contains .rref = false) :
    ∀ a ∈ List.zipWith emitterArg sig objs, ArgInv n0 a := by
  intro a ha
  obtain ⟨k, hk, o, _, rfl⟩ := mem_zipWith ha
  apply emitterArg_inv
  intro e
  subst e
  simp [hk] at hsig

theorem emit_inv (sig : List PK) (objs : List Nat) (slots : List OSlot) (h : Heap)
    (hsig : sig.contains .rref = false) (hslots : ∀ s ∈ slots, s.f.noRRef = true) (hlog : logOK h = true) :
    HeapInv h.next h.hops (emitVoidO paramKind passKind sig objs slots h).1
      ∧ HeapInv h.next h.hops (emitValueO paramKind passKind sig objs slots h).1 := by
  have hi : HeapInv h.next h.hops h := ⟨Nat.le_refl _, fun _ _ => rfl, hlog⟩
  have hargs := emitter_args_inv h.next sig objs hsig
  constructor
  · exact emitVoid_inv (HeapInv h.next h.hops) _ _ slots
      (fun s hs h' hi' => callO_inv paramKind paramKind_forwarding passKind s.f true _ h' (hslots s hs) hi' hargs) h hi
  · simp only [emitValueO]
    rw [emitValue_eq_loop]
    refine emitLoop_inv (HeapInv h.next h.hops) _ _ slots
      (fun s hs h' hi' => callO_inv paramKind paramKind_forwarding passKind s.f true _ h' (hslots s hs) hi' ?_) h _ hi
    intro a ha
    obtain ⟨a', ha', rfl⟩ := List.mem_map.mp ha
    exact named_inv a' (hargs a' ha')

/-- **Identity.**  For every signature whose positions are declared `T`, `T&` or `const T&`, every list of slots, every
    adaptor expression in every slot (any nesting depth): each parameter of each invoked target that is designated to be
    the emitter's object `o` (or the `std::ref`-bound object `o`) is fed from the very object `o` — so what slot `i`
    writes through a reference, slot `j > i` and the emitter read.  Both emit loops. -/
theorem ref_identity (sig : List PK) (objs : List Nat) (slots : List OSlot) (h : Heap)
    (hsig : sig.contains .rref = false) (hslots : ∀ s ∈ slots, s.f.noRRef = true) (hlog : logOK h = true) :
    (∀ r ∈ (emitVoidO paramKind passKind sig objs slots h).1.log, ∀ p ∈ r.params, ∀ o, p.origin = some o → p.src = o)
    ∧ (∀ r ∈ (emitValueO paramKind passKind sig objs slots h).1.log, ∀ p ∈ r.params, ∀ o, p.origin = some o → p.src = o) := by
  have := emit_inv sig objs slots h hsig hslots hlog
  exact ⟨(logOK_iff _).mp this.1.log_ok, (logOK_iff _).mp this.2.log_ok⟩

-- non-vacuity: hide(hide_return(g)) and bind(f, std::ref(b)) on signal<void(Obj&, Obj)>; the second slot and the
-- emitter see what the first wrote (7 -> 107 -> 307), the bound object is written through the reference
example :
    let slots : List OSlot :=
      [⟨false, false, .un (.hide none) (.un .hideReturn (.leaf 0 true [.lref] true))⟩,
       ⟨false, false, .un (.bind none [.byRef 100]) (.leaf 1 false [.lref, .cref, .lref] false)⟩]
    let h := (emitVoidO paramKind passKind [.lref, .val] [0, 1] slots h0).1
    ([PK.lref, PK.val].contains .rref = false) ∧ (slots.all (fun s => s.f.noRRef)) = true ∧ logOK h0 = true
    ∧ h.log = [⟨0, [⟨some 0, 0, 7⟩]⟩, ⟨1, [⟨some 0, 0, 107⟩, ⟨some 1, 1, 5⟩, ⟨some 100, 100, 40⟩]⟩]
    ∧ h.val 0 = 307 ∧ h.val 1 = 5 ∧ h.val 100 = 242 := by decide

/-- **Bound references.**  Under the same hypotheses no object that exists before the emission — in particular no
    object bound with `std::ref` / `std::cref`, and none of the emitter's — is ever copied or moved by a library call
    operator (`hops` counts the constructions made inside the library; only declared by-value parameters copy), and
    `bound_argument<reference_wrapper<T>>::invoke()` designates and yields the bound object itself. -/
theorem bound_ref_identity (sig : List PK) (objs : List Nat) (slots : List OSlot) (h : Heap)
    (hsig : sig.contains .rref = false) (hslots : ∀ s ∈ slots, s.f.noRRef = true) (hlog : logOK h = true) :
    (∀ o, o < h.next → (emitVoidO paramKind passKind sig objs slots h).1.hops o = h.hops o
                     ∧ (emitValueO paramKind passKind sig objs slots h).1.hops o = h.hops o)
    ∧ (∀ o, (Bound.byRef o).invoke = ⟨o, .lv, some o⟩ ∧ (Bound.byCRef o).invoke = ⟨o, .clv, some o⟩) := by
  have := emit_inv sig objs slots h hsig hslots hlog
  exact ⟨fun o ho => ⟨this.1.hops_eq o ho, this.2.hops_eq o ho⟩, fun o => ⟨rfl, rfl⟩⟩

example :
    let slots : List OSlot :=
      [⟨false, false, .un (.bind (some 0) [.byRef 100, .byCRef 101, .byVal 200]) (.leaf 0 false [.lref, .cref, .val, .lref] true)⟩]
    let h := (emitValueO paramKind passKind [.lref] [0] slots h0).1
    h.log = [⟨0, [⟨some 100, 100, 40⟩, ⟨some 101, 101, 0⟩, ⟨some 200, 200, 0⟩, ⟨some 0, 0, 7⟩]⟩]
    ∧ h.copies 100 = 0 ∧ h.hops 100 = 0 ∧ h.copies 200 = 1 ∧ h.hops 200 = 0 := by decide

theorem emitterArg_frame (sig : List PK) (objs : List Nat) (o : Nat)
    (hconst : ∀ a ∈ List.zipWith emitterArg sig objs, a.cat ≠ .clv → a.obj ≠ o) :
    ∀ a ∈ List.zipWith emitterArg sig objs, NoW o a := hconst

/-- **Values stay intact.**  An object `o` that the emitter passes only at positions declared by value or `const&`
    (and that no slot holds through `std::ref` or as its own bound copy) has the same value after the emission as
    before — for every list of slots, hence at every slot boundary: whatever earlier slots did, every later slot is
    handed the emitted value (targets see `const T&` to `o`, or their own copy). -/
theorem value_intact (sig : List PK) (objs : List Nat) (slots : List OSlot) (h : Heap) (o : Nat) (ho : o < h.next)
    (hconst : ∀ a ∈ List.zipWith emitterArg sig objs, a.cat ≠ .clv → a.obj ≠ o)
    (hb : ∀ s ∈ slots, o ∉ s.f.boundMut) :
    (emitVoidO paramKind passKind sig objs slots h).1.val o = h.val o
    ∧ (emitValueO paramKind passKind sig objs slots h).1.val o = h.val o := by
  have hf : Frame o (h.val o) h := ⟨ho, rfl⟩
  constructor
  · exact (emitVoid_inv (Frame o (h.val o)) _ _ slots
      (fun s hs h' hf' => callO_frame paramKind paramKind_forwarding passKind s.f true _ h' (hb s hs) hf' hconst) h hf).val
  · simp only [emitValueO]
    rw [emitValue_eq_loop]
    refine (emitLoop_inv (Frame o (h.val o)) _ _ slots
      (fun s hs h' hf' => callO_frame paramKind paramKind_forwarding passKind s.f true _ h' (hb s hs) hf' ?_) h _ hf).val
    intro a ha
    obtain ⟨a', ha', rfl⟩ := List.mem_map.mp ha
    exact named_frame a' (hconst a' ha')

-- non-vacuity: signal<void(Obj)>; the first target mutates its by-value parameter, the second and third and the
-- emitter still see 7
example :
    let slots : List OSlot :=
      [⟨false, false, .leaf 0 false [.val] false⟩, ⟨false, false, .un .hideReturn (.leaf 1 true [.val] true)⟩,
       ⟨false, false, .leaf 2 true [.cref] false⟩]
    let h := (emitVoidO paramKind passKind [.val] [0] slots h0).1
    (∀ a ∈ List.zipWith emitterArg [PK.val] [0], a.cat ≠ .clv → a.obj ≠ 0)
    ∧ h.log = [⟨0, [⟨some 0, 0, 7⟩]⟩, ⟨1, [⟨some 0, 0, 7⟩]⟩, ⟨2, [⟨some 0, 0, 7⟩]⟩] ∧ h.val 0 = 7
    ∧ h.val 1000 = 107 := by decide

/-- **Results.**  With at least one callable slot the value emission returns exactly what the last callable slot
    returned (never `T_return()`, never an earlier slot's value). -/
theorem result_not_defaulted (sig : List PK) (objs : List Nat) (pre : List OSlot) (last : OSlot) (post : List OSlot)
    (h h' : Heap) (r' : Option Int) (hl : last.callable = true) (hpost : ∀ s ∈ post, s.callable = false)
    (hpre : emitValueO paramKind passKind sig objs pre h = (h', .ok r')) :
    emitValueO paramKind passKind sig objs (pre ++ last :: post) h
      = callO paramKind passKind last.f true ((List.zipWith emitterArg sig objs).map (fun a => { a with cat := a.cat.named })) h' :=
  emitValue_last OSlot.callable _ (some 0) pre last post h h' r' hl hpost hpre

example :
    let s1 : OSlot := ⟨false, false, .leaf 0 true [.cref] true⟩
    let s2 : OSlot := ⟨false, false, .un (.bindReturn 55) (.leaf 1 true [.cref] false)⟩
    let s3 : OSlot := ⟨false, true, .leaf 2 true [.cref] true⟩
    (emitValueO paramKind passKind [.cref] [0] [s1, s2, s3] h0).2 = .ok (some 55)
    ∧ (emitValueO paramKind passKind [.cref] [0] [s1] h0).2 = .ok (some 1007)
    ∧ (emitValueO paramKind passKind [.cref] [0] [s3] h0).2 = .ok (some 0) := by decide

/-- the parameter kinds of the unrepaired code: `retype_return_functor<void>::operator()(T_arg... a)` -/
def tableF5 : AdaptorKind → ParamKind
  | .retypeReturnVoid => .byValue
  | _ => .forwardingRef

/-- **F5 witness.**  With a by-value entry in the table the identity theorem is false:
    `signal<void(Obj&, Obj)>`, `hide(hide_return(g))` — `g` receives a copy (object 1000) of the emitter's object 0 and
    the emitter's object keeps its value. -/
theorem f5_witness :
    let slots : List OSlot := [⟨false, false, .un (.hide none) (.un .hideReturn (.leaf 0 true [.lref] true))⟩]
    let h := (emitVoidO tableF5 passKind [.lref, .val] [0, 1] slots h0).1
    h.log = [⟨0, [⟨some 0, 1000, 7⟩]⟩] ∧ logOK h = false ∧ h.val 0 = 7 ∧ h.hops 0 = 1
    ∧ logOK (emitVoidO paramKind passKind [.lref, .val] [0, 1] slots h0).1 = true := by decide

/-- **F8 witness (known finding).**  For a `T&&` parameter the identity statement is false of the current code:
    `signal<void(Obj&&, Obj)>` with `hide_return(hide(f))` connected twice — inside `hide`, `T_arg` is deduced as `Obj`,
    `std::tuple<Obj>` move-constructs from the emitter's object: the targets receive copies and the second slot sees
    the moved-from value. -/
theorem rref_witness :
    let f : OExpr := .un .hideReturn (.un (.hide none) (.leaf 0 true [.cref] true))
    let h := (emitVoidO paramKind passKind [.rref, .val] [0, 1] [⟨false, false, f⟩, ⟨false, false, f⟩] h0).1
    h.log = [⟨0, [⟨some 0, 1000, 7⟩]⟩, ⟨0, [⟨some 0, 1001, movedMark⟩]⟩] ∧ logOK h = false
    ∧ h.val 0 = movedMark ∧ h.moves 0 = 2 ∧ h.hops 0 = 2 := by decide

/-- the `passKind` table of the current code: only `compose2_functor` passes the named parameters -/
theorem passKind_rows : passKind .compose2 = .named ∧ ∀ k, k ≠ .compose2 → passKind k = .forward := by
  refine ⟨rfl, ?_⟩
  intro k hk
  cases k <;> first | rfl | exact absurd rfl hk

/-- **Both getters of `compose(s, g1, g2)` see the emitted arguments.**  For arguments of every category — rvalues
    (`std::move(x)`, temporaries, `T&&` signal parameters) included — and getters (functor expressions of any depth)
    whose targets take their parameters by value or `const&`: both getters are called with lvalues, and every object
    that existed before the call has its value and has not been moved from — before `g1`, between the two getters
    (so in whichever order they are evaluated), and after the call. -/
theorem compose2_getters_intact (sid : Nat) (g1 g2 : OExpr) (ex : Bool) (args : List ARef) (h : Heap)
    (hn : g1.noRRef = true ∧ g2.noRRef = true) (hr : g1.readOnly = true ∧ g2.readOnly = true) :
    let r := thread (enterArg (paramKind .compose2) ex) h args
    let as2 := r.2.map (passOn (passKind .compose2))
    let h1 := (callO paramKind passKind g1 false as2 r.1).1
    let h2 := (callO paramKind passKind g2 false as2 h1).1
    let h' := (callO paramKind passKind (.compose2 sid g1 g2) ex args h).1
    (∀ a ∈ as2, a.cat.stable = true)
    ∧ ∀ o, o < h.next →
        (r.1.val o = h.val o ∧ r.1.moves o = h.moves o) ∧ (h1.val o = h.val o ∧ h1.moves o = h.moves o)
        ∧ (h2.val o = h.val o ∧ h2.moves o = h.moves o) ∧ (h'.val o = h.val o ∧ h'.moves o = h.moves o) := by
  intro r as2 h1 h2 h'
  have hstable : ∀ a ∈ as2, a.cat.stable = true := by
    intro a ha
    obtain ⟨a', _, rfl⟩ := List.mem_map.mp ha
    show (passOn .named a').cat.stable = true
    simp only [passOn]
    cases a'.cat <;> rfl
  have hsafe : ∀ a ∈ as2, Safe h.next a := fun a ha => Or.inl (hstable a ha)
  have k0 : Keep h.next h.val h.moves h := ⟨Nat.le_refl _, fun _ _ => rfl, fun _ _ => rfl⟩
  have kr : Keep h.next h.val h.moves r.1 := thread_enter_any_keep ex h args k0
  have k1 : Keep h.next h.val h.moves h1 :=
    callO_keep paramKind paramKind_forwarding passKind g1 false as2 r.1 hn.1 hr.1 kr hsafe
  have k2 : Keep h.next h.val h.moves h2 :=
    callO_keep paramKind paramKind_forwarding passKind g2 false as2 h1 hn.2 hr.2 k1 hsafe
  have k' : Keep h.next h.val h.moves h' := by
    show Keep h.next h.val h.moves (callO paramKind passKind (.compose2 sid g1 g2) ex args h).1
    simp only [callO]
    split
    · exact k1
    · exact k2
  exact ⟨hstable, fun o ho => ⟨⟨kr.val_eq o ho, kr.moves_eq o ho⟩, ⟨k1.val_eq o ho, k1.moves_eq o ho⟩,
    ⟨k2.val_eq o ho, k2.moves_eq o ho⟩, ⟨k'.val_eq o ho, k'.moves_eq o ho⟩⟩⟩

-- non-vacuity: signal<void(Obj&&)>, hide_return(compose(&set2, g1, g2)), both getters take Obj by value: each gets its
-- own copy of the emitter's object (7), the emitter's object is copied twice and never moved
example :
    let e : OExpr := .compose2 0 (.leaf 0 false [.val] true) (.leaf 1 false [.val] true)
    let h := (emitVoidO paramKind passKind [.rref] [0] [⟨false, false, .un .hideReturn e⟩] h0).1
    e.noRRef = true ∧ e.readOnly = true
    ∧ h.log = [⟨0, [⟨some 0, 0, 7⟩]⟩, ⟨1, [⟨some 0, 0, 7⟩]⟩] ∧ h.val 0 = 7 ∧ h.moves 0 = 0 ∧ h.copies 0 = 2 := by decide

/-- the passing-on table of a code in which `compose2_functor` forwards its arguments to both getters -/
def tableForward : AdaptorKind → PassKind := fun _ => .forward

/-- **Forwarding witness.**  With `forward` in the `compose2` row the statement is false: on `signal<void(Obj&&)>`
    with `hide_return(compose(&set2, g1, g2))` and by-value getters, the getter evaluated first moves from the emitter's
    object and the other one sees the moved-from value (here: `g1` first; the real evaluation order is unspecified). -/
theorem compose2_forward_witness :
    let e : OExpr := .compose2 0 (.leaf 0 false [.val] true) (.leaf 1 false [.val] true)
    let h := (emitVoidO paramKind tableForward [.rref] [0] [⟨false, false, .un .hideReturn e⟩] h0).1
    h.log = [⟨0, [⟨some 0, 0, 7⟩]⟩, ⟨1, [⟨some 0, 0, movedMark⟩]⟩] ∧ h.val 0 = movedMark ∧ h.moves 0 = 2 := by decide

theorem emitterArg_obj (k : PK) (o : Nat) : ObjInv (emitterArg k o) := by
  unfold ObjInv
  intro o' ho'
  cases k <;> simp_all [emitterArg, takeParam]

/-- **`T&&` through forwarding call operators** (`retype_return`, `hide_return`, `bind_return`, `compose`,
    `exception_catch`, `track_obj`, and plain targets): for every signature — `T&&` positions included — every target
    parameter designated `o` is fed from `o`, and no pre-existing object is copied or moved inside the library. -/
theorem rref_forwarders (sig : List PK) (objs : List Nat) (slots : List OSlot) (h : Heap)
    (hslots : ∀ s ∈ slots, s.f.fwdOnly = true) (hlog : logOK h = true) :
    (∀ r ∈ (emitVoidO paramKind passKind sig objs slots h).1.log, ∀ p ∈ r.params, ∀ o, p.origin = some o → p.src = o)
    ∧ (∀ o, o < h.next → (emitVoidO paramKind passKind sig objs slots h).1.hops o = h.hops o) := by
  have hi : HeapInv h.next h.hops h := ⟨Nat.le_refl _, fun _ _ => rfl, hlog⟩
  have hargs : ∀ a ∈ List.zipWith emitterArg sig objs, ObjInv a := by
    intro a ha
    obtain ⟨k, _, o, _, rfl⟩ := mem_zipWith ha
    exact emitterArg_obj k o
  have : HeapInv h.next h.hops (emitVoidO paramKind passKind sig objs slots h).1 :=
    emitVoid_inv (HeapInv h.next h.hops) _ _ slots
      (fun s hs h' hi' => callO_fwd_inv paramKind paramKind_forwarding passKind s.f true _ h' (hslots s hs) hi' hargs) h hi
  exact ⟨(logOK_iff _).mp this.log_ok, this.hops_eq⟩

example :
    let slots : List OSlot :=
      [⟨false, false, .un .hideReturn (.leaf 0 true [.rref] true)⟩, ⟨false, false, .un .trackObj (.leaf 1 false [.cref] false)⟩]
    let h := (emitVoidO paramKind passKind [.rref] [0] slots h0).1
    (slots.all (fun s => s.f.fwdOnly)) = true
    ∧ h.log = [⟨0, [⟨some 0, 0, 7⟩]⟩, ⟨1, [⟨some 0, 0, 107⟩]⟩] ∧ h.moves 0 = 0 := by decide

/-- **A reference handed out as a result stays that reference.**  `bind_return(f, std::ref(x))` / `std::cref(x)`
    returns the reference to `x` itself — no copy of `x` — when called without arguments (the separate nullary overload
    `operator()()`), with arguments, below `hide` / `bind` / `retype` / `track_object`, and as the getter of `compose`
    (the setter receives `x`'s value).  Stated on the value/result model of the Adapt component. -/
theorem bound_result_reference (f : FExpr) (c : Bool) (t : Ty) (cell : Nat) (n : Int) :
    let br := FExpr.un (.bindReturn (.ref c t cell n)) f
    (∀ args v, (callImpl f args).res = .ok v → (callImpl br args).res = .ok (.ref c t cell n))
    ∧ (∀ v, (callImpl f []).res = .ok v → (callImpl br []).res = .ok (.ref c t cell n))
    ∧ (∀ nd : Node, nd.forwards = true → ∀ args v, (callImpl f (argsImpl nd args)).res = .ok v →
        (callImpl (.un nd br) args).res = .ok (.ref c t cell n))
    ∧ (∀ s args v, (callImpl f args).res = .ok v →
        (callImpl (.compose1 s br) args).res = (callImpl s [.ref c t cell n]).res) :=
  bindReturn_ref_result f c t cell n

example :
    let br := FExpr.un (.bindReturn (.ref true .long 100 7)) (.leaf 0 [] none none)
    (callImpl br []).res = .ok (.ref true .long 100 7)
    ∧ (callImpl (.un (.hide none) br) [.num .int 42]).res = .ok (.ref true .long 100 7) := by decide

/-- **A getter's reference result reaches the setter as that reference.**  `compose(s, g)` / `compose(s, g1, g2)` call
    the setter with the getters' results themselves (no intermediate by-value local): a setter parameter declared by
    reference is the object the getter returned. -/
theorem getter_result_reaches_setter (s g g1 g2 : FExpr) (args : List Val) :
    callImpl (.compose1 s g) args = (callImpl g args).andThen (fun v => callImpl s [v])
    ∧ callImpl (.compose2 s g1 g2) args
        = (callImpl g1 args).andThen (fun v1 => (callImpl g2 args).andThen (fun v2 => callImpl s [v1, v2])) :=
  ⟨callImpl_compose1 s g args, callImpl_compose2 s g1 g2 args⟩

example :
    (callImpl (.compose2 (.pleaf 2 [.long, .long] none none) (.rleaf 0 [.int] false .long none)
        (.un (.bindReturn (.ref true .long 100 7)) (.leaf 1 [.int] none none))) [.num .int 3]).log
      = [⟨0, [.num .int 3]⟩, ⟨1, [.num .int 3]⟩, ⟨2, [.ref true .long 0 3, .ref true .long 100 7]⟩] := by decide

/-- **The object of an unbound member functor.**  `sigc::mem_fun(&Base::m)` called as `f(obj, args…)` — directly or
    with explicit template arguments from `slot_call::call_it`, whatever the static type of the object argument (`Base`,
    a class derived from `Base`; `const` for a const method): `mem_functor::operator()` takes the object by reference
    (rows `memFunctorExact` / `memFunctorDerived` of `paramKind`), so `this` of the method is the passed object itself
    (every recorded parameter designated `o` — `this` is parameter 0 — is fed from `o`) and no object that existed
    before the call is copied or moved inside the library (zero copies).  The slot / signal routes and every adaptor
    chain above the member functor (`bind<0>(…, std::ref(obj))` included) are instances of `ref_identity` /
    `bound_ref_identity`, whose `OExpr` ranges over `mleaf` targets too. -/
theorem mem_functor_object_identity (id : Nat) (der cm : Bool) (pks : List PK) (retv ex : Bool) (args : List ARef)
    (h : Heap) (hlog : logOK h = true) (ha : ∀ a ∈ args, ArgInv h.next a) :
    let h' := (callO paramKind passKind (.mleaf id der cm pks retv) ex args h).1
    (∀ r ∈ h'.log, ∀ p ∈ r.params, ∀ o, p.origin = some o → p.src = o)
    ∧ (∀ o, o < h.next → h'.hops o = h.hops o) := by
  intro h'
  have hi : HeapInv h.next h.hops h := ⟨Nat.le_refl _, fun _ _ => rfl, hlog⟩
  have := callO_inv paramKind paramKind_forwarding passKind (.mleaf id der cm pks retv) ex args h rfl hi ha
  exact ⟨(logOK_iff _).mp this.log_ok, this.hops_eq⟩

-- the hypotheses are satisfiable: the caller's own objects passed as lvalues
example : ∀ a ∈ [(⟨0, .lv, some 0⟩ : ARef), ⟨1, .clv, some 1⟩], ArgInv h0.next a := by
  intro a ha
  simp only [List.mem_cons, List.mem_nil_iff, or_false] at ha
  rcases ha with rfl | rfl <;> exact ⟨Or.inl rfl, fun o ho => by simpa using ho⟩

-- mem_fun(&Base::add) with a Derived object: called directly with (d, x) — `this` is d (object 0), d is modified, not
-- copied; connected to signal<void(Derived&, Obj)> twice: the second call and the emitter see the first one's
-- modification; bind<0>(mem_fun(&Base::add), std::ref(b)): runs on b (object 100) itself; const Derived / const method
example :
    let m : OExpr := .mleaf 0 true false [.val] false
    let hd := (callO paramKind passKind m false [⟨0, .lv, some 0⟩, ⟨1, .lv, some 1⟩] h0).1
    let hs := (emitVoidO paramKind passKind [.lref, .val] [0, 1] [⟨false, false, m⟩, ⟨false, false, m⟩] h0).1
    let hb := (emitVoidO paramKind passKind [.val] [1] [⟨false, false, .un (.bind (some 0) [.byRef 100]) m⟩] h0).1
    let hc := (emitValueO paramKind passKind [.cref] [0] [⟨false, false, .mleaf 2 true true [] true⟩] h0)
    logOK h0 = true
    ∧ hd.log = [⟨0, [⟨some 0, 0, 7⟩, ⟨some 1, 1, 5⟩]⟩] ∧ hd.val 0 = 107 ∧ hd.copies 0 = 0 ∧ hd.copies 1 = 1
    ∧ hs.log = [⟨0, [⟨some 0, 0, 7⟩, ⟨some 1, 1, 5⟩]⟩, ⟨0, [⟨some 0, 0, 107⟩, ⟨some 1, 1, 5⟩]⟩] ∧ hs.val 0 = 207
    ∧ hs.copies 0 = 0 ∧ hs.hops 0 = 0
    ∧ hb.log = [⟨0, [⟨some 100, 100, 40⟩, ⟨some 1, 1, 5⟩]⟩] ∧ hb.val 100 = 140 ∧ hb.copies 100 = 0
    ∧ hc.1.log = [⟨2, [⟨some 0, 0, 7⟩]⟩] ∧ hc.2 = .ok (some 3007) ∧ hc.1.val 0 = 7 ∧ hc.1.copies 0 = 0 := by
  decide

/-- the parameter kinds of a code in which `mem_functor` has a second, templated call operator
    `operator()(T_obj_ptr obj, …)` taking the object *by value*: overload resolution prefers it (exact match) over the
    `obj_type_with_modifier&` overload (derived-to-base conversion) exactly when the argument's static type is a class
    derived from the method's class -/
def tableMemByValue : AdaptorKind → ParamKind
  | .memFunctorDerived => .byValue
  | k => paramKind k

/-- **By-value witness.**  With `byValue` in the `memFunctorDerived` row `mem_functor_object_identity` is false:
    `signal<void(Derived&, Obj)>` connected to `mem_fun(&Base::add)` twice — the method runs on a copy (objects 1000,
    1002) of the emitter's object 0, which is copied inside the library on every call and keeps its value, so neither
    the second slot nor the emitter sees the modification; likewise for an object bound with `std::ref`.  An object of
    the exact class is not affected, which is why only derived static types expose it. -/
theorem mem_functor_byvalue_witness :
    let m (der : Bool) : OExpr := .mleaf 0 der false [.val] false
    let hs := (emitVoidO tableMemByValue passKind [.lref, .val] [0, 1] [⟨false, false, m true⟩, ⟨false, false, m true⟩] h0).1
    let hb := (emitVoidO tableMemByValue passKind [.val] [1] [⟨false, false, .un (.bind (some 0) [.byRef 100]) (m true)⟩] h0).1
    let he := (emitVoidO tableMemByValue passKind [.lref, .val] [0, 1] [⟨false, false, m false⟩] h0).1
    hs.log = [⟨0, [⟨some 0, 1000, 7⟩, ⟨some 1, 1, 5⟩]⟩, ⟨0, [⟨some 0, 1002, 7⟩, ⟨some 1, 1, 5⟩]⟩] ∧ logOK hs = false
    ∧ hs.val 0 = 7 ∧ hs.copies 0 = 2 ∧ hs.hops 0 = 2
    ∧ hb.log = [⟨0, [⟨some 100, 1000, 40⟩, ⟨some 1, 1, 5⟩]⟩] ∧ logOK hb = false ∧ hb.val 100 = 40 ∧ hb.hops 100 = 1
    ∧ he.log = [⟨0, [⟨some 0, 0, 7⟩, ⟨some 1, 1, 5⟩]⟩] ∧ logOK he = true ∧ he.val 0 = 107 ∧ he.hops 0 = 0
    ∧ logOK (emitVoidO paramKind passKind [.lref, .val] [0, 1] [⟨false, false, m true⟩, ⟨false, false, m true⟩] h0).1 = true := by
  decide

end Sigc.C11
