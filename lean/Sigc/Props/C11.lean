import Sigc.Basic
/-! property theorems for C11 (stub, replaced by the real statements) -/
namespace Sigc.C11
end Sigc.C11
