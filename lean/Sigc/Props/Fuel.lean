import Sigc.Lemmas.FuelMono
import Sigc.Lemmas.FuelMonoSpec
import Sigc.Lemmas.FuelLvlStable
import Sigc.Props.Refine
/-!
# Fuel — the fuel argument of the two interpreters is only a device

The mechanism model `P` (`Sigc.Model`) and the specification `S` (`Sigc.Spec`) are defined by structural
recursion on a fuel argument and answer `none` when it runs out.  All property theorems quantify over the
fuel (`∀ fuel, runTop fuel P {} P.top = some s → …`).  This file shows that the fuel does not influence
a result:

* **monotonicity** — every function of the two mutual blocks, `runTop` and `teardown`: a result `some r`
  obtained with fuel `f` is obtained, unchanged, with every fuel `f' ≥ f`;
* **independence** — two sufficient fuels give the same result; the text printed by the driver
  (`runProgram`) does not depend on `defaultFuel` unless it is the fuel notice;
* **termination** — every program of the operation language terminates: for every `P` some fuel suffices for
  `runTop` (and for the driver's `teardown`), with no hypothesis on `P`.  The argument (`Sigc.Lemmas.FuelTerm*`,
  `Sigc.Lemmas.FuelLvl*`): nesting of functor bodies is cut at `P.maxdepth`; a chain of forwarded emissions
  (`make_slot()`) has strictly decreasing levels (the level invariant `LvlInv`: every forwarder held by a slot
  variable is bounded by the variable's `taint`, every forwarder held by a slot list by the `lvl` of the signal
  objects sharing the list — preserved by all operations); `nest` functors are structurally smaller; and the walk
  of an emission stays inside the block `[first, marker]` that the list had when the emission started
  (`Emit.Frame`), moving one position per step.
-/
namespace Sigc.Fuel
open Sigc.Model

/-! ## the mechanism model -/

/-- **fuel monotonicity, all functions of the mutual block of `Sigc.Model`** (`invokeFun`, `runBody`,
    `execLine`, `emitImpl`, `emitLoop`, `deref`, `accLoop`, `revLoop`, `walkLoop`, `runStrat`, `execOp`):
    whenever the function does not run out of fuel `f`, it returns the same value with every fuel `g ≥ f`
    (the eleven statements are the fields of `Mono f g`) -/
theorem model_fuel_mono {f g : Nat} (h : f ≤ g) : Mono f g := mono h

/-- **fuel monotonicity of `runTop`** -/
theorem runTop_fuel_mono {f f' : Nat} {P : Prog} {s r : St} {ls : List Line} (hle : f ≤ f')
    (h : runTop f P s ls = some r) : runTop f' P s ls = some r := runTop_mono hle P ls s r h

/-- **fuel independence of `runTop`**: any two sufficient fuels give the same final state -/
theorem runTop_fuel_independent {f f' : Nat} {P : Prog} {s r r' : St} {ls : List Line}
    (h : runTop f P s ls = some r) (h' : runTop f' P s ls = some r') : r = r' := by
  rcases Nat.le_total f f' with hle | hle
  · have := runTop_mono hle P ls s r h
    rw [h'] at this; exact (Option.some.inj this).symm
  · have := runTop_mono hle P ls s r' h'
    rw [h] at this; exact Option.some.inj this

/-- **fuel monotonicity of `teardown`** -/
theorem teardown_fuel_mono {f f' : Nat} {P : Prog} {s r : St} (hle : f ≤ f')
    (h : teardown f P s = some r) : teardown f' P s = some r := teardown_mono hle P s r h

/-- **fuel independence of `teardown`** -/
theorem teardown_fuel_independent {f f' : Nat} {P : Prog} {s r r' : St}
    (h : teardown f P s = some r) (h' : teardown f' P s = some r') : r = r' := by
  rcases Nat.le_total f f' with hle | hle
  · have := teardown_mono hle P s r h
    rw [h'] at this; exact (Option.some.inj this).symm
  · have := teardown_mono hle P s r' h'
    rw [h] at this; exact Option.some.inj this

/-- **what the driver runs**: when `runTop` and `teardown` terminate with the driver's fuel, they terminate in the
    same states with every larger fuel -/
theorem driver_fuel_independent (lines : List String) (s t : St)
    (h1 : runTop defaultFuel (parseProg lines) {} (parseProg lines).top = some s)
    (h2 : teardown defaultFuel (parseProg lines) s = some t) :
    ∀ fuel, defaultFuel ≤ fuel →
      runTop fuel (parseProg lines) {} (parseProg lines).top = some s ∧
      teardown fuel (parseProg lines) s = some t :=
  fun _ hle => ⟨runTop_mono hle _ _ _ _ h1, teardown_mono hle _ _ _ h2⟩

/-- **the printed text does not depend on the fuel**: `runProgramWith fuel` is `Model.runProgram` with the
    fuel as a parameter (`Model.runProgram = runProgramWith defaultFuel`, by `rfl`); an output other than the
    fuel notice is the output for every larger fuel -/
theorem runProgramWith_fuel_independent {f f' : Nat} (hle : f ≤ f') (lines : List String)
    (h : runProgramWith f lines ≠ ["MODEL-FUEL"]) : runProgramWith f' lines = runProgramWith f lines :=
  runProgramWith_mono hle h

/-- **`Model.runProgram` does not depend on `defaultFuel`** unless it prints the fuel notice -/
theorem runProgram_fuel_independent (lines : List String) (h : Model.runProgram lines ≠ ["MODEL-FUEL"]) :
    ∀ fuel, defaultFuel ≤ fuel → runProgramWith fuel lines = Model.runProgram lines :=
  fun _ hle => runProgramWith_mono hle h

/-- two fuels that both avoid the fuel notice print the same text -/
theorem runProgramWith_unique {f f' : Nat} (lines : List String)
    (h : runProgramWith f lines ≠ ["MODEL-FUEL"]) (h' : runProgramWith f' lines ≠ ["MODEL-FUEL"]) :
    runProgramWith f lines = runProgramWith f' lines := by
  rcases Nat.le_total f f' with hle | hle
  · exact (runProgramWith_mono hle h).symm
  · exact runProgramWith_mono hle h'

/-! ## the specification -/

/-- **fuel monotonicity, all functions of the mutual block of `Sigc.Spec`** -/
theorem spec_fuel_mono {f g : Nat} (h : f ≤ g) : S.Mono f g := S.mono h

/-- **fuel monotonicity of `Spec.runTop`** -/
theorem spec_runTop_fuel_mono {f f' : Nat} {P : Prog} {s r : Spec.LSt} {ls : List Line} (hle : f ≤ f')
    (h : Spec.runTop f P s ls = some r) : Spec.runTop f' P s ls = some r := S.runTop_mono hle P ls s r h

/-- **fuel independence of `Spec.runTop`** -/
theorem spec_runTop_fuel_independent {f f' : Nat} {P : Prog} {s r r' : Spec.LSt} {ls : List Line}
    (h : Spec.runTop f P s ls = some r) (h' : Spec.runTop f' P s ls = some r') : r = r' := by
  rcases Nat.le_total f f' with hle | hle
  · have := S.runTop_mono hle P ls s r h
    rw [h'] at this; exact (Option.some.inj this).symm
  · have := S.runTop_mono hle P ls s r' h'
    rw [h] at this; exact Option.some.inj this

/-- **fuel monotonicity of `Spec.teardown`** -/
theorem spec_teardown_fuel_mono {f f' : Nat} {P : Prog} {s r : Spec.LSt} (hle : f ≤ f')
    (h : Spec.teardown f P s = some r) : Spec.teardown f' P s = some r := S.teardown_mono hle P s r h

/-- **fuel independence of `Spec.teardown`** -/
theorem spec_teardown_fuel_independent {f f' : Nat} {P : Prog} {s r r' : Spec.LSt}
    (h : Spec.teardown f P s = some r) (h' : Spec.teardown f' P s = some r') : r = r' := by
  rcases Nat.le_total f f' with hle | hle
  · have := S.teardown_mono hle P s r h
    rw [h'] at this; exact (Option.some.inj this).symm
  · have := S.teardown_mono hle P s r' h'
    rw [h] at this; exact Option.some.inj this

/-- **`Spec.runProgram` does not depend on `defaultFuel`** unless it prints the fuel notice -/
theorem spec_runProgram_fuel_independent (k1 k2 : Bool) (lines : List String)
    (h : Spec.runProgram k1 k2 lines ≠ ["SPEC-FUEL"]) :
    ∀ fuel, defaultFuel ≤ fuel → S.runProgramWith fuel k1 k2 lines = Spec.runProgram k1 k2 lines :=
  fun _ hle => S.runProgramWith_mono hle h

/-! ## termination -/

/-- **every program terminates**: for every program of the operation language some fuel suffices for the
    interpreter `runTop` (no hypothesis on `P`: any bodies, `maxdepth`, `maxsteps`, mode) -/
theorem terminates (P : Prog) : ∃ fuel s, runTop fuel P {} P.top = some s := runTop_terminates P

/-- … and the final state is the same for every larger fuel: the run of a program is a well-defined state -/
theorem terminates_stable (P : Prog) : ∃ fuel s, ∀ f, fuel ≤ f → runTop f P {} P.top = some s :=
  let ⟨fuel, s, h⟩ := runTop_terminates P
  ⟨fuel, s, fun _ hle => runTop_mono hle P P.top {} s h⟩

/-- the level invariant behind the termination argument holds in every state a program reaches:
    every forwarder held by a slot variable forwards to signal objects of a level `≤ taint`, every forwarder
    held by a slot list forwards strictly below the level of the signal objects that share the list -/
theorem lvlInv_reachable (fuel : Nat) (P : Prog) (s : St) (h : runTop fuel P {} P.top = some s) : LvlInv s :=
  (Sigc.Inv.runTop_preservedCore lvlStable.core fuel none P P.top {} s JK.init h).1

/-- **the driver terminates on every program text**: some fuel suffices for `runTop` followed by `teardown`; with it
    and with every larger fuel the printed text is the same and is not the fuel notice -/
theorem driver_terminates (lines : List String) :
    ∃ fuel, ∀ f, fuel ≤ f → runProgramWith f lines ≠ ["MODEL-FUEL"] ∧
      runProgramWith f lines = runProgramWith fuel lines := by
  obtain ⟨f0, s, h1⟩ := runTop_terminates (parseProg lines)
  obtain ⟨t, h2⟩ := Sigc.Refine.Td.teardown_terminates f0 (parseProg lines) s
  have h1' := runTop_mono (Nat.le_succ f0) _ _ _ _ h1
  have hne : runProgramWith (f0 + 1) lines ≠ ["MODEL-FUEL"] := by
    unfold runProgramWith
    simp only []
    rw [h1']
    simp only []
    rw [h2]
    simp only []
    have hsn : ∀ (l : List String) (x : String), l ++ [x] = ["MODEL-FUEL"] → x = "MODEL-FUEL" := by
      intro l x hx
      cases l with
      | nil => simpa using hx
      | cons a l => cases l <;> simp at hx
    cases t.err with
    | none => simp only; intro hx; exact Sigc.Refine.final_ne_fuel _ (hsn _ _ hx)
    | some e =>
      simp only
      intro hx
      have := congrArg List.length hx
      simp at this
  refine ⟨f0 + 1, fun f hle => ?_⟩
  have e := runProgramWith_mono hle hne
  exact ⟨by rw [e]; exact hne, e⟩

/-- the specification `S'` (both known findings, the configuration the model refines) terminates on every program,
    together with its teardown -/
theorem spec_known_terminates (P : Prog) :
    ∃ fuel t t', Spec.runTop fuel P { k1 := true, k2 := true } P.top = some t ∧ Spec.teardown fuel P t = some t' := by
  obtain ⟨f0, s, h1⟩ := runTop_terminates P
  obtain ⟨s', h2⟩ := Sigc.Refine.Td.teardown_terminates f0 P s
  have h1' := runTop_mono (Nat.le_succ f0) _ _ _ _ h1
  obtain ⟨t, t', hr, ht, _⟩ := Sigc.Refine.refines_driver (f0 + 1) P s s' h1' h2
  exact ⟨f0 + 1, t, t', hr, ht⟩

/-! ## non-vacuity -/

open Sigc.Refine in
/-- `exProg` (re-entrant emission) terminates with fuel 15, hence with every larger fuel in the same state -/
example : ∃ s, runTop 15 exProg {} exProg.top = some s ∧ ∀ f, 15 ≤ f → runTop f exProg {} exProg.top = some s := by
  have h : (runTop 15 exProg {} exProg.top).isSome = true := by decide +kernel
  obtain ⟨s, hs⟩ := Option.isSome_iff_exists.mp h
  exact ⟨s, hs, fun f hle => runTop_fuel_mono hle hs⟩

open Sigc.Refine in
/-- … and fuel 14 is not enough: the hypothesis `= some r` of monotonicity matters -/
example : runTop 14 exProg {} exProg.top = none := by decide +kernel

open Sigc.Refine in
example : ∃ t, Spec.runTop 13 exProg {} exProg.top = some t ∧
    ∀ f, 13 ≤ f → Spec.runTop f exProg {} exProg.top = some t := by
  have h : (Spec.runTop 13 exProg {} exProg.top).isSome = true := by decide +kernel
  obtain ⟨s, hs⟩ := Option.isSome_iff_exists.mp h
  exact ⟨s, hs, fun f hle => spec_runTop_fuel_mono hle hs⟩

/-- the empty program text: the printed text is the same for every fuel -/
example : ∀ fuel, runProgramWith fuel [] = ["0 final live=0"] := by
  intro fuel
  have h0 : runProgramWith 0 [] = ["0 final live=0"] := by decide +kernel
  rw [runProgramWith_fuel_independent (Nat.zero_le fuel) [] (by rw [h0]; decide), h0]

/-- termination, instantiated: `exProg` (re-entrant emission), and a program that forwards
    (`make_slot()` of signal 1 connected to signal 2) and calls a slot variable (`exFwd`,
    `Sigc.Lemmas.FuelLvlStable`) -/
example : ∃ fuel s, runTop fuel Sigc.Refine.exProg {} Sigc.Refine.exProg.top = some s := terminates _

/-- `exFwd`: body 1 re-emits signal 2 and calls a slot variable forwarding to signal 2, signal 2 forwards to
    signal 1 whose slot runs body 1 again; the attempt to close the cycle (`connfn 3 1 fwd 2`) is refused
    (`badorder`); nesting ends at `maxdepth`.  It terminates by the theorem, and with fuel 68 by evaluation (67 is not enough) -/
example : (∃ fuel s, runTop fuel exFwd {} exFwd.top = some s) ∧ (runTop 68 exFwd {} exFwd.top).isSome = true ∧
    runTop 67 exFwd {} exFwd.top = none :=
  ⟨terminates _, by decide +kernel, by decide +kernel⟩

/-- the level invariant on a reachable state of `exFwd` -/
example : ∀ fuel s, runTop fuel exFwd {} exFwd.top = some s → LvlInv s := fun fuel s h => lvlInv_reachable fuel _ s h

example : ∃ fuel, ∀ f, fuel ≤ f → runProgramWith f ["newG g1 V", "connfn c1 g1 fn:1", "emit g1 5"] ≠ ["MODEL-FUEL"] :=
  let ⟨fuel, h⟩ := driver_terminates _
  ⟨fuel, fun f hle => (h f hle).1⟩

end Sigc.Fuel
