import Sigc.VisitLemmas
/-!
  C09 — auto-disconnection reaches through every adaptor and nesting.

  All statements quantify over *every* functor expression `e : FExpr` (any nesting depth, any number of
  bound values at any position — plain values, `std::ref`/`std::cref`, by-value objects, objects bound with
  an explicitly spelled reference type (`bind_return<X&>(f, x)`, `bind<I, F, X&>(f, x)`) and *functor
  expressions bound by value* (`bind(&run_then, continuation_slot)`, `bind(&apply, mem_fun(obj, …))`,
  `bind_return(f, some_slot)`), any assignment of trackables to leaves, slots stored inside the
  expression) and are proved by structural induction (mutual: expression ↔ bound argument ↔ bound tuple)
  about the visitor table `codeTable` exactly as it is written in `Sigc/Visit.lean` (one row per
  `sigc::visitor<>` specialisation).
-/
namespace Sigc.C09
open Sigc.Visit

mutual
/-- the rep tree of a slot made from `e` registers itself (own rep + the inner reps it owns) in exactly
    the trackables `e` refers to by reference, with multiplicity -/
theorem scan_perm_referenced (e : FExpr) : (E (scan codeTable e)).Perm (referenced e) := by
  match e with
  | .leaf => simp [scan, E_visitPrimary_own, referenced]
  | .memFun o =>
    simp [scan, row, codeTable, Rep.seq, referenced, E_append, E_visitLimRef, E_done]
  | .makeSlot o =>
    simp [scan, row, codeTable, Rep.seq, referenced, E_append, E_visitLimRef, E_done]
  | .signalConnect o =>
    simp [scan, row, codeTable, Rep.seq, referenced, E_append, E_visitLimRef, E_done]
  | .bind pos f bs =>
    have ih := scan_perm_referenced f
    have ihb := tuple_perm_refs bs
    cases pos <;>
    · simp [scan, row, codeTable, Rep.seq, referenced, E_append, E_stored, E_done]
      exact ih.append ihb
  | .bindReturn f b =>
    have ih := scan_perm_referenced f
    have ihb := bound_perm_refs b
    simp [scan, row, codeTable, Rep.seq, referenced, E_append, E_stored, E_done]
    exact List.perm_append_comm.trans (ih.append ihb)
  | .hide pos f =>
    have ih := scan_perm_referenced f
    simpa [scan, row, codeTable, Rep.seq, referenced, E_append, E_stored, E_done] using ih
  | .hideReturn f =>
    have ih := scan_perm_referenced f
    simpa [scan, row, codeTable, Rep.seq, referenced, E_append, E_stored, E_done] using ih
  | .retype f =>
    have ih := scan_perm_referenced f
    simpa [scan, row, codeTable, Rep.seq, referenced, E_append, E_stored, E_done] using ih
  | .retypeReturn f =>
    have ih := scan_perm_referenced f
    simpa [scan, row, codeTable, Rep.seq, referenced, E_append, E_stored, E_done] using ih
  | .compose1 s g =>
    simp [scan, row, codeTable, Rep.seq, referenced, E_append, E_stored, E_done]
    exact (scan_perm_referenced s).append (scan_perm_referenced g)
  | .compose2 s g1 g2 =>
    simp [scan, row, codeTable, Rep.seq, referenced, E_append, E_stored, E_done]
    exact (scan_perm_referenced s).append ((scan_perm_referenced g1).append (scan_perm_referenced g2))
  | .exceptionCatch f c =>
    simp [scan, row, codeTable, Rep.seq, referenced, E_append, E_stored, E_done]
    exact (scan_perm_referenced f).append (scan_perm_referenced c)
  | .trackObj f ts =>
    have ih := scan_perm_referenced f
    simp [scan, row, codeTable, Rep.seq, referenced, E_append, E_stored, E_visitObjs, E_done]
    exact ih.append (List.Perm.refl _)
  | .slot f =>
    have ih := scan_perm_referenced f
    simpa [scan, row, codeTable, Rep.seq, referenced, E_append, E_stored, E_done, E_kid] using ih

/-- `visitor<bound_argument<T>>` reaches exactly what the bound argument refers to — for a functor bound by
    value: what that functor expression refers to (recursion into the bound value) -/
theorem bound_perm_refs (b : BArg) : (E (visitBound codeTable b)).Perm b.refs := by
  match b with
  | .val => simp [visitBound, E_bound_row, E_visitPrimary_own, BArg.refs]
  | .ref o => simp [visitBound, E_bound_row, E_visitLimRef, BArg.refs]
  | .cref o => simp [visitBound, E_bound_row, E_visitLimRef, BArg.refs]
  | .copy o => simp [visitBound, E_bound_row, E_visitPrimary_own, BArg.refs]
  | .xref o => simp [visitBound, E_bound_row, E_visitPrimary_ext, BArg.refs]
  | .xcref o => simp [visitBound, E_bound_row, E_visitPrimary_ext, BArg.refs]
  | .fn e =>
    have ih := scan_perm_referenced e
    simpa [visitBound, E_bound_row, BArg.refs] using ih

/-- `tuple_for_each<TupleVisitorVisitEach>` over all bound arguments -/
theorem tuple_perm_refs (bs : List BArg) : (E (visitTuple codeTable bs)).Perm (refsOf bs) := by
  match bs with
  | [] => simp [visitTuple, refsOf, E_done]
  | b :: bs =>
    simp only [visitTuple, refsOf, E_append]
    exact (bound_perm_refs b).append (tuple_perm_refs bs)
end

/-- **C09.visited_eq_referenced** (general form, slots stored inside the expression included): the
    registrations made by the slot's rep together with those of the inner reps it owns are, as a
    multiset, the trackables the expression refers to by reference. -/
theorem visitedAll_eq_referenced (e : FExpr) : (visitedAll e).Perm (referenced e) := by
  have h := scan_perm_referenced e
  have h2 : visitedAll e = E (stored codeTable e.isAdaptor (scan codeTable e)) := rfl
  rw [h2, E_stored]; exact h

/-- **C09.visited_eq_referenced**: for an expression without an inner slot, the callbacks the slot's own
    rep registers (`visit_each_trackable(slot_do_bind(rep), functor)`) are, as a multiset, exactly the
    trackables referred to by reference — any depth, any number of bound values at any position. -/
theorem visited_eq_referenced (e : FExpr) (h : slotFree e = true) :
    (visited e).Perm (referenced e) := by
  have hk : (repOf codeTable e).noKids = true := noKids_stored _ _ (noKids_scan e h)
  have : visited e = visitedAll e := by
    simp [visited, visitedWith, visitedAll, visitedAllWith, Rep.regs_eq_allRegs_of_noKids _ hk]
  rw [this]; exact visitedAll_eq_referenced e

example : slotFree (.compose2 .leaf (.bind (some 1) (.memFun ⟨1, .vbase⟩) [.val, .ref ⟨2, .direct⟩, .cref ⟨1, .vbase⟩])
    (.bindReturn (.trackObj .leaf [⟨3, .direct⟩, ⟨3, .direct⟩]) (.copy ⟨2, .direct⟩))) = true
    ∧ visited (.compose2 .leaf (.bind (some 1) (.memFun ⟨1, .vbase⟩) [.val, .ref ⟨2, .direct⟩, .cref ⟨1, .vbase⟩])
    (.bindReturn (.trackObj .leaf [⟨3, .direct⟩, ⟨3, .direct⟩]) (.copy ⟨2, .direct⟩))) = [1, 2, 1, 3, 3] := by
  decide

/-- bound types spelled as explicit references: `bind_return<X&>(f, t1)`, `bind<0, F, int, X&, const Y&>(f, 5, t2, t1)`
    (first / middle / last of the tuple), through a virtual base, next to `std::ref` and by-value copies of the
    same objects; an untracked object bound as `U&` is not registered -/
example : slotFree (.bindReturn (.bind (some 0) (.memFun ⟨3, .direct⟩) [.val, .xref ⟨2, .vbase⟩, .xcref ⟨1, .direct⟩])
      (.xref ⟨1, .direct⟩)) = true
    ∧ visited (.bindReturn (.bind (some 0) (.memFun ⟨3, .direct⟩) [.val, .xref ⟨2, .vbase⟩, .xcref ⟨1, .direct⟩])
      (.xref ⟨1, .direct⟩)) = [1, 3, 2, 1]
    ∧ visited (.bind none .leaf [.xref ⟨1, .vbase⟩, .copy ⟨1, .vbase⟩, .ref ⟨1, .vbase⟩, .xcref ⟨4, .untracked⟩]) = [1, 1]
    ∧ (repOf codeTable (.bind none .leaf [.xref ⟨1, .vbase⟩, .copy ⟨1, .vbase⟩, .ref ⟨1, .vbase⟩])).regs
        = [.ext 1, .own 1, .ext 1]
    ∧ ties (.hide none (.hideReturn (.bindReturn .leaf (.xref ⟨1, .direct⟩)))) 1 = true
    ∧ visitedAll (.bind none .leaf [.fn (.slot (.bindReturn .leaf (.xcref ⟨2, .vbase⟩)))]) = [2] := by
  decide

/-- functors bound by value: `bind<0>(f, 5, mem_fun(t1), hide(mem_fun(t2)))`, `bind_return(f, mem_fun(t3))` —
    the outer rep registers itself in the objects of the bound functors -/
example : slotFree (.bind (some 0) .leaf [.val, .fn (.memFun ⟨1, .direct⟩), .fn (.hide none (.memFun ⟨2, .vbase⟩))]) = true
    ∧ visited (.bind (some 0) .leaf [.val, .fn (.memFun ⟨1, .direct⟩), .fn (.hide none (.memFun ⟨2, .vbase⟩))]) = [1, 2]
    ∧ visited (.bindReturn (.memFun ⟨1, .direct⟩) (.fn (.memFun ⟨3, .direct⟩))) = [3, 1]
    ∧ visited (.bind none .leaf [.fn (.bind none .leaf [.fn (.memFun ⟨4, .vbase⟩), .ref ⟨5, .direct⟩])]) = [4, 5] := by
  decide

/-- a slot bound by value (`bind(&run_then, continuation_slot)`): the outer rep registers nothing, it becomes the
    parent of the bound slot's rep, which holds the registration -/
example : visited (.bind none .leaf [.fn (.slot (.memFun ⟨1, .direct⟩))]) = []
    ∧ visitedAll (.bind none .leaf [.fn (.slot (.memFun ⟨1, .direct⟩))]) = [1]
    ∧ (repOf codeTable (.bind none .leaf [.fn (.slot (.memFun ⟨1, .direct⟩))])).innerCount = 1
    ∧ ties (.bind none .leaf [.fn (.slot (.memFun ⟨1, .direct⟩))]) 1 = true
    ∧ visitedAll (.bindReturn .leaf (.fn (.slot (.bind none .leaf [.ref ⟨2, .vbase⟩])))) = [2] := by decide

/-- for an inner slot the outer rep registers nothing; the inner rep does, and its parent is the outer -/
example : visited (.hide none (.slot (.memFun ⟨1, .direct⟩))) = []
    ∧ visitedAll (.hide none (.slot (.memFun ⟨1, .direct⟩))) = [1]
    ∧ (repOf codeTable (.hide none (.slot (.memFun ⟨1, .direct⟩)))).innerCount = 1 := by decide

/-- **C09.ties_all**: destroying any trackable the expression refers to invalidates a slot made from it
    (directly, or through the parent chain of an inner slot). -/
theorem ties_all (e : FExpr) (t : Nat) (h : t ∈ referenced e) : ties e t = true := by
  have hp := visitedAll_eq_referenced e
  have hm : t ∈ visitedAll e := hp.mem_iff.mpr h
  simp only [ties]
  rw [Rep.invalidatedBy_iff]
  exact (mem_extIds t _).mp hm

/-- converse: nothing else invalidates it (no spurious disconnection) -/
theorem ties_only (e : FExpr) (t : Nat) (h : ties e t = true) : t ∈ referenced e := by
  have hp := visitedAll_eq_referenced e
  simp only [ties] at h
  rw [Rep.invalidatedBy_iff] at h
  exact hp.mem_iff.mp ((mem_extIds t _).mpr h)

example : 2 ∈ referenced (.bind (some 0) (.slot (.bindReturn .leaf (.ref ⟨2, .vbase⟩))) [.ref ⟨1, .direct⟩, .val])
    ∧ ties (.bind (some 0) (.slot (.bindReturn .leaf (.ref ⟨2, .vbase⟩))) [.ref ⟨1, .direct⟩, .val]) 2 = true
    ∧ ties (.bind none .leaf [.copy ⟨1, .direct⟩]) 1 = false
    ∧ 3 ∈ referenced (.hideReturn (.bindReturn .leaf (.fn (.compose1 .leaf (.memFun ⟨3, .vbase⟩)))))
    ∧ ties (.hideReturn (.bindReturn .leaf (.fn (.compose1 .leaf (.memFun ⟨3, .vbase⟩))))) 3 = true := by decide

/-- **C09.no_trace**: a slot rep `r` that is constructed (`bindOps`: one `add` per visited target) and later
    destroyed before its trackables (`unbindOps`: `destroy()` walks the same visitors with
    `slot_do_unbind`, `remove_callback` erases the first live entry with that data) leaves, in every
    registration target, no live entry of `r`, and everybody else's entries exactly as they would be had
    `r` never existed — for every expression, under any interleaving `s` with operations `oth` of other
    slots in the same trackables, from any starting world without entries of `r`.
    (The inner reps of stored slots are slots made from sub-expressions, so the same statement covers
    them; `visitor<slot>` itself registers nothing.) -/
theorem no_trace (e : FExpr) (r : Nat) (oth s : List Op) (w : World)
    (hoth : ∀ x ∈ oth, x.data ≠ r)
    (hfresh : ∀ u, liveCount r (w u) = 0)
    (hi : Interleave (bindOps r (repOf codeTable e).regs ++ unbindOps r (repOf codeTable e).regs) oth s) :
    (∀ u, liveCount r (run w s u) = 0) ∧ (∀ u, others r (run w s u) = others r (run w oth u)) := by
  have ha : ∀ x ∈ bindOps r (repOf codeTable e).regs ++ unbindOps r (repOf codeTable e).regs,
      x.data = r := by
    intro x hx
    rcases List.mem_append.mp hx with h | h
    · exact data_bindOps r _ x h
    · exact data_unbindOps r _ x h
  constructor
  · intro u
    rw [liveCount_interleave r hi ha hoth w w (fun _ => rfl) u, run_append,
      liveCount_run_unbindOps, liveCount_run_bindOps, hfresh u]
    omega
  · exact others_interleave r hi ha hoth w w (fun _ => rfl)

/-- the same for any list of targets (the statement does not depend on where the list came from) -/
theorem no_trace_list (ts : List Tgt) (r : Nat) (oth s : List Op) (w : World)
    (hoth : ∀ x ∈ oth, x.data ≠ r) (hfresh : ∀ u, liveCount r (w u) = 0)
    (hi : Interleave (bindOps r ts ++ unbindOps r ts) oth s) :
    (∀ u, liveCount r (run w s u) = 0) ∧ (∀ u, others r (run w s u) = others r (run w oth u)) := by
  have ha : ∀ x ∈ bindOps r ts ++ unbindOps r ts, x.data = r := by
    intro x hx
    rcases List.mem_append.mp hx with h | h
    · exact data_bindOps r _ x h
    · exact data_unbindOps r _ x h
  constructor
  · intro u
    rw [liveCount_interleave r hi ha hoth w w (fun _ => rfl) u, run_append,
      liveCount_run_unbindOps, liveCount_run_bindOps, hfresh u]
    omega
  · exact others_interleave r hi ha hoth w w (fun _ => rfl)

/-- non-vacuity: rep 7 made from `bind(mem_fun(t1), ref t1, ref t2)` (t1 registered twice), another
    slot (rep 9) registering and unregistering in t1 in between -/
example :
    let e : FExpr := .bind none (.memFun ⟨1, .direct⟩) [.ref ⟨1, .direct⟩, .ref ⟨2, .direct⟩]
    let w : World := fun u => if u = .ext 1 then [⟨9, true⟩] else []
    (repOf codeTable e).regs = [.ext 1, .ext 1, .ext 2]
    ∧ Interleave (bindOps 7 (repOf codeTable e).regs ++ unbindOps 7 (repOf codeTable e).regs)
        [.add (.ext 1) 9, .remove (.ext 1) 9]
        [.add (.ext 1) 7, .add (.ext 1) 9, .add (.ext 1) 7, .add (.ext 2) 7, .remove (.ext 1) 7,
         .remove (.ext 1) 9, .remove (.ext 1) 7, .remove (.ext 2) 7]
    ∧ run w [.add (.ext 1) 7, .add (.ext 1) 9, .add (.ext 1) 7, .add (.ext 2) 7, .remove (.ext 1) 7,
         .remove (.ext 1) 9, .remove (.ext 1) 7, .remove (.ext 2) 7] (.ext 1) = [⟨9, true⟩] := by
  refine ⟨by decide, ?_, by decide⟩
  exact .left _ (.right _ (.left _ (.left _ (.left _ (.right _ (.left _ (.left _ .nil)))))))

/-- **F1 witness**: with the table as it was before the repair (`visitor<bind_functor<I,…>>` visiting only
    `std::get<0>(bound_)`) the first theorem is false — the second bound reference is not registered. -/
theorem f1_witness :
    ¬ (visitedWith unrepairedTable
          (.bind (some 0) .leaf [.ref ⟨1, .direct⟩, .ref ⟨2, .direct⟩])).Perm
        (referenced (.bind (some 0) .leaf [.ref ⟨1, .direct⟩, .ref ⟨2, .direct⟩])) := by
  decide

/-- and consequently destroying `t2` would not invalidate that slot -/
theorem f1_witness_ties :
    (repOf unrepairedTable (.bind (some 0) .leaf [.ref ⟨1, .direct⟩, .ref ⟨2, .direct⟩])).invalidatedBy 2
      = false := by
  decide

/-! ### "a value bound by copy is a leaf"

  `boundLeafTable` is `codeTable` with the `bound_argument` row changed from "`visit_each` of what `visit()`
  returns" to "`visit_each` only for a `reference_wrapper`; a stored value is handed to the action directly". -/

/-- **witness**: with that row the first theorem is false — the object of a `mem_fun` functor bound by value
    (`bind(f, mem_fun(t1, …))`) is not registered -/
theorem bound_leaf_witness :
    ¬ (visitedWith boundLeafTable (.bind none .leaf [.fn (.memFun ⟨1, .direct⟩)])).Perm
        (referenced (.bind none .leaf [.fn (.memFun ⟨1, .direct⟩)])) := by
  decide

/-- … destroying `t1` would not invalidate that slot -/
theorem bound_leaf_witness_ties :
    (repOf boundLeafTable (.bind none .leaf [.fn (.memFun ⟨1, .direct⟩)])).invalidatedBy 1 = false := by
  decide

/-- … and a slot bound by value (`bind<0>(f, 5, continuation_slot)`, `bind_return(f, some_slot)`) gets no
    parent: no rep of the tree is tied to `t1` -/
theorem bound_leaf_witness_slot :
    ¬ (visitedAllWith boundLeafTable (.bind (some 0) .leaf [.val, .fn (.slot (.memFun ⟨1, .direct⟩))])).Perm
        (referenced (.bind (some 0) .leaf [.val, .fn (.slot (.memFun ⟨1, .direct⟩))]))
    ∧ (repOf boundLeafTable (.bindReturn .leaf (.fn (.slot (.memFun ⟨1, .direct⟩))))).innerCount = 0
    ∧ (repOf boundLeafTable (.bindReturn .leaf (.fn (.slot (.memFun ⟨1, .direct⟩))))).invalidatedBy 1 = false := by
  decide

/-! ### "an object that arrives with its own type is a copy"

  `byTypeDroppedTable` is `codeTable` with one more overload in the action (`slot_do_bind` / `slot_do_unbind`):
  `template<typename T> void operator()(const T&) const noexcept {}`.  Every visitor row is unchanged. -/

/-- **witness**: with that overload set the general theorem is false — `bind_return<X&>(f, t1)` keeps a reference
    to `t1` (nothing is copied) and the slot is not registered in it -/
theorem by_type_dropped_witness :
    ¬ (visitedAllWith byTypeDroppedTable (.bindReturn .leaf (.xref ⟨1, .direct⟩))).Perm
        (referenced (.bindReturn .leaf (.xref ⟨1, .direct⟩))) := by
  decide

/-- … destroying `t1` would not invalidate that slot; the same for `bind<I, F, X&>`, for `const X&`, through a
    virtual base, at any position of the tuple, below other adaptors and inside a slot bound by value -/
theorem by_type_dropped_witness_ties :
    (repOf byTypeDroppedTable (.bindReturn .leaf (.xref ⟨1, .direct⟩))).invalidatedBy 1 = false
    ∧ (repOf byTypeDroppedTable (.bind (some 0) .leaf [.val, .xcref ⟨1, .vbase⟩])).invalidatedBy 1 = false
    ∧ (repOf byTypeDroppedTable (.hide none (.retypeReturn (.bind none (.memFun ⟨2, .direct⟩) [.xref ⟨1, .direct⟩])))).regs
        = [.ext 2]
    ∧ (repOf byTypeDroppedTable (.bind none .leaf [.fn (.slot (.bindReturn .leaf (.xref ⟨1, .direct⟩)))])).invalidatedBy 1
        = false := by
  decide

/-- … while everything that goes through a `limit_reference` (`std::ref`, `mem_fun`, `track_object`) is still
    registered, and the private copies no longer are -/
example : (repOf byTypeDroppedTable (.bind none (.trackObj (.memFun ⟨1, .vbase⟩) [⟨3, .direct⟩])
      [.ref ⟨2, .direct⟩, .copy ⟨2, .direct⟩, .cref ⟨1, .vbase⟩])).regs = [.ext 1, .ext 3, .ext 2, .ext 1]
    ∧ (repOf codeTable (.bind none (.trackObj (.memFun ⟨1, .vbase⟩) [⟨3, .direct⟩])
      [.ref ⟨2, .direct⟩, .copy ⟨2, .direct⟩, .cref ⟨1, .vbase⟩])).regs = [.ext 1, .ext 3, .ext 2, .own 2, .ext 1] := by
  decide

mutual
/-- why the extra overload goes unnoticed: on every expression in which objects are referred to only through
    `limit_reference` (`mem_fun`, `make_slot`, `signal_connect`, `std::ref`/`std::cref`, `track_obj`; plain values and
    functors bound by value at any position and depth, slots stored inside) the two tables produce the same rep tree -/
theorem byType_same_when_limited (e : FExpr) (h : limitedOnly e = true) :
    scan byTypeDroppedTable e = scan codeTable e := by
  match e with
  | .leaf => rfl
  | .memFun o => simp [scan, row, byTypeDroppedTable, codeTable, visitLimRef_byType]
  | .makeSlot o => simp [scan, row, byTypeDroppedTable, codeTable, visitLimRef_byType]
  | .signalConnect o => simp [scan, row, byTypeDroppedTable, codeTable, visitLimRef_byType]
  | .bind pos f bs =>
    simp [limitedOnly] at h
    have ih := byType_same_when_limited f h.1
    have ihb := byType_tuple bs h.2
    cases pos <;> simp [scan, row, byTypeDroppedTable, codeTable, stored, ih, ihb]
  | .bindReturn f b =>
    simp [limitedOnly] at h
    have ih := byType_same_when_limited f h.1
    have ihb := byType_bound b h.2
    simp [scan, row, byTypeDroppedTable, codeTable, stored, ih, ihb]
  | .hide pos f =>
    have ih := byType_same_when_limited f (by simpa [limitedOnly] using h)
    simp [scan, row, byTypeDroppedTable, codeTable, stored, ih]
  | .hideReturn f =>
    have ih := byType_same_when_limited f (by simpa [limitedOnly] using h)
    simp [scan, row, byTypeDroppedTable, codeTable, stored, ih]
  | .retype f =>
    have ih := byType_same_when_limited f (by simpa [limitedOnly] using h)
    simp [scan, row, byTypeDroppedTable, codeTable, stored, ih]
  | .retypeReturn f =>
    have ih := byType_same_when_limited f (by simpa [limitedOnly] using h)
    simp [scan, row, byTypeDroppedTable, codeTable, stored, ih]
  | .compose1 s g =>
    simp [limitedOnly] at h
    simp [scan, row, byTypeDroppedTable, codeTable, stored, byType_same_when_limited s h.1,
      byType_same_when_limited g h.2]
  | .compose2 s g1 g2 =>
    simp [limitedOnly] at h
    simp [scan, row, byTypeDroppedTable, codeTable, stored, byType_same_when_limited s h.1.1,
      byType_same_when_limited g1 h.1.2, byType_same_when_limited g2 h.2]
  | .exceptionCatch f c =>
    simp [limitedOnly] at h
    simp [scan, row, byTypeDroppedTable, codeTable, stored, byType_same_when_limited f h.1,
      byType_same_when_limited c h.2]
  | .trackObj f ts =>
    have ih := byType_same_when_limited f (by simpa [limitedOnly] using h)
    simp [scan, row, byTypeDroppedTable, codeTable, stored, ih, visitObjs_byType]
  | .slot f =>
    have ih := byType_same_when_limited f (by simpa [limitedOnly] using h)
    simp [scan, row, byTypeDroppedTable, codeTable, stored, ih]

theorem byType_bound (b : BArg) (h : b.limited = true) :
    visitBound byTypeDroppedTable b = visitBound codeTable b := by
  match b with
  | .val => rfl
  | .ref o => simp [visitBound, row, byTypeDroppedTable, codeTable, visitLimRef_byType]
  | .cref o => simp [visitBound, row, byTypeDroppedTable, codeTable, visitLimRef_byType]
  | .copy o => simp [BArg.limited] at h
  | .xref o => simp [BArg.limited] at h
  | .xcref o => simp [BArg.limited] at h
  | .fn e =>
    have ih := byType_same_when_limited e (by simpa [BArg.limited] using h)
    simp [visitBound, row, byTypeDroppedTable, codeTable, ih]

theorem byType_tuple (bs : List BArg) (h : limitedArgs bs = true) :
    visitTuple byTypeDroppedTable bs = visitTuple codeTable bs := by
  match bs with
  | [] => simp [visitTuple]
  | b :: bs =>
    simp [limitedArgs] at h
    simp [visitTuple, byType_bound b h.1, byType_tuple bs h.2]
end

example : limitedOnly (.bind (some 1) (.slot (.memFun ⟨1, .vbase⟩)) [.val, .fn (.trackObj .leaf [⟨2, .direct⟩]), .cref ⟨1, .vbase⟩]) = true
    ∧ (repOf byTypeDroppedTable (.bind (some 1) (.slot (.memFun ⟨1, .vbase⟩))
        [.val, .fn (.trackObj .leaf [⟨2, .direct⟩]), .cref ⟨1, .vbase⟩])).allRegs = [.ext 1, .ext 2, .ext 1] := by decide

mutual
/-- why the changed row goes unnoticed: on every expression without a functor-valued bound argument (plain
    values, `std::ref`/`std::cref`, by-value objects at any position and depth) the two tables produce the same
    rep tree -/
theorem boundLeaf_same_without_bound_functor (e : FExpr) (h : plainBound e = true) :
    scan boundLeafTable e = scan codeTable e := by
  match e with
  | .leaf => rfl
  | .memFun o => rfl
  | .makeSlot o => rfl
  | .signalConnect o => rfl
  | .bind pos f bs =>
    simp [plainBound] at h
    have ih := boundLeaf_same_without_bound_functor f h.1
    have ihb := boundLeaf_tuple bs h.2
    cases pos <;> simp [scan, row, boundLeafTable, codeTable, stored, ih, ihb]
  | .bindReturn f b =>
    simp [plainBound] at h
    have ih := boundLeaf_same_without_bound_functor f h.1
    have ihb := boundLeaf_bound b h.2
    simp [scan, row, boundLeafTable, codeTable, stored, ih, ihb]
  | .hide pos f =>
    have ih := boundLeaf_same_without_bound_functor f (by simpa [plainBound] using h)
    simp [scan, row, boundLeafTable, codeTable, stored, ih]
  | .hideReturn f =>
    have ih := boundLeaf_same_without_bound_functor f (by simpa [plainBound] using h)
    simp [scan, row, boundLeafTable, codeTable, stored, ih]
  | .retype f =>
    have ih := boundLeaf_same_without_bound_functor f (by simpa [plainBound] using h)
    simp [scan, row, boundLeafTable, codeTable, stored, ih]
  | .retypeReturn f =>
    have ih := boundLeaf_same_without_bound_functor f (by simpa [plainBound] using h)
    simp [scan, row, boundLeafTable, codeTable, stored, ih]
  | .compose1 s g =>
    simp [plainBound] at h
    simp [scan, row, boundLeafTable, codeTable, stored, boundLeaf_same_without_bound_functor s h.1,
      boundLeaf_same_without_bound_functor g h.2]
  | .compose2 s g1 g2 =>
    simp [plainBound] at h
    simp [scan, row, boundLeafTable, codeTable, stored, boundLeaf_same_without_bound_functor s h.1.1,
      boundLeaf_same_without_bound_functor g1 h.1.2, boundLeaf_same_without_bound_functor g2 h.2]
  | .exceptionCatch f c =>
    simp [plainBound] at h
    simp [scan, row, boundLeafTable, codeTable, stored, boundLeaf_same_without_bound_functor f h.1,
      boundLeaf_same_without_bound_functor c h.2]
  | .trackObj f ts =>
    have ih := boundLeaf_same_without_bound_functor f (by simpa [plainBound] using h)
    simp [scan, row, boundLeafTable, codeTable, stored, ih, visitObjs_boundLeafTable]
  | .slot f =>
    have ih := boundLeaf_same_without_bound_functor f (by simpa [plainBound] using h)
    simp [scan, row, boundLeafTable, codeTable, stored, ih]

theorem boundLeaf_bound (b : BArg) (h : b.plain = true) :
    visitBound boundLeafTable b = visitBound codeTable b := by
  match b with
  | .val => simp [visitBound, row, boundLeafTable, codeTable, visitPrimary, Rep.seq, Rep.append_done, act_boundLeafTable]
  | .ref o => rfl
  | .cref o => rfl
  | .copy o => simp [visitBound, row, boundLeafTable, codeTable, visitPrimary, Rep.seq, Rep.append_done, act_boundLeafTable]
  | .xref o => simp [visitBound, row, boundLeafTable, codeTable, visitPrimary, Rep.seq, Rep.append_done, act_boundLeafTable]
  | .xcref o => simp [visitBound, row, boundLeafTable, codeTable, visitPrimary, Rep.seq, Rep.append_done, act_boundLeafTable]
  | .fn e => simp [BArg.plain] at h

theorem boundLeaf_tuple (bs : List BArg) (h : plainArgs bs = true) :
    visitTuple boundLeafTable bs = visitTuple codeTable bs := by
  match bs with
  | [] => simp [visitTuple]
  | b :: bs =>
    simp [plainArgs] at h
    simp [visitTuple, boundLeaf_bound b h.1, boundLeaf_tuple bs h.2]
end

example : plainBound (.bind (some 1) (.memFun ⟨1, .vbase⟩) [.val, .copy ⟨2, .direct⟩, .cref ⟨1, .vbase⟩]) = true
    ∧ (scan boundLeafTable (.bind (some 1) (.memFun ⟨1, .vbase⟩) [.val, .copy ⟨2, .direct⟩, .cref ⟨1, .vbase⟩])).regs
        = [.ext 1, .own 2, .ext 1] := by decide

end Sigc.C09
