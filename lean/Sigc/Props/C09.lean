import Sigc.Basic
/-! property theorems for C09 (stub, replaced by the real statements) -/
namespace Sigc.C09
end Sigc.C09
