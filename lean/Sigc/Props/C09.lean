import Sigc.VisitLemmas
/-!
  C09 — auto-disconnection reaches through every adaptor and nesting.

  All statements quantify over *every* functor expression `e : FExpr` (any nesting depth, any number of
  bound values at any position, any assignment of trackables to leaves, slots stored inside the
  expression) and are proved by structural induction about the visitor table `codeTable` exactly as it
  is written in `Sigc/Visit.lean` (one row per `sigc::visitor<>` specialisation).
-/
namespace Sigc.C09
open Sigc.Visit

/-- the rep tree of a slot made from `e` registers itself (own rep + the inner reps it owns) in exactly
    the trackables `e` refers to by reference, with multiplicity -/
theorem scan_perm_referenced (e : FExpr) : (E (scan codeTable e)).Perm (referenced e) := by
  induction e with
  | leaf => simp [scan, E_visitPrimary_own, referenced]
  | memFun o =>
    simp [scan, row, codeTable, Rep.seq, referenced, E_append, E_visitLimRef, E_done]
  | makeSlot o =>
    simp [scan, row, codeTable, Rep.seq, referenced, E_append, E_visitLimRef, E_done]
  | signalConnect o =>
    simp [scan, row, codeTable, Rep.seq, referenced, E_append, E_visitLimRef, E_done]
  | bind pos f bs ih =>
    cases pos <;>
    · simp [scan, row, codeTable, Rep.seq, referenced, E_append, E_stored, E_visitTuple, E_done]
      exact ih.append (List.Perm.refl _)
  | bindReturn f b ih =>
    simp [scan, row, codeTable, Rep.seq, referenced, E_append, E_stored, E_visitBound, E_done]
    exact List.perm_append_comm.trans (ih.append (List.Perm.refl _))
  | hide pos f ih =>
    simpa [scan, row, codeTable, Rep.seq, referenced, E_append, E_stored, E_done] using ih
  | hideReturn f ih =>
    simpa [scan, row, codeTable, Rep.seq, referenced, E_append, E_stored, E_done] using ih
  | retype f ih =>
    simpa [scan, row, codeTable, Rep.seq, referenced, E_append, E_stored, E_done] using ih
  | retypeReturn f ih =>
    simpa [scan, row, codeTable, Rep.seq, referenced, E_append, E_stored, E_done] using ih
  | compose1 s g ihs ihg =>
    simp [scan, row, codeTable, Rep.seq, referenced, E_append, E_stored, E_done]
    exact ihs.append ihg
  | compose2 s g1 g2 ihs ih1 ih2 =>
    simp [scan, row, codeTable, Rep.seq, referenced, E_append, E_stored, E_done]
    exact ihs.append (ih1.append ih2)
  | exceptionCatch f c ihf ihc =>
    simp [scan, row, codeTable, Rep.seq, referenced, E_append, E_stored, E_done]
    exact ihf.append ihc
  | trackObj f ts ih =>
    simp [scan, row, codeTable, Rep.seq, referenced, E_append, E_stored, E_visitObjs, E_done]
    exact ih.append (List.Perm.refl _)
  | slot f ih =>
    simpa [scan, row, codeTable, Rep.seq, referenced, E_append, E_stored, E_done, E_kid] using ih

/-- **C09.visited_eq_referenced** (general form, slots stored inside the expression included): the
    registrations made by the slot's rep together with those of the inner reps it owns are, as a
    multiset, the trackables the expression refers to by reference. -/
theorem visitedAll_eq_referenced (e : FExpr) : (visitedAll e).Perm (referenced e) := by
  have h := scan_perm_referenced e
  have h2 : visitedAll e = E (stored codeTable e.isAdaptor (scan codeTable e)) := rfl
  rw [h2, E_stored]; exact h

/-- **C09.visited_eq_referenced**: for an expression without an inner slot, the callbacks the slot's own
    rep registers (`visit_each_trackable(slot_do_bind(rep), functor)`) are, as a multiset, exactly the
    trackables referred to by reference — any depth, any number of bound values at any position. -/
theorem visited_eq_referenced (e : FExpr) (h : slotFree e = true) :
    (visited e).Perm (referenced e) := by
  have hk : (repOf codeTable e).noKids = true := noKids_stored _ _ (noKids_scan e h)
  have : visited e = visitedAll e := by
    simp [visited, visitedWith, visitedAll, visitedAllWith, Rep.regs_eq_allRegs_of_noKids _ hk]
  rw [this]; exact visitedAll_eq_referenced e

example : slotFree (.compose2 .leaf (.bind (some 1) (.memFun ⟨1, .vbase⟩) [.val, .ref ⟨2, .direct⟩, .cref ⟨1, .vbase⟩])
    (.bindReturn (.trackObj .leaf [⟨3, .direct⟩, ⟨3, .direct⟩]) (.copy ⟨2, .direct⟩))) = true
    ∧ visited (.compose2 .leaf (.bind (some 1) (.memFun ⟨1, .vbase⟩) [.val, .ref ⟨2, .direct⟩, .cref ⟨1, .vbase⟩])
    (.bindReturn (.trackObj .leaf [⟨3, .direct⟩, ⟨3, .direct⟩]) (.copy ⟨2, .direct⟩))) = [1, 2, 1, 3, 3] := by
  decide

/-- for an inner slot the outer rep registers nothing; the inner rep does, and its parent is the outer -/
example : visited (.hide none (.slot (.memFun ⟨1, .direct⟩))) = []
    ∧ visitedAll (.hide none (.slot (.memFun ⟨1, .direct⟩))) = [1]
    ∧ (repOf codeTable (.hide none (.slot (.memFun ⟨1, .direct⟩)))).innerCount = 1 := by decide

/-- **C09.ties_all**: destroying any trackable the expression refers to invalidates a slot made from it
    (directly, or through the parent chain of an inner slot). -/
theorem ties_all (e : FExpr) (t : Nat) (h : t ∈ referenced e) : ties e t = true := by
  have hp := visitedAll_eq_referenced e
  have hm : t ∈ visitedAll e := hp.mem_iff.mpr h
  simp only [ties]
  rw [Rep.invalidatedBy_iff]
  exact (mem_extIds t _).mp hm

/-- converse: nothing else invalidates it (no spurious disconnection) -/
theorem ties_only (e : FExpr) (t : Nat) (h : ties e t = true) : t ∈ referenced e := by
  have hp := visitedAll_eq_referenced e
  simp only [ties] at h
  rw [Rep.invalidatedBy_iff] at h
  exact hp.mem_iff.mp ((mem_extIds t _).mpr h)

example : 2 ∈ referenced (.bind (some 0) (.slot (.bindReturn .leaf (.ref ⟨2, .vbase⟩))) [.ref ⟨1, .direct⟩, .val])
    ∧ ties (.bind (some 0) (.slot (.bindReturn .leaf (.ref ⟨2, .vbase⟩))) [.ref ⟨1, .direct⟩, .val]) 2 = true
    ∧ ties (.bind none .leaf [.copy ⟨1, .direct⟩]) 1 = false := by decide

/-- **C09.no_trace**: a slot rep `r` that is constructed (`bindOps`: one `add` per visited target) and later
    destroyed before its trackables (`unbindOps`: `destroy()` walks the same visitors with
    `slot_do_unbind`, `remove_callback` erases the first live entry with that data) leaves, in every
    registration target, no live entry of `r`, and everybody else's entries exactly as they would be had
    `r` never existed — for every expression, under any interleaving `s` with operations `oth` of other
    slots in the same trackables, from any starting world without entries of `r`.
    (The inner reps of stored slots are slots made from sub-expressions, so the same statement covers
    them; `visitor<slot>` itself registers nothing.) -/
theorem no_trace (e : FExpr) (r : Nat) (oth s : List Op) (w : World)
    (hoth : ∀ x ∈ oth, x.data ≠ r)
    (hfresh : ∀ u, liveCount r (w u) = 0)
    (hi : Interleave (bindOps r (repOf codeTable e).regs ++ unbindOps r (repOf codeTable e).regs) oth s) :
    (∀ u, liveCount r (run w s u) = 0) ∧ (∀ u, others r (run w s u) = others r (run w oth u)) := by
  have ha : ∀ x ∈ bindOps r (repOf codeTable e).regs ++ unbindOps r (repOf codeTable e).regs,
      x.data = r := by
    intro x hx
    rcases List.mem_append.mp hx with h | h
    · exact data_bindOps r _ x h
    · exact data_unbindOps r _ x h
  constructor
  · intro u
    rw [liveCount_interleave r hi ha hoth w w (fun _ => rfl) u, run_append,
      liveCount_run_unbindOps, liveCount_run_bindOps, hfresh u]
    omega
  · exact others_interleave r hi ha hoth w w (fun _ => rfl)

/-- the same for any list of targets (the statement does not depend on where the list came from) -/
theorem no_trace_list (ts : List Tgt) (r : Nat) (oth s : List Op) (w : World)
    (hoth : ∀ x ∈ oth, x.data ≠ r) (hfresh : ∀ u, liveCount r (w u) = 0)
    (hi : Interleave (bindOps r ts ++ unbindOps r ts) oth s) :
    (∀ u, liveCount r (run w s u) = 0) ∧ (∀ u, others r (run w s u) = others r (run w oth u)) := by
  have ha : ∀ x ∈ bindOps r ts ++ unbindOps r ts, x.data = r := by
    intro x hx
    rcases List.mem_append.mp hx with h | h
    · exact data_bindOps r _ x h
    · exact data_unbindOps r _ x h
  constructor
  · intro u
    rw [liveCount_interleave r hi ha hoth w w (fun _ => rfl) u, run_append,
      liveCount_run_unbindOps, liveCount_run_bindOps, hfresh u]
    omega
  · exact others_interleave r hi ha hoth w w (fun _ => rfl)

/-- non-vacuity: rep 7 made from `bind(mem_fun(t1), ref t1, ref t2)` (t1 registered twice), another
    slot (rep 9) registering and unregistering in t1 in between -/
example :
    let e : FExpr := .bind none (.memFun ⟨1, .direct⟩) [.ref ⟨1, .direct⟩, .ref ⟨2, .direct⟩]
    let w : World := fun u => if u = .ext 1 then [⟨9, true⟩] else []
    (repOf codeTable e).regs = [.ext 1, .ext 1, .ext 2]
    ∧ Interleave (bindOps 7 (repOf codeTable e).regs ++ unbindOps 7 (repOf codeTable e).regs)
        [.add (.ext 1) 9, .remove (.ext 1) 9]
        [.add (.ext 1) 7, .add (.ext 1) 9, .add (.ext 1) 7, .add (.ext 2) 7, .remove (.ext 1) 7,
         .remove (.ext 1) 9, .remove (.ext 1) 7, .remove (.ext 2) 7]
    ∧ run w [.add (.ext 1) 7, .add (.ext 1) 9, .add (.ext 1) 7, .add (.ext 2) 7, .remove (.ext 1) 7,
         .remove (.ext 1) 9, .remove (.ext 1) 7, .remove (.ext 2) 7] (.ext 1) = [⟨9, true⟩] := by
  refine ⟨by decide, ?_, by decide⟩
  exact .left _ (.right _ (.left _ (.left _ (.left _ (.right _ (.left _ (.left _ .nil)))))))

/-- **F1 witness**: with the table as it was before the repair (`visitor<bind_functor<I,…>>` visiting only
    `std::get<0>(bound_)`) the first theorem is false — the second bound reference is not registered. -/
theorem f1_witness :
    ¬ (visitedWith unrepairedTable
          (.bind (some 0) .leaf [.ref ⟨1, .direct⟩, .ref ⟨2, .direct⟩])).Perm
        (referenced (.bind (some 0) .leaf [.ref ⟨1, .direct⟩, .ref ⟨2, .direct⟩])) := by
  decide

/-- and consequently destroying `t2` would not invalidate that slot -/
theorem f1_witness_ties :
    (repOf unrepairedTable (.bind (some 0) .leaf [.ref ⟨1, .direct⟩, .ref ⟨2, .direct⟩])).invalidatedBy 2
      = false := by
  decide

end Sigc.C09
