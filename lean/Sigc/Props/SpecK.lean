import Sigc.Lemmas.SpecKSimG
import Sigc.Props.Refine
/-!
# SpecK — the specification with the two known findings reproduced (`k1 = k2 = true`) vs the specification
proper (`k1 = k2 = false`), on runs that stay clear of the two findings.

The simulation relation `Q ρ t u` (`Sigc/Lemmas/SpecKDefs.lean`) relates a state `t` of the first
configuration with a state `u` of the second **up to a partial bijection `ρ` of object identities** (the two
runs do not allocate the same ids), the run-level hypothesis is the instrumented run `clearTop`
(`Sigc/Lemmas/SpecKClear.lean`).
-/
namespace Sigc.SpecK
open Sigc.Model Sigc.Spec

/-- the initial states of the two configurations are related (by the empty id relation) -/
theorem init_related : Q (fun _ _ => False) ({ k1 := true, k2 := true } : LSt) ({} : LSt) :=
  { T := .nil, S := .nil, G := .nil, C := .nil, K := .nil, sigs := .nil, ownedT := .nil, ownedK := .nil,
    ownedG := .nil,
    pb := ⟨fun h => h.elim, fun h => h.elim, fun h => h.elim⟩,
    depth := rfl, steps := rfl, trace := rfl, k1 := rfl, k2 := rfl, k1' := rfl, k2' := rfl,
    keys := List.nodup_nil, inv := fun p hp => by simp at hp }

/-- no emission is in progress in the initial state -/
theorem init_quiet : Quiet ({ k1 := true, k2 := true } : LSt) := fun _ _ => rfl

/-- **stage 1 — every operation that runs no user code is simulated**: from related states (`Q ρ t u`, which
    includes the invariant of `t`), with no emission in progress outside functor bodies (`Quiet t`),
    `Spec.stepSimple` answers `none` in both configurations or `(t', r)` / `(u', r)` with the *same* result
    string, `Q ρ' t' u'` for an extension `ρ'` of `ρ` by freshly allocated ids (`Step`), and `t'` has the depth,
    the emissions in progress and the end markers of `t` (`Fr`). -/
theorem step_simulates {ρ : IdRel} {t u : LSt} (h : Q ρ t u) (hq : Quiet t) (op : Op) :
    StepR ρ t u (Spec.stepSimple t op) (Spec.stepSimple u op) := stepSimple_sim h hq op

/-- on the initial states: `newG 1 V` is answered alike -/
example : StepR (fun _ _ => False) ({ k1 := true, k2 := true } : LSt) ({} : LSt)
    (Spec.stepSimple { k1 := true, k2 := true } (.newG 1 (some .V))) (Spec.stepSimple {} (.newG 1 (some .V))) :=
  step_simulates init_related init_quiet _

/-- nothing is waiting to be collected in the initial state -/
theorem init_settled : Settled ({ k1 := true, k2 := true } : LSt) := rfl

/-- **stages 2–4, with the final states**: a run of the configuration with both known findings that stays clear
    of them (`clearTop … = true`: no deferred sweep ever drops a connected empty slot, no accumulated emission
    starts on a list with an emission in progress) is matched by the run of the specification proper with one
    more unit of fuel (an emission of an existing empty list takes the `k2` shortcut in the first configuration
    and one more recursion step in the second), ending in related states. -/
theorem known_eq_pure_state (fuel : Nat) (P : Prog) (t : LSt)
    (h : Spec.runTop fuel P { k1 := true, k2 := true } P.top = some t)
    (hclear : clearTop fuel P { k1 := true, k2 := true } P.top = true) :
    ∃ u ρ, Spec.runTop (fuel + 1) P {} P.top = some u ∧ Q ρ t u :=
  let ⟨u, hu, ρ, hq⟩ := runTop_sim fuel P P.top _ _ _ t init_related init_settled (fun _ => rfl) hclear h
  ⟨u, ρ, hu, hq⟩

/-- **`known_eq_pure`**: for every fuel and program, if the run of the specification with both known findings
    reproduced terminates and stays clear of them, the run of the specification proper (with `fuel + 1`)
    terminates with **exactly the same trace** (both interpreters answer `*` in the same places).

    (With the *same* fuel the statement is false: `newG G0 V; connfn C0 G0 fn:1; disc C0; emit G0 1` run with
    fuel 3 terminates in the first configuration and runs out of fuel in the second.) -/
theorem known_eq_pure (fuel : Nat) (P : Prog) (t : LSt)
    (h : Spec.runTop fuel P { k1 := true, k2 := true } P.top = some t)
    (hclear : clearTop fuel P { k1 := true, k2 := true } P.top = true) :
    ∃ u, Spec.runTop (fuel + 1) P {} P.top = some u ∧ u.trace = t.trace :=
  let ⟨u, _, hu, hq⟩ := known_eq_pure_state fuel P t h hclear
  ⟨u, hu, hq.trace⟩

/-- the theorem applies to all clear runs of `Refine.exProg` -/
example : ∀ fuel t, Spec.runTop fuel Refine.exProg { k1 := true, k2 := true } Refine.exProg.top = some t →
    clearTop fuel Refine.exProg { k1 := true, k2 := true } Refine.exProg.top = true →
    ∃ u, Spec.runTop (fuel + 1) Refine.exProg {} Refine.exProg.top = some u ∧ u.trace = t.trace :=
  fun fuel t h hc => known_eq_pure fuel Refine.exProg t h hc

/-- concrete instance: the run of `Refine.exProg` (re-entrant emission, the running slot disconnects itself) with
    fuel 40 terminates in the first configuration, is clear (both facts by evaluation), hence the specification
    proper terminates with the same trace -/
example : ∃ t u, Spec.runTop 40 Refine.exProg { k1 := true, k2 := true } Refine.exProg.top = some t ∧
    Spec.runTop 41 Refine.exProg {} Refine.exProg.top = some u ∧ u.trace = t.trace := by
  have hs : (Spec.runTop 40 Refine.exProg { k1 := true, k2 := true } Refine.exProg.top).isSome = true := by
    decide +kernel
  obtain ⟨t, ht⟩ := Option.isSome_iff_exists.mp hs
  obtain ⟨u, hu, he⟩ := known_eq_pure 40 _ t ht (by decide +kernel)
  exact ⟨t, u, ht, hu, he⟩

/-- concrete instance with the `k2` shortcut (`exEmpty` emits an existing empty list: afterwards the two runs
    allocate different object ids — `T1` is object 5 in one and 6 in the other) and zombie positions -/
example : ∃ t u, Spec.runTop 40 exEmpty { k1 := true, k2 := true } exEmpty.top = some t ∧
    Spec.runTop 41 exEmpty {} exEmpty.top = some u ∧ u.trace = t.trace ∧ t.T = [(1, 5)] ∧ u.T = [(1, 6)] := by
  have hs : ((Spec.runTop 40 exEmpty { k1 := true, k2 := true } exEmpty.top).map (·.T)) = some [(1, 5)] := by
    decide +kernel
  have hp : ((Spec.runTop 41 exEmpty {} exEmpty.top).map (·.T)) = some [(1, 6)] := by
    decide +kernel
  cases ht : Spec.runTop 40 exEmpty { k1 := true, k2 := true } exEmpty.top with
  | none => rw [ht] at hs; cases hs
  | some t =>
    rw [ht] at hs
    obtain ⟨u, hu, he⟩ := known_eq_pure 40 _ t ht (by decide +kernel)
    rw [hu] at hp
    exact ⟨t, u, rfl, hu, he, by simpa using hs, by simpa using hp⟩

/-- concrete instance with functor-owned signal objects (`exOwnG`: `delG` of an owned list is refused, the last
    copy of the owning functor is released during an emission of the owned list, which `collect` then destroys by
    `dropHandle`): same trace, which contains the refusal `owned`; the lists of owned signal objects of the two final
    states are related up to the id relation (owner id 11 in one, 12 in the other, same name `G2`) -/
example : ∃ t u, Spec.runTop 40 exOwnG { k1 := true, k2 := true } exOwnG.top = some t ∧
    Spec.runTop 41 exOwnG {} exOwnG.top = some u ∧ u.trace = t.trace ∧
    t.trace.any (fun e => match e with | .res _ "delG G0" "owned" => true | _ => false) = true ∧
    t.ownedG = [(11, 2)] ∧ u.ownedG = [(12, 2)] := by
  have hs : ((Spec.runTop 40 exOwnG { k1 := true, k2 := true } exOwnG.top).map
      (fun t => (t.ownedG, t.trace.any (fun e => match e with | .res _ "delG G0" "owned" => true | _ => false))))
      = some ([(11, 2)], true) := by
    decide +kernel
  have hp : ((Spec.runTop 41 exOwnG {} exOwnG.top).map (·.ownedG)) = some [(12, 2)] := by
    decide +kernel
  cases ht : Spec.runTop 40 exOwnG { k1 := true, k2 := true } exOwnG.top with
  | none => rw [ht] at hs; cases hs
  | some t =>
    rw [ht] at hs
    obtain ⟨u, hu, he⟩ := known_eq_pure 40 _ t ht (by decide +kernel)
    rw [hu] at hp
    simp only [Option.map, Option.some.injEq, Prod.mk.injEq] at hs hp
    exact ⟨t, u, rfl, hu, he, hs.2, hs.1, hp⟩

/-- the hypothesis is needed and `clearTop` detects both findings: on the K1 program (an empty slot is connected
    and a deferred sweep drops it) the instrumented run answers `false`, and the two configurations indeed end
    with lists of different lengths (1 entry vs 2) -/
example : clearTop 40 exK1 { k1 := true, k2 := true } exK1.top = false ∧
    (Spec.runTop 40 exK1 { k1 := true, k2 := true } exK1.top).map firstLen = some (some 1) ∧
    (Spec.runTop 41 exK1 {} exK1.top).map firstLen = some (some 2) := by decide +kernel

/-- on the K2 program (an accumulated emission nested in an emission of the same list) the instrumented run
    answers `false` -/
example : clearTop 40 exK2 { k1 := true, k2 := true } exK2.top = false := by decide +kernel

/-- **`model_refines_pure_spec`** (end to end): every terminating run of the mechanism model whose
    specification-level counterpart stays clear of the two known findings is allowed by the specification
    proper: the latter's run terminates (with `fuel + 1`) in a state whose trace allows the model's trace, event
    by event (equal, or `*` where the statements leave the result open). -/
theorem model_refines_pure_spec (fuel : Nat) (P : Prog) (s : St) (h : Model.runTop fuel P {} P.top = some s)
    (hclear : clearTop fuel P { k1 := true, k2 := true } P.top = true) :
    ∃ u, Spec.runTop (fuel + 1) P {} P.top = some u ∧ Refine.Allows u.trace s.trace :=
  let ⟨t, ht, hR, _⟩ := Refine.refines_state fuel P s h
  let ⟨u, hu, htr⟩ := known_eq_pure fuel P t ht hclear
  ⟨u, hu, by rw [htr]; exact hR.trace⟩

example : ∀ fuel s, Model.runTop fuel Refine.exProg {} Refine.exProg.top = some s →
    clearTop fuel Refine.exProg { k1 := true, k2 := true } Refine.exProg.top = true →
    ∃ u, Spec.runTop (fuel + 1) Refine.exProg {} Refine.exProg.top = some u ∧ Refine.Allows u.trace s.trace :=
  fun fuel s h hc => model_refines_pure_spec fuel Refine.exProg s h hc

/-- concrete instance: the mechanism model's run of `exEmpty` terminates (by evaluation) and is allowed by the
    specification proper -/
example : ∃ s u, Model.runTop 40 exEmpty {} exEmpty.top = some s ∧ Spec.runTop 41 exEmpty {} exEmpty.top = some u ∧
    Refine.Allows u.trace s.trace := by
  have hs : (Model.runTop 40 exEmpty {} exEmpty.top).isSome = true := by decide +kernel
  obtain ⟨s, hs⟩ := Option.isSome_iff_exists.mp hs
  obtain ⟨u, hu, ha⟩ := model_refines_pure_spec 40 exEmpty s hs (by decide +kernel)
  exact ⟨s, u, hs, hu, ha⟩

/-- concrete instance with functor-owned signal objects: the mechanism model's run of `exOwnG` (an owned list is
    destroyed by `collect` during its own emission) terminates (by evaluation) and is allowed by the specification
    proper -/
example : ∃ s u, Model.runTop 40 exOwnG {} exOwnG.top = some s ∧ Spec.runTop 41 exOwnG {} exOwnG.top = some u ∧
    Refine.Allows u.trace s.trace := by
  have hs : (Model.runTop 40 exOwnG {} exOwnG.top).isSome = true := by decide +kernel
  obtain ⟨s, hs⟩ := Option.isSome_iff_exists.mp hs
  obtain ⟨u, hu, ha⟩ := model_refines_pure_spec 40 exOwnG s hs (by decide +kernel)
  exact ⟨s, u, hs, hu, ha⟩

/-- the same sequence of slot invocations (which slots, in which order, nesting, arguments) -/
theorem model_calls_pure_spec (fuel : Nat) (P : Prog) (s : St) (h : Model.runTop fuel P {} P.top = some s)
    (hclear : clearTop fuel P { k1 := true, k2 := true } P.top = true) :
    ∃ u, Spec.runTop (fuel + 1) P {} P.top = some u ∧ Refine.calls u.trace = Refine.calls s.trace :=
  let ⟨u, hu, ha⟩ := model_refines_pure_spec fuel P s h hclear
  ⟨u, hu, Refine.allows_calls ha⟩

end Sigc.SpecK
