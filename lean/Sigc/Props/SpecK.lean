import Sigc.Lemmas.SpecKStepC
/-!
# SpecK — the specification with the two known findings reproduced (`k1 = k2 = true`) vs the specification
proper (`k1 = k2 = false`), on runs that stay clear of the two findings.

The simulation relation `Q ρ t u` (`Sigc/Lemmas/SpecKDefs.lean`) relates a state `t` of the first
configuration with a state `u` of the second **up to a partial bijection `ρ` of object identities** (the two
runs do not allocate the same ids), the run-level hypothesis is the instrumented run `clearTop`
(`Sigc/Lemmas/SpecKClear.lean`).
-/
namespace Sigc.SpecK
open Sigc.Model Sigc.Spec

/-- the initial states of the two configurations are related (by the empty id relation) -/
theorem init_related : Q (fun _ _ => False) ({ k1 := true, k2 := true } : LSt) ({} : LSt) :=
  { T := .nil, S := .nil, G := .nil, C := .nil, K := .nil, sigs := .nil, ownedT := .nil, ownedK := .nil,
    pb := ⟨fun h => h.elim, fun h => h.elim, fun h => h.elim⟩,
    depth := rfl, steps := rfl, trace := rfl, k1 := rfl, k2 := rfl, k1' := rfl, k2' := rfl,
    keys := List.nodup_nil, inv := fun p hp => by simp at hp }

/-- no emission is in progress in the initial state -/
theorem init_quiet : Quiet ({ k1 := true, k2 := true } : LSt) := fun _ _ => rfl

/-- **stage 1 — every operation that runs no user code is simulated**: from related states (`Q ρ t u`, which
    includes the invariant of `t`), with no emission in progress outside functor bodies (`Quiet t`),
    `Spec.stepSimple` answers `none` in both configurations or `(t', r)` / `(u', r)` with the *same* result
    string, `Q ρ' t' u'` for an extension `ρ'` of `ρ` by freshly allocated ids (`Step`), and `t'` has the depth,
    the emissions in progress and the end markers of `t` (`Fr`). -/
theorem step_simulates {ρ : IdRel} {t u : LSt} (h : Q ρ t u) (hq : Quiet t) (op : Op) :
    StepR ρ t u (Spec.stepSimple t op) (Spec.stepSimple u op) := stepSimple_sim h hq op

/-- on the initial states: `newG 1 V` is answered alike -/
example : StepR (fun _ _ => False) ({ k1 := true, k2 := true } : LSt) ({} : LSt)
    (Spec.stepSimple { k1 := true, k2 := true } (.newG 1 (some .V))) (Spec.stepSimple {} (.newG 1 (some .V))) :=
  step_simulates init_related init_quiet _

end Sigc.SpecK
