import Sigc.Model
import Sigc.Spec
import Sigc.Lemmas.Basic
import Sigc.Lemmas.SpecPDefs
import Sigc.Lemmas.SpecPEx
import Sigc.Lemmas.SpecPWFMutual
import Sigc.Lemmas.SpecPConn
import Sigc.Lemmas.SpecPOwn
/-!
# SpecProps — the specification `S` (`Sigc.Spec`) means what the property statements say

`S` is the oracle of the differential checks and the target of the refinement proof
(`Sigc.Refine.refines`).  The theorems of this file are *about `S` itself*: they read like the statements
of C01, C03, C08, C12, C13, C14 in `/verif/properties.jsonl`, so that a reader can check that `S` is the
intended specification.  All of them hold for every fuel, program and state, and — unless a hypothesis
says otherwise — for both values of the known-finding flags `k1`, `k2` (the specification proper is
`k1 = k2 = false`).

Vocabulary (`Sigc/Lemmas/SpecPDefs.lean`): `entry s i cid` = the entry `cid` of list `i`;
`callable s i cid` = the functor of that entry if the entry is, at that moment, in the list, unblocked
and valid; `snapOf k2 fl g` = the snapshot an emission of list `g` takes; `enter s i g` = the state the
turns run in; `epi i m` = the epilogue of an emission; `turnsT` = `turns` instrumented with the list of
invocations it makes.  Concrete program and states of the examples: `Sigc/Lemmas/SpecPEx.lean`.
-/
namespace Sigc.SpecP
open Sigc.Spec
open Sigc.Model (aget aset adel amap Prog Line Op FSpec Fun SlotB SlotVar Rep Handle Flavour Strat Outcome Event
  bstr showRes resultOf aget_nil aget_aset_same aget_aset_other aget_amap aget_adel_same aget_adel_other)

/-! ## C01 — connect appends / connect_first prepends; emission invokes exactly the callable entries -/

/-- `insertCell` (the core of `connect` / `connect_first`) adds exactly one entry, holding the given slot
    (a slot without rep is stored with the dummy, invalid rep), with the id `s.next`, at the end
    (`first = false`) or at the front (`first = true`) of list `i`; it returns that id, consumes it, and
    changes no other list and nothing else -/
theorem insertCell_adds_one (s : LSt) (i : Nat) (first : Bool) (sl : SlotB) (g : LSig)
    (hg : aget s.sigs i = some g) :
    (insertCell s i first sl).2 = s.next ∧
    aget (insertCell s i first sl).1.sigs i =
      some { g with cells := if first then { id := s.next, slot := normSlot sl } :: g.cells
                             else g.cells ++ [{ id := s.next, slot := normSlot sl }] } ∧
    (∀ k, k ≠ i → aget (insertCell s i first sl).1.sigs k = aget s.sigs k) ∧
    (insertCell s i first sl).1.next = s.next + 1 ∧
    (insertCell s i first sl).1.S = s.S ∧ (insertCell s i first sl).1.G = s.G ∧
    (insertCell s i first sl).1.C = s.C ∧ (insertCell s i first sl).1.K = s.K ∧
    (insertCell s i first sl).1.T = s.T ∧ (insertCell s i first sl).1.trace = s.trace := by
  have e : insertCell s i first sl =
      (setSig { s with next := s.next + 1 } i
        { g with cells := if first then { id := s.next, slot := normSlot sl } :: g.cells
                          else g.cells ++ [{ id := s.next, slot := normSlot sl }] }, s.next) := by
    simp only [insertCell, LSt.fresh, hg]
    obtain ⟨b, rep⟩ := sl
    cases rep <;> rfl
  rw [e]
  refine ⟨rfl, aget_aset_same _ _ _, ?_, rfl, rfl, rfl, rfl, rfl, rfl, rfl⟩
  intro k hk
  exact aget_aset_other _ _ _ _ hk

example : aget (insertCell exS 1 false (exSlot 9)).1.sigs 1 =
    some { exSig with cells := exSig.cells ++ [{ id := 20, slot := exSlot 9 }] } :=
  (insertCell_adds_one exS 1 false (exSlot 9) exSig rfl).2.1

/-- the new entry's id is fresh: different from every id of the list, provided ids are handed out below
    `s.next` (true of every reachable state: `WF`, see `run_WF`) -/
theorem insertCell_id_fresh (s : LSt) (i : Nat) (first : Bool) (sl : SlotB) (g : LSig)
    (hlt : ∀ c ∈ g.cells, c.id < s.next) : ∀ c ∈ g.cells, c.id ≠ (insertCell s i first sl).2 := by
  intro c hc
  have h1 : (insertCell s i first sl).2 = s.next := by
    simp only [insertCell, LSt.fresh]
    split <;> rfl
  rw [h1]
  exact Nat.ne_of_lt (hlt c hc)

example : ∀ c ∈ exSig.cells, c.id ≠ (insertCell exS 1 true (exSlot 9)).2 :=
  insertCell_id_fresh exS 1 true (exSlot 9) exSig (by decide)

/-- `connect` (`first = false`) appends: the list afterwards is the old list followed by the new entry -/
theorem connect_appends (s : LSt) (i : Nat) (sl : SlotB) (g : LSig) (hg : aget s.sigs i = some g) :
    (aget (insertCell s i false sl).1.sigs i).map (·.cells) =
      some (g.cells ++ [{ id := s.next, slot := normSlot sl }]) := by
  rw [(insertCell_adds_one s i false sl g hg).2.1]; rfl

/-- `connect_first` (`first = true`) prepends -/
theorem connect_first_prepends (s : LSt) (i : Nat) (sl : SlotB) (g : LSig) (hg : aget s.sigs i = some g) :
    (aget (insertCell s i true sl).1.sigs i).map (·.cells) =
      some ({ id := s.next, slot := normSlot sl } :: g.cells) := by
  rw [(insertCell_adds_one s i true sl g hg).2.1]; rfl

example : (aget (insertCell exS 1 true (exSlot 9)).1.sigs 1).map (fun g => g.cells.map (·.id)) = some [20, 2, 3, 4] := by
  decide +kernel

/-- the operation `connfn k g fn:fid first` on a signal object that has a list: that list gets one new
    entry — valid, unblocked, holding functor `fid` — at the end / front, connection `k` points at it,
    every other list is unchanged -/
theorem connfn_adds_one (s : LSt) (k g fid : Nat) (first : Bool) (h : Handle) (im : Nat) (x : LSig)
    (hg : aget s.G g = some h) (hi : h.impl = some im) (hx : aget s.sigs im = some x) :
    ∃ s', Spec.stepSimple s (.connfn k g (.fn fid) first) = some (s', "ok") ∧
      aget s'.sigs im = some { x with cells :=
        if first then { id := s.next, slot := exSlot fid } :: x.cells
        else x.cells ++ [{ id := s.next, slot := exSlot fid }] } ∧
      (∀ j, j ≠ im → aget s'.sigs j = aget s.sigs j) ∧
      aget s'.C k = some (some s.next) ∧ (∀ j, j ≠ k → aget s'.C j = aget s.C j) ∧ s'.G = s.G := by
  have hlvl : ¬ ((-1 : Int) ≥ (h.lvl : Int)) := by omega
  have e := insertCell_adds_one s im first (exSlot fid) x hx
  have hs : Spec.stepSimple s (.connfn k g (.fn fid) first) =
      some ({ (insertCell s im first (exSlot fid)).1 with
                C := aset (insertCell s im first (exSlot fid)).1.C k (some (insertCell s im first (exSlot fid)).2) }, "ok") := by
    simp only [Spec.stepSimple, hg, Spec.mkFun, Spec.specTaint, hlvl, if_false, ensureSig, hi]
    rfl
  refine ⟨_, hs, e.2.1, e.2.2.1, ?_, ?_, e.2.2.2.2.2.1⟩
  · simp only [e.1]; exact aget_aset_same _ _ _
  · intro j hj
    simp only [e.2.2.2.2.2.2.1]
    exact aget_aset_other _ _ _ _ hj

example : ∃ s', Spec.stepSimple exS (.connfn 7 0 (.fn 1) false) = some (s', "ok") ∧
    (aget s'.sigs 1).map (fun g => g.cells.map (·.id)) = some [2, 3, 4, 20] := by
  obtain ⟨s', h1, h2, _⟩ := connfn_adds_one exS 7 0 1 false _ 1 exSig rfl rfl rfl
  exact ⟨s', h1, by rw [h2]; rfl⟩

/-- the functor `S` invokes at an entry's turn — `callable` — is defined exactly when the entry is in
    the list, unblocked and valid at that moment -/
theorem callable_iff (s : LSt) (i cid : Nat) (fn : Fun) :
    callable s i cid = some fn ↔
      ∃ g c, aget s.sigs i = some g ∧ g.cells.find? (·.id = cid) = some c ∧
        c.slot.blocked = false ∧ c.slot.rep = some { call := true, fn := some fn } := by
  rw [callable_eq]
  unfold entry
  constructor
  · intro h
    cases hg : aget s.sigs i with
    | none => simp [hg] at h
    | some g =>
      cases hc : g.cells.find? (·.id = cid) with
      | none => simp [hg, hc] at h
      | some c =>
        simp only [hg, hc, Option.bind_some] at h
        exact ⟨g, c, rfl, hc, (slotFun_eq_some _ _).1 h⟩
  · rintro ⟨g, c, hg, hc, hb⟩
    simp only [hg, hc, Option.bind_some]
    exact (slotFun_eq_some _ _).2 hb

example : callable exS 1 2 = some (.leaf 1 []) ∧ callable exS 1 3 = none ∧ callable exS 1 9 = none :=
  ⟨rfl, rfl, rfl⟩

/-- an entry that is not (or no longer) in the list, is blocked, or is invalid (`empty()`) is not callable -/
theorem not_callable (s : LSt) (i cid : Nat)
    (h : entry s i cid = none ∨ ∃ c, entry s i cid = some c ∧ (c.slot.blocked = true ∨ c.slot.empty = true)) :
    callable s i cid = none := by
  rw [callable_eq]
  rcases h with h | ⟨c, h, hb | he⟩
  · simp [h]
  · simp [h, slotFun_blocked _ hb]
  · simp [h, slotFun_empty _ he]

example : callable exS 1 3 = none := not_callable exS 1 3 (Or.inr ⟨_, rfl, Or.inl rfl⟩)

/-- the turns over an exhausted snapshot end normally with the value so far -/
theorem turns_done (f : Nat) (P : Prog) (s : LSt) (i arg r : Nat) :
    turns (f+1) P s i [] arg r = some (s, .ok, r) := turns_nil f P s i arg r

/-- the turn of an entry that is callable: its functor is invoked with the emitted argument; a normal
    return continues with the rest of the snapshot in the state the functor left and with its value -/
theorem turns_invokes_callable (f : Nat) (P : Prog) (s : LSt) (i cid : Nat) (rest : List Nat) (arg r : Nat) (fn : Fun)
    (hc : callable s i cid = some fn) :
    turns (f+1) P s i (cid :: rest) arg r =
      match Spec.invokeFun f P s fn arg with
      | none => none
      | some (s1, .exc, v) => some (s1, .exc, v)
      | some (s1, .ok, v) => turns f P s1 i rest arg v := by
  rw [turns_cons, hc]
  simp only
  cases Spec.invokeFun f P s fn arg with
  | none => rfl
  | some x => obtain ⟨s1, o, v⟩ := x; cases o <;> rfl

/-- the turn of an entry that is absent, blocked or invalid: nothing is invoked, state and value so far
    are unchanged -/
theorem turns_skips_not_callable (f : Nat) (P : Prog) (s : LSt) (i cid : Nat) (rest : List Nat) (arg r : Nat)
    (hc : callable s i cid = none) :
    turns (f+1) P s i (cid :: rest) arg r = turns f P s i rest arg r := by
  rw [turns_cons, hc]

example : turns 3 exP exS 1 [3, 9] 5 0 = some (exS, .ok, 0) := by
  rw [turns_skips_not_callable _ _ _ _ _ _ _ _ rfl, turns_skips_not_callable _ _ _ _ _ _ _ _ rfl, turns_done]

/-- `turnsT` is `turns` plus the log of invocations -/
theorem turnsT_projects (f : Nat) (P : Prog) (s : LSt) (i : Nat) (snap : List Nat) (arg r : Nat) :
    (turnsT f P s i snap arg r).map (·.1) = turns f P s i snap arg r := turnsT_fst f P s i snap arg r

/-- the one-step equations of `turnsT`: a non-callable entry adds nothing to the log; a callable one
    adds exactly one invocation — of its own functor, with the emitted argument — in front of the
    invocations of the rest; an exception ends the log -/
theorem turnsT_step (f : Nat) (P : Prog) (s : LSt) (i cid : Nat) (rest : List Nat) (arg r : Nat) :
    turnsT (f+1) P s i (cid :: rest) arg r =
      match callable s i cid with
      | none => turnsT f P s i rest arg r
      | some fn =>
        match Spec.invokeFun f P s fn arg with
        | none => none
        | some (s1, .exc, v) => some ((s1, .exc, v), [⟨cid, fn, arg, v⟩])
        | some (s1, .ok, v) => (turnsT f P s1 i rest arg v).map (fun x => (x.1, ⟨cid, fn, arg, v⟩ :: x.2)) := by
  rw [turnsT]
  cases callable s i cid with
  | none => rfl
  | some fn =>
    simp only
    cases Spec.invokeFun f P s fn arg with
    | none => rfl
    | some x => obtain ⟨s1, o, v⟩ := x; cases o <;> rfl

/-- every terminating `turns` is a `turnsT` run: there is a log -/
theorem turns_has_log (f : Nat) (P : Prog) (s : LSt) (i : Nat) (snap : List Nat) (arg r : Nat) (x : LSt × Outcome × Nat)
    (h : turns f P s i snap arg r = some x) : ∃ l, turnsT f P s i snap arg r = some (x, l) := by
  rw [← turnsT_fst] at h
  cases ht : turnsT f P s i snap arg r with
  | none => simp [ht] at h
  | some y => obtain ⟨x', l⟩ := y; simp [ht] at h; exact ⟨l, by rw [h]⟩

/-- the entries invoked by an emission are entries of the snapshot, in snapshot order, each position at
    most once (the ids of the log are a sublist of the snapshot); in particular at most as many
    invocations as snapshot entries, and — the ids of a list being distinct — no entry twice -/
theorem invoked_in_snapshot_order_once (f : Nat) (P : Prog) (s : LSt) (i : Nat) (snap : List Nat) (arg r : Nat)
    (x : LSt × Outcome × Nat) (l : List Inv) (h : turnsT f P s i snap arg r = some (x, l)) :
    (l.map (·.cid)).Sublist snap ∧ l.length ≤ snap.length ∧ (snap.Nodup → (l.map (·.cid)).Nodup) := by
  have hs := turnsT_sublist f P s i snap arg r x l h
  refine ⟨hs, ?_, fun hn => hs.nodup hn⟩
  have := hs.length_le
  simpa using this

/-- every invoked functor is passed the emitted argument -/
theorem invoked_with_emitted_argument (f : Nat) (P : Prog) (s : LSt) (i : Nat) (snap : List Nat) (arg r : Nat)
    (x : LSt × Outcome × Nat) (l : List Inv) (h : turnsT f P s i snap arg r = some (x, l)) :
    ∀ c ∈ l, c.arg = arg := turnsT_arg f P s i snap arg r x l h

example : (turnsT 10 exP exS 1 [2, 3, 4] 5 0).map (fun x => x.2.map (fun c => (c.cid, c.arg))) = some [(2, 5)] := by
  decide +kernel

/-- `size()` outside an emission is the number of entries of the list (0 without a list), `empty()` is
    true exactly when there is none -/
theorem size_is_length (s : LSt) (g im : Nat) (h : Handle) (x : LSig)
    (hg : aget s.G g = some h) (hi : h.impl = some im) (hx : aget s.sigs im = some x) (hq : x.active = 0) :
    Spec.stepSimple s (.sizeq g) = some (s, toString x.cells.length) ∧
    Spec.stepSimple s (.emptyGq g) = some (s, bstr x.cells.isEmpty) ∧
    (bstr x.cells.isEmpty = "1" ↔ x.cells = []) := by
  refine ⟨by simp [Spec.stepSimple, hg, hi, hx, hq], by simp [Spec.stepSimple, hg, hi, hx, hq], ?_⟩
  cases x.cells <;> simp [bstr]

theorem size_without_list (s : LSt) (g : Nat) (h : Handle) (hg : aget s.G g = some h) (hi : h.impl = none) :
    Spec.stepSimple s (.sizeq g) = some (s, "0") ∧ Spec.stepSimple s (.emptyGq g) = some (s, "1") := by
  constructor <;> simp [Spec.stepSimple, hg, hi]

example : Spec.stepSimple exS (.sizeq 0) = some (exS, "3") ∧ Spec.stepSimple exS (.emptyGq 0) = some (exS, "0") := by
  have := size_is_length exS 0 1 _ exSig rfl rfl rfl rfl
  exact ⟨this.1, this.2.1⟩

example : Spec.stepSimple exS (.sizeq 2) = some (exS, "0") := (size_without_list exS 2 _ rfl rfl).1

/-- removal is immediate: `LSig.remove` (the core of disconnect / clear / invalidation) leaves, without
    `k2`, exactly the entries not selected (markers never leave) — whether or not an emission of the
    list is running — and never changes `active` -/
theorem remove_is_filter (g : LSig) (k1 dropFn : Bool) (p : LCell → Bool) :
    (g.remove k1 false dropFn p).cells = g.cells.filter (fun c => !(p c) || c.marker) ∧
    (g.remove k1 false dropFn p).active = g.active := by
  simp [LSig.remove]

theorem remove_keeps_active (g : LSig) (k1 k2 dropFn : Bool) (p : LCell → Bool) :
    (g.remove k1 k2 dropFn p).active = g.active := rfl

example : (LSig.remove { exSig with active := 2 } false false false (fun c => c.id = 3)).cells.map (·.id) = [2, 4] := by
  decide +kernel

/-- disconnecting entry `cid` (found in list `i`): that list loses it at once; every other list is unchanged -/
theorem removeCell_immediate (s : LSt) (cid i : Nat) (g : LSig) (hk : s.k2 = false)
    (hf : findSig s.sigs cid = some i) (hg : aget s.sigs i = some g) :
    (∃ g', aget (removeCell s cid).sigs i = some g' ∧
       g'.cells = g.cells.filter (fun c => !(c.id = cid) || c.marker) ∧ g'.active = g.active) ∧
    (∀ j, j ≠ i → aget (removeCell s cid).sigs j = aget s.sigs j) := by
  simp only [removeCell, hf, hg, setSig, hk]
  refine ⟨⟨_, aget_aset_same _ _ _, ?_, rfl⟩, fun j hj => aget_aset_other _ _ _ _ hj⟩
  simp [LSig.remove]

example : (aget (removeCell { exS with sigs := [(1, { exSig with active := 1 })] } 3).sigs 1).map
    (fun g => (g.cells.map (·.id), g.active)) = some ([2, 4], 1) := by decide +kernel

/-- `clear()`: every entry leaves at once (only markers of running emissions stay, and only with `k2`) -/
theorem clear_immediate (s : LSt) (g im : Nat) (h : Handle) (x : LSig) (hk : s.k2 = false)
    (hg : aget s.G g = some h) (hi : h.impl = some im) (hx : aget s.sigs im = some x) :
    ∃ s' x', Spec.stepSimple s (.clear g) = some (s', "ok") ∧ aget s'.sigs im = some x' ∧
      x'.cells = x.cells.filter (·.marker) ∧ x'.active = x.active ∧
      (∀ j, j ≠ im → aget s'.sigs j = aget s.sigs j) := by
  refine ⟨setSig s im (x.remove s.k1 s.k2 false (fun _ => true)), _, by simp only [Spec.stepSimple, hg, hi, hx],
    aget_aset_same _ _ _, ?_, rfl, fun j hj => aget_aset_other _ _ _ _ hj⟩
  simp [LSig.remove, hk]

example : ∃ s' x', Spec.stepSimple exS (.clear 0) = some (s', "ok") ∧ aget s'.sigs 1 = some x' ∧ x'.cells = [] := by
  obtain ⟨s', x', h1, h2, h3, _⟩ := clear_immediate exS 0 1 _ exSig rfl rfl rfl rfl
  exact ⟨s', x', h1, h2, by rw [h3]; rfl⟩

/-- a trackable dies: in every list, every entry whose functor refers to it leaves at once -/
theorem invalidate_immediate (s : LSt) (t i : Nat) (hk : s.k2 = false) :
    aget (invalidateTrackable s t).sigs i =
      (aget s.sigs i).map (fun g => g.remove s.k1 false true (fun c => c.slot.tracksObj t)) ∧
    ∀ g, aget s.sigs i = some g →
      ∃ g', aget (invalidateTrackable s t).sigs i = some g' ∧
        g'.cells = g.cells.filter (fun c => !(c.slot.tracksObj t) || c.marker) ∧ g'.active = g.active := by
  have h1 : aget (invalidateTrackable s t).sigs i =
      (aget s.sigs i).map (fun g => g.remove s.k1 false true (fun c => c.slot.tracksObj t)) := by
    simp only [invalidateTrackable, aget_amap, hk]
  refine ⟨h1, ?_⟩
  intro g hg
  rw [h1, hg]
  exact ⟨_, rfl, (remove_is_filter g s.k1 true _).1, rfl⟩

example : (aget (invalidateTrackable
      { exS with sigs := [(1, { cells := [{ id := 2, slot := exSlot 1 },
          { id := 3, slot := { rep := some { call := true, fn := some (.leaf 2 [77]) } } }], active := 1 })] } 77).sigs 1).map
    (fun g => (g.cells.map (·.id), g.active)) = some ([2], 1) := by decide +kernel

/-! ## C03 — connect / disconnect during an emission -/

/-- one emission of an existing list, unfolded once: the snapshot is computed from the list *as it is when
    the emission starts*, before any functor runs; the body (turns, or the accumulator's strategy) gets it
    as a fixed argument and runs in `enter s i g` (one more emission in progress); the result state is the
    epilogue `epi` of the state the body ended in, outcome and value are the body's -/
theorem emitSig_unfold (f : Nat) (P : Prog) (s : LSt) (fl : Flavour) (i arg : Nat) (strat : Strat) (g : LSig)
    (hg : aget s.sigs i = some g) (hk : (s.k2 && !fl.isAcc && g.cells.isEmpty) = false) :
    emitSig (f+1) P s fl (some i) arg strat =
      (body f P (enter s i g) fl i (snapOf s.k2 fl g) arg strat).map
        (fun x => (epi i s.next x.1, x.2.1, x.2.2)) := emitSig_eq f P s fl i arg strat g hg hk

/-- the specification proper (`k2 = false`): the snapshot is the ids of the entries in the list at the
    start; the turns run on the same list with `active + 1` -/
theorem emitSig_unfold_pure (f : Nat) (P : Prog) (s : LSt) (fl : Flavour) (i arg : Nat) (strat : Strat) (g : LSig)
    (hg : aget s.sigs i = some g) (hk : s.k2 = false) :
    emitSig (f+1) P s fl (some i) arg strat =
      (body f P (setSig { s with next := s.next + 1 } i { g with active := g.active + 1 }) fl i
          ((g.cells.filter (fun c => !c.marker && !c.zombie)).map (·.id)) arg strat).map
        (fun x => (epi i s.next x.1, x.2.1, x.2.2)) := by
  rw [emitSig_eq f P s fl i arg strat g hg (by simp [hk])]
  simp [enter, snapOf, hk]

example : (emitSig 10 exP exS2 .I (some 1) 5 .sum).map (fun x => x.2) = some (.exc, 55) := by decide +kernel

/-- the snapshot contains only entries that are in the list when the emission starts … -/
theorem snapshot_only_start_entries (k2 : Bool) (fl : Flavour) (g : LSig) :
    ∀ cid ∈ snapOf k2 fl g, ∃ c ∈ g.cells, c.id = cid := by
  intro cid h
  simp only [snapOf, List.mem_map, List.mem_filter] at h
  obtain ⟨c, ⟨hc, _⟩, rfl⟩ := h
  exact ⟨c, hc, rfl⟩

/-- … in list order; in the specification proper (no markers, no zombies) it is exactly the list's ids -/
theorem snapshot_is_list (k2 : Bool) (fl : Flavour) (g : LSig)
    (h : ∀ c ∈ g.cells, c.marker = false ∧ c.zombie = false) : snapOf k2 fl g = g.cells.map (·.id) := by
  unfold snapOf
  rw [List.filter_eq_self.2]
  intro c hc
  simp [h c hc]

example : snapOf false .I exSig = [2, 3, 4] := snapshot_is_list false .I exSig (by decide)

/-- an entry connected during an emission is not in that emission's snapshot: ids are handed out
    increasingly (`next_mono`: `s.next ≤ s1.next` for every state `s1` reached from `s`), the snapshot
    holds ids below `s.next` (`WF`), the new entry gets `s1.next` -/
theorem connected_during_emission_not_in_snapshot (s s1 : LSt) (fl : Flavour) (g : LSig) (j : Nat) (first : Bool)
    (sl : SlotB) (hlt : ∀ c ∈ g.cells, c.id < s.next) (hn : s.next ≤ s1.next) :
    (insertCell s1 j first sl).2 ∉ snapOf s.k2 fl g := by
  have h1 : (insertCell s1 j first sl).2 = s1.next := by
    simp only [insertCell, LSt.fresh]
    split <;> rfl
  rw [h1]
  intro hm
  obtain ⟨c, hc, he⟩ := snapshot_only_start_entries _ _ _ _ hm
  have := hlt c hc
  omega

example : (insertCell { exS with next := 31 } 1 false (exSlot 9)).2 ∉ snapOf exS.k2 .I exSig :=
  connected_during_emission_not_in_snapshot exS _ .I exSig 1 false _ (by decide) (by decide)

/-- … but it is in the snapshot of every later emission while it stays in the list -/
theorem present_entry_in_later_snapshot (k2 : Bool) (fl : Flavour) (g : LSig) (c : LCell)
    (hc : c ∈ g.cells) (hm : c.marker = false) (hz : c.zombie = false) : c.id ∈ snapOf k2 fl g := by
  simp only [snapOf, List.mem_map, List.mem_filter]
  exact ⟨c, ⟨hc, by simp [hm, hz]⟩, rfl⟩

example : 20 ∈ snapOf false .I ((aget (insertCell exS 1 false (exSlot 9)).1.sigs 1).getD {}) := by decide +kernel

/-- an entry disconnected before its turn is not invoked: after `removeCell` it is not in its list any
    more, hence not callable, hence skipped by `turns` (and by `deref`) — whatever `active` is -/
theorem disconnected_before_turn_not_invoked (s : LSt) (cid i : Nat) (g : LSig) (hk : s.k2 = false)
    (hf : findSig s.sigs cid = some i) (hg : aget s.sigs i = some g) (hm : ∀ c ∈ g.cells, c.marker = false) :
    entry (removeCell s cid) i cid = none ∧ callable (removeCell s cid) i cid = none ∧
    ∀ f P rest arg r, turns (f+1) P (removeCell s cid) i (cid :: rest) arg r = turns f P (removeCell s cid) i rest arg r := by
  have he : entry (removeCell s cid) i cid = none := by
    simp only [entry, removeCell, hf, hg, setSig, hk, aget_aset_same, Option.bind_some, LSig.remove]
    simp only [Bool.false_and, Bool.false_eq_true, if_false, List.find?_eq_none, List.mem_filter]
    rintro c ⟨hc, hp⟩
    simp [hm c hc] at hp
    simpa using hp
  have hc : callable (removeCell s cid) i cid = none := by rw [callable_eq, he]; rfl
  exact ⟨he, hc, fun f P rest arg r => turns_skips_not_callable f P _ i cid rest arg r hc⟩

example : callable (removeCell exS 4) 1 4 = none :=
  (disconnected_before_turn_not_invoked exS 4 1 exSig rfl rfl rfl (by decide)).2.1

/-- the same after `clear()` and after the death of a tracked object: the entries concerned are gone -/
theorem cleared_not_invoked (g : LSig) (k1 : Bool) (dropFn : Bool) (p : LCell → Bool) (cid : Nat)
    (hm : ∀ c ∈ g.cells, c.marker = false) (hp : ∀ c ∈ g.cells, c.id = cid → p c = true) :
    (g.remove k1 false dropFn p).cells.find? (·.id = cid) = none := by
  simp only [LSig.remove, Bool.false_and, Bool.false_eq_true, if_false, List.find?_eq_none, List.mem_filter]
  rintro c ⟨hc, hq⟩
  intro hid
  simp only [decide_eq_true_eq] at hid
  simp [hm c hc, hp c hc hid] at hq

example : (exSig.remove false false false (fun _ => true)).cells.find? (·.id = 3) = none :=
  cleared_not_invoked exSig false false _ 3 (by decide) (by intros; rfl)

/-- the epilogue of an emission takes back the `+ 1` of `enter` … -/
theorem closeSig_active (m : Nat) (g2 : LSig) : (closeSig m g2).active = g2.active - 1 := by
  unfold closeSig
  simp only
  split <;> split <;> rfl

/-- … and, in the specification proper (no zombies, not dirty), leaves the list as the turns left it
    (minus the id consumed by `enter`, which no entry has): when the emission returns the list holds
    exactly the still-connected entries -/
theorem closeSig_cells (m : Nat) (g2 : LSig) (hz : ∀ c ∈ g2.cells, c.zombie = false) (hd : g2.dirty = false)
    (hm : ∀ c ∈ g2.cells, c.id ≠ m) : (closeSig m g2).cells = g2.cells := by
  by_cases ha : g2.active - 1 = 0
  · simp only [closeSig, hd, ha, List.filter_filter]
    simp only [Bool.and_false, Bool.false_eq_true, if_false, if_true, List.filter_eq_self]
    intro c hc
    simp [hz c hc, hm c hc]
  · simp only [closeSig, hd, ha]
    simp only [Bool.and_false, Bool.false_eq_true, if_false, List.filter_eq_self]
    intro c hc
    simp [hm c hc]

/-- the epilogue as a whole -/
theorem epi_eq (i m : Nat) (s2 : LSt) (g2 : LSig) (h : aget s2.sigs i = some g2) :
    epi i m s2 = Spec.collect (gcSig (setSig s2 i (closeSig m g2)) i) := by
  simp only [epi, h]

example : (closeSig 20 { exSig with active := 1 }).active = 0 ∧ (closeSig 20 { exSig with active := 1 }).cells = exSig.cells :=
  ⟨closeSig_active _ _, closeSig_cells 20 { exSig with active := 1 } (by decide) rfl (by decide)⟩

/-! ## C08 — an exception thrown by a slot propagates and leaves the signal consistent -/

/-- `throw` raises -/
theorem throw_raises (f : Nat) (P : Prog) (s : LSt) : Spec.execOp (f+1) P s .throw_ = some (s, .error ()) := by
  rw [Spec.execOp]

/-- a line whose operation raises ends with outcome `.exc` (logged as `exc`) -/
theorem execLine_raises (f : Nat) (P : Prog) (s s1 : LSt) (l : Line) (e : Unit)
    (h : Spec.execOp f P { s with steps := s.steps + 1 } l.op = some (s1, .error e)) :
    Spec.execLine (f+1) P s l = some (Spec.collect (s1.log (.res s1.depth l.text "exc")), .exc) := by
  rw [Spec.execLine]
  simp only [h]

/-- a functor body stops at the first line that raises: the lines after it are not executed … -/
theorem runBody_stops_at_exception (f : Nat) (P : Prog) (s s1 : LSt) (l : Line) (ls : List Line)
    (h : Spec.execLine f P s l = some (s1, .exc)) : Spec.runBody (f+1) P s (l :: ls) = some (s1, .exc) := by
  rw [Spec.runBody]
  simp only [h]

/-- … and otherwise continues with the next line -/
theorem runBody_continues (f : Nat) (P : Prog) (s s1 : LSt) (l : Line) (ls : List Line)
    (h : Spec.execLine f P s l = some (s1, .ok)) : Spec.runBody (f+1) P s (l :: ls) = Spec.runBody f P s1 ls := by
  rw [Spec.runBody]
  simp only [h]

example : (Spec.runBody 5 exP exS [{ text := "throw", op := .throw_ }, { text := "clear 0", op := .clear 0 }]).map
    (fun x => (x.2, (aget x.1.sigs 1).map (·.cells.length))) = some (.exc, some 3) := by decide +kernel

/-- the outcome of a user functor is the outcome of its body (with the call depth restored) -/
theorem invokeFun_outcome_of_body (f : Nat) (P : Prog) (s s1 : LSt) (fid arg : Nat) (ts : List Nat) (b : List Line)
    (o : Outcome) (hb : aget P.bodies fid = some b)
    (h : Spec.runBody f P { (s.log (.call s.depth fid arg)) with depth := s.depth + 1 } b = some (s1, o)) :
    Spec.invokeFun (f+1) P s (.leaf fid ts) arg = some ({ s1 with depth := s1.depth - 1 }, o, resultOf fid arg) := by
  rw [Spec.invokeFun]
  simp only [hb]
  have h' : Spec.runBody f P { (s.log (.call s.depth fid arg)) with depth := (s.log (.call s.depth fid arg)).depth + 1 } b
      = some (s1, o) := h
  simp only [h']

/-- `turns` ends with `.exc` as soon as an invoked functor does, in the state that functor left, without
    offering a turn to any later entry -/
theorem turns_stops_at_exception (f : Nat) (P : Prog) (s s1 : LSt) (i cid : Nat) (rest : List Nat) (arg r v : Nat)
    (fn : Fun) (hc : callable s i cid = some fn) (hi : Spec.invokeFun f P s fn arg = some (s1, .exc, v)) :
    turns (f+1) P s i (cid :: rest) arg r = some (s1, .exc, v) := by
  rw [turns_invokes_callable f P s i cid rest arg r fn hc, hi]

example : (turns 10 exP exS2 1 [2, 4, 6] 5 0).map (fun x => (x.2.1, x.1.trace.length)) = some (.exc, 4) := by
  decide +kernel

/-- the same for a dereference of the accumulator's iterator … -/
theorem deref_stops_at_exception (f : Nat) (P : Prog) (s s1 : LSt) (i : Nat) (snap : List Nat) (it : It) (arg cid v : Nat)
    (fn : Fun) (hp : snap[it.pos]? = some cid) (hc : callable s i cid = some fn) (hinv : it.invoked = false)
    (hi : Spec.invokeFun f P s fn arg = some (s1, .exc, v)) :
    Spec.deref (f+1) P s i snap it arg = some (s1, .exc, it) := by
  rw [deref_eq]
  simp [hp, hc, hinv, hi]

/-- … and for the accumulator strategies: an exception in a dereference ends the loop at once, with no
    further recursive call -/
theorem accLoop_stops_at_exception (f : Nat) (P : Prog) (s s1 : LSt) (i : Nat) (snap : List Nat) (it it' : It)
    (arg mode k r : Nat) (hpos : it.pos < snap.length) (hm : mode ≠ 3)
    (hd : Spec.deref f P s i snap it arg = some (s1, .exc, it')) :
    Spec.accLoop (f+1) P s i snap it arg mode k r = some (s1, .exc, r) := by
  rw [Spec.accLoop]
  simp [Nat.not_le.2 hpos, hm, hd]

theorem revLoop_stops_at_exception (f : Nat) (P : Prog) (s s1 : LSt) (i : Nat) (snap : List Nat) (it it' : It)
    (arg r : Nat) (hpos : it.pos ≠ 0)
    (hd : Spec.deref f P s i snap { it with pos := it.pos - 1, invoked := false } arg = some (s1, .exc, it')) :
    Spec.revLoop (f+1) P s i snap it arg r = some (s1, .exc, r) := by
  rw [Spec.revLoop]
  simp [hpos, hd]

theorem walkLoop_stops_at_exception (f : Nat) (P : Prog) (s s1 : LSt) (i : Nat) (snap : List Nat) (it it' : It)
    (arg r : Nat) (c : Char) (cs : List Char) (hpos : it.pos < snap.length) (hc : c = 'd' ∨ c = 'c')
    (hd : Spec.deref f P s i snap it arg = some (s1, .exc, it')) :
    Spec.walkLoop (f+1) P s i snap it arg (c :: cs) r = some (s1, .exc, r) := by
  rw [Spec.walkLoop]
  rcases hc with rfl | rfl <;> simp [Nat.not_le.2 hpos, hd]

/-- the epilogue of an emission does not depend on how its body ended: the result state is `epi` of the
    state the body ended in, for a normal and for an exceptional end alike; outcome and value are passed on -/
theorem emitSig_epilogue_same (f : Nat) (P : Prog) (s s' : LSt) (fl : Flavour) (i arg : Nat) (strat : Strat) (g : LSig)
    (o : Outcome) (v : Nat) (hg : aget s.sigs i = some g) (hk : (s.k2 && !fl.isAcc && g.cells.isEmpty) = false)
    (h : emitSig (f+1) P s fl (some i) arg strat = some (s', o, v)) :
    ∃ s2, body f P (enter s i g) fl i (snapOf s.k2 fl g) arg strat = some (s2, o, v) ∧ s' = epi i s.next s2 := by
  rw [emitSig_eq f P s fl i arg strat g hg hk] at h
  cases hb : body f P (enter s i g) fl i (snapOf s.k2 fl g) arg strat with
  | none => simp [hb] at h
  | some x =>
    obtain ⟨s2, o2, v2⟩ := x
    simp only [hb, Option.map_some, Option.some.injEq, Prod.mk.injEq] at h
    obtain ⟨rfl, rfl, rfl⟩ := h
    exact ⟨s2, rfl, rfl⟩

/-- after the aborted emission the list is back to `active = 0` and holds the entries still connected -/
example : (emitSig 10 exP exS2 .I (some 1) 5 .sum).map
    (fun x => (x.2.1, (aget x.1.sigs 1).map (fun g => (g.active, g.cells.map (·.id))))) =
    some (.exc, some (0, [2, 4, 6, 21])) := by decide +kernel

/-- the exception reaches the caller of `emit()`: the operation raises (and `try … emit` reports `caught`) -/
theorem emit_exception_reaches_caller (f : Nat) (P : Prog) (s s1 : LSt) (g arg v : Nat) (strat : Strat) (h : Handle)
    (hg : aget s.G g = some h) (hd : ¬ s.depth ≥ P.maxdepth) (hs : ¬ s.steps > P.maxsteps)
    (he : emitSig f P s h.fl h.impl arg strat = some (s1, .exc, v)) :
    Spec.execOp (f+1) P s (.emit g arg strat false) = some (s1, .error ()) ∧
    Spec.execOp (f+1) P s (.emit g arg strat true) = some (s1, .ok "caught") := by
  constructor <;> (rw [Spec.execOp]; simp [hg, hd, hs, he])

example : (Spec.execOp 11 exP exS2 (.emit 0 5 .sum false)).map (fun x => x.2.toBool) = some false ∧
    (Spec.execOp 11 exP exS2 (.emit 0 5 .sum true)).map (fun x => x.2.toOption) = some (some "caught") := by
  decide +kernel

/-! ## C12 — blocking suspends a slot without disconnecting it -/

/-- `block()/unblock()` on a slot variable: returns the previous state, sets the new one, keeps the
    slot's rep (it stays non-empty), and changes no other slot variable, no list, no connection -/
theorem blockS_previous_only_that_slot (s : LSt) (i : Nat) (b : Bool) (v : SlotVar) (hv : aget s.S i = some v) :
    ∃ s', Spec.stepSimple s (.blockS i b) = some (s', bstr v.slot.blocked) ∧
      aget s'.S i = some { v with slot := { v.slot with blocked := b } } ∧
      (∀ k, k ≠ i → aget s'.S k = aget s.S k) ∧
      s'.sigs = s.sigs ∧ s'.C = s.C ∧ s'.K = s.K ∧ s'.G = s.G := by
  refine ⟨{ s with S := aset s.S i { v with slot := { v.slot with blocked := b } } }, ?_, aget_aset_same _ _ _,
    fun k hk => aget_aset_other _ _ _ _ hk, rfl, rfl, rfl, rfl⟩
  simp only [Spec.stepSimple, hv]

example : ∃ s', Spec.stepSimple exS (.blockS 0 false) = some (s', "1") ∧
    (aget s'.S 0).map (·.slot.blocked) = some false := by
  obtain ⟨s', h1, h2, _⟩ := blockS_previous_only_that_slot exS 0 false _ rfl
  exact ⟨s', h1, by rw [h2]; rfl⟩

/-- the list with the flag of entry `cid` set to `b`: same length, ids, reps (nothing is disconnected),
    markers; the flag changes at `cid` only -/
theorem setBlocked_only_that_entry (cid : Nat) (b : Bool) (cs : List LCell) :
    let cs' := cs.map (fun c => if c.id = cid then { c with slot := { c.slot with blocked := b } } else c)
    cs'.length = cs.length ∧ cs'.map (·.id) = cs.map (·.id) ∧ cs'.map (·.slot.rep) = cs.map (·.slot.rep) ∧
    cs'.map (·.slot.blocked) = cs.map (fun c => if c.id = cid then b else c.slot.blocked) := by
  refine ⟨by simp, ?_, ?_, ?_⟩ <;>
  · simp only [List.map_map]
    apply List.map_congr_left
    intro c _
    by_cases h : c.id = cid <;> simp [h]

/-- updating the entry `cid` (found in list `j`) touches that list only, and nothing else of the state -/
theorem updCell_only_that_list (s : LSt) (cid j : Nat) (g : LSig) (f : LCell → LCell)
    (hf : findSig s.sigs cid = some j) (hg : aget s.sigs j = some g) :
    aget (updCell s cid f).sigs j = some { g with cells := g.cells.map (fun c => if c.id = cid then f c else c) } ∧
    (∀ k, k ≠ j → aget (updCell s cid f).sigs k = aget s.sigs k) ∧
    (updCell s cid f).S = s.S ∧ (updCell s cid f).G = s.G ∧ (updCell s cid f).C = s.C ∧ (updCell s cid f).K = s.K := by
  have e : updCell s cid f = setSig s j { g with cells := g.cells.map (fun c => if c.id = cid then f c else c) } := by
    simp only [updCell, hf, hg]
  rw [e]
  exact ⟨aget_aset_same _ _ _, fun k hk => aget_aset_other _ _ _ _ hk, rfl, rfl, rfl, rfl⟩

/-- `getCell` finds an entry in the list `findSig` names -/
theorem getCell_some (s : LSt) (cid j : Nat) (c : LCell) (h : getCell s cid = some (j, c)) :
    findSig s.sigs cid = some j ∧ ∃ g, aget s.sigs j = some g ∧ g.cells.find? (fun c => c.id = cid && !c.zombie) = some c := by
  unfold getCell at h
  cases hf : findSig s.sigs cid with
  | none => simp [hf] at h
  | some i =>
    simp only [hf] at h
    cases hg : aget s.sigs i with
    | none => simp [hg] at h
    | some g =>
      simp only [hg, Option.map_eq_some_iff, Prod.mk.injEq] at h
      obtain ⟨c', h1, rfl, rfl⟩ := h
      exact ⟨rfl, g, hg, h1⟩

/-- `block()/unblock()` through a connection (`blockC`) or scoped connection (`blockK`) that points at a
    live entry `cid` of list `j`: returns the previous state of that entry, and the new state differs
    exactly in the flag of that entry — no entry is removed, no other entry or list changes -/
theorem blockC_previous_only_that_entry (s : LSt) (i : Nat) (b : Bool) (cid j : Nat) (c : LCell)
    (hp : aget s.C i = some (some cid)) (hc : getCell s cid = some (j, c)) :
    ∃ s' g, Spec.stepSimple s (.blockC i b) = some (s', bstr c.slot.blocked) ∧ aget s.sigs j = some g ∧
      aget s'.sigs j = some { g with cells := g.cells.map (fun c =>
        if c.id = cid then { c with slot := { c.slot with blocked := b } } else c) } ∧
      (∀ k, k ≠ j → aget s'.sigs k = aget s.sigs k) ∧ s'.S = s.S ∧ s'.G = s.G ∧ s'.C = s.C ∧ s'.K = s.K := by
  obtain ⟨hf, g, hg, _⟩ := getCell_some s cid j c hc
  obtain ⟨h1, h2, h3⟩ := updCell_only_that_list s cid j g (fun c => { c with slot := { c.slot with blocked := b } }) hf hg
  refine ⟨_, g, ?_, hg, h1, h2, h3⟩
  simp only [Spec.stepSimple, hp, connBlockedStr, hc]

theorem blockK_previous_only_that_entry (s : LSt) (i : Nat) (b : Bool) (cid j : Nat) (c : LCell)
    (hp : aget s.K i = some (some cid)) (hc : getCell s cid = some (j, c)) :
    ∃ s' g, Spec.stepSimple s (.blockK i b) = some (s', bstr c.slot.blocked) ∧ aget s.sigs j = some g ∧
      aget s'.sigs j = some { g with cells := g.cells.map (fun c =>
        if c.id = cid then { c with slot := { c.slot with blocked := b } } else c) } ∧
      (∀ k, k ≠ j → aget s'.sigs k = aget s.sigs k) ∧ s'.S = s.S ∧ s'.G = s.G ∧ s'.C = s.C ∧ s'.K = s.K := by
  obtain ⟨hf, g, hg, _⟩ := getCell_some s cid j c hc
  obtain ⟨h1, h2, h3⟩ := updCell_only_that_list s cid j g (fun c => { c with slot := { c.slot with blocked := b } }) hf hg
  refine ⟨_, g, ?_, hg, h1, h2, h3⟩
  simp only [Spec.stepSimple, hp, connBlockedStr, hc]

example : ∃ s', Spec.stepSimple exS (.blockC 1 false) = some (s', "1") ∧
    (aget s'.sigs 1).map (fun g => g.cells.map (fun c => (c.id, c.slot.blocked))) =
      some [(2, false), (3, false), (4, false)] := by
  obtain ⟨s', g, h1, h2, h3, _⟩ := blockC_previous_only_that_entry exS 1 false 3 1 _ rfl rfl
  refine ⟨s', h1, ?_⟩
  cases h2
  rw [h3]; rfl

/-- a blocked slot stays connected: `block()/unblock()` through a connection or scoped connection changes
    no `connected()` answer, of this or any other connection -/
theorem blocking_keeps_connected (s s' : LSt) (r : String) (i : Nat) (b : Bool)
    (h : Spec.stepSimple s (.blockC i b) = some (s', r) ∨ Spec.stepSimple s (.blockK i b) = some (s', r)) :
    ∀ p, connConnected s' p = connConnected s p := by
  intro p
  rcases h with h | h <;> simp only [Spec.stepSimple] at h <;> split at h <;>
    simp only [Option.some.injEq, Prod.mk.injEq] at h <;> (obtain ⟨rfl, -⟩ := h) <;> try rfl
  all_goals
    split
    · exact connConnected_updCell_blocked s _ b p
    · rfl

example : ∀ p, connConnected (((Spec.stepSimple exS (.blockC 0 true)).map (·.1)).getD {}) p = connConnected exS p := by
  cases h : Spec.stepSimple exS (.blockC 0 true) with
  | none => exact absurd h (by decide +kernel)
  | some x => exact blocking_keeps_connected exS x.1 x.2 0 true (Or.inl h)

/-- an empty connection: `block()` does nothing and answers `false` -/
theorem blockC_empty_connection (s : LSt) (i : Nat) (b : Bool) (hp : aget s.C i = some none) :
    Spec.stepSimple s (.blockC i b) = some (s, "0") := by
  simp only [Spec.stepSimple, hp, connBlockedStr]

/-- `signal.block(b)`: every entry in the list at that moment gets the flag `b` — none is removed, added
    or otherwise changed — and no other list is touched; an entry connected later is not affected (it is
    not in this list yet: `insertCell_adds_one` stores its own flag) -/
theorem blockG_sets_all_current (s : LSt) (g im : Nat) (b : Bool) (h : Handle) (x : LSig)
    (hg : aget s.G g = some h) (hi : h.impl = some im) (hx : aget s.sigs im = some x) :
    ∃ s' x', Spec.stepSimple s (.blockG g b) = some (s', "ok") ∧ aget s'.sigs im = some x' ∧
      (∀ c ∈ x'.cells, c.slot.blocked = b) ∧
      x'.cells.map (·.id) = x.cells.map (·.id) ∧ x'.cells.map (·.slot.rep) = x.cells.map (·.slot.rep) ∧
      x'.cells.length = x.cells.length ∧ x'.active = x.active ∧
      (∀ k, k ≠ im → aget s'.sigs k = aget s.sigs k) ∧ s'.S = s.S := by
  refine ⟨setSig s im { x with cells := x.cells.map (fun c => { c with slot := { c.slot with blocked := b } }) }, _,
    by simp only [Spec.stepSimple, hg, hi, hx], aget_aset_same _ _ _, ?_, ?_, ?_, by simp, rfl,
    fun k hk => aget_aset_other _ _ _ _ hk, rfl⟩
  · intro c hc
    simp only [List.mem_map] at hc
    obtain ⟨c0, _, rfl⟩ := hc
    rfl
  · simp [List.map_map, Function.comp_def]
  · simp [List.map_map, Function.comp_def]

example : ∃ s' x', Spec.stepSimple exS (.blockG 0 true) = some (s', "ok") ∧ aget s'.sigs 1 = some x' ∧
    ∀ c ∈ x'.cells, c.slot.blocked = true := by
  obtain ⟨s', x', h1, h2, h3, _⟩ := blockG_sets_all_current exS 0 1 true _ exSig rfl rfl rfl
  exact ⟨s', x', h1, h2, h3⟩

/-- `signal.blocked()` outside an emission: "all entries blocked" — which is true of an empty list and of
    a signal that never had a list -/
theorem blockedGq_is_all_blocked (s : LSt) (g im : Nat) (h : Handle) (x : LSig)
    (hg : aget s.G g = some h) (hi : h.impl = some im) (hx : aget s.sigs im = some x) (hq : x.active = 0) :
    Spec.stepSimple s (.blockedGq g) = some (s, bstr (x.cells.all (·.slot.blocked))) ∧
    (bstr (x.cells.all (·.slot.blocked)) = "1" ↔ ∀ c ∈ x.cells, c.slot.blocked = true) := by
  refine ⟨by simp [Spec.stepSimple, hg, hi, hx, hq], ?_⟩
  cases hb : x.cells.all (·.slot.blocked)
  · simp only [bstr, Bool.false_eq_true, if_false]
    rw [List.all_eq_false] at hb
    obtain ⟨c, hc, hcb⟩ := hb
    constructor
    · intro h; exact absurd h (by decide)
    · intro h; exact absurd (h c hc) hcb
  · simp only [bstr, if_true, true_iff]
    rw [List.all_eq_true] at hb
    exact hb

theorem blockedGq_vacuous (s : LSt) (g : Nat) (h : Handle) (hg : aget s.G g = some h) :
    (h.impl = none → Spec.stepSimple s (.blockedGq g) = some (s, "1")) ∧
    (∀ im x, h.impl = some im → aget s.sigs im = some x → x.active = 0 → x.cells = [] →
       Spec.stepSimple s (.blockedGq g) = some (s, "1")) := by
  constructor
  · intro hi; simp [Spec.stepSimple, hg, hi]
  · intro im x hi hx hq he
    simp [Spec.stepSimple, hg, hi, hx, hq, he, bstr]

example : Spec.stepSimple exS (.blockedGq 0) = some (exS, "0") ∧ Spec.stepSimple exS (.blockedGq 2) = some (exS, "1") :=
  ⟨(blockedGq_is_all_blocked exS 0 1 _ exSig rfl rfl rfl rfl).1, (blockedGq_vacuous exS 2 _ rfl).1 rfl⟩

/-- a blocked entry is skipped by the turns of an emission and by a dereference of an accumulator's
    iterator: nothing is invoked, nothing changes -/
theorem blocked_entry_skipped (f : Nat) (P : Prog) (s : LSt) (i cid : Nat) (c : LCell)
    (he : entry s i cid = some c) (hb : c.slot.blocked = true) :
    (∀ rest arg r, turns (f+1) P s i (cid :: rest) arg r = turns f P s i rest arg r) ∧
    (∀ snap (it : It) arg, snap[it.pos]? = some cid → Spec.deref (f+1) P s i snap it arg = some (s, .ok, it)) := by
  have hc : callable s i cid = none := not_callable s i cid (Or.inr ⟨c, he, Or.inl hb⟩)
  refine ⟨fun rest arg r => turns_skips_not_callable f P s i cid rest arg r hc, ?_⟩
  intro snap it arg hp
  rw [deref_eq]
  simp [hp, hc]

example : turns 3 exP exS 1 [3] 5 7 = some (exS, .ok, 7) := by
  rw [(blocked_entry_skipped 2 exP exS 1 3 _ rfl rfl).1, turns_done]

/-- invoking a blocked slot directly does nothing and returns the default value -/
theorem callS_blocked_does_nothing (f : Nat) (P : Prog) (s : LSt) (i arg : Nat) (v : SlotVar)
    (hv : aget s.S i = some v) (hd : ¬ s.depth ≥ P.maxdepth) (hs : ¬ s.steps > P.maxsteps)
    (hb : v.slot.blocked = true) :
    Spec.execOp (f+1) P s (.callS i arg) = some (s, .ok (showRes v.isVoid 0)) := by
  rw [Spec.execOp]
  simp only [hv, hd, hs, if_false]
  split <;> simp [hb]

example : (Spec.execOp 5 exP exS (.callS 0 5)).map (fun x => (x.2.toOption, x.1.trace.length)) = some (some "r=0", 0) := by
  decide +kernel

/-! ## C13 — emission results: last slot's value, or the accumulator's verdict -/

/-- a signal that never had a list: `emit()` returns the default value and does nothing -/
theorem emit_without_list (f : Nat) (P : Prog) (s : LSt) (fl : Flavour) (arg : Nat) (strat : Strat) :
    emitSig (f+1) P s fl none arg strat = some (s, .ok, 0) := by
  rw [emitSig]

example : emitSig 1 exP exS .A none 5 .sum = some (exS, .ok, 0) := emit_without_list 0 _ _ _ _ _

/-- the value `turns` returns is the value returned by the last functor it invoked, or the initial value
    if it invoked none (`turnsT` = `turns` with the log of invocations, see `turnsT_projects`) -/
theorem turns_value_is_last_invoked (f : Nat) (P : Prog) (s s' : LSt) (i : Nat) (snap : List Nat) (arg r v : Nat)
    (o : Outcome) (l : List Inv) (h : turnsT f P s i snap arg r = some ((s', o, v), l)) :
    v = ((l.map (·.val)).getLast?).getD r := turnsT_value f P s i snap arg r s' o v l h

/-- a non-accumulated emission (of an existing list, unfolded once) returns the value of the last functor
    invoked, or the default value 0 if none was -/
theorem emit_value_is_last_invoked (f : Nat) (P : Prog) (s s' : LSt) (fl : Flavour) (i arg : Nat) (strat : Strat)
    (g : LSig) (o : Outcome) (v : Nat) (hg : aget s.sigs i = some g) (hacc : fl.isAcc = false)
    (hk : (s.k2 && g.cells.isEmpty) = false)
    (h : emitSig (f+1) P s fl (some i) arg strat = some (s', o, v)) :
    ∃ s2 l, turnsT f P (enter s i g) i (snapOf s.k2 fl g) arg 0 = some ((s2, o, v), l) ∧
      v = ((l.map (·.val)).getLast?).getD 0 ∧ s' = epi i s.next s2 := by
  obtain ⟨s2, hb, hs⟩ := emitSig_epilogue_same f P s s' fl i arg strat g o v hg (by simpa [hacc] using hk) h
  simp only [body, hacc, Bool.false_eq_true, if_false] at hb
  obtain ⟨l, hl⟩ := turns_has_log f P _ i _ arg 0 _ hb
  exact ⟨s2, l, hl, turnsT_value f P _ i _ arg 0 s2 o v l hl, hs⟩

example : (emitSig 10 exP exS .I (some 1) 5 .sum).map (fun x => x.2) = some (.ok, resultOf 1 5) := by
  decide +kernel

/-- a dereference of the accumulator's iterator, completely: out of range — nothing; entry absent,
    blocked or invalid at that moment — nothing; already invoked at this visit — nothing; otherwise one
    invocation with the emitted argument, after which the value is buffered and the position marked
    invoked (an exception leaves the iterator as it was) -/
theorem deref_unfold (f : Nat) (P : Prog) (s : LSt) (i : Nat) (snap : List Nat) (it : It) (arg : Nat) :
    Spec.deref (f+1) P s i snap it arg =
      (match snap[it.pos]? with
       | none => some (s, .ok, it)
       | some cid =>
         match callable s i cid with
         | none => some (s, .ok, it)
         | some fn =>
           if it.invoked then some (s, .ok, it) else
           match Spec.invokeFun f P s fn arg with
           | none => none
           | some (s, .exc, _) => some (s, .exc, it)
           | some (s, .ok, v) => some (s, .ok, { it with buf := v, invoked := true })) :=
  deref_eq f P s i snap it arg

/-- dereferencing a position again does not invoke its entry again -/
theorem deref_at_most_once (f : Nat) (P : Prog) (s : LSt) (i : Nat) (snap : List Nat) (it : It) (arg : Nat)
    (hinv : it.invoked = true) : Spec.deref (f+1) P s i snap it arg = some (s, .ok, it) := by
  rw [deref_eq]
  split
  · rfl
  · split
    · rfl
    · simp [hinv]

/-- an entry that is gone, blocked or invalid when its position is dereferenced is not invoked -/
theorem deref_skips_not_callable (f : Nat) (P : Prog) (s : LSt) (i : Nat) (snap : List Nat) (it : It) (arg cid : Nat)
    (hp : snap[it.pos]? = some cid) (hc : callable s i cid = none) :
    Spec.deref (f+1) P s i snap it arg = some (s, .ok, it) := by
  rw [deref_eq]; simp [hp, hc]

/-- the buffer is updated exactly on a successful invocation -/
theorem deref_invokes_and_buffers (f : Nat) (P : Prog) (s s1 : LSt) (i : Nat) (snap : List Nat) (it : It) (arg cid v : Nat)
    (fn : Fun) (hp : snap[it.pos]? = some cid) (hc : callable s i cid = some fn) (hinv : it.invoked = false)
    (hi : Spec.invokeFun f P s fn arg = some (s1, .ok, v)) :
    Spec.deref (f+1) P s i snap it arg = some (s1, .ok, { it with buf := v, invoked := true }) := by
  rw [deref_eq]; simp [hp, hc, hinv, hi]

/-- a dereference never moves the iterator -/
theorem deref_keeps_position (f : Nat) (P : Prog) (s s1 : LSt) (i : Nat) (snap : List Nat) (it it' : It) (arg : Nat)
    (o : Outcome) (h : Spec.deref f P s i snap it arg = some (s1, o, it')) : it'.pos = it.pos := by
  cases f with
  | zero => simp [Spec.deref] at h
  | succ f =>
    rw [deref_eq] at h
    split at h
    · simp at h; rw [← h.2.2]
    · split at h
      · simp at h; rw [← h.2.2]
      · split at h
        · simp at h; rw [← h.2.2]
        · split at h
          · simp at h
          · simp at h; rw [← h.2.2]
          · simp at h; rw [← h.2.2]

example : (Spec.deref 5 exP exS 1 [2, 3, 4] { pos := 0 } 5).map (fun x => (x.2.2.invoked, x.2.2.buf, x.1.trace.length)) =
      some (true, 15, 2) ∧
    (Spec.deref 5 exP exS 1 [2, 3, 4] { pos := 0, invoked := true, buf := 15 } 5).map
      (fun x => (x.2.2.invoked, x.2.2.buf, x.1.trace.length)) = some (true, 15, 0) ∧
    (Spec.deref 5 exP exS 1 [2, 3, 4] { pos := 1 } 5).map (fun x => (x.2.2.invoked, x.2.2.buf, x.1.trace.length)) =
      some (false, 0, 0) := by decide +kernel

/-- an accumulated emission calls the accumulator's strategy exactly once, with the snapshot of the
    entries present when the emission started, and returns what it returns -/
theorem accumulator_called_once_on_snapshot (f : Nat) (P : Prog) (s : LSt) (fl : Flavour) (i arg : Nat) (strat : Strat)
    (g : LSig) (hg : aget s.sigs i = some g) (hacc : fl.isAcc = true) :
    emitSig (f+1) P s fl (some i) arg strat =
      (Spec.runStrat f P (enter s i g) i (snapOf s.k2 fl g) arg (strat.forFlavour fl)).map
        (fun x => (epi i s.next x.1, x.2.1, x.2.2)) := by
  rw [emitSig_eq f P s fl i arg strat g hg (by simp [hacc])]
  simp only [body, hacc, if_true]

/-- … in the specification proper the snapshot is the ids of the list's entries, in order -/
theorem accumulator_range_pure (s : LSt) (fl : Flavour) (g : LSig) (hk : s.k2 = false) :
    snapOf s.k2 fl g = (g.cells.filter (fun c => !c.marker && !c.zombie)).map (·.id) := by
  simp [snapOf, hk]

/-- the strategies: each starts at the first position (`rev` at the end) with nothing invoked -/
theorem runStrat_unfold (f : Nat) (P : Prog) (s : LSt) (i : Nat) (snap : List Nat) (arg : Nat) :
    Spec.runStrat (f+1) P s i snap arg .sum = Spec.accLoop f P s i snap { pos := 0 } arg 0 0 0 ∧
    (∀ k, Spec.runStrat (f+1) P s i snap arg (.stop k) = Spec.accLoop f P s i snap { pos := 0 } arg 1 k 0) ∧
    Spec.runStrat (f+1) P s i snap arg .twice = Spec.accLoop f P s i snap { pos := 0 } arg 2 0 0 ∧
    Spec.runStrat (f+1) P s i snap arg .never = Spec.accLoop f P s i snap { pos := 0 } arg 3 0 0 ∧
    Spec.runStrat (f+1) P s i snap arg .postinc = Spec.accLoop f P s i snap { pos := 0 } arg 4 0 0 ∧
    Spec.runStrat (f+1) P s i snap arg .rev = Spec.revLoop f P s i snap { pos := snap.length } arg 0 ∧
    (∀ ops, Spec.runStrat (f+1) P s i snap arg (.walk ops) = Spec.walkLoop f P s i snap { pos := 0 } arg ops 0) := by
  refine ⟨?_, fun k => ?_, ?_, ?_, ?_, ?_, fun ops => ?_⟩ <;> rw [Spec.runStrat]

/-- the forward loop ends at the end of the snapshot … -/
theorem accLoop_end (f : Nat) (P : Prog) (s : LSt) (i : Nat) (snap : List Nat) (it : It) (arg mode k r : Nat)
    (hpos : it.pos ≥ snap.length) : Spec.accLoop (f+1) P s i snap it arg mode k r = some (s, .ok, r) := by
  rw [Spec.accLoop]; simp [hpos]

/-- … "visit all" (`sum`): one dereference per position, then one step forward with the invoked mark reset -/
theorem accLoop_sum_step (f : Nat) (P : Prog) (s s1 : LSt) (i : Nat) (snap : List Nat) (it it' : It) (arg k r : Nat)
    (hpos : it.pos < snap.length) (hd : Spec.deref f P s i snap it arg = some (s1, .ok, it')) :
    Spec.accLoop (f+1) P s i snap it arg 0 k r =
      Spec.accLoop f P s1 i snap { it' with pos := it'.pos + 1, invoked := false } arg 0 k (r + it'.buf) := by
  rw [Spec.accLoop]; simp [Nat.not_le.2 hpos, hd]

/-- "stop at a threshold": the positions after the one that reaches it are never dereferenced -/
theorem accLoop_stop_step (f : Nat) (P : Prog) (s s1 : LSt) (i : Nat) (snap : List Nat) (it it' : It) (arg k r : Nat)
    (hpos : it.pos < snap.length) (hd : Spec.deref f P s i snap it arg = some (s1, .ok, it')) :
    Spec.accLoop (f+1) P s i snap it arg 1 k r =
      if r + it'.buf ≥ k then some (s1, .ok, r + it'.buf)
      else Spec.accLoop f P s1 i snap { it' with pos := it'.pos + 1, invoked := false } arg 1 k (r + it'.buf) := by
  rw [Spec.accLoop]; simp [Nat.not_le.2 hpos, hd]

/-- "dereference twice": the second dereference of the same position (by `deref_at_most_once`, no second
    invocation) -/
theorem accLoop_twice_step (f : Nat) (P : Prog) (s s1 s2 : LSt) (i : Nat) (snap : List Nat) (it it' it'' : It) (arg k r : Nat)
    (hpos : it.pos < snap.length) (hd : Spec.deref f P s i snap it arg = some (s1, .ok, it'))
    (hd2 : Spec.deref f P s1 i snap it' arg = some (s2, .ok, it'')) :
    Spec.accLoop (f+1) P s i snap it arg 2 k r =
      Spec.accLoop f P s2 i snap { it'' with pos := it''.pos + 1, invoked := false } arg 2 k (r + it'.buf + it''.buf) := by
  rw [Spec.accLoop]; simp [Nat.not_le.2 hpos, hd, hd2]

/-- "never dereference": no dereference, hence no invocation, at any position -/
theorem accLoop_never_step (f : Nat) (P : Prog) (s : LSt) (i : Nat) (snap : List Nat) (it : It) (arg k r : Nat)
    (hpos : it.pos < snap.length) :
    Spec.accLoop (f+1) P s i snap it arg 3 k r =
      Spec.accLoop f P s i snap { it with pos := it.pos + 1, invoked := false } arg 3 k (r + 1) := by
  rw [Spec.accLoop]; simp [Nat.not_le.2 hpos]

/-- the backward walk: one step back with the invoked mark reset, then one dereference; ends at the front -/
theorem revLoop_step (f : Nat) (P : Prog) (s s1 : LSt) (i : Nat) (snap : List Nat) (it it' : It) (arg r : Nat)
    (hpos : it.pos ≠ 0)
    (hd : Spec.deref f P s i snap { it with pos := it.pos - 1, invoked := false } arg = some (s1, .ok, it')) :
    Spec.revLoop (f+1) P s i snap it arg r = Spec.revLoop f P s1 i snap it' arg (r + it'.buf) := by
  rw [Spec.revLoop]; simp [hpos, hd]

theorem revLoop_end (f : Nat) (P : Prog) (s : LSt) (i : Nat) (snap : List Nat) (it : It) (arg r : Nat)
    (hpos : it.pos = 0) : Spec.revLoop (f+1) P s i snap it arg r = some (s, .ok, r) := by
  rw [Spec.revLoop]; simp [hpos]

/-- a free walk: `i` / `x` move by one position (within the range) and reset the invoked mark, and do not
    invoke anything; `d` dereferences in place -/
theorem walkLoop_moves (f : Nat) (P : Prog) (s : LSt) (i : Nat) (snap : List Nat) (it : It) (arg r : Nat) (cs : List Char) :
    (it.pos < snap.length → Spec.walkLoop (f+1) P s i snap it arg ('i' :: cs) r =
       Spec.walkLoop f P s i snap { it with pos := it.pos + 1, invoked := false } arg cs r) ∧
    (it.pos ≠ 0 → Spec.walkLoop (f+1) P s i snap it arg ('x' :: cs) r =
       Spec.walkLoop f P s i snap { it with pos := it.pos - 1, invoked := false } arg cs r) ∧
    (∀ s1 it', it.pos < snap.length → Spec.deref f P s i snap it arg = some (s1, .ok, it') →
       Spec.walkLoop (f+1) P s i snap it arg ('d' :: cs) r = Spec.walkLoop f P s1 i snap it' arg cs (r + it'.buf)) ∧
    Spec.walkLoop (f+1) P s i snap it arg [] r = some (s, .ok, r) := by
  refine ⟨fun h => ?_, fun h => ?_, fun s1 it' h hd => ?_, ?_⟩
  · rw [Spec.walkLoop]; simp [Nat.not_le.2 h]
  · rw [Spec.walkLoop]; simp [h]
  · rw [Spec.walkLoop]; simp [Nat.not_le.2 h, hd]
  · rw [Spec.walkLoop]

/-- list 1 of `exS` (entry 2 disconnects entry 4 when invoked, entry 3 is blocked) under the strategies:
    "twice" invokes entry 2 once (one `call` and one result line in the trace) although every position is
    dereferenced twice; "never" invokes nothing; "rev" invokes entry 4 first, then entry 2 -/
example : (emitSig 12 exP exS .A (some 1) 5 .twice).map (fun x => (x.2.2, x.1.trace.length)) = some (90, 2) ∧
    (emitSig 12 exP exS .A (some 1) 5 .never).map (fun x => (x.2.2, x.1.trace.length)) = some (3, 0) ∧
    (emitSig 12 exP exS .A (some 1) 5 .rev).map (fun x => (x.2.2, x.1.trace.length)) = some (85, 4) := by
  decide +kernel

/-! ## C14 — signal objects are shared handles; the list lives as long as any handle -/

/-- copy-construction `cpG j i`: afterwards both signal objects refer to one and the same list -/
theorem cpG_shares (s s' : LSt) (j i : Nat) (h : Spec.stepSimple s (.cpG j i) = some (s', "ok")) :
    ∃ hi hj im, aget s'.G i = some hi ∧ aget s'.G j = some hj ∧ hi.impl = some im ∧ hj.impl = some im ∧
      hj.fl = hi.fl := by
  simp only [Spec.stepSimple] at h
  cases hgi : aget s.G i with
  | none => simp [hgi] at h
  | some h0 =>
    cases hgj : aget s.G j with
    | some _ => simp [hgi, hgj] at h
    | none =>
      have hne : i ≠ j := by intro e; rw [e, hgj] at hgi; cases hgi
      cases he : ensureSig s i with
      | none => simp [hgi, hgj, he] at h
      | some x =>
        obtain ⟨s1, im⟩ := x
        obtain ⟨h0', h1, e0, e1, e2, _⟩ := ensureSig_spec s s1 i im he
        simp only [hgi, hgj, he, e1, LSt.fresh, Option.some.injEq, Prod.mk.injEq, and_true] at h
        subst h
        refine ⟨h1, _, im, ?_, aget_aset_same _ _ _, e2, rfl, rfl⟩
        simp only
        rw [aget_aset_other _ _ _ _ hne]
        exact e1

example : ∃ s' hi hj im, Spec.stepSimple exS (.cpG 5 2) = some (s', "ok") ∧ aget s'.G 2 = some hi ∧
    aget s'.G 5 = some hj ∧ hi.impl = some im ∧ hj.impl = some im := by
  cases h : Spec.stepSimple exS (.cpG 5 2) with
  | none => exact absurd h (by decide +kernel)
  | some x =>
    obtain ⟨s', r⟩ := x
    have hr : r = "ok" := by
      have : (Spec.stepSimple exS (.cpG 5 2)).map (·.2) = some "ok" := by decide +kernel
      rw [h] at this; simpa using this
    subst hr
    obtain ⟨hi, hj, im, h1, h2, h3, h4, _⟩ := cpG_shares exS s' 5 2 h
    exact ⟨s', hi, hj, im, rfl, h1, h2, h3, h4⟩

/-- copy-assignment `asgG j i` (`j ≠ i`): afterwards both signal objects refer to one and the same list -/
theorem asgG_shares (s s' : LSt) (j i : Nat) (hne : j ≠ i) (h : Spec.stepSimple s (.asgG j i) = some (s', "ok")) :
    ∃ hi hj im, aget s'.G i = some hi ∧ aget s'.G j = some hj ∧ hi.impl = some im ∧ hj.impl = some im := by
  simp only [Spec.stepSimple] at h
  cases hgj : aget s.G j with
  | none => simp [hgj] at h
  | some d =>
    cases hgi : aget s.G i with
    | none => simp [hgj, hgi] at h
    | some h0 =>
      simp only [hgj, hgi, hne, if_false] at h
      by_cases hfl : d.fl ≠ h0.fl
      · simp [hfl] at h
      · by_cases hlv : d.lvl ≠ h0.lvl
        · simp [hfl, hlv] at h
        · simp only [hfl, hlv, if_false] at h
          cases he : ensureSig s i with
          | none => simp [he] at h
          | some x =>
            obtain ⟨s1, im⟩ := x
            obtain ⟨h0', h1, e0, e1, e2, _, _, _, _, e3, _⟩ := ensureSig_spec s s1 i im he
            have hd1 : aget s1.G j = some d := by rw [e3 j hne]; exact hgj
            simp only [he] at h
            by_cases hsame : d.impl = some im
            · simp only [hsame, if_true, Option.some.injEq, Prod.mk.injEq, and_true] at h
              subst h
              exact ⟨h1, d, im, e1, hd1, e2, hsame⟩
            · simp only [hsame, if_false, Option.some.injEq, Prod.mk.injEq, and_true] at h
              have hG : s'.G = aset s1.G j { d with impl := some im } := by
                subst h
                cases d.impl <;> simp [gcSig_G]
              refine ⟨h1, { d with impl := some im }, im, ?_, ?_, e2, rfl⟩
              · rw [hG, aget_aset_other _ _ _ _ (Ne.symm hne)]; exact e1
              · rw [hG]; exact aget_aset_same _ _ _

/-- operations through a signal object depend on it only through the list it refers to (and its
    flavour): two handles of the same list answer `size() / empty() / blocked()` alike, and `block`,
    `clear`, `connect` and `emit` through either have the same effect -/
theorem handles_agree (s : LSt) (g1 g2 : Nat) (h1 h2 : Handle) (hg1 : aget s.G g1 = some h1) (hg2 : aget s.G g2 = some h2)
    (himpl : h1.impl = h2.impl) :
    Spec.stepSimple s (.sizeq g1) = Spec.stepSimple s (.sizeq g2) ∧
    Spec.stepSimple s (.emptyGq g1) = Spec.stepSimple s (.emptyGq g2) ∧
    Spec.stepSimple s (.blockedGq g1) = Spec.stepSimple s (.blockedGq g2) ∧
    (∀ b, Spec.stepSimple s (.blockG g1 b) = Spec.stepSimple s (.blockG g2 b)) ∧
    Spec.stepSimple s (.clear g1) = Spec.stepSimple s (.clear g2) ∧
    (∀ k fid first im, h1.impl = some im →
       Spec.stepSimple s (.connfn k g1 (.fn fid) first) = Spec.stepSimple s (.connfn k g2 (.fn fid) first)) ∧
    (∀ f P arg strat t, h1.fl = h2.fl →
       Spec.execOp f P s (.emit g1 arg strat t) = Spec.execOp f P s (.emit g2 arg strat t)) := by
  refine ⟨?_, ?_, ?_, ?_, ?_, ?_, ?_⟩
  · simp [Spec.stepSimple, hg1, hg2, himpl]
  · simp [Spec.stepSimple, hg1, hg2, himpl]
  · simp [Spec.stepSimple, hg1, hg2, himpl]
  · intro b; simp [Spec.stepSimple, hg1, hg2, himpl]
  · simp [Spec.stepSimple, hg1, hg2, himpl]
  · intro k fid first im hi
    have hi2 : h2.impl = some im := by rw [← himpl]; exact hi
    have l1 : ¬ ((-1 : Int) ≥ (h1.lvl : Int)) := by omega
    have l2 : ¬ ((-1 : Int) ≥ (h2.lvl : Int)) := by omega
    simp only [Spec.stepSimple, hg1, hg2, Spec.mkFun, Spec.specTaint, l1, l2, if_false, ensureSig, hi, hi2]
  · intro f P arg strat t hfl
    cases f with
    | zero => simp [Spec.execOp]
    | succ f =>
      rw [Spec.execOp, Spec.execOp]
      simp only [hg1, hg2, himpl, hfl]

example : Spec.stepSimple exS (.sizeq 0) = Spec.stepSimple exS (.sizeq 1) ∧
    Spec.execOp 9 exP exS (.emit 0 5 .sum false) = Spec.execOp 9 exP exS (.emit 1 5 .sum false) := by
  have := handles_agree exS 0 1 _ _ rfl rfl rfl
  exact ⟨this.1, this.2.2.2.2.2.2 9 exP 5 .sum false rfl⟩

/-- move-construction `mvG j i` of a `signal` / `trackable_signal` without accumulator: the list goes to
    the new object, the source is left without list (an empty, reusable signal) -/
theorem mvG_transfers (s : LSt) (j i : Nat) (h0 : Handle) (hi : aget s.G i = some h0) (hj : aget s.G j = none)
    (hacc : h0.fl.isAcc = false) :
    ∃ s' hj', Spec.stepSimple s (.mvG j i) = some (s', "ok") ∧ aget s'.G j = some hj' ∧ hj'.impl = h0.impl ∧
      hj'.fl = h0.fl ∧ aget s'.G i = some { h0 with impl := none } ∧
      (h0.fl.isTrackable = false → s'.sigs = s.sigs) := by
  have hne : i ≠ j := by intro e; rw [e, hj] at hi; cases hi
  have hs : ∃ s', Spec.stepSimple s (.mvG j i) = some (s', "ok") ∧
      s'.G = aset (aset s.G i { h0 with impl := none }) j
               { obj := s.next, fl := h0.fl, impl := h0.impl, trk := s.next + 1, lvl := h0.lvl } ∧
      (h0.fl.isTrackable = false → s'.sigs = s.sigs) := by
    simp only [Spec.stepSimple, hi, hj, hacc, Bool.false_eq_true, if_false, LSt.fresh]
    cases ht : h0.fl.isTrackable
    · exact ⟨_, rfl, rfl, fun _ => rfl⟩
    · exact ⟨_, rfl, by simp only [if_true, invalidateTrackable_G], fun h => by cases h⟩
  obtain ⟨s', h1, h2, h3⟩ := hs
  refine ⟨s', { obj := s.next, fl := h0.fl, impl := h0.impl, trk := s.next + 1, lvl := h0.lvl }, h1, ?_, rfl, rfl, ?_, h3⟩
  · rw [h2]; exact aget_aset_same _ _ _
  · rw [h2, aget_aset_other _ _ _ _ hne]; exact aget_aset_same _ _ _

example : ∃ s' hj', Spec.stepSimple exS (.mvG 5 0) = some (s', "ok") ∧ aget s'.G 5 = some hj' ∧ hj'.impl = some 1 ∧
    (aget s'.G 0).map (·.impl) = some none := by
  obtain ⟨s', hj', h1, h2, h3, _, h5, _⟩ := mvG_transfers exS 5 0 _ rfl rfl rfl
  exact ⟨s', hj', h1, h2, h3, by rw [h5]; rfl⟩

/-- move-assignment `masgG j i` (`j ≠ i`, no accumulator): the destination takes over the source's list,
    the source is left without list.  The operation is refused (`owned`, see `masgG_owned_refused`) when a functor
    owns the source, or — for a `trackable_signal` — the destination; `hown` excludes exactly that -/
theorem masgG_transfers (s : LSt) (j i : Nat) (d h0 : Handle) (hj : aget s.G j = some d) (hi : aget s.G i = some h0)
    (hne : j ≠ i) (hfl : d.fl = h0.fl) (hlvl : d.lvl = h0.lvl) (hacc : h0.fl.isAcc = false)
    (hown : (s.ownedG.any (fun p => p.2 = i) || s.ownedG.any (fun p => p.2 = j)) = false) :
    ∃ s', Spec.stepSimple s (.masgG j i) = some (s', "ok") ∧ aget s'.G j = some { d with impl := h0.impl } ∧
      aget s'.G i = some { h0 with impl := none } := by
  have hnf : ¬ (d.fl ≠ h0.fl) := fun h => h hfl
  have hnl : ¬ (d.lvl ≠ h0.lvl) := fun h => h hlvl
  have hs : ∃ s', Spec.stepSimple s (.masgG j i) = some (s', "ok") ∧
      s'.G = aset (aset s.G j { d with impl := h0.impl }) i { h0 with impl := none } := by
    simp only [Spec.stepSimple, hj, hi, hnf, hnl, if_false, hacc, Bool.false_eq_true, hne, hown, Bool.not_false,
      Bool.and_false]
    refine ⟨_, rfl, ?_⟩
    cases d.impl <;> simp only <;> split <;> simp only [invalidateTrackable_G, gcSig_G]
  obtain ⟨s', h1, h2⟩ := hs
  refine ⟨s', h1, ?_, ?_⟩
  · rw [h2, aget_aset_other _ _ _ _ hne]; exact aget_aset_same _ _ _
  · rw [h2]; exact aget_aset_same _ _ _

example : ∃ s', Spec.stepSimple exS (.masgG 1 0) = some (s', "ok") ∧ (aget s'.G 1).map (·.impl) = some (some 1) ∧
    (aget s'.G 0).map (·.impl) = some none := by
  obtain ⟨s', h1, h2, h3⟩ := masgG_transfers exS 1 0 _ _ rfl rfl (by decide) rfl rfl rfl rfl
  exact ⟨s', h1, by rw [h2]; rfl, by rw [h3]; rfl⟩

/-- the list dies exactly when no signal object refers to it and no emission of it is running; until
    then `gcSig` changes nothing; it never touches another list or a signal object -/
theorem gcSig_drops_iff (s : LSt) (i : Nat) (g : LSig) (hg : aget s.sigs i = some g) :
    (aget (gcSig s i).sigs i = none ↔ (g.active = 0 ∧ ∀ p ∈ s.G, p.2.impl ≠ some i)) ∧
    (¬ (g.active = 0 ∧ ∀ p ∈ s.G, p.2.impl ≠ some i) → gcSig s i = s) ∧
    (∀ k, k ≠ i → aget (gcSig s i).sigs k = aget s.sigs k) ∧ (gcSig s i).G = s.G := by
  have hcond : (g.active = 0 && !(s.G.any (fun p => p.2.impl = some i))) = true ↔
      (g.active = 0 ∧ ∀ p ∈ s.G, p.2.impl ≠ some i) := by
    simp
  refine ⟨?_, ?_, ?_, gcSig_G s i⟩
  · by_cases hc : (g.active = 0 && !(s.G.any (fun p => p.2.impl = some i))) = true
    · simp only [gcSig, hg, hc, if_true, aget_adel_same, true_iff]
      exact hcond.1 hc
    · simp only [gcSig, hg, hc, Bool.false_eq_true, ↓reduceIte]
      simp only [reduceCtorEq, false_iff]
      exact fun h => hc (hcond.2 h)
  · intro hn
    have hc : ¬ (g.active = 0 && !(s.G.any (fun p => p.2.impl = some i))) = true := fun h => hn (hcond.1 h)
    simp only [gcSig, hg, hc, Bool.false_eq_true, ↓reduceIte]
  · intro k hk
    unfold gcSig
    simp only [hg]
    split
    · exact aget_adel_other _ _ _ hk
    · rfl

example : gcSig exS 1 = exS ∧ aget (gcSig { exS with G := [] } 1).sigs 1 = none :=
  ⟨(gcSig_drops_iff exS 1 exSig rfl).2.1 (by decide),
   (gcSig_drops_iff { exS with G := [] } 1 exSig rfl).1.2 (by decide)⟩

/-! ## reachable states: `active` is restored, ids are fresh, lists are well-formed

`WF s` (`Sigc/Lemmas/SpecPWF.lean`): for every list `i ↦ g` of `s`: `i < s.next`, every entry id is below
`s.next`, the ids are pairwise distinct, without `k2` no entry is a marker or zombie, without `k1` the
list is not dirty.  `Step s s'`: `s.next ≤ s'.next`, the flags are kept, and if `WF s` then `WF s'`,
every list has the same `active` in `s'` as in `s` (`actOf`, 0 for an absent list), and every entry id of
`s'` below `s.next` is an entry id of `s`.  Every function of the mutual block is a `Step`
(`allStep`, by induction on fuel, over all ~70 operations). -/

/-- `WF`, spelled out -/
theorem WF_iff (s : LSt) :
    WF s ↔ ∀ i g, aget s.sigs i = some g →
      i < s.next ∧ (∀ c ∈ g.cells, c.id < s.next) ∧ (g.cells.map (·.id)).Nodup ∧
      (s.k2 = false → ∀ c ∈ g.cells, c.marker = false ∧ c.zombie = false) ∧ (s.k1 = false → g.dirty = false) := by
  constructor
  · intro h i g hg
    obtain ⟨h1, h2⟩ := h i g hg
    exact ⟨h1, h2.lt, h2.nodup, h2.pure, h2.clean⟩
  · intro h i g hg
    obtain ⟨h1, h2, h3, h4, h5⟩ := h i g hg
    exact ⟨h1, h2, h3, h4, h5⟩

/-- C03: after `emitSig` returns — normally or with an exception, whatever the functors did, however
    deeply they re-emitted — every list has as many emissions in progress as before (in particular the
    emitted one); the state is well-formed again and `next` has not decreased -/
theorem emitSig_restores_active (f : Nat) (P : Prog) (s s' : LSt) (fl : Flavour) (impl : Option Nat) (arg : Nat)
    (strat : Strat) (o : Outcome) (v : Nat) (hw : WF s) (h : emitSig f P s fl impl arg strat = some (s', o, v)) :
    (∀ i, actOf s' i = actOf s i) ∧ WF s' ∧ s.next ≤ s'.next := by
  obtain ⟨hn, _, _, hr⟩ := (allStep f).emitSig P s fl impl arg strat s' o v h
  exact ⟨(hr hw).2.1, (hr hw).1, hn⟩

example : actOf (((emitSig 10 exP exS2 .I (some 1) 5 .sum).map (·.1)).getD {}) 1 = 0 := by decide +kernel

example : ∀ s' o v, emitSig 10 exP exS2 .I (some 1) 5 .sum = some (s', o, v) → ∀ i, actOf s' i = actOf exS2 i :=
  fun s' o v h => (emitSig_restores_active 10 exP exS2 s' .I (some 1) 5 .sum o v exS2_WF h).1

/-- the same for a functor invocation, an operation and a line: user code leaves `active` of every list
    as it found it -/
theorem user_code_restores_active (f : Nat) (P : Prog) (s : LSt) (hw : WF s) :
    (∀ fn arg s' o v, Spec.invokeFun f P s fn arg = some (s', o, v) →
       (∀ i, actOf s' i = actOf s i) ∧ WF s' ∧ s.next ≤ s'.next) ∧
    (∀ op s' e, Spec.execOp f P s op = some (s', e) → (∀ i, actOf s' i = actOf s i) ∧ WF s' ∧ s.next ≤ s'.next) ∧
    (∀ l s' o, Spec.execLine f P s l = some (s', o) → (∀ i, actOf s' i = actOf s i) ∧ WF s' ∧ s.next ≤ s'.next) := by
  refine ⟨fun fn arg s' o v h => ?_, fun op s' e h => ?_, fun l s' o h => ?_⟩
  · obtain ⟨hn, _, _, hr⟩ := (allStep f).invokeFun P s fn arg s' o v h
    exact ⟨(hr hw).2.1, (hr hw).1, hn⟩
  · obtain ⟨hn, _, _, hr⟩ := (allStep f).execOp P s op s' e h
    exact ⟨(hr hw).2.1, (hr hw).1, hn⟩
  · obtain ⟨hn, _, _, hr⟩ := (allStep f).execLine P s l s' o h
    exact ⟨(hr hw).2.1, (hr hw).1, hn⟩

example : ∀ s' e, Spec.execOp 12 exP exS (.emit 0 5 .sum false) = some (s', e) → WF s' ∧ exS.next ≤ s'.next :=
  fun s' e h => ((user_code_restores_active 12 exP exS exS_WF).2.1 _ s' e h).2

/-- during the turns of an emission the emitted list stays alive with `active` one above its value at
    the start: the turns themselves (and everything they call) keep `active` of every list -/
theorem turns_keep_active (f : Nat) (P : Prog) (s s' : LSt) (i : Nat) (snap : List Nat) (arg r : Nat) (o : Outcome) (v : Nat)
    (hw : WF s) (h : turns f P s i snap arg r = some (s', o, v)) : ∀ j, actOf s' j = actOf s j := by
  obtain ⟨_, _, _, hr⟩ := (allStep f).turns P s i snap arg r s' o v h
  exact (hr hw).2.1

/-- every state reached by a top-level run — of any program, from the empty state, with any flags — is
    well-formed, and *quiescent*: no emission is in progress in any list (so `size()`, `empty()`,
    `blocked()` are never answered `*` at top level) -/
theorem run_WF (f : Nat) (P : Prog) (k1 k2 : Bool) (ls : List Line) (s : LSt)
    (h : Spec.runTop f P { k1 := k1, k2 := k2 } ls = some s) :
    WF s ∧ (∀ i g, aget s.sigs i = some g → g.active = 0) ∧ s.k1 = k1 ∧ s.k2 = k2 := by
  obtain ⟨_, h1, h2, hr⟩ := step_runTop f P ls _ s h
  obtain ⟨hw, ha, _⟩ := hr (WF_init k1 k2)
  refine ⟨hw, ?_, h1, h2⟩
  intro i g hg
  have := ha i
  simpa [actOf, actL, hg, aget] using this

/-- the program "g0 := signal<int(int)>; connect f3 (which connects f1 when invoked); emit; emit" -/
example : ∀ s, Spec.runTop 30 exP {}
      [{ text := "newG 0 I", op := .newG 0 (some .I) }, { text := "connfn 1 0 fn:3", op := .connfn 1 0 (.fn 3) false },
       { text := "emit 0 5", op := .emit 0 5 .sum false }, { text := "emit 0 6", op := .emit 0 6 .sum false }] = some s →
    WF s ∧ ∀ i g, aget s.sigs i = some g → g.active = 0 :=
  fun s h => ⟨(run_WF 30 exP false false _ s h).1, (run_WF 30 exP false false _ s h).2.1⟩

/-- so at every top-level point of every run `size()` is the number of entries of the list -/
theorem size_at_top_level (f : Nat) (P : Prog) (k1 k2 : Bool) (ls : List Line) (s : LSt) (g im : Nat) (h : Handle) (x : LSig)
    (hrun : Spec.runTop f P { k1 := k1, k2 := k2 } ls = some s)
    (hg : aget s.G g = some h) (hi : h.impl = some im) (hx : aget s.sigs im = some x) :
    Spec.stepSimple s (.sizeq g) = some (s, toString x.cells.length) ∧
    Spec.stepSimple s (.emptyGq g) = some (s, bstr x.cells.isEmpty) ∧
    Spec.stepSimple s (.blockedGq g) = some (s, bstr (x.cells.all (·.slot.blocked))) := by
  have hq := (run_WF f P k1 k2 ls s hrun).2.1 im x hx
  exact ⟨(size_is_length s g im h x hg hi hx hq).1, (size_is_length s g im h x hg hi hx hq).2.1,
    (blockedGq_is_all_blocked s g im h x hg hi hx hq).1⟩

/-- the snapshot of a well-formed list has no duplicates, so a non-accumulated emission invokes no entry twice -/
theorem no_entry_invoked_twice (f : Nat) (P : Prog) (s0 s : LSt) (fl : Flavour) (i : Nat) (g : LSig) (arg r : Nat)
    (x : LSt × Outcome × Nat) (l : List Inv) (hw : WF s0) (hg : aget s0.sigs i = some g)
    (h : turnsT f P s i (snapOf s0.k2 fl g) arg r = some (x, l)) : (l.map (·.cid)).Nodup := by
  have hn : (snapOf s0.k2 fl g).Nodup := nodup_map_filter _ _ _ (hw i g hg).2.nodup
  exact (invoked_in_snapshot_order_once f P s i _ arg r x l h).2.2 hn

example : ∀ x l, turnsT 10 exP (enter exS 1 exSig) 1 (snapOf exS.k2 .I exSig) 5 0 = some (x, l) → (l.map (·.cid)).Nodup :=
  fun x l h => no_entry_invoked_twice 10 exP exS _ .I 1 exSig 5 0 x l exS_WF rfl h

/-- an entry connected while an emission runs is not in that emission's snapshot — for every well-formed
    start state and every state `s1` the body can be in (`next` never decreases) -/
theorem connected_during_emission_not_in_snapshot_wf (s s1 : LSt) (fl : Flavour) (i : Nat) (g : LSig) (j : Nat)
    (first : Bool) (sl : SlotB) (hw : WF s) (hg : aget s.sigs i = some g) (hstep : Step (enter s i g) s1) :
    (insertCell s1 j first sl).2 ∉ snapOf s.k2 fl g :=
  connected_during_emission_not_in_snapshot s s1 fl g j first sl (hw i g hg).2.lt
    (Nat.le_trans (Nat.le_succ _) hstep.1)

example : ∀ s1 o v fn, Spec.invokeFun 9 exP (enter exS 1 exSig) fn 5 = some (s1, o, v) →
    (insertCell s1 1 false (exSlot 9)).2 ∉ snapOf exS.k2 .I exSig :=
  fun s1 o v fn h => connected_during_emission_not_in_snapshot_wf exS s1 .I 1 exSig 1 false _ exS_WF rfl
    ((allStep 9).invokeFun exP _ fn 5 s1 o v h)

/-- C03, the specification proper (`k1 = k2 = false`): when an emission of a well-formed state returns,
    the emitted list is exactly as its body left it — the entries connected during it are there, the
    entries disconnected during it are not — with `active` back to its value at the start -/
theorem emission_leaves_list_as_body_left_it (f : Nat) (P : Prog) (s s' : LSt) (fl : Flavour) (i arg : Nat)
    (strat : Strat) (g : LSig) (o : Outcome) (v : Nat) (hw : WF s) (hk1 : s.k1 = false) (hk2 : s.k2 = false)
    (hg : aget s.sigs i = some g) (h : emitSig (f+1) P s fl (some i) arg strat = some (s', o, v)) :
    ∃ s2 g2, body f P (enter s i g) fl i (snapOf s.k2 fl g) arg strat = some (s2, o, v) ∧
      aget s2.sigs i = some g2 ∧ g2.active = g.active + 1 ∧
      s' = Spec.collect (gcSig (setSig s2 i (closeSig s.next g2)) i) ∧
      (closeSig s.next g2).cells = g2.cells ∧ (closeSig s.next g2).active = g.active := by
  obtain ⟨s2, hb, hs⟩ := emitSig_epilogue_same f P s s' fl i arg strat g o v hg (by simp [hk2]) h
  obtain ⟨_, e1, e2, hr⟩ := step_body f (allStep f) P _ fl i _ arg strat s2 o v hb
  obtain ⟨hw2, ha, hi⟩ := hr (WF_enter s i g hw hg)
  have hact := ha i
  rw [actOf_enter s i i g hg] at hact
  simp only [if_true] at hact
  cases hg2 : aget s2.sigs i with
  | none => simp [actOf, actL, hg2] at hact
  | some g2 =>
    have hact2 : g2.active = g.active + 1 := by simpa [actOf, actL, hg2] using hact
    have hk1' : s2.k1 = false := by rw [e1]; exact hk1
    have hk2' : s2.k2 = false := by rw [e2]; exact hk2
    have hwg := (hw2 i g2 hg2).2
    refine ⟨s2, g2, hb, hg2, hact2, ?_, ?_, ?_⟩
    · rw [hs, epi_eq i s.next s2 g2 hg2]
    · refine closeSig_cells s.next g2 (fun c hc => (hwg.pure hk2' c hc).2) (hwg.clean hk1') ?_
      intro c hc he
      have h1 : idsL (enter s i g).sigs s.next := hi s.next (Nat.lt_succ_self _) ⟨i, g2, c, hg2, hc, he⟩
      obtain ⟨j, x, c0, hx, hc0, he0⟩ := ids_enter_pure s i g hg hk2 _ h1
      have := (hw j x hx).2.lt c0 hc0
      omega
    · rw [closeSig_active, hact2]; rfl

example : ((emitSig 10 exP exS2 .I (some 1) 5 .sum).map
    (fun x => (aget x.1.sigs 1).map (fun g => (g.active, g.cells.map (·.id))))) = some (some (0, [2, 4, 6, 21])) := by
  decide +kernel

/-- C01: in a well-formed state the id `insertCell` hands out is fresh — no entry of any list has it -/
theorem insertCell_id_fresh_wf (s : LSt) (i : Nat) (first : Bool) (sl : SlotB) (hw : WF s) :
    ∀ j g, aget s.sigs j = some g → ∀ c ∈ g.cells, c.id ≠ (insertCell s i first sl).2 :=
  fun j g hg => insertCell_id_fresh s i first sl g (hw j g hg).2.lt

example : ∀ c ∈ exSig.cells, c.id ≠ (insertCell exS 1 true (exSlot 9)).2 :=
  insertCell_id_fresh_wf exS 1 true _ exS_WF 1 exSig rfl

/-- C14: destroying the last signal object that refers to a list (no emission of it running) destroys
    the list; while another signal object refers to it, the list stays, with the same entries -/
theorem delG_last_handle_drops_list (s : LSt) (g im : Nat) (h : Handle) (x : LSig)
    (hg : aget s.G g = some h) (hi : h.impl = some im) (hx : aget s.sigs im = some x)
    (hpin : (h.everFwd && !h.fl.isTrackable) = false) (hown : s.ownedG.any (fun p => p.2 = g) = false) :
    ∃ s', Spec.stepSimple s (.delG g) = some (s', "ok") ∧ aget s'.G g = none ∧
      ((x.active = 0 ∧ ∀ p ∈ s.G, p.1 ≠ g → p.2.impl ≠ some im) → aget s'.sigs im = none) ∧
      ((∃ p ∈ s.G, p.1 ≠ g ∧ p.2.impl = some im) → h.fl.isTrackable = false → aget s'.sigs im = some x) := by
  cases ht : h.fl.isTrackable
  · rw [ht] at hpin
    have hs : Spec.stepSimple s (.delG g) = some (gcSig { s with G := adel s.G g } im, "ok") := by
      simp only [Spec.stepSimple, hg, hpin, hi, ht, hown, Bool.false_eq_true, if_false]
    have hx2 : aget ({ s with G := adel s.G g } : LSt).sigs im = some x := hx
    refine ⟨_, hs, ?_, ?_, ?_⟩
    · rw [gcSig_G]; exact aget_adel_same _ _
    · rintro ⟨ha, hno⟩
      refine (gcSig_drops_iff _ im x hx2).1.2 ⟨ha, ?_⟩
      intro p hp
      simp only [adel, List.mem_filter, decide_eq_true_eq] at hp
      exact hno p hp.1 hp.2
    · rintro ⟨p, hp, hne, himp⟩ _
      rw [(gcSig_drops_iff _ im x hx2).2.1]
      · exact hx
      · rintro ⟨_, hno⟩
        exact hno p (by simp only [adel, List.mem_filter, decide_eq_true_eq]; exact ⟨hp, hne⟩) himp
  · rw [ht] at hpin
    have hs : Spec.stepSimple s (.delG g) =
        some (gcSig { (invalidateTrackable s h.trk) with G := adel (invalidateTrackable s h.trk).G g } im, "ok") := by
      simp only [Spec.stepSimple, hg, hpin, hi, ht, hown, Bool.false_eq_true, if_false, if_true]
    have hx2 : aget ({ (invalidateTrackable s h.trk) with G := adel (invalidateTrackable s h.trk).G g } : LSt).sigs im =
        some (x.remove s.k1 s.k2 true (fun c => c.slot.tracksObj h.trk)) := by
      simp only [invalidateTrackable, aget_amap, hx, Option.map_some]
    refine ⟨_, hs, ?_, ?_, ?_⟩
    · rw [gcSig_G]; exact aget_adel_same _ _
    · rintro ⟨ha, hno⟩
      refine (gcSig_drops_iff _ im _ hx2).1.2 ⟨ha, ?_⟩
      intro p hp
      simp only [invalidateTrackable_G, adel, List.mem_filter, decide_eq_true_eq] at hp
      exact hno p hp.1 hp.2
    · intro _ hc; cases hc

/-- `exS`: signal objects 0 and 1 share list 1 — deleting 0 keeps the list, deleting both drops it -/
example : ((Spec.stepSimple exS (.delG 0)).map (fun x => (aget x.1.sigs 1).map (·.cells.length))) = some (some 3) ∧
    (((Spec.stepSimple exS (.delG 0)).bind (fun x => Spec.stepSimple x.1 (.delG 1))).map
      (fun x => (aget x.1.sigs 1).map (·.cells.length))) = some none := by decide +kernel

/-! ## functor-owned signal objects (`ownG:`): a functor family keeps a signal object alive

`s.ownedG` lists the pairs (owner id `k`, name `g` of the signal object in `G`); the functor copies of the
family carry `k` in their `ownsK` list, so `heldK s k` says whether a copy is still alive.  The name stays
in `G` (the program may go on using it), but the program cannot destroy the object any more: `delG` is refused
(`owned`), as are a move-assignment that would destroy it and a second `ownG:` of it.  The object dies in
`collect`, once no functor copy holds `k`: `dropHandle`, which is exactly what an unrefused `delG` does. -/

/-- a `delG` that is not refused (`dead` / `pinned` / `owned`) is `dropHandle` -/
theorem delG_is_dropHandle (s : LSt) (g : Nat) (h : Handle) (hg : aget s.G g = some h)
    (hpin : (h.everFwd && !h.fl.isTrackable) = false) (hown : s.ownedG.any (fun p => p.2 = g) = false) :
    Spec.stepSimple s (.delG g) = some (dropHandle s g, "ok") := by
  rw [dropHandle_eq s g h hg]
  cases hi : h.impl <;> cases ht : h.fl.isTrackable <;> rw [ht] at hpin <;>
    simp only [Spec.stepSimple, hg, hpin, hown, hi, ht, Bool.false_eq_true, if_false, if_true]

example : Spec.stepSimple exS (.delG 0) = some (dropHandle exS 0, "ok") := delG_is_dropHandle exS 0 _ rfl rfl rfl

/-- `delG` of a signal object owned by a functor is refused and changes nothing -/
theorem delG_owned_refused (s : LSt) (k g : Nat) (hm : (k, g) ∈ s.ownedG) :
    Spec.stepSimple s (.delG g) =
      some (s, match aget s.G g with
               | none => "dead"
               | some h => if (h.everFwd && !h.fl.isTrackable) = true then "pinned" else "owned") := by
  have hown : s.ownedG.any (fun p => p.2 = g) = true := by
    simp only [List.any_eq_true, decide_eq_true_eq]; exact ⟨(k, g), hm, rfl⟩
  cases hg : aget s.G g with
  | none => simp only [Spec.stepSimple, hg]
  | some h =>
    cases hpin : (h.everFwd && !h.fl.isTrackable) with
    | true => simp only [Spec.stepSimple, hg, hpin, if_true]
    | false => simp only [Spec.stepSimple, hg, hpin, hown, Bool.false_eq_true, if_false, if_true]

example : Spec.stepSimple { exS with ownedG := [(30, 1)] } (.delG 1) = some ({ exS with ownedG := [(30, 1)] }, "owned") :=
  delG_owned_refused { exS with ownedG := [(30, 1)] } 30 1 (by decide)

/-- move-assignment `masgG j i` (no accumulator) is refused when a functor owns the source, or — for a
    `trackable_signal` — the destination: the complement of the hypothesis `hown` of `masgG_transfers` -/
theorem masgG_owned_refused (s : LSt) (j i : Nat) (d h0 : Handle) (hj : aget s.G j = some d) (hi : aget s.G i = some h0)
    (hfl : d.fl = h0.fl) (hlvl : d.lvl = h0.lvl) (hacc : h0.fl.isAcc = false)
    (hown : (s.ownedG.any (fun p => p.2 = i) || s.ownedG.any (fun p => p.2 = j)) = true) :
    Spec.stepSimple s (.masgG j i) = some (s, "owned") := by
  have hnf : ¬ (d.fl ≠ h0.fl) := fun h => h hfl
  have hnl : ¬ (d.lvl ≠ h0.lvl) := fun h => h hlvl
  simp only [Spec.stepSimple, hj, hi, hnf, hnl, if_false, hacc, hown, Bool.not_false, Bool.and_self, if_true]

example : Spec.stepSimple { exS with ownedG := [(30, 0)] } (.masgG 1 0) = some ({ exS with ownedG := [(30, 0)] }, "owned") :=
  masgG_owned_refused _ 1 0 _ _ rfl rfl rfl rfl rfl rfl

/-- `ownG:fid:g` — the functor takes a share in the signal object `g`: a fresh owner id `k = s.next`, held by the
    functor, is registered for the name `g`; nothing else changes (in particular `g` stays in `G`).  Refused for a
    dead, a pinned (`fwd:`-referenced non-trackable) and an already owned signal object -/
theorem ownG_registers (s : LSt) (isVoid : Bool) (fid g : Nat) (h : Handle) (hg : aget s.G g = some h)
    (hpin : (h.everFwd && !h.fl.isTrackable) = false) (hown : s.ownedG.any (fun p => p.2 = g) = false) :
    Spec.mkFun s isVoid (.ownG fid g) =
      .ok (.owner fid [] [s.next], { s with next := s.next + 1, ownedG := (s.next, g) :: s.ownedG }) := by
  simp only [Spec.mkFun, hg, hpin, hown, Bool.false_eq_true, if_false, LSt.fresh]

example : Spec.mkFun exS false (.ownG 7 2) =
    .ok (.owner 7 [] [20], { exS with next := 21, ownedG := [(20, 2)] }) := ownG_registers exS false 7 2 _ rfl rfl rfl

/-- C14 (S-level counterpart of `functor_owned_handle_keeps_list`), first half: after a successful
    `connfn k g ownG:fid:g0` the signal object `g0` is registered as owned by the new owner id, it is still a live
    signal object, and `delG g0` is refused without any effect -/
theorem connfn_ownG_keeps_handle (s s' : LSt) (k g fid g0 : Nat) (first : Bool)
    (h : Spec.stepSimple s (.connfn k g (.ownG fid g0) first) = some (s', "ok")) :
    s'.ownedG = (s.next, g0) :: s.ownedG ∧
    ∃ h0, aget s'.G g0 = some h0 ∧
      Spec.stepSimple s' (.delG g0) =
        some (s', if (h0.everFwd && !h0.fl.isTrackable) = true then "pinned" else "owned") := by
  have key : s'.ownedG = (s.next, g0) :: s.ownedG ∧ ∃ h0, aget s'.G g0 = some h0 := by
    simp only [Spec.stepSimple] at h
    cases hg : aget s.G g with
    | none => simp [hg] at h
    | some hd =>
      simp only [hg] at h
      cases hg0 : aget s.G g0 with
      | none => simp [Spec.mkFun, hg0] at h
      | some h0 =>
        cases hpin : (h0.everFwd && !h0.fl.isTrackable) with
        | true => simp [Spec.mkFun, hg0, hpin] at h
        | false =>
          cases hown : s.ownedG.any (fun p => p.2 = g0) with
          | true => simp [Spec.mkFun, hg0, hpin, hown] at h
          | false =>
            have l1 : ¬ ((-1 : Int) ≥ (hd.lvl : Int)) := by omega
            simp only [Spec.mkFun, hg0, hpin, hown, Bool.false_eq_true, if_false, LSt.fresh, Spec.specTaint, l1] at h
            cases he : ensureSig { s with next := s.next + 1, ownedG := (s.next, g0) :: s.ownedG } g with
            | none => simp [he] at h
            | some x =>
              obtain ⟨s2, im⟩ := x
              simp only [he, Option.some.injEq, Prod.mk.injEq, and_true] at h
              subst h
              obtain ⟨_, h1, _, e1, _, _, _, _, _, e3, _⟩ := ensureSig_spec _ s2 g im he
              refine ⟨?_, ?_⟩
              · show (insertCell s2 im first _).1.ownedG = _
                rw [(insertCell_frame _ _ _ _).2, ensureSig_ownedG _ _ _ _ he]
              · show ∃ h0, aget (insertCell s2 im first _).1.G g0 = some h0
                rw [(insertCell_frame _ _ _ _).1]
                by_cases e : g0 = g
                · subst e; exact ⟨h1, e1⟩
                · rw [e3 g0 e]; exact ⟨h0, hg0⟩
  obtain ⟨ho, h0, hg0⟩ := key
  refine ⟨ho, h0, hg0, ?_⟩
  have := delG_owned_refused s' s.next g0 (by rw [ho]; exact List.mem_cons_self)
  rw [hg0] at this
  exact this

/-- C14 (S-level counterpart of `functor_owned_handle_keeps_list`), second half, for every state: `delG g` —
    whatever it answers — leaves every other signal object `g0` of `G` (named by the program, or owned by a
    functor: it is in `G` all the same) as it is, and the list `g0` refers to alive, with the same emissions in
    progress, and with the same entries unless `g` is a `trackable_signal` (whose death disconnects the slots
    tracking it) -/
theorem delG_keeps_list_of_other_handle (s s' : LSt) (g g0 im : Nat) (h0 : Handle) (x : LSig) (r : String) (hne : g0 ≠ g)
    (hg0 : aget s.G g0 = some h0) (hi : h0.impl = some im) (hx : aget s.sigs im = some x)
    (h : Spec.stepSimple s (.delG g) = some (s', r)) :
    aget s'.G g0 = some h0 ∧ ∃ x', aget s'.sigs im = some x' ∧ x'.active = x.active ∧
      ((∀ hd, aget s.G g = some hd → hd.fl.isTrackable = false) → x' = x) := by
  have hsame : s' = s → aget s'.G g0 = some h0 ∧ ∃ x', aget s'.sigs im = some x' ∧ x'.active = x.active ∧
      ((∀ hd, aget s.G g = some hd → hd.fl.isTrackable = false) → x' = x) := by
    intro e; subst e; exact ⟨hg0, x, hx, rfl, fun _ => rfl⟩
  have hcase : aget s.G g = none ∨ ∃ hd, aget s.G g = some hd := by
    cases aget s.G g with
    | none => exact Or.inl rfl
    | some hd => exact Or.inr ⟨hd, rfl⟩
  rcases hcase with hg | ⟨hd, hg⟩
  · simp only [Spec.stepSimple, hg, Option.some.injEq, Prod.mk.injEq] at h
    exact hsame h.1.symm
  · cases hpin : (hd.everFwd && !hd.fl.isTrackable) with
    | true =>
      simp only [Spec.stepSimple, hg, hpin, if_true, Option.some.injEq, Prod.mk.injEq] at h
      exact hsame h.1.symm
    | false =>
      cases hown : s.ownedG.any (fun p => p.2 = g) with
      | true =>
        simp only [Spec.stepSimple, hg, hpin, hown, Bool.false_eq_true, if_false, if_true, Option.some.injEq,
          Prod.mk.injEq] at h
        exact hsame h.1.symm
      | false =>
        rw [delG_is_dropHandle s g hd hg hpin hown] at h
        simp only [Option.some.injEq, Prod.mk.injEq] at h
        obtain ⟨rfl, _⟩ := h
        refine ⟨?_, dropHandle_keeps_list s g g0 im h0 x hne hg0 hi hx⟩
        rw [dropHandle_G, aget_adel_other _ _ _ hne]; exact hg0

/-- `exS`: signal objects 0 and 1 share list 1; whatever `delG 1` does, list 1 stays, referred to by 0 -/
example : ∀ s' r, Spec.stepSimple exS (.delG 1) = some (s', r) → ∃ x', aget s'.sigs 1 = some x' ∧ x'.active = 0 :=
  fun s' r h => by
    obtain ⟨_, x', h1, h2, _⟩ := delG_keeps_list_of_other_handle exS s' 1 0 1 _ exSig r (by decide) rfl rfl rfl h
    exact ⟨x', h1, h2⟩

/-- C14 (S-level counterpart of `collect_drops_unheld_owned_handle`), one step: when every owned trackable and
    every owned scoped connection is still held, and `(k, g)` is the first functor-owned signal object whose owner
    id no functor copy holds, `collectStep` removes the entries of `k` and destroys the signal object `g`
    (`dropHandle`, i.e. what an unrefused `delG g` does): the name `g` is gone, every other name is untouched -/
theorem collectStep_drops_unheld_owned_handle (s : LSt) (k g : Nat)
    (hT : ∀ o ∈ s.ownedT, heldT s o = true) (hK : ∀ p ∈ s.ownedK, heldK s p.1 = true)
    (hG : s.ownedG.find? (fun p => !heldK s p.1) = some (k, g)) :
    ∃ s', collectStep s = some s' ∧
      s' = dropHandle { s with ownedG := s.ownedG.filter (fun q => q.1 ≠ k) } g ∧
      aget s'.G g = none ∧ (∀ g', g' ≠ g → aget s'.G g' = aget s.G g') ∧
      s'.ownedG = s.ownedG.filter (fun q => q.1 ≠ k) ∧ s'.ownedT = s.ownedT ∧ s'.ownedK = s.ownedK := by
  have h1 : s.ownedT.find? (fun o => !heldT s o) = none := by
    rw [List.find?_eq_none]; intro o ho; simp [hT o ho]
  have h2 : s.ownedK.find? (fun p => !heldK s p.1) = none := by
    rw [List.find?_eq_none]; intro p hp; simp [hK p hp]
  refine ⟨_, ?_, rfl, ?_, ?_, ?_, ?_, ?_⟩
  · simp only [collectStep, h1, h2, hG]
  · rw [dropHandle_G]; exact aget_adel_same _ _
  · intro g' hne; rw [dropHandle_G]; exact aget_adel_other _ _ _ hne
  · rw [(dropHandle_owned _ _).2.2]
  · rw [(dropHandle_owned _ _).1]
  · rw [(dropHandle_owned _ _).2.1]

/-- `collect` only releases: no name of a signal object appears, the owned lists only lose entries, and no
    functor copy holding an owner id appears -/
theorem collect_only_releases (s : LSt) :
    (∀ g, aget s.G g = none → aget (Spec.collect s).G g = none) ∧
    (Spec.collect s).ownedT.Sublist s.ownedT ∧ (Spec.collect s).ownedK.Sublist s.ownedK ∧
    (Spec.collect s).ownedG.Sublist s.ownedG ∧ (∀ k, heldK (Spec.collect s) k = true → heldK s k = true) := by
  have := shrink_collectN (s.ownedT.length + s.ownedK.length + s.ownedG.length) s
  exact ⟨this.G, this.oT, this.oK, this.oG, this.held⟩

/-- `collect` runs to the end: afterwards every object still owned by functors is held by some functor copy -/
theorem collect_complete (s : LSt) :
    (∀ o ∈ (Spec.collect s).ownedT, heldT (Spec.collect s) o = true) ∧
    (∀ p ∈ (Spec.collect s).ownedK, heldK (Spec.collect s) p.1 = true) ∧
    (∀ p ∈ (Spec.collect s).ownedG, heldK (Spec.collect s) p.1 = true) :=
  (collectStep_none_iff _).1 (collectStep_collect s)

/-- C14 (S-level counterpart of `collect_drops_unheld_owned_handle`): a functor-owned signal object whose owner id
    no functor copy holds does not survive `collect` — its name is no longer in `G`, its owner id no longer
    registered.  (`hnd`: owner ids are pairwise distinct — they are handed out by `fresh`; without it, the same
    holds for the *first* name registered for `k`.) -/
theorem collect_drops_unheld_owned_handle (s : LSt) (k g : Nat) (hnd : (s.ownedG.map (·.1)).Nodup)
    (hm : (k, g) ∈ s.ownedG) (hh : heldK s k = false) :
    aget (Spec.collect s).G g = none ∧ ∀ g', (k, g') ∉ (Spec.collect s).ownedG :=
  collectN_drops k g _ s (Nat.le_refl _) hnd hm hh

/-- `exS`: the functor of connection 9 takes a share in signal object 2; while the connection is there, `delG 2`
    is refused; once it is disconnected, `collect` destroys signal object 2 -/
example :
    let s1 := ((Spec.stepSimple exS (.connfn 9 0 (.ownG 7 2) false)).map (·.1)).getD {}
    let s2 := ((Spec.stepSimple s1 (.disc 9)).map (·.1)).getD {}
    s1.ownedG = [(20, 2)] ∧ heldK s1 20 = true ∧ (Spec.stepSimple s1 (.delG 2)).map (·.2) = some "owned" ∧
    (aget (Spec.collect s1).G 2).isSome = true ∧
    heldK s2 20 = false ∧ (aget s2.G 2).isSome = true ∧ aget (Spec.collect s2).G 2 = none ∧
    (Spec.collect s2).ownedG = [] := by decide +kernel

example : ∀ s1 s2 r, Spec.stepSimple exS (.connfn 9 0 (.ownG 7 2) false) = some (s1, "ok") →
    Spec.stepSimple s1 (.disc 9) = some (s2, r) → heldK s2 20 = false → (s2.ownedG.map (·.1)).Nodup →
    (20, 2) ∈ s2.ownedG → aget (Spec.collect s2).G 2 = none :=
  fun _ s2 _ _ _ hh hnd hm => (collect_drops_unheld_owned_handle s2 20 2 hnd hm hh).1

end Sigc.SpecP
