import Sigc.SweepLLemmasOps
import Sigc.SweepLLemmasEmit
/-!
  # SweepL — one slot list with the exact destruction timing of functor-owned connections (C03, C07)

  Model: `Sigc/SweepL.lean` (`signal_impl`: `slots_`, `exec_count_`, `deferred_`, the two holders,
  `notify_self_and_iter_of_invalidated_slot`, `sweep()`, `clear()`, the `temp_slot_list` emission), language and
  totality rules: `docs/SWEEPL.md`.  The main mechanism model (`Sigc/Model.lean`) destroys functor-owned objects
  at the end of an operation; this component destroys them where the library does — inside `erase` under a
  holder, inside the loop of `sweep()`, inside `clear()` — so a destructor that disconnects a cell *in front of*
  the position of a running sweep, in a list that also holds a never-disconnected empty slot, is inside the model
  (DESIGN §6 item 6: the gap in which the seeded mutants R4_C03_seed2, R4_C07_seed1, R6_C07_seed1, R8_C03_seed2 and
  R8_C07_seed2 live: `sweep()` cancelling the re-sweep request of such a destructor).

  All theorems quantify over **all** programs (`run P ops`: any functor bodies `P : Nat → List Op`, any top-level
  operations `ops : List Op`) — `run P ops` is the state after the last top-level operation, and every prefix of a
  program is a program, so a statement about `run P ops` is a statement about the state after *every* top-level
  operation — or over all states satisfying the invariant `Inv` and all operations at every nesting depth
  (`step_preserves`).  Proofs: induction over the operation list, over the nesting budget of emissions, over the
  cells a loop walks and over the fuel of the sweep chain; nothing is enumerated.  Lemmas: `Sigc/SweepLLemmas*.lean`.
-/
namespace Sigc.SweepL

/-! ## the invariant -/

/-- every state in which a top-level operation starts or ends satisfies `Inv` -/
theorem inv_reachable (P : Nat → List Op) (ops : List Op) : Inv (run P ops) :=
  (runOps_spec P ops State.init init_inv).1

/-- **every operation at every depth** (top level: `n = maxDepth`; in the body of a functor invoked by an emission
    nested `k` deep: `n = maxDepth - k`) preserves `Inv`, and gives back `exec_count_`, the number of placeholders
    and the error flag as it found them -/
theorem step_preserves (P : Nat → List Op) (n : Nat) (op : Op) (s : State) (h : Inv s) :
    Inv (step P n op s) ∧ (step P n op s).exec = s.exec ∧ (step P n op s).marks = s.marks ∧
    (step P n op s).err = s.err :=
  let ⟨a, b⟩ := step_spec P n op s h
  ⟨a, b.exec, b.marks, b.err⟩

/-! ## (d) termination: the sweep chain never runs out of fuel, no destructor runs outside a holder -/

/-- `err` is set by a `sweep()` chain that exhausts its fuel (`cells.length + 1`), by a functor destructor that
    runs with `exec_count_ == 0`, and by a `sweep()` that starts while a placeholder of an emission is in the list
    (the model keeps only their number): none of them happens, in no program, nor when the list is destroyed -/
theorem no_fuel_error (P : Nat → List Op) (ops : List Op) :
    (run P ops).err = false ∧ (finish (run P ops)).err = false := by
  obtain ⟨a, b⟩ := runOps_spec P ops State.init init_inv
  have h1 : (run P ops).err = false := b.err
  exact ⟨h1, ((clear_spec a).1.2.err).trans h1⟩

/-- the fuel argument, spelled out: a chain of sweeps started with more fuel than there are cells ends without
    error, with `exec_count_` as before, and with `deferred_` clear if `exec_count_` is 0 -/
theorem sweep_fuel_sufficient (n : Nat) (s : State) (hn : s.cells.length < n) (hb : Base s) (hm : s.marks = 0) :
    (sweep n s).err = s.err ∧ (sweep n s).exec = s.exec ∧ ((sweep n s).exec = 0 → (sweep n s).deferred = false) :=
  let ⟨_, q, _, _, u, v, _⟩ := sweep_spec n s hn hb hm
  ⟨u, q, v⟩

/-- **while `exec_count_ > 0` no cell leaves the list** — whatever operation runs, at any depth, however deeply
    it nests further emissions: every name that is in the list before is in the list after.  This is the fact behind
    the snapshot form of the emission loop of the model (`emission` walks the identities that were in the list when
    the loop started and looks each one up again): the look-up never fails, the iterator of the real loop never
    dangles, and — `insertCell` inserting only at the two ends — the real loop visits exactly these cells in this
    order. -/
theorem nothing_erased_while_executing (P : Nat → List Op) (n : Nat) (op : Op) (s : State) (h : Inv s)
    (he : s.exec ≠ 0) : ∀ c ∈ s.cells, ∃ c' ∈ (step P n op s).cells, c'.id = c.id :=
  step_sub P n op s h he

/-! ## (a) after every top-level operation the list is clean -/

/-- **C03/C07 `quiescent_clean`.**  After every top-level operation of every program: `exec_count_ == 0`,
    `deferred_ == false`, no placeholder of an emission is left, and the list contains **no disconnected cell** —
    every remaining cell still has its parent link (`conn`), so it is either a connected slot with its functor
    (`empty()` false) or a slot that was empty when it was connected and has never been disconnected (K1).
    Whatever happened inside the operation: emissions nested three deep, functor bodies that disconnect, connect
    and clear, destructors of owner functors that disconnect cells in front of or behind a running sweep. -/
theorem quiescent_clean (P : Nat → List Op) (ops : List Op) :
    (run P ops).exec = 0 ∧ (run P ops).deferred = false ∧ (run P ops).marks = 0 ∧
    ∀ c ∈ (run P ops).cells, c.conn = true ∧ (c.kind = Kind.empty ∨ c.isEmpty = false) := by
  obtain ⟨a, b⟩ := runOps_spec P ops State.init init_inv
  have h0 : (run P ops).exec = 0 := b.exec
  have hm : (run P ops).marks = 0 := b.marks
  refine ⟨h0, a.quiet h0, hm, ?_⟩
  intro c hc
  have hcon := a.all_connected h0 c hc
  refine ⟨hcon, ?_⟩
  cases hk : c.kind with
  | empty => exact Or.inl rfl
  | fn f => right; simp [Cell.isEmpty, hcon, hk, Kind.fid]
  | own f => right; simp [Cell.isEmpty, hcon, hk, Kind.fid]

/-- the same for the states inside an emission, as far as it can hold there: a disconnected cell in the list
    implies that `deferred_` is set (the sweep at the end of the outermost scope is going to happen) -/
theorem disconnected_implies_deferred (s : State) (h : Inv s) :
    ∀ c ∈ s.cells, c.conn = false → s.deferred = true := by
  intro c hc hcon
  exact (h.pend c hc hcon).elim id (fun h => by cases h)

/-! ## (b) functor accounting -/

/-- number of *connected* cells holding functor `f` -/
def cntConn (f : Nat) (cs : List Cell) : Nat := (cs.filter fun c => c.conn && c.kind.fid == some f).length

theorem cnt_eq_cntConn (f : Nat) (cs : List Cell) (h : ∀ c ∈ cs, c.conn = true) : cnt f cs = cntConn f cs := by
  induction cs with
  | nil => rfl
  | cons x xs ih =>
    have hx := h x List.mem_cons_self
    have ih' := ih (fun c hc => h c (List.mem_cons_of_mem _ hc))
    simp only [cntConn, List.filter_cons, hx, Bool.true_and] at ih' ⊢
    simp only [cnt]
    by_cases hf : x.kind.fid = some f
    · simp [hf, ih']; omega
    · simp [hf, ih']

/-- **C07 `live_count_spec`.**  The counter behind `live? f` (+1 when a functor copy enters the list, −1 at the
    moment the library destroys the cell) equals the number of cells of the list that hold functor `f`; after every
    top-level operation these are exactly the still-connected slots with functor `f` — the functor of a
    disconnected slot has been released when the outermost operation returns. -/
theorem live_count_spec (P : Nat → List Op) (ops : List Op) (f : Nat) :
    (run P ops).live f = cnt f (run P ops).cells ∧
    (run P ops).live f = cntConn f (run P ops).cells ∧
    (applyBase (.live f) (run P ops)).2 = toString (cntConn f (run P ops).cells) := by
  have a := inv_reachable P ops
  have q := quiescent_clean P ops
  have h1 := a.base.live f
  have h2 := cnt_eq_cntConn f (run P ops).cells (fun c hc => (q.2.2.2 c hc).1)
  exact ⟨h1, h1.trans h2, by simp only [applyBase]; rw [h1, h2]⟩

/-- the counter is exact in *every* state between two operations, also inside emissions -/
theorem live_count_inv (s : State) (h : Inv s) (f : Nat) : s.live f = cnt f s.cells := h.base.live f

/-- cell names are unique in every such state, so `K<n>` names at most one cell -/
theorem names_unique (s : State) (h : Inv s) : (ids s.cells).Nodup := h.base.nodup

/-- destroying the list releases everything: no cell, no functor copy -/
theorem final_live_zero (P : Nat → List Op) (ops : List Op) :
    (finish (run P ops)).cells = [] ∧ ∀ f, (finish (run P ops)).live f = 0 := by
  have a := inv_reachable P ops
  have q := quiescent_clean P ops
  obtain ⟨⟨i, _⟩, hnil⟩ := clear_spec a
  have hc : (finish (run P ops)).cells = [] := hnil q.1
  refine ⟨hc, fun f => ?_⟩
  have := i.base.live f
  simp only [finish] at hc ⊢
  rw [this, hc]; rfl

theorem sum_zero (xs : List Nat) (g : Nat → Nat) (h : ∀ f, g f = 0) : (xs.map g).foldl (· + ·) 0 = 0 := by
  induction xs with
  | nil => rfl
  | cons x xs ih => simp only [List.map_cons, List.foldl_cons, h x]; exact ih

/-- the last line of the trace the driver prints for **any program text** is `0 final live=0` (no `fuel` mark) -/
theorem final_line (lines : List String) : (runProgram lines).getLast? = some "0 final live=0" := by
  unfold runProgram
  simp only []
  generalize parseProg _ none [] [] = pr
  obtain ⟨bs, top⟩ := pr
  simp only [List.getLast?_append, List.getLast?_singleton]
  have h1 := (no_fuel_error (bodyOf bs) top).2
  have h2 := (final_live_zero (bodyOf bs) top).2
  rw [h1, sum_zero _ _ h2]
  rfl

/-! ## (b') what is disconnected is released — `disc`, `clear`, and the death of an owner functor

  The three facts the monitor of `checks/sweepl.py` uses to know, from the trace alone, which cells must be gone
  after a top-level operation.  `NoConn k s`: no connected cell of the list is named `k`. -/

theorem step_disc_cells (P : Nat → List Op) (n k : Nat) (s : State) :
    (step P n (.disc k) s).cells = if k ∈ s.used then (disconnect k s).cells else s.cells := by
  cases n <;> by_cases hk : k ∈ s.used <;> simp [step, check, hk, log, applyBase]

theorem step_clear_cells (P : Nat → List Op) (n : Nat) (s : State) :
    (step P n .clear s).cells = (clear s).cells := by
  cases n <;> simp [step, check, log, applyBase]

/-- `disc K<k>` at any depth leaves no connected cell named `k` (if the name was never given there is no such cell) -/
theorem disc_disconnects (P : Nat → List Op) (n k : Nat) (s : State) (h : Inv s) :
    NoConn k (step P n (.disc k) s) := by
  unfold NoConn
  rw [step_disc_cells]
  split
  · exact disconnect_noConn k h
  · rename_i hk
    intro c hc hi
    exact absurd (hi ▸ h.base.used c hc) hk

/-- `clear` at any depth leaves no connected cell at all -/
theorem clear_disconnects_all (P : Nat → List Op) (n : Nat) (s : State) (h : Inv s) :
    ∀ c ∈ (step P n .clear s).cells, c.conn = false := by
  rw [step_clear_cells]; exact clear_allDisc h

/-- **nothing is ever re-connected**: a name that was given and names no connected cell names no connected cell
    after any further operation at any depth (names are not reused, a disconnected slot stays disconnected) -/
theorem disconnected_stays (P : Nat → List Op) (n : Nat) (op : Op) (s : State) (h : Inv s) (k : Nat)
    (hk : k ∈ s.used) (hn : NoConn k s) :
    NoConn k (step P n op s) ∧ k ∈ (step P n op s).used :=
  let ⟨_, b⟩ := step_spec P n op s h
  ⟨b.keep.noConn hk hn, b.keep.used k hk⟩

theorem disconnected_stays_run (P : Nat → List Op) (ops : List Op) (s : State) (h : Inv s) (k : Nat)
    (hk : k ∈ s.used) (hn : NoConn k s) :
    NoConn k (runOps P ops s) ∧ k ∈ (runOps P ops s).used :=
  let ⟨_, b⟩ := runOps_spec P ops s h
  ⟨b.keep.noConn hk hn, b.keep.used k hk⟩

/-- at quiescence "no connected cell named `k`" means "no cell named `k`": the slot is erased, its functor destroyed -/
theorem noConn_quiescent {s : State} (h : Inv s) (h0 : s.exec = 0) {k : Nat} (hn : NoConn k s) :
    ∀ c ∈ s.cells, c.id ≠ k := by
  intro c hc hi
  have := hn c hc hi
  rw [h.all_connected h0 c hc] at this; cases this

theorem run_append (P : Nat → List Op) (ops ops2 : List Op) :
    run P (ops ++ ops2) = runOps P ops2 (run P ops) := by
  simp [run, runOps, List.foldl_append]

/-- **C07 `disc_released`.**  After a top-level `disc K<k>` of a given name, and for ever after, the list holds no
    cell named `k` (so, by `live_count_spec`, no copy of its functor) -/
theorem disc_released (P : Nat → List Op) (ops ops2 : List Op) (k : Nat) (hk : k ∈ (run P ops).used) :
    ∀ c ∈ (run P (ops ++ .disc k :: ops2)).cells, c.id ≠ k := by
  have hrun : run P (ops ++ .disc k :: ops2) = runOps P ops2 (step P maxDepth (.disc k) (run P ops)) := by
    rw [run_append]; rfl
  have a := inv_reachable P ops
  obtain ⟨a1, b1⟩ := step_spec P maxDepth (.disc k) (run P ops) a
  have hn1 := disc_disconnects P maxDepth k (run P ops) a
  have hn2 := (disconnected_stays_run P ops2 _ a1 k (b1.keep.used k hk) hn1).1
  have q := quiescent_clean P (ops ++ .disc k :: ops2)
  have a2 := inv_reachable P (ops ++ .disc k :: ops2)
  rw [hrun] at q a2 ⊢
  exact noConn_quiescent a2 q.1 hn2

/-- after a top-level `clear` the list is empty, and no name given before it ever names a cell again -/
theorem clear_released (P : Nat → List Op) (ops ops2 : List Op) :
    (run P (ops ++ [.clear])).cells = [] ∧
    ∀ c ∈ (run P (ops ++ .clear :: ops2)).cells, c.id ∉ (run P ops).used := by
  have a := inv_reachable P ops
  have q0 := quiescent_clean P ops
  have hnil : (step P maxDepth .clear (run P ops)).cells = [] := by
    rw [step_clear_cells]; exact (clear_spec a).2 q0.1
  constructor
  · have : run P (ops ++ [.clear]) = step P maxDepth .clear (run P ops) := by rw [run_append]; rfl
    rw [this]; exact hnil
  · have hrun : run P (ops ++ .clear :: ops2) = runOps P ops2 (step P maxDepth .clear (run P ops)) := by
      rw [run_append]; rfl
    obtain ⟨a1, b1⟩ := step_spec P maxDepth .clear (run P ops) a
    have q := quiescent_clean P (ops ++ .clear :: ops2)
    have a2 := inv_reachable P (ops ++ .clear :: ops2)
    rw [hrun] at q a2 ⊢
    intro c hc hk
    have hn1 : NoConn c.id (step P maxDepth .clear (run P ops)) := by
      intro c' hc'; rw [hnil] at hc'; cases hc'
    have hn2 := (disconnected_stays_run P ops2 _ a1 c.id (b1.keep.used _ hk) hn1).1
    exact noConn_quiescent a2 q.1 hn2 c hc rfl

/-- `edges` records exactly the `own` operations that were performed -/
theorem own_records_edge (k v : Nat) (s : State) :
    (applyBase (.own k v) s).1.edges = (k, v) :: s.edges := rfl

/-- in every state between two operations, at any depth: if the cell of an owner functor has left the list (its
    functor has been destroyed — by `erase` under a holder, by `sweep()`, by `clear()`), every cell it owned a
    scoped connection to is disconnected … -/
theorem owner_gone_disconnects (s : State) (h : Inv s) (k v : Nat) (he : (k, v) ∈ s.edges)
    (hg : ∀ c ∈ s.cells, c.id ≠ k) : NoConn v s :=
  h.own.released (k, v) he hg

/-- **C03/C07 `owner_gone_releases`** … and after every top-level operation it is gone from the list: exactly the
    re-sweep that the seeded mutants cancel (the owner erased by a pass of `sweep()`, the owned cell in front of
    the sweep position, an empty slot behind it) -/
theorem owner_gone_releases (P : Nat → List Op) (ops : List Op) (k v : Nat)
    (he : (k, v) ∈ (run P ops).edges) (hg : ∀ c ∈ (run P ops).cells, c.id ≠ k) :
    ∀ c ∈ (run P ops).cells, c.id ≠ v :=
  noConn_quiescent (inv_reachable P ops) (quiescent_clean P ops).1
    (owner_gone_disconnects _ (inv_reachable P ops) k v he hg)

/-! ## (c) `size()` -/

def nFun (cs : List Cell) : Nat := (cs.filter fun c => c.kind.fid.isSome).length
def nEmpty (cs : List Cell) : Nat := (cs.filter fun c => c.kind.fid.isNone).length

theorem length_split (cs : List Cell) : cs.length = nFun cs + nEmpty cs := by
  induction cs with
  | nil => rfl
  | cons x xs ih =>
    simp only [nFun, nEmpty, List.filter_cons, List.length_cons] at ih ⊢
    cases hx : x.kind.fid <;> simp <;> omega

/-- **C03 `size_spec`, K1 stated honestly.**  After every top-level operation `size()` is the number of cells
    of the list: the connected slots with a functor **plus the slots that were empty when they were connected and
    that no sweep has dropped yet** (known finding K1) — and nothing else: no placeholder, no disconnected slot
    (`quiescent_clean`). -/
theorem size_spec (P : Nat → List Op) (ops : List Op) :
    (applyBase .size (run P ops)).2 = toString (run P ops).cells.length ∧
    (run P ops).cells.length = nFun (run P ops).cells + nEmpty (run P ops).cells ∧
    (∀ c ∈ (run P ops).cells, c.conn = true) := by
  have q := quiescent_clean P ops
  refine ⟨by simp only [applyBase]; rw [q.2.2.1]; rfl, length_split _, fun c hc => (q.2.2.2 c hc).1⟩

/-- inside an emission `size()` also counts one placeholder per running emission (the library's behaviour) -/
theorem size_counts_placeholders (s : State) :
    (applyBase .size s).2 = toString (s.cells.length + s.marks) := rfl

/-! ## non-vacuity: owner + empty slot + re-entrant disconnect

  The demonstration of the five seeded mutants: `K1` (functor 1) first, `K2` an owner (functor 2) of a
  scoped connection to `K1`, `K3` an empty slot, `K4` (functor 4) whose body disconnects `K2` during the emission.
  The sweep at the end of the emission erases `K2`; its functor's destructor disconnects `K1`, which lies *in front
  of* the sweep position; `K3`, the empty slot, is disconnected and erased by the same pass; the re-sweep erases `K1`. -/

def demoBodies : Nat → List Op := fun f => if f = 4 then [.disc 2] else []
def demoOps : List Op :=
  [.conn false 1 (.fn 1), .conn false 2 (.own 2), .own 2 1, .conn false 3 .empty, .conn false 4 (.fn 4)]

/-- before the emission: four cells, the empty one counted (K1) -/
example : ids (run demoBodies demoOps).cells = [1, 2, 3, 4] ∧ (run demoBodies demoOps).live 1 = 1 := by decide

/-- after the emission: only `K4` is left; the functors of `K1` and `K2` are released; nothing deferred -/
example : ids (run demoBodies (demoOps ++ [.emit 7])).cells = [4] ∧
    (run demoBodies (demoOps ++ [.emit 7])).live 1 = 0 ∧ (run demoBodies (demoOps ++ [.emit 7])).live 2 = 0 ∧
    (run demoBodies (demoOps ++ [.emit 7])).live 4 = 1 ∧
    (run demoBodies (demoOps ++ [.emit 7])).deferred = false := by decide

/-- the hypotheses of `owner_gone_releases` hold there: the edge `K2 → K1` is recorded, `K2` is gone — and so is `K1` -/
example : (2, 1) ∈ (run demoBodies (demoOps ++ [.emit 7])).edges ∧
    (∀ c ∈ (run demoBodies (demoOps ++ [.emit 7])).cells, c.id ≠ 2) ∧
    (∀ c ∈ (run demoBodies (demoOps ++ [.emit 7])).cells, c.id ≠ 1) := by decide

/-- inside the emission, after the body of functor 4 has disconnected `K2`: `K2` is still in the list, disconnected,
    `deferred_` is set, `exec_count_` is 1 (a state to which `disconnected_implies_deferred`, `disc_disconnects` and
    `nothing_erased_while_executing` apply non-trivially) -/
example :
    let s0 := run demoBodies demoOps
    let s1 := step demoBodies 2 (.disc 2) { s0 with exec := 1, marks := 1 }
    ids s1.cells = [1, 2, 3, 4] ∧ s1.cells.map (·.conn) = [true, false, true, true] ∧ s1.deferred = true := by
  decide

/-- the same without an emission: `K3` owns `K2` owns `K1`, `K4` empty; `disc K3` at top level erases `K3` under a
    holder, its destructor disconnects `K2` (deferred), the sweep erases `K2`, whose destructor disconnects `K1`
    *behind* the sweep position, the pass drops the empty `K4`, the second sweep erases `K1` -/
def chainOps : List Op :=
  [.conn false 1 (.fn 1), .conn false 2 (.own 2), .own 2 1, .conn false 3 (.own 3), .own 3 2,
   .conn false 4 .empty, .disc 3]

example : (run (fun _ => []) chainOps).cells = [] ∧ (run (fun _ => []) chainOps).live 1 = 0 ∧
    (run (fun _ => []) chainOps).err = false := by decide

/-- what the seeded mutants do, as a model variant: a pass that clears `deferred_` after disconnecting an empty
    slot leaves the disconnected `K1` in the list — `quiescent_clean` is a theorem about `sweepIds`, not about any
    sweep -/
def sweepIdsMutant : List Nat → State → State
  | [], s => s
  | i :: is, s =>
    match find i s.cells with
    | none => sweepIdsMutant is s
    | some c =>
      if c.isEmpty then
        let s1 := if c.conn then { s with cells := setDisc i s.cells, deferred := false } else s
        sweepIdsMutant is (eraseCell i s1)
      else sweepIdsMutant is s

example :
    let s0 := run (fun _ => []) (chainOps.take 6)
    -- `K2` disconnected and `sweep()` entered, as at the end of an emission in which `K2` was disconnected
    let s1 : State := { s0 with cells := setDisc 2 s0.cells, exec := 1, deferred := false }
    (ids (sweepIdsMutant (ids s1.cells) s1).cells = [1, 3] ∧ (sweepIdsMutant (ids s1.cells) s1).deferred = false ∧
     ((sweepIdsMutant (ids s1.cells) s1).cells.map (·.conn)) = [false, true]) ∧
    (ids (sweepIds (ids s1.cells) s1).cells = [1, 3] ∧ (sweepIds (ids s1.cells) s1).deferred = true) := by decide

end Sigc.SweepL
