import Sigc.Model
import Sigc.Lemmas.Basic
import Sigc.Lemmas.Frames
/-!
# C07 — disconnected slots release their functor and memory; nothing leaks
(first theorems; the all-history invariants are being proved in Sigc/Lemmas/Inv*.lean)
-/
namespace Sigc.C07
open Sigc.Model

/-- the library holds functor copies only inside representations of slot variables and of list
    cells: with no slot variable and no list, no copy of any functor is alive -/
theorem nothing_held_without_owners (s : St) (hS : s.S = []) (hI : s.impls = []) (fid : Nat) :
    liveCount s fid = 0 ∧ liveTotal s = 0 := by
  simp [liveCount, liveTotal, hS, hI]

/-- an invalidated representation (referenced trackable died) has released its functor copy -/
theorem invalidate_releases (sl : SlotB) (fid : Nat) : sl.invalidate.live fid = 0 ∧ sl.invalidate.liveAll = 0 := by
  unfold SlotB.invalidate
  cases hr : sl.rep <;> simp [SlotB.live, SlotB.liveAll, hr]

/-- `sweep()` erases exactly the empty cells: every surviving cell is non-empty, every non-empty cell survives in order -/
theorem sweep_cells (s : St) (i : Nat) (im : Impl) (hi : aget s.impls i = some im) :
    ∃ im', aget (sweep s i).impls i = some im' ∧ im'.cells = im.cells.filter (fun c => !c.slot.empty) := by
  unfold sweep
  simp only [hi]
  rw [nullConnsList_impls]
  exact ⟨{ im with deferred := false, cells := im.cells.filter (fun c => !c.slot.empty) }, by simp, rfl⟩

/-- erasing a cell removes it (and only it) from its list -/
theorem eraseCell_cells (s : St) (i cid : Nat) (im : Impl) (hi : aget s.impls i = some im) :
    ∃ im', aget (eraseCell s i cid).impls i = some im' ∧ im'.cells = im.cells.filter (·.id ≠ cid) := by
  unfold eraseCell
  simp only [hi, nullConns_impls]
  exact ⟨{ im with cells := im.cells.filter (·.id ≠ cid) }, by simp, rfl⟩

example : liveTotal { S := [(0, { isVoid := false, slot := { rep := some { call := true, fn := some (.nest false (some (.leaf 2 []))) } } })] } = 1 := by
  decide

end Sigc.C07
