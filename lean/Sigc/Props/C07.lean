import Sigc.Model
import Sigc.Spec
import Sigc.Lemmas.InvLive
import Sigc.Lemmas.InvExamples
import Sigc.Props.C03
/-!
# C07 — disconnected slots release their functor and memory; nothing leaks

Model-level content (mechanism model `P`): the library's heap objects are the impls (`signal_impl`,
owned by `shared_ptr`s of signal objects and of `signal_impl_holder`s), the cells with their reps, and
the functor copies inside reps (`liveCount`, `liveTotal`).

* `no_orphans` — at every quiescent point every impl is owned by a live signal object, no holder is
  outstanding, no slot variable is busy; inside emissions the indexed form `C06.balance_inside`.
* `all_released` — after the harness teardown of *any* reachable state: no impl, no slot, no signal,
  no connection, no scoped connection, no trackable is left and no functor copy is alive.
* `functor_alive_def`, `release_*` — a functor copy is alive iff it sits in the rep of a user slot or of a
  cell of a live impl (by definition of `liveCount`), and the operations that destroy reps release exactly
  the copies those reps held: `invalidate`, `eraseCell`, `sweep`, `~signal_impl`.
* `functor_alive_iff` — at quiescent points every cell is a still-connected slot of a list owned by a live
  signal object (uses `C03.quiescent_clean` of work package p_emit).
-/
namespace Sigc.C07
open Sigc.Model Sigc.Inv

/-- **no orphans**: in every reachable (quiescent) state
    * every `signal_impl` is owned by a live signal object and has no outstanding `signal_impl_holder`;
    * every signal object's impl exists;
    * no user slot is in the middle of an invocation -/
theorem no_orphans (fuel : Nat) (P : Prog) (s : St) (h : runTop fuel P {} P.top = some s) :
    (∀ p ∈ s.impls, p.2.holders = 0 ∧ ∃ g hd, aget s.G g = some hd ∧ hd.impl = some p.1) ∧
    (∀ g hd i, aget s.G g = some hd → hd.impl = some i → ∃ im, aget s.impls i = some im) ∧
    (∀ i v, aget s.S i = some v → v.incall = 0) := by
  have hl := Links.reachable fuel P s h
  have hb := Bal.reachable fuel P s h
  have hc := Inc.reachable fuel P s h
  refine ⟨?_, fun g hd i hg hi => hl.1.2.get hg hi, fun i v hv => hc.1 i v hv⟩
  intro p hp
  obtain ⟨h1, h2⟩ := hb.2.1 p.1 p.2 (aget_of_mem hl.1.1.keys hp)
  refine ⟨h1, ?_⟩
  rcases h2 with e | e | e
  · cases e
  · exact absurd e (Nat.lt_irrefl 0)
  · exact e

/-- **all released**: run any program to the end, then let the harness destroy what is left (scoped
    connections, connections, slots, `clear()`, signals, trackables).  Nothing of the library remains:
    no `signal_impl`, no slot, no signal object, no connection, no trackable, and not a single functor copy -/
theorem all_released (fuel fuel' : Nat) (P : Prog) (s s' : St) (h : runTop fuel P {} P.top = some s)
    (ht : teardown fuel' P s = some s') :
    s'.impls = [] ∧ s'.S = [] ∧ s'.G = [] ∧ s'.C = [] ∧ s'.K = [] ∧ s'.T = [] ∧
    liveTotal s' = 0 ∧ ∀ fid, liveCount s' fid = 0 := by
  have hs : TdInv s :=
    ⟨(Links.reachable fuel P s h).1.1, Bal.reachable fuel P s h, Inc.reachable fuel P s h⟩
  obtain ⟨_, hK, hC, hS, hG, hT, hI⟩ := teardown_empty fuel' P s s' hs ht
  exact ⟨hI, hS, hG, hC, hK, hT, liveTotal_nil hS hI, liveCount_nil hS hI⟩

/-
  Not part of `all_released`, and false of the model: `s'.ownedT = [] ∧ s'.ownedK = [] ∧ s'.ownedG = []`.
  `teardown` runs its operations through `execOp`, which (unlike `execLine` and `emitImpl`) does not run
  `collect`; witness: `owners; newT 0; mkS 0 V ownT:1:0` ends, after teardown, with `ownedT = [1]` although
  no functor holds object 1 any more.  Nothing observable (trace, `final live=`) depends on it.
  (Likewise a signal object owned by a functor, `ownG:`, is destroyed by the teardown as a named object, `s'.G = []`,
  while its `ownedG` entry stays; `C06.ownedG_named` is a statement about the states of `runTop`.)
-/

/-- the same from any quiescent state satisfying the invariants (not only at the end of a program) -/
theorem all_released_from (fuel : Nat) (P : Prog) (s s' : St) (hs : TdInv s)
    (ht : teardown fuel P s = some s') :
    s'.impls = [] ∧ s'.S = [] ∧ s'.G = [] ∧ s'.C = [] ∧ s'.K = [] ∧ s'.T = [] ∧ liveTotal s' = 0 := by
  obtain ⟨_, hK, hC, hS, hG, hT, hI⟩ := teardown_empty fuel P s s' hs ht
  exact ⟨hI, hS, hG, hC, hK, hT, liveTotal_nil hS hI⟩

/-! ### functor copies -/

/-- by definition: the live copies of functor `fid` are exactly those held by reps of user slot variables
    and of cells of live impls -/
theorem functor_alive_def (s : St) (fid : Nat) :
    liveCount s fid = slotsLive fid s.S + implsLive fid s.impls := rfl

/-- a rep loses its functor through `notify_slot_rep_invalidated` (trackable death) … -/
theorem release_invalidate (sl : SlotB) (fid : Nat) :
    sl.invalidate.live fid = 0 ∧ sl.invalidate.liveAll = 0 :=
  ⟨live_invalidate sl fid, liveAll_invalidate sl⟩

/-- … not through `disconnect()` alone (the functor dies with the rep, when the cell is erased) … -/
theorem disconnect_keeps_functor (sl : SlotB) (fid : Nat) : sl.disconnectRep.live fid = sl.live fid :=
  live_disconnectRep sl fid

/-- … through the erase of its cell: exactly the copies of the erased cell are released -/
theorem release_eraseCell {s : St} {i cid : Nat} {im : Impl} (hi : aget s.impls i = some im) (fid : Nat) :
    liveCount (eraseCell s i cid) fid + cellsLive fid (im.cells.filter (fun c => !decide (c.id ≠ cid))) =
      liveCount s fid :=
  liveCount_eraseCell hi fid

/-- … through the sweep at the end of the outermost emission: exactly the copies of the cells that had
    become empty -/
theorem release_sweep {s : St} {i : Nat} {im : Impl} (hi : aget s.impls i = some im) (fid : Nat) :
    liveCount (sweep s i) fid + cellsLive fid (im.cells.filter (fun c => c.slot.empty)) = liveCount s fid :=
  liveCount_sweep hi fid

/-- … and through `~signal_impl`: every copy held by the cells of the destroyed list -/
theorem release_gcImpl {s : St} (hw : WF s) {i : Nat} {im : Impl} (hi : aget s.impls i = some im)
    (hrm : aget (gcImpl s i).impls i = none) (fid : Nat) :
    liveCount (gcImpl s i) fid + cellsLive fid im.cells = liveCount s fid :=
  liveCount_gcImpl_removed hw hi hrm fid

/-- after `notify_callbacks()` of object `o`, every user slot and every cell that referred to `o` holds no
    functor copy any more -/
theorem release_on_trackable_death {s : St} (hw : WF s) (o : Nat) :
    (∀ k v, aget s.S k = some v → v.slot.tracksObj o = true →
        ∃ v', aget (invalidateTrackable s o).S k = some v' ∧ v'.slot.liveAll = 0) ∧
    (∀ i im c, aget s.impls i = some im → c ∈ im.cells → c.slot.tracksObj o = true →
        ∀ j jm d, aget (invalidateTrackable s o).impls j = some jm → d ∈ jm.cells → d.id = c.id →
          d.slot.liveAll = 0) := by
  constructor
  · intro k v hk ht
    refine ⟨{ v with slot := v.slot.invalidate }, ?_, liveAll_invalidate _⟩
    rw [(invalidateTrackable_frame s o).2.2.2.2, aget_amap, hk]
    simp [ht]
  · intro i im c hi hc ht j jm d hj hd hde
    exact (invalidateTrackable_gone hw hi hc ht j jm d hj hd hde).2.2.1

/-- **functor_alive_iff** (quiescent points).  With `functor_alive_def` (a copy is alive iff it sits in the rep
    of a user slot variable or of a cell of a live impl), in every reachable state:
    * every cell of every impl is a *still connected* slot — linked, with a rep — of a list owned by a live
      signal object: no copy is kept on behalf of a disconnected or cleared slot (its cell has been erased:
      `C03.quiescent_clean`) or of a destroyed signal (`no_orphans`);
    * a rep invalidated by a trackable holds no copy (`release_invalidate`): neither a user slot nor a cell
      keeps a functor alive once a trackable it referred to has died (`release_on_trackable_death`). -/
theorem functor_alive_iff (fuel : Nat) (P : Prog) (s : St) (h : runTop fuel P {} P.top = some s) :
    (∀ fid, liveCount s fid = slotsLive fid s.S + implsLive fid s.impls) ∧
    (∀ i im c, aget s.impls i = some im → c ∈ im.cells →
        c.linked = true ∧ c.slot.rep.isSome = true ∧ ∃ g hd, aget s.G g = some hd ∧ hd.impl = some i) ∧
    (∀ sl : SlotB, sl.invalidate.liveAll = 0) := by
  refine ⟨fun fid => rfl, ?_, liveAll_invalidate⟩
  intro i im c hi hc
  have hq := Sigc.C03.quiescent_clean fuel P P.top s h i im hi
  have hb := Bal.reachable fuel P s h
  refine ⟨(hq.2.2.2 c hc).2, (hq.2.2.2 c hc).1, ?_⟩
  rcases (hb.2.1 i im hi).2 with e | e | e
  · cases e
  · exact absurd e (Nat.lt_irrefl 0)
  · exact e

/-! ### examples -/

/-- on the example state `Sigc.Inv.exT` the trackable's death releases both functor copies' holders -/
example : ∃ v', aget (invalidateTrackable exT 7).S 0 = some v' ∧ v'.slot.liveAll = 0 :=
  (release_on_trackable_death exT_wf 7).1 0 _ (by simp [exT, aget]; rfl) (by decide)

/-- `sig.connect(f1)`: one functor copy is alive at the end of the program; the teardown releases it and
    everything else -/
def exP : Prog :=
  { bodies := [],
    top := [⟨"newG 0 V", .newG 0 (some .V)⟩, ⟨"connfn 0 0 fn 1", .connfn 0 0 (.fn 1) false⟩] }

example : ∃ s, runTop 3 exP {} exP.top = some s ∧ liveTotal s = 1 ∧
    ∀ s', teardown 3 exP s = some s' → s'.impls = [] ∧ liveTotal s' = 0 := by
  have h : ∃ s, runTop 3 exP {} exP.top = some s ∧ liveTotal s = 1 := by
    simp [exP, runTop, execLine, execOp, stepSimple, aget, aset, St.fresh, mkFun, specTaint, ensureImpl,
      insertCell, setConn, setImpl, St.log, collect, collectN, modeRule, FSpec.isOwner, liveTotal, SlotB.liveAll,
      Fun.countAll]
  obtain ⟨s, hs, hl⟩ := h
  refine ⟨s, hs, hl, fun s' ht => ?_⟩
  obtain ⟨h1, _, _, _, _, _, h7, _⟩ := all_released 3 3 exP s s' hs ht
  exact ⟨h1, h7⟩

end Sigc.C07
