import Sigc.Model
import Sigc.Spec
/-! property theorems for C07 (being written) -/
namespace Sigc.C07
end Sigc.C07
