import Sigc.SlotGLemmasStep
/-!
  The exchange of a variable's representation (`exchangeRep`: the common tail of both assignment operators and of
  `setS`) preserves `WF`, given the language rules `owned` and `xparent`.
-/
namespace Sigc.SlotG

theorem exchangeRep_eq (d n : Nat) (s : State) : exchangeRep d n s =
    match repOf s d with
    | none => s.modSlot d fun D => { D with rep := some n }
    | some q =>
      swapVar d q (some n)
        (destroyRep (fuel (s.modRep n fun N => { N with parent := match s.reps q with
            | some Q => Q.parent
            | none => none }))
          q (s.modRep n fun N => { N with parent := match s.reps q with
            | some Q => Q.parent
            | none => none })) := by
  unfold exchangeRep
  cases repOf s d <;> rfl

theorem inv_setParent_orphan {s : State} (h : Inv s) {n : Nat} (ho : ∀ w, repOf s w ≠ some n)
    (par : Option Nat) : Inv (s.modRep n fun N => { N with parent := par }) := by
  inv_auto h

theorem inv_adoptMod {s : State} (h : Inv s) {d n : Nat} {N : Rep} (hd : repOf s d = none)
    (hn : s.reps n = some N) (hnp : N.parent = none) (ho : ∀ w, repOf s w ≠ some n) :
    Inv (s.modSlot d fun D => { D with rep := some n }) := by
  inv_auto h with [repOf_eq]

/-- `s` is a state in which the new representation `n` is not yet stored anywhere; `hx`: the `owned` and
    `xparent` rules for the variable `d` whose representation is exchanged -/
theorem wf_exchange {s : State} (hI : Inv s) (hidle : Idle s) {d n : Nat} {N : Rep}
    (hheld : ∀ r R, s.reps r = some R → (∃ w, repOf s w = some r) ∨ r = n)
    (hn : s.reps n = some N) (hnp : N.parent = none) (horph : ∀ w, repOf s w ≠ some n)
    (hd : ∃ D, s.slots d = some D)
    (hx : ∀ q Q, repOf s d = some q → s.reps q = some Q →
      ((∃ fid h t, Q.fn = some (.own fid h t)) → ¬ Owned s d ∨ ∃ fid t, N.fn = some (.own fid d t)) ∧
      (∀ p, Q.parent = some p → p = n ∨ (p ≠ q ∧ ¬ ∃ fid h t, Q.fn = some (.own fid h t))))
    (he : (exchangeRep d n s).err = false) : WF (exchangeRep d n s) := by
  rw [exchangeRep_eq] at he ⊢
  cases hq : repOf s d with
  | none =>
    simp only []
    refine ⟨inv_adoptMod hI hq hn hnp horph, ?_, ?_⟩
    · unfold Idle at *; st_simp; exact hidle
    · obtain ⟨D, hD⟩ := hd
      unfold Held; intro r R hR; st_simp
      rcases hheld r R hR with ⟨w, hw⟩ | rfl
      · exact ⟨w, by grind [repOf_eq]⟩
      · exact ⟨d, by simp [hD]⟩
  | some q =>
    obtain ⟨Q, hQ⟩ := hI.repAlive d q hq
    obtain ⟨hx1, hx2⟩ := hx q Q hq hQ
    have hne : n ≠ q := fun he => horph d (by rw [he]; exact hq)
    simp only [hq, hQ] at he ⊢
    rw [err_swapVar] at he
    generalize hs1 : (s.modRep n fun N => { N with parent := Q.parent }) = s1 at he ⊢
    have hI1 : Inv s1 := by rw [← hs1]; exact inv_setParent_orphan hI horph _
    have hrep1 : ∀ w, repOf s1 w = repOf s w := by intro w; rw [← hs1, repOf_modRep]
    have hq1 : repOf s1 d = some q := by rw [hrep1]; exact hq
    have hQ1 : s1.reps q = some Q := by rw [← hs1, reps_modRep, if_neg (Ne.symm hne)]; exact hQ
    have hN1 : s1.reps n = some { N with parent := Q.parent } := by rw [← hs1, reps_modRep]; simp [hn]
    have horph1 : ∀ w, repOf s1 w ≠ some n := by intro w; rw [hrep1]; exact horph w
    have hother1 : ∀ x, x ≠ n → s1.reps x = s.reps x := by
      intro x hx; rw [← hs1, reps_modRep, if_neg hx]
    obtain ⟨hC3, hrest⟩ := destroyRep_spec (fuel s1) q s1 hI1
    obtain ⟨hI3, hP3⟩ := hrest he
    have hown1 : ∀ v, Owned s1 v → Owned s v := by
      rintro v ⟨r, R, fid, t, hR, hf⟩
      by_cases hrn : r = n
      · subst hrn; rw [hN1] at hR; cases hR; exact ⟨r, N, fid, t, hn, hf⟩
      · rw [hother1 r hrn] at hR; exact ⟨r, R, fid, t, hR, hf⟩
    -- `d` still holds `q` after the old representation was destroyed
    have hq3 : repOf (destroyRep (fuel s1) q s1) d = some q := by
      by_cases hk : ∃ fid h t, Q.fn = some (.own fid h t)
      · rcases hx1 hk with hno | ⟨fid, t, hNf⟩
        · have hNO : ¬ Owned s1 d := fun h => hno (hown1 d h)
          simp only [repOf, hC3.slotsKeep d hNO]; exact hq1
        · simp only [repOf, destroyRep_ownedByOrphan (fuel s1) q s1 n d _ fid t hI1 horph1 hne hN1 hNf]
          exact hq1
      · have hnk : ∀ f, Q.fn = some f → f.owns = none := by
          intro f hf
          cases f with
          | own fid h t => exact absurd ⟨fid, h, t, hf⟩ hk
          | _ => rfl
        simp only [repOf, destroyRep_slots_noOwn _ q s1 Q hQ1 hnk]; exact hq1
    obtain ⟨Q3, hQ3⟩ := hI3.repAlive d q hq3
    have hN3 : (destroyRep (fuel s1) q s1).reps n = some { N with parent := Q.parent } := by
      rw [destroyRep_orphan _ q s1 n horph1 hne]; exact hN1
    have horph3 : ∀ w, repOf (destroyRep (fuel s1) q s1) w ≠ some n := by
      intro w hw
      rw [repOf_eq] at hw
      obtain ⟨V, hV, hVr⟩ := hw
      exact horph1 w (repOf_eq.mpr ⟨V, hC3.slots w V hV, hVr⟩)
    refine ⟨inv_swapVar hI3 (some n) hq3 hQ3 (hP3 Q3 hQ3) ?_, ?_, ?_⟩
    · intro n' hn'; cases hn'
      refine ⟨hne, horph3, _, hN3, ?_⟩
      intro p hp
      simp only at hp
      obtain ⟨P, fid, hP, hPf⟩ := hI.parentOk q Q p d hQ hp hq
      rcases hx2 p hp with rfl | ⟨hpq, hk⟩
      · refine ⟨hne, _, fid, hN3, ?_⟩
        rw [hn] at hP; cases hP; exact hPf
      · refine ⟨hpq, ?_⟩
        by_cases hpn : p = n
        · subst hpn; rw [hn] at hP; cases hP; exact ⟨_, fid, hN3, hPf⟩
        · have hP1 : s1.reps p = some P := by rw [hother1 p hpn]; exact hP
          have hnk : ∀ f, Q.fn = some f → f.owns = none := by
            intro f hf
            cases f with
            | own fid h t => exact absurd ⟨fid, h, t, hf⟩ hk
            | _ => rfl
          have hfu : fuel s1 = (s1.nextRep + 1) + 1 := rfl
          rw [hfu, destroyRep_noOwn _ q s1 Q hQ1 hnk]
          cases hfq : Q.fn with
          | none => exact ⟨P, fid, by simp [reps_setRep, hpq, hP1], hPf⟩
          | some f =>
            simp only []
            rcases reps_dropFn_other q Q f s1 p hpq with h | ⟨v, X, -, -, hX, h⟩
            · exact ⟨P, fid, by rw [h]; exact hP1, hPf⟩
            · rw [hP1] at hX; cases hX
              refine ⟨clearPar q P, fid, h, ?_⟩
              unfold clearPar; split <;> exact hPf
    · have hidle1 : Idle s1 := by
        rw [← hs1]; unfold Idle at *; st_simp; exact hidle
      exact idle_swapVar (idle_casc hC3 hidle1) d q (some n)
    · refine held_swapVar hI3 ?_ hq3
      intro r R3 hR3
      by_cases hrn : r = n
      · right; rw [hrn]
      · left
        obtain ⟨R1, hR1, -⟩ := hC3.reps r R3 hR3
        rw [hother1 r hrn] at hR1
        rcases hheld r R1 hR1 with ⟨w, hw⟩ | h
        · rcases hC3.killed w r (by rw [hrep1]; exact hw) with hk | ⟨-, hk⟩
          · exact ⟨w, hk⟩
          · rw [hk] at hR3; cases hR3
        · exact absurd h hrn

end Sigc.SlotG
