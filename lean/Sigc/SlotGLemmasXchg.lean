import Sigc.SlotGLemmasStep
/-!
  The exchange of a variable's representation (`exchangeRep`: the common tail of both assignment operators and of
  `setS`) preserves `WF` — for every state: the variable refers to the new representation before the old one is
  deleted, so whatever that deletion destroys (the parent of the old representation, the source of the assignment,
  the variable itself) detaches from the representation it finds in the variable.
-/
namespace Sigc.SlotG

/-- `~trackable` of representation `q` (notify the weak pointers), free it -/
def eraseRep (q : Nat) (s : State) : State := (weakNotify q s).setRep q none

theorem deleteRep_eq (q : Nat) (s : State) : deleteRep q s = eraseRep q (destroyRep (fuel s) q s) := rfl

@[slotg_simp] theorem reps_eraseRep (q : Nat) (s : State) (x : Nat) :
    (eraseRep q s).reps x = if x = q then none else s.reps x := by
  unfold eraseRep; simp only [slotg_simp]; grind
@[slotg_simp] theorem slots_eraseRep (q : Nat) (s : State) : (eraseRep q s).slots = s.slots := by
  unfold eraseRep; simp only [slotg_simp]
@[slotg_simp] theorem repOf_eraseRep (q : Nat) (s : State) (w : Nat) : repOf (eraseRep q s) w = repOf s w := by
  simp only [repOf, slots_eraseRep]
@[slotg_simp] theorem trks_eraseRep (q : Nat) (s : State) : (eraseRep q s).trks = s.trks := by
  unfold eraseRep; simp only [slotg_simp]
@[slotg_simp] theorem nextRep_eraseRep (q : Nat) (s : State) : (eraseRep q s).nextRep = s.nextRep := by
  unfold eraseRep; simp only [slotg_simp]
@[slotg_simp] theorem err_eraseRep (q : Nat) (s : State) : (eraseRep q s).err = s.err := by
  unfold eraseRep; simp only [slotg_simp]
theorem conns_eraseRep (q : Nat) (s : State) (Q : Rep) (hq : s.reps q = some Q) (c : Nat) :
    (eraseRep q s).conns c = if c ∈ Q.cbs then (s.conns c).map (fun _ => none) else s.conns c := by
  unfold eraseRep; simp only [slotg_simp]; exact conns_weakNotify q s Q hq c

theorem orphan_eraseRep {s : State} (q r : Nat) : Orphan (eraseRep q s) r ↔ Orphan s r := by
  unfold Orphan; simp only [repOf_eraseRep]

/-- freeing a representation that is stored nowhere and has no functor any more -/
theorem inv_eraseOrphan {s : State} (h : Inv s) {q : Nat} {Q : Rep} (ho : Orphan s q)
    (hq : s.reps q = some Q) (hfn : Q.fn = none) : Inv (eraseRep q s) := by
  have hc := conns_eraseRep q s Q hq
  have hdisj : ∀ c, c ∈ Q.cbs → ∀ r R, s.reps r = some R → c ∈ R.cbs → r = q :=
    fun c hc1 r R hR hc2 => h.regUniq r R q Q c hR hq hc2 hc1
  refine { repAlive := ?_, repUniq := ?_, connReg := ?cr, cbsConn := ?cc, regUniq := ?_, cbsNodup := ?_,
           parentOk := ?_, trkReg := ?_, trkEnt := ?_, trkNodup := ?_, refOk := ?_, ownOk := ?_, nestOk := ?_, anonBound := ?_, repBound := ?_, regHeld := ?_, ownCOk := ?_ }
  case cr =>
    intro c w hcw
    rw [hc c] at hcw
    by_cases hm : c ∈ Q.cbs
    · rw [if_pos hm] at hcw; cases hx : s.conns c <;> simp [hx] at hcw
    · rw [if_neg hm] at hcw
      obtain ⟨r, R, hR, hmR, hor⟩ := h.connReg c w hcw
      have hrq : r ≠ q := fun he => by subst he; rw [hq] at hR; cases hR; exact hm hmR
      exact ⟨r, R, by rw [reps_eraseRep, if_neg hrq]; exact hR, hmR,
        by rw [repOf_eraseRep, orphan_eraseRep]; exact hor⟩
  case cc =>
    intro r R c hR hm
    rw [reps_eraseRep] at hR
    by_cases hrq : r = q
    · simp [hrq] at hR
    · rw [if_neg hrq] at hR
      obtain ⟨w, hw, hor⟩ := h.cbsConn r R c hR hm
      have hcn : c ∉ Q.cbs := fun hmq => hrq (hdisj c hmq r R hR hm)
      exact ⟨w, by rw [hc c, if_neg hcn]; exact hw, by rw [repOf_eraseRep, orphan_eraseRep]; exact hor⟩
  all_goals inv_clause h

theorem exchangeRep_eq (d n : Nat) (s : State) : exchangeRep d n s =
    match repOf s d with
    | none => s.modSlot d fun D => { D with rep := some n }
    | some q =>
      deleteRep q (weakNotify q ((s.modRep n fun N => { N with parent := match s.reps q with
          | some Q => Q.parent
          | none => none }).modSlot d fun D => { D with rep := some n })) := rfl

theorem State.ext' {a b : State} (h1 : a.slots = b.slots) (h2 : a.reps = b.reps) (h3 : a.trks = b.trks)
    (h4 : a.conns = b.conns) (h5 : a.nextRep = b.nextRep) (h6 : a.err = b.err) : a = b := by
  cases a; cases b; simp_all

/-- `notify_callbacks()` of a representation: the registered connections are nulled, the list is gone -/
theorem inv_weakNotify {s : State} (h : Inv s) (r : Nat) : Inv (weakNotify r s) := by
  cases hr : s.reps r with
  | none =>
    have : weakNotify r s = s := by unfold weakNotify; simp only [hr]
    rw [this]; exact h
  | some R =>
    have hc := conns_weakNotify r s R hr
    inv_auto h

theorem weakNotify_none {s : State} {r : Nat} (hr : s.reps r = none) : weakNotify r s = s := by
  unfold weakNotify; simp only [hr]

/-- `notify_callbacks()` of the old representation commutes with an update of a slot variable -/
theorem weakNotify_modSlot (q v : Nat) (g : SVar → SVar) (s : State) :
    weakNotify q (s.modSlot v g) = (weakNotify q s).modSlot v g := by
  cases hq : s.reps q with
  | none =>
    rw [weakNotify_none hq, weakNotify_none (by rw [reps_modSlot]; exact hq)]
  | some Q =>
    have hq' : (s.modSlot v g).reps q = some Q := by rw [reps_modSlot]; exact hq
    apply State.ext'
    · funext x; simp only [slotg_simp]
    · funext x; simp only [slotg_simp]
    · simp only [slotg_simp]
    · funext c; rw [conns_weakNotify q _ Q hq', conns_modSlot, conns_modSlot, conns_weakNotify q s Q hq]
    · simp only [slotg_simp]
    · simp only [slotg_simp]

/-- … and with an update of another representation that keeps its registrations -/
theorem weakNotify_modRep (q n : Nat) (g : Rep → Rep) (s : State) (hne : n ≠ q) :
    weakNotify q (s.modRep n g) = (weakNotify q s).modRep n g := by
  cases hq : s.reps q with
  | none =>
    rw [weakNotify_none hq, weakNotify_none (by rw [reps_modRep, if_neg (Ne.symm hne)]; exact hq)]
  | some Q =>
    have hq' : (s.modRep n g).reps q = some Q := by rw [reps_modRep, if_neg (Ne.symm hne)]; exact hq
    apply State.ext'
    · simp only [slotg_simp]
    · funext x; simp only [slotg_simp]
      by_cases hxq : x = q
      · subst hxq; simp [Ne.symm hne]
      · simp [hxq]
    · simp only [slotg_simp]
    · funext c; rw [conns_weakNotify q _ Q hq', conns_modRep, conns_modRep, conns_weakNotify q s Q hq]
    · simp only [slotg_simp]
    · simp only [slotg_simp]

/-- storing an unstored, unregistered representation in a variable that has none -/
theorem inv_adoptMod {s : State} (h : Inv s) {d n : Nat} {N : Rep} (hd : repOf s d = none)
    (hn : s.reps n = some N) (hnp : N.parent = none) (hnc : N.cbs = []) (ho : Orphan s n) :
    Inv (s.modSlot d fun D => { D with rep := some n }) := by
  have hrep : ∀ w r, r ≠ n → (repOf (s.modSlot d fun D => { D with rep := some n }) w = some r ↔
      repOf s w = some r) := by
    intro w r hrn
    rw [repOf_modSlot_rep]
    by_cases hwd : w = d
    · subst hwd; rw [hd]; simp only [if_true]; split <;> simp [Ne.symm hrn]
    · rw [if_neg hwd]
  have horp : ∀ r, r ≠ n → (Orphan (s.modSlot d fun D => { D with rep := some n }) r ↔ Orphan s r) := by
    intro r hrn; unfold Orphan
    constructor <;> (intro hh w hw; exact hh w (by first | exact (hrep w r hrn).mp hw | exact (hrep w r hrn).mpr hw))
  have hnreg : ∀ r R c, s.reps r = some R → c ∈ R.cbs → r ≠ n := by
    intro r R c hR hm he; subst he; rw [hn] at hR; cases hR; rw [hnc] at hm; simp at hm
  refine { repAlive := ?_, repUniq := ?_, connReg := ?cr, cbsConn := ?cc, regUniq := ?_, cbsNodup := ?_,
           parentOk := ?_, trkReg := ?_, trkEnt := ?_, trkNodup := ?_, refOk := ?_, ownOk := ?_, nestOk := ?_, anonBound := ?_, repBound := ?_, regHeld := ?_, ownCOk := ?_ }
  case cr =>
    intro c w hcw
    rw [conns_modSlot] at hcw
    obtain ⟨r, R, hR, hm, hor⟩ := h.connReg c w hcw
    have hrn := hnreg r R c hR hm
    refine ⟨r, R, by rw [reps_modSlot]; exact hR, hm, ?_⟩
    rw [hrep w r hrn, horp r hrn]; exact hor
  case cc =>
    intro r R c hR hm
    rw [reps_modSlot] at hR
    obtain ⟨w, hw, hor⟩ := h.cbsConn r R c hR hm
    have hrn := hnreg r R c hR hm
    exact ⟨w, by rw [conns_modSlot]; exact hw, by rw [hrep w r hrn, horp r hrn]; exact hor⟩
  all_goals (unfold Orphan at ho; inv_clause h with [repOf_eq])

/-- the first half of the exchange: the new representation inherits the parent of the old one and the variable
    refers to the new one; the old one is now stored nowhere -/
def switchRep (d n : Nat) (par : Option Nat) (s : State) : State :=
  (s.modRep n fun N => { N with parent := par }).modSlot d fun D => { D with rep := some n }

theorem inv_switchRep {s : State} (h : Inv s) {d n q : Nat} {N Q : Rep} (hq : repOf s d = some q)
    (hQ : s.reps q = some Q) (hqc : Q.cbs = []) (hn : s.reps n = some N) (hnc : N.cbs = []) (ho : Orphan s n) :
    Inv (switchRep d n Q.parent s) ∧ Orphan (switchRep d n Q.parent s) q ∧
      repOf (switchRep d n Q.parent s) d = some n := by
  have hne : n ≠ q := fun he => ho d (by rw [he]; exact hq)
  have hdal : (s.slots d).isSome = true := by
    obtain ⟨D, hD, -⟩ := repOf_eq.mp hq; simp [hD]
  have hrepd : repOf (switchRep d n Q.parent s) d = some n := by
    unfold switchRep; rw [repOf_modSlot_rep, if_pos rfl, slots_modRep, if_pos hdal]
  have hrepo : ∀ w, w ≠ d → repOf (switchRep d n Q.parent s) w = repOf s w := by
    intro w hwd; unfold switchRep; rw [repOf_modSlot_rep, if_neg hwd, repOf_modRep]
  have horq : Orphan (switchRep d n Q.parent s) q := by
    intro w hw
    by_cases hwd : w = d
    · subst hwd; rw [hrepd] at hw; cases hw; exact hne rfl
    · rw [hrepo w hwd] at hw; exact hwd (h.repUniq w d q hw hq)
  have horp : ∀ r, r ≠ n → Orphan s r → Orphan (switchRep d n Q.parent s) r := by
    intro r hrn hor w hw
    by_cases hwd : w = d
    · subst hwd; rw [hrepd] at hw; cases hw; exact hrn rfl
    · rw [hrepo w hwd] at hw; exact hor w hw
  have hnreg : ∀ r R c, s.reps r = some R → c ∈ R.cbs → r ≠ n := by
    intro r R c hR hm he; subst he; rw [hn] at hR; cases hR; rw [hnc] at hm; simp at hm
  have hreps : ∀ r, r ≠ n → (switchRep d n Q.parent s).reps r = s.reps r := by
    intro r hrn; unfold switchRep; rw [reps_modSlot, reps_modRep, if_neg hrn]
  have hconns : (switchRep d n Q.parent s).conns = s.conns := by
    unfold switchRep; rw [conns_modSlot, conns_modRep]
  refine ⟨?_, horq, hrepd⟩
  refine { repAlive := ?_, repUniq := ?_, connReg := ?cr, cbsConn := ?cc, regUniq := ?_, cbsNodup := ?_,
           parentOk := ?po, trkReg := ?_, trkEnt := ?_, trkNodup := ?_, refOk := ?ro, ownOk := ?_, nestOk := ?_, anonBound := ?_, repBound := ?_, regHeld := ?_, ownCOk := ?_ }
  case ro =>
    apply refOk_transfer h
    · intro r R' hR'
      unfold switchRep at hR'
      rw [reps_modSlot] at hR'
      exact modRep_fn_inv (g := fun N => { N with parent := Q.parent }) (fun _ => rfl) hR'
    · intro v V hV
      unfold switchRep
      rw [slots_modSlot, slots_modRep, hV]
      by_cases hvd : v = d <;> simp [hvd]
  case cr =>
    intro c w hcw
    rw [hconns] at hcw
    obtain ⟨r, R, hR, hm, hor⟩ := h.connReg c w hcw
    have hrn := hnreg r R c hR hm
    refine ⟨r, R, by rw [hreps r hrn]; exact hR, hm, ?_⟩
    rcases hor with hor | hor
    · by_cases hwd : w = d
      · subst hwd; rw [hq] at hor; cases hor; exact .inr horq
      · exact .inl (by rw [hrepo w hwd]; exact hor)
    · exact .inr (horp r hrn hor)
  case cc =>
    intro r R c hR hm
    have hrn : r ≠ n := by
      intro he; subst he
      unfold switchRep at hR
      rw [reps_modSlot, reps_modRep] at hR
      simp only [if_true, hn, Option.map_some, Option.some.injEq] at hR
      subst hR; simp only [hnc] at hm; simp at hm
    rw [hreps r hrn] at hR
    obtain ⟨w, hw, hor⟩ := h.cbsConn r R c hR hm
    refine ⟨w, by rw [hconns]; exact hw, ?_⟩
    rcases hor with hor | hor
    · by_cases hwd : w = d
      · subst hwd; rw [hq] at hor; cases hor; exact .inr horq
      · exact .inl (by rw [hrepo w hwd]; exact hor)
    · exact .inr (horp r hrn hor)
  case po =>
    intro r R p v hR hp hv
    by_cases hvd : v = d
    · subst hvd
      rw [hrepd] at hv; cases hv
      -- the new representation: its parent is the parent of the old one
      unfold switchRep at hR
      rw [reps_modSlot, reps_modRep] at hR
      simp only [if_true, hn, Option.map_some, Option.some.injEq] at hR
      subst hR
      simp only at hp
      obtain ⟨P, fid, hP, hPf⟩ := h.parentOk q Q p v hQ hp hq
      by_cases hpn : p = n
      · subst hpn
        rw [hn] at hP; cases hP
        refine ⟨{ N with parent := Q.parent }, fid, ?_, hPf⟩
        unfold switchRep; rw [reps_modSlot, reps_modRep]; simp [hn]
      · exact ⟨P, fid, by rw [hreps p hpn]; exact hP, hPf⟩
    · rw [hrepo v hvd] at hv
      have hrn : r ≠ n := fun he => ho v (by rw [← he]; exact hv)
      rw [hreps r hrn] at hR
      obtain ⟨P, fid, hP, hPf⟩ := h.parentOk r R p v hR hp hv
      by_cases hpn : p = n
      · subst hpn
        rw [hn] at hP; cases hP
        refine ⟨{ N with parent := Q.parent }, fid, ?_, hPf⟩
        unfold switchRep; rw [reps_modSlot, reps_modRep]; simp [hn]
      · exact ⟨P, fid, by rw [hreps p hpn]; exact hP, hPf⟩
  all_goals (unfold Orphan at ho; unfold switchRep; inv_clause h with [repOf_eq])

theorem exchangeRep_some {s : State} {d n q : Nat} {Q : Rep} (hq : repOf s d = some q)
    (hQ : s.reps q = some Q) (hne : n ≠ q) :
    exchangeRep d n s = eraseRep q (destroyRep (fuel (switchRep d n Q.parent (weakNotify q s))) q
      (switchRep d n Q.parent (weakNotify q s))) := by
  rw [exchangeRep_eq]; simp only [hq, hQ]
  have : weakNotify q ((s.modRep n fun N => { N with parent := Q.parent }).modSlot d fun D =>
      { D with rep := some n }) = switchRep d n Q.parent (weakNotify q s) := by
    unfold switchRep; rw [weakNotify_modSlot, weakNotify_modRep _ _ _ _ hne]
  rw [this]; rfl

/-- **the exchange keeps the state well-formed** — `s` is a state in which the new representation `n` exists but
    is stored nowhere and carries no registration.  No side condition on what the old representation owns or
    whose child it is. -/
theorem wf_exchange {s : State} (hI : Inv s) (hidle : Idle s) {d n : Nat} {N : Rep}
    (hheld : ∀ r R, s.reps r = some R → (∃ w, repOf s w = some r) ∨ r = n)
    (hn : s.reps n = some N) (hnp : N.parent = none) (hnc : N.cbs = []) (horph : Orphan s n)
    (hd : ∃ D, s.slots d = some D)
    (he : (exchangeRep d n s).err = false) : WF (exchangeRep d n s) := by
  cases hq : repOf s d with
  | none =>
    rw [exchangeRep_eq]; simp only [hq]
    refine ⟨inv_adoptMod hI hq hn hnp hnc horph, ?_, ?_⟩
    · unfold Idle at *; st_simp; exact hidle
    · obtain ⟨D, hD⟩ := hd
      unfold Held; intro r R hR; rw [reps_modSlot] at hR
      rcases hheld r R hR with ⟨w, hw⟩ | rfl
      · refine ⟨w, ?_⟩
        rw [repOf_modSlot_rep]
        by_cases hwd : w = d
        · subst hwd; rw [hq] at hw; cases hw
        · rw [if_neg hwd]; exact hw
      · exact ⟨d, by rw [repOf_modSlot_rep]; simp [hD]⟩
  | some q =>
    obtain ⟨Q, hQ⟩ := hI.repAlive d q hq
    have hne : n ≠ q := fun h => horph d (by rw [h]; exact hq)
    rw [exchangeRep_some hq hQ hne] at he ⊢
    rw [err_eraseRep] at he
    -- the observers of the old representation are told first
    have hI1 : Inv (weakNotify q s) := inv_weakNotify hI q
    have hq1 : repOf (weakNotify q s) d = some q := by rw [repOf_weakNotify]; exact hq
    have hQ1 : (weakNotify q s).reps q = some { Q with cbs := [] } := by
      rw [reps_weakNotify, if_pos rfl, hQ]; rfl
    have hn1 : (weakNotify q s).reps n = some N := by rw [reps_weakNotify, if_neg hne]; exact hn
    have horph1 : Orphan (weakNotify q s) n := by intro w; rw [repOf_weakNotify]; exact horph w
    have hheld1 : ∀ r R, (weakNotify q s).reps r = some R → (∃ w, repOf (weakNotify q s) w = some r) ∨ r = n := by
      intro r R hR
      rw [reps_weakNotify] at hR
      have : ∃ R0, s.reps r = some R0 := by
        by_cases hrq : r = q
        · subst hrq; exact ⟨Q, hQ⟩
        · rw [if_neg hrq] at hR; exact ⟨R, hR⟩
      obtain ⟨R0, hR0⟩ := this
      rcases hheld r R0 hR0 with ⟨w, hw⟩ | h
      · exact .inl ⟨w, by rw [repOf_weakNotify]; exact hw⟩
      · exact .inr h
    have hidle1 : Idle (weakNotify q s) := by unfold Idle at *; st_simp; exact hidle
    generalize hs1 : weakNotify q s = s1 at he hI1 hq1 hQ1 hn1 horph1 hheld1 hidle1 ⊢
    obtain ⟨hI2, horq, hrepd⟩ := inv_switchRep (Q := { Q with cbs := [] }) hI1 hq1 hQ1 rfl hn1 hnc horph1
    have hQ2 : (switchRep d n Q.parent s1).reps q = some { Q with cbs := [] } := by
      unfold switchRep; rw [reps_modSlot, reps_modRep, if_neg (Ne.symm hne)]; exact hQ1
    have hrepo : ∀ w, w ≠ d → repOf (switchRep d n Q.parent s1) w = repOf s1 w := by
      intro w hwd; unfold switchRep; rw [repOf_modSlot_rep, if_neg hwd, repOf_modRep]
    have halive2 : ∀ x X2, (switchRep d n Q.parent s1).reps x = some X2 → ∃ X, s1.reps x = some X := by
      intro x X2 hx
      unfold switchRep at hx; rw [reps_modSlot, reps_modRep] at hx
      by_cases hxn : x = n
      · subst hxn; exact ⟨N, hn1⟩
      · rw [if_neg hxn] at hx; exact ⟨X2, hx⟩
    obtain ⟨hC3, hrest⟩ := destroyRep_spec (fuel (switchRep d n Q.parent s1)) q _ hI2
    obtain ⟨hI3, hP3⟩ := hrest he
    obtain ⟨Q3, hQ3⟩ := hC3.orphanKeep q _ hQ2 horq
    have horq3 : Orphan (destroyRep (fuel (switchRep d n Q.parent s1)) q (switchRep d n Q.parent s1)) q := by
      intro w hw
      rw [repOf_eq] at hw
      obtain ⟨V, hV, hVr⟩ := hw
      exact horq w (repOf_eq.mpr ⟨V, hC3.slots w V hV, hVr⟩)
    refine ⟨inv_eraseOrphan hI3 horq3 hQ3 (hP3 Q3 hQ3), ?_, ?_⟩
    · have hidle2 : Idle (switchRep d n Q.parent s1) := by
        unfold switchRep Idle at *; st_simp; exact hidle1
      have := idle_casc hC3 hidle2
      unfold Idle at *; st_simp; exact this
    · intro x X hX
      rw [reps_eraseRep] at hX
      by_cases hxq : x = q
      · simp [hxq] at hX
      · rw [if_neg hxq] at hX
        obtain ⟨X2, hX2, -⟩ := hC3.reps x X hX
        obtain ⟨X0, hX0⟩ := halive2 x X2 hX2
        have hheld2 : ∃ w2, repOf (switchRep d n Q.parent s1) w2 = some x := by
          rcases hheld1 x X0 hX0 with ⟨w, hw⟩ | hxn
          · by_cases hwd : w = d
            · subst hwd; rw [hq1] at hw; cases hw; exact absurd rfl hxq
            · exact ⟨w, by rw [hrepo w hwd]; exact hw⟩
          · subst hxn; exact ⟨d, hrepd⟩
        obtain ⟨w2, hw2⟩ := hheld2
        rcases hC3.killed w2 x hw2 with hk | ⟨-, hk⟩
        · exact ⟨w2, by rw [repOf_eraseRep]; exact hk⟩
        · rw [hk] at hX; cases hX

/-! ### `delete_rep_with_check` (assignment from an empty source, `clrS`) -/

theorem deleteRepWithCheck_eq (v : Nat) (s : State) : deleteRepWithCheck v s =
    match repOf s v with
    | none => s
    | some r =>
      if ((repDisconnect r s).reps r).isSome then
        eraseRep r (destroyRep (fuel (weakNotify r ((repDisconnect r s).modSlot v fun V => { V with rep := none }))) r
          (weakNotify r ((repDisconnect r s).modSlot v fun V => { V with rep := none })))
      else repDisconnect r s := rfl

/-- `rep_ = nullptr` before the deletion: the variable lets go of its representation, which is now stored nowhere -/
theorem inv_unhold {s : State} (h : Inv s) {v r : Nat} {R : Rep} (hv : repOf s v = some r)
    (hR : s.reps r = some R) (hrc : R.cbs = []) :
    Inv (s.modSlot v fun V => { V with rep := none }) ∧
      Orphan (s.modSlot v fun V => { V with rep := none }) r := by
  have hrepv : repOf (s.modSlot v fun V => { V with rep := none }) v = none := by
    rw [repOf_modSlot_rep, if_pos rfl]; split <;> rfl
  have hrepo : ∀ w, w ≠ v → repOf (s.modSlot v fun V => { V with rep := none }) w = repOf s w := by
    intro w hwv; rw [repOf_modSlot_rep, if_neg hwv]
  have horq : Orphan (s.modSlot v fun V => { V with rep := none }) r := by
    intro w hw
    by_cases hwv : w = v
    · subst hwv; rw [hrepv] at hw; cases hw
    · rw [hrepo w hwv] at hw; exact hwv (h.repUniq w v r hw hv)
  have horp : ∀ x, Orphan s x → Orphan (s.modSlot v fun V => { V with rep := none }) x := by
    intro x hor w hw
    by_cases hwv : w = v
    · subst hwv; rw [hrepv] at hw; cases hw
    · rw [hrepo w hwv] at hw; exact hor w hw
  have hdisj : ∀ w x, repOf s w = some x →
      repOf (s.modSlot v fun V => { V with rep := none }) w = some x ∨
        Orphan (s.modSlot v fun V => { V with rep := none }) x := by
    intro w x hw
    by_cases hwv : w = v
    · subst hwv; rw [hv] at hw; cases hw; exact .inr horq
    · exact .inl (by rw [hrepo w hwv]; exact hw)
  refine ⟨?_, horq⟩
  refine { repAlive := ?_, repUniq := ?_, connReg := ?cr, cbsConn := ?cc, regUniq := ?_, cbsNodup := ?_,
           parentOk := ?po, trkReg := ?_, trkEnt := ?_, trkNodup := ?_, refOk := ?_, ownOk := ?_, nestOk := ?_, anonBound := ?_, repBound := ?_, regHeld := ?_, ownCOk := ?_ }
  case cr =>
    intro c w hcw
    rw [conns_modSlot] at hcw
    obtain ⟨x, X, hX, hm, hor⟩ := h.connReg c w hcw
    refine ⟨x, X, by rw [reps_modSlot]; exact hX, hm, ?_⟩
    rcases hor with hor | hor
    · exact hdisj w x hor
    · exact .inr (horp x hor)
  case cc =>
    intro x X c hX hm
    rw [reps_modSlot] at hX
    obtain ⟨w, hw, hor⟩ := h.cbsConn x X c hX hm
    refine ⟨w, by rw [conns_modSlot]; exact hw, ?_⟩
    rcases hor with hor | hor
    · exact hdisj w x hor
    · exact .inr (horp x hor)
  case po =>
    intro x X p w hX hp hw
    rw [reps_modSlot] at hX ⊢
    have hwv : w ≠ v := fun he => by subst he; rw [hrepv] at hw; cases hw
    rw [hrepo w hwv] at hw
    exact h.parentOk x X p w hX hp hw
  all_goals inv_clause h with [repOf_eq]

/-- **`delete_rep_with_check()` keeps the state well-formed, for every variable** — also one whose representation
    stores the functor that keeps the variable itself alive (finding F12): the variable has let go of the
    representation before it is deleted, so the representation is freed exactly once -/
theorem deleteRepWithCheck_spec {s : State} (hw : WF s) (v : Nat) (hnm : v < anonBase)
    (he : (deleteRepWithCheck v s).err = false) :
    WF (deleteRepWithCheck v s) ∧
      (∀ r, repOf s v = some r → (deleteRepWithCheck v s).reps r = none) ∧
      (∀ V', (deleteRepWithCheck v s).slots v = some V' → V'.rep = none) := by
  have hI := hw.inv
  rw [deleteRepWithCheck_eq] at he ⊢
  cases hv : repOf s v with
  | none =>
    refine ⟨hw, ?_, ?_⟩
    · intro r hr; cases hr
    · intro V' hV'
      simp only [] at hV'
      have : repOf s v = V'.rep := by simp [repOf, hV']
      rw [← this]; exact hv
  | some r =>
    simp only [hv] at he ⊢
    obtain ⟨R, hR⟩ := hI.repAlive v r hv
    by_cases ha : ((repDisconnect r s).reps r).isSome = true
    · simp only [ha, if_true] at he ⊢
      rw [err_eraseRep] at he
      have he1 : (repDisconnect r s).err = false := by
        cases hx : (repDisconnect r s).err with
        | false => rfl
        | true =>
          rw [destroyRep_err_true _ _ _ (by rw [err_weakNotify, err_modSlot]; exact hx)] at he
          exact absurd he (by simp)
      obtain ⟨hC1, hI1⟩ := repDisconnect_spec hI r he1
      have hw1 : WF (repDisconnect r s) := wf_casc hC1 hw hI1
      have hv1 : repOf (repDisconnect r s) v = some r := by
        simp only [repOf, repDisconnect_slot hI hv hnm he1]; exact hv
      obtain ⟨R1, hR1⟩ := hI1.repAlive v r hv1
      -- `rep_ = nullptr; old_rep_->notify_callbacks();` — the two steps commute
      rw [weakNotify_modSlot] at he ⊢
      have hI1' : Inv (weakNotify r (repDisconnect r s)) := inv_weakNotify hI1 r
      have hv1' : repOf (weakNotify r (repDisconnect r s)) v = some r := by rw [repOf_weakNotify]; exact hv1
      have hR1' : (weakNotify r (repDisconnect r s)).reps r = some { R1 with cbs := [] } := by
        rw [reps_weakNotify, if_pos rfl, hR1]; rfl
      have hheld1 : Held (weakNotify r (repDisconnect r s)) := by
        intro x X hX
        rw [reps_weakNotify] at hX
        have : ∃ X0, (repDisconnect r s).reps x = some X0 := by
          by_cases hxr : x = r
          · subst hxr; exact ⟨R1, hR1⟩
          · rw [if_neg hxr] at hX; exact ⟨X, hX⟩
        obtain ⟨X0, hX0⟩ := this
        obtain ⟨w, hw'⟩ := hw1.held x X0 hX0
        exact ⟨w, by rw [repOf_weakNotify]; exact hw'⟩
      have hidle1 : Idle (weakNotify r (repDisconnect r s)) := by
        have := hw1.idle; unfold Idle at *; st_simp; exact this
      generalize weakNotify r (repDisconnect r s) = s1 at he hI1' hv1' hR1' hheld1 hidle1 ⊢
      obtain ⟨hI2, horq⟩ := inv_unhold hI1' hv1' hR1' rfl
      have hR2 : (s1.modSlot v fun V => { V with rep := none }).reps r = some { R1 with cbs := [] } := by
        rw [reps_modSlot]; exact hR1'
      have hrepo : ∀ w, w ≠ v →
          repOf (s1.modSlot v fun V => { V with rep := none }) w = repOf s1 w := by
        intro w hwv; rw [repOf_modSlot_rep, if_neg hwv]
      obtain ⟨hC3, hrest⟩ := destroyRep_spec
        (fuel (s1.modSlot v fun V => { V with rep := none })) r _ hI2
      obtain ⟨hI3, hP3⟩ := hrest he
      obtain ⟨R3, hR3⟩ := hC3.orphanKeep r _ hR2 horq
      have horq3 : Orphan (destroyRep (fuel (s1.modSlot v fun V => { V with rep := none })) r
          (s1.modSlot v fun V => { V with rep := none })) r := by
        intro w hw'
        rw [repOf_eq] at hw'
        obtain ⟨V, hV, hVr⟩ := hw'
        exact horq w (repOf_eq.mpr ⟨V, hC3.slots w V hV, hVr⟩)
      refine ⟨⟨inv_eraseOrphan hI3 horq3 hR3 (hP3 R3 hR3), ?_, ?_⟩, ?_, ?_⟩
      · have hidle2 : Idle (s1.modSlot v fun V => { V with rep := none }) := by
          unfold Idle at *; st_simp; exact hidle1
        have := idle_casc hC3 hidle2
        unfold Idle at *; st_simp; exact this
      · intro x X hX
        rw [reps_eraseRep] at hX
        by_cases hxr : x = r
        · simp [hxr] at hX
        · rw [if_neg hxr] at hX
          obtain ⟨X2, hX2, -⟩ := hC3.reps x X hX
          rw [reps_modSlot] at hX2
          obtain ⟨w, hw'⟩ := hheld1 x X2 hX2
          have hwv : w ≠ v := fun h => by subst h; rw [hv1'] at hw'; cases hw'; exact hxr rfl
          rcases hC3.killed w x (by rw [hrepo w hwv]; exact hw') with hk | ⟨-, hk⟩
          · exact ⟨w, by rw [repOf_eraseRep]; exact hk⟩
          · rw [hk] at hX; cases hX
      · intro r' hr'; cases hr'; rw [reps_eraseRep, if_pos rfl]
      · intro V' hV'
        rw [slots_eraseRep] at hV'
        have := hC3.slots v V' hV'
        rw [slots_modSlot, if_pos rfl, Option.map_eq_some_iff] at this
        obtain ⟨V0, -, rfl⟩ := this
        rfl
    · exfalso
      apply ha
      have he1 : (repDisconnect r s).err = false := by simpa [ha] using he
      obtain ⟨-, hI1⟩ := repDisconnect_spec hI r he1
      have hv1 : repOf (repDisconnect r s) v = some r := by
        simp only [repOf, repDisconnect_slot hI hv hnm he1]; exact hv
      obtain ⟨R1, hR1⟩ := hI1.repAlive v r hv1
      simp [hR1]

theorem wf_deleteRepWithCheck {s : State} (hw : WF s) {v : Nat} (hnm : v < anonBase)
    (he : (deleteRepWithCheck v s).err = false) : WF (deleteRepWithCheck v s) :=
  (deleteRepWithCheck_spec hw v hnm he).1

end Sigc.SlotG
