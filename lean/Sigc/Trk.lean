import Sigc.Basic
/-!
  Component model `Trk` — `sigc::trackable` and `sigc::internal::trackable_callback_list`
  (`/repo/sigc++/trackable.h`, `/repo/sigc++/trackable.cc`), DESIGN.md §3.2 / §5 C16.

  Every C++ function has one Lean function of the same name and shape:

  | C++                                              | Lean                         |
  |--------------------------------------------------|------------------------------|
  | `trackable::callback_list()`                     | `getList`                    |
  | `trackable_callback_list::add_callback`          | `CbList.addCallback`         |
  | `trackable_callback_list::remove_callback`       | `removeLoop` / `CbList.removeCallback` |
  | `trackable_callback_list::~trackable_callback_list` (range-for over the `std::list`) | `roundLoop` (node-based iterator: look the current node up, call it, step to its successor) |
  | the loop body `if (callback.func_) callback.func_(callback.data_)` + the user callback | `callEntry` / `runBody` / `bodyStep` |
  | `trackable::add_destroy_notify_callback`         | `addDestroyNotify`           |
  | `trackable::remove_destroy_notify_callback`      | `removeDestroyNotify`        |
  | `trackable::notify_callbacks`                    | `notifyCallbacks`            |
  | ctor / copy-ctor / move-ctor / `operator=` (both) / dtor | the cases of `exec`  |

  `trackable_callback_list::clear()` has no caller in the library and is not reachable through
  `trackable`'s public interface; it is not modelled.

  What would be undefined behaviour in C++ is an explicit error state:
  * `iterInvalid`  — the node the destructor's iterator stands on is no longer in the list when the
                     iterator is dereferenced / incremented (it was erased while iterated);
  * `doubleDelete` — `notify_callbacks()` on a trackable whose list is being destroyed
                     (`delete callback_list_` a second time);
  * `fuel`         — the iteration did not reach `end()` within `length` steps (cannot happen, proved).

  Ghost data (not in the C++): `Entry.reg`, `State.nextReg` (a unique id per `add`), `State.trace`.
  No proofs in this file.
-/
namespace Sigc.Trk

/-- `trackable_callback {data_, func_}`; `func = none` is `func_ == nullptr`; `some k` = user callback `k` -/
structure Entry where
  data : Nat
  func : Option Nat
  reg  : Nat
deriving Repr, DecidableEq

/-- `trackable_callback_list {callbacks_, clearing_}` -/
structure CbList where
  entries  : List Entry
  clearing : Bool
deriving Repr, DecidableEq

/-- `trackable {callback_list_}` (`none` = `nullptr`) -/
structure Trackable where
  cbs : Option CbList
deriving Repr, DecidableEq

inductive Err
  | iterInvalid | doubleDelete | fuel
deriving Repr, DecidableEq

/-- trace events (ghost).  `trig t … done t` brackets one execution of `notify_callbacks()` on `t`. -/
inductive Ev
  | add (r t d : Nat)       -- `add_destroy_notify_callback(d, …)` called on `t`; the call is registration `r`
  | rem (t d : Nat)         -- `remove_destroy_notify_callback(d)` called on `t`
  | trig (t : Nat)          -- a triggering event on `t` begins
  | deliver (r d k : Nat)   -- callback `k` is called with data `d` for registration `r`
  | done (t : Nat)          -- the triggering event on `t` is over
deriving Repr, DecidableEq

/-- what a user callback does when it is delivered; all on the trackable being notified -/
inductive BodyOp
  | rem (d : Nat)
  | add (d k : Nat)         -- outside C16's domain (silently ignored by the code)
  | notify                  -- outside C16's domain (double delete)
deriving Repr, DecidableEq

/-- top-level operations; trackables are named by small numbers -/
inductive Op
  | new (t : Nat)                 -- `t = new trackable()`
  | add (t d k : Nat)             -- `t->add_destroy_notify_callback(data d, callback k)`
  | rem (t d : Nat)               -- `t->remove_destroy_notify_callback(data d)`
  | copyCtor (src dst : Nat)      -- `dst = new trackable(*src)`
  | moveCtor (src dst : Nat)      -- `dst = new trackable(std::move(*src))`
  | assign (dst src : Nat)        -- `*dst = *src`            (dst = src: self assignment)
  | moveAssign (dst src : Nat)    -- `*dst = std::move(*src)` (dst = src: self assignment)
  | notify (t : Nat)              -- `t->notify_callbacks()`
  | del (t : Nat)                 -- `delete t`
deriving Repr, DecidableEq

structure State where
  objs    : Nat → Option Trackable      -- `none`: no live object of that name
  nextReg : Nat
  trace   : List Ev
  err     : Option Err

def State.init : State := ⟨fun _ => none, 0, [], none⟩
def State.upd (s : State) (t : Nat) (o : Option Trackable) : State :=
  { s with objs := fun x => if x = t then o else s.objs x }
def State.emit (s : State) (e : Ev) : State := { s with trace := s.trace ++ [e] }
def State.fail (s : State) (e : Err) : State := { s with err := some e }
def State.alive (s : State) (t : Nat) : Bool := (s.objs t).isSome

/-- `trackable::callback_list()`: the list, lazily allocated -/
def getList (o : Trackable) : CbList := o.cbs.getD ⟨[], false⟩

/-- `trackable_callback_list::add_callback` -/
def CbList.addCallback (l : CbList) (d k r : Nat) : CbList :=
  if l.clearing then l else { l with entries := l.entries ++ [⟨d, some k, r⟩] }

/-- the `for` loop of `trackable_callback_list::remove_callback`: first entry with that data and a
    non-null function; nulled while clearing, erased otherwise -/
def removeLoop (clearing : Bool) (d : Nat) : List Entry → List Entry
  | [] => []
  | e :: es =>
    if e.data = d ∧ e.func.isSome = true then
      (if clearing then { e with func := none } :: es else es)
    else e :: removeLoop clearing d es

def CbList.removeCallback (l : CbList) (d : Nat) : CbList :=
  { l with entries := removeLoop l.clearing d l.entries }

/-- `trackable::add_destroy_notify_callback` -/
def addDestroyNotify (t d k : Nat) (s : State) : State :=
  match s.objs t with
  | none => s
  | some o =>
    let r := s.nextReg
    (({ s with nextReg := r + 1 }).emit (.add r t d)).upd t (some ⟨some ((getList o).addCallback d k r)⟩)

/-- `trackable::remove_destroy_notify_callback` -/
def removeDestroyNotify (t d : Nat) (s : State) : State :=
  match s.objs t with
  | none => s
  | some o => (s.emit (.rem t d)).upd t (some ⟨some ((getList o).removeCallback d)⟩)

abbrev Scripts := Nat → List BodyOp

def bodyStep (t : Nat) : BodyOp → State → State
  | .rem d, s => removeDestroyNotify t d s
  | .add d k, s => addDestroyNotify t d k s
  | .notify, s => s.fail .doubleDelete      -- `delete callback_list_` while its destructor runs

/-- the body of a user callback -/
def runBody (t : Nat) : List BodyOp → State → State
  | [], s => s
  | b :: bs, s => if s.err.isSome then s else runBody t bs (bodyStep t b s)

def entriesOf (s : State) (t : Nat) : List Entry :=
  match s.objs t with
  | some ⟨some l⟩ => l.entries
  | _ => []

/-- `++it` on a `std::list` iterator standing on node `r`:
    `none` = the node is not in the list (dangling), `some none` = `end()` -/
def succOf (r : Nat) : List Entry → Option (Option Nat)
  | [] => none
  | e :: es => if e.reg = r then some (es.head?.map (·.reg)) else succOf r es

/-- `if (callback.func_) callback.func_(callback.data_);` -/
def callEntry (sc : Scripts) (t : Nat) (e : Entry) (s : State) : State :=
  match e.func with
  | none => s
  | some k => runBody t (sc k) (s.emit (.deliver e.reg e.data k))

/-- the loop of `~trackable_callback_list`, `cur` = the node the iterator stands on (`none` = `end()`) -/
def roundLoop (sc : Scripts) : Nat → Nat → Option Nat → State → State
  | _, _, none, s => s
  | 0, _, some _, s => s.fail .fuel
  | f + 1, t, some r, s =>
    match (entriesOf s t).find? (fun e => e.reg == r) with
    | none => s.fail .iterInvalid
    | some e =>
      let s1 := callEntry sc t e s
      if s1.err.isSome then s1 else
      match succOf r (entriesOf s1 t) with
      | none => s1.fail .iterInvalid
      | some nxt => roundLoop sc f t nxt s1

/-- `trackable::notify_callbacks`: `delete callback_list_; callback_list_ = nullptr;` -/
def notifyCallbacks (sc : Scripts) (t : Nat) (s : State) : State :=
  match s.objs t with
  | none => s
  | some o =>
    match o.cbs with
    | none => (s.emit (.trig t)).emit (.done t)
    | some l =>
      if l.clearing then s.fail .doubleDelete else
      let s1 := (s.emit (.trig t)).upd t (some ⟨some { l with clearing := true }⟩)
      let s2 := roundLoop sc l.entries.length t (l.entries.head?.map (·.reg)) s1
      if s2.err.isSome then s2 else (s2.upd t (some ⟨none⟩)).emit (.done t)

/-- the names an operation needs alive / free; otherwise it is skipped on both sides -/
def Op.ok (s : State) : Op → Bool
  | .new t => !s.alive t
  | .add t _ _ => s.alive t
  | .rem t _ => s.alive t
  | .copyCtor src dst => s.alive src && !s.alive dst
  | .moveCtor src dst => s.alive src && !s.alive dst
  | .assign dst src => s.alive dst && s.alive src
  | .moveAssign dst src => s.alive dst && s.alive src
  | .notify t => s.alive t
  | .del t => s.alive t

def exec (sc : Scripts) : Op → State → State
  | .new t, s => s.upd t (some ⟨none⟩)
  | .add t d k, s => addDestroyNotify t d k s
  | .rem t d, s => removeDestroyNotify t d s
  | .copyCtor _ dst, s => s.upd dst (some ⟨none⟩)
  | .moveCtor src dst, s => notifyCallbacks sc src (s.upd dst (some ⟨none⟩))
  | .assign dst src, s => if dst ≠ src then notifyCallbacks sc dst s else s
  | .moveAssign dst src, s =>
    if dst ≠ src then
      let s1 := notifyCallbacks sc dst s
      if s1.err.isSome then s1 else notifyCallbacks sc src s1
    else s
  | .notify t, s => notifyCallbacks sc t s
  | .del t, s =>
    let s1 := notifyCallbacks sc t s
    if s1.err.isSome then s1 else s1.upd t none

def step (sc : Scripts) (op : Op) (s : State) : State :=
  if s.err.isSome then s else if op.ok s then exec sc op s else s

def runFrom (sc : Scripts) (ops : List Op) (s : State) : State := ops.foldl (fun s op => step sc op s) s

structure History where
  scripts : List (List BodyOp)
  ops     : List Op
deriving Repr, DecidableEq

def History.sc (h : History) : Scripts := fun k => h.scripts.getD k []

def BodyOp.isRem : BodyOp → Bool
  | .rem _ => true
  | _ => false

/-- C16's domain (DESIGN §2/§5): callbacks only remove registrations — no `add`, no nested
    `notify_callbacks()` from inside a delivery round -/
def History.Domain (h : History) : Bool := h.scripts.all (fun b => b.all BodyOp.isRem)

def BodyOp.isNotify : BodyOp → Bool
  | .notify => true
  | _ => false

/-- wider domain: callbacks may remove and (try to) add registrations; only nested `notify_callbacks()` is excluded -/
def History.Domain2 (h : History) : Bool := h.scripts.all (fun b => b.all (fun o => !o.isNotify))

def run (h : History) : State := runFrom h.sc h.ops State.init

/-! ### trace vocabulary of the property statement (logical, knows nothing of the mechanism) -/

/-- effect of one event on the logical registration list of trackable `t`: `(registration id, data)` -/
def stepP (t : Nat) (l : List (Nat × Nat)) : Ev → List (Nat × Nat)
  | .add r t' d => if t' = t then l ++ [(r, d)] else l
  | .rem t' d => if t' = t then l.eraseP (fun x => x.2 == d) else l     -- first one with that data
  | .done t' => if t' = t then [] else l
  | _ => l

/-- the registrations of `t` after the events `tr`: added to `t`, not matched by a `remove`,
    and no triggering event on `t` completed since -/
def present (t : Nat) (tr : List Ev) : List (Nat × Nat) := tr.foldl (stepP t) []

def stepR (c : Option Nat) : Ev → Option Nat
  | .trig t => some t
  | .done _ => none
  | _ => c

/-- the trackable whose triggering event is in progress after `tr` -/
def inRound (tr : List Ev) : Option Nat := tr.foldl stepR none

def delivered (tr : List Ev) : List Nat :=
  tr.filterMap fun | .deliver r _ _ => some r | _ => none

def added (tr : List Ev) : List Nat :=
  tr.filterMap fun | .add r _ _ => some r | _ => none

/-- like `stepP`, but an `add` on `t` issued while a triggering event on `t` is in progress registers
    nothing (the code ignores it: the list is being destroyed);
    state = (registrations of `t`, trackable whose triggering event is in progress) -/
def stepP2 (t : Nat) (st : List (Nat × Nat) × Option Nat) (e : Ev) : List (Nat × Nat) × Option Nat :=
  (match e with
   | .add r t' d => if t' = t ∧ st.2 ≠ some t then st.1 ++ [(r, d)] else st.1
   | .rem t' d => if t' = t then st.1.eraseP (fun x => x.2 == d) else st.1
   | .done t' => if t' = t then [] else st.1
   | _ => st.1,
   stepR st.2 e)

/-- round-aware `present`: the registrations of `t` after the events `tr`, an `add` on `t` from inside
    a triggering event on `t` counted as no registration -/
def present2 (t : Nat) (tr : List Ev) : List (Nat × Nat) := (tr.foldl (stepP2 t) ([], none)).1

/-! ### driver: text → history → canonical result -/

def parseNats (s : String) : Option (List Nat) := (s.splitOn ".").mapM String.toNat?

def parseBodyOp (w : String) : Option BodyOp :=
  match w.toList with
  | 'r' :: rest => match parseNats (String.ofList rest) with
    | some [d] => some (.rem d)
    | _ => none
  | 'a' :: rest => match parseNats (String.ofList rest) with
    | some [d, k] => some (.add d k)
    | _ => none
  | ['n'] => some .notify
  | _ => none

def parseOp (w : String) : Option Op :=
  match w.toList with
  | c :: rest =>
    match c, parseNats (String.ofList rest) with
    | 'N', some [t] => some (.new t)
    | 'A', some [t, d, k] => some (.add t d k)
    | 'R', some [t, d] => some (.rem t d)
    | 'C', some [a, b] => some (.copyCtor a b)
    | 'M', some [a, b] => some (.moveCtor a b)
    | 'E', some [a, b] => some (.assign a b)
    | 'V', some [a, b] => some (.moveAssign a b)
    | 'F', some [t] => some (.notify t)
    | 'D', some [t] => some (.del t)
    | _, _ => none
  | [] => none

/-- `k<k>:<b>,<b>,…` defines the body of callback `k`; every other word is an operation -/
def parseWord (h : History) (w : String) : Option History :=
  match w.toList with
  | 'k' :: rest =>
    match (String.ofList rest).splitOn ":" with
    | [ks, body] =>
      match ks.toNat?, ((body.splitOn ",").filter (· ≠ "")).mapM parseBodyOp with
      | some k, some b =>
        if k = h.scripts.length then some { h with scripts := h.scripts ++ [b] } else none
      | _, _ => none
    | _ => none
  | _ => (parseOp w).map fun op => { h with ops := h.ops ++ [op] }

def parseHistory (line : String) : Option History :=
  (words line).foldlM parseWord ⟨[], []⟩

def Op.names : Op → List Nat
  | .new t | .add t _ _ | .rem t _ | .notify t | .del t => [t]
  | .copyCtor a b | .moveCtor a b | .assign a b | .moveAssign a b => [a, b]

def renderEvs (evs : List Ev) : String :=
  let ds := evs.filterMap fun
    | .deliver _ d k => some (toString d ++ ":" ++ toString k)
    | _ => none
  if ds.isEmpty then "-" else ",".intercalate ds

/-- run op by op; one token per op: `x` skipped, `ERR`, or the deliveries it caused (`-` = none) -/
def runOut (sc : Scripts) : List Op → State → List String → State × List String
  | [], s, out => (s, out)
  | op :: ops, s, out =>
    let s' := step sc op s
    let tok :=
      if s'.err.isSome then "ERR"
      else if !op.ok s then "x"
      else renderEvs (s'.trace.drop s.trace.length)
    runOut sc ops s' (out ++ [tok])

def processHistory (h : History) : String :=
  let (s, out) := runOut h.sc h.ops State.init []
  -- teardown: destroy what is still alive, ascending names; shows what was still registered
  let top := (h.ops.flatMap Op.names).foldl max 0
  let (_, out2) := runOut h.sc ((List.range (top + 1)).map Op.del) s []
  " ".intercalate (out ++ ["#"] ++ out2)

/-- one driver case per input line → one output line -/
def processLine (line : String) : String :=
  match parseHistory line with
  | none => "parse-error"
  | some h => processHistory h

end Sigc.Trk
