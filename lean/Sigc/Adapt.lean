import Sigc.Basic
/-!
  Component model `Adapt` (DESIGN.md §3.2, §5 C10/C11): the call operators of the adaptors of
  `sigc++/adaptors/*.h`, the tuple slicing of `sigc++/tuple-utils/*.h`, the slot / emit call route
  (`functors/slot.h`, `signal.h`) — executable, total, core Lean only.  No proofs in this file.

  Part 1  tuple utilities (generic)                      tuple_start / tuple_cdr / tuple_end / tuple_transform_each
  Part 2  slot call and emit loops (generic)             slot::operator(), signal_emit<R,void>::emit, signal_emit<void,void>::emit
  Part 3  C10: values and results with identity, result-forwarding table `resultMode`, `callImpl` (follows the
          code) and `callSpec` (the documentation); declared parameter types `Par` (`T` / `const T&` / `T&&`) with
          `castPar` = conversion then binding (retype over reference parameters, converting temporaries); exceptions
          have a type (`Exc`), catchers are total or partial (`pcatch`, `FExpr.handles`, `Outcome.orCatch`)
  Part 4  C11: objects with identity, parameter-kind table `paramKind` (with the rows for the object parameter of the
          unbound `mem_functor`, target kind `mleaf`), passing-on table `passKind`, `callO`
  Part 5  driver: `processLine`
-/
namespace Sigc.Adapt

/-! ## Part 1 — tuple utilities -/

/-- `std::get<I>(t)...` for an index pack -/
def gets (idx : List Nat) (l : List α) : List α := idx.filterMap (fun i => l[i]?)

/-- `tuple_start<len>(t)`: `start(std::get<I>(t)...)` over `std::make_index_sequence<len>` -/
def tupleStart (len : Nat) (l : List α) : List α := gets (List.range len) l

/-- `tuple_cdr(t)`: `cdr(std::get<I>(t)...)` where the pack is `index_sequence<0, I...>` without the 0 -/
def tupleCdr (l : List α) : List α := gets (List.range l.length).tail l

/-- `tuple_end<len>(t)`, the recursion of tuple_end.h; the fuel is the tuple size (one `tuple_cdr` per level) -/
def tupleEndFuel : Nat → Nat → List α → List α
  | 0, len, l => if len = 0 then [] else l
  | fuel + 1, len, l =>
    if len = 0 then []                                   -- `if constexpr (len == 0)`
    else if l.length - len = 0 then l                    -- `size - len == 0`
    else if l.length - len = 1 then tupleCdr l           -- `size - len == 1`
    else tupleEndFuel fuel len (tupleCdr l)              -- `tuple_end<len>(tuple_cdr(t))`

def tupleEnd (len : Nat) (l : List α) : List α := tupleEndFuel l.length len l

/-- `tuple_transform_each_impl<T, size_from_index>::tuple_transform_each(t, t_original)`.
    Not yet transformed elements are `inl`, transformed ones `inr`. -/
def transformEachImpl (f : α → β) : Nat → List (Sum α β) → List α → List (Sum α β)
  | 0, t, _ => t
  | sfi + 1, t, orig =>
    let size := t.length
    let index := size - (sfi + 1)
    match orig[index]? with
    | none => t
    | some e =>
      let tElement : List (Sum α β) := [Sum.inr (f e)]
      if sfi = 0 then
        tupleStart (size - 1) t ++ tElement
      else
        let tStart := tupleStart index t
        let tEnd := tupleEnd (size - index - 1) t
        transformEachImpl f sfi (tStart ++ tElement ++ tEnd) orig

def transformEach (f : α → β) (orig : List α) : List (Sum α β) :=
  transformEachImpl f orig.length (orig.map Sum.inl) orig

/-- the elements of a completely transformed tuple -/
def invoked (l : List (Sum α β)) : List β :=
  l.filterMap (fun x => match x with | .inr b => some b | .inl _ => none)

/-- `tuple_transform_each<TransformEachInvoker>(bound_)` -/
def invokeEach (f : α → β) (bound : List α) : List β := invoked (transformEach f bound)

/-! ## Part 2 — slot call and emit loops (generic in the slot type, the state and the result) -/

/-- the type of an exception in flight: the harness throws `av::Thrown` (`k1`) and `av::Thrown2` (`k2`), two unrelated
    classes — what matters is which of them a catcher handles -/
inductive Exc where
  | k1 | k2
  deriving DecidableEq, Repr

inductive Res (ρ : Type) where
  | ok (r : ρ)
  | threw (x : Exc)
  deriving DecidableEq, Repr

def Res.map (g : ρ → τ) : Res ρ → Res τ
  | .ok r => .ok (g r)
  | .threw x => .threw x

/-- the `for (++it; it != end; ++it) { if (empty||blocked) continue; r_ = call(...); }` loop -/
def emitLoop (callable : σ → Bool) (call : σ → S → S × Res ρ) : List σ → S → ρ → S × Res ρ
  | [], s, r => (s, .ok r)
  | sl :: rest, s, r =>
    if callable sl then
      match call sl s with
      | (s', .ok r') => emitLoop callable call rest s' r'
      | (s', .threw x) => (s', .threw x)
    else emitLoop callable call rest s r

/-- `signal_emit<T_return, void, T_arg...>::emit` -/
def emitValue (callable : σ → Bool) (call : σ → S → S × Res ρ) (dflt : ρ) (slots : List σ) (s : S) :
    S × Res ρ :=
  if slots.isEmpty then (s, .ok dflt)
  else
    match slots.dropWhile (fun sl => !callable sl) with
    | [] => (s, .ok dflt)
    | first :: rest =>
      match call first s with
      | (s', .ok r) => emitLoop callable call rest s' r
      | (s', .threw x) => (s', .threw x)

/-- `signal_emit<void, void, T_arg...>::emit` -/
def emitVoid (callable : σ → Bool) (call : σ → S → S × Res ρ) : List σ → S → S × Res Unit
  | [], s => (s, .ok ())
  | sl :: rest, s =>
    if callable sl then
      match call sl s with
      | (s', .ok _) => emitVoid callable call rest s'
      | (s', .threw x) => (s', .threw x)
    else emitVoid callable call rest s

/-! ## Part 3 — C10: values -/

/-- `mstr`: the move-sensitive class `av::MStr` of the harness (payload: an integer; a moved-from `MStr` shows as
    `<moved>`).  No conversion between `MStr` and the arithmetic types is ever generated.
    `str`: the string-like class `av::Str` of the harness (payload: an integer, kept in a heap-allocated buffer) with
    the converting constructor `Str(long)`: an arithmetic argument converts to it (a `double` through `long`, truncating);
    never converted back.
    `json`: the JSON-like class `av::Json` of the harness — a number (payload: an integer) or an array of `Json`, with the
    constructor `Json(std::initializer_list<Json>)` that accepts a `Json` itself.  Only ever a *bound value* (`bind`,
    `bind_return`) handed to a `Json` / `const Json&` parameter: the adaptor stores a copy, so the target receives / the
    adaptor returns the number itself (a one-element array wrapping it prints differently).  Never converted. -/
inductive Ty where
  | int | long | dbl | mstr | str | json
  deriving DecidableEq, Repr

/-- a `double` is represented by its number of tenths.
    `ref c t cell n`: a *result* of type `T&` (`const T&` when `c`) that refers to the designated pool object
    `cell`, which holds `n` — reference results have identity, value results do not. -/
inductive Val where
  | unit
  | num (t : Ty) (n : Int)
  | ref (c : Bool) (t : Ty) (cell : Nat) (n : Int)
  deriving DecidableEq, Repr

/-- lvalue-to-rvalue conversion / copy into a by-value type (`auto`, `std::decay_t`, `std::common_type_t`, a by-value
    parameter): the identity of a reference result is lost -/
def Val.decay : Val → Val
  | .ref _ t _ n => .num t n
  | v => v

def convNum (t s : Ty) (n : Int) : Val :=
  match s, t with
  | .dbl, .dbl => .num .dbl n
  | .dbl, _ => .num t (Int.tdiv n 10)
  | _, .dbl => .num .dbl (n * 10)
  | _, _ => .num t n

/-- `static_cast<t>(v)` / implicit conversion to `t` (double → integer truncates toward zero); converting a
    reference result reads the object it refers to and yields a value -/
def conv (t : Ty) : Val → Val
  | .unit => .unit
  | .num s n => convNum t s n
  | .ref _ s _ n => convNum t s n

def retConv : Option Ty → Val → Val
  | none, _ => .unit
  | some t, v => conv t v

/-- binding to a parameter declared `const T&`: a reference result of type `T` binds directly (the parameter IS that
    object); anything else is converted into a temporary, i.e. arrives as a value -/
def bindCRef (t : Ty) : Val → Val
  | .ref c s cell n => if s = t then .ref true t cell n else conv t (.ref c s cell n)
  | v => conv t v

/-- how a parameter is declared: `T`, `const T&`, `T&&` -/
inductive PMode where
  | val | cref | rref
  deriving DecidableEq, Repr

/-- a declared parameter type (of a target, hence the `T_type` that `retype()` deduces from it) -/
structure Par where
  mode : PMode
  ty : Ty
  deriving DecidableEq, Repr

/-- `static_cast<T_type>(a)` handed to a parameter declared `T_type`, and the initialisation of a declared parameter
    from an argument in general: **conversion, then binding**.  A `const T&` binds directly to a reference result of type
    `T` (it IS that object); in every other case the conversion yields a temporary of type `T` holding the converted
    value, a `const T&` / `T&&` parameter is bound to that temporary, and the temporary lives until the end of the full
    call expression — the target reads the converted value. -/
def castPar (p : Par) (v : Val) : Val :=
  match p.mode with
  | .cref => bindCRef p.ty v
  | _ => conv p.ty v

/-- `T_return()` -/
def dflt : Option Ty → Val
  | none => .unit
  | some t => .num t 0

/-- `(long)arg` inside the recording target -/
def truncVal : Val → Int
  | .unit => 0
  | .num .dbl n => Int.tdiv n 10
  | .num _ n => n
  | .ref _ .dbl _ n => Int.tdiv n 10
  | .ref _ _ _ n => n

def weightedSum : Nat → List Val → Int
  | _, [] => 0
  | i, v :: vs => (i : Int) * truncVal v + weightedSum (i + 1) vs

/-- result of recording target `id`: `id*100 + Σ (i+1)*(long)arg_i`, `+0.5` when it returns double -/
def leafRet (id : Nat) (ret : Option Ty) (recv : List Val) : Val :=
  let s : Int := (id : Int) * 100 + weightedSum 1 recv
  match ret with
  | none => .unit
  | some .dbl => .num .dbl (s * 10 + 5)
  | some t => .num t s

/-- result of a reference-returning recording target `id` (`T& leaf(...)` / `const T& leaf(...)`): it stores the
    same number in its own pool object (`cell = id`) and returns a reference to that object -/
def rleafRet (id : Nat) (c : Bool) (t : Ty) (recv : List Val) : Val :=
  let s : Int := (id : Int) * 100 + weightedSum 1 recv
  .ref c t id (match t with | .dbl => s * 10 + 5 | _ => s)

structure Call where
  id : Nat
  args : List Val
  deriving DecidableEq, Repr

structure Outcome where
  log : List Call
  res : Res Val
  deriving DecidableEq, Repr

/-- run `k` on the result unless an exception is in flight -/
def Outcome.andThen (o : Outcome) (k : Val → Outcome) : Outcome :=
  match o.res with
  | .ok v => let o' := k v; ⟨o.log ++ o'.log, o'.res⟩
  | .threw _ => o

/-- `try { return f(...); } catch (...) { return c(); }` where the catcher `c` looks at the exception in flight
    (`try { throw; } catch (Known&) {...}`): it `handles` some exception types — then its outcome `oc` (its record, its
    value) is the outcome of the adaptor — and lets every other type escape: the exception leaves `operator()` and
    propagates to the next enclosing `exception_catch` or to the caller.  A catcher that never rethrows handles all. -/
def Outcome.orCatch (o : Outcome) (handles : Exc → Bool) (oc : Outcome) : Outcome :=
  match o.res with
  | .ok _ => o
  | .threw x => if handles x then ⟨o.log ++ oc.log, oc.res⟩ else o

/-- what a target that may throw returns -/
def leafRes (thr : Option Exc) (v : Val) : Res Val :=
  match thr with
  | some x => .threw x
  | none => .ok v

def Outcome.mapRes (o : Outcome) (g : Val → Val) : Outcome := ⟨o.log, o.res.map g⟩

/-- the call operators that hand a result on; a separate non-template nullary overload `operator()()` is a function
    of its own (`…0`) -/
inductive ResSite where
  | adaptorFunctor0 | adaptorFunctor | bind | hide | retype | bindReturn0 | bindReturn
  | compose1 | compose2 | exceptionCatch0 | exceptionCatch | trackObj
  | compose1Arg | compose2Arg      -- compose: the getter's result as it is handed to the setter
  deriving DecidableEq, Repr

/-- how a call operator hands the result of the functor it wraps (for `bind_return`: the bound value) to its caller -/
inductive ResMode where
  | declAuto     -- `decltype(auto) operator()(...) { return std::invoke(...); }`: the result itself, a reference stays the
                 --   very reference
  | declared     -- a declared type that keeps references: `typename unwrap_reference<T_return>::type` — a value bound
                 --   with std::ref / std::cref is returned as `T&` / `const T&` to the bound object
  | decays       -- through a by-value type (`auto`, `std::common_type_t<...>`, `std::decay_t<...>`): a copy
  deriving DecidableEq, Repr

/-- the result handling of every such call operator **in the current code**
    (checked against the code by the correspondence, not assumed).  `retype_return<T>`, `hide_return` and `slot<T(...)>`
    convert to the type the user names, see `resOf`. -/
def resultMode : ResSite → ResMode
  | .adaptorFunctor0 => .declAuto      -- adaptor_trait.h  `decltype(auto) operator()() const { return functor_(); }`
  | .adaptorFunctor => .declAuto       -- adaptor_trait.h  `decltype(auto) operator()(T_arg&&...) const`
  | .bind => .declAuto                 -- bind.h           `decltype(auto) operator()`, `return std::apply(...)` chain
  | .hide => .declAuto                 -- hide.h           `decltype(auto) operator()`
  | .retype => .declAuto               -- retype.h         `decltype(auto) operator()`
  | .bindReturn0 => .declared          -- bind_return.h    `typename unwrap_reference<T_return>::type operator()()`
  | .bindReturn => .declared           -- bind_return.h    `… unwrap_reference<T_return>::type operator()(T_arg&&...)`
  | .compose1 => .declAuto             -- compose.h        the setter's result
  | .compose2 => .declAuto             -- compose.h        the setter's result
  | .exceptionCatch0 => .declAuto      -- exception_catch.h `decltype(auto) operator()()`, both `return` statements
  | .exceptionCatch => .declAuto       -- exception_catch.h `decltype(auto) operator()(T_arg&&...)`, both `return`s
  | .trackObj => .declAuto             -- track_obj.h      `decltype(auto) operator()`
  | .compose1Arg => .declAuto          -- compose.h        `std::invoke(functor_, get_(...))`: the call expression itself
  | .compose2Arg => .declAuto          -- compose.h        `std::invoke(functor_, get1_(a...), get2_(a...))`: no locals

def fwdRes : ResMode → Val → Val
  | .decays, v => v.decay
  | _, v => v

/-- adaptors with one wrapped functor whose call operator transforms arguments and/or the result -/
inductive Node where
  | bind (loc : Option Nat) (bs : List Val)      -- bind<I>(f, b...) / bind(f, b...) (`none` = -1)
  | hide (loc : Option Nat)                      -- hide<I>(f) / hide(f)
  | retype (tys : List Par)                      -- retype(f): `T_type...` taken from f's type: f's declared parameters
  | retypeReturn (r : Ty)
  | retypeReturnRef (c : Bool) (t : Ty)          -- retype_return<T&> / retype_return<const T&>
  | hideReturn                                   -- retype_return<void>
  | bindReturn (v : Val)                         -- `v = ref c t cell n`: bound with std::ref(x) / std::cref(x), x = cell
  | trackObj (n : Nat)
  | slot (ret : Option Ty) (sig : List Ty)       -- a sigc::slot<ret(sig...)> stored by value
  deriving DecidableEq, Repr

inductive FExpr where
  | leaf (id : Nat) (params : List Ty) (ret : Option Ty) (throws : Option Exc)
  | vleaf (id : Nat) (ret : Option Ty) (throws : Option Exc)  -- target with a variadic template operator()(A... a)
  | rleaf (id : Nat) (params : List Ty) (c : Bool) (t : Ty) (throws : Option Exc)   -- target returning `T&` / `const T&`
  | pleaf (id : Nat) (params : List Ty) (ret : Option Ty) (throws : Option Exc)     -- target taking `const T&...`,
                                                                              --   recording WHICH object each parameter is
  | qleaf (id : Nat) (params : List Par) (ret : Option Ty) (throws : Option Exc)    -- target with declared parameters
                                                                              --   `T` / `const T&` / `T&&` (mixed)
  | pcatch (id : Nat) (ret : Option Ty) (hs : List Exc)       -- a *partial* catcher: `try { throw; } catch (H&) {}` for
                                                              --   the types in `hs`, then records its call and returns
  | un (n : Node) (f : FExpr)
  | compose1 (s g : FExpr)
  | compose2 (s g1 g2 : FExpr)
  | exceptionCatch (f c : FExpr)
  deriving DecidableEq, Repr

/-- the declared parameter types `retype()` deduces from the functor type (pointer_functor / slot) -/
def sigOf : FExpr → Option (List Par)
  | .leaf _ ps _ _ => some (ps.map (Par.mk .val))
  | .rleaf _ ps _ _ _ => some (ps.map (Par.mk .val))
  | .pleaf _ ps _ _ => some (ps.map (Par.mk .cref))
  | .qleaf _ ps _ _ => some ps
  | .un (.slot _ sig) _ => some (sig.map (Par.mk .val))
  | _ => none

/-- the exception types a catcher handles: a catcher that does not rethrow (any functor called in `catch (...)`)
    swallows whatever is in flight; a partial catcher handles the listed types only -/
def FExpr.handles : FExpr → Exc → Bool
  | .pcatch _ _ hs, x => hs.contains x
  | _, _ => true

/-- arguments handed to the wrapped functor — follows each call operator literally -/
def argsImpl : Node → List Val → List Val
  | .bind (some i) bs, args =>
    let tStart := tupleStart i args
    let tBound := invokeEach id bs
    let tEnd := tupleEnd (args.length - i) args
    tStart ++ tBound ++ tEnd
  | .bind none bs, args => args ++ invokeEach id bs
  | .hide loc, args =>
    let size := args.length
    let indexIgnore := match loc with | none => size - 1 | some i => i
    tupleStart indexIgnore args ++ tupleEnd (size - indexIgnore - 1) args
  | .retype tys, args => List.zipWith castPar tys args       -- `static_cast<T_type>(a)...` inside the call expression
  | .slot _ sig, args => List.zipWith conv sig args          -- conversion to `take_t<T_arg>` at the call
  | _, args => args

/-- arguments handed to the wrapped functor — as documented -/
def argsSpec : Node → List Val → List Val
  | .bind (some i) bs, args => args.take i ++ bs ++ args.drop i    -- inserted at position I
  | .bind none bs, args => args ++ bs                               -- appended
  | .hide (some i), args => args.eraseIdx i                         -- without argument I
  | .hide none, args => args.dropLast                               -- without the last
  | .retype tys, args => List.zipWith castPar tys args              -- converted to f's parameter types
  | .slot _ sig, args => List.zipWith conv sig args
  | _, args => args

/-- what the adaptor does with the wrapped functor's result -/
def resOf : Node → Val → Val
  | .retypeReturn r, v => conv r v
  | .retypeReturnRef c t, v =>                   -- `T&(x)`: a reference to the same object (constness as named)
    (match v with
     | .ref _ t' cell n => if t' = t then .ref c t cell n else conv t v
     | _ => conv t v)
  | .hideReturn, _ => .unit
  | .bindReturn b, _ => b
  | .slot ret _, v => retConv ret v
  | _, v => v

/-- the adaptors documented to return the result of the functor they wrap -/
def Node.forwards : Node → Bool
  | .bind _ _ => true
  | .hide _ => true
  | .retype _ => true
  | .trackObj _ => true
  | _ => false

/-- a call operator is entered through its non-template nullary overload `operator()()` when it is called without
    arguments, unless the caller spells `.template operator()<T...>(...)` (slot_call::call_it does, `explicit`) -/
def nullary (explicit : Bool) (args : List Val) : Bool := args.isEmpty && !explicit

/-- the call operator of node `n` whose result handling is a row of `resultMode` (`nl`: entered through the nullary
    overload); `none`: a result type named by the user, see `resOf` -/
def Node.site : Node → Bool → Option ResSite
  | .bind _ _, _ => some .bind
  | .hide _, _ => some .hide
  | .retype _, _ => some .retype
  | .trackObj _, _ => some .trackObj
  | .bindReturn _, nl => some (if nl then .bindReturn0 else .bindReturn)
  | _, _ => none

def fwdNode (rm : ResSite → ResMode) (n : Node) (nl : Bool) (v : Val) : Val :=
  match n.site nl with
  | some k => fwdRes (rm k) v
  | none => v

/-- is the wrapped functor's call operator invoked with explicit template arguments -/
def Node.innerExplicit : Node → Bool
  | .slot _ _ => true
  | _ => false

def FExpr.isPlain : FExpr → Bool
  | .leaf _ _ _ _ => true
  | .vleaf _ _ _ => true
  | .rleaf _ _ _ _ _ => true
  | .pleaf _ _ _ _ => true
  | .qleaf _ _ _ _ => true
  | .pcatch _ _ _ => true
  | _ => false

/-- `adapts<T_functor>::functor_` is an `adaptor_functor<T_functor>` when `T_functor` is not itself an adaptor -/
def afRes (rm : ResSite → ResMode) (f : FExpr) (nl : Bool) (v : Val) : Val :=
  if f.isPlain then fwdRes (rm (if nl then .adaptorFunctor0 else .adaptorFunctor)) v else v

/-- invocation of a functor expression, following every call operator: overload selection (`nullary`), argument
    slicing (`argsImpl`), result conversion (`resOf`) and result forwarding according to the table `rm`.
    The `Bool`: the call spells the template arguments explicitly. -/
def callImplT (rm : ResSite → ResMode) : FExpr → Bool → List Val → Outcome
  | .leaf id ps ret thr, _, args =>
    let recv := List.zipWith conv ps args
    ⟨[⟨id, recv⟩], leafRes thr (leafRet id ret recv)⟩
  | .vleaf id ret thr, _, args =>
    let recv := args.map Val.decay
    ⟨[⟨id, recv⟩], leafRes thr (leafRet id ret recv)⟩
  | .rleaf id ps c t thr, _, args =>
    let recv := List.zipWith conv ps args
    ⟨[⟨id, recv⟩], leafRes thr (rleafRet id c t recv)⟩
  | .pleaf id ps ret thr, _, args =>
    let recv := List.zipWith bindCRef ps args
    ⟨[⟨id, recv⟩], leafRes thr (leafRet id ret recv)⟩
  | .qleaf id ps ret thr, _, args =>
    let recv := List.zipWith castPar ps args
    ⟨[⟨id, recv⟩], leafRes thr (leafRet id ret recv)⟩
  | .pcatch id ret _, _, _ => ⟨[⟨id, []⟩], .ok (leafRet id ret [])⟩    -- (called while an exception it handles is in flight)
  | .un n f, ex, args =>
    (callImplT rm f n.innerExplicit (argsImpl n args)).mapRes (fun v =>
      fwdNode rm n (nullary ex args) (resOf n (afRes rm f (nullary n.innerExplicit (argsImpl n args)) v)))
  | .compose1 s g, _, args =>
    (callImplT rm g false args).andThen (fun v =>
      (callImplT rm s false [fwdRes (rm .compose1Arg) v]).mapRes (fun r => fwdRes (rm .compose1) (afRes rm s false r)))
  | .compose2 s g1 g2, _, args =>
    (callImplT rm g1 false args).andThen (fun v1 => (callImplT rm g2 false args).andThen (fun v2 =>
      (callImplT rm s false [fwdRes (rm .compose2Arg) v1, fwdRes (rm .compose2Arg) v2]).mapRes
        (fun r => fwdRes (rm .compose2) (afRes rm s false r))))
  | .exceptionCatch f c, ex, args =>
    let site := if nullary ex args then ResSite.exceptionCatch0 else ResSite.exceptionCatch
    ((callImplT rm f false args).mapRes (fun v => fwdRes (rm site) (afRes rm f (nullary false args) v))).orCatch
      c.handles ((callImplT rm c false []).mapRes (fwdRes (rm site)))

/-- the current code, called directly: `e(args...)` -/
def callImpl (e : FExpr) (args : List Val) : Outcome := callImplT resultMode e false args

/-- the documentation: argument transformation as documented, and "returns the result of the wrapped functor" — the
    result itself, so a reference result is the reference to the same object -/
def callSpec : FExpr → List Val → Outcome
  | .leaf id ps ret thr, args =>
    let recv := List.zipWith conv ps args
    ⟨[⟨id, recv⟩], leafRes thr (leafRet id ret recv)⟩
  | .vleaf id ret thr, args =>
    let recv := args.map Val.decay
    ⟨[⟨id, recv⟩], leafRes thr (leafRet id ret recv)⟩
  | .rleaf id ps c t thr, args =>
    let recv := List.zipWith conv ps args
    ⟨[⟨id, recv⟩], leafRes thr (rleafRet id c t recv)⟩
  | .pleaf id ps ret thr, args =>
    let recv := List.zipWith bindCRef ps args
    ⟨[⟨id, recv⟩], leafRes thr (leafRet id ret recv)⟩
  | .qleaf id ps ret thr, args =>
    let recv := List.zipWith castPar ps args              -- converted to the declared type, then bound
    ⟨[⟨id, recv⟩], leafRes thr (leafRet id ret recv)⟩
  | .pcatch id ret _, _ => ⟨[⟨id, []⟩], .ok (leafRet id ret [])⟩
  | .un n f, args => (callSpec f (argsSpec n args)).mapRes (resOf n)
  | .compose1 s g, args => (callSpec g args).andThen (fun v => callSpec s [v])
  | .compose2 s g1 g2, args =>
    (callSpec g1 args).andThen (fun v1 => (callSpec g2 args).andThen (fun v2 => callSpec s [v1, v2]))
  | .exceptionCatch f c, args =>
    -- "returns c() exactly when f throws"; a catcher that rethrows and does not know the exception's type lets it
    -- "proceed to the next catcher adaptor" (exception_catch.h), i.e. to the caller
    (callSpec f args).orCatch c.handles (callSpec c [])

/-- arity discipline (what the `static_assert`s and overload resolution enforce) -/
def nodeArity : Node → Nat → Option Nat
  | .bind (some i) bs, n => if i ≤ n then some (n + bs.length) else none
  | .bind none bs, n => some (n + bs.length)
  | .hide (some i), n => if i < n then some (n - 1) else none
  | .hide none, n => if 0 < n then some (n - 1) else none
  | .retype tys, n => if tys.length = n then some n else none
  | .slot _ sig, n => if sig.length = n then some n else none
  | _, n => some n

def wellTyped : FExpr → Nat → Bool
  | .leaf _ ps _ _, n => ps.length == n
  | .vleaf _ _ _, _ => true
  | .rleaf _ ps _ _ _, n => ps.length == n
  | .pleaf _ ps _ _, n => ps.length == n
  | .qleaf _ ps _ _, n => ps.length == n
  | .pcatch _ _ _, n => n == 0
  | .un nd f, n =>
    (match nodeArity nd n with
     | some m => wellTyped f m
     | none => false)
    && (match nd with
        | .retype tys => sigOf f == some tys
        | _ => true)
  | .compose1 s g, n => wellTyped g n && wellTyped s 1
  | .compose2 s g1 g2, n => wellTyped g1 n && wellTyped g2 n && wellTyped s 2
  | .exceptionCatch f c, n => wellTyped f n && wellTyped c 0

/-- the three invocation routes -/
structure SlotM where
  empty : Bool
  blocked : Bool
  ret : Option Ty
  f : FExpr
  deriving Repr

def SlotM.callable (s : SlotM) : Bool := !s.empty && !s.blocked

/-- `slot_call::call_it`: passes the `take_t` arguments through unchanged, converts the result to `T_return` -/
def callIt (s : SlotM) (args : List Val) : Outcome := (callImplT resultMode s.f true args).mapRes (retConv s.ret)

/-- `slot::operator()` -/
def SlotM.call (s : SlotM) (args : List Val) : Outcome :=
  if s.callable then callIt s args else ⟨[], .ok (dflt s.ret)⟩

def direct (e : FExpr) (args : List Val) : Outcome := callImpl e args

def sigCall (args : List Val) (s : SlotM) (log : List Call) : List Call × Res Val :=
  let o := callIt s args
  (log ++ o.log, o.res)

/-- `signal<ret(sig...)>::emit(args)` -/
def viaSignal (ret : Option Ty) (slots : List SlotM) (args : List Val) : Outcome :=
  match ret with
  | none =>
    let (log, r) := emitVoid SlotM.callable (sigCall args) slots []
    ⟨log, r.map (fun _ => Val.unit)⟩
  | some t =>
    let (log, r) := emitValue SlotM.callable (sigCall args) (dflt (some t)) slots []
    ⟨log, r⟩

/-! ## Part 4 — C11: objects with identity -/

/-- declared parameter kind of a signal / slot signature position or of a target parameter:
    `T`, `T&`, `const T&`, `T&&` -/
inductive PK where
  | val | lref | cref | rref
  deriving DecidableEq, Repr

/-- what an argument expression is when it reaches a call operator: non-const lvalue, const lvalue,
    rvalue whose `T_arg` is deduced as `X`, rvalue passed with the explicit template argument `X&&` -/
inductive Cat where
  | lv | clv | xvD | xvE
  deriving DecidableEq, Repr

def Cat.stable : Cat → Bool
  | .lv => true
  | .clv => true
  | _ => false

/-- `T_arg` deduced by a forwarding reference from `std::forward<X&&>(a)`: plain `X` -/
def Cat.deduced : Cat → Cat
  | .xvE => .xvD
  | c => c

/-- a named parameter passed on as `a...` is an lvalue -/
def Cat.named : Cat → Cat
  | .clv => .clv
  | _ => .lv

/-- an argument: the object it denotes, its category, and (ghost) the caller's object that the documented
    semantics says it denotes (`none` for a value produced by a documented conversion) -/
structure ARef where
  obj : Nat
  cat : Cat
  origin : Option Nat
  deriving DecidableEq, Repr

/-- what a `bound_argument<>` holds: its own copy (`T`), or a `limit_reference` to the user's object
    (`std::reference_wrapper<T>` / `<const T>`) -/
inductive Bound where
  | byVal (stored : Nat)
  | byRef (o : Nat)
  | byCRef (o : Nat)
  deriving DecidableEq, Repr

/-- `bound_argument<>::invoke()` -/
def Bound.invoke : Bound → ARef
  | .byVal s => ⟨s, .lv, some s⟩
  | .byRef o => ⟨o, .lv, some o⟩
  | .byCRef o => ⟨o, .clv, some o⟩

/-- one target parameter as observed: designated object, object it was fed from, value seen -/
structure Param where
  origin : Option Nat
  src : Nat
  seen : Int
  deriving DecidableEq, Repr

structure Rec where
  id : Nat
  params : List Param
  deriving DecidableEq, Repr

structure Heap where
  next : Nat
  val : Nat → Int
  copies : Nat → Nat        -- copy constructions with this source
  moves : Nat → Nat         -- move constructions with this source
  hops : Nat → Nat          -- of those, the ones made inside library call operators
  log : List Rec

/-- value of a moved-from object (the harness' `Obj` move constructor does this) -/
def movedMark : Int := -1

def Heap.set (h : Heap) (o : Nat) (v : Int) : Heap :=
  { h with val := fun x => if x = o then v else h.val x }

/-- construct a new `Obj` (its identity is `h.next`) from the expression `a`: copy, or move when `a` is an rvalue
    (unless `forceCopy`) -/
def Heap.construct (h : Heap) (hop : Bool) (forceCopy : Bool) (a : ARef) : Heap :=
  let o := h.next
  let isMove := !a.cat.stable && !forceCopy
  { next := o + 1,
    val := fun x => if x = o then h.val a.obj else if isMove && x = a.obj then movedMark else h.val x,
    copies := fun x => if !isMove && x = a.obj then h.copies x + 1 else h.copies x,
    moves := fun x => if isMove && x = a.obj then h.moves x + 1 else h.moves x,
    hops := fun x => if hop && x = a.obj then h.hops x + 1 else h.hops x,
    log := h.log }

/-- thread the heap through a per-element step -/
def thread (step : Heap → α → Heap × β) : Heap → List α → Heap × List β
  | h, [] => (h, [])
  | h, a :: as =>
    let r := step h a
    let rs := thread step r.1 as
    (rs.1, r.2 :: rs.2)

inductive AdaptorKind where
  | adaptorFunctor | bind | hide | retype | retypeReturn | retypeReturnVoid | bindReturn
  | compose1 | compose2 | exceptionCatch | trackObj
  -- the *object* parameter of `mem_functor::operator()(obj, a...)` (unbound `sigc::mem_fun(&Base::m)`), as overload
  -- resolution selects it for an object argument whose static type is `Base` itself / a class derived from `Base`
  | memFunctorExact | memFunctorDerived
  deriving DecidableEq, Repr

inductive ParamKind where
  | byValue          -- `operator()(T_arg... a)`; for the mem_functor rows: `operator()(T_obj obj, ...)`
  | forwardingRef    -- `operator()(T_arg&&... a)`; for the mem_functor rows read: by reference
                     --   (`obj_type_with_modifier& obj`, bound to the caller's lvalue — the same hand-over, no copy)
  deriving DecidableEq, Repr

/-- the declared parameter kind of every adaptor call operator **in the current code**
    (checked against the code by the correspondence, not assumed) -/
def paramKind : AdaptorKind → ParamKind
  | .adaptorFunctor => .forwardingRef      -- adaptor_trait.h  adaptor_functor::operator()(T_arg&&... arg)
  | .bind => .forwardingRef                -- bind.h           bind_functor::operator()(T_arg&&... arg)
  | .hide => .forwardingRef                -- hide.h           hide_functor::operator()(T_arg&&... a)
  | .retype => .forwardingRef              -- retype.h         (repaired)
  | .retypeReturn => .forwardingRef        -- retype_return.h  primary template
  | .retypeReturnVoid => .forwardingRef    -- retype_return.h  <void> specialisation (repaired)
  | .bindReturn => .forwardingRef          -- bind_return.h    (repaired)
  | .compose1 => .forwardingRef            -- compose.h        compose1_functor
  | .compose2 => .forwardingRef            -- compose.h        compose2_functor (repaired)
  | .exceptionCatch => .forwardingRef      -- exception_catch.h (repaired)
  | .trackObj => .forwardingRef            -- track_obj.h
  | .memFunctorExact => .forwardingRef     -- mem_fun.h        mem_functor::operator()(obj_type_with_modifier& obj, …)
  | .memFunctorDerived => .forwardingRef   -- mem_fun.h        the same (only) overload: derived-to-base reference binding

/-- how a call operator hands its (named) parameters `a` on to the functor(s) it invokes -/
inductive PassKind where
  | forward      -- `std::forward<T_arg>(a)...`: an rvalue argument arrives as an rvalue
  | named        -- `a...`: the named parameters, lvalues — a by-value parameter of the callee copies, nobody moves
  deriving DecidableEq, Repr

/-- the way every adaptor call operator passes its parameters on **in the current code**
    (`bind`, `hide`, `retype` forward into a tuple / a cast, see `ONode.args`) -/
def passKind : AdaptorKind → PassKind
  | .adaptorFunctor => .forward      -- adaptor_trait.h  `std::invoke(functor_, std::forward<T_arg>(arg)...)`
  | .bind => .forward                -- bind.h           `std::tuple<T_arg...>(std::forward<T_arg>(arg)...)`
  | .hide => .forward                -- hide.h           `std::tuple<T_arg...>(std::forward<T_arg>(a)...)`
  | .retype => .forward              -- retype.h         `static_cast<T_type>(std::forward<T_arg>(a))...`
  | .retypeReturn => .forward        -- retype_return.h
  | .retypeReturnVoid => .forward    -- retype_return.h
  | .bindReturn => .forward          -- bind_return.h
  | .compose1 => .forward            -- compose.h        `get_(std::forward<T_arg>(a)...)`: one getter
  | .compose2 => .named              -- compose.h        `get1_(a...), get2_(a...)`: BOTH getters read the same named
                                     --                  parameters, in an unspecified order — neither may consume them
  | .exceptionCatch => .forward      -- exception_catch.h
  | .trackObj => .forward            -- track_obj.h
  | .memFunctorExact => .forward     -- mem_fun.h        `std::invoke(func_ptr_, obj, std::forward<take_t<T_arg>>(a)...)`
  | .memFunctorDerived => .forward

def passOn : PassKind → ARef → ARef
  | .forward, a => a
  | .named, a => { a with cat := a.cat.named }

/-- binding of one argument to a parameter of a call operator template.
    `explicit`: the template arguments are given explicitly as `take_t<T_arg>...` (slot_call::call_it), so even a
    by-value pack has reference type; otherwise `T_arg` is deduced. -/
def enterArg (pk : ParamKind) (explicit : Bool) (h : Heap) (a : ARef) : Heap × ARef :=
  match pk with
  | .forwardingRef => (h, if explicit then a else { a with cat := a.cat.deduced })
  | .byValue =>
    if explicit then (h, a)
    else (h.construct true false a, { obj := h.next, cat := .xvD, origin := a.origin })

/-- element of `std::tuple<T_arg...>(std::forward<T_arg>(a)...)` as read back from the `const` tuple by
    `std::apply`: reference elements denote the same object; a by-value element (`T_arg` deduced as `X`) is
    move-constructed (the further copies of that copy by the slicing are not distinguished) -/
def tupleElem (h : Heap) (a : ARef) : Heap × ARef :=
  match a.cat with
  | .xvD => (h.construct true false a, { obj := h.next, cat := .clv, origin := a.origin })
  | .xvE => (h, { a with cat := .lv })
  | _ => (h, a)

/-- binding to a parameter declared `take_t<T>` (slot::operator(), signal::emit, pointer_functor::operator()) -/
def takeParam (k : PK) (a : ARef) : ARef :=
  match k with
  | .val => { a with cat := .clv }
  | .cref => { a with cat := .clv }
  | .lref => a
  | .rref => if a.cat = .clv then a else { a with cat := .xvE }

/-- `static_cast<T_type>(std::forward<T_arg>(a))` of retype_functor -/
def castTo (h : Heap) (ka : PK × ARef) : Heap × ARef :=
  match ka.1 with
  | .val => (h.construct false false ka.2, { obj := h.next, cat := .xvD, origin := none })
  | .cref => (h, { ka.2 with cat := .clv })
  | .lref => (h, { ka.2 with cat := if ka.2.cat = .clv then .clv else .lv })
  | .rref => (h, if ka.2.cat = .clv then ka.2 else { ka.2 with cat := .xvD })

inductive ONode where
  | bind (loc : Option Nat) (bs : List Bound)
  | hide (loc : Option Nat)
  | retype (tys : List PK)
  | retypeReturn
  | hideReturn
  | bindReturn (v : Int)
  | exceptionCatch
  | trackObj
  | compose1 (sid : Nat)            -- compose(setter, f): the arguments go to the getter `f`
  | slot (sig : List PK)            -- a sigc::slot stored by value
  deriving DecidableEq, Repr

inductive OExpr where
  | leaf (id : Nat) (ptr : Bool) (ps : List PK) (retv : Bool)
  /-- `sigc::mem_fun(&Base::m)` (unbound `mem_functor`) called as `f(obj, args...)`: the first argument is the object
      the method runs on.  `derived`: the static type of the object argument that reaches it is a class derived from
      `Base`; `cm`: `m` is a const method (then `this` is read-only); `ps`: the method's own parameters. -/
  | mleaf (id : Nat) (derived : Bool) (cm : Bool) (ps : List PK) (retv : Bool)
  | un (n : ONode) (f : OExpr)
  | compose2 (sid : Nat) (g1 g2 : OExpr)
  deriving DecidableEq, Repr

def ONode.kind : ONode → AdaptorKind
  | .bind _ _ => .bind
  | .hide _ => .hide
  | .retype _ => .retype
  | .retypeReturn => .retypeReturn
  | .hideReturn => .retypeReturnVoid
  | .bindReturn _ => .bindReturn
  | .exceptionCatch => .exceptionCatch
  | .trackObj => .trackObj
  | .compose1 _ => .compose1
  | .slot _ => .adaptorFunctor

/-- is the wrapped functor's call operator invoked with explicit template arguments -/
def ONode.innerExplicit : ONode → Bool
  | .slot _ => true
  | _ => false

/-- arguments handed to the wrapped functor -/
def ONode.args (pk : AdaptorKind → ParamKind) (ps : AdaptorKind → PassKind) (n : ONode) (explicit : Bool) (h : Heap)
    (args : List ARef) : Heap × List ARef :=
  match n with
  | .slot sig => (h, List.zipWith takeParam sig args)
  | .bind (some i) bs =>
    let r1 := thread (enterArg (pk .bind) explicit) h args
    let r2 := thread tupleElem r1.1 r1.2
    let t := r2.2
    (r2.1, tupleStart i t ++ invokeEach Bound.invoke bs ++ tupleEnd (t.length - i) t)
  | .bind none bs =>
    let r1 := thread (enterArg (pk .bind) explicit) h args
    let r2 := thread tupleElem r1.1 r1.2
    (r2.1, r2.2 ++ invokeEach Bound.invoke bs)
  | .hide loc =>
    let r1 := thread (enterArg (pk .hide) explicit) h args
    let r2 := thread tupleElem r1.1 r1.2
    let t := r2.2
    let size := t.length
    let indexIgnore := match loc with | none => size - 1 | some i => i
    (r2.1, tupleStart indexIgnore t ++ tupleEnd (size - indexIgnore - 1) t)
  | .retype tys =>
    let r1 := thread (enterArg (pk .retype) explicit) h args
    thread castTo r1.1 (List.zip tys r1.2)
  | n =>
    let r := thread (enterArg (pk n.kind) explicit) h args
    (r.1, r.2.map (passOn (ps n.kind)))

def setRes1 (sid : Nat) (r : Option Int) : Int := r.getD 0 + (sid : Int) + 1
def setRes2 (sid : Nat) (r1 r2 : Option Int) : Int := r1.getD 0 + 2 * r2.getD 0 + (sid : Int) + 1

def ONode.res : ONode → Option Int → Option Int
  | .hideReturn, _ => none
  | .bindReturn v, _ => some v
  | .compose1 sid, r => some (setRes1 sid r)
  | _, r => r

/-- a target parameter after initialisation: the object the body sees, whether the body may write it,
    and what is reported about it -/
structure LParam where
  recv : Nat
  writable : Bool
  origin : Option Nat
  src : Nat

/-- initialisation of one declared target parameter (`ptr`: the target is a function reached through
    pointer_functor, whose own `const T&` parameter turns an rvalue into a copy; a function pointer given to
    compose() as a getter is stored and called as it is, i.e. `ptr = false`) -/
def leafInit (ptr : Bool) (h : Heap) (ka : PK × ARef) : Heap × LParam :=
  match ka.1 with
  | .val => (h.construct false ptr ka.2, ⟨h.next, true, ka.2.origin, ka.2.obj⟩)
  | .cref => (h, ⟨ka.2.obj, false, ka.2.origin, ka.2.obj⟩)
  | _ => (h, ⟨ka.2.obj, ka.2.cat != .clv, ka.2.origin, ka.2.obj⟩)

def mutate (id pos : Nat) (v : Int) : Int := v + 100 * ((id : Int) + 1) + (pos : Int)

/-- the body of recording target `id`: per parameter, report the value seen, then write through
    everything that is not const -/
def leafBody (id : Nat) : Nat → List LParam → Heap → Heap × List Param
  | _, [], h => (h, [])
  | pos, p :: ps, h =>
    let seen := h.val p.recv
    let h1 := if p.writable then h.set p.recv (mutate id pos seen) else h
    let r := leafBody id (pos + 1) ps h1
    (r.1, ⟨p.origin, p.src, seen⟩ :: r.2)

def sumSeen : List Param → Int
  | [] => 0
  | p :: ps => p.seen + sumSeen ps

def leafRun (id : Nat) (ptr : Bool) (ps : List PK) (retv : Bool) (args : List ARef) (h : Heap) :
    Heap × Res (Option Int) :=
  let r1 := thread (leafInit ptr) h (List.zip ps args)
  let r2 := leafBody id 0 r1.2 r1.1
  ({ r2.1 with log := r2.1.log ++ [⟨id, r2.2⟩] },
   .ok (if retv then some (1000 * ((id : Int) + 1) + sumSeen r2.2) else none))

/-- invocation of a functor expression with object arguments, following every call operator's declared
    parameter kind (`pk`) and way of passing on (`ps`) -/
def callO (pk : AdaptorKind → ParamKind) (ps : AdaptorKind → PassKind) :
    OExpr → Bool → List ARef → Heap → Heap × Res (Option Int)
  | .leaf id ptr pks retv, ex, args, h =>
    let r1 := thread (enterArg (pk .adaptorFunctor) ex) h args
    leafRun id ptr pks retv (r1.2.map (passOn (ps .adaptorFunctor))) r1.1
  | .mleaf id der cm pks retv, ex, args, h =>
    let r1 := thread (enterArg (pk .adaptorFunctor) ex) h args
    let as1 := r1.2.map (passOn (ps .adaptorFunctor))
    -- mem_functor::operator()(obj, a...): the object parameter is declared as the table row says; the method's
    -- arguments are `take_t<T_arg>` as for pointer_functor; then `(obj.*func_ptr_)(a...)`: `this` is a reference
    -- parameter (`const` for a const method) of the method body
    let r2 := thread (enterArg (pk (if der then .memFunctorDerived else .memFunctorExact)) false) r1.1 (as1.take 1)
    leafRun id true ((if cm then PK.cref else PK.lref) :: pks) retv (r2.2 ++ as1.drop 1) r2.1
  | .un n f, ex, args, h =>
    let r1 := n.args pk ps ex h args
    let r2 := callO pk ps f n.innerExplicit r1.2 r1.1
    (r2.1, r2.2.map n.res)
  | .compose2 sid g1 g2, ex, args, h =>
    let r1 := thread (enterArg (pk .compose2) ex) h args
    let as2 := r1.2.map (passOn (ps .compose2))
    let o1 := callO pk ps g1 false as2 r1.1
    match o1.2 with
    | .threw x => (o1.1, .threw x)
    | .ok v1 =>
      let o2 := callO pk ps g2 false as2 o1.1
      (o2.1, o2.2.map (fun v2 => some (setRes2 sid v1 v2)))

structure OSlot where
  empty : Bool
  blocked : Bool
  f : OExpr
  deriving Repr

def OSlot.callable (s : OSlot) : Bool := !s.empty && !s.blocked

/-- what the emitter passes: its own object `o` (as `std::move(o)` for a `T&&` position), bound to `take_t` -/
def emitterArg (k : PK) (o : Nat) : ARef := takeParam k ⟨o, .lv, some o⟩

/-- `signal<void(sig...)>::emit`: every slot gets `std::forward<take_t<T_arg>>(a)...` -/
def emitVoidO (pk : AdaptorKind → ParamKind) (ps : AdaptorKind → PassKind) (sig : List PK) (objs : List Nat)
    (slots : List OSlot) (h : Heap) : Heap × Res Unit :=
  let args := List.zipWith emitterArg sig objs
  emitVoid OSlot.callable (fun s h => callO pk ps s.f true args h) slots h

/-- `signal<int(sig...)>::emit`: every slot gets `a...` -/
def emitValueO (pk : AdaptorKind → ParamKind) (ps : AdaptorKind → PassKind) (sig : List PK) (objs : List Nat)
    (slots : List OSlot) (h : Heap) : Heap × Res (Option Int) :=
  let args := (List.zipWith emitterArg sig objs).map (fun a => { a with cat := a.cat.named })
  emitValue OSlot.callable (fun s h => callO pk ps s.f true args h) (some 0) slots h

end Sigc.Adapt

/-! ## Part 4b — predicates used by the C11 theorems (no proofs here) -/
namespace Sigc.Adapt

/-- the object feeding a target parameter is the object the documented routing designates -/
def Param.ok (p : Param) : Bool :=
  match p.origin with
  | none => true
  | some o => p.src == o

def Rec.ok (r : Rec) : Bool := r.params.all Param.ok

/-- every target invocation so far received, at every parameter, the very object designated for it -/
def logOK (h : Heap) : Bool := h.log.all Rec.ok

/-- no `T&&` in a retype target type or in the signature of a nested slot -/
def ONode.noRRef : ONode → Bool
  | .retype tys => !tys.contains .rref
  | .slot sig => !sig.contains .rref
  | _ => true

def OExpr.noRRef : OExpr → Bool
  | .leaf _ _ _ _ => true
  | .mleaf _ _ _ _ _ => true
  | .un n f => n.noRRef && f.noRRef
  | .compose2 _ g1 g2 => g1.noRRef && g2.noRRef

/-- only call operators that pass their arguments on with `std::forward` / as `a...` (no tuple slicing, no cast) -/
def ONode.fwd : ONode → Bool
  | .retypeReturn => true
  | .hideReturn => true
  | .bindReturn _ => true
  | .exceptionCatch => true
  | .trackObj => true
  | .compose1 _ => true
  | _ => false

def OExpr.fwdOnly : OExpr → Bool
  | .leaf _ _ _ _ => true
  | .mleaf _ _ _ _ _ => true
  | .un n f => n.fwd && f.fwdOnly
  | .compose2 _ g1 g2 => g1.fwdOnly && g2.fwdOnly

/-- every target takes its parameters by value or by `const&` (the getters of `compose(s, g1, g2)`) -/
def OExpr.readOnly : OExpr → Bool
  | .leaf _ _ ps _ => ps.all (fun k => k == .val || k == .cref)
  | .mleaf _ _ cm ps _ => cm && ps.all (fun k => k == .val || k == .cref)
  | .un _ f => f.readOnly
  | .compose2 _ g1 g2 => g1.readOnly && g2.readOnly

/-- objects a functor expression holds a non-const path to: by-value bound copies and std::ref-bound objects -/
def Bound.mutObj : Bound → List Nat
  | .byVal s => [s]
  | .byRef o => [o]
  | .byCRef _ => []

def OExpr.boundMut : OExpr → List Nat
  | .leaf _ _ _ _ => []
  | .mleaf _ _ _ _ _ => []
  | .un (.bind _ bs) f => bs.flatMap Bound.mutObj ++ f.boundMut
  | .un _ f => f.boundMut
  | .compose2 _ g1 g2 => g1.boundMut ++ g2.boundMut

end Sigc.Adapt

/-! ## Part 5 — driver -/
namespace Sigc.Adapt

def parseTy : String → Option Ty
  | "i" => some .int
  | "l" => some .long
  | "d" => some .dbl
  | "m" => some .mstr      -- `av::MStr` (a parameter declared by value)
  | "mc" => some .mstr     -- `const av::MStr&`
  | "mr" => some .mstr     -- `av::MStr&&`
  | "s" => some .str       -- `av::Str`
  | "j" => some .json      -- `av::Json`
  | "jc" => some .json     -- `const av::Json&`
  | _ => none

/-- declared parameter types of `qleaf` targets and of `retype`: `i l d s` by value, `c<t>` = `const T&`, `x<t>` = `T&&` -/
def parsePar : String → Option Par
  | "i" => some ⟨.val, .int⟩
  | "l" => some ⟨.val, .long⟩
  | "d" => some ⟨.val, .dbl⟩
  | "s" => some ⟨.val, .str⟩
  | "ci" => some ⟨.cref, .int⟩
  | "cl" => some ⟨.cref, .long⟩
  | "cd" => some ⟨.cref, .dbl⟩
  | "cs" => some ⟨.cref, .str⟩
  | "xi" => some ⟨.rref, .int⟩
  | "xl" => some ⟨.rref, .long⟩
  | "xd" => some ⟨.rref, .dbl⟩
  | "xs" => some ⟨.rref, .str⟩
  | _ => none

/-- what a target throws: `0` nothing, `1` `av::Thrown`, `2` `av::Thrown2` -/
def parseThr : String → Option (Option Exc)
  | "0" => some none
  | "1" => some (some .k1)
  | "2" => some (some .k2)
  | _ => none

/-- the exception types a partial catcher handles: `1`, `2`, `12`, `0` (none) -/
def parseHs : String → Option (List Exc)
  | "0" => some []
  | "1" => some [.k1]
  | "2" => some [.k2]
  | "12" => some [.k1, .k2]
  | _ => none

def parseRet : String → Option (Option Ty)
  | "v" => some none
  | t => (parseTy t).map some

def parseVal (s : String) : Option Val :=
  match s.splitOn ":" with
  | [t, n] => do
    let ty ← parseTy t
    let k ← n.toInt?
    pure (.num ty k)
  | [r, t, cell, n] => do              -- `ref:<t>:<cell>:<n>` / `cref:…`: std::ref(x) / std::cref(x), x the pool object
    let ty ← parseTy t
    let c ← cell.toNat?
    let k ← n.toInt?
    if r == "ref" then pure (.ref false ty c k) else if r == "cref" then pure (.ref true ty c k) else none
  | _ => none

def parseLoc (s : String) : Option (Option Nat) :=
  if s = "-1" then some none else s.toNat?.map some

/-- read `n` items with `f` -/
def takeN (f : String → Option α) : Nat → List String → Option (List α × List String)
  | 0, ts => some ([], ts)
  | n + 1, t :: ts => do
    let a ← f t
    let (as, rest) ← takeN f n ts
    pure (a :: as, rest)
  | _ + 1, [] => none

/-- `<count> item*` -/
def takeList (f : String → Option α) : List String → Option (List α × List String)
  | c :: ts => do
    let n ← c.toNat?
    takeN f n ts
  | [] => none

def parseFExpr : Nat → List String → Option (FExpr × List String)
  | 0, _ => none
  | fuel + 1, toks =>
    match toks with
    | "L" :: id :: thr :: ret :: ts => do
      let id ← id.toNat?
      let thr ← parseThr thr
      let ret ← parseRet ret
      let (ps, rest) ← takeList parseTy ts
      pure (.leaf id ps ret thr, rest)
    | "V" :: id :: thr :: ret :: ts => do
      let id ← id.toNat?
      let thr ← parseThr thr
      let ret ← parseRet ret
      pure (.vleaf id ret thr, ts)
    | "PL" :: id :: thr :: ret :: ts => do
      let id ← id.toNat?
      let thr ← parseThr thr
      let ret ← parseRet ret
      let (ps, rest) ← takeList parseTy ts
      pure (.pleaf id ps ret thr, rest)
    | "QL" :: id :: thr :: ret :: ts => do
      let id ← id.toNat?
      let thr ← parseThr thr
      let ret ← parseRet ret
      let (ps, rest) ← takeList parsePar ts
      pure (.qleaf id ps ret thr, rest)
    | "PC" :: id :: ret :: hs :: ts => do
      let id ← id.toNat?
      let ret ← parseRet ret
      let hs ← parseHs hs
      pure (.pcatch id ret hs, ts)
    | "RL" :: id :: thr :: c :: t :: ts => do
      let id ← id.toNat?
      let thr ← parseThr thr
      let t ← parseTy t
      let (ps, rest) ← takeList parseTy ts
      pure (.rleaf id ps (c == "1") t thr, rest)
    | "RRR" :: c :: t :: ts => do
      let t ← parseTy t
      let (f, rest) ← parseFExpr fuel ts
      pure (.un (.retypeReturnRef (c == "1") t) f, rest)
    | "B" :: loc :: ts => do
      let loc ← parseLoc loc
      let (bs, rest) ← takeList parseVal ts
      let (f, rest) ← parseFExpr fuel rest
      pure (.un (.bind loc bs) f, rest)
    | "H" :: loc :: ts => do
      let loc ← parseLoc loc
      let (f, rest) ← parseFExpr fuel ts
      pure (.un (.hide loc) f, rest)
    | "RT" :: ts => do
      let (tys, rest) ← takeList parsePar ts
      let (f, rest) ← parseFExpr fuel rest
      pure (.un (.retype tys) f, rest)
    | "RR" :: t :: ts => do
      let t ← parseTy t
      let (f, rest) ← parseFExpr fuel ts
      pure (.un (.retypeReturn t) f, rest)
    | "HR" :: ts => do
      let (f, rest) ← parseFExpr fuel ts
      pure (.un .hideReturn f, rest)
    | "BR" :: v :: ts => do
      let v ← parseVal v
      let (f, rest) ← parseFExpr fuel ts
      pure (.un (.bindReturn v) f, rest)
    | "TO" :: n :: ts => do
      let n ← n.toNat?
      let (f, rest) ← parseFExpr fuel ts
      pure (.un (.trackObj n) f, rest)
    | "SL" :: ret :: ts => do
      let ret ← parseRet ret
      let (sig, rest) ← takeList parseTy ts
      let (f, rest) ← parseFExpr fuel rest
      pure (.un (.slot ret sig) f, rest)
    | "C1" :: ts => do
      let (s, rest) ← parseFExpr fuel ts
      let (g, rest) ← parseFExpr fuel rest
      pure (.compose1 s g, rest)
    | "C2" :: ts => do
      let (s, rest) ← parseFExpr fuel ts
      let (g1, rest) ← parseFExpr fuel rest
      let (g2, rest) ← parseFExpr fuel rest
      pure (.compose2 s g1 g2, rest)
    | "EC" :: ts => do
      let (f, rest) ← parseFExpr fuel ts
      let (c, rest) ← parseFExpr fuel rest
      pure (.exceptionCatch f c, rest)
    | _ => none

def showTy : Ty → String
  | .int => "i"
  | .long => "l"
  | .dbl => "d"
  | .mstr => "m"
  | .str => "s"
  | .json => "j"

def showVal : Val → String
  | .unit => "unit"
  | .num t n => showTy t ++ ":" ++ toString n
  | .ref c t cell n => (if c then "cref:" else "ref:") ++ showTy t ++ ":" ++ toString cell ++ ":" ++ toString n

def showCall (c : Call) : String :=
  toString c.id ++ "(" ++ ",".intercalate (c.args.map showVal) ++ ")"

def showOutcome (o : Outcome) : String :=
  "log=" ++ ";".intercalate (o.log.map showCall) ++ " res=" ++
    (match o.res with
     | .ok v => showVal v
     | .threw .k1 => "threw"
     | .threw .k2 => "threw2")

/-- `c10 <route D|S|G> <ret> <nsig> <ty>* <nargs> <val>* <expr>` -/
def processC10 (toks : List String) : Option String :=
  match toks with
  | route :: ret :: ts => do
    let ret ← parseRet ret
    let (sig, rest) ← takeList parseTy ts
    let (args, rest) ← takeList parseVal rest
    let (e, rest) ← parseFExpr (rest.length + 1) rest
    if !rest.isEmpty then none
    else
      let wt := wellTyped e args.length && (route == "D" || sig.length == args.length)
      let s : SlotM := ⟨false, false, ret, e⟩
      let o ← (match route with
        | "D" => some (direct e args)
        | "S" => some (s.call (List.zipWith conv sig args))
        | "G" => some (viaSignal ret [s] (List.zipWith conv sig args))
        | _ => none)
      let sp := callSpec e args
      pure ("wt=" ++ (if wt then "1" else "0") ++ " " ++ showOutcome o
            ++ " spec=" ++ (if (direct e args) == sp then "same" else "differs"))
  | _ => none

def parsePK : String → Option PK
  | "v" => some .val
  | "l" => some .lref
  | "c" => some .cref
  | "r" => some .rref
  | _ => none

def parseBound (s : String) : Option Bound :=
  match s.splitOn ":" with
  | ["v", n] => n.toNat?.map .byVal
  | ["r", n] => n.toNat?.map .byRef
  | ["c", n] => n.toNat?.map .byCRef
  | _ => none

def parseObj (s : String) : Option (Nat × Int) :=
  match s.splitOn ":" with
  | [a, b] => do
    let a ← a.toNat?
    let b ← b.toInt?
    pure (a, b)
  | _ => none

def parseOExpr : Nat → List String → Option (OExpr × List String)
  | 0, _ => none
  | fuel + 1, toks =>
    match toks with
    | "L" :: id :: ptr :: retv :: ts => do
      let id ← id.toNat?
      let (ps, rest) ← takeList parsePK ts
      pure (.leaf id (ptr == "1") ps (retv == "1"), rest)
    | "M" :: id :: der :: cm :: retv :: ts => do
      let id ← id.toNat?
      let (ps, rest) ← takeList parsePK ts
      pure (.mleaf id (der == "1") (cm == "1") ps (retv == "1"), rest)
    | "B" :: loc :: ts => do
      let loc ← parseLoc loc
      let (bs, rest) ← takeList parseBound ts
      let (f, rest) ← parseOExpr fuel rest
      pure (.un (.bind loc bs) f, rest)
    | "H" :: loc :: ts => do
      let loc ← parseLoc loc
      let (f, rest) ← parseOExpr fuel ts
      pure (.un (.hide loc) f, rest)
    | "RT" :: ts => do
      let (tys, rest) ← takeList parsePK ts
      let (f, rest) ← parseOExpr fuel rest
      pure (.un (.retype tys) f, rest)
    | "RR" :: ts => do
      let (f, rest) ← parseOExpr fuel ts
      pure (.un .retypeReturn f, rest)
    | "HR" :: ts => do
      let (f, rest) ← parseOExpr fuel ts
      pure (.un .hideReturn f, rest)
    | "BR" :: v :: ts => do
      let v ← v.toInt?
      let (f, rest) ← parseOExpr fuel ts
      pure (.un (.bindReturn v) f, rest)
    | "EC" :: ts => do
      let (f, rest) ← parseOExpr fuel ts
      pure (.un .exceptionCatch f, rest)
    | "TO" :: ts => do
      let (f, rest) ← parseOExpr fuel ts
      pure (.un .trackObj f, rest)
    | "C1" :: sid :: ts => do
      let sid ← sid.toNat?
      let (f, rest) ← parseOExpr fuel ts
      pure (.un (.compose1 sid) f, rest)
    | "SL" :: ts => do
      let (sig, rest) ← takeList parsePK ts
      let (f, rest) ← parseOExpr fuel rest
      pure (.un (.slot sig) f, rest)
    | "C2" :: sid :: ts => do
      let sid ← sid.toNat?
      let (g1, rest) ← parseOExpr fuel ts
      let (g2, rest) ← parseOExpr fuel rest
      pure (.compose2 sid g1 g2, rest)
    | _ => none

def parseSlots : Nat → Nat → List String → Option (List OSlot × List String)
  | _, 0, ts => some ([], ts)
  | fuel, n + 1, ts => do
    let (e, rest) ← parseOExpr fuel ts
    let (more, rest) ← parseSlots fuel n rest
    pure (⟨false, false, e⟩ :: more, rest)

def objLabel (o : Nat) : String :=
  if o < 100 then "e" ++ toString o
  else if o < 200 then "b" ++ toString (o - 100)
  else "x"

def showParam (p : Param) : String := objLabel p.src ++ ":" ++ toString p.seen

def showRec (r : Rec) : String :=
  toString r.id ++ "(" ++ ",".intercalate (r.params.map showParam) ++ ")"

def showObj (h : Heap) (o : Nat) : String :=
  objLabel o ++ ":" ++ toString (h.val o) ++ ":c" ++ toString (h.copies o) ++ ":m" ++ toString (h.moves o)

def initHeap (objs : List (Nat × Int)) : Heap :=
  { next := 1000,
    val := fun x => match objs.find? (fun p => p.1 == x) with
      | some p => p.2
      | none => 0,
    copies := fun _ => 0, moves := fun _ => 0, hops := fun _ => 0, log := [] }

/-- what a direct call `f(o...)` passes: the caller's own objects as lvalues (`std::as_const(o)` for a position
    marked `const&`) -/
def directArg (k : PK) (o : Nat) : ARef := ⟨o, if k = .cref then .clv else .lv, some o⟩

/-- `c11 <V|I|DV|DI> <nsig> <pk>* <nsig> <int>* <nobj> <id:val>* <nslots> <oexpr>*`
    (`V`/`I`: emission of a void / int signal — a single `slot` called directly behaves like the emission of a signal
    holding it; `DV`/`DI`: the first functor called directly with the objects as lvalues) -/
def processC11 (toks : List String) : Option String :=
  match toks with
  | kind :: ts => do
    let (sig, rest) ← takeList parsePK ts
    let (vals, rest) ← takeList String.toInt? rest
    let (extra, rest) ← takeList parseObj rest
    match rest with
    | ns :: rest => do
      let ns ← ns.toNat?
      let (slots, rest) ← parseSlots (rest.length + 1) ns rest
      if !rest.isEmpty || vals.length != sig.length then none
      else
        let ids := List.range sig.length
        let h0 := initHeap (List.zip ids vals ++ extra)
        let tracked := ids ++ (extra.map (·.1)).filter (fun o => 100 ≤ o && o < 200)
        let (h, res) ← (match kind with
          | "V" =>
            let (h, r) := emitVoidO paramKind passKind sig ids slots h0
            some (h, match r with
              | .ok _ => "void"
              | .threw _ => "threw")
          | "I" =>
            let (h, r) := emitValueO paramKind passKind sig ids slots h0
            some (h, match r with
              | .ok (some v) => toString v
              | .ok none => "none"
              | .threw _ => "threw")
          | "DV" | "DI" =>
            match slots with
            | [s] =>
              let (h, r) := callO paramKind passKind s.f false (List.zipWith directArg sig ids) h0
              some (h, match r with
                | .ok (some v) => toString v
                | .ok none => "void"
                | .threw _ => "threw")
            | _ => none
          | _ => none)
        pure ("calls=" ++ ";".intercalate (h.log.map showRec) ++ " objs="
              ++ ",".intercalate (tracked.map (showObj h)) ++ " res=" ++ res)
    | [] => none
  | [] => none

/-- one driver case per input line → one output line; the first word selects the check -/
def processLine (line : String) : String :=
  match words line with
  | "c10" :: ts => (processC10 ts).getD "parse-error"
  | "c11" :: ts => (processC11 ts).getD "parse-error"
  | _ => "parse-error"

end Sigc.Adapt
