import Sigc.SlotGLemmasConn
/-! `killConn` preserves `Inv` and stays inside `Casc`. -/
namespace Sigc.SlotG

theorem inv_dropConn {s : State} (h : Inv s) {c : Nat} (hc : ∀ v, s.conns c ≠ some (some v))
    (hno : ¬ OwnedC s c) : Inv (s.setConn c none) := by
  inv_auto h

theorem inv_killConn {s : State} (h : Inv s) {c : Nat} (hno : ¬ OwnedC s c) : Inv (killConn c s) := by
  rw [killConn_eq]
  cases hc : s.conns c with
  | none => exact inv_dropConn h (by intro v hv; rw [hc] at hv; cases hv) hno
  | some o =>
    cases o with
    | none => exact inv_dropConn h (by intro v hv; rw [hc] at hv; cases hv) hno
    | some v =>
      simp only []
      obtain ⟨r, R, hR, hm, hor⟩ := h.connReg c v hc
      have hr : repOf s v = some r := by
        rcases hor with hor | hor
        · exact hor
        · obtain ⟨w, hw⟩ := h.regHeld r R c hR hm
          exact absurd hw (hor w)
      rw [hr]
      exact inv_eraseConn h hc hr hR hm hno

theorem casc_killConn {s s3 : State} (hc : Casc s s3) {c : Nat} (ho : OwnedC s c) : Casc s (killConn c s3) := by
  have hsub : ∀ (l : List Nat) (a : Nat), a ∈ l.erase c → a ∈ l := fun l a h => List.mem_of_mem_erase h
  constructor
  · rw [nextRep_killConn]; exact hc.nextRep
  · intro x X' hx
    obtain ⟨X3, hX3, h1, h2, h3, h4⟩ := reps_killConn_of c s3 x X' hx
    obtain ⟨X, hX, g1, g2, g3, g4⟩ := hc.reps x X3 hX3
    refine ⟨X, hX, by rw [h3]; exact g1, by rw [h2]; exact g2, by rw [h1]; exact g3, ?_⟩
    intro a ha
    rcases h4 with h4 | h4
    · rw [h4] at ha; exact g4 a ha
    · rw [h4] at ha; exact g4 a (hsub _ _ ha)
  · intro v V' hv; rw [slots_killConn] at hv; exact hc.slots v V' hv
  · intro v hv; rw [slots_killConn]; exact hc.slotsKeep v hv
  · intro x
    rw [conns_killConn]
    by_cases hxc : x = c
    · subst hxc; rw [if_pos rfl]; exact .inr (.inr ⟨rfl, ho⟩)
    · rw [if_neg hxc]; exact hc.conns x
  · intro t; rw [trks_killConn]; exact hc.trkDom t
  · intro t T' x ht hx; rw [trks_killConn] at ht; exact hc.trkEnt t T' x ht hx
  · intro t T' x ht hx; rw [trks_killConn] at ht; exact hc.trkFlags t T' x ht hx
  · intro t T' ht; rw [trks_killConn] at ht; exact hc.trkClr t T' ht
  · intro v r hv
    rcases hc.killed v r hv with hk | ⟨hk1, hk2⟩
    · exact .inl (by rw [repOf_killConn]; exact hk)
    · refine .inr ⟨by rw [slots_killConn]; exact hk1, ?_⟩
      cases hx : (killConn c s3).reps r with
      | none => rfl
      | some X' => obtain ⟨X3, hX3, -⟩ := reps_killConn_of c s3 r X' hx; rw [hk2] at hX3; cases hX3
  · intro x X hx hor
    obtain ⟨X3, hX3⟩ := hc.orphanKeep x X hx hor
    exact reps_killConn_to c s3 x X3 hX3
  · intro he; rw [err_killConn]; exact hc.err he

end Sigc.SlotG
