import Sigc.Trk
/-!
  Helper lemmas for C16.
  Part A: trace theory — consequences of `Valid` (pure list reasoning, independent of the model).
  Part B: the model only produces `Valid` traces and never reaches an error state.
-/
namespace Sigc.Trk

/-! ## Part A — trace theory -/

/-- what each event requires of the events before it -/
def StepOK (pre : List Ev) : Ev → Prop
  | .add r _ _ => r ∉ added pre ∧ inRound pre = none
  | .rem _ _ => True
  | .trig _ => inRound pre = none
  | .deliver r d _ => ∃ t, inRound pre = some t ∧ (r, d) ∈ present t pre ∧ r ∉ delivered pre
  | .done t => inRound pre = some t ∧ ∀ x ∈ present t pre, x.1 ∈ delivered pre

inductive Valid : List Ev → Prop
  | nil : Valid []
  | snoc {tr : List Ev} {e : Ev} : Valid tr → StepOK tr e → Valid (tr ++ [e])

@[simp] theorem present_nil (t : Nat) : present t [] = [] := rfl
@[simp] theorem inRound_nil : inRound [] = none := rfl
@[simp] theorem delivered_nil : delivered [] = [] := rfl
@[simp] theorem added_nil : added [] = [] := rfl

theorem present_snoc (t : Nat) (tr : List Ev) (e : Ev) :
    present t (tr ++ [e]) = stepP t (present t tr) e := by
  simp [present, List.foldl_append]

theorem inRound_snoc (tr : List Ev) (e : Ev) : inRound (tr ++ [e]) = stepR (inRound tr) e := by
  simp [inRound, List.foldl_append]

theorem delivered_snoc (tr : List Ev) (e : Ev) :
    delivered (tr ++ [e]) = delivered tr ++ (match e with | .deliver r _ _ => [r] | _ => []) := by
  cases e <;> simp [delivered, List.filterMap_append]

theorem added_snoc (tr : List Ev) (e : Ev) :
    added (tr ++ [e]) = added tr ++ (match e with | .add r _ _ => [r] | _ => []) := by
  cases e <;> simp [added, List.filterMap_append]

theorem present_append (t : Nat) (tr es : List Ev) :
    present t (tr ++ es) = es.foldl (stepP t) (present t tr) := by
  simp [present, List.foldl_append]

theorem inRound_append (tr es : List Ev) : inRound (tr ++ es) = es.foldl stepR (inRound tr) := by
  simp [inRound, List.foldl_append]

theorem added_append (tr es : List Ev) : added (tr ++ es) = added tr ++ added es := by
  simp [added, List.filterMap_append]

theorem delivered_append (tr es : List Ev) : delivered (tr ++ es) = delivered tr ++ delivered es := by
  simp [delivered, List.filterMap_append]

/-- the logical list only shrinks or grows by the event's own registration -/
theorem mem_stepP {t : Nat} {l : List (Nat × Nat)} {e : Ev} {x : Nat × Nat} (h : x ∈ stepP t l e) :
    x ∈ l ∨ ∃ d, e = .add x.1 t d ∧ x.2 = d := by
  cases e with
  | add r t' d =>
    simp only [stepP] at h
    split at h
    · rename_i ht
      rcases List.mem_append.1 h with h | h
      · exact .inl h
      · simp at h; subst h; subst ht; exact .inr ⟨d, rfl, rfl⟩
    · exact .inl h
  | rem t' d =>
    simp only [stepP] at h
    split at h
    · exact .inl (List.mem_of_mem_eraseP h)
    · exact .inl h
  | done t' =>
    simp only [stepP] at h
    split at h
    · simp at h
    · exact .inl h
  | trig t' => exact .inl h
  | deliver r d k => exact .inl h

theorem Valid.sub {tr : List Ev} (v : Valid tr) : ∀ t x, x ∈ present t tr → x.1 ∈ added tr := by
  induction v with
  | nil => intro t x h; simp at h
  | snoc v ok ih =>
    rename_i tr e
    intro t x h
    rw [present_snoc] at h
    rw [added_snoc]
    rcases mem_stepP h with h | ⟨d, he, _⟩
    · exact List.mem_append_left _ (ih t x h)
    · subst he; simp

theorem Valid.delivered_sub {tr : List Ev} (v : Valid tr) : ∀ r, r ∈ delivered tr → r ∈ added tr := by
  induction v with
  | nil => intro r h; simp at h
  | snoc v ok ih =>
    rename_i tr e
    intro r h
    rw [delivered_snoc] at h
    rw [added_snoc]
    rcases List.mem_append.1 h with h | h
    · exact List.mem_append_left _ (ih r h)
    · cases e <;> simp at h
      rename_i r' d k
      subst h
      obtain ⟨t, _, hp, _⟩ := ok
      exact List.mem_append_left _ (v.sub t _ hp)

theorem Valid.added_nodup {tr : List Ev} (v : Valid tr) : (added tr).Nodup := by
  induction v with
  | nil => simp
  | snoc v ok ih =>
    rename_i tr e
    rw [added_snoc]
    cases e <;> simp_all [StepOK, List.nodup_append]
    intro a ha hr; subst hr; exact ok.1 ha

theorem Valid.delivered_nodup {tr : List Ev} (v : Valid tr) : (delivered tr).Nodup := by
  induction v with
  | nil => simp
  | snoc v ok ih =>
    rename_i tr e
    rw [delivered_snoc]
    cases e <;> simp_all [StepOK, List.nodup_append]
    obtain ⟨t, _, _, h⟩ := ok
    intro a ha hr; subst hr; exact h ha

theorem Valid.present_nodup {tr : List Ev} (v : Valid tr) : ∀ t, ((present t tr).map (·.1)).Nodup := by
  induction v with
  | nil => intro t; simp
  | snoc v ok ih =>
    rename_i tr e
    intro t
    rw [present_snoc]
    cases e with
    | add r t' d =>
      simp only [stepP]
      split
      · rw [List.map_append, List.nodup_append]
        refine ⟨ih t, by simp, ?_⟩
        intro a ha b hb hab
        simp at hb; subst hb; subst hab
        obtain ⟨x, hx, rfl⟩ := List.mem_map.1 ha
        exact ok.1 (v.sub t x hx)
      · exact ih t
    | rem t' d =>
      simp only [stepP]
      split
      · exact ((List.eraseP_sublist).map _).nodup (ih t)
      · exact ih t
    | done t' =>
      simp only [stepP]
      split
      · simp
      · exact ih t
    | trig t' => exact ih t
    | deliver r d k => exact ih t

theorem Valid.disj {tr : List Ev} (v : Valid tr) :
    ∀ t t' x y, x ∈ present t tr → y ∈ present t' tr → x.1 = y.1 → t = t' := by
  induction v with
  | nil => intro t t' x y h; simp at h
  | snoc v ok ih =>
    rename_i tr e
    intro t t' x y hx hy hxy
    rw [present_snoc] at hx hy
    rcases mem_stepP hx with hx1 | ⟨d, he, _⟩
    · rcases mem_stepP hy with hy1 | ⟨d', he', _⟩
      · exact ih t t' x y hx1 hy1 hxy
      · subst he'
        exact absurd (hxy ▸ v.sub t x hx1) ok.1
    · rcases mem_stepP hy with hy1 | ⟨d', he', _⟩
      · subst he
        exact absurd (hxy ▸ v.sub t' y hy1) ok.1
      · subst he
        injection he' with _ h2 _

/-- outside a triggering event nothing that is still registered has been delivered; inside one, only
    registrations of the trackable being notified -/
theorem Valid.undelivered {tr : List Ev} (v : Valid tr) :
    ∀ t x, x ∈ present t tr → x.1 ∈ delivered tr → inRound tr = some t := by
  induction v with
  | nil => intro t x h; simp at h
  | snoc v ok ih =>
    rename_i tr e
    intro t x hx hd
    rw [present_snoc] at hx
    rw [delivered_snoc] at hd
    rw [inRound_snoc]
    cases e with
    | add r t' d =>
      simp at hd
      rcases mem_stepP hx with hx | ⟨d', he, _⟩
      · have := ih t x hx hd
        rw [ok.2] at this; cases this
      · injection he with h1 _ _
        exact absurd (h1 ▸ v.delivered_sub _ hd) ok.1
    | rem t' d =>
      simp at hd
      rcases mem_stepP hx with hx | ⟨d', he, _⟩
      · exact ih t x hx hd
      · cases he
    | trig t' =>
      simp at hd
      have := ih t x hx hd
      rw [ok] at this; cases this
    | deliver r d k =>
      simp only [stepR]
      obtain ⟨t0, hr, hp, _⟩ := ok
      simp at hd
      rcases hd with hd | hd
      · exact ih t x hx hd
      · have : t = t0 := v.disj t t0 x (r, d) hx hp hd
        rw [this, hr]
    | done t' =>
      simp at hd
      simp only [stepP] at hx
      split at hx
      · simp at hx
      · rename_i hne
        have := ih t x hx hd
        rw [ok.1] at this
        injection this with this
        exact absurd this hne

theorem Valid.split {tr : List Ev} (v : Valid tr) :
    ∀ pre e post, tr = pre ++ e :: post → Valid pre ∧ StepOK pre e := by
  induction v with
  | nil => intro pre e post h; simp at h
  | snoc v ok ih =>
    rename_i tr e0
    intro pre e post h
    rcases List.eq_nil_or_concat post with hp | ⟨post', e', hp⟩
    · subst hp
      have h' : tr ++ [e0] = pre ++ [e] := h
      obtain ⟨h1, h2⟩ := List.append_inj' h' rfl
      simp at h2; subst h1; subst h2
      exact ⟨v, ok⟩
    · subst hp
      have h' : tr ++ [e0] = (pre ++ e :: post') ++ [e'] := by simpa using h
      obtain ⟨h1, _⟩ := List.append_inj' h' rfl
      exact ih pre e post' h1

/-! ## Part B — the model -/

/-- the live registrations of a callback list: `(registration id, data)` of entries with `func_ != nullptr` -/
def liveRegs (es : List Entry) : List (Nat × Nat) :=
  (es.filter (fun e => e.func.isSome)).map (fun e => (e.reg, e.data))

def regsOf : Option Trackable → List (Nat × Nat)
  | some ⟨some l⟩ => liveRegs l.entries
  | _ => []

def LiveAll (o : Option Trackable) : Prop :=
  ∀ l, o = some ⟨some l⟩ → l.clearing = false ∧ ∀ e ∈ l.entries, e.func.isSome = true

theorem liveRegs_removeLoop (c : Bool) (d : Nat) (es : List Entry) :
    liveRegs (removeLoop c d es) = (liveRegs es).eraseP (fun x => x.2 == d) := by
  induction es with
  | nil => simp [removeLoop, liveRegs]
  | cons e es ih =>
    simp only [removeLoop]
    split
    · rename_i h
      cases c <;> simp [liveRegs, h.1, h.2]
    · rename_i h
      cases hf : e.func.isSome
      · simpa [liveRegs, List.filter_cons, hf] using ih
      · have hd : e.data ≠ d := fun hd => h ⟨hd, hf⟩
        simp only [liveRegs, List.filter_cons, hf, if_true, List.map_cons] at ih ⊢
        rw [List.eraseP_cons_of_neg (by simpa using hd), ih]

theorem map_reg_removeLoop_true (d : Nat) (es : List Entry) :
    (removeLoop true d es).map (·.reg) = es.map (·.reg) := by
  induction es with
  | nil => simp [removeLoop]
  | cons e es ih =>
    simp only [removeLoop]
    split <;> simp [ih]

theorem mem_removeLoop_true {d : Nat} {es : List Entry} {e : Entry}
    (h : e ∈ removeLoop true d es) (hl : e.func.isSome = true) : e ∈ es := by
  induction es with
  | nil => simp [removeLoop] at h
  | cons e0 es ih =>
    simp only [removeLoop] at h
    split at h
    · simp at h
      rcases h with h | h
      · subst h; simp at hl
      · exact List.mem_cons_of_mem _ h
    · simp at h
      rcases h with h | h
      · subst h; simp
      · exact List.mem_cons_of_mem _ (ih h)

theorem mem_removeLoop_false {d : Nat} {es : List Entry} {e : Entry}
    (h : e ∈ removeLoop false d es) : e ∈ es := by
  induction es with
  | nil => simp [removeLoop] at h
  | cons e0 es ih =>
    simp only [removeLoop] at h
    split at h
    · simp at h; exact List.mem_cons_of_mem _ h
    · simp at h
      rcases h with h | h
      · subst h; simp
      · exact List.mem_cons_of_mem _ (ih h)

theorem succOf_spec {r : Nat} : ∀ (es : List Entry) (a b : List Nat),
    es.map (·.reg) = a ++ r :: b → r ∉ a → succOf r es = some b.head? := by
  intro es
  induction es with
  | nil => intro a b h; simp at h
  | cons e es ih =>
    intro a b h hr
    cases a with
    | nil =>
      simp at h
      simp [succOf, h.1, ← h.2, List.head?_map]
    | cons x a =>
      simp at h
      have hx : e.reg ≠ r := by
        intro hx; apply hr; simp [← h.1, hx]
      simp only [succOf, hx, if_false]
      exact ih a b h.2 (fun hm => hr (List.mem_cons_of_mem _ hm))

theorem find_reg {r : Nat} {es : List Entry} (h : r ∈ es.map (·.reg)) :
    ∃ e, es.find? (fun e => e.reg == r) = some e ∧ e ∈ es ∧ e.reg = r := by
  cases hf : es.find? (fun e => e.reg == r) with
  | none =>
    obtain ⟨e, he, hr⟩ := List.mem_map.1 h
    have := List.find?_eq_none.1 hf e he
    simp [hr] at this
  | some e =>
    exact ⟨e, rfl, List.mem_of_find?_eq_some hf, by simpa using List.find?_some hf⟩

theorem eq_of_reg_eq {es : List Entry} (hn : (es.map (·.reg)).Nodup) {e e' : Entry}
    (he : e ∈ es) (he' : e' ∈ es) (h : e.reg = e'.reg) : e = e' := by
  induction es with
  | nil => cases he
  | cons x es ih =>
    simp at hn
    rcases List.mem_cons.1 he with h1 | h1
    · rcases List.mem_cons.1 he' with h2 | h2
      · rw [h1, h2]
      · subst h1; exact absurd h.symm (hn.1 e' h2)
    · rcases List.mem_cons.1 he' with h2 | h2
      · subst h2; exact absurd h (hn.1 e h1)
      · exact ih hn.2 h1 h2

theorem liveRegs_all_live {es : List Entry} (h : ∀ e ∈ es, e.func.isSome = true) :
    liveRegs es = es.map (fun e => (e.reg, e.data)) := by
  unfold liveRegs
  rw [List.filter_eq_self.2 h]

theorem mem_liveRegs {es : List Entry} {x : Nat × Nat} :
    x ∈ liveRegs es ↔ ∃ e ∈ es, e.func.isSome = true ∧ x = (e.reg, e.data) := by
  simp only [liveRegs, List.mem_map, List.mem_filter]
  constructor
  · rintro ⟨e, ⟨he, hl⟩, rfl⟩; exact ⟨e, he, hl, rfl⟩
  · rintro ⟨e, he, hl, rfl⟩; exact ⟨e, ⟨he, hl⟩, rfl⟩

@[simp] theorem upd_objs_same (s : State) (t : Nat) (o : Option Trackable) : (s.upd t o).objs t = o := by
  simp [State.upd]
theorem upd_objs_other (s : State) {t t' : Nat} (o : Option Trackable) (h : t' ≠ t) :
    (s.upd t o).objs t' = s.objs t' := by
  simp [State.upd, h]
@[simp] theorem upd_trace (s : State) (t : Nat) (o : Option Trackable) : (s.upd t o).trace = s.trace := rfl
@[simp] theorem upd_err (s : State) (t : Nat) (o : Option Trackable) : (s.upd t o).err = s.err := rfl
@[simp] theorem upd_nextReg (s : State) (t : Nat) (o : Option Trackable) : (s.upd t o).nextReg = s.nextReg := rfl
@[simp] theorem emit_objs (s : State) (e : Ev) : (s.emit e).objs = s.objs := rfl
@[simp] theorem emit_trace (s : State) (e : Ev) : (s.emit e).trace = s.trace ++ [e] := rfl
@[simp] theorem emit_err (s : State) (e : Ev) : (s.emit e).err = s.err := rfl
@[simp] theorem emit_nextReg (s : State) (e : Ev) : (s.emit e).nextReg = s.nextReg := rfl

/-- callbacks only remove registrations (C16's domain) -/
def RemOnly (sc : Scripts) : Prop := ∀ k, ∀ b ∈ sc k, b.isRem = true

theorem History.remOnly {h : History} (hd : h.Domain = true) : RemOnly h.sc := by
  intro k b hb
  unfold History.sc at hb
  unfold History.Domain at hd
  rw [List.all_eq_true] at hd
  rw [List.getD_eq_getElem?_getD] at hb
  cases hg : h.scripts[k]? with
  | none => rw [hg] at hb; cases hb
  | some body =>
    rw [hg] at hb
    have := hd _ (List.mem_of_getElem? hg)
    rw [List.all_eq_true] at this
    exact this b hb

/-- invariant at operation boundaries -/
structure Inv (s : State) : Prop where
  noerr : s.err = none
  valid : Valid s.trace
  idle  : inRound s.trace = none
  pres  : ∀ t, present t s.trace = regsOf (s.objs t)
  live  : ∀ t, LiveAll (s.objs t)
  fresh : ∀ r ∈ added s.trace, r < s.nextReg

/-- invariant inside the delivery round on `t`; `dn ++ rest` are the registration ids of the list's
    nodes in order, the iterator stands on the head of `rest` -/
structure LInv (t : Nat) (s : State) (dn rest : List Nat) : Prop where
  noerr : s.err = none
  valid : Valid s.trace
  inr   : inRound s.trace = some t
  obj   : ∃ es, s.objs t = some ⟨some ⟨es, true⟩⟩ ∧ es.map (·.reg) = dn ++ rest ∧
            present t s.trace = liveRegs es ∧
            ∀ e ∈ es, e.reg ∈ dn → e.func.isSome = true → e.reg ∈ delivered s.trace
  nodup : (dn ++ rest).Nodup
  pend  : ∀ r ∈ rest, r ∉ delivered s.trace
  others : ∀ t', t' ≠ t → present t' s.trace = regsOf (s.objs t') ∧ LiveAll (s.objs t')
  fresh : ∀ r ∈ added s.trace, r < s.nextReg

theorem rem_LInv {t : Nat} {s : State} {dn rest : List Nat} (d : Nat) (h : LInv t s dn rest) :
    LInv t (removeDestroyNotify t d s) dn rest := by
  obtain ⟨es, ho, hmap, hpres, hdlv⟩ := h.obj
  have hs : removeDestroyNotify t d s =
      (s.emit (.rem t d)).upd t (some ⟨some ⟨removeLoop true d es, true⟩⟩) := by
    simp [removeDestroyNotify, ho, getList, CbList.removeCallback]
  rw [hs]
  refine ⟨by simpa using h.noerr, ?_, ?_, ?_, h.nodup, ?_, ?_, ?_⟩
  · simpa using Valid.snoc h.valid (e := .rem t d) trivial
  · simpa [inRound_snoc, stepR] using h.inr
  · refine ⟨removeLoop true d es, by simp, by rw [map_reg_removeLoop_true, hmap], ?_, ?_⟩
    · simp [present_snoc, stepP, hpres, liveRegs_removeLoop]
    · intro e he hdn hl
      simpa [delivered_snoc] using hdlv e (mem_removeLoop_true he hl) hdn hl
  · intro r hr
    simpa [delivered_snoc] using h.pend r hr
  · intro t' ht'
    have := h.others t' ht'
    simp only [upd_trace, emit_trace, present_snoc, stepP, upd_objs_other _ _ ht', emit_objs]
    rw [if_neg (Ne.symm ht')]
    exact this
  · intro r hr
    simpa [added_snoc] using h.fresh r (by simpa [added_snoc] using hr)

theorem body_LInv {t : Nat} {dn rest : List Nat} :
    ∀ (body : List BodyOp) (s : State), (∀ b ∈ body, b.isRem = true) → LInv t s dn rest →
      LInv t (runBody t body s) dn rest := by
  intro body
  induction body with
  | nil => intro s _ h; exact h
  | cons b bs ih =>
    intro s hb h
    simp only [runBody, h.noerr, Option.isSome_none, Bool.false_eq_true, if_false]
    apply ih _ (fun b' hb' => hb b' (List.mem_cons_of_mem _ hb'))
    have hbr := hb b (List.mem_cons_self ..)
    cases b with
    | rem d => exact rem_LInv d h
    | add d k => simp [BodyOp.isRem] at hbr
    | notify => simp [BodyOp.isRem] at hbr

/-- advancing over node `r`, which (if live) has just been delivered -/
theorem call_LInv {sc : Scripts} (hsc : RemOnly sc) {t : Nat} {s : State} {dn rest : List Nat} {r : Nat}
    {e : Entry} (h : LInv t s dn (r :: rest)) (he : e ∈ entriesOf s t) (her : e.reg = r) :
    LInv t (callEntry sc t e s) (dn ++ [r]) rest := by
  obtain ⟨es, ho, hmap, hpres, hdlv⟩ := h.obj
  have hes : entriesOf s t = es := by simp [entriesOf, ho]
  rw [hes] at he
  have hnd : (dn ++ [r] ++ rest).Nodup := by simpa using h.nodup
  have hnodupes : (es.map (·.reg)).Nodup := by rw [hmap]; exact h.nodup
  have hr_rest : r ∉ rest := by
    have := h.nodup
    rw [List.nodup_append] at this
    have := this.2.1
    simp at this
    exact this.1
  unfold callEntry
  cases hf : e.func with
  | none =>
    simp only
    refine ⟨h.noerr, h.valid, h.inr, ⟨es, ho, by simp [hmap], hpres, ?_⟩, hnd, ?_, h.others, h.fresh⟩
    · intro e' he' hdn hl
      rcases List.mem_append.1 hdn with hdn | hdn
      · exact hdlv e' he' hdn hl
      · simp at hdn
        have : e' = e := eq_of_reg_eq hnodupes he' he (by rw [hdn, her])
        rw [this, hf] at hl; simp at hl
    · intro r' hr'; exact h.pend r' (List.mem_cons_of_mem _ hr')
  | some k =>
    simp only
    apply body_LInv _ _ (hsc k)
    have hundel : r ∉ delivered s.trace := h.pend r (List.mem_cons_self ..)
    refine ⟨by simpa using h.noerr, ?_, ?_, ⟨es, by simpa using ho, by simp [hmap], ?_, ?_⟩, hnd, ?_, ?_, ?_⟩
    · refine Valid.snoc h.valid ⟨t, h.inr, ?_, by rw [her]; exact hundel⟩
      rw [hpres, mem_liveRegs]
      exact ⟨e, he, by simp [hf], rfl⟩
    · simpa [inRound_snoc, stepR] using h.inr
    · simpa [present_snoc, stepP] using hpres
    · intro e' he' hdn hl
      simp only [emit_trace, delivered_snoc, List.mem_append, List.mem_singleton]
      rcases List.mem_append.1 hdn with hdn | hdn
      · exact .inl (hdlv e' he' hdn hl)
      · simp at hdn; exact .inr (by rw [hdn, her])
    · intro r' hr'
      simp only [emit_trace, delivered_snoc, List.mem_append, List.mem_singleton, not_or]
      refine ⟨h.pend r' (List.mem_cons_of_mem _ hr'), ?_⟩
      rw [her]; intro h'; exact hr_rest (h' ▸ hr')
    · intro t' ht'
      simpa [present_snoc, stepP] using h.others t' ht'
    · intro r' hr'
      simpa [added_snoc] using h.fresh r' (by simpa [added_snoc] using hr')

/-- the destructor loop reaches `end()` without error, every node visited, every live one delivered -/
theorem loop_LInv {sc : Scripts} (hsc : RemOnly sc) {t : Nat} :
    ∀ (rest dn : List Nat) (s : State) (f : Nat), LInv t s dn rest → rest.length ≤ f →
      LInv t (roundLoop sc f t rest.head? s) (dn ++ rest) [] := by
  intro rest
  induction rest with
  | nil =>
    intro dn s f h _
    simp only [List.head?_nil, roundLoop, List.append_nil]
    simpa using h
  | cons r rest ih =>
    intro dn s f h hf
    obtain ⟨f', rfl⟩ : ∃ f', f = f' + 1 := ⟨f - 1, by simp at hf; omega⟩
    obtain ⟨es, ho, hmap, -, -⟩ := h.obj
    have hes : entriesOf s t = es := by simp [entriesOf, ho]
    obtain ⟨e, hfind, hmem, hreg⟩ : ∃ e, es.find? (fun e => e.reg == r) = some e ∧ e ∈ es ∧ e.reg = r :=
      find_reg (by rw [hmap]; simp)
    have h1 := call_LInv hsc h (hes ▸ hmem) hreg
    obtain ⟨es1, ho1, hmap1, -, -⟩ := h1.obj
    have hes1 : entriesOf (callEntry sc t e s) t = es1 := by simp [entriesOf, ho1]
    have hr : r ∉ dn := by
      have := h.nodup
      rw [List.nodup_append] at this
      intro hm
      exact this.2.2 r hm r (List.mem_cons_self ..) rfl
    have hsucc : succOf r es1 = some rest.head? :=
      succOf_spec es1 dn rest (by simpa using hmap1) hr
    simp only [List.head?_cons, roundLoop, hes, hfind, h1.noerr, hes1, hsucc, Option.isSome_none,
      Bool.false_eq_true, if_false]
    have := ih (dn ++ [r]) _ f' h1 (by simp at hf; omega)
    simpa using this

theorem inv_pend {s : State} (h : Inv s) {t : Nat} {x : Nat × Nat} (hx : x ∈ present t s.trace) :
    x.1 ∉ delivered s.trace := by
  intro hd
  have := h.valid.undelivered t x hx hd
  rw [h.idle] at this; cases this

theorem notify_inv {sc : Scripts} (hsc : RemOnly sc) (t : Nat) {s : State} (h : Inv s) :
    Inv (notifyCallbacks sc t s) ∧
      (∀ o, s.objs t = some o → (notifyCallbacks sc t s).objs t = some ⟨none⟩) := by
  unfold notifyCallbacks
  cases ho : s.objs t with
  | none => exact ⟨h, by intro o ho'; cases ho'⟩
  | some o =>
    obtain ⟨cbs⟩ := o
    cases cbs with
    | none =>
      simp only
      have hp : present t s.trace = [] := by rw [h.pres t, ho]; rfl
      have v1 : Valid (s.trace ++ [.trig t]) := Valid.snoc h.valid h.idle
      have v2 : Valid (s.trace ++ [.trig t] ++ [.done t]) := by
        refine Valid.snoc v1 ⟨by simp [inRound_snoc, stepR], ?_⟩
        simp [present_snoc, stepP, hp]
      refine ⟨⟨by simpa using h.noerr, by simpa using v2,
        by simp [inRound_append, List.foldl, stepR], ?_, ?_, ?_⟩, ?_⟩
      · intro t'
        by_cases ht : t' = t
        · subst ht; simp [present_append, List.foldl, stepP, ho, regsOf]
        · have hne : ¬ t = t' := fun e => ht e.symm
          simpa [present_append, List.foldl, stepP, hne] using h.pres t'
      · intro t'; simpa using h.live t'
      · intro r hr
        exact h.fresh r (by simpa [added_append, added] using hr)
      · intro o _; simpa using ho
    | some l =>
      obtain ⟨es, cl⟩ := l
      obtain ⟨hcl, hlive⟩ := h.live t ⟨es, cl⟩ (by rw [ho])
      simp only at hcl hlive
      subst hcl
      have hp : present t s.trace = liveRegs es := by rw [h.pres t, ho]; rfl
      simp only [Bool.false_eq_true, if_false]
      -- invariant on entry of the loop
      have h0 : LInv t ((s.emit (.trig t)).upd t (some ⟨some ⟨es, true⟩⟩)) [] (es.map (·.reg)) := by
        refine ⟨by simpa using h.noerr, by simpa using Valid.snoc h.valid (e := .trig t) h.idle,
          by simp [inRound_snoc, stepR], ⟨es, by simp, by simp, ?_, ?_⟩, ?_, ?_, ?_, ?_⟩
        · simpa [present_snoc, stepP] using hp
        · intro e _ hdn; cases hdn
        · have := h.valid.present_nodup t
          rw [hp, liveRegs_all_live hlive] at this
          simpa [List.map_map, Function.comp_def] using this
        · intro r hr
          obtain ⟨e, he, rfl⟩ := List.mem_map.1 hr
          have hx : (e.reg, e.data) ∈ present t s.trace := by
            rw [hp, mem_liveRegs]; exact ⟨e, he, hlive e he, rfl⟩
          simpa [delivered_snoc] using inv_pend h hx
        · intro t' ht'
          simp only [upd_trace, emit_trace, present_snoc, stepP, upd_objs_other _ _ ht', emit_objs]
          exact ⟨h.pres t', h.live t'⟩
        · intro r hr; simpa [added_snoc] using h.fresh r (by simpa [added_snoc] using hr)
      have h2 := loop_LInv hsc (es.map (·.reg)) [] _ es.length h0 (by simp)
      rw [List.head?_map] at h2
      simp only [List.nil_append] at h2
      generalize roundLoop sc es.length t (Option.map (fun x => x.reg) es.head?)
        ((s.emit (.trig t)).upd t (some ⟨some ⟨es, true⟩⟩)) = s2 at h2
      simp only [h2.noerr, Option.isSome_none, Bool.false_eq_true, if_false]
      obtain ⟨es2, ho2, hmap2, hpres2, hdlv2⟩ := h2.obj
      refine ⟨⟨by simpa using h2.noerr, ?_, by simp [inRound_snoc, stepR], ?_, ?_, ?_⟩, ?_⟩
      · refine Valid.snoc h2.valid ⟨h2.inr, ?_⟩
        intro x hx
        simp only [upd_trace] at hx ⊢
        rw [hpres2, mem_liveRegs] at hx
        obtain ⟨e, he, hl, rfl⟩ := hx
        refine hdlv2 e he ?_ hl
        rw [List.append_nil] at hmap2
        rw [← hmap2]; exact List.mem_map.2 ⟨e, he, rfl⟩
      · intro t'
        by_cases ht : t' = t
        · subst ht; simp [present_snoc, stepP, regsOf]
        · have hne : ¬ t = t' := fun e => ht e.symm
          simp only [emit_trace, upd_trace, present_snoc, stepP, hne, if_false, emit_objs,
            upd_objs_other _ _ ht]
          exact (h2.others t' ht).1
      · intro t'
        by_cases ht : t' = t
        · subst ht; intro l hl; simp at hl
        · simp only [emit_objs, upd_objs_other _ _ ht]
          exact (h2.others t' ht).2
      · intro r hr; simpa [added_snoc] using h2.fresh r (by simpa [added_snoc] using hr)
      · intro o _; simp

theorem fresh_obj_inv {s : State} (h : Inv s) {t : Nat} (ht : s.objs t = none) :
    Inv (s.upd t (some ⟨none⟩)) := by
  refine ⟨by simpa using h.noerr, by simpa using h.valid, by simpa using h.idle, ?_, ?_,
    by simpa using h.fresh⟩
  · intro t'
    by_cases e : t' = t
    · subst e; simpa [ht, regsOf] using h.pres t'
    · simpa [upd_objs_other _ _ e] using h.pres t'
  · intro t'
    by_cases e : t' = t
    · subst e; intro l hl; simp at hl
    · simpa [upd_objs_other _ _ e] using h.live t'

theorem add_inv {s : State} (h : Inv s) (t d k : Nat) : Inv (addDestroyNotify t d k s) := by
  unfold addDestroyNotify
  cases ho : s.objs t with
  | none => exact h
  | some o =>
    simp only
    -- the list as `callback_list()` returns it: not clearing, all entries live
    obtain ⟨es, hget, hp, hl⟩ : ∃ es, getList o = ⟨es, false⟩ ∧ present t s.trace = liveRegs es ∧
        ∀ e ∈ es, e.func.isSome = true := by
      obtain ⟨cbs⟩ := o
      cases cbs with
      | none => exact ⟨[], rfl, by rw [h.pres t, ho]; rfl, by simp⟩
      | some l =>
        obtain ⟨es, cl⟩ := l
        obtain ⟨hcl, hlive⟩ := h.live t ⟨es, cl⟩ (by rw [ho])
        simp only at hcl hlive
        subst hcl
        exact ⟨es, rfl, by rw [h.pres t, ho]; rfl, hlive⟩
    rw [hget]
    simp only [CbList.addCallback, Bool.false_eq_true, if_false]
    have hfresh : s.nextReg ∉ added s.trace := fun hm => Nat.lt_irrefl _ (h.fresh _ hm)
    refine ⟨by simpa using h.noerr, ?_, ?_, ?_, ?_, ?_⟩
    · exact Valid.snoc h.valid ⟨hfresh, h.idle⟩
    · simpa [inRound_snoc, stepR, State.emit] using h.idle
    · intro t'
      by_cases e : t' = t
      · subst e
        simp [State.emit, present_snoc, stepP, hp, regsOf, liveRegs, List.filter_append]
      · have hne : ¬ t = t' := fun x => e x.symm
        simpa [State.emit, upd_objs_other _ _ e, present_snoc, stepP, hne] using h.pres t'
    · intro t'
      by_cases e : t' = t
      · subst e
        intro l hl
        simp at hl; subst hl
        refine ⟨rfl, ?_⟩
        intro e he
        simp at he
        rcases he with he | he
        · exact hl e he
        · subst he; rfl
      · simpa [State.emit, upd_objs_other _ _ e] using h.live t'
    · intro r hr
      simp [State.emit, added_snoc] at hr ⊢
      rcases hr with hr | hr
      · exact Nat.lt_succ_of_lt (h.fresh r hr)
      · omega

theorem rem_inv {s : State} (h : Inv s) (t d : Nat) : Inv (removeDestroyNotify t d s) := by
  unfold removeDestroyNotify
  cases ho : s.objs t with
  | none => exact h
  | some o =>
    simp only
    obtain ⟨es, hget, hp, hl⟩ : ∃ es, getList o = ⟨es, false⟩ ∧ present t s.trace = liveRegs es ∧
        ∀ e ∈ es, e.func.isSome = true := by
      obtain ⟨cbs⟩ := o
      cases cbs with
      | none => exact ⟨[], rfl, by rw [h.pres t, ho]; rfl, by simp⟩
      | some l =>
        obtain ⟨es, cl⟩ := l
        obtain ⟨hcl, hlive⟩ := h.live t ⟨es, cl⟩ (by rw [ho])
        simp only at hcl hlive
        subst hcl
        exact ⟨es, rfl, by rw [h.pres t, ho]; rfl, hlive⟩
    rw [hget]
    simp only [CbList.removeCallback]
    refine ⟨by simpa using h.noerr, ?_, ?_, ?_, ?_, ?_⟩
    · simpa using Valid.snoc h.valid (e := .rem t d) trivial
    · simpa [inRound_snoc, stepR] using h.idle
    · intro t'
      by_cases e : t' = t
      · subst e
        simp [present_snoc, stepP, hp, regsOf, liveRegs_removeLoop]
      · have hne : ¬ t = t' := fun x => e x.symm
        simpa [upd_objs_other _ _ e, present_snoc, stepP, hne] using h.pres t'
    · intro t'
      by_cases e : t' = t
      · subst e
        intro l hl'
        simp at hl'; subst hl'
        exact ⟨rfl, fun e he => hl e (mem_removeLoop_false he)⟩
      · simpa [upd_objs_other _ _ e] using h.live t'
    · intro r hr
      simpa [added_snoc] using h.fresh r (by simpa [added_snoc] using hr)

theorem del_obj_inv {s : State} (h : Inv s) {t : Nat} (ht : s.objs t = some ⟨none⟩) :
    Inv (s.upd t none) := by
  refine ⟨by simpa using h.noerr, by simpa using h.valid, by simpa using h.idle, ?_, ?_,
    by simpa using h.fresh⟩
  · intro t'
    by_cases e : t' = t
    · subst e; simpa [ht, regsOf] using h.pres t'
    · simpa [upd_objs_other _ _ e] using h.pres t'
  · intro t'
    by_cases e : t' = t
    · subst e; intro l hl; simp at hl
    · simpa [upd_objs_other _ _ e] using h.live t'

theorem alive_iff {s : State} {t : Nat} : s.alive t = true ↔ ∃ o, s.objs t = some o := by
  simp [State.alive, Option.isSome_iff_exists]

theorem exec_inv {sc : Scripts} (hsc : RemOnly sc) {s : State} (h : Inv s) (op : Op)
    (hok : op.ok s = true) : Inv (exec sc op s) := by
  cases op with
  | new t =>
    simp [Op.ok, State.alive] at hok
    exact fresh_obj_inv h hok
  | add t d k => exact add_inv h t d k
  | rem t d => exact rem_inv h t d
  | copyCtor src dst =>
    simp [Op.ok, State.alive] at hok
    exact fresh_obj_inv h hok.2
  | moveCtor src dst =>
    simp [Op.ok, State.alive] at hok
    exact (notify_inv hsc src (fresh_obj_inv h hok.2)).1
  | assign dst src =>
    simp only [exec]
    split
    · exact (notify_inv hsc dst h).1
    · exact h
  | moveAssign dst src =>
    simp only [exec]
    split
    · have h1 := (notify_inv hsc dst h).1
      simp only [h1.noerr, Option.isSome_none, Bool.false_eq_true, if_false]
      exact (notify_inv hsc src h1).1
    · exact h
  | notify t => exact (notify_inv hsc t h).1
  | del t =>
    simp only [Op.ok] at hok
    obtain ⟨o, ho⟩ := alive_iff.1 hok
    obtain ⟨h1, h2⟩ := notify_inv hsc t h
    simp only [exec, h1.noerr, Option.isSome_none, Bool.false_eq_true, if_false]
    exact del_obj_inv h1 (h2 o ho)

theorem step_inv {sc : Scripts} (hsc : RemOnly sc) {s : State} (h : Inv s) (op : Op) :
    Inv (step sc op s) := by
  unfold step
  simp only [h.noerr, Option.isSome_none, Bool.false_eq_true, if_false]
  split
  · rename_i hok; exact exec_inv hsc h op hok
  · exact h

theorem runFrom_inv {sc : Scripts} (hsc : RemOnly sc) :
    ∀ (ops : List Op) (s : State), Inv s → Inv (runFrom sc ops s) := by
  intro ops
  induction ops with
  | nil => intro s h; exact h
  | cons op ops ih => intro s h; exact ih _ (step_inv hsc h op)

theorem init_inv : Inv State.init :=
  ⟨rfl, Valid.nil, rfl, fun _ => rfl, fun _ l hl => by simp [State.init] at hl, fun r hr => by simp [State.init] at hr⟩

theorem run_inv {h : History} (hd : h.Domain = true) : Inv (run h) :=
  runFrom_inv (History.remOnly hd) h.ops _ init_inv

theorem runFrom_append (sc : Scripts) (a b : List Op) (s : State) :
    runFrom sc (a ++ b) s = runFrom sc b (runFrom sc a s) := by
  simp [runFrom, List.foldl_append]

/-! ### frame: what a round on `t` can change at all (no invariant needed) -/

/-- `s'` extends `s`: the trace only grows and only trackable `t` is touched -/
def Ext (t : Nat) (s s' : State) : Prop :=
  (∃ m, s'.trace = s.trace ++ m) ∧ ∀ t', t' ≠ t → s'.objs t' = s.objs t'

theorem Ext.refl (t : Nat) (s : State) : Ext t s s := ⟨⟨[], by simp⟩, fun _ _ => rfl⟩

theorem Ext.trans {t : Nat} {a b c : State} (h1 : Ext t a b) (h2 : Ext t b c) : Ext t a c := by
  obtain ⟨⟨m1, e1⟩, o1⟩ := h1
  obtain ⟨⟨m2, e2⟩, o2⟩ := h2
  exact ⟨⟨m1 ++ m2, by rw [e2, e1, List.append_assoc]⟩, fun t' ht => by rw [o2 t' ht, o1 t' ht]⟩

theorem Ext.emit_upd (t : Nat) (s : State) (e : Ev) (o : Option Trackable) :
    Ext t s ((s.emit e).upd t o) :=
  ⟨⟨[e], rfl⟩, fun t' ht => by simp [upd_objs_other _ _ ht]⟩

theorem bodyStep_ext (t : Nat) (b : BodyOp) (s : State) : Ext t s (bodyStep t b s) := by
  cases b with
  | rem d =>
    simp only [bodyStep, removeDestroyNotify]
    split
    · exact Ext.refl t s
    · exact Ext.emit_upd ..
  | add d k =>
    simp only [bodyStep, addDestroyNotify]
    split
    · exact Ext.refl t s
    · exact ⟨⟨[.add s.nextReg t d], rfl⟩, fun t' ht => by simp [upd_objs_other _ _ ht, State.emit]⟩
  | notify => exact ⟨⟨[], by simp [bodyStep, State.fail]⟩, fun _ _ => rfl⟩

theorem runBody_ext (t : Nat) : ∀ (body : List BodyOp) (s : State), Ext t s (runBody t body s) := by
  intro body
  induction body with
  | nil => intro s; exact Ext.refl t s
  | cons b bs ih =>
    intro s
    simp only [runBody]
    split
    · exact Ext.refl t s
    · exact (bodyStep_ext t b s).trans (ih _)

theorem callEntry_ext (sc : Scripts) (t : Nat) (e : Entry) (s : State) : Ext t s (callEntry sc t e s) := by
  unfold callEntry
  split
  · exact Ext.refl t s
  · rename_i k _
    have h1 : Ext t s (s.emit (.deliver e.reg e.data k)) := ⟨⟨[_], rfl⟩, fun _ _ => rfl⟩
    exact h1.trans (runBody_ext t _ _)

theorem roundLoop_ext (sc : Scripts) (t : Nat) :
    ∀ (f : Nat) (cur : Option Nat) (s : State), Ext t s (roundLoop sc f t cur s) := by
  intro f
  induction f with
  | zero =>
    intro cur s
    cases cur with
    | none => simp only [roundLoop]; exact Ext.refl t s
    | some r => simp only [roundLoop]; exact ⟨⟨[], by simp [State.fail]⟩, fun _ _ => rfl⟩
  | succ f ih =>
    intro cur s
    cases cur with
    | none => simp only [roundLoop]; exact Ext.refl t s
    | some r =>
      simp only [roundLoop]
      split
      · exact ⟨⟨[], by simp [State.fail]⟩, fun _ _ => rfl⟩
      · rename_i e _
        have h1 := callEntry_ext sc t e s
        split
        · exact h1
        · split
          · exact h1.trans ⟨⟨[], by simp [State.fail]⟩, fun _ _ => rfl⟩
          · exact h1.trans (ih _ _)

/-- a triggering event on a live trackable is one bracket `trig t … done t` in the trace, touches no
    other trackable, and leaves `t` without a callback list -/
theorem notify_shape {sc : Scripts} (hsc : RemOnly sc) (t : Nat) {s : State} (h : Inv s)
    {o : Trackable} (ho : s.objs t = some o) :
    (∃ mid, (notifyCallbacks sc t s).trace = s.trace ++ .trig t :: mid ++ [.done t]) ∧
      (∀ t', t' ≠ t → (notifyCallbacks sc t s).objs t' = s.objs t') := by
  have hne := (notify_inv hsc t h).1.noerr
  unfold notifyCallbacks at hne ⊢
  rw [ho] at hne ⊢
  obtain ⟨cbs⟩ := o
  cases cbs with
  | none => exact ⟨⟨[], by simp⟩, fun _ _ => rfl⟩
  | some l =>
    simp only at hne ⊢
    split at hne
    · simp [State.fail] at hne
    · rename_i hcl
      simp only [hcl, Bool.false_eq_true, if_false] at ⊢
      obtain ⟨⟨m, hm⟩, hobj⟩ := roundLoop_ext sc t l.entries.length (l.entries.head?.map (·.reg))
        ((s.emit (.trig t)).upd t (some ⟨some { l with clearing := true }⟩))
      generalize roundLoop sc l.entries.length t (l.entries.head?.map (·.reg))
        ((s.emit (.trig t)).upd t (some ⟨some { l with clearing := true }⟩)) = s2 at hne hm hobj ⊢
      split at hne
      · rename_i he
        rw [hne] at he; simp at he
      · rename_i he
        simp only [he, Bool.false_eq_true, if_false]
        refine ⟨⟨m, by simp [hm]⟩, ?_⟩
        intro t' ht'
        simp only [emit_objs, upd_objs_other _ _ ht']
        rw [hobj t' ht', upd_objs_other _ _ ht']
        rfl

/-- the driver's op-by-op loop (`processLine`) computes exactly the state the theorems speak about -/
theorem runOut_fst (sc : Scripts) : ∀ (ops : List Op) (s : State) (out : List String),
    (runOut sc ops s out).1 = runFrom sc ops s := by
  intro ops
  induction ops with
  | nil => intro s out; rfl
  | cons op ops ih => intro s out; simp only [runOut, runFrom, List.foldl_cons]; exact ih _ _
