import Sigc.Adapt
/-!
  Helper lemmas for the `Adapt` component (C10 / C11).
-/
namespace Sigc.Adapt

/-! ### index packs -/

theorem gets_nil (idx : List Nat) : gets idx ([] : List α) = [] := by
  induction idx with
  | nil => rfl
  | cons i is ih => simp [gets] at ih ⊢

theorem gets_map_succ_cons (idx : List Nat) (x : α) (t : List α) :
    gets (idx.map Nat.succ) (x :: t) = gets idx t := by
  simp [gets, List.filterMap_map, Function.comp_def]

theorem gets_range (n : Nat) (l : List α) : gets (List.range n) l = l.take n := by
  induction n generalizing l with
  | zero => simp [gets]
  | succ n ih =>
    cases l with
    | nil => simp [gets_nil]
    | cons x t =>
      rw [List.range_succ_eq_map, List.take_succ_cons, ← ih t, ← gets_map_succ_cons (List.range n) x t]
      simp [gets]

theorem tupleStart_take (n : Nat) (l : List α) : tupleStart n l = l.take n := gets_range n l

theorem tupleCdr_tail (l : List α) : tupleCdr l = l.tail := by
  cases l with
  | nil => simp [tupleCdr, gets]
  | cons x t =>
    simp only [tupleCdr, List.length_cons, List.range_succ_eq_map, List.tail_cons]
    rw [gets_map_succ_cons, gets_range, List.take_length]

theorem tupleEndFuel_drop (fuel len : Nat) (l : List α) (hf : l.length ≤ fuel) (hl : len ≤ l.length) :
    tupleEndFuel fuel len l = l.drop (l.length - len) := by
  induction fuel generalizing l with
  | zero =>
    have : l = [] := List.eq_nil_of_length_eq_zero (by omega)
    subst this
    simp [tupleEndFuel]
  | succ fuel ih =>
    unfold tupleEndFuel
    by_cases h0 : len = 0
    · rw [if_pos h0]; subst h0; simp
    · rw [if_neg h0]
      by_cases h1 : l.length - len = 0
      · rw [if_pos h1, h1]; rfl
      · rw [if_neg h1]
        by_cases h2 : l.length - len = 1
        · rw [if_pos h2, h2, tupleCdr_tail]; cases l <;> rfl
        · rw [if_neg h2, tupleCdr_tail]
          cases l with
          | nil => simp at h1
          | cons x t =>
            simp only [List.tail_cons, List.length_cons] at *
            rw [ih t (by omega) (by omega)]
            have : t.length + 1 - len = (t.length - len) + 1 := by omega
            rw [this, List.drop_succ_cons]

theorem tupleEnd_drop (len : Nat) (l : List α) (hl : len ≤ l.length) :
    tupleEnd len l = l.drop (l.length - len) :=
  tupleEndFuel_drop l.length len l (Nat.le_refl _) hl

/-! ### tuple_transform_each -/

theorem invoked_map_inr (f : α → β) (l : List α) :
    invoked (l.map (fun a => (Sum.inr (f a) : Sum α β))) = l.map f := by
  induction l with
  | nil => rfl
  | cons x t ih =>
    simp only [invoked, List.map_cons, List.filterMap_cons] at ih ⊢
    rw [ih]

/-- loop invariant of the `size_from_index` recursion: the first `k = size - sfi` elements are transformed -/
theorem transformEachImpl_spec (f : α → β) (orig : List α) (sfi k : Nat) (hk : k + sfi = orig.length) :
    transformEachImpl f sfi
        ((orig.take k).map (fun a => (Sum.inr (f a) : Sum α β)) ++ (orig.drop k).map Sum.inl) orig
      = orig.map (fun a => (Sum.inr (f a) : Sum α β)) := by
  induction sfi generalizing k with
  | zero =>
    have : k = orig.length := by omega
    subst this
    simp [transformEachImpl]
  | succ sfi ih =>
    have hidx : k < orig.length := by omega
    have hlen : ((orig.take k).map (fun a => (Sum.inr (f a) : Sum α β))
          ++ (orig.drop k).map Sum.inl).length = orig.length := by
      simp only [List.length_append, List.length_map, List.length_take, List.length_drop]; omega
    have hlt : ((orig.take k).map (fun a => (Sum.inr (f a) : Sum α β))).length = k := by
      simp only [List.length_map, List.length_take]; omega
    have hdrop : orig.drop k = orig[k] :: orig.drop (k + 1) := List.drop_eq_getElem_cons hidx
    have htake : orig.take (k + 1) = orig.take k ++ [orig[k]] := by
      rw [List.take_add_one, List.getElem?_eq_getElem hidx]; rfl
    unfold transformEachImpl
    simp only [hlen]
    have hkk : orig.length - (sfi + 1) = k := by omega
    rw [hkk, List.getElem?_eq_getElem hidx]
    simp only
    by_cases h0 : sfi = 0
    · subst h0
      rw [if_pos rfl, tupleStart_take]
      have h1 : orig.length - 1 = k := by omega
      rw [h1, List.take_append_of_le_length (by omega), List.take_of_length_le (by omega)]
      have hall : orig.take (k + 1) = orig := List.take_of_length_le (by omega)
      have := congrArg (List.map (fun a => (Sum.inr (f a) : Sum α β))) (hall.symm.trans htake)
      rw [this, List.map_append, List.map_singleton]
    · rw [if_neg h0, tupleStart_take, tupleEnd_drop _ _ (by rw [hlen]; omega), hlen]
      have e1 : orig.length - (orig.length - k - 1) = k + 1 := by omega
      rw [e1, List.take_append_of_le_length (by omega), List.take_of_length_le (by omega),
        List.drop_append, List.drop_of_length_le (by omega)]
      simp only [List.nil_append]
      rw [hlt]
      have e2 : k + 1 - k = 1 := by omega
      rw [e2, hdrop]
      simp only [List.map_cons, List.drop_succ_cons, List.drop_zero]
      rw [← ih (k + 1) (by omega), htake]
      simp only [List.map_append, List.map_cons, List.map_nil, List.append_assoc,
        List.cons_append, List.nil_append]

theorem transformEach_eq_map (f : α → β) (l : List α) :
    transformEach f l = l.map (fun a => (Sum.inr (f a) : Sum α β)) := by
  have := transformEachImpl_spec f l l.length 0 (by omega)
  simpa [transformEach] using this

theorem invokeEach_eq_map (f : α → β) (l : List α) : invokeEach f l = l.map f := by
  rw [invokeEach, transformEach_eq_map, invoked_map_inr]

/-! ### C10: argument slicing equals the documented transformation -/

theorem argsImpl_eq_argsSpec (n : Node) (args : List Val) (h : (nodeArity n args.length).isSome) :
    argsImpl n args = argsSpec n args := by
  cases n with
  | bind loc bs =>
    cases loc with
    | none => simp [argsImpl, argsSpec, invokeEach_eq_map]
    | some i =>
      have hi : i ≤ args.length := by
        simp only [nodeArity] at h
        by_cases hi : i ≤ args.length
        · exact hi
        · simp [hi] at h
      simp only [argsImpl, argsSpec, invokeEach_eq_map, List.map_id, tupleStart_take]
      rw [tupleEnd_drop _ _ (by omega)]
      have : args.length - (args.length - i) = i := by omega
      rw [this]
  | hide loc =>
    cases loc with
    | none =>
      have hn : 0 < args.length := by
        simp only [nodeArity] at h
        by_cases hn : 0 < args.length
        · exact hn
        · simp [hn] at h
      simp only [argsImpl, argsSpec, tupleStart_take]
      have : args.length - (args.length - 1) - 1 = 0 := by omega
      rw [this, tupleEnd_drop _ _ (by omega), List.dropLast_eq_take]
      simp
    | some i =>
      have hi : i < args.length := by
        simp only [nodeArity] at h
        by_cases hi : i < args.length
        · exact hi
        · simp [hi] at h
      simp only [argsImpl, argsSpec, tupleStart_take]
      rw [tupleEnd_drop _ _ (by omega), List.eraseIdx_eq_take_drop_succ]
      have : args.length - (args.length - i - 1) = i + 1 := by omega
      rw [this]
  | retype tys => rfl
  | retypeReturn r => rfl
  | retypeReturnRef c t => rfl
  | hideReturn => rfl
  | bindReturn v => rfl
  | trackObj k => rfl
  | slot ret sig => rfl

theorem argsSpec_length (n : Node) (args : List Val) (m : Nat) (h : nodeArity n args.length = some m) :
    (argsSpec n args).length = m := by
  cases n with
  | bind loc bs =>
    cases loc with
    | none => simp [nodeArity] at h; simp [argsSpec]; omega
    | some i =>
      simp only [nodeArity] at h
      by_cases hi : i ≤ args.length
      · simp [hi] at h; simp [argsSpec]; omega
      · simp [hi] at h
  | hide loc =>
    cases loc with
    | none =>
      simp only [nodeArity] at h
      by_cases hn : 0 < args.length
      · simp [hn] at h; simp [argsSpec]; omega
      · simp [hn] at h
    | some i =>
      simp only [nodeArity] at h
      by_cases hi : i < args.length
      · simp [hi] at h; simp [argsSpec, List.length_eraseIdx, hi]; omega
      · simp [hi] at h
  | retype tys =>
    simp only [nodeArity] at h
    by_cases hn : tys.length = args.length
    · simp [hn] at h; simp [argsSpec, hn]; omega
    · simp [hn] at h
  | slot ret sig =>
    simp only [nodeArity] at h
    by_cases hn : sig.length = args.length
    · simp [hn] at h; simp [argsSpec, hn]; omega
    · simp [hn] at h
  | retypeReturn r => simp [nodeArity] at h; simp [argsSpec]; omega
  | retypeReturnRef c t => simp [nodeArity] at h; simp [argsSpec]; omega
  | hideReturn => simp [nodeArity] at h; simp [argsSpec]; omega
  | bindReturn v => simp [nodeArity] at h; simp [argsSpec]; omega
  | trackObj k => simp [nodeArity] at h; simp [argsSpec]; omega

/-! ### C10: result forwarding -/

theorem fwdRes_of_ne {m : ResMode} (h : m ≠ .decays) (v : Val) : fwdRes m v = v := by
  cases m <;> first | rfl | exact absurd rfl h

theorem resultMode_ne_decays (k : ResSite) : resultMode k ≠ .decays := by
  cases k <;> simp [resultMode]

theorem afRes_of_ne {rm : ResSite → ResMode} (hrm : ∀ k, rm k ≠ .decays) (f : FExpr) (nl : Bool) (v : Val) :
    afRes rm f nl v = v := by
  simp only [afRes]
  split
  · exact fwdRes_of_ne (hrm _) v
  · rfl

theorem fwdNode_of_ne {rm : ResSite → ResMode} (hrm : ∀ k, rm k ≠ .decays) (n : Node) (nl : Bool) (v : Val) :
    fwdNode rm n nl v = v := by
  simp only [fwdNode]
  split
  · exact fwdRes_of_ne (hrm _) v
  · rfl

theorem Res.map_id' (r : Res ρ) : r.map (fun v => v) = r := by cases r <;> rfl

theorem Outcome.mapRes_id' (o : Outcome) : o.mapRes (fun v => v) = o := by
  cases o with
  | mk log res => simp [Outcome.mapRes, Res.map_id']

/-- with a table without decaying rows every call operator (either overload) hands the wrapped functor's result on
    unchanged: the equations of `callImplT` in the plain form -/
theorem callImplT_un {rm : ResSite → ResMode} (hrm : ∀ k, rm k ≠ .decays) (n : Node) (f : FExpr) (ex : Bool)
    (args : List Val) :
    callImplT rm (.un n f) ex args = (callImplT rm f n.innerExplicit (argsImpl n args)).mapRes (resOf n) := by
  simp only [callImplT]
  congr 1
  funext v
  rw [afRes_of_ne hrm, fwdNode_of_ne hrm]

theorem callImplT_compose1 {rm : ResSite → ResMode} (hrm : ∀ k, rm k ≠ .decays) (s g : FExpr) (ex : Bool)
    (args : List Val) :
    callImplT rm (.compose1 s g) ex args
      = (callImplT rm g false args).andThen (fun v => callImplT rm s false [v]) := by
  simp only [callImplT]
  congr 1
  funext v
  have : (fun r => fwdRes (rm .compose1) (afRes rm s false r)) = (fun r => r) := by
    funext r; rw [afRes_of_ne hrm, fwdRes_of_ne (hrm _)]
  rw [this, Outcome.mapRes_id', fwdRes_of_ne (hrm _)]

theorem callImplT_compose2 {rm : ResSite → ResMode} (hrm : ∀ k, rm k ≠ .decays) (s g1 g2 : FExpr) (ex : Bool)
    (args : List Val) :
    callImplT rm (.compose2 s g1 g2) ex args
      = (callImplT rm g1 false args).andThen (fun v1 => (callImplT rm g2 false args).andThen
          (fun v2 => callImplT rm s false [v1, v2])) := by
  simp only [callImplT]
  congr 1
  funext v1
  congr 1
  funext v2
  have : (fun r => fwdRes (rm .compose2) (afRes rm s false r)) = (fun r => r) := by
    funext r; rw [afRes_of_ne hrm, fwdRes_of_ne (hrm _)]
  rw [this, Outcome.mapRes_id', fwdRes_of_ne (hrm _), fwdRes_of_ne (hrm _)]

theorem callImplT_exceptionCatch {rm : ResSite → ResMode} (hrm : ∀ k, rm k ≠ .decays) (f c : FExpr) (ex : Bool)
    (args : List Val) :
    callImplT rm (.exceptionCatch f c) ex args
      = (callImplT rm f false args).orCatch c.handles (callImplT rm c false []) := by
  simp only [callImplT]
  have h1 : ∀ site, (fun v => fwdRes (rm site) (afRes rm f (nullary false args) v)) = (fun v => v) := by
    intro site; funext r; rw [afRes_of_ne hrm, fwdRes_of_ne (hrm _)]
  have h2 : ∀ site, fwdRes (rm site) = (fun v => v) := by
    intro site; funext r; rw [fwdRes_of_ne (hrm _)]
  rw [h1, h2, Outcome.mapRes_id', Outcome.mapRes_id']

/-- without a decaying row the spelling of the call (`.template operator()<...>` or not) makes no difference -/
theorem callImplT_explicit {rm : ResSite → ResMode} (hrm : ∀ k, rm k ≠ .decays) (e : FExpr) (ex : Bool)
    (args : List Val) : callImplT rm e ex args = callImplT rm e false args := by
  cases e with
  | leaf id ps ret thr => rfl
  | vleaf id ret thr => rfl
  | rleaf id ps c t thr => rfl
  | pleaf id ps ret thr => rfl
  | qleaf id ps ret thr => rfl
  | pcatch id ret hs => rfl
  | un n f => rw [callImplT_un hrm, callImplT_un hrm]
  | compose1 s g => rw [callImplT_compose1 hrm, callImplT_compose1 hrm]
  | compose2 s g1 g2 => rw [callImplT_compose2 hrm, callImplT_compose2 hrm]
  | exceptionCatch f c => rw [callImplT_exceptionCatch hrm, callImplT_exceptionCatch hrm]

/-- the equations of `callImpl` (the current table) -/
theorem callImpl_leaf (id : Nat) (ps : List Ty) (ret : Option Ty) (thr : Option Exc) (args : List Val) :
    callImpl (.leaf id ps ret thr) args
      = ⟨[⟨id, List.zipWith conv ps args⟩], leafRes thr (leafRet id ret (List.zipWith conv ps args))⟩ := rfl

theorem callImpl_un (n : Node) (f : FExpr) (args : List Val) :
    callImpl (.un n f) args = (callImpl f (argsImpl n args)).mapRes (resOf n) := by
  simp only [callImpl]
  rw [callImplT_un resultMode_ne_decays, callImplT_explicit resultMode_ne_decays]

theorem callImpl_compose1 (s g : FExpr) (args : List Val) :
    callImpl (.compose1 s g) args = (callImpl g args).andThen (fun v => callImpl s [v]) :=
  callImplT_compose1 resultMode_ne_decays s g false args

theorem callImpl_compose2 (s g1 g2 : FExpr) (args : List Val) :
    callImpl (.compose2 s g1 g2) args
      = (callImpl g1 args).andThen (fun v1 => (callImpl g2 args).andThen (fun v2 => callImpl s [v1, v2])) :=
  callImplT_compose2 resultMode_ne_decays s g1 g2 false args

theorem callImpl_exceptionCatch (f c : FExpr) (args : List Val) :
    callImpl (.exceptionCatch f c) args
      = (callImpl f args).orCatch c.handles (callImpl c []) :=
  callImplT_exceptionCatch resultMode_ne_decays f c false args

/-- `slot_call::call_it` (explicit template arguments) calls the functor like a direct call does -/
theorem callIt_eq (s : SlotM) (args : List Val) : callIt s args = (callImpl s.f args).mapRes (retConv s.ret) := by
  simp only [callIt, callImpl]
  rw [callImplT_explicit resultMode_ne_decays]

/-- for every result-forwarding table without a decaying row, the code equals the documentation — results
    included: a reference result is the reference to the same object -/
theorem callImplT_eq_callSpec (rm : ResSite → ResMode) (hrm : ∀ k, rm k ≠ .decays) (e : FExpr) :
    ∀ (ex : Bool) (args : List Val), wellTyped e args.length = true → callImplT rm e ex args = callSpec e args := by
  induction e with
  | leaf id ps ret thr => intro ex args _; rfl
  | vleaf id ret thr => intro ex args _; rfl
  | rleaf id ps c t thr => intro ex args _; rfl
  | pleaf id ps ret thr => intro ex args _; rfl
  | qleaf id ps ret thr => intro ex args _; rfl
  | pcatch id ret hs => intro ex args _; rfl
  | un n f ih =>
    intro ex args h
    simp only [wellTyped, Bool.and_eq_true] at h
    obtain ⟨h1, _⟩ := h
    cases hn : nodeArity n args.length with
    | none => simp [hn] at h1
    | some m =>
      simp only [hn] at h1
      have hs := argsImpl_eq_argsSpec n args (by simp [hn])
      have hl := argsSpec_length n args m hn
      rw [callImplT_un hrm]
      simp only [callSpec, hs]
      rw [ih _ (argsSpec n args) (by rw [hl]; exact h1)]
  | compose1 s g ihs ihg =>
    intro ex args h
    simp only [wellTyped, Bool.and_eq_true] at h
    rw [callImplT_compose1 hrm]
    simp only [callSpec]
    rw [ihg false args h.1]
    have : (fun v => callImplT rm s false [v]) = (fun v => callSpec s [v]) := by
      funext v; exact ihs false [v] h.2
    rw [this]
  | compose2 s g1 g2 ihs ih1 ih2 =>
    intro ex args h
    simp only [wellTyped, Bool.and_eq_true] at h
    rw [callImplT_compose2 hrm]
    simp only [callSpec]
    rw [ih1 false args h.1.1, ih2 false args h.1.2]
    have : (fun v1 => (callSpec g2 args).andThen (fun v2 => callImplT rm s false [v1, v2]))
         = (fun v1 => (callSpec g2 args).andThen (fun v2 => callSpec s [v1, v2])) := by
      funext v1
      have : (fun v2 => callImplT rm s false [v1, v2]) = (fun v2 => callSpec s [v1, v2]) := by
        funext v2; exact ihs false [v1, v2] h.2
      rw [this]
    rw [this]
  | exceptionCatch f c ihf ihc =>
    intro ex args h
    simp only [wellTyped, Bool.and_eq_true] at h
    rw [callImplT_exceptionCatch hrm]
    simp only [callSpec]
    rw [ihf false args h.1, ihc false [] h.2]

theorem callImpl_eq_callSpec (e : FExpr) (args : List Val) (h : wellTyped e args.length = true) :
    callImpl e args = callSpec e args :=
  callImplT_eq_callSpec resultMode resultMode_ne_decays e false args h

/-- `bind_return(f, std::ref(x))` returns the reference to `x`: nullary and n-ary, nested, as a getter -/
theorem bindReturn_ref_result (f : FExpr) (c : Bool) (t : Ty) (cell : Nat) (n : Int) :
    let br := FExpr.un (.bindReturn (.ref c t cell n)) f
    (∀ args v, (callImpl f args).res = .ok v → (callImpl br args).res = .ok (.ref c t cell n))
    ∧ (∀ v, (callImpl f []).res = .ok v → (callImpl br []).res = .ok (.ref c t cell n))
    ∧ (∀ nd : Node, nd.forwards = true → ∀ args v, (callImpl f (argsImpl nd args)).res = .ok v →
        (callImpl (.un nd br) args).res = .ok (.ref c t cell n))
    ∧ (∀ s args v, (callImpl f args).res = .ok v →
        (callImpl (.compose1 s br) args).res = (callImpl s [.ref c t cell n]).res) := by
  refine ⟨?_, ?_, ?_, ?_⟩
  · intro args v h; simp [callImpl_un, argsImpl, Outcome.mapRes, h, Res.map, resOf]
  · intro v h; simp [callImpl_un, argsImpl, Outcome.mapRes, h, Res.map, resOf]
  · intro nd hk args v h
    rw [callImpl_un, callImpl_un]
    have : argsImpl (.bindReturn (.ref c t cell n)) (argsImpl nd args) = argsImpl nd args := rfl
    simp only [this, Outcome.mapRes, h, Res.map, resOf]
    cases nd <;> simp [Node.forwards] at hk <;> rfl
  · intro s args v h
    simp [callImpl_compose1, callImpl_un, argsImpl, Outcome.andThen, Outcome.mapRes, h, Res.map, resOf]


/-! ### C11: generic facts -/

theorem thread_inv {α β : Type} (step : Heap → α → Heap × β) (Q : Heap → Prop) (A : α → Prop) (B : β → Prop)
    (hstep : ∀ h a, Q h → A a → Q (step h a).1 ∧ B (step h a).2) :
    ∀ (l : List α) (h : Heap), Q h → (∀ a ∈ l, A a) →
      Q (thread step h l).1 ∧ ∀ b ∈ (thread step h l).2, B b := by
  intro l
  induction l with
  | nil => intro h hq _; exact ⟨hq, by simp [thread]⟩
  | cons a as ih =>
    intro h hq hA
    have h1 := hstep h a hq (hA a (by simp))
    have h2 := ih (step h a).1 h1.1 (fun x hx => hA x (by simp [hx]))
    simp only [thread]
    refine ⟨h2.1, ?_⟩
    intro b hb
    simp only [List.mem_cons] at hb
    rcases hb with rfl | hb
    · exact h1.2
    · exact h2.2 b hb

theorem mem_gets {idx : List Nat} {l : List α} {x : α} (h : x ∈ gets idx l) : x ∈ l := by
  simp only [gets, List.mem_filterMap] at h
  obtain ⟨i, _, hi⟩ := h
  exact List.mem_of_getElem? hi

theorem mem_tupleStart {n : Nat} {l : List α} {x : α} (h : x ∈ tupleStart n l) : x ∈ l := mem_gets h

theorem mem_tupleCdr {l : List α} {x : α} (h : x ∈ tupleCdr l) : x ∈ l := mem_gets h

theorem mem_tupleEndFuel {fuel n : Nat} {l : List α} {x : α} (h : x ∈ tupleEndFuel fuel n l) : x ∈ l := by
  induction fuel generalizing l with
  | zero =>
    simp only [tupleEndFuel] at h
    split at h
    · simp at h
    · exact h
  | succ fuel ih =>
    simp only [tupleEndFuel] at h
    split at h
    · simp at h
    · split at h
      · exact h
      · split at h
        · exact mem_tupleCdr h
        · exact mem_tupleCdr (ih h)

theorem mem_tupleEnd {n : Nat} {l : List α} {x : α} (h : x ∈ tupleEnd n l) : x ∈ l := mem_tupleEndFuel h

theorem mem_zipWith {f : α → β → γ} {l1 : List α} {l2 : List β} {x : γ} (h : x ∈ List.zipWith f l1 l2) :
    ∃ a ∈ l1, ∃ b ∈ l2, x = f a b := by
  induction l1 generalizing l2 with
  | nil => simp at h
  | cons a as ih =>
    cases l2 with
    | nil => simp at h
    | cons b bs =>
      simp only [List.zipWith_cons_cons, List.mem_cons] at h
      rcases h with rfl | h
      · exact ⟨a, by simp, b, by simp, rfl⟩
      · obtain ⟨a', ha', b', hb', e⟩ := ih h
        exact ⟨a', by simp [ha'], b', by simp [hb'], e⟩

theorem mem_zip' {l1 : List α} {l2 : List β} {x : α × β} (h : x ∈ List.zip l1 l2) : x.1 ∈ l1 ∧ x.2 ∈ l2 := by
  have := mem_zipWith (f := Prod.mk) (by simpa [List.zip] using h)
  obtain ⟨a, ha, b, hb, e⟩ := this
  subst e
  exact ⟨ha, hb⟩

/-! ### C11: the identity / no-library-copy invariant -/

/-- an argument is either a stable reference that denotes the object it is designated to denote, or a fresh
    temporary (allocated after `n0`) produced by a documented by-value conversion -/
def ArgInv (n0 : Nat) (a : ARef) : Prop :=
  (a.cat.stable = true ∨ (n0 ≤ a.obj ∧ a.origin = none)) ∧ (∀ o, a.origin = some o → a.obj = o)

structure HeapInv (n0 : Nat) (hops0 : Nat → Nat) (h : Heap) : Prop where
  next_le : n0 ≤ h.next
  hops_eq : ∀ o, o < n0 → h.hops o = hops0 o
  log_ok : logOK h = true

theorem construct_inv {n0 hops0 h} (hop fc : Bool) (a : ARef) (hi : HeapInv n0 hops0 h)
    (ha : hop = false ∨ n0 ≤ a.obj) : HeapInv n0 hops0 (h.construct hop fc a) := by
  refine ⟨?_, ?_, ?_⟩
  · simp only [Heap.construct]; have := hi.next_le; omega
  · intro o ho
    simp only [Heap.construct]
    rcases ha with ha | ha
    · simp [ha, hi.hops_eq o ho]
    · have : o ≠ a.obj := by omega
      simp [this, hi.hops_eq o ho]
  · simpa [Heap.construct, logOK] using hi.log_ok

theorem stable_deduced {c : Cat} (h : c.stable = true) : c.deduced = c := by
  cases c <;> simp_all [Cat.stable, Cat.deduced]

theorem enterArg_fwd_inv {n0 hops0} (ex : Bool) (h : Heap) (a : ARef) (hi : HeapInv n0 hops0 h)
    (ha : ArgInv n0 a) :
    HeapInv n0 hops0 (enterArg .forwardingRef ex h a).1 ∧ ArgInv n0 (enterArg .forwardingRef ex h a).2 := by
  refine ⟨by simpa [enterArg] using hi, ?_⟩
  cases ex with
  | true => simpa [enterArg] using ha
  | false =>
    simp only [enterArg, Bool.false_eq_true, if_false]
    obtain ⟨h1, h2⟩ := ha
    refine ⟨?_, h2⟩
    rcases h1 with h1 | h1
    · left; simp [stable_deduced h1, h1]
    · right; exact h1

theorem tupleElem_inv {n0 hops0} (h : Heap) (a : ARef) (hi : HeapInv n0 hops0 h) (ha : ArgInv n0 a) :
    HeapInv n0 hops0 (tupleElem h a).1 ∧ ArgInv n0 (tupleElem h a).2 := by
  obtain ⟨h1, h2⟩ := ha
  cases hc : a.cat with
  | lv => simp only [tupleElem, hc]; exact ⟨hi, ⟨h1, h2⟩⟩
  | clv => simp only [tupleElem, hc]; exact ⟨hi, ⟨h1, h2⟩⟩
  | xvE =>
    simp only [tupleElem, hc]
    refine ⟨hi, ?_, h2⟩
    left; rfl
  | xvD =>
    simp only [tupleElem, hc]
    have hfresh : n0 ≤ a.obj ∧ a.origin = none := by
      rcases h1 with h1 | h1
      · simp [hc, Cat.stable] at h1
      · exact h1
    refine ⟨construct_inv true false a hi (Or.inr hfresh.1), ?_, ?_⟩
    · left; rfl
    · intro o ho; simp [hfresh.2] at ho

theorem castTo_inv {n0 hops0} (h : Heap) (ka : PK × ARef) (hi : HeapInv n0 hops0 h)
    (ha : ka.1 ≠ .rref ∧ ArgInv n0 ka.2) :
    HeapInv n0 hops0 (castTo h ka).1 ∧ ArgInv n0 (castTo h ka).2 := by
  obtain ⟨hk, h1, h2⟩ := ha
  cases hk' : ka.1 with
  | rref => exact absurd hk' hk
  | val =>
    simp only [castTo, hk']
    refine ⟨construct_inv false false ka.2 hi (Or.inl rfl), ?_, ?_⟩
    · right; exact ⟨hi.next_le, rfl⟩
    · intro o ho; simp at ho
  | cref =>
    simp only [castTo, hk']
    exact ⟨hi, Or.inl rfl, h2⟩
  | lref =>
    simp only [castTo, hk']
    refine ⟨hi, ?_, h2⟩
    left
    by_cases hc : ka.2.cat = .clv <;> simp [hc, Cat.stable]

theorem takeParam_inv {n0} (k : PK) (a : ARef) (hk : k ≠ .rref) (ha : ArgInv n0 a) : ArgInv n0 (takeParam k a) := by
  obtain ⟨h1, h2⟩ := ha
  cases k with
  | rref => exact absurd rfl hk
  | val => exact ⟨Or.inl rfl, h2⟩
  | cref => exact ⟨Or.inl rfl, h2⟩
  | lref => exact ⟨h1, h2⟩

theorem invoke_inv (n0 : Nat) (b : Bound) : ArgInv n0 b.invoke := by
  cases b <;> exact ⟨Or.inl rfl, by intro o ho; simp [Bound.invoke] at ho ⊢; exact ho⟩

theorem named_inv {n0} (a : ARef) (ha : ArgInv n0 a) : ArgInv n0 { a with cat := a.cat.named } := by
  obtain ⟨_, h2⟩ := ha
  refine ⟨Or.inl ?_, h2⟩
  cases a.cat <;> rfl

theorem thread_enter_inv {n0 hops0} (ex : Bool) (h : Heap) (args : List ARef) (hi : HeapInv n0 hops0 h)
    (ha : ∀ a ∈ args, ArgInv n0 a) :
    HeapInv n0 hops0 (thread (enterArg .forwardingRef ex) h args).1
      ∧ ∀ a ∈ (thread (enterArg .forwardingRef ex) h args).2, ArgInv n0 a :=
  thread_inv _ (HeapInv n0 hops0) (ArgInv n0) (ArgInv n0) (fun h a => enterArg_fwd_inv ex h a) args h hi ha

theorem passOn_inv {n0} (p : PassKind) (a : ARef) (ha : ArgInv n0 a) : ArgInv n0 (passOn p a) := by
  cases p with
  | forward => exact ha
  | named => exact named_inv a ha

theorem thread_enter_pass_inv {n0 hops0} (p : PassKind) (ex : Bool) (h : Heap) (args : List ARef)
    (hi : HeapInv n0 hops0 h) (ha : ∀ a ∈ args, ArgInv n0 a) :
    HeapInv n0 hops0 (thread (enterArg .forwardingRef ex) h args).1
      ∧ ∀ a ∈ (thread (enterArg .forwardingRef ex) h args).2.map (passOn p), ArgInv n0 a := by
  have e1 := thread_enter_inv ex h args hi ha
  refine ⟨e1.1, ?_⟩
  intro a hmem
  obtain ⟨a', ha', rfl⟩ := List.mem_map.mp hmem
  exact passOn_inv p a' (e1.2 a' ha')

theorem thread_tuple_inv {n0 hops0} (h : Heap) (args : List ARef) (hi : HeapInv n0 hops0 h)
    (ha : ∀ a ∈ args, ArgInv n0 a) :
    HeapInv n0 hops0 (thread tupleElem h args).1 ∧ ∀ a ∈ (thread tupleElem h args).2, ArgInv n0 a :=
  thread_inv _ (HeapInv n0 hops0) (ArgInv n0) (ArgInv n0) (fun h a => tupleElem_inv h a) args h hi ha

theorem mem_invokeEach {n0} {bs : List Bound} {x : ARef} (h : x ∈ invokeEach Bound.invoke bs) : ArgInv n0 x := by
  rw [invokeEach_eq_map] at h
  obtain ⟨b, _, rfl⟩ := List.mem_map.mp h
  exact invoke_inv n0 b

/-- every adaptor hop keeps the invariant: it allocates only temporaries, never copies a pre-existing object in a
    library call operator, and hands on arguments that still denote their designated objects -/
theorem args_inv {n0 hops0} (pk : AdaptorKind → ParamKind) (hpk : ∀ k, pk k = .forwardingRef)
    (ps : AdaptorKind → PassKind)
    (n : ONode) (ex : Bool) (h : Heap) (args : List ARef) (hn : n.noRRef = true)
    (hi : HeapInv n0 hops0 h) (ha : ∀ a ∈ args, ArgInv n0 a) :
    HeapInv n0 hops0 (n.args pk ps ex h args).1 ∧ ∀ a ∈ (n.args pk ps ex h args).2, ArgInv n0 a := by
  cases n with
  | slot sig =>
    simp only [ONode.args]
    refine ⟨hi, ?_⟩
    intro a hmem
    obtain ⟨k, hk, a', ha', rfl⟩ := mem_zipWith hmem
    refine takeParam_inv k a' ?_ (ha a' ha')
    intro hk'
    subst hk'
    simp [ONode.noRRef, hk] at hn
  | bind loc bs =>
    cases loc with
    | none =>
      simp only [ONode.args, hpk]
      have e1 := thread_enter_inv ex h args hi ha
      have e2 := thread_tuple_inv _ _ e1.1 e1.2
      refine ⟨e2.1, ?_⟩
      intro a hmem
      rcases List.mem_append.mp hmem with hm | hm
      · exact e2.2 a hm
      · exact mem_invokeEach hm
    | some i =>
      simp only [ONode.args, hpk]
      have e1 := thread_enter_inv ex h args hi ha
      have e2 := thread_tuple_inv _ _ e1.1 e1.2
      refine ⟨e2.1, ?_⟩
      intro a hmem
      rcases List.mem_append.mp hmem with hm | hm
      · rcases List.mem_append.mp hm with hm | hm
        · exact e2.2 a (mem_tupleStart hm)
        · exact mem_invokeEach hm
      · exact e2.2 a (mem_tupleEnd hm)
  | hide loc =>
    simp only [ONode.args, hpk]
    have e1 := thread_enter_inv ex h args hi ha
    have e2 := thread_tuple_inv _ _ e1.1 e1.2
    refine ⟨e2.1, ?_⟩
    intro a hmem
    rcases List.mem_append.mp hmem with hm | hm
    · exact e2.2 a (mem_tupleStart hm)
    · exact e2.2 a (mem_tupleEnd hm)
  | retype tys =>
    simp only [ONode.args, hpk]
    have e1 := thread_enter_inv ex h args hi ha
    refine thread_inv castTo (HeapInv n0 hops0) (fun ka => ka.1 ≠ .rref ∧ ArgInv n0 ka.2) (ArgInv n0)
      (fun h ka => castTo_inv h ka) _ _ e1.1 ?_
    intro ka hka
    have := mem_zip' hka
    refine ⟨?_, e1.2 _ this.2⟩
    intro hk
    rw [hk] at this
    simp [ONode.noRRef, this.1] at hn
  | retypeReturn => simp only [ONode.args, hpk]; exact thread_enter_pass_inv _ ex h args hi ha
  | hideReturn => simp only [ONode.args, hpk]; exact thread_enter_pass_inv _ ex h args hi ha
  | bindReturn v => simp only [ONode.args, hpk]; exact thread_enter_pass_inv _ ex h args hi ha
  | exceptionCatch => simp only [ONode.args, hpk]; exact thread_enter_pass_inv _ ex h args hi ha
  | trackObj => simp only [ONode.args, hpk]; exact thread_enter_pass_inv _ ex h args hi ha
  | compose1 sid => simp only [ONode.args, hpk]; exact thread_enter_pass_inv _ ex h args hi ha

/-! ### C11: the target -/

def LParamOK (p : LParam) : Prop := ∀ o, p.origin = some o → p.src = o

def ObjInv (a : ARef) : Prop := ∀ o, a.origin = some o → a.obj = o

theorem leafInit_inv {n0 hops0} (ptr : Bool) (h : Heap) (ka : PK × ARef) (hi : HeapInv n0 hops0 h)
    (ha : ObjInv ka.2) :
    HeapInv n0 hops0 (leafInit ptr h ka).1 ∧ LParamOK (leafInit ptr h ka).2 := by
  cases hk : ka.1 <;> simp only [leafInit, hk]
  · exact ⟨construct_inv false ptr ka.2 hi (Or.inl rfl), ha⟩
  · exact ⟨hi, ha⟩
  · exact ⟨hi, ha⟩
  · exact ⟨hi, ha⟩

theorem set_inv {n0 hops0 h} (o : Nat) (v : Int) (hi : HeapInv n0 hops0 h) : HeapInv n0 hops0 (h.set o v) :=
  ⟨hi.next_le, hi.hops_eq, by simpa [Heap.set, logOK] using hi.log_ok⟩

theorem leafBody_inv {n0 hops0} (id : Nat) (lps : List LParam) :
    ∀ (pos : Nat) (h : Heap), HeapInv n0 hops0 h → (∀ p ∈ lps, LParamOK p) →
      HeapInv n0 hops0 (leafBody id pos lps h).1 ∧ (leafBody id pos lps h).2.all Param.ok = true := by
  induction lps with
  | nil => intro pos h hi _; exact ⟨hi, rfl⟩
  | cons p ps ih =>
    intro pos h hi hp
    simp only [leafBody]
    have hi1 : HeapInv n0 hops0 (if p.writable then h.set p.recv (mutate id pos (h.val p.recv)) else h) := by
      split
      · exact set_inv _ _ hi
      · exact hi
    have := ih (pos + 1) _ hi1 (fun q hq => hp q (by simp [hq]))
    refine ⟨this.1, ?_⟩
    simp only [List.all_cons, this.2, Bool.and_true]
    have hpo := hp p (by simp)
    simp only [Param.ok]
    cases ho : p.origin with
    | none => rfl
    | some o => simp [hpo o ho]

theorem leafRun_inv {n0 hops0} (id : Nat) (ptr : Bool) (ps : List PK) (retv : Bool) (args : List ARef) (h : Heap)
    (hi : HeapInv n0 hops0 h) (ha : ∀ a ∈ args, ObjInv a) :
    HeapInv n0 hops0 (leafRun id ptr ps retv args h).1 := by
  simp only [leafRun]
  have e1 := thread_inv (leafInit ptr) (HeapInv n0 hops0) (fun ka => ObjInv ka.2) LParamOK
    (fun h ka => leafInit_inv ptr h ka) (List.zip ps args) h hi (fun ka hka => ha _ (mem_zip' hka).2)
  have e2 := leafBody_inv id _ 0 _ e1.1 e1.2
  refine ⟨e2.1.next_le, e2.1.hops_eq, ?_⟩
  have := e2.1.log_ok
  simp only [logOK, List.all_append, List.all_cons, List.all_nil, Bool.and_true, Bool.and_eq_true] at this ⊢
  exact ⟨this, by simpa [Rec.ok] using e2.2⟩

/-- the invariant holds along the whole invocation of any functor expression -/
theorem callO_inv {n0 hops0} (pk : AdaptorKind → ParamKind) (hpk : ∀ k, pk k = .forwardingRef)
    (ps : AdaptorKind → PassKind) (e : OExpr) :
    ∀ (ex : Bool) (args : List ARef) (h : Heap), e.noRRef = true → HeapInv n0 hops0 h →
      (∀ a ∈ args, ArgInv n0 a) → HeapInv n0 hops0 (callO pk ps e ex args h).1 := by
  induction e with
  | leaf id ptr pks retv =>
    intro ex args h _ hi ha
    simp only [callO, hpk]
    have e1 := thread_enter_pass_inv (ps .adaptorFunctor) ex h args hi ha
    exact leafRun_inv id ptr pks retv _ _ e1.1 (fun a hm => (e1.2 a hm).2)
  | mleaf id der cm pks retv =>
    intro ex args h _ hi ha
    simp only [callO, hpk]
    have e1 := thread_enter_pass_inv (ps .adaptorFunctor) ex h args hi ha
    have e2 := thread_enter_inv false _ (List.take 1 ((thread (enterArg .forwardingRef ex) h args).2.map (passOn (ps .adaptorFunctor)))) e1.1
      (fun a hm => e1.2 a (List.mem_of_mem_take hm))
    refine leafRun_inv id true _ retv _ _ e2.1 ?_
    intro a hm
    rcases List.mem_append.mp hm with hm | hm
    · exact (e2.2 a hm).2
    · exact (e1.2 a (List.mem_of_mem_drop hm)).2
  | un n f ih =>
    intro ex args h hn hi ha
    simp only [OExpr.noRRef, Bool.and_eq_true] at hn
    simp only [callO]
    have e1 := args_inv pk hpk ps n ex h args hn.1 hi ha
    exact ih _ _ _ hn.2 e1.1 e1.2
  | compose2 sid g1 g2 ih1 ih2 =>
    intro ex args h hn hi ha
    simp only [OExpr.noRRef, Bool.and_eq_true] at hn
    simp only [callO, hpk]
    have e1 := thread_enter_pass_inv (ps .compose2) ex h args hi ha
    have hnamed := e1.2
    have e1 := e1.1
    have o1 := ih1 false _ _ hn.1 e1 hnamed
    split
    · exact o1
    · exact ih2 false _ _ hn.2 o1 hnamed

/-! ### emit loops -/

theorem emitLoop_inv {σ S ρ : Type} (Q : S → Prop) (callable : σ → Bool) (call : σ → S → S × Res ρ)
    (slots : List σ) (hcall : ∀ sl ∈ slots, ∀ s, Q s → Q (call sl s).1) :
    ∀ (s : S) (r : ρ), Q s → Q (emitLoop callable call slots s r).1 := by
  induction slots with
  | nil => intro s r hq; exact hq
  | cons sl rest ih =>
    intro s r hq
    have ih' := ih (fun x hx => hcall x (by simp [hx]))
    simp only [emitLoop]
    split
    · have h1 := hcall sl (by simp) s hq
      split
      · rename_i s' r' heq
        rw [heq] at h1
        exact ih' s' r' h1
      · rename_i s' heq
        rw [heq] at h1
        exact h1
    · exact ih' s r hq

theorem emitVoid_inv {σ S ρ : Type} (Q : S → Prop) (callable : σ → Bool) (call : σ → S → S × Res ρ)
    (slots : List σ) (hcall : ∀ sl ∈ slots, ∀ s, Q s → Q (call sl s).1) :
    ∀ (s : S), Q s → Q (emitVoid callable call slots s).1 := by
  induction slots with
  | nil => intro s hq; exact hq
  | cons sl rest ih =>
    intro s hq
    have ih' := ih (fun x hx => hcall x (by simp [hx]))
    simp only [emitVoid]
    split
    · have h1 := hcall sl (by simp) s hq
      split
      · rename_i s' r' heq
        rw [heq] at h1
        exact ih' s' h1
      · rename_i s' heq
        rw [heq] at h1
        exact h1
    · exact ih' s hq

theorem emitLoop_dropWhile {σ S ρ : Type} (callable : σ → Bool) (call : σ → S → S × Res ρ) (slots : List σ)
    (s : S) (r : ρ) :
    emitLoop callable call slots s r = emitLoop callable call (slots.dropWhile (fun sl => !callable sl)) s r := by
  induction slots with
  | nil => rfl
  | cons sl rest ih =>
    by_cases hc : callable sl = true
    · simp [List.dropWhile, hc]
    · have hc' : callable sl = false := by simpa using hc
      simp only [List.dropWhile, hc', Bool.not_false]
      rw [← ih]
      simp [emitLoop, hc']

theorem dropWhile_head {p : α → Bool} {l : List α} {x : α} {xs : List α} (h : l.dropWhile p = x :: xs) :
    p x = false := by
  induction l with
  | nil => simp at h
  | cons a as ih =>
    by_cases hp : p a = true
    · simp [List.dropWhile, hp] at h; exact ih h
    · have hp' : p a = false := by simpa using hp
      simp [List.dropWhile, hp'] at h
      rw [← h.1]; exact hp'

/-- the two-phase loop of `signal_emit<R,void>::emit` (find the first callable slot, then the rest) is the plain
    loop started with `T_return()` -/
theorem emitValue_eq_loop {σ S ρ : Type} (callable : σ → Bool) (call : σ → S → S × Res ρ) (dflt : ρ)
    (slots : List σ) (s : S) :
    emitValue callable call dflt slots s = emitLoop callable call slots s dflt := by
  cases slots with
  | nil => rfl
  | cons a as =>
    rw [emitLoop_dropWhile]
    simp only [emitValue, List.isEmpty_cons, Bool.false_eq_true, if_false]
    cases hd : List.dropWhile (fun sl => !callable sl) (a :: as) with
    | nil => rfl
    | cons first rest =>
      have hf := dropWhile_head hd
      have hf' : callable first = true := by simpa using hf
      simp only [emitLoop, hf', if_true]

theorem emitLoop_append {σ S ρ : Type} (callable : σ → Bool) (call : σ → S → S × Res ρ) (l1 l2 : List σ) :
    ∀ (s : S) (r : ρ) (s' : S) (r' : ρ), emitLoop callable call l1 s r = (s', .ok r') →
      emitLoop callable call (l1 ++ l2) s r = emitLoop callable call l2 s' r' := by
  induction l1 with
  | nil =>
    intro s r s' r' h
    simp only [emitLoop, Prod.mk.injEq, Res.ok.injEq] at h
    obtain ⟨rfl, rfl⟩ := h
    rfl
  | cons sl rest ih =>
    intro s r s' r' h
    simp only [List.cons_append, emitLoop] at h ⊢
    split
    · rename_i hc
      simp only [hc, if_true] at h
      split
      · rename_i s1 r1 heq
        simp only [heq] at h
        exact ih s1 r1 s' r' h
      · rename_i s1 heq
        simp [heq] at h
    · rename_i hc
      simp only [hc] at h
      exact ih s r s' r' h

theorem emitLoop_skip {σ S ρ : Type} (callable : σ → Bool) (call : σ → S → S × Res ρ) (l : List σ)
    (hl : ∀ sl ∈ l, callable sl = false) (s : S) (r : ρ) : emitLoop callable call l s r = (s, .ok r) := by
  induction l with
  | nil => rfl
  | cons sl rest ih =>
    simp only [emitLoop, hl sl (by simp)]
    exact ih (fun x hx => hl x (by simp [hx]))

/-- the value emission returns exactly what the last callable slot returned (state and result) -/
theorem emitValue_last {σ S ρ : Type} (callable : σ → Bool) (call : σ → S → S × Res ρ) (dflt : ρ)
    (pre : List σ) (last : σ) (post : List σ) (s s' : S) (r' : ρ)
    (hl : callable last = true) (hpost : ∀ sl ∈ post, callable sl = false)
    (hpre : emitValue callable call dflt pre s = (s', .ok r')) :
    emitValue callable call dflt (pre ++ last :: post) s = call last s' := by
  rw [emitValue_eq_loop] at hpre ⊢
  rw [emitLoop_append callable call pre (last :: post) s dflt s' r' hpre]
  simp only [emitLoop, hl, if_true]
  cases hc : call last s' with
  | mk s2 res =>
    cases res with
    | threw => rfl
    | ok r2 => simp only []; exact emitLoop_skip callable call post hpost s2 r2

/-! ### C11: frame — an object reachable only through const paths is never written -/

def NoW (o : Nat) (a : ARef) : Prop := a.cat ≠ .clv → a.obj ≠ o

structure Frame (o : Nat) (v : Int) (h : Heap) : Prop where
  lt : o < h.next
  val : h.val o = v

theorem construct_frame {o v h} (hop fc : Bool) (a : ARef) (hf : Frame o v h) (ha : NoW o a) :
    Frame o v (h.construct hop fc a) := by
  refine ⟨by simp only [Heap.construct]; have := hf.lt; omega, ?_⟩
  simp only [Heap.construct]
  have h1 : o ≠ h.next := by have := hf.lt; omega
  simp only [h1, if_false]
  by_cases hs : a.cat.stable = true
  · simp [hs, hf.val]
  · have hc : a.cat ≠ .clv := by
      intro hc; rw [hc] at hs; exact hs rfl
    have : o ≠ a.obj := fun e => ha hc e.symm
    simp [this, hf.val]

theorem enterArg_fwd_frame {o v} (ex : Bool) (h : Heap) (a : ARef) (hf : Frame o v h) (ha : NoW o a) :
    Frame o v (enterArg .forwardingRef ex h a).1 ∧ NoW o (enterArg .forwardingRef ex h a).2 := by
  refine ⟨by simpa [enterArg] using hf, ?_⟩
  cases ex with
  | true => simpa [enterArg] using ha
  | false =>
    simp only [enterArg, Bool.false_eq_true, if_false]
    intro hc
    apply ha
    intro hc'
    apply hc
    simp [hc', Cat.deduced]

theorem tupleElem_frame {o v} (h : Heap) (a : ARef) (hf : Frame o v h) (ha : NoW o a) :
    Frame o v (tupleElem h a).1 ∧ NoW o (tupleElem h a).2 := by
  cases hc : a.cat with
  | lv => simp only [tupleElem, hc]; exact ⟨hf, ha⟩
  | clv => simp only [tupleElem, hc]; exact ⟨hf, ha⟩
  | xvE =>
    simp only [tupleElem, hc]
    exact ⟨hf, fun _ => ha (by simp [hc])⟩
  | xvD =>
    simp only [tupleElem, hc]
    exact ⟨construct_frame true false a hf ha, fun hne => absurd rfl hne⟩

theorem castTo_frame {o v} (h : Heap) (ka : PK × ARef) (hf : Frame o v h) (ha : NoW o ka.2) :
    Frame o v (castTo h ka).1 ∧ NoW o (castTo h ka).2 := by
  cases hk : ka.1 with
  | val =>
    simp only [castTo, hk]
    refine ⟨construct_frame false false ka.2 hf ha, ?_⟩
    intro _
    have := hf.lt
    simp only
    omega
  | cref => simp only [castTo, hk]; exact ⟨hf, fun hne => absurd rfl hne⟩
  | lref =>
    simp only [castTo, hk]
    refine ⟨hf, ?_⟩
    by_cases hc : ka.2.cat = .clv
    · simp only [hc, if_true]; exact fun hne => absurd rfl hne
    · simp only [hc, if_false]; exact fun _ => ha hc
  | rref =>
    simp only [castTo, hk]
    refine ⟨hf, ?_⟩
    by_cases hc : ka.2.cat = .clv
    · simp only [hc, if_true]; exact ha
    · simp only [hc, if_false]; exact fun _ => ha hc

theorem takeParam_frame {o} (k : PK) (a : ARef) (ha : NoW o a) : NoW o (takeParam k a) := by
  cases k with
  | val => exact fun hne => absurd rfl hne
  | cref => exact fun hne => absurd rfl hne
  | lref => exact ha
  | rref =>
    simp only [takeParam]
    by_cases hc : a.cat = .clv
    · simp only [hc, if_true]; exact ha
    · simp only [hc, if_false]; exact fun _ => ha hc

theorem named_frame {o} (a : ARef) (ha : NoW o a) : NoW o { a with cat := a.cat.named } := by
  intro hc
  apply ha
  intro hc'
  apply hc
  simp [hc', Cat.named]

theorem invoke_frame {o} (b : Bound) (hb : o ∉ b.mutObj) : NoW o b.invoke := by
  cases b with
  | byVal s => intro _ e; apply hb; simp [Bound.mutObj, Bound.invoke] at e ⊢; exact e.symm
  | byRef o' => intro _ e; apply hb; simp [Bound.mutObj, Bound.invoke] at e ⊢; exact e.symm
  | byCRef o' => intro hc; simp [Bound.invoke] at hc

theorem thread_enter_frame {o v} (ex : Bool) (h : Heap) (args : List ARef) (hf : Frame o v h)
    (ha : ∀ a ∈ args, NoW o a) :
    Frame o v (thread (enterArg .forwardingRef ex) h args).1
      ∧ ∀ a ∈ (thread (enterArg .forwardingRef ex) h args).2, NoW o a :=
  thread_inv _ (Frame o v) (NoW o) (NoW o) (fun h a => enterArg_fwd_frame ex h a) args h hf ha

theorem passOn_frame {o} (p : PassKind) (a : ARef) (ha : NoW o a) : NoW o (passOn p a) := by
  cases p with
  | forward => exact ha
  | named => exact named_frame a ha

theorem thread_enter_pass_frame {o v} (p : PassKind) (ex : Bool) (h : Heap) (args : List ARef) (hf : Frame o v h)
    (ha : ∀ a ∈ args, NoW o a) :
    Frame o v (thread (enterArg .forwardingRef ex) h args).1
      ∧ ∀ a ∈ (thread (enterArg .forwardingRef ex) h args).2.map (passOn p), NoW o a := by
  have e1 := thread_enter_frame ex h args hf ha
  refine ⟨e1.1, ?_⟩
  intro a hmem
  obtain ⟨a', ha', rfl⟩ := List.mem_map.mp hmem
  exact passOn_frame p a' (e1.2 a' ha')

theorem thread_tuple_frame {o v} (h : Heap) (args : List ARef) (hf : Frame o v h) (ha : ∀ a ∈ args, NoW o a) :
    Frame o v (thread tupleElem h args).1 ∧ ∀ a ∈ (thread tupleElem h args).2, NoW o a :=
  thread_inv _ (Frame o v) (NoW o) (NoW o) (fun h a => tupleElem_frame h a) args h hf ha

def ONode.boundMut : ONode → List Nat
  | .bind _ bs => bs.flatMap Bound.mutObj
  | _ => []

theorem mem_invokeEach_frame {o} {bs : List Bound} {x : ARef} (hb : o ∉ bs.flatMap Bound.mutObj)
    (h : x ∈ invokeEach Bound.invoke bs) : NoW o x := by
  rw [invokeEach_eq_map] at h
  obtain ⟨b, hbm, rfl⟩ := List.mem_map.mp h
  apply invoke_frame
  intro hm
  apply hb
  exact List.mem_flatMap.mpr ⟨b, hbm, hm⟩

theorem args_frame {o v} (pk : AdaptorKind → ParamKind) (hpk : ∀ k, pk k = .forwardingRef)
    (ps : AdaptorKind → PassKind)
    (n : ONode) (ex : Bool) (h : Heap) (args : List ARef) (hb : o ∉ n.boundMut)
    (hf : Frame o v h) (ha : ∀ a ∈ args, NoW o a) :
    Frame o v (n.args pk ps ex h args).1 ∧ ∀ a ∈ (n.args pk ps ex h args).2, NoW o a := by
  cases n with
  | slot sig =>
    simp only [ONode.args]
    refine ⟨hf, ?_⟩
    intro a hmem
    obtain ⟨k, _, a', ha', rfl⟩ := mem_zipWith hmem
    exact takeParam_frame k a' (ha a' ha')
  | bind loc bs =>
    simp only [ONode.boundMut] at hb
    cases loc with
    | none =>
      simp only [ONode.args, hpk]
      have e1 := thread_enter_frame ex h args hf ha
      have e2 := thread_tuple_frame _ _ e1.1 e1.2
      refine ⟨e2.1, ?_⟩
      intro a hmem
      rcases List.mem_append.mp hmem with hm | hm
      · exact e2.2 a hm
      · exact mem_invokeEach_frame hb hm
    | some i =>
      simp only [ONode.args, hpk]
      have e1 := thread_enter_frame ex h args hf ha
      have e2 := thread_tuple_frame _ _ e1.1 e1.2
      refine ⟨e2.1, ?_⟩
      intro a hmem
      rcases List.mem_append.mp hmem with hm | hm
      · rcases List.mem_append.mp hm with hm | hm
        · exact e2.2 a (mem_tupleStart hm)
        · exact mem_invokeEach_frame hb hm
      · exact e2.2 a (mem_tupleEnd hm)
  | hide loc =>
    simp only [ONode.args, hpk]
    have e1 := thread_enter_frame ex h args hf ha
    have e2 := thread_tuple_frame _ _ e1.1 e1.2
    refine ⟨e2.1, ?_⟩
    intro a hmem
    rcases List.mem_append.mp hmem with hm | hm
    · exact e2.2 a (mem_tupleStart hm)
    · exact e2.2 a (mem_tupleEnd hm)
  | retype tys =>
    simp only [ONode.args, hpk]
    have e1 := thread_enter_frame ex h args hf ha
    exact thread_inv castTo (Frame o v) (fun ka => NoW o ka.2) (NoW o)
      (fun h ka => castTo_frame h ka) _ _ e1.1 (fun ka hka => e1.2 _ (mem_zip' hka).2)
  | retypeReturn => simp only [ONode.args, hpk]; exact thread_enter_pass_frame _ ex h args hf ha
  | hideReturn => simp only [ONode.args, hpk]; exact thread_enter_pass_frame _ ex h args hf ha
  | bindReturn v => simp only [ONode.args, hpk]; exact thread_enter_pass_frame _ ex h args hf ha
  | exceptionCatch => simp only [ONode.args, hpk]; exact thread_enter_pass_frame _ ex h args hf ha
  | trackObj => simp only [ONode.args, hpk]; exact thread_enter_pass_frame _ ex h args hf ha
  | compose1 sid => simp only [ONode.args, hpk]; exact thread_enter_pass_frame _ ex h args hf ha

def LParamNoW (o : Nat) (p : LParam) : Prop := p.writable = true → p.recv ≠ o

theorem leafInit_frame {o v} (ptr : Bool) (h : Heap) (ka : PK × ARef) (hf : Frame o v h) (ha : NoW o ka.2) :
    Frame o v (leafInit ptr h ka).1 ∧ LParamNoW o (leafInit ptr h ka).2 := by
  cases hk : ka.1 <;> simp only [leafInit, hk]
  · refine ⟨construct_frame false ptr ka.2 hf ha, ?_⟩
    intro _
    have := hf.lt
    simp only
    omega
  · refine ⟨hf, ?_⟩
    intro hw
    simp only [bne_iff_ne, ne_eq] at hw
    exact ha hw
  · exact ⟨hf, fun hw => by simp at hw⟩
  · refine ⟨hf, ?_⟩
    intro hw
    simp only [bne_iff_ne, ne_eq] at hw
    exact ha hw

theorem leafBody_frame {o v} (id : Nat) (lps : List LParam) :
    ∀ (pos : Nat) (h : Heap), Frame o v h → (∀ p ∈ lps, LParamNoW o p) → Frame o v (leafBody id pos lps h).1 := by
  induction lps with
  | nil => intro pos h hf _; exact hf
  | cons p ps ih =>
    intro pos h hf hp
    simp only [leafBody]
    apply ih
    · split
      · rename_i hw
        have := hp p (by simp) hw
        refine ⟨hf.lt, ?_⟩
        simp only [Heap.set]
        rw [if_neg (fun e => this e.symm)]
        exact hf.val
      · exact hf
    · exact fun q hq => hp q (by simp [hq])

theorem leafRun_frame {o v} (id : Nat) (ptr : Bool) (ps : List PK) (retv : Bool) (args : List ARef) (h : Heap)
    (hf : Frame o v h) (ha : ∀ a ∈ args, NoW o a) : Frame o v (leafRun id ptr ps retv args h).1 := by
  simp only [leafRun]
  have e1 := thread_inv (leafInit ptr) (Frame o v) (fun ka => NoW o ka.2) (LParamNoW o)
    (fun h ka => leafInit_frame ptr h ka) (List.zip ps args) h hf (fun ka hka => ha _ (mem_zip' hka).2)
  have e2 := leafBody_frame id _ 0 _ e1.1 e1.2
  exact ⟨e2.lt, e2.val⟩

theorem boundMut_un (n : ONode) (f : OExpr) : (OExpr.un n f).boundMut = n.boundMut ++ f.boundMut := by
  cases n <;> simp [OExpr.boundMut, ONode.boundMut]

theorem callO_frame {o v} (pk : AdaptorKind → ParamKind) (hpk : ∀ k, pk k = .forwardingRef)
    (ps : AdaptorKind → PassKind) (e : OExpr) :
    ∀ (ex : Bool) (args : List ARef) (h : Heap), o ∉ e.boundMut → Frame o v h →
      (∀ a ∈ args, NoW o a) → Frame o v (callO pk ps e ex args h).1 := by
  induction e with
  | leaf id ptr pks retv =>
    intro ex args h _ hf ha
    simp only [callO, hpk]
    have e1 := thread_enter_pass_frame (ps .adaptorFunctor) ex h args hf ha
    exact leafRun_frame id ptr pks retv _ _ e1.1 e1.2
  | mleaf id der cm pks retv =>
    intro ex args h _ hf ha
    simp only [callO, hpk]
    have e1 := thread_enter_pass_frame (ps .adaptorFunctor) ex h args hf ha
    have e2 := thread_enter_frame false _ (List.take 1 ((thread (enterArg .forwardingRef ex) h args).2.map (passOn (ps .adaptorFunctor)))) e1.1
      (fun a hm => e1.2 a (List.mem_of_mem_take hm))
    refine leafRun_frame id true _ retv _ _ e2.1 ?_
    intro a hm
    rcases List.mem_append.mp hm with hm | hm
    · exact e2.2 a hm
    · exact e1.2 a (List.mem_of_mem_drop hm)
  | un n f ih =>
    intro ex args h hb hf ha
    rw [boundMut_un] at hb
    simp only [List.mem_append, not_or] at hb
    simp only [callO]
    have e1 := args_frame pk hpk ps n ex h args hb.1 hf ha
    exact ih _ _ _ hb.2 e1.1 e1.2
  | compose2 sid g1 g2 ih1 ih2 =>
    intro ex args h hb hf ha
    simp only [OExpr.boundMut, List.mem_append, not_or] at hb
    simp only [callO, hpk]
    have e1 := thread_enter_pass_frame (ps .compose2) ex h args hf ha
    have hnamed := e1.2
    have o1 := ih1 false _ _ hb.1 e1.1 hnamed
    split
    · exact o1
    · exact ih2 false _ _ hb.2 o1 hnamed

/-! ### C11: `T&&` through forwarding call operators only -/

theorem enterArg_fwd_obj {n0 hops0} (ex : Bool) (h : Heap) (a : ARef) (hi : HeapInv n0 hops0 h) (ha : ObjInv a) :
    HeapInv n0 hops0 (enterArg .forwardingRef ex h a).1 ∧ ObjInv (enterArg .forwardingRef ex h a).2 := by
  refine ⟨by simpa [enterArg] using hi, ?_⟩
  cases ex <;> simpa [enterArg, ObjInv] using ha

theorem thread_enter_obj {n0 hops0} (ex : Bool) (h : Heap) (args : List ARef) (hi : HeapInv n0 hops0 h)
    (ha : ∀ a ∈ args, ObjInv a) :
    HeapInv n0 hops0 (thread (enterArg .forwardingRef ex) h args).1
      ∧ ∀ a ∈ (thread (enterArg .forwardingRef ex) h args).2, ObjInv a :=
  thread_inv _ (HeapInv n0 hops0) ObjInv ObjInv (fun h a => enterArg_fwd_obj ex h a) args h hi ha

theorem passOn_obj (p : PassKind) (a : ARef) (ha : ObjInv a) : ObjInv (passOn p a) := by
  cases p <;> exact ha

theorem thread_enter_pass_obj {n0 hops0} (p : PassKind) (ex : Bool) (h : Heap) (args : List ARef)
    (hi : HeapInv n0 hops0 h) (ha : ∀ a ∈ args, ObjInv a) :
    HeapInv n0 hops0 (thread (enterArg .forwardingRef ex) h args).1
      ∧ ∀ a ∈ (thread (enterArg .forwardingRef ex) h args).2.map (passOn p), ObjInv a := by
  have e1 := thread_enter_obj ex h args hi ha
  refine ⟨e1.1, ?_⟩
  intro a hmem
  obtain ⟨a', ha', rfl⟩ := List.mem_map.mp hmem
  exact passOn_obj p a' (e1.2 a' ha')

theorem callO_fwd_inv {n0 hops0} (pk : AdaptorKind → ParamKind) (hpk : ∀ k, pk k = .forwardingRef)
    (ps : AdaptorKind → PassKind) (e : OExpr) :
    ∀ (ex : Bool) (args : List ARef) (h : Heap), e.fwdOnly = true → HeapInv n0 hops0 h →
      (∀ a ∈ args, ObjInv a) → HeapInv n0 hops0 (callO pk ps e ex args h).1 := by
  induction e with
  | leaf id ptr pks retv =>
    intro ex args h _ hi ha
    simp only [callO, hpk]
    have e1 := thread_enter_pass_obj (ps .adaptorFunctor) ex h args hi ha
    exact leafRun_inv id ptr pks retv _ _ e1.1 e1.2
  | mleaf id der cm pks retv =>
    intro ex args h _ hi ha
    simp only [callO, hpk]
    have e1 := thread_enter_pass_obj (ps .adaptorFunctor) ex h args hi ha
    have e2 := thread_enter_obj false _ (List.take 1 ((thread (enterArg .forwardingRef ex) h args).2.map (passOn (ps .adaptorFunctor)))) e1.1
      (fun a hm => e1.2 a (List.mem_of_mem_take hm))
    refine leafRun_inv id true _ retv _ _ e2.1 ?_
    intro a hm
    rcases List.mem_append.mp hm with hm | hm
    · exact e2.2 a hm
    · exact e1.2 a (List.mem_of_mem_drop hm)
  | un n f ih =>
    intro ex args h hn hi ha
    simp only [OExpr.fwdOnly, Bool.and_eq_true] at hn
    simp only [callO]
    have e1 : HeapInv n0 hops0 (n.args pk ps ex h args).1 ∧ ∀ a ∈ (n.args pk ps ex h args).2, ObjInv a := by
      cases n <;> simp [ONode.fwd] at hn <;> simp only [ONode.args, hpk] <;>
        exact thread_enter_pass_obj _ ex h args hi ha
    exact ih _ _ _ hn.2 e1.1 e1.2
  | compose2 sid g1 g2 ih1 ih2 =>
    intro ex args h hn hi ha
    simp only [OExpr.fwdOnly, Bool.and_eq_true] at hn
    simp only [callO, hpk]
    have e1 := thread_enter_pass_obj (ps .compose2) ex h args hi ha
    have hnamed := e1.2
    have o1 := ih1 false _ _ hn.1 e1.1 hnamed
    split
    · exact o1
    · exact ih2 false _ _ hn.2 o1 hnamed

/-! ### C11: the arguments of `compose(s, g1, g2)` are consumed by nobody

  `Keep`: every object that existed before the call still has its value and has not been moved from.  It is kept by
  every call operator as long as an rvalue argument only ever denotes a temporary made during the call (`Safe`), which
  is what the `named` row of `passKind` for `compose2` establishes for both getters. -/

def Safe (n0 : Nat) (a : ARef) : Prop := a.cat.stable = true ∨ n0 ≤ a.obj

structure Keep (n0 : Nat) (v0 : Nat → Int) (m0 : Nat → Nat) (h : Heap) : Prop where
  next_le : n0 ≤ h.next
  val_eq : ∀ o, o < n0 → h.val o = v0 o
  moves_eq : ∀ o, o < n0 → h.moves o = m0 o

theorem construct_keep {n0 v0 m0 h} (hop fc : Bool) (a : ARef) (hk : Keep n0 v0 m0 h) (ha : Safe n0 a) :
    Keep n0 v0 m0 (h.construct hop fc a) := by
  have hle := hk.next_le
  refine ⟨by simp only [Heap.construct]; omega, ?_, ?_⟩
  · intro o ho
    have h1 : o ≠ h.next := by omega
    simp only [Heap.construct, h1, if_false]
    by_cases hs : a.cat.stable = true
    · simp [hs, hk.val_eq o ho]
    · have : o ≠ a.obj := by
        rcases ha with ha | ha
        · exact absurd ha hs
        · omega
      simp [this, hk.val_eq o ho]
  · intro o ho
    simp only [Heap.construct]
    by_cases hs : a.cat.stable = true
    · simp [hs, hk.moves_eq o ho]
    · have : o ≠ a.obj := by
        rcases ha with ha | ha
        · exact absurd ha hs
        · omega
      simp [this, hk.moves_eq o ho]

theorem enterArg_fwd_keep {n0 v0 m0} (ex : Bool) (h : Heap) (a : ARef) (hk : Keep n0 v0 m0 h) (ha : Safe n0 a) :
    Keep n0 v0 m0 (enterArg .forwardingRef ex h a).1 ∧ Safe n0 (enterArg .forwardingRef ex h a).2 := by
  refine ⟨by simpa [enterArg] using hk, ?_⟩
  cases ex with
  | true => simpa [enterArg] using ha
  | false =>
    simp only [enterArg, Bool.false_eq_true, if_false]
    rcases ha with ha | ha
    · left; simp [stable_deduced ha, ha]
    · right; exact ha

theorem tupleElem_keep {n0 v0 m0} (h : Heap) (a : ARef) (hk : Keep n0 v0 m0 h) (ha : Safe n0 a) :
    Keep n0 v0 m0 (tupleElem h a).1 ∧ Safe n0 (tupleElem h a).2 := by
  cases hc : a.cat with
  | lv => simp only [tupleElem, hc]; exact ⟨hk, ha⟩
  | clv => simp only [tupleElem, hc]; exact ⟨hk, ha⟩
  | xvE => simp only [tupleElem, hc]; exact ⟨hk, Or.inl rfl⟩
  | xvD => simp only [tupleElem, hc]; exact ⟨construct_keep true false a hk ha, Or.inl rfl⟩

theorem castTo_keep {n0 v0 m0} (h : Heap) (ka : PK × ARef) (hk : Keep n0 v0 m0 h)
    (ha : ka.1 ≠ .rref ∧ Safe n0 ka.2) :
    Keep n0 v0 m0 (castTo h ka).1 ∧ Safe n0 (castTo h ka).2 := by
  obtain ⟨hne, ha⟩ := ha
  cases hk' : ka.1 with
  | rref => exact absurd hk' hne
  | val =>
    simp only [castTo, hk']
    exact ⟨construct_keep false false ka.2 hk ha, Or.inr hk.next_le⟩
  | cref => simp only [castTo, hk']; exact ⟨hk, Or.inl rfl⟩
  | lref =>
    simp only [castTo, hk']
    refine ⟨hk, Or.inl ?_⟩
    by_cases hc : ka.2.cat = .clv <;> simp [hc, Cat.stable]

theorem takeParam_safe {n0} (k : PK) (a : ARef) (hk : k ≠ .rref) (ha : Safe n0 a) : Safe n0 (takeParam k a) := by
  cases k with
  | rref => exact absurd rfl hk
  | val => exact Or.inl rfl
  | cref => exact Or.inl rfl
  | lref => exact ha

theorem invoke_safe (n0 : Nat) (b : Bound) : Safe n0 b.invoke := by
  cases b <;> exact Or.inl rfl

theorem passOn_safe {n0} (p : PassKind) (a : ARef) (ha : Safe n0 a) : Safe n0 (passOn p a) := by
  cases p with
  | forward => exact ha
  | named => left; simp only [passOn]; cases a.cat <;> rfl

theorem named_safe (n0 : Nat) (a : ARef) : Safe n0 (passOn .named a) := by
  left; simp only [passOn]; cases a.cat <;> rfl

theorem thread_enter_keep {n0 v0 m0} (ex : Bool) (h : Heap) (args : List ARef) (hk : Keep n0 v0 m0 h)
    (ha : ∀ a ∈ args, Safe n0 a) :
    Keep n0 v0 m0 (thread (enterArg .forwardingRef ex) h args).1
      ∧ ∀ a ∈ (thread (enterArg .forwardingRef ex) h args).2, Safe n0 a :=
  thread_inv _ (Keep n0 v0 m0) (Safe n0) (Safe n0) (fun h a => enterArg_fwd_keep ex h a) args h hk ha

theorem thread_enter_pass_keep {n0 v0 m0} (p : PassKind) (ex : Bool) (h : Heap) (args : List ARef)
    (hk : Keep n0 v0 m0 h) (ha : ∀ a ∈ args, Safe n0 a) :
    Keep n0 v0 m0 (thread (enterArg .forwardingRef ex) h args).1
      ∧ ∀ a ∈ (thread (enterArg .forwardingRef ex) h args).2.map (passOn p), Safe n0 a := by
  have e1 := thread_enter_keep ex h args hk ha
  refine ⟨e1.1, ?_⟩
  intro a hmem
  obtain ⟨a', ha', rfl⟩ := List.mem_map.mp hmem
  exact passOn_safe p a' (e1.2 a' ha')

/-- entering a forwarding call operator touches no object, whatever the arguments are -/
theorem thread_enter_any_keep {n0 v0 m0} (ex : Bool) (h : Heap) (args : List ARef) (hk : Keep n0 v0 m0 h) :
    Keep n0 v0 m0 (thread (enterArg .forwardingRef ex) h args).1 :=
  (thread_inv _ (Keep n0 v0 m0) (fun _ => True) (fun _ => True)
    (fun h a hk _ => ⟨by simpa [enterArg] using hk, trivial⟩) args h hk (fun _ _ => trivial)).1

theorem thread_tuple_keep {n0 v0 m0} (h : Heap) (args : List ARef) (hk : Keep n0 v0 m0 h)
    (ha : ∀ a ∈ args, Safe n0 a) :
    Keep n0 v0 m0 (thread tupleElem h args).1 ∧ ∀ a ∈ (thread tupleElem h args).2, Safe n0 a :=
  thread_inv _ (Keep n0 v0 m0) (Safe n0) (Safe n0) (fun h a => tupleElem_keep h a) args h hk ha

theorem mem_invokeEach_safe {n0} {bs : List Bound} {x : ARef} (h : x ∈ invokeEach Bound.invoke bs) : Safe n0 x := by
  rw [invokeEach_eq_map] at h
  obtain ⟨b, _, rfl⟩ := List.mem_map.mp h
  exact invoke_safe n0 b

theorem args_keep {n0 v0 m0} (pk : AdaptorKind → ParamKind) (hpk : ∀ k, pk k = .forwardingRef)
    (ps : AdaptorKind → PassKind)
    (n : ONode) (ex : Bool) (h : Heap) (args : List ARef) (hn : n.noRRef = true)
    (hk : Keep n0 v0 m0 h) (ha : ∀ a ∈ args, Safe n0 a) :
    Keep n0 v0 m0 (n.args pk ps ex h args).1 ∧ ∀ a ∈ (n.args pk ps ex h args).2, Safe n0 a := by
  cases n with
  | slot sig =>
    simp only [ONode.args]
    refine ⟨hk, ?_⟩
    intro a hmem
    obtain ⟨k, hk', a', ha', rfl⟩ := mem_zipWith hmem
    refine takeParam_safe k a' ?_ (ha a' ha')
    intro e
    subst e
    simp [ONode.noRRef, hk'] at hn
  | bind loc bs =>
    cases loc with
    | none =>
      simp only [ONode.args, hpk]
      have e1 := thread_enter_keep ex h args hk ha
      have e2 := thread_tuple_keep _ _ e1.1 e1.2
      refine ⟨e2.1, ?_⟩
      intro a hmem
      rcases List.mem_append.mp hmem with hm | hm
      · exact e2.2 a hm
      · exact mem_invokeEach_safe hm
    | some i =>
      simp only [ONode.args, hpk]
      have e1 := thread_enter_keep ex h args hk ha
      have e2 := thread_tuple_keep _ _ e1.1 e1.2
      refine ⟨e2.1, ?_⟩
      intro a hmem
      rcases List.mem_append.mp hmem with hm | hm
      · rcases List.mem_append.mp hm with hm | hm
        · exact e2.2 a (mem_tupleStart hm)
        · exact mem_invokeEach_safe hm
      · exact e2.2 a (mem_tupleEnd hm)
  | hide loc =>
    simp only [ONode.args, hpk]
    have e1 := thread_enter_keep ex h args hk ha
    have e2 := thread_tuple_keep _ _ e1.1 e1.2
    refine ⟨e2.1, ?_⟩
    intro a hmem
    rcases List.mem_append.mp hmem with hm | hm
    · exact e2.2 a (mem_tupleStart hm)
    · exact e2.2 a (mem_tupleEnd hm)
  | retype tys =>
    simp only [ONode.args, hpk]
    have e1 := thread_enter_keep ex h args hk ha
    refine thread_inv castTo (Keep n0 v0 m0) (fun ka => ka.1 ≠ .rref ∧ Safe n0 ka.2) (Safe n0)
      (fun h ka => castTo_keep h ka) _ _ e1.1 ?_
    intro ka hka
    have := mem_zip' hka
    refine ⟨?_, e1.2 _ this.2⟩
    intro hk'
    rw [hk'] at this
    simp [ONode.noRRef, this.1] at hn
  | retypeReturn => simp only [ONode.args, hpk]; exact thread_enter_pass_keep _ ex h args hk ha
  | hideReturn => simp only [ONode.args, hpk]; exact thread_enter_pass_keep _ ex h args hk ha
  | bindReturn v => simp only [ONode.args, hpk]; exact thread_enter_pass_keep _ ex h args hk ha
  | exceptionCatch => simp only [ONode.args, hpk]; exact thread_enter_pass_keep _ ex h args hk ha
  | trackObj => simp only [ONode.args, hpk]; exact thread_enter_pass_keep _ ex h args hk ha
  | compose1 sid => simp only [ONode.args, hpk]; exact thread_enter_pass_keep _ ex h args hk ha

def LParamFresh (n0 : Nat) (p : LParam) : Prop := p.writable = true → n0 ≤ p.recv

theorem leafInit_keep {n0 v0 m0} (ptr : Bool) (h : Heap) (ka : PK × ARef) (hk : Keep n0 v0 m0 h)
    (ha : (ka.1 = .val ∨ ka.1 = .cref) ∧ Safe n0 ka.2) :
    Keep n0 v0 m0 (leafInit ptr h ka).1 ∧ LParamFresh n0 (leafInit ptr h ka).2 := by
  obtain ⟨hkind, ha⟩ := ha
  rcases hkind with hkind | hkind <;> simp only [leafInit, hkind]
  · exact ⟨construct_keep false ptr ka.2 hk ha, fun _ => hk.next_le⟩
  · exact ⟨hk, fun hw => by simp at hw⟩

theorem leafBody_keep {n0 v0 m0} (id : Nat) (lps : List LParam) :
    ∀ (pos : Nat) (h : Heap), Keep n0 v0 m0 h → (∀ p ∈ lps, LParamFresh n0 p) →
      Keep n0 v0 m0 (leafBody id pos lps h).1 := by
  induction lps with
  | nil => intro pos h hk _; exact hk
  | cons p ps ih =>
    intro pos h hk hp
    simp only [leafBody]
    apply ih
    · split
      · rename_i hw
        have hfresh := hp p (by simp) hw
        refine ⟨hk.next_le, ?_, hk.moves_eq⟩
        intro o ho
        simp only [Heap.set]
        rw [if_neg (by omega)]
        exact hk.val_eq o ho
      · exact hk
    · exact fun q hq => hp q (by simp [hq])

theorem mem_zip_fst_all {ps : List PK} {args : List ARef} {P : PK → Bool} (hall : ps.all P = true)
    {ka : PK × ARef} (h : ka ∈ List.zip ps args) : P ka.1 = true :=
  List.all_eq_true.mp hall _ (mem_zip' h).1

theorem leafRun_keep {n0 v0 m0} (id : Nat) (ptr : Bool) (ps : List PK) (retv : Bool) (args : List ARef) (h : Heap)
    (hro : ps.all (fun k => k == .val || k == .cref) = true)
    (hk : Keep n0 v0 m0 h) (ha : ∀ a ∈ args, Safe n0 a) : Keep n0 v0 m0 (leafRun id ptr ps retv args h).1 := by
  simp only [leafRun]
  have e1 := thread_inv (leafInit ptr) (Keep n0 v0 m0) (fun ka => (ka.1 = .val ∨ ka.1 = .cref) ∧ Safe n0 ka.2)
    (LParamFresh n0) (fun h ka => leafInit_keep ptr h ka) (List.zip ps args) h hk
    (fun ka hka => ⟨by simpa using mem_zip_fst_all hro hka, ha _ (mem_zip' hka).2⟩)
  have e2 := leafBody_keep id _ 0 _ e1.1 e1.2
  exact ⟨e2.next_le, e2.val_eq, e2.moves_eq⟩

/-- called with arguments whose rvalues only denote temporaries, a functor expression whose targets take their
    parameters by value / `const&` neither changes nor moves from any pre-existing object -/
theorem callO_keep {n0 v0 m0} (pk : AdaptorKind → ParamKind) (hpk : ∀ k, pk k = .forwardingRef)
    (ps : AdaptorKind → PassKind) (e : OExpr) :
    ∀ (ex : Bool) (args : List ARef) (h : Heap), e.noRRef = true → e.readOnly = true → Keep n0 v0 m0 h →
      (∀ a ∈ args, Safe n0 a) → Keep n0 v0 m0 (callO pk ps e ex args h).1 := by
  induction e with
  | leaf id ptr pks retv =>
    intro ex args h _ hro hk ha
    simp only [callO, hpk]
    have e1 := thread_enter_pass_keep (ps .adaptorFunctor) ex h args hk ha
    exact leafRun_keep id ptr pks retv _ _ hro e1.1 e1.2
  | mleaf id der cm pks retv =>
    intro ex args h _ hro hk ha
    simp only [OExpr.readOnly, Bool.and_eq_true] at hro
    simp only [callO, hpk]
    have e1 := thread_enter_pass_keep (ps .adaptorFunctor) ex h args hk ha
    have e2 := thread_enter_keep false _ (List.take 1 ((thread (enterArg .forwardingRef ex) h args).2.map (passOn (ps .adaptorFunctor)))) e1.1
      (fun a hm => e1.2 a (List.mem_of_mem_take hm))
    refine leafRun_keep id true _ retv _ _ ?_ e2.1 ?_
    · simp only [hro.1, if_true, List.all_cons, hro.2, Bool.and_true]; rfl
    · intro a hm
      rcases List.mem_append.mp hm with hm | hm
      · exact e2.2 a hm
      · exact e1.2 a (List.mem_of_mem_drop hm)
  | un n f ih =>
    intro ex args h hn hro hk ha
    simp only [OExpr.noRRef, Bool.and_eq_true] at hn
    simp only [callO]
    have e1 := args_keep pk hpk ps n ex h args hn.1 hk ha
    exact ih _ _ _ hn.2 hro e1.1 e1.2
  | compose2 sid g1 g2 ih1 ih2 =>
    intro ex args h hn hro hk ha
    simp only [OExpr.noRRef, Bool.and_eq_true] at hn
    simp only [OExpr.readOnly, Bool.and_eq_true] at hro
    simp only [callO, hpk]
    have e1 := thread_enter_pass_keep (ps .compose2) ex h args hk ha
    have o1 := ih1 false _ _ hn.1 hro.1 e1.1 e1.2
    split
    · exact o1
    · exact ih2 false _ _ hn.2 hro.2 o1 e1.2

end Sigc.Adapt
