import Sigc.SweepL
/-!
  Lemmas about `Sigc/SweepL.lean`, part 1: the list helpers, the invariant `Base` (unique names, names recorded,
  the `live` counter counts the cells), the pending-disconnection relation `Pend`, and what the primitives
  `discUnder`, `dtor`, `eraseCell` do to them.
-/
namespace Sigc.SweepL

/-- number of cells holding functor `f` -/
def cnt (f : Nat) : List Cell → Nat
  | [] => 0
  | c :: cs => (if c.kind.fid = some f then 1 else 0) + cnt f cs

/-! ### list helpers -/

theorem find_some {i : Nat} {cs : List Cell} {c : Cell} (h : find i cs = some c) : c ∈ cs ∧ c.id = i := by
  induction cs with
  | nil => simp [find] at h
  | cons x xs ih =>
    simp only [find] at h
    split at h
    · cases h; simp_all
    · have := ih h; simp_all

theorem find_none {i : Nat} {cs : List Cell} (h : find i cs = none) : ∀ c ∈ cs, c.id ≠ i := by
  induction cs with
  | nil => simp
  | cons x xs ih =>
    simp only [find] at h
    split at h
    · cases h
    · intro c hc
      cases hc with
      | head => assumption
      | tail _ hm => exact ih h c hm

theorem find_isSome_of_mem {i : Nat} {cs : List Cell} {c : Cell} (hm : c ∈ cs) (hi : c.id = i) :
    ∃ c', find i cs = some c' := by
  cases h : find i cs with
  | some c' => exact ⟨c', rfl⟩
  | none => exact absurd hi (find_none h c hm)

theorem ids_cons (c : Cell) (cs : List Cell) : ids (c :: cs) = c.id :: ids cs := rfl

theorem mem_ids {i : Nat} {cs : List Cell} : i ∈ ids cs ↔ ∃ c ∈ cs, c.id = i := by
  simp [ids]

/-- with unique names, the cell found under a name is the only one with that name -/
theorem find_unique {i : Nat} {cs : List Cell} {c c' : Cell} (hn : (ids cs).Nodup)
    (h : find i cs = some c) (hm : c' ∈ cs) (hi : c'.id = i) : c' = c := by
  induction cs with
  | nil => cases hm
  | cons x xs ih =>
    simp only [ids_cons, List.nodup_cons] at hn
    simp only [find] at h
    split at h
    · cases h
      cases hm with
      | head => rfl
      | tail _ hm' =>
        exfalso; apply hn.1; rw [mem_ids]; exact ⟨c', hm', by omega⟩
    · cases hm with
      | head => contradiction
      | tail _ hm' => exact ih hn.2 h hm'

theorem ids_setDisc (i : Nat) (cs : List Cell) : ids (setDisc i cs) = ids cs := by
  induction cs with
  | nil => rfl
  | cons x xs ih =>
    simp only [setDisc, List.map_cons, ids] at ih ⊢
    rw [ih]; split <;> rfl

theorem length_setDisc (i : Nat) (cs : List Cell) : (setDisc i cs).length = cs.length := by
  simp [setDisc]

theorem mem_setDisc {i : Nat} {cs : List Cell} {c : Cell} (h : c ∈ setDisc i cs) :
    (c ∈ cs ∧ c.id ≠ i) ∨ (c.conn = false ∧ c.id = i ∧ ∃ c0 ∈ cs, c0.id = i ∧ c = { c0 with conn := false }) := by
  simp only [setDisc, List.mem_map] at h
  obtain ⟨c0, hm, rfl⟩ := h
  by_cases hi : c0.id = i
  · rw [if_pos hi]; exact Or.inr ⟨rfl, hi, c0, hm, hi, rfl⟩
  · rw [if_neg hi]; exact Or.inl ⟨hm, hi⟩

theorem cnt_setDisc (f i : Nat) (cs : List Cell) : cnt f (setDisc i cs) = cnt f cs := by
  induction cs with
  | nil => rfl
  | cons x xs ih =>
    simp only [setDisc, List.map_cons, cnt] at ih ⊢
    rw [ih]; split <;> rfl

theorem ids_remove_sublist (i : Nat) (cs : List Cell) : (ids (remove i cs)).Sublist (ids cs) := by
  induction cs with
  | nil => exact List.Sublist.refl _
  | cons x xs ih =>
    simp only [remove]
    split
    · exact List.Sublist.cons _ ih
    · exact List.Sublist.cons_cons _ ih

theorem mem_remove {i : Nat} {cs : List Cell} {c : Cell} : c ∈ remove i cs ↔ c ∈ cs ∧ c.id ≠ i := by
  induction cs with
  | nil => simp [remove]
  | cons x xs ih =>
    simp only [remove]
    split
    · rename_i hx
      rw [ih]
      constructor
      · intro ⟨a, b⟩; exact ⟨List.mem_cons_of_mem _ a, b⟩
      · intro ⟨a, b⟩
        cases a with
        | head => exact absurd hx b
        | tail _ a' => exact ⟨a', b⟩
    · rename_i hx
      simp only [List.mem_cons, ih]
      constructor
      · rintro (rfl | ⟨a, b⟩)
        · exact ⟨Or.inl rfl, hx⟩
        · exact ⟨Or.inr a, b⟩
      · rintro ⟨rfl | a, b⟩
        · exact Or.inl rfl
        · exact Or.inr ⟨a, b⟩

theorem length_remove_le (i : Nat) (cs : List Cell) : (remove i cs).length ≤ cs.length := by
  induction cs with
  | nil => simp [remove]
  | cons x xs ih =>
    simp only [remove]
    split <;> simp only [List.length_cons] <;> omega

theorem length_remove_lt {i : Nat} {cs : List Cell} {c : Cell} (h : find i cs = some c) :
    (remove i cs).length < cs.length := by
  induction cs with
  | nil => simp [find] at h
  | cons x xs ih =>
    simp only [find] at h
    simp only [remove]
    split at h
    · rename_i hx
      simp only [hx, ↓reduceIte, List.length_cons]
      have := length_remove_le i xs
      omega
    · rename_i hx
      have := ih h
      simp only [hx, ↓reduceIte, List.length_cons]; omega

theorem remove_eq_self {i : Nat} {cs : List Cell} (h : ∀ c ∈ cs, c.id ≠ i) : remove i cs = cs := by
  induction cs with
  | nil => rfl
  | cons x xs ih =>
    have hx : x.id ≠ i := h x List.mem_cons_self
    simp only [remove, hx, ↓reduceIte]
    rw [ih (fun c hc => h c (List.mem_cons_of_mem _ hc))]

theorem cnt_remove {f i : Nat} {cs : List Cell} {c : Cell} (hn : (ids cs).Nodup) (h : find i cs = some c) :
    cnt f (remove i cs) = cnt f cs - (if c.kind.fid = some f then 1 else 0) ∧
    (c.kind.fid = some f → 0 < cnt f cs) := by
  induction cs with
  | nil => simp [find] at h
  | cons x xs ih =>
    simp only [ids_cons, List.nodup_cons] at hn
    simp only [find] at h
    split at h
    · rename_i hx
      cases h
      have hno : ∀ c' ∈ xs, c'.id ≠ i := by
        intro c' hc' hi; apply hn.1; rw [mem_ids]; exact ⟨c', hc', by omega⟩
      have hrem : remove i (c :: xs) = xs := by
        simp only [remove, hx, ↓reduceIte]
        exact remove_eq_self hno
      rw [hrem]
      simp only [cnt]
      constructor
      · split <;> omega
      · intro hf; simp only [hf, ↓reduceIte]; omega
    · rename_i hx
      have ⟨h1, h2⟩ := ih hn.2 h
      have hrem : remove i (x :: xs) = x :: remove i xs := by
        simp only [remove, hx, ↓reduceIte]
      rw [hrem]
      simp only [cnt, h1]
      constructor
      · by_cases hc : c.kind.fid = some f
        · have := h2 hc; simp only [hc, ↓reduceIte]; omega
        · simp only [hc, ↓reduceIte]; omega
      · intro hf; have := h2 hf; omega

/-! ### the invariants -/

structure Base (s : State) : Prop where
  nodup : (ids s.cells).Nodup
  used : ∀ c ∈ s.cells, c.id ∈ s.used
  live : ∀ f, s.live f = cnt f s.cells

/-- every disconnected cell of the list is known to a pending sweep: `deferred_` is set, or the running pass of
    `sweep()` has it in front of it (`todo`) -/
def Pend (todo : List Nat) (s : State) : Prop :=
  ∀ c ∈ s.cells, c.conn = false → s.deferred = true ∨ c.id ∈ todo

/-- fields no primitive below the operations touches -/
structure Same (s s' : State) : Prop where
  exec : s'.exec = s.exec
  marks : s'.marks = s.marks
  used : s'.used = s.used
  owners : s'.owners = s.owners
  out : s'.out = s.out

theorem Same.rfl' {s : State} : Same s s := ⟨rfl, rfl, rfl, rfl, rfl⟩
theorem Same.trans {a b c : State} (h1 : Same a b) (h2 : Same b c) : Same a c :=
  ⟨h2.exec.trans h1.exec, h2.marks.trans h1.marks, h2.used.trans h1.used, h2.owners.trans h1.owners,
   h2.out.trans h1.out⟩

/-! ### `discUnder` -/

theorem discUnder_same (i : Nat) (s : State) : Same s (discUnder i s) := by
  unfold discUnder
  split
  · split
    · exact ⟨rfl, rfl, rfl, rfl, rfl⟩
    · exact Same.rfl'
  · exact Same.rfl'

theorem discUnder_err (i : Nat) (s : State) : (discUnder i s).err = s.err := by
  unfold discUnder; split
  · split <;> rfl
  · rfl

theorem discUnder_live (i : Nat) (s : State) : (discUnder i s).live = s.live := by
  unfold discUnder; split
  · split <;> rfl
  · rfl

theorem discUnder_len (i : Nat) (s : State) : (discUnder i s).cells.length = s.cells.length := by
  unfold discUnder; split
  · split
    · simp [length_setDisc]
    · rfl
  · rfl

theorem discUnder_defer (i : Nat) (s : State) (h : s.deferred = true) : (discUnder i s).deferred = true := by
  unfold discUnder; split
  · split
    · rfl
    · exact h
  · exact h

theorem setDisc_base {i : Nat} {s : State} (hb : Base s) (d : Bool) :
    Base { s with cells := setDisc i s.cells, deferred := d } := by
  refine ⟨?_, ?_, ?_⟩
  · simpa [ids_setDisc] using hb.nodup
  · intro c hc
    rcases mem_setDisc hc with h | ⟨_, _, c0, hm, _, rfl⟩
    · exact hb.used c h.1
    · exact hb.used c0 hm
  · intro f; simpa [cnt_setDisc] using hb.live f

theorem discUnder_base (i : Nat) {s : State} (hb : Base s) : Base (discUnder i s) := by
  unfold discUnder; split
  · split
    · exact setDisc_base hb true
    · exact hb
  · exact hb

theorem discUnder_pend (i : Nat) (todo : List Nat) {s : State} (hp : Pend todo s) : Pend todo (discUnder i s) := by
  unfold discUnder; split
  · split
    · intro c _ _; left; rfl
    · exact hp
  · exact hp

/-- a change made by `discUnder` sets `deferred_` -/
theorem discUnder_defer_or (i : Nat) (s : State) :
    (discUnder i s).deferred = true ∨ discUnder i s = s := by
  unfold discUnder; split
  · split
    · left; rfl
    · right; rfl
  · right; rfl

/-! ### `dtor` -/

theorem dtor_spec (owned : List Nat) (todo : List Nat) (s : State) (hb : Base s) (hp : Pend todo s)
    (he : s.exec ≠ 0) :
    Same s (dtor owned s) ∧ Base (dtor owned s) ∧ Pend todo (dtor owned s) ∧ (dtor owned s).err = s.err ∧
    (dtor owned s).live = s.live ∧ (dtor owned s).cells.length = s.cells.length ∧
    (s.deferred = true → (dtor owned s).deferred = true) := by
  induction owned generalizing s with
  | nil => exact ⟨Same.rfl', hb, hp, rfl, rfl, rfl, id⟩
  | cons v vs ih =>
    simp only [dtor, List.foldl_cons, he, ↓reduceIte]
    have hs := discUnder_same v s
    have := ih (discUnder v s) (discUnder_base v hb) (discUnder_pend v todo hp) (by rw [hs.exec]; exact he)
    simp only [dtor] at this
    obtain ⟨a, b, c, d, e, f, g⟩ := this
    refine ⟨hs.trans a, b, c, d.trans (discUnder_err v s), e.trans (discUnder_live v s),
      f.trans (discUnder_len v s), fun h => g (discUnder_defer v s h)⟩

/-- without the invariants: the plain frame of `dtor` -/
theorem dtor_frame (owned : List Nat) (s : State) (he : s.exec ≠ 0) :
    Same s (dtor owned s) ∧ (dtor owned s).err = s.err ∧ (dtor owned s).live = s.live ∧
    (dtor owned s).cells.length = s.cells.length := by
  induction owned generalizing s with
  | nil => exact ⟨Same.rfl', rfl, rfl, rfl⟩
  | cons v vs ih =>
    simp only [dtor, List.foldl_cons, he, ↓reduceIte]
    have hs := discUnder_same v s
    have := ih (discUnder v s) (by rw [hs.exec]; exact he)
    simp only [dtor] at this
    obtain ⟨a, d, e, f⟩ := this
    exact ⟨hs.trans a, d.trans (discUnder_err v s), e.trans (discUnder_live v s), f.trans (discUnder_len v s)⟩

/-! ### `eraseCell` -/

theorem remove_base {i : Nat} {s : State} {c : Cell} (hb : Base s) (hf : find i s.cells = some c) :
    Base { s with cells := remove i s.cells, live := decLive c.kind s.live } := by
  refine ⟨?_, ?_, ?_⟩
  · exact hb.nodup.sublist (ids_remove_sublist i s.cells)
  · intro c' hc'; exact hb.used c' (mem_remove.1 hc').1
  · intro f
    have ⟨h1, h2⟩ := cnt_remove (f := f) hb.nodup hf
    simp only [decLive]
    rw [h1]
    cases hk : c.kind.fid with
    | none => simp [hb.live f]
    | some g =>
      simp only
      by_cases hfg : f = g
      · subst hfg; simp [hb.live f]
      · have : ¬ (g = f) := fun h => hfg h.symm
        simp [hfg, this, hb.live f]

/-- erasing cell `i` (found, with `deferred_` already set if it had to be disconnected first) inside a pass that
    has `i` in front of it -/
theorem eraseCell_spec (i : Nat) (todo : List Nat) (s : State) (c : Cell) (hb : Base s)
    (hf : find i s.cells = some c) (hp : Pend (i :: todo) s) (he : s.exec ≠ 0) :
    Same s (eraseCell i s) ∧ Base (eraseCell i s) ∧ Pend todo (eraseCell i s) ∧ (eraseCell i s).err = s.err ∧
    (eraseCell i s).cells.length < s.cells.length ∧
    (s.deferred = true → (eraseCell i s).deferred = true) := by
  unfold eraseCell
  rw [hf]
  simp only
  have hb1 := remove_base hb hf
  have hp1 : Pend todo { s with cells := remove i s.cells, live := decLive c.kind s.live } := by
    intro c' hc' hcon
    have ⟨hm, hne⟩ := mem_remove.1 hc'
    rcases hp c' hm hcon with h | h
    · left; exact h
    · right
      cases h with
      | head => exact absurd rfl hne
      | tail _ h' => exact h'
  have := dtor_spec c.owned todo _ hb1 hp1 he
  obtain ⟨a, b, c', d, _, f, g⟩ := this
  refine ⟨⟨a.exec, a.marks, a.used, a.owners, a.out⟩, b, c', d, ?_, g⟩
  rw [f]; exact length_remove_lt hf

end Sigc.SweepL
