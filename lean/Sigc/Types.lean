import Sigc.Basic
/-!
  Component model `Types` (DESIGN.md §3.2, §5 C05, §5 C20) — the compile-time side of libsigc++:
  which (signature, functor) pairs the templates accept, and under which function type the erased
  call pointer `slot_rep::call_` is produced and called.

  No proofs here.  Everything is a small total computable definition; `processLine` is the driver
  entry (`sigc_model types`).

  What is mirrored, function by function (paths below `/repo/sigc++`):

  * `type_traits.h`            `type_trait<T>::take`                         → `take`
  * `functors/slot.h`          `slot_call<F,R,A...>::call_it` (signature)    → `callItType`
                                `call_it` (body: `std::forward<take_t<A>>(a_)` into the explicit
                                `operator()<take_t<A>...>`)                   → `hopCallIt`, `hopAdaptorFunctor`
                                `slot<R(A...)>::call_type`                    → `slotCallType`
                                `slot::operator()`                            → `hopSlotCall`
                                `return <functor result>;` with `T_return`    → `retOk`
  * `adaptors/adaptor_trait.h` `adaptor_functor::operator()(T_arg&&...)` with explicit `T_arg`
                                (reference collapsing) + `std::invoke`        → `collapse`, `hopAdaptorFunctor`
  * `functors/ptr_fun.h`, `functors/mem_fun.h`
                                `pointer_functor::operator()(take_t<P>...)`,
                                `bound_mem_functor::operator()(take_t<P>...)`,
                                `obj_type_with_modifier`                      → `wrapperHop`, `Kind.objOk`
  * `member_method_trait.h`    `member_method_is_const`                      → `MQ.isConst`
  * `adaptors/hide.h`, `bind.h`, `retype.h` (one hop)                        → `adaptArgs`
  * `signal.h`                 the three emitters' call sites                → `castBackTo`, `siteArg`
                                `signal_with_accumulator::connect` (same `slot_type`) → `Route.connectAccum`
                                the sixteen `connect` / `connect_first` overloads of `signal_with_accumulator`
                                and `trackable_signal_with_accumulator` (inherited by `signal<>`,
                                `signal<>::accumulated<>`, `trackable_signal<>`, `trackable_signal<>::accumulated<>`)
                                                                              → `entryDecl` (table), `entryAccepts`
  * `functors/slot.h`          a `slot<U>` *object* used as a functor (`slot::operator()(take_t<A>...) const`)
                                                                              → `Kind.slotObj`
  * `signal_connect.h`         exact deduction of `R(A...)` from both arguments → `sigConnExact`

  The C++ rules used (my formalisation for this finite universe, validated against g++ and clang++
  by the exhaustive `binds`/`cast` tables of the correspondence): [dcl.init.ref], [conv], [expr.static.cast],
  [stmt.return].
-/
namespace Sigc.Types

/-! ## The type universe -/

/-- base (object) types: `int long double bool`, `struct A`, `struct B : A`, `A*`, `B*`, `const A*`, and three
    types whose *explicit* and *implicit* convertibility to an arithmetic type differ:
    `enum class E : int` (scoped enumeration: `static_cast` to and from every arithmetic type, no implicit
    conversion at all), `struct Xb { explicit operator bool() const; }`,
    `struct Xd { explicit operator double() const; }`. -/
inductive Base where
  | int | long | double | bool | clsA | clsB | ptrA | ptrB | cptrA | enumE | clsXb | clsXd
  deriving DecidableEq, Repr, Inhabited

/-- declared parameter shapes `T`, `T&`, `const T&`, `T&&` -/
inductive Shape where
  | val | lref | cref | rref
  deriving DecidableEq, Repr, Inhabited

/-- a declared parameter type (also used for declared result types) -/
structure Param where
  base : Base
  shape : Shape
  deriving DecidableEq, Repr, Inhabited

/-- value categories -/
inductive Cat where
  | lvalue | xvalue | prvalue
  deriving DecidableEq, Repr, Inhabited

/-- the type of an expression: object type, top-level const, value category -/
structure ExprTy where
  base : Base
  const : Bool
  cat : Cat
  deriving DecidableEq, Repr, Inhabited

def Base.isArith : Base → Bool
  | .int | .long | .double | .bool => true
  | _ => false

def Base.isPtr : Base → Bool
  | .ptrA | .ptrB | .cptrA => true
  | _ => false

/-- the types of the universe that take part in no implicit conversion except the identity -/
def Base.isExplicitOnly : Base → Bool
  | .enumE | .clsXb | .clsXd => true
  | _ => false

/-- pointer conversions [conv.ptr], [conv.qual]: `B*→A*`, `B*→const A*`, `A*→const A*` -/
def ptrConv : Base → Base → Bool
  | .ptrB, .ptrA => true
  | .ptrB, .cptrA => true
  | .ptrA, .cptrA => true
  | _, _ => false

/-- is there an implicit conversion sequence from an expression of (cv-unqualified) type `s` to `t`
    (copy-initialisation `t x = e;`)?  identity, arithmetic conversions (incl. narrowing and to `bool`),
    boolean conversion of pointers, derived-to-base (slicing copy), pointer conversions.
    A scoped enumeration and the classes with an `explicit` conversion function convert implicitly to nothing
    but themselves, and nothing converts implicitly to them ([conv.integral] is about *unscoped* enumerations,
    [class.conv.fct]/2: an explicit conversion function is only considered for direct-initialisation). -/
def conv (s t : Base) : Bool :=
  s == t || (s.isArith && t.isArith) || (s.isPtr && t == .bool) || (s == .clsB && t == .clsA)
    || ptrConv s t

/-- conversions that exist **only explicitly** (`static_cast<t>(e)` / `t x(e);` is well-formed, `t x = e;` is not):
    scoped enumeration ↔ every arithmetic type ([expr.static.cast]/9,10), and the explicit conversion functions
    `Xb → bool`, `Xd → double` — to exactly the declared type ([over.match.conv]: for direct-initialisation an
    explicit conversion function is a candidate only if it yields the target type itself). -/
def onlyExplicit (s t : Base) : Bool :=
  (s == .enumE && t.isArith) || (s.isArith && t == .enumE) || (s == .clsXb && t == .bool)
    || (s == .clsXd && t == .double)

/-- the explicit conversion goes through a conversion *function* of a class (then it can also initialise a
    reference to the target type directly, [over.match.ref]) -/
def byExplicitFunction (s t : Base) : Bool :=
  (s == .clsXb && t == .bool) || (s == .clsXd && t == .double)

/-- explicit convertibility `static_cast<t>(e)`: every implicit conversion, plus the explicit-only ones -/
def explConv (s t : Base) : Bool := conv s t || onlyExplicit s t

/-- `t1` is the same type as `t2` or a base class of it -/
def sameOrBaseOf (t1 t2 : Base) : Bool :=
  t1 == t2 || (t1 == .clsA && t2 == .clsB)

/-- `t1` is reference-related to `t2` [dcl.init.ref]/4 including "similar" types (CWG 2352, applied
    by both compilers in C++17 mode): same, base class, or `A*` / `const A*`. -/
def refRelated (t1 t2 : Base) : Bool :=
  sameOrBaseOf t1 t2 || (t1 == .cptrA && t2 == .ptrA) || (t1 == .ptrA && t2 == .cptrA)

/-- Can a parameter declared `p` be initialised from an argument expression `e`?  ([dcl.init.ref],
    [dcl.init] copy-initialisation).
    * `T`        : a conversion sequence exists;
    * `T&`       : non-const lvalue of the same type or of a derived class — never a temporary, never const;
    * `const T&` : binds directly or to a converted temporary;
    * `T&&`      : a non-const rvalue of a reference-compatible type binds directly; an expression of a
                   reference-related type otherwise does not bind (lvalue, or would drop const); an
                   expression of an unrelated type binds through a converted temporary. -/
def binds (p : Param) (e : ExprTy) : Bool :=
  match p.shape with
  | .val => conv e.base p.base
  | .cref => conv e.base p.base
  | .lref => e.cat == .lvalue && !e.const && sameOrBaseOf p.base e.base
  | .rref =>
    if refRelated p.base e.base then
      e.cat != .lvalue && !e.const && conv e.base p.base
    else conv e.base p.base

/-! ## The library's plumbing, hop by hop -/

/-- `type_trait<T>::take` (type_traits.h): `T ↦ const T&`, references unchanged -/
def take (p : Param) : Param :=
  match p.shape with
  | .val => { p with shape := .cref }
  | _ => p

/-- the expression `std::forward<Q>(a)` where `a` names a parameter and `Q` is the (reference) type `q`:
    lvalue for lvalue references, xvalue otherwise (`std::forward<T>` of a non-reference `T` is `T&&`). -/
def fwd (q : Param) : ExprTy :=
  match q.shape with
  | .lref => ⟨q.base, false, .lvalue⟩
  | .cref => ⟨q.base, true, .lvalue⟩
  | .rref => ⟨q.base, false, .xvalue⟩
  | .val => ⟨q.base, false, .xvalue⟩

/-- the expression `a` (id-expression naming a parameter of type `q`): always an lvalue -/
def named (q : Param) : ExprTy :=
  match q.shape with
  | .cref => ⟨q.base, true, .lvalue⟩
  | _ => ⟨q.base, false, .lvalue⟩

/-- reference collapsing of `T_arg&&` for an explicitly given `T_arg = q`
    (`adaptor_functor::operator()(T_arg&&... arg)`): `U& && = U&`, `U&& && = U&&`, `U && = U&&`. -/
def collapse (q : Param) : Param :=
  match q.shape with
  | .val => { q with shape := .rref }
  | .lref => q
  | .cref => q
  | .rref => q

/-- One library-internal hop: a function whose parameter is declared `q` is called with `e`; inside, the
    parameter is passed on as `std::forward<f>(a)`.  `none` = the call would not compile. -/
def hop (q : Param) (f : Param) (e : ExprTy) : Option ExprTy :=
  if binds q e then some (fwd f) else none

/-- `slot<R(A...)>::operator()(take_t<A>... a)` → `std::forward<take_t<A>>(a)` -/
def hopSlotCall (a : Param) (e : ExprTy) : Option ExprTy := hop (take a) (take a) e
/-- `slot_call::call_it(slot_rep*, take_t<A>... a_)` → `std::forward<take_t<A>>(a_)` -/
def hopCallIt (a : Param) (e : ExprTy) : Option ExprTy := hop (take a) (take a) e
/-- `adaptor_functor::operator()<take_t<A>...>(take_t<A>&&... arg)` → `std::forward<take_t<A>>(arg)` -/
def hopAdaptorFunctor (a : Param) (e : ExprTy) : Option ExprTy := hop (collapse (take a)) (take a) e

/-- The whole chain for one declared signature parameter `a`, started by the caller's expression `e0` of
    `slot::operator()`: what `std::invoke` finally hands to the stored functor. -/
def chain (a : Param) (e0 : ExprTy) : Option ExprTy :=
  (hopSlotCall a e0).bind fun e1 => (hopCallIt a e1).bind fun e2 => hopAdaptorFunctor a e2

/-- what reaches the functor for a declared signature parameter (the last `std::forward` of the chain) -/
def passed (a : Param) : ExprTy := fwd (take a)

/-! ## Functors -/

/-- method qualifiers -/
inductive MQ where
  | none | const | volatile | constVolatile
  deriving DecidableEq, Repr, Inhabited

/-- `internal::member_method_is_const` (member_method_trait.h) -/
def MQ.isConst : MQ → Bool
  | .const | .constVolatile => true
  | _ => false

/-- how an argument that is a slot *object* `so` is written: `so`, `std::as_const(so)`, `std::move(so)` -/
inductive ArgForm where
  | lvalue | constLvalue | rvalue
  deriving DecidableEq, Repr, Inhabited

/-- functor kinds of the universe -/
inductive Kind where
  | freeFn                                   -- `&f`            → `adaptor_functor<pointer_functor<R(P...)>>`
  | ptrFun                                   -- `sigc::ptr_fun(&f)`
  | fobj                                     -- class with non-const `operator()` (`functor_` is `mutable`)
  | fobjConst                                -- class with const `operator()`
  | lambda
  | lambdaMut
  | memFun (objConst : Bool) (mq : MQ)       -- `sigc::mem_fun(obj, &C::m)`
  | slotObj (form : ArgForm)                 -- an object of type `sigc::slot<FR(FP...)>` (a slot is itself a functor:
                                             -- `T_return slot::operator()(type_trait_take_t<T_arg>... a) const`)
  deriving DecidableEq, Repr, Inhabited

/-- does the stored functor go through a sigc wrapper whose `operator()` is declared with
    `type_trait_take_t<P>...` (pointer_functor, bound_mem_functor; and `slot<FR(FP...)>::operator()` itself, which
    forwards `std::forward<take_t<P>>(a)` to `call_`, whose parameter is `take_t<P>` again — `binds (take p) = binds p`)? -/
def Kind.wrapped : Kind → Bool
  | .freeFn | .ptrFun | .memFun _ _ | .slotObj _ => true
  | _ => false

/-- can the functor object be formed at all?  `bound_mem_functor(obj_type_with_modifier& obj, …)`:
    `obj_type_with_modifier` is `const C` iff the method is const, so a const object needs a const method. -/
def Kind.objOk : Kind → Bool
  | .memFun objConst mq => !objConst || mq.isConst
  | _ => true

/-- declared result of a functor / of a signature: `void` or a (possibly reference) type -/
abbrev Ret := Option Param

/-- the expression a call to a function declared to return `r` is -/
def retExpr (r : Param) : ExprTy :=
  match r.shape with
  | .val => ⟨r.base, false, .prvalue⟩
  | .lref => ⟨r.base, false, .lvalue⟩
  | .cref => ⟨r.base, true, .lvalue⟩
  | .rref => ⟨r.base, false, .xvalue⟩

/-- `call_it` is `T_return call_it(...) { return functor(...); }` ([stmt.return]): a `void` signature accepts
    only a `void` result (a value operand in a function returning `void` is ill-formed — the library does
    **not** discard results); otherwise the return object is **copy**-initialised from the call expression:
    implicit convertibility (`binds`, hence `conv`) decides, an explicit-only conversion (`onlyExplicit`: a scoped
    enumeration or a class with an `explicit operator bool` returned as `int` / `bool`) does not qualify — there is
    no cast in `call_it`. -/
def retOk (fr : Ret) (sr : Ret) : Bool :=
  match sr, fr with
  | none, none => true
  | none, some _ => false
  | some _, none => false
  | some s, some f => binds s (retExpr f)

structure Sig where
  params : List Param
  ret : Ret
  deriving DecidableEq, Repr, Inhabited

structure Fn where
  kind : Kind
  params : List Param
  ret : Ret
  deriving DecidableEq, Repr, Inhabited

/-- every position binds and the lengths agree (`std::invoke(f, e...)` is well-formed) -/
def bindsAll : List Param → List ExprTy → Bool
  | [], [] => true
  | p :: ps, e :: es => binds p e && bindsAll ps es
  | _, _ => false

/-- the sigc wrapper of a free function / bound method: its `operator()` is declared with `take_t<P>` and
    forwards `std::forward<take_t<P>>(a)` to the wrapped pointer, whose parameter is `P`. -/
def wrapperHop (p : Param) (e : ExprTy) : Bool :=
  match hop (take p) (take p) e with
  | some e' => binds p e'
  | none => false

def wrapperAll : List Param → List ExprTy → Bool
  | [], [] => true
  | p :: ps, e :: es => wrapperHop p e && wrapperAll ps es
  | _, _ => false

/-- `std::invoke(functor_, args...)` inside `adaptor_functor` (perfect forwarding of `args`) -/
def invokeOk (fn : Fn) (args : List ExprTy) : Bool :=
  fn.kind.objOk && (if fn.kind.wrapped then wrapperAll fn.params args else bindsAll fn.params args)

/-! ## One adaptor hop -/

inductive Adaptor where
  | none
  | hide (loc : Option Nat)                    -- `hide<I>(f)`; `none` = `hide(f)` (last)
  | bind (loc : Option Nat) (bound : List Base) -- `bind<I>(f, b...)`; `none` = `bind(f, b...)` (append)
  | retype                                    -- `retype(ptr_fun(&f))`, `retype(mem_fun(o,&C::m))`
  deriving DecidableEq, Repr, Inhabited

/-- element `std::get<i>` of the `const std::tuple<take_t<A>...>` the adaptor stores the arguments in:
    always an lvalue; const iff the reference type is a reference to const.  Rebuilding the tuple
    (`tuple_start`, `tuple_cdr`, `std::tuple_cat`) constructs each element from this lvalue, which is
    impossible for an rvalue-reference element. -/
def tupleElem (a : Param) : Option ExprTy :=
  match (take a).shape with
  | .rref => none
  | .cref => some ⟨a.base, true, .lvalue⟩
  | _ => some ⟨a.base, false, .lvalue⟩

def tupleElems : List Param → Option (List ExprTy)
  | [] => some []
  | a :: as => (tupleElem a).bind fun e => (tupleElems as).map (e :: ·)

/-- `hide<I>`: `t_end = tuple_end<n-I-1>(t)` peels `I+1` elements off the front by repeated `tuple_cdr`, each of
    which rebuilds the remaining tuple; the hidden element itself is therefore rebuilt (and must not be an rvalue
    reference) unless it is the first element (dropped by the first `tuple_cdr`) or the last one
    (`tuple_end<0>` returns `std::tuple<>()` without touching `t`). -/
def hiddenRebuilt (i n : Nat) : Bool := decide (1 ≤ i) && decide (i + 1 < n)

/-- a bound argument `bound_argument<T>::invoke()` is `T&` -/
def boundExpr (b : Base) : ExprTy := ⟨b, false, .lvalue⟩

/-- `static_cast<P>(e)` [expr.static.cast]: direct-initialisation; or a base→derived downcast without dropping
    const (`B&` from a modifiable lvalue `A`, `const B&` from any lvalue `A`, `B&&` from any non-const `A`
    expression, `B*` from a prvalue-converted `A*`); or a non-const lvalue to an rvalue reference of a
    reference-compatible type; or an explicit-only conversion to the *object* type `P` (scoped enumeration ↔
    arithmetic, explicit conversion function); a reference `const P&` / `P&&` is reached explicitly only through
    a conversion function (the temporary a reference would otherwise bind to is *copy*-initialised). -/
def castOk (p : Param) (e : ExprTy) : Bool :=
  binds p e
  || (p.base == .clsB && e.base == .clsA &&
        ((p.shape == .lref && e.cat == .lvalue && !e.const) ||
         (p.shape == .cref && e.cat == .lvalue) ||
         (p.shape == .rref && !e.const)))
  || (p.base == .ptrB && e.base == .ptrA && p.shape == .val)
  || (p.shape == .rref && e.cat == .lvalue && !e.const && sameOrBaseOf p.base e.base)
  || (p.shape == .val && onlyExplicit e.base p.base)
  || ((p.shape == .cref || p.shape == .rref) && byExplicitFunction e.base p.base)

/-- the expression `static_cast<P>(…)` -/
def castExpr (p : Param) : ExprTy := retExpr p

def castAll : List Param → List ExprTy → Option (List ExprTy)
  | [], [] => some []
  | p :: ps, e :: es => if castOk p e then (castAll ps es).map (castExpr p :: ·) else none
  | _, _ => none

/-- The argument expressions the *inner* functor is invoked with, given the declared signature parameters;
    `none` = the adaptor's own `operator()` does not instantiate. -/
def adaptArgs (ad : Adaptor) (fn : Fn) (sigp : List Param) : Option (List ExprTy) :=
  match ad with
  | .none => some (sigp.map passed)
  | .hide loc =>
    let n := sigp.length
    if n == 0 then none else
    let i := loc.getD (n - 1)
    if i ≥ n then none else
    if hiddenRebuilt i n && ((sigp[i]?).map fun a => a.shape == .rref).getD false then none else
    tupleElems (sigp.take i ++ sigp.drop (i + 1))
  | .bind loc bound =>
    let n := sigp.length
    let i := loc.getD n
    if i > n then none else
    (tupleElems sigp).map fun es => es.take i ++ bound.map boundExpr ++ es.drop i
  | .retype =>
    if fn.kind.wrapped then castAll fn.params (sigp.map passed) else none

/-- does `slot<Sig> s = ad(fn);` / `signal<Sig>::connect(ad(fn))` compile? -/
def accepts (sig : Sig) (ad : Adaptor) (fn : Fn) : Bool :=
  match adaptArgs ad fn sig.params with
  | none => false
  | some args => invokeOk fn args && retOk fn.ret sig.ret

/-! ## Routes -/

inductive Route where
  | slotInit      -- `sigc::slot<Sig> s = functor;`
  | connect       -- `sigc::signal<Sig> sig; sig.connect(functor);`
  | signalConnect -- `sigc::signal_connect(sig, &f)` / `(sig, obj, &C::m)`
  | connectAccum  -- `sigc::signal<Sig>::accumulated<Acc> sig; sig.connect(functor);` (the same `slot<Sig>`)
  deriving DecidableEq, Repr, Inhabited

/-- `signal_connect` deduces `T_return, T_arg...` from the signal *and* from the function pointer: both must
    be identical; the method overloads exist for (non-const object, unqualified method) and
    (any object, const method) only. -/
def sigConnExact (sig : Sig) (fn : Fn) : Bool :=
  (match fn.kind with
   | .freeFn => true
   | .memFun objConst .none => !objConst
   | .memFun _ .const => true
   | _ => false)
  && fn.params == sig.params && fn.ret == sig.ret

def acceptsRoute (r : Route) (sig : Sig) (ad : Adaptor) (fn : Fn) : Bool :=
  match r with
  | .slotInit => accepts sig ad fn
  | .connect => accepts sig ad fn
  | .signalConnect => ad == .none && sigConnExact sig fn && accepts sig .none fn
  | .connectAccum => accepts sig ad fn

/-! ## The connect entry points (signal.h)

  `signal_with_accumulator<R, Acc, A...>` (base of `signal<R(A...)>` and `signal<R(A...)>::accumulated<Acc>`) and
  `trackable_signal_with_accumulator<R, Acc, A...>` (base of `trackable_signal<R(A...)>` and
  `trackable_signal<R(A...)>::accumulated<Acc>`) each declare

      connection connect(const slot_type&);        connection connect(slot_type&&);
      connection connect_first(const slot_type&);  connection connect_first(slot_type&&);

  with `slot_type = slot<R(A...)>`: sixteen entry points into the slot list.  Their bodies only forward to
  `signal_base::connect[_first](const slot_base& / slot_base&&)`, which stores whatever it is given **unchecked**;
  the declared parameter type `slot_type` is therefore the whole type check: an argument that is not a `slot_type`
  has to be converted by one of `slot_type`'s constructors (the template `slot(const T_functor&)`, whose `call_it`
  instantiation is the typed call), and that holds for an argument that is a slot *object* of another slot type as
  well (it is a functor like any other; `slot_base` is only its base class). -/

inductive SigClass where
  | signal        -- `sigc::signal<R(A...)>`            (signal_with_accumulator)
  | trackable     -- `sigc::trackable_signal<R(A...)>`  (trackable_signal_with_accumulator)
  deriving DecidableEq, Repr, Inhabited

inductive ConnFn where
  | connect | connectFirst
  deriving DecidableEq, Repr, Inhabited

inductive Overload where
  | constRef      -- `(const slot_type&)`
  | rvalueRef     -- `(slot_type&&)`
  deriving DecidableEq, Repr, Inhabited

/-- the overload set a call expression `sig.connect(x)` / `sig.connect_first(x)` names -/
structure CallFamily where
  cls : SigClass
  accumulated : Bool     -- `…::accumulated<Acc>`
  fn : ConnFn
  deriving DecidableEq, Repr, Inhabited

/-- one declared member function -/
structure EntryPoint where
  fam : CallFamily
  ov : Overload
  deriving DecidableEq, Repr, Inhabited

/-- the class type an entry point's parameter refers to -/
inductive EntryTy where
  | slotType      -- `slot_type` = `slot<R(A...)>`: the typed slot of this signal
  | slotBase      -- `slot_base`: the untyped base class of every slot (what `signal_base::connect` takes)
  deriving DecidableEq, Repr, Inhabited

structure EntryDecl where
  ty : EntryTy
  shape : Shape
  deriving DecidableEq, Repr, Inhabited

/-- **the table**: the declared parameter of each of the sixteen entry points, row by row as in signal.h
    (signal_with_accumulator: lines 423, 435, 462, 474; trackable_signal_with_accumulator: 728, 738, 765, 777;
    the `accumulated` variants inherit the same four members with another accumulator argument). -/
def entryDecl : EntryPoint → EntryDecl
  | ⟨⟨.signal, false, .connect⟩, .constRef⟩ => ⟨.slotType, .cref⟩
  | ⟨⟨.signal, false, .connect⟩, .rvalueRef⟩ => ⟨.slotType, .rref⟩
  | ⟨⟨.signal, false, .connectFirst⟩, .constRef⟩ => ⟨.slotType, .cref⟩
  | ⟨⟨.signal, false, .connectFirst⟩, .rvalueRef⟩ => ⟨.slotType, .rref⟩
  | ⟨⟨.signal, true, .connect⟩, .constRef⟩ => ⟨.slotType, .cref⟩
  | ⟨⟨.signal, true, .connect⟩, .rvalueRef⟩ => ⟨.slotType, .rref⟩
  | ⟨⟨.signal, true, .connectFirst⟩, .constRef⟩ => ⟨.slotType, .cref⟩
  | ⟨⟨.signal, true, .connectFirst⟩, .rvalueRef⟩ => ⟨.slotType, .rref⟩
  | ⟨⟨.trackable, false, .connect⟩, .constRef⟩ => ⟨.slotType, .cref⟩
  | ⟨⟨.trackable, false, .connect⟩, .rvalueRef⟩ => ⟨.slotType, .rref⟩
  | ⟨⟨.trackable, false, .connectFirst⟩, .constRef⟩ => ⟨.slotType, .cref⟩
  | ⟨⟨.trackable, false, .connectFirst⟩, .rvalueRef⟩ => ⟨.slotType, .rref⟩
  | ⟨⟨.trackable, true, .connect⟩, .constRef⟩ => ⟨.slotType, .cref⟩
  | ⟨⟨.trackable, true, .connect⟩, .rvalueRef⟩ => ⟨.slotType, .rref⟩
  | ⟨⟨.trackable, true, .connectFirst⟩, .constRef⟩ => ⟨.slotType, .cref⟩
  | ⟨⟨.trackable, true, .connectFirst⟩, .rvalueRef⟩ => ⟨.slotType, .rref⟩

/-- all sixteen -/
def allEntryPoints : List EntryPoint :=
  [SigClass.signal, SigClass.trackable].flatMap fun c =>
    [false, true].flatMap fun a =>
      [ConnFn.connect, ConnFn.connectFirst].flatMap fun f =>
        [Overload.constRef, Overload.rvalueRef].map fun o => ⟨⟨c, a, f⟩, o⟩

/-- if the argument is a slot *object* (no adaptor around it): its slot signature and how it is written -/
def argSlotSig (ad : Adaptor) (fn : Fn) : Option (Sig × ArgForm) :=
  match ad, fn.kind with
  | .none, .slotObj f => some (⟨fn.params, fn.ret⟩, f)
  | _, _ => none

/-- the argument "an object of type `slot<U>`, written `so` / `std::as_const(so)` / `std::move(so)`" -/
def slotArg (u : Sig) (form : ArgForm) : Fn := ⟨.slotObj form, u.params, u.ret⟩

/-- a reference of the given shape to a class `X` binds *directly* an expression `so` / `std::as_const(so)` /
    `std::move(so)` whose class type is `X` or derived from `X` ([dcl.init.ref]) -/
def refBindsObj (sh : Shape) (f : ArgForm) : Bool :=
  match sh with
  | .val | .cref => true
  | .lref => f == .lvalue
  | .rref => f == .rvalue

/-- a reference of the given shape binds the temporary an implicit conversion creates -/
def refBindsTemp (sh : Shape) : Bool := sh != .lref

/-- Is the call of **one** entry point (the overload selected by hand) with this argument well-formed?
    * the parameter is a `slot_type`: an argument that already is a `slot_type` object binds directly (or does not:
      `slot_type&&` and an lvalue); everything else — functors, adaptors, slot objects of **another** slot type — is
      implicitly converted by `slot_type`'s converting constructor, i.e. judged by `accepts`;
    * the parameter is a `slot_base` (no row of the table): every slot object binds directly by the derived-to-base
      conversion, whatever its signature; a functor does not convert (`slot_base` has no such constructor). -/
def entryAccepts (ep : EntryPoint) (sig : Sig) (ad : Adaptor) (fn : Fn) : Bool :=
  let d := entryDecl ep
  match d.ty, argSlotSig ad fn with
  | .slotType, some (u, form) =>
    if u == sig then refBindsObj d.shape form else accepts sig ad fn && refBindsTemp d.shape
  | .slotType, none => accepts sig ad fn && refBindsTemp d.shape
  | .slotBase, some (_, form) => refBindsObj d.shape form
  | .slotBase, none => false

/-- the call expression `sig.connect(x)` / `sig.connect_first(x)`: overload resolution over the pair.  A viable
    overload exists iff one of the two accepts; they are never ambiguous (an lvalue `slot_type` is viable for
    `const slot_type&` only; an rvalue `slot_type` prefers `slot_type&&`; both conversions of anything else go through
    the same constructor and the rvalue-reference binding is the better second standard conversion). -/
def callAccepts (c : CallFamily) (sig : Sig) (ad : Adaptor) (fn : Fn) : Bool :=
  entryAccepts ⟨c, .constRef⟩ sig ad fn || entryAccepts ⟨c, .rvalueRef⟩ sig ad fn

/-- what the driver is asked about: one entry point, or the call expression -/
inductive EntrySel where
  | one (ep : EntryPoint)
  | call (c : CallFamily)
  deriving DecidableEq, Repr, Inhabited

def selAccepts : EntrySel → Sig → Adaptor → Fn → Bool
  | .one ep => entryAccepts ep
  | .call c => callAccepts c

/-! ## C20: the function type of the erased call pointer -/

/-- types that occur in `call_it`'s function type -/
inductive CTy where
  | void
  | repPtr             -- `sigc::internal::slot_rep*`
  | par (p : Param)
  deriving DecidableEq, Repr, Inhabited

structure FnTy where
  ret : CTy
  params : List CTy
  deriving DecidableEq, Repr, Inhabited

def retTy : Ret → CTy
  | none => .void
  | some p => .par p

/-- `&slot_call<F, R, A...>::call_it` : `R (*)(slot_rep*, type_trait_take_t<A>...)` (slot.h, `call_it`),
    the type under which `address()` produces `call_` before erasing it to `hook`. -/
def callItType (r : Ret) : List Param → FnTy
  | as => ⟨retTy r, .repPtr :: as.map fun a => .par (take a)⟩

/-- `slot<R(A...)>::call_type` = `R (*)(rep_type*, type_trait_take_t<A>...)` (slot.h), written as the pack
    expansion it is: one parameter per signature parameter, after the representation pointer. -/
def takePack : List Param → List CTy
  | [] => []
  | a :: as => .par (take a) :: takePack as

def slotCallType (r : Ret) (as : List Param) : FnTy := ⟨retTy r, .repPtr :: takePack as⟩

/-- the places where `call_` is cast back and called -/
inductive CallSite where
  | slotCall    -- `slot::operator()`                      function_pointer_cast<call_type>
  | emitValue   -- `signal_emit<R, void, A...>::emit`      function_pointer_cast<call_type>, call_type = slot_type::call_type
  | emitVoid    -- `signal_emit<void, void, A...>::emit`   idem with R = void
  | emitAccum   -- `signal_emit<R, Acc, A...>`             no cast of its own: `std::apply(slot, a_)` → `slot::operator()`
  deriving DecidableEq, Repr, Inhabited

/-- **the table**: the function type `call_` is cast back to at each call site (checked against the code by
    `static_assert(std::is_same_v<…>)` probes in the correspondence). -/
def castBackTo : CallSite → Ret → List Param → FnTy
  | .slotCall, r, as => slotCallType r as
  | .emitValue, r, as => slotCallType r as
  | .emitVoid, _, as => slotCallType none as
  | .emitAccum, r, as => slotCallType r as

/-- a call site exists only for the signatures its template is selected for -/
def siteApplies : CallSite → Ret → Bool
  | .emitVoid, r => r == none
  | .emitValue, r => r != none
  | _, _ => true

/-- the argument expression each call site passes for a declared parameter `a`:
    `slot::operator()` and the void emitter forward; the value emitter passes the named parameter `a...`;
    the accumulating emitter copies the parameters into `std::tuple<take_t<A>...>` (constructor
    `signal_emit(take_t<A>... a) : a_(a...)`) and `std::apply`s the const tuple. -/
def siteArg (s : CallSite) (a : Param) : ExprTy :=
  match s with
  | .slotCall | .emitVoid => fwd (take a)
  | .emitValue | .emitAccum => named (take a)

/-- does the call at this site compile for a declared parameter `a`? (the parameter of `call_type` is `take a`) -/
def siteOk (s : CallSite) (a : Param) : Bool := binds (take a) (siteArg s a)

/-! ## Driver (`sigc_model types`) -/

def parseBase : String → Option Base
  | "int" => some .int | "long" => some .long | "double" => some .double | "bool" => some .bool
  | "A" => some .clsA | "B" => some .clsB | "pA" => some .ptrA | "pB" => some .ptrB
  | "pcA" => some .cptrA | "E" => some .enumE | "Xb" => some .clsXb | "Xd" => some .clsXd
  | _ => none

def showBase : Base → String
  | .int => "int" | .long => "long" | .double => "double" | .bool => "bool"
  | .clsA => "A" | .clsB => "B" | .ptrA => "pA" | .ptrB => "pB" | .cptrA => "pcA"
  | .enumE => "E" | .clsXb => "Xb" | .clsXd => "Xd"

def parseShape : String → Option Shape
  | "v" => some .val | "l" => some .lref | "c" => some .cref | "r" => some .rref
  | _ => none

def showShape : Shape → String
  | .val => "v" | .lref => "l" | .cref => "c" | .rref => "r"

/-- `int:v`, `A:l`, `pcA:r` … -/
def parseParam (s : String) : Option Param :=
  match s.splitOn ":" with
  | [b, sh] => do
    let b ← parseBase b
    let sh ← parseShape sh
    pure ⟨b, sh⟩
  | _ => none

def showParam (p : Param) : String := showBase p.base ++ ":" ++ showShape p.shape

/-- `int:l` lvalue, `int:cl` const lvalue, `int:x`, `int:cx`, `int:p` prvalue -/
def parseExpr (s : String) : Option ExprTy :=
  match s.splitOn ":" with
  | [b, c] => do
    let b ← parseBase b
    match c with
    | "l" => pure ⟨b, false, .lvalue⟩
    | "cl" => pure ⟨b, true, .lvalue⟩
    | "x" => pure ⟨b, false, .xvalue⟩
    | "cx" => pure ⟨b, true, .xvalue⟩
    | "p" => pure ⟨b, false, .prvalue⟩
    | _ => none
  | _ => none

def showExpr (e : ExprTy) : String :=
  showBase e.base ++ ":" ++ (if e.const then "c" else "") ++
    (match e.cat with | .lvalue => "l" | .xvalue => "x" | .prvalue => "p")

def parseRet (s : String) : Option Ret :=
  if s == "void" then some none else (parseParam s).map some

def parseList {α} (f : String → Option α) (s : String) : Option (List α) :=
  if s == "-" then some [] else (s.splitOn ",").mapM f

def parseMQ : String → Option MQ
  | "n" => some .none | "c" => some .const | "v" => some .volatile | "cv" => some .constVolatile
  | _ => none

def parseKind (s : String) : Option Kind :=
  match s.splitOn ":" with
  | ["fn"] => some .freeFn
  | ["ptrfun"] => some .ptrFun
  | ["fobj"] => some .fobj
  | ["fobjc"] => some .fobjConst
  | ["lam"] => some .lambda
  | ["lammut"] => some .lambdaMut
  | ["mem", o, q] => do
    let q ← parseMQ q
    match o with
    | "o" => pure (.memFun false q)
    | "c" => pure (.memFun true q)
    | _ => none
  | ["slotobj", "l"] => some (.slotObj .lvalue)
  | ["slotobj", "c"] => some (.slotObj .constLvalue)
  | ["slotobj", "r"] => some (.slotObj .rvalue)
  | _ => none

def parseLoc (s : String) : Option (Option Nat) :=
  if s == "last" then some none else s.toNat?.map some

/-- `none`, `hide:last`, `hide:0`, `bind:last:int,pA`, `bind:1:long`, `retype` -/
def parseAdaptor (s : String) : Option Adaptor :=
  match s.splitOn ":" with
  | ["none"] => some .none
  | ["retype"] => some .retype
  | ["hide", l] => (parseLoc l).map .hide
  | ["bind", l, bs] => do
    let l ← parseLoc l
    let bs ← parseList parseBase bs
    pure (.bind l bs)
  | _ => none

def parseRoute : String → Option Route
  | "slot" => some .slotInit | "connect" => some .connect | "sigconn" => some .signalConnect
  | "accum" => some .connectAccum
  | _ => none

/-- `ep:<sig|tsig>:<plain|acc>:<connect|first>:<c|r|any>` — one of the sixteen entry points (`c` = the
    `const slot_type&` overload, `r` = the `slot_type&&` overload, selected by hand), or (`any`) the call expression -/
def parseEntrySel (s : String) : Option EntrySel :=
  match s.splitOn ":" with
  | ["ep", c, a, f, o] => do
    let c ← (match c with | "sig" => some SigClass.signal | "tsig" => some SigClass.trackable | _ => none)
    let a ← (match a with | "plain" => some false | "acc" => some true | _ => none)
    let f ← (match f with | "connect" => some ConnFn.connect | "first" => some ConnFn.connectFirst | _ => none)
    match o with
    | "c" => pure (.one ⟨⟨c, a, f⟩, .constRef⟩)
    | "r" => pure (.one ⟨⟨c, a, f⟩, .rvalueRef⟩)
    | "any" => pure (.call ⟨c, a, f⟩)
    | _ => none
  | _ => none

def parseSite : String → Option CallSite
  | "slotcall" => some .slotCall | "emitvalue" => some .emitValue | "emitvoid" => some .emitVoid
  | "emitaccum" => some .emitAccum
  | _ => none

/-- `key=value` -/
def field (k : String) (ws : List String) : Option String :=
  ws.findSome? fun w =>
    match w.splitOn "=" with
    | [k', v] => if k' == k then some v else none
    | _ => none

/-- why a probe is rejected (diagnostic only; the verdict is `acceptsRoute`) -/
def reason (r : Route) (sig : Sig) (ad : Adaptor) (fn : Fn) : String :=
  if !fn.kind.objOk then "object"
  else if r == .signalConnect && !(ad == .none && sigConnExact sig fn) then "inexact"
  else match adaptArgs ad fn sig.params with
    | none => "adaptor"
    | some args =>
      if args.length != fn.params.length then "arity"
      else if !invokeOk fn args then "param"
      else if !retOk fn.ret sig.ret then "result"
      else "?"

/-- why an entry-point probe is rejected (diagnostic only; the verdict is `selAccepts`) -/
def reasonEntry (sig : Sig) (ad : Adaptor) (fn : Fn) : String :=
  if accepts sig ad fn then "refbind" else reason .connect sig ad fn

def showCTy : CTy → String
  | .void => "void" | .repPtr => "rep*" | .par p => showParam p

def showFnTy (t : FnTy) : String :=
  showCTy t.ret ++ "(" ++ ",".intercalate (t.params.map showCTy) ++ ")"

def boolStr (b : Bool) : String := if b then "true" else "false"

/-- one driver case per input line → one output line.

    * `probe <route> <adaptor> <kind> R=<ret> S=<params|-> FR=<ret> FP=<params|->` → `accept` | `reject <why>`
      (`<route>` = `slot` | `connect` | `sigconn` | `accum` | `ep:<sig|tsig>:<plain|acc>:<connect|first>:<c|r|any>`;
      `<kind>` = `slotobj:<l|c|r>`: the argument is an object of type `sigc::slot<FR(FP...)>`)
    * `binds <param> <expr>` / `cast <param> <expr>` → `true` | `false`
    * `conv <base> <base>` → `implicit` | `explicit` | `none`
    * `passed <param>` → expression token; `chain <param> <expr>` → expression token | `none`
    * `c20 <site> R=<ret> S=<params|->` → `produced=<fnty> castback=<fnty> equal=<bool> applies=<bool> argsok=<bool>` -/
def processLine (line : String) : String :=
  match words line with
  | "probe" :: r :: ad :: k :: rest =>
    match parseRoute r, parseAdaptor ad, parseKind k, (field "R" rest).bind parseRet,
      (field "S" rest).bind (parseList parseParam), (field "FR" rest).bind parseRet,
      (field "FP" rest).bind (parseList parseParam) with
    | some r, some ad, some k, some sr, some sp, some fr, some fp =>
      let sig : Sig := ⟨sp, sr⟩
      let fn : Fn := ⟨k, fp, fr⟩
      if acceptsRoute r sig ad fn then "accept" else "reject " ++ reason r sig ad fn
    | none, some ad, some k, some sr, some sp, some fr, some fp =>
      match parseEntrySel r with
      | some sel =>
        let sig : Sig := ⟨sp, sr⟩
        let fn : Fn := ⟨k, fp, fr⟩
        if selAccepts sel sig ad fn then "accept" else "reject " ++ reasonEntry sig ad fn
      | none => "error parse"
    | _, _, _, _, _, _, _ => "error parse"
  | ["binds", p, e] =>
    match parseParam p, parseExpr e with
    | some p, some e => boolStr (binds p e)
    | _, _ => "error parse"
  | ["cast", p, e] =>
    match parseParam p, parseExpr e with
    | some p, some e => boolStr (castOk p e)
    | _, _ => "error parse"
  | ["conv", s, t] =>
    match parseBase s, parseBase t with
    | some s, some t => if conv s t then "implicit" else if onlyExplicit s t then "explicit" else "none"
    | _, _ => "error parse"
  | ["passed", p] =>
    match parseParam p with
    | some p => showExpr (passed p)
    | none => "error parse"
  | ["chain", p, e] =>
    match parseParam p, parseExpr e with
    | some p, some e => (match chain p e with | some e' => showExpr e' | none => "none")
    | _, _ => "error parse"
  | "c20" :: s :: rest =>
    match parseSite s, (field "R" rest).bind parseRet, (field "S" rest).bind (parseList parseParam) with
    | some s, some r, some ps =>
      "produced=" ++ showFnTy (callItType r ps) ++ " castback=" ++ showFnTy (castBackTo s r ps)
        ++ " equal=" ++ boolStr (callItType r ps == castBackTo s r ps)
        ++ " applies=" ++ boolStr (siteApplies s r)
        ++ " argsok=" ++ boolStr (ps.all (siteOk s))
    | _, _, _ => "error parse"
  | _ => "error unknown " ++ line

end Sigc.Types
