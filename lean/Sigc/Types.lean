import Sigc.Basic
/-! component model `Types` — see DESIGN.md §3.2 (stub, replaced by the real model) -/
namespace Sigc.Types

/-- one driver case per input line → one output line -/
def processLine (line : String) : String := "unimplemented " ++ line

end Sigc.Types
