import Sigc.Visit
/-! helper lemmas for C09 (kept apart from the property statements) -/
namespace Sigc.Visit

/-! ### `Rep` algebra -/

theorem Rep.allRegs_append (a b : Rep) : (a.append b).allRegs = a.allRegs ++ b.allRegs := by
  induction a with
  | done => simp [Rep.append, Rep.allRegs]
  | reg t r ih => simp [Rep.append, Rep.allRegs, ih]
  | kid k r _ ih => simp [Rep.append, Rep.allRegs, ih]

theorem Rep.regs_append (a b : Rep) : (a.append b).regs = a.regs ++ b.regs := by
  induction a with
  | done => simp [Rep.append, Rep.regs]
  | reg t r ih => simp [Rep.append, Rep.regs, ih]
  | kid k r _ ih => simp [Rep.append, Rep.regs, ih]

theorem Rep.append_done (a : Rep) : a.append .done = a := by
  induction a with
  | done => rfl
  | reg t r ih => simp [Rep.append, ih]
  | kid k r _ ih => simp [Rep.append, ih]

theorem extIds_append (a b : List Tgt) : extIds (a ++ b) = extIds a ++ extIds b := by
  induction a with
  | nil => simp [extIds]
  | cons x l ih => cases x <;> simp [extIds, ih]

theorem mem_extIds (i : Nat) (l : List Tgt) : i ∈ extIds l ↔ Tgt.ext i ∈ l := by
  induction l with
  | nil => simp [extIds]
  | cons x l ih => cases x <;> simp [extIds, ih]

theorem Rep.invalidatedBy_iff (t : Nat) (r : Rep) :
    r.invalidatedBy t = true ↔ Tgt.ext t ∈ r.allRegs := by
  induction r with
  | done => simp [Rep.invalidatedBy, Rep.allRegs]
  | reg u r ih =>
    simp [Rep.invalidatedBy, Rep.allRegs, ih]
    constructor
    · rintro (h | h)
      · exact Or.inl h.symm
      · exact Or.inr h
    · rintro (h | h)
      · exact Or.inl h.symm
      · exact Or.inr h
  | kid k r ihk ih => simp [Rep.invalidatedBy, Rep.allRegs, ihk, ih]

/-- the external registrations of a rep tree -/
def E (r : Rep) : List Nat := extIds r.allRegs

theorem E_append (a b : Rep) : E (a.append b) = E a ++ E b := by
  simp [E, Rep.allRegs_append, extIds_append]

theorem E_done : E .done = [] := rfl

theorem E_seq_map {α} (f : α → Rep) (l : List α) :
    E (Rep.seq (l.map f)) = l.flatMap (fun x => E (f x)) := by
  induction l with
  | nil => simp [Rep.seq, E_done]
  | cons x l ih =>
    have : Rep.seq ((x :: l).map f) = (f x).append (Rep.seq (l.map f)) := by simp [Rep.seq]
    rw [this, E_append, ih]; simp

/-! ### the rows of `codeTable` -/

theorem E_visitPrimary_own (i : Nat) (ty : STy) : E (visitPrimary codeTable (.own i) ty) = [] := by
  cases ty <;> simp [visitPrimary, act, row, codeTable, Rep.seq, Rep.append, E, Rep.allRegs, extIds]

theorem E_visitLimRef (o : Obj) : E (visitLimRef codeTable o) = o.trk := by
  cases h : o.kind.derivesTrackable <;>
    simp [visitLimRef, visitPrimary, act, STy.limited, row, codeTable, Rep.seq, Rep.append, E, Rep.allRegs,
      extIds, Obj.trk, h]

/-- an object visited with its own type (no `limit_reference`): `limit_trackable_target` lets it through iff its
    class derives from `trackable`, and `operator()(const trackable&)` takes it by derived-to-base conversion -/
theorem E_visitPrimary_ext (o : Obj) : E (visitPrimary codeTable (.ext o.id) (STy.ofKind o.kind)) = o.trk := by
  cases h : o.kind.derivesTrackable <;>
    simp [visitPrimary, act, STy.ofKind, row, codeTable, Rep.seq, Rep.append, E, Rep.allRegs, extIds,
      Obj.trk, h]

/-- the `bound_argument` row: one member, `visit` -/
theorem E_bound_row (f : Mem → Rep) : E (row codeTable .bound_argument f) = E (f .visit) := by
  simp [row, codeTable, Rep.seq]
  rw [E_append]; simp [E_done]

/-- `boundLeafTable` has the action row of `codeTable` -/
theorem act_boundLeafTable (t : Tgt) (ty : STy) : act boundLeafTable t ty = act codeTable t ty := by
  cases ty <;> rfl

theorem visitObjs_boundLeafTable (ts : List Obj) : visitObjs boundLeafTable ts = visitObjs codeTable ts := by
  have : visitLimRef boundLeafTable = visitLimRef codeTable := funext fun _ => rfl
  simp [visitObjs, this]

/-! ### `byTypeDroppedTable`: the same rows, another overload set of the action -/

theorem act_byType_limited (t : Tgt) (k : Kind) :
    act byTypeDroppedTable t (STy.limited k) = act codeTable t (STy.limited k) := by
  cases k <;> rfl

theorem act_byType_other (t : Tgt) : act byTypeDroppedTable t .other = act codeTable t .other := rfl

theorem visitLimRef_byType (o : Obj) : visitLimRef byTypeDroppedTable o = visitLimRef codeTable o := by
  simp [visitLimRef, visitPrimary, row, byTypeDroppedTable, codeTable, act_byType_limited]

theorem visitObjs_byType (ts : List Obj) : visitObjs byTypeDroppedTable ts = visitObjs codeTable ts := by
  have : visitLimRef byTypeDroppedTable = visitLimRef codeTable := funext visitLimRef_byType
  simp [visitObjs, this]

theorem refsOf_eq_flatMap (bs : List BArg) : refsOf bs = bs.flatMap BArg.refs := by
  induction bs with
  | nil => simp [refsOf]
  | cons b bs ih => simp [refsOf, ih]

theorem E_visitObjs (ts : List Obj) : E (visitObjs codeTable ts) = ts.flatMap Obj.trk := by
  simp [visitObjs, E_seq_map, E_visitLimRef]

theorem E_stored (b : Bool) (r : Rep) : E (stored codeTable b r) = E r := by
  cases b
  · simp [stored, row, codeTable, Rep.seq]
    rw [E_append]; simp [E_done]
  · simp [stored]

theorem E_kid (k : Rep) : E (.kid k .done) = E k := by
  simp [E, Rep.allRegs]

/-! ### rep trees without inner reps -/

def Rep.noKids : Rep → Bool
  | .done => true
  | .reg _ r => r.noKids
  | .kid _ _ => false

theorem Rep.noKids_append (a b : Rep) : (a.append b).noKids = (a.noKids && b.noKids) := by
  induction a with
  | done => simp [Rep.append, Rep.noKids]
  | reg t r ih => simp [Rep.append, Rep.noKids, ih]
  | kid k r _ _ => simp [Rep.append, Rep.noKids]

theorem Rep.regs_eq_allRegs_of_noKids (r : Rep) (h : r.noKids = true) : r.regs = r.allRegs := by
  induction r with
  | done => rfl
  | reg t r ih => simp [Rep.regs, Rep.allRegs, ih (by simpa [Rep.noKids] using h)]
  | kid k r _ _ => simp [Rep.noKids] at h

theorem noKids_seq_map {α} (f : α → Rep) (l : List α) (h : ∀ x ∈ l, (f x).noKids = true) :
    (Rep.seq (l.map f)).noKids = true := by
  induction l with
  | nil => simp [Rep.seq, Rep.noKids]
  | cons x l ih =>
    have : Rep.seq ((x :: l).map f) = (f x).append (Rep.seq (l.map f)) := by simp [Rep.seq]
    rw [this, Rep.noKids_append, h x (by simp), ih (fun y hy => h y (by simp [hy]))]; rfl

theorem noKids_visitPrimary (t : Tgt) (ty : STy) : (visitPrimary codeTable t ty).noKids = true := by
  cases ty <;> simp [visitPrimary, act, row, codeTable, Rep.seq, Rep.append, Rep.noKids]

theorem noKids_visitLimRef (o : Obj) : (visitLimRef codeTable o).noKids = true := by
  simp [visitLimRef, row, codeTable, Rep.seq, Rep.noKids_append, noKids_visitPrimary, Rep.noKids]

theorem noKids_visitObjs (ts : List Obj) : (visitObjs codeTable ts).noKids = true :=
  noKids_seq_map _ _ (fun o _ => noKids_visitLimRef o)

theorem noKids_stored (b : Bool) (r : Rep) (h : r.noKids = true) :
    (stored codeTable b r).noKids = true := by
  cases b <;> simp [stored, row, codeTable, Rep.seq, Rep.noKids_append, h, Rep.noKids]

mutual
theorem noKids_scan (e : FExpr) (h : slotFree e = true) : (scan codeTable e).noKids = true := by
  match e with
  | .leaf => simp [scan, noKids_visitPrimary]
  | .memFun o => simp [scan, row, codeTable, Rep.seq, Rep.noKids_append, noKids_visitLimRef, Rep.noKids]
  | .makeSlot o => simp [scan, row, codeTable, Rep.seq, Rep.noKids_append, noKids_visitLimRef, Rep.noKids]
  | .signalConnect o =>
    simp [scan, row, codeTable, Rep.seq, Rep.noKids_append, noKids_visitLimRef, Rep.noKids]
  | .bind pos f bs =>
    simp [slotFree] at h
    have hf := noKids_scan f h.1
    have hb := noKids_visitTuple bs h.2
    cases pos <;>
      simp [scan, row, codeTable, Rep.seq, Rep.noKids_append, noKids_stored, hf, hb, Rep.noKids]
  | .bindReturn f b =>
    simp [slotFree] at h
    have hf := noKids_scan f h.1
    have hb := noKids_visitBound b h.2
    simp [scan, row, codeTable, Rep.seq, Rep.noKids_append, noKids_stored, hf, hb, Rep.noKids]
  | .hide pos f =>
    have hf := noKids_scan f (by simpa [slotFree] using h)
    simp [scan, row, codeTable, Rep.seq, Rep.noKids_append, noKids_stored, hf, Rep.noKids]
  | .hideReturn f =>
    have hf := noKids_scan f (by simpa [slotFree] using h)
    simp [scan, row, codeTable, Rep.seq, Rep.noKids_append, noKids_stored, hf, Rep.noKids]
  | .retype f =>
    have hf := noKids_scan f (by simpa [slotFree] using h)
    simp [scan, row, codeTable, Rep.seq, Rep.noKids_append, noKids_stored, hf, Rep.noKids]
  | .retypeReturn f =>
    have hf := noKids_scan f (by simpa [slotFree] using h)
    simp [scan, row, codeTable, Rep.seq, Rep.noKids_append, noKids_stored, hf, Rep.noKids]
  | .compose1 s g =>
    simp [slotFree] at h
    simp [scan, row, codeTable, Rep.seq, Rep.noKids_append, noKids_stored, noKids_scan s h.1,
      noKids_scan g h.2, Rep.noKids]
  | .compose2 s g1 g2 =>
    simp [slotFree] at h
    simp [scan, row, codeTable, Rep.seq, Rep.noKids_append, noKids_stored, noKids_scan s h.1.1,
      noKids_scan g1 h.1.2, noKids_scan g2 h.2, Rep.noKids]
  | .exceptionCatch f c =>
    simp [slotFree] at h
    simp [scan, row, codeTable, Rep.seq, Rep.noKids_append, noKids_stored, noKids_scan f h.1,
      noKids_scan c h.2, Rep.noKids]
  | .trackObj f ts =>
    have hf := noKids_scan f (by simpa [slotFree] using h)
    simp [scan, row, codeTable, Rep.seq, Rep.noKids_append, noKids_stored, hf, noKids_visitObjs,
      Rep.noKids]
  | .slot f => simp [slotFree] at h

theorem noKids_visitBound (b : BArg) (h : b.slotFree = true) :
    (visitBound codeTable b).noKids = true := by
  match b with
  | .val | .ref o | .cref o | .copy o | .xref o | .xcref o =>
    simp [visitBound, row, codeTable, Rep.seq, Rep.noKids_append, noKids_visitPrimary,
      noKids_visitLimRef, Rep.noKids]
  | .fn e =>
    have he := noKids_scan e (by simpa [BArg.slotFree] using h)
    simp [visitBound, row, codeTable, Rep.seq, Rep.noKids_append, he, Rep.noKids]

theorem noKids_visitTuple (bs : List BArg) (h : slotFreeArgs bs = true) :
    (visitTuple codeTable bs).noKids = true := by
  match bs with
  | [] => simp [visitTuple, Rep.noKids]
  | b :: bs =>
    simp [slotFreeArgs] at h
    simp [visitTuple, Rep.noKids_append, noKids_visitBound b h.1, noKids_visitTuple bs h.2]
end

/-! ### the callback list -/

theorem liveCount_append (d : Nat) (a b : List Entry) :
    liveCount d (a ++ b) = liveCount d a + liveCount d b := by
  induction a with
  | nil => simp [liveCount]
  | cons e l ih => simp [liveCount, ih]; omega

theorem liveCount_addCb (d d' : Nat) (l : List Entry) :
    liveCount d (addCb false d' l) = liveCount d l + (if d' = d then 1 else 0) := by
  simp [addCb, liveCount_append, liveCount]

theorem liveCount_removeCb_same (d : Nat) (l : List Entry) :
    liveCount d (removeCb false d l) = liveCount d l - 1 := by
  induction l with
  | nil => simp [removeCb, liveCount]
  | cons e l ih =>
    by_cases h : e.data = d ∧ e.live = true
    · simp [removeCb, liveCount, h]
    · simp [removeCb, liveCount, h, ih]

theorem liveCount_removeCb_other (d d' : Nat) (hd : d' ≠ d) (l : List Entry) :
    liveCount d (removeCb false d' l) = liveCount d l := by
  induction l with
  | nil => simp [removeCb, liveCount]
  | cons e l ih =>
    by_cases h : e.data = d' ∧ e.live = true
    · have h3 : ¬ (e.data = d ∧ e.live = true) := fun h2 => hd (h.1.symm.trans h2.1)
      rw [show removeCb false d' (e :: l) = l by simp [removeCb, h]]
      rw [show liveCount d (e :: l) = 0 + liveCount d l by simp [liveCount, h3]]
      omega
    · simp [removeCb, liveCount, h, ih]

theorem others_cons (d : Nat) (e : Entry) (l : List Entry) :
    others d (e :: l) = if e.data = d then others d l else e :: others d l := by
  by_cases h : e.data = d <;> simp [others, h]

theorem others_addCb_same (d : Nat) (l : List Entry) : others d (addCb false d l) = others d l := by
  simp [others, addCb, List.filter_append]

theorem others_addCb_other (d d' : Nat) (hd : d' ≠ d) (l : List Entry) :
    others d (addCb false d' l) = addCb false d' (others d l) := by
  simp [others, addCb, List.filter_append, hd]

theorem others_removeCb_same (d : Nat) (l : List Entry) :
    others d (removeCb false d l) = others d l := by
  induction l with
  | nil => simp [removeCb, others]
  | cons e l ih =>
    by_cases h : e.data = d ∧ e.live = true
    · rw [show removeCb false d (e :: l) = l by simp [removeCb, h], others_cons, if_pos h.1]
    · rw [show removeCb false d (e :: l) = e :: removeCb false d l by simp [removeCb, h],
        others_cons, others_cons, ih]

theorem others_removeCb_other (d d' : Nat) (hd : d' ≠ d) (l : List Entry) :
    others d (removeCb false d' l) = removeCb false d' (others d l) := by
  induction l with
  | nil => simp [removeCb, others]
  | cons e l ih =>
    by_cases h : e.data = d' ∧ e.live = true
    · have hne : ¬ e.data = d := fun h2 => hd (h.1.symm.trans h2)
      rw [show removeCb false d' (e :: l) = l by simp [removeCb, h], others_cons, if_neg hne]
      simp [removeCb, h]
    · rw [show removeCb false d' (e :: l) = e :: removeCb false d' l by simp [removeCb, h],
        others_cons, others_cons, ih]
      by_cases h2 : e.data = d
      · simp [h2]
      · simp [h2, removeCb, h]

/-! ### worlds -/

theorem run_append (w : World) (a b : List Op) : run w (a ++ b) = run (run w a) b := by
  simp [run, List.foldl_append]

theorem run_cons (w : World) (x : Op) (a : List Op) : run w (x :: a) = run (step w x) a := rfl

/-- the count of `r`'s live entries after an operation of `r` depends only on the count before -/
theorem liveCount_step_same (r : Nat) (w1 w2 : World) (x : Op) (hx : x.data = r)
    (h : ∀ u, liveCount r (w1 u) = liveCount r (w2 u)) :
    ∀ u, liveCount r (step w1 x u) = liveCount r (step w2 x u) := by
  intro u
  cases x with
  | add t d =>
    simp [Op.data] at hx; subst hx
    by_cases hu : u = t
    · simp [step, hu, liveCount_addCb, h]
    · simp [step, hu, h]
  | remove t d =>
    simp [Op.data] at hx; subst hx
    by_cases hu : u = t
    · simp [step, hu, liveCount_removeCb_same, h]
    · simp [step, hu, h]

theorem liveCount_step_other (r : Nat) (w : World) (x : Op) (hx : x.data ≠ r) :
    ∀ u, liveCount r (step w x u) = liveCount r (w u) := by
  intro u
  cases x with
  | add t d =>
    simp [Op.data] at hx
    by_cases hu : u = t
    · simp [step, hu, liveCount_addCb, hx]
    · simp [step, hu]
  | remove t d =>
    simp [Op.data] at hx
    by_cases hu : u = t
    · simp [step, hu, liveCount_removeCb_other _ _ hx]
    · simp [step, hu]

theorem others_step_same (r : Nat) (w : World) (x : Op) (hx : x.data = r) :
    ∀ u, others r (step w x u) = others r (w u) := by
  intro u
  cases x with
  | add t d =>
    simp [Op.data] at hx; subst hx
    by_cases hu : u = t
    · simp [step, hu, others_addCb_same]
    · simp [step, hu]
  | remove t d =>
    simp [Op.data] at hx; subst hx
    by_cases hu : u = t
    · simp [step, hu, others_removeCb_same]
    · simp [step, hu]

theorem others_step_other (r : Nat) (w1 w2 : World) (x : Op) (hx : x.data ≠ r)
    (h : ∀ u, others r (w1 u) = others r (w2 u)) :
    ∀ u, others r (step w1 x u) = others r (step w2 x u) := by
  intro u
  cases x with
  | add t d =>
    simp [Op.data] at hx
    by_cases hu : u = t
    · simp [step, hu, others_addCb_other _ _ hx, h]
    · simp [step, hu, h]
  | remove t d =>
    simp [Op.data] at hx
    by_cases hu : u = t
    · simp [step, hu, others_removeCb_other _ _ hx, h]
    · simp [step, hu, h]

/-- operations of other slots do not change `r`'s registrations: an interleaved run leaves the same
    number of live entries of `r` everywhere as `r`'s own operations alone -/
theorem liveCount_interleave (r : Nat) {a b s : List Op} (hi : Interleave a b s)
    (ha : ∀ x ∈ a, x.data = r) (hb : ∀ x ∈ b, x.data ≠ r) :
    ∀ w1 w2 : World, (∀ u, liveCount r (w1 u) = liveCount r (w2 u)) →
      ∀ u, liveCount r (run w1 s u) = liveCount r (run w2 a u) := by
  induction hi with
  | nil => intro w1 w2 h u; simpa [run] using h u
  | left x _ ih =>
    intro w1 w2 h u
    rw [run_cons, run_cons]
    exact ih (fun y hy => ha y (by simp [hy])) hb _ _
      (liveCount_step_same r w1 w2 x (ha x (by simp)) h) u
  | right x _ ih =>
    intro w1 w2 h u
    rw [run_cons]
    refine ih ha (fun y hy => hb y (by simp [hy])) _ _ ?_ u
    intro v
    rw [liveCount_step_other r w1 x (hb x (by simp)) v]; exact h v

/-- and `r`'s operations do not change anybody else's entries -/
theorem others_interleave (r : Nat) {a b s : List Op} (hi : Interleave a b s)
    (ha : ∀ x ∈ a, x.data = r) (hb : ∀ x ∈ b, x.data ≠ r) :
    ∀ w1 w2 : World, (∀ u, others r (w1 u) = others r (w2 u)) →
      ∀ u, others r (run w1 s u) = others r (run w2 b u) := by
  induction hi with
  | nil => intro w1 w2 h u; simpa [run] using h u
  | left x _ ih =>
    intro w1 w2 h u
    rw [run_cons]
    refine ih (fun y hy => ha y (by simp [hy])) hb _ _ ?_ u
    intro v
    rw [others_step_same r w1 x (ha x (by simp)) v]; exact h v
  | right x _ ih =>
    intro w1 w2 h u
    rw [run_cons, run_cons]
    exact ih ha (fun y hy => hb y (by simp [hy])) _ _
      (others_step_other r w1 w2 x (hb x (by simp)) h) u

theorem liveCount_run_bindOps (r : Nat) (ts : List Tgt) :
    ∀ (w : World) (u : Tgt), liveCount r (run w (bindOps r ts) u) = liveCount r (w u) + ts.count u := by
  induction ts with
  | nil => intro w u; simp [bindOps, run]
  | cons t ts ih =>
    intro w u
    have : bindOps r (t :: ts) = Op.add t r :: bindOps r ts := rfl
    rw [this, run_cons, ih]
    by_cases hu : u = t
    · subst hu; simp [step, liveCount_addCb]; omega
    · have : (t == u) = false := by simp [Ne.symm hu]
      simp [step, hu, List.count_cons, this]

theorem liveCount_run_unbindOps (r : Nat) (ts : List Tgt) :
    ∀ (w : World) (u : Tgt),
      liveCount r (run w (unbindOps r ts) u) = liveCount r (w u) - ts.count u := by
  induction ts with
  | nil => intro w u; simp [unbindOps, run]
  | cons t ts ih =>
    intro w u
    have : unbindOps r (t :: ts) = Op.remove t r :: unbindOps r ts := rfl
    rw [this, run_cons, ih]
    by_cases hu : u = t
    · subst hu; simp [step, liveCount_removeCb_same]; omega
    · have : (t == u) = false := by simp [Ne.symm hu]
      simp [step, hu, List.count_cons, this]

theorem data_bindOps (r : Nat) (ts : List Tgt) : ∀ x ∈ bindOps r ts, x.data = r := by
  intro x hx; simp [bindOps] at hx; obtain ⟨t, _, rfl⟩ := hx; rfl

theorem data_unbindOps (r : Nat) (ts : List Tgt) : ∀ x ∈ unbindOps r ts, x.data = r := by
  intro x hx; simp [unbindOps] at hx; obtain ⟨t, _, rfl⟩ := hx; rfl

end Sigc.Visit
